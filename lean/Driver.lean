import FormulaicVerif.Engines
/-! Line-protocol driver: one JSON request per input line, one JSON answer per output line.
Run as `lake env lean --run Driver.lean < requests`. -/
open Lean FormulaicVerif.Engines

partial def loop (h : IO.FS.Stream) (out : IO.FS.Stream) : IO Unit := do
  let line ← h.getLine
  if line.isEmpty then return ()
  let ans : Json :=
    match Json.parse line with
    | .error e => jerr ("bad-json: " ++ e)
    | .ok j => dispatch (jstr j "e") j
  out.putStrLn ans.compress
  loop h out

def main : IO Unit := do
  let out ← IO.getStdout
  loop (← IO.getStdin) out
  out.flush
