-- Root of the `FormulaicVerif` library: models, specs, generated tables, proofs, property theorems, engines.
import FormulaicVerif.Engines
import FormulaicVerif.Gen.OperatorTable
import FormulaicVerif.Gen.Names
import FormulaicVerif.Gen.KindTable
import FormulaicVerif.Gen.Plumbing
