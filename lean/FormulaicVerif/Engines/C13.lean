import FormulaicVerif.Engines.Json
import FormulaicVerif.Model.Scale
import FormulaicVerif.Model.Poly
import FormulaicVerif.Model.Elementwise
/-! Engine for C13: runs `Model.Scale.run/center/standardize`, `Model.Poly.run` and
`Model.Elementwise.lookup/exactAt` at the carrier `Rat`.  Rationals travel as "p/q" strings. -/
namespace FormulaicVerif.Engines.C13
open Lean FormulaicVerif.Engines
open FormulaicVerif.Model

def ratOfString (s : String) : Rat :=
  match s.splitOn "/" with
  | [p] => ((p.toInt?.getD 0 : Int) : Rat)
  | [p, q] => mkRat (p.toInt?.getD 0) (q.toNat?.getD 1)
  | _ => 0

def ratJ (r : Rat) : Json := Json.str (toString r.num ++ "/" ++ toString r.den)
def ratOf (j : Json) : Rat := ratOfString (asStr j)
def optRatOf : Json → Option Rat
  | .str s => some (ratOfString s)
  | _ => none
def optRatJ : Option Rat → Json
  | none => Json.null
  | some r => ratJ r

/-! ### scale / center / standardize -/

def argOf (j : Json) (dflt : Bool) : Scale.Arg Rat :=
  match j with
  | .bool b => .flag b
  | .str s => .value (ratOfString s)
  | _ => .flag dflt

/-- state JSON: key absent = not in `_state`; `null` = Python `None` -/
def scaleStateOf (j : Json) : Scale.State Rat :=
  let key (k : String) : Option (Option Rat) :=
    match j.getObjVal? k with
    | .ok v => some (optRatOf v)
    | .error _ => none
  { ddof := (key "ddof").bind id, center := key "center", scale := key "scale" }

def scaleStateJ (s : Scale.State Rat) : Json :=
  Json.mkObj <|
    (match s.ddof with | none => [] | some d => [("ddof", ratJ d)]) ++
    (match s.center with | none => [] | some c => [("center", optRatJ c)]) ++
    (match s.scale with | none => [] | some c => [("scale", optRatJ c)])

def scaleCall (st : Scale.State Rat) (c : Json) : Except Scale.NumErr (List Rat × Scale.State Rat) :=
  let data := (jarr c "data").map ratOf
  let s : Rat := (optRatOf (jval c "sqrt")).getD 0
  let sqrt : Rat → Rat := if jbool c "sqrt_id" then id else fun _ => s
  match jstr c "fn" with
  | "center" => Scale.center sqrt data st
  | "standardize" =>
    Scale.standardize sqrt data (argOf (jval c "center") true) (argOf (jval c "scale") true)
      ((optRatOf (jval c "ddof")).getD 0) st
  | _ =>
    Scale.run sqrt data (argOf (jval c "center") true) (argOf (jval c "scale") true)
      ((optRatOf (jval c "ddof")).getD 1) st

def scaleCalls : Scale.State Rat → List Json → List Json
  | _, [] => []
  | st, c :: cs =>
    match scaleCall st c with
    | .error _ => [jerr "nonfinite"]
    | .ok (out, st') =>
      -- the value `numpy.sqrt` was applied to in this call (when it was): a pass with `sqrt = id`
      let fitsScale := st.scale.isNone && (match jstr c "fn", argOf (jval c "scale") true with
        | "center", _ => false
        | _, .flag true => true
        | _, _ => false)
      let sqrtArg : Json :=
        if fitsScale then
          match scaleCall st (c.setObjVal! "sqrt" Json.null |>.setObjVal! "sqrt_id" (Json.bool true)) with
          | .ok (_, s) => optRatJ (s.scale.bind id)
          | .error _ => Json.null
        else Json.null
      Json.mkObj [("out", jlist (out.map ratJ)), ("state", scaleStateJ st'), ("sqrt_arg", sqrtArg)]
        :: scaleCalls st' cs

/-! ### poly -/

def polyStateOf (j : Json) : Poly.State Rat :=
  let key (k : String) : Option (List Rat) :=
    match j.getObjVal? k with
    | .ok (.arr a) => some (a.toList.map ratOf)
    | _ => none
  { alpha := key "alpha", norms2 := key "norms2" }

def polyStateJ (s : Poly.State Rat) : Json :=
  Json.mkObj <|
    (match s.alpha with | none => [] | some a => [("alpha", jlist (a.map ratJ))]) ++
    (match s.norms2 with | none => [] | some a => [("norms2", jlist (a.map ratJ))])

def polyErrStr : Poly.PolyErr → String
  | .nonFinite => "nonfinite" | .keyError => "KeyError" | .typeError => "TypeError" | .valueError => "ValueError"

/-- one call; `sqrts[k]` is the real `numpy.sqrt(norms2[k])`.  First pass (any `sqrt`) yields the
norms the real code took roots of, the second pass uses the table norm ↦ supplied root. -/
def polyCall (st : Poly.State Rat) (c : Json) :
    Except Poly.PolyErr (List (List (Option Rat)) × Poly.State Rat) :=
  let xs := (jarr c "x").map optRatOf
  let degree := jnat c "degree"
  let raw := jbool c "raw"
  match Poly.run (fun _ => 1) xs degree raw st with
  | .error e => .error e
  | .ok (_, st1) =>
    let ns := st1.norms2.getD []
    let tbl := ns.zip ((jarr c "sqrts").map ratOf)
    -- the contract `sqrt v * sqrt v = v` forces `sqrt 0 = 0`; a float root of rounding dust is not used there
    let sqrt : Rat → Rat := fun v => if v = 0 then 0 else (tbl.lookup v).getD 0
    Poly.run sqrt xs degree raw st

def polyCalls : Poly.State Rat → List Json → List Json
  | _, [] => []
  | st, c :: cs =>
    match polyCall st c with
    | .error e => [jerr (polyErrStr e)]
    | .ok (out, st') =>
      Json.mkObj [("cols", jlist (out.map (fun col => jlist (col.map optRatJ)))), ("state", polyStateJ st')]
        :: polyCalls st' cs

/-! ### elementwise -/

def fnStr : Elementwise.RealFn → String
  | .log => "log" | .log2 => "log2" | .log10 => "log10" | .exp => "exp" | .exp2 => "exp2" | .exp10 => "exp10"

def elem (j : Json) : Json :=
  match Elementwise.lookup (jstr j "name") with
  | none => Json.mkObj [("denotes", Json.null)]
  | some f =>
    let base := [("denotes", Json.str (fnStr f)), ("partner", Json.str (fnStr (Elementwise.partner f)))]
    match (if jbool j "exact" then Elementwise.exactAt f (jint j "k") else none) with
    | none => Json.mkObj base
    | some (p, v) => Json.mkObj (base ++ [("point", ratJ p), ("value", ratJ v)])

def handle (j : Json) : Json :=
  match jstr j "op" with
  | "scale" => Json.mkObj [("calls", jlist (scaleCalls (scaleStateOf (jval j "state")) (jarr j "calls")))]
  | "poly" => Json.mkObj [("calls", jlist (polyCalls (polyStateOf (jval j "state")) (jarr j "calls")))]
  | "elem" => elem j
  | "names" => Json.mkObj [("names", jstrs (Elementwise.table.map (·.1)))]
  | o => jerr ("unknown op " ++ o)

end FormulaicVerif.Engines.C13
