import FormulaicVerif.Engines.Json
import FormulaicVerif.Model.Scale
import FormulaicVerif.Model.Poly
import FormulaicVerif.Model.Elementwise
import FormulaicVerif.Model.ScaleEntry
import FormulaicVerif.Model.PolyEntry
import FormulaicVerif.Model.PatsyCompat
import FormulaicVerif.Model.Preloaded
import FormulaicVerif.Model.TransformKey
import FormulaicVerif.Gen.Names
/-! Engine for C13: runs `Model.ScaleEntry.call` (argument binding, sparse dispatch, then
`Model.Scale.run`), `Model.PolyEntry.call` (binding, then `Model.Poly.run`), `Model.Elementwise.lookup/exactAt`,
`Model.Preloaded` (contract of every preloaded name against the live table) and
`Model.PatsyCompat.Q/Treatment/identity` at the carrier `Rat`.  Rationals travel as "p/q" strings. -/
namespace FormulaicVerif.Engines.C13
open Lean FormulaicVerif.Engines
open FormulaicVerif.Model

def ratOfString (s : String) : Rat :=
  match s.splitOn "/" with
  | [p] => ((p.toInt?.getD 0 : Int) : Rat)
  | [p, q] => mkRat (p.toInt?.getD 0) (q.toNat?.getD 1)
  | _ => 0

def ratJ (r : Rat) : Json := Json.str (toString r.num ++ "/" ++ toString r.den)
def ratOf (j : Json) : Rat := ratOfString (asStr j)
def optRatOf : Json → Option Rat
  | .str s => some (ratOfString s)
  | _ => none
def optRatJ : Option Rat → Json
  | none => Json.null
  | some r => ratJ r

/-! ### scale / center / standardize -/

/-- state JSON: key absent = not in `_state`; `null` = Python `None` -/
def scaleStateOf (j : Json) : Scale.State Rat :=
  let key (k : String) : Option (Option Rat) :=
    match j.getObjVal? k with
    | .ok v => some (optRatOf v)
    | .error _ => none
  { ddof := (key "ddof").bind id, center := key "center", scale := key "scale" }

def scaleStateJ (s : Scale.State Rat) : Json :=
  Json.mkObj <|
    (match s.ddof with | none => [] | some d => [("ddof", ratJ d)]) ++
    (match s.center with | none => [] | some c => [("center", optRatJ c)]) ++
    (match s.scale with | none => [] | some c => [("scale", optRatJ c)])

/-- a written argument: JSON `true`/`false` = Python `bool`, "p/q" = Python number, an object
`{"v": value, "as": type, "box": …}` = the value carried by a numpy scalar / 0-d array / Python float -/
def scaleArgOf : Json → ScaleEntry.Written Rat
  | .bool b => .pyBool b
  | .str s => .number (ratOfString s)
  | j =>
    match j.getObjVal? "v" with
    | .ok (.bool b) => .npBool b
    | .ok (.str s) => .number (ratOfString s)
    | _ => .pyBool false

def kwOf {A : Type} (f : Json → A) (j : Json) : List (String × A) :=
  (asArr j).filterMap fun p =>
    match p with
    | .arr #[.str k, v] => some (k, f v)
    | _ => none

def fnOf : String → Option ScaleEntry.Fn
  | "scale" => some .scale
  | "center" => some .center
  | "standardize" => some .standardize
  | _ => none

def dataOf (c : Json) : ScaleEntry.Data Rat :=
  if jstr c "container" == "sparse" then .sparse ((jarr c "cols").map fun col => (asArr col).map ratOf)
  else .dense ((jarr c "data").map ratOf)

def scaleErrStr : ScaleEntry.Err → String
  | .valueError => "ValueError"
  | .bind .typeError => "TypeError"
  | .bind .unmodelled => "unmodelled"
  | .num _ => "nonfinite"

/-- one call with the given stand-in for `numpy.sqrt` -/
def scaleCallWith (sqrt : Rat → Rat) (st : Scale.State Rat) (c : Json) :
    Except ScaleEntry.Err (List Rat × Scale.State Rat) :=
  match fnOf (jstr c "fn") with
  | none => .error (.bind .unmodelled)
  | some fn =>
    ScaleEntry.callWritten sqrt fn (dataOf c) ((jarr c "pos").map scaleArgOf) (kwOf scaleArgOf (jval c "kw")) st

def scaleCall (st : Scale.State Rat) (c : Json) : Except ScaleEntry.Err (List Rat × Scale.State Rat) :=
  let s : Rat := (optRatOf (jval c "sqrt")).getD 0
  scaleCallWith (fun _ => s) st c

def scaleCalls : Scale.State Rat → List Json → List Json
  | _, [] => []
  | st, c :: cs =>
    match scaleCall st c with
    | .error (.num e) => [jerr (scaleErrStr (.num e))]   -- numpy carries on with nan/inf: the history ends here
    | .error e => jerr (scaleErrStr e) :: scaleCalls st cs   -- an exception was raised: `_state` is as it was
    | .ok (out, st') =>
      -- the value `numpy.sqrt` was applied to in this call, when it was: two passes with different
      -- stand-ins record different scales exactly when the root was taken; the pass with `id` records its argument
      let sqrtArg : Json :=
        match scaleCallWith id st c, scaleCallWith (fun v => v + 1) st c with
        | .ok (_, s1), .ok (_, s2) => if s1.scale == s2.scale then Json.null else optRatJ (s1.scale.bind id)
        | _, _ => Json.null
      Json.mkObj [("out", jlist (out.map ratJ)), ("state", scaleStateJ st'), ("sqrt_arg", sqrtArg)]
        :: scaleCalls st' cs

/-! ### poly -/

def polyStateOf (j : Json) : Poly.State Rat :=
  let key (k : String) : Option (List Rat) :=
    match j.getObjVal? k with
    | .ok (.arr a) => some (a.toList.map ratOf)
    | _ => none
  { alpha := key "alpha", norms2 := key "norms2" }

def polyStateJ (s : Poly.State Rat) : Json :=
  Json.mkObj <|
    (match s.alpha with | none => [] | some a => [("alpha", jlist (a.map ratJ))]) ++
    (match s.norms2 with | none => [] | some a => [("norms2", jlist (a.map ratJ))])

def polyErrStr : PolyEntry.Err → String
  | .bind .typeError => "TypeError"
  | .bind .unmodelled => "unmodelled"
  | .poly .nonFinite => "nonfinite" | .poly .keyError => "KeyError" | .poly .typeError => "TypeError"
  | .poly .valueError => "ValueError"

/-- a written `degree` / `raw`: a numpy boolean is a boolean, a numpy integer (or, for `raw`, a float with an
integral value) is the integer it holds — numpy's own `__index__` / `__bool__` / arithmetic, nothing in poly.py
looks at the type -/
def polyArgOf : Json → PolyEntry.PArg
  | .bool b => .flag b
  | j =>
    match j.getObjVal? "v" with
    | .ok (.bool b) => .flag b
    | .ok v => .int (asInt v)
    | .error _ => .int (asInt j)

def polyCallWith (sqrt : Rat → Rat) (st : Poly.State Rat) (c : Json) :
    Except PolyEntry.Err (PolyEntry.Result Rat × Poly.State Rat) :=
  PolyEntry.call sqrt ((jarr c "x").map optRatOf) ((jarr c "pos").map polyArgOf) (kwOf polyArgOf (jval c "kw")) st

/-- one call; `sqrts[k]` is the real `numpy.sqrt(norms2[k])`.  First pass (any `sqrt`) yields the
norms the real code took roots of, the second pass uses the table norm ↦ supplied root. -/
def polyCall (st : Poly.State Rat) (c : Json) : Except PolyEntry.Err (PolyEntry.Result Rat × Poly.State Rat) :=
  match polyCallWith (fun _ => 1) st c with
  | .error e => .error e
  | .ok (_, st1) =>
    let ns := st1.norms2.getD []
    let tbl := ns.zip ((jarr c "sqrts").map ratOf)
    -- the contract `sqrt v * sqrt v = v` forces `sqrt 0 = 0`; a float root of rounding dust is not used there
    let sqrt : Rat → Rat := fun v => if v = 0 then 0 else (tbl.lookup v).getD 0
    polyCallWith sqrt st c

def polyCalls : Poly.State Rat → List Json → List Json
  | _, [] => []
  | st, c :: cs =>
    match polyCall st c with
    | .error e => [jerr (polyErrStr e)]
    | .ok (r, st') =>
      Json.mkObj [("cols", jlist (r.cols.map (fun col => jlist (col.map optRatJ)))), ("state", polyStateJ st'),
          ("names", match r.names with | none => Json.null | some ns => jstrs ns)]
        :: polyCalls st' cs

/-! ### elementwise -/

def fnStr : Elementwise.RealFn → String
  | .log => "log" | .log2 => "log2" | .log10 => "log10" | .exp => "exp" | .exp2 => "exp2" | .exp10 => "exp10"

def elem (j : Json) : Json :=
  match Elementwise.lookup (jstr j "name") with
  | none => Json.mkObj [("denotes", Json.null)]
  | some f =>
    let base := [("denotes", Json.str (fnStr f)), ("partner", Json.str (fnStr (Elementwise.partner f)))]
    match (if jbool j "exact" then Elementwise.exactAt f (jint j "k") else none) with
    | none => Json.mkObj base
    | some (p, v) => Json.mkObj (base ++ [("point", ratJ p), ("value", ratJ v)])

/-! ### the preloaded namespace, `Q`, `Treatment`, `I` -/

def contractStr : Preloaded.Contract → String
  | .is k t => "is " ++ k ++ " " ++ t
  | .stateful => "stateful"
  | .callable => "callable"

/-- every contracted name with its contract, whether the live row meets it, and (elementwise names)
the real function the live object computes -/
def names : Json :=
  Json.mkObj [
    ("names", jstrs (Elementwise.table.map (·.1))),
    ("contracts", jlist (Preloaded.contracts.map fun (n, c) =>
      Json.mkObj [("name", Json.str n), ("contract", Json.str (contractStr c)),
        ("met", Json.bool (match Preloaded.live n with | some row => Preloaded.meets c row | none => false)),
        ("computes", match Preloaded.liveRealFn n with | some f => Json.str (fnStr f) | none => Json.null)]))]

def dictOf (j : Json) : List (String × String) := kwOf asStr j

/-- `Q(variable)` in one of the environments the harness builds; values are opaque tags -/
def qOp (j : Json) : Json :=
  let data := dictOf (jval j "data")
  let ctx := dictOf (jval j "context")
  -- the `transforms` layer: the keys of the live `TRANSFORMS` (regenerated table), not sent by the harness
  let tr := Gen.transformNames.map fun k => (k, "transforms:" ++ k)
  let env : Option (LMap.Layer String) :=
    match jstr j "env" with
    | "materializer" => some (PatsyCompat.materializerEnv data ctx tr)
    | "plain" => some (.lm none [] [.dict (data ++ ctx ++ tr)])       -- stateful_eval(expr, {plain dict})
    | "named" => some (.lm none [] [.lm (some (jstr j "layer")) [] [.dict data], .dict (ctx ++ tr)])
    | _ => none
  match PatsyCompat.Q (jstr j "variable") env with
  | .ok v => Json.mkObj [("value", Json.str v)]
  | .error .attributeError => jerr "AttributeError"
  | .error .keyError => jerr "KeyError"

def labelOf : Json → Option Contrasts.Label
  | .str s => some (.str s)
  | .num n => some (.int n.mantissa)
  | _ => none

def labelJ : Contrasts.Label → Json
  | .str s => Json.str s
  | .int i => Json.num (Lean.JsonNumber.fromInt i)

/-- `C(a, Treatment(reference))`: the coded column labels for the given levels -/
def treatmentOp (j : Json) : Json :=
  let levels := (jarr j "levels").filterMap labelOf
  match Contrasts.codingColumnNames (PatsyCompat.Treatment (labelOf (jval j "reference"))) levels (jbool j "reduced") with
  | .ok ns => Json.mkObj [("names", jlist (ns.map labelJ))]
  | .error _ => jerr "ValueError"

/-! ### the key of the transform state -/

/-- `Model.TransformKey.stateKey` for one call node.  CPython's parameters arrive as data: `ident` = the
names (here: the column's name, when so) that `str.isidentifier` accepts and NFKC leaves alone;
`wordchars` = the non-ASCII characters of the texts that `re` counts as `\w`. -/
def keyOp (j : Json) (env : List String) : Json :=
  let identOK := (strs j "ident").map String.toList
  let extra := (jstr j "wordchars").toList
  let py : TransformKey.Py :=
    { ident := fun s => identOK.contains s
      isSpace := Char.isWhitespace
      word := fun c => PyAlias.asciiWord c || extra.contains c }
  match TransformKey.stateKey py (env.map String.toList) (jstr j "expr").toList (jstr j "name").toList
      (jstr j "pre").toList (jstr j "post").toList with
  | none => jerr "unmodelled"
  | some (key, a) => Json.mkObj [("key", Json.str (String.ofList key)), ("standin", Json.str (String.ofList a))]

/-- the optional part `keyreq` of a `scale` / `poly` request (state kept by the library): the key of the
transform state in each of the environments `envs` (one per data set of the history) -/
def withKeys (j : Json) (fields : List (String × Json)) : Json :=
  match j.getObjVal? "keyreq" with
  | .ok k => Json.mkObj (fields ++ [("keys", jlist ((jarr k "envs").map fun e => keyOp k ((asArr e).map asStr)))])
  | .error _ => Json.mkObj fields

def handle (j : Json) : Json :=
  match jstr j "op" with
  | "scale" => withKeys j [("calls", jlist (scaleCalls (scaleStateOf (jval j "state")) (jarr j "calls")))]
  | "poly" => withKeys j [("calls", jlist (polyCalls (polyStateOf (jval j "state")) (jarr j "calls")))]
  | "elem" => elem j
  | "names" => names
  | "Q" => qOp j
  | "treatment" => treatmentOp j
  | "identity" => Json.mkObj [("value", PatsyCompat.identity (jval j "value"))]
  | o => jerr ("unknown op " ++ o)

end FormulaicVerif.Engines.C13
