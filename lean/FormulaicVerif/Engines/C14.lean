import FormulaicVerif.Engines.Json
import FormulaicVerif.Engines.C01
import FormulaicVerif.Model.ParseApi
import FormulaicVerif.Model.FormulaSpec
import FormulaicVerif.Model.SignLoop
import FormulaicVerif.Model.EvalOrder
import FormulaicVerif.Model.SanitizeNames
/-! Engine for property C14. Ops:
* `terms` — `get_terms`, with the classes of all minimal failing nodes when evaluation fails
  (`Model/EvalOrder.lean`); `tokens`, `formula`, `both`, `tokenize` — served by the C01 engine;
* `api` — every entry point of the parser around `get_terms`: `parse(target=…)` with integer/string
  targets on `DefaultFormulaParser` and on the base class `FormulaParser`, the feature flags given as a
  set of names (`Model/ParseApi.lean`);
* `spec` — `Formula(<list / tuple / dict / keyword specification>, _parser=…, _nested_parser=…)` with
  string, `Term`, `Formula` and non-specification leaves (`Model/FormulaSpec.lean`);
* `resolve` — `DefaultOperatorResolver.resolve(<operator token>)` with the sign-collapsing loop as
  written (`Model/SignLoop.lean`). -/
namespace FormulaicVerif.Engines.C14
open Lean FormulaicVerif.Model FormulaicVerif.Model.ParseApi FormulaicVerif.Engines
open FormulaicVerif.Model.FormulaSpec (Spec Item Src FErr fromSpec formulaCall defaultParser defaultNested)

/-! ### the environment: `sanitize_python_code` computed by the model, `format_expr` as data -/

/-- `str.isspace` of the characters of the string (column `sp` of the `cc` table) -/
def isSpaceOf (j : Json) : Char → Bool :=
  let tab : List (Char × Bool) := (jarr j "cc").filterMap (fun r => match asArr r with
    | [c, _, _, sp] => (asStr c).toList.head?.map (fun ch => (ch, asBool sp))
    | _ => none)
  fun c => match tab.find? (fun p => p.1 == c) with
    | some p => p.2
    | none => false

def fmtOf (j : Json) : List Char → Except SanitizeNames.FmtErr (List Char) :=
  let tab : List (String × Json) := (jarr j "fmt").map (fun p => (jstr p "k", p))
  fun cs =>
    match tab.find? (fun p => p.1 == String.ofList cs) with
    | some (_, p) =>
      match p.getObjValAs? String "ok" with
      | .ok t => .ok t.toList
      | .error _ => .error ⟨strs p "mro"⟩
    | none => .error ⟨["fmt-missing"]⟩

/-- with a `fmt` table in the request, `norm` is the MODEL's `sanitize_python_code` (the alias pass and
restoration of `Model/PyAlias.lean`, the guarded `format_expr`) around that table;
otherwise (legacy requests) the harness's `norm` table -/
def envOf (j : Json) : PyEnv :=
  match jval j "fmt" with
  | .arr _ => { C01.envOf j with norm := SanitizeNames.sanitizePythonCode (isSpaceOf j) (fmtOf j) }
  | _ => C01.envOf j

/-- `ast.flatten(str_args=True)`: `[symbol, *args]`, a leaf is its text -/
def astJ : Ast → Json
  | .leaf t => Json.str (String.ofList t.text)
  | .node o args => jlist (Json.str o.symbol :: argsJ args)
where
  argsJ : List Ast → List Json
    | [] => []
    | a :: as => astJ a :: argsJ as

def tokJ2 (t : Tok) : Json := jlist [Json.str (String.ofList t.text), Json.str (C01.kindStr t.kind)]

def outJ : Out → Json
  | .formula => Json.mkObj [("formula", Json.bool true)]
  | .tokens ts => Json.mkObj [("tokens", jlist (ts.map tokJ2))]
  | .ast none => Json.mkObj [("ast", Json.null)]
  | .ast (some a) => Json.mkObj [("ast", astJ a)]
  | .terms v => Json.mkObj [("terms", C01.valJ v)]

def targetOf (j : Json) : TargetSpec :=
  match jval j "target" with
  | .str s => .name s
  | t => .int (asInt t)

def errCls : ParseErr → String
  | .syntax _ => "FormulaParsingError"
  | .pySyntax => "SyntaxError"
  | .internal n => "internal:" ++ n

/-- an error answer: the class the model's depth-first evaluation gives, and (`alt`) the classes of the
other minimal failing nodes, any of which the implementation's evaluation order may reach first -/
def errAltJ (e : ParseErr) (possible : List ParseErr) : Json :=
  let alts := ((possible.map errCls).filter (· != errCls e)).eraseDups
  Json.mkObj [("error", Json.str (errCls e)), ("alt", jstrs alts)]

def handleTerms (j : Json) : Json :=
  let cfg := C01.cfgOf j
  match parseTerms cfg (envOf j) (C01.charInfos j) with
  | .error e => errAltJ e (EvalOrder.possibleErrors cfg (envOf j) (C01.charInfos j))
  | .ok v => Json.mkObj [("terms", C01.valJ v)]

/-- the possible errors of the base class at the TERMS target -/
def basePossible (tab : OpTable) (env : PyEnv) (cs : List CharInfo) : List ParseErr :=
  match baseAst tab env cs with
  | .ok (some a) => EvalOrder.minimalErrors (baseDot env) a
  | _ => []

def handleApi (j : Json) : Json :=
  match cfgOfNames (jbool j "intercept") (strs j "flags") with
  | .error e => C01.errJ e
  | .ok cfg =>
    match levelOf (targetOf j), levels with
    | .error e, _ => C01.errJ e
    | _, none => jerr "internal:Target-table"
    | .ok lvl, some lv =>
      let r := if jstr j "parser" == "base"
        then baseParseTo lv lvl cfg.table (envOf j) (C01.charInfos j)
        else defaultParseTo lv lvl cfg (envOf j) (C01.charInfos j)
      match r with
      | .error e =>
        errAltJ e (if jstr j "parser" == "base" then basePossible cfg.table (envOf j) (C01.charInfos j)
                   else EvalOrder.possibleErrors cfg (envOf j) (C01.charInfos j))
      | .ok o => outJ o

/-! ### `Formula(<specification>)` -/

def srcOf (j : Json) : Src := { cs := C01.charInfos j, env := envOf j }

def optCfg (j : Json) (k : String) : Option ParseCfg :=
  match jval j k with
  | .null => none
  | c => some { includeIntercept := jbool c "intercept", twosided := jbool c "twosided",
                multipart := jbool c "multipart", multistage := jbool c "multistage" }

def termOfJ (j : Json) : Model.Term :=
  (asArr j).map (fun f => match asArr f with
    | [e, m] => ⟨asStr e, match asStr m with | "literal" => .literal | "python" => .python | _ => .lookup⟩
    | _ => ⟨"", .lookup⟩)

def itemOf (j : Json) : Item :=
  match j.getObjVal? "str", j.getObjVal? "term" with
  | .ok s, _ => .str (srcOf s)
  | _, .ok t => .term (termOfJ t)
  | _, _ => .other

/-- decode a specification; `{"formula": spec}` stands for the `Formula` object built from `spec` with
the default parsers (the generator only emits buildable ones) -/
partial def specOf (j : Json) : Spec :=
  match j.getObjVal? "str", j.getObjVal? "list", j.getObjVal? "tuple", j.getObjVal? "dict", j.getObjVal? "formula" with
  | .ok s, _, _, _, _ => .str (srcOf s)
  | _, .ok l, _, _, _ => .list ((asArr l).map itemOf)
  | _, _, .ok t, _, _ => .tuple ((asArr t).map specOf)
  | _, _, _, .ok d, _ => .dict ((asArr d).map (fun p => match asArr p with
      | [k, v] => (asStr k, specOf v)
      | _ => ("", .other)))
  | _, _, _, _, .ok f =>
    match fromSpec false defaultParser defaultNested (specOf f) with
    | .ok v => .formula v
    | .error _ => .other
  | _, _, _, _, _ => .other

def ferrJ : FErr → Json
  | .parsing => jerr "FormulaParsingError"
  | .pySyntax => jerr "SyntaxError"
  | .invalid => jerr "FormulaInvalidError"
  | .internal k => jerr ("internal:" ++ k)

def handleSpec (j : Json) : Json :=
  let root : Option Spec := match jval j "root" with | .null => none | r => some (specOf r)
  let kw : List (String × Spec) := (jarr j "kw").map (fun p => match asArr p with
      | [k, v] => (asStr k, specOf v)
      | _ => ("", .other))
  match formulaCall (optCfg j "P") (optCfg j "N") root kw with
  | .error e => ferrJ e
  | .ok v => Json.mkObj [("formula", C01.valJ v)]

/-! ### `resolve` -/

def handleResolve (j : Json) : Json :=
  match cfgOfNames true (strs j "flags") with
  | .error e => C01.errJ e
  | .ok cfg =>
    match SignLoop.resolveTokenLoop cfg.table (jstr j "text").toList with
    | .error e => C01.errJ e
    | .ok groups => Json.mkObj [("groups", jlist (groups.map (fun g =>
        jlist (g.map (fun o => jlist [Json.str o.symbol, Json.num (JsonNumber.fromNat o.arity), Json.bool o.disabled])))))]

def handle (j : Json) : Json :=
  match jstr j "op" with
  | "api" => handleApi j
  | "terms" => handleTerms j
  | "spec" => handleSpec j
  | "resolve" => handleResolve j
  | _ => C01.handle j

end FormulaicVerif.Engines.C14
