import FormulaicVerif.Engines.Json
import FormulaicVerif.Model.Calculus
import FormulaicVerif.Model.CalcEntry
import FormulaicVerif.Model.CalcMat
/-! Engine of the `c20` correspondence stream. Only decoding/encoding lives here; every observable
is computed by `Model.Calc` (entry points, orderings, edit histories), `Model.differentiateFormula`
(the legacy request) and `Model.CalcMat.materialize` (the C02 pipeline on a numeric cache). -/
namespace FormulaicVerif.Engines.C20
open Lean FormulaicVerif.Model FormulaicVerif.Engines

def evalOf : String → EvalMethod
  | "literal" => .literal
  | "python" => .python
  | _ => .lookup

def factorOf (j : Json) : Factor := ⟨jstr j "x", evalOf (jstr j "m")⟩
def factorJ (f : Factor) : Json :=
  Json.mkObj [("x", Json.str f.expr), ("m", Json.str (Calc.evalName f.eval))]
def termOf (j : Json) : Model.Term := (asArr j).map factorOf
def termJ (t : Model.Term) : Json := jlist (t.map factorJ)
def termsJ (ts : List Model.Term) : Json := jlist (ts.map termJ)
def optTermOf (j : Json) : Option Model.Term :=
  match j with
  | .arr _ => some (termOf j)
  | _ => none

def orderingOf (s : String) : SFm.Ordering :=
  if s == "degree" then .degree else if s == "sort" then .sort else .none

/-! ### the legacy request (corpus cases recorded before the entry points were modelled) -/

def diffJ (f : List Model.Term) (wrt : List String) : Json :=
  match differentiateFormula f wrt with
  | .error _ => jerr "RuntimeError"
  | .ok ts => termsJ ts

def handleLegacy (j : Json) : Json :=
  let f := (jarr j "terms").map termOf
  match differentiateFormula f (strs j "wrt") with
  | .error _ => jerr "RuntimeError"
  | .ok ts =>
    match jval j "terms2" with
    | .arr a => Json.mkObj [("terms", termsJ ts), ("terms2", diffJ (a.toList.map termOf) (strs j "wrt"))]
    | _ => Json.mkObj [("terms", termsJ ts)]

/-! ### trees -/

partial def valOf {α : Type} (leaf : Json → α) (j : Json) : St.Val α :=
  match j.getObjVal? "l" with
  | .ok l => .leaf (leaf l)
  | .error _ =>
    match j.getObjVal? "t" with
    | .ok (.arr a) => .tup (a.toList.map (valOf leaf))
    | _ => .node ((jarr j "n").map (fun kv =>
        match kv with
        | .arr #[.str k, v] => (k, valOf leaf v)
        | _ => ("?", .node [])))

partial def valJ {α : Type} (leaf : α → Json) : St.Val α → Json
  | .leaf a => Json.mkObj [("l", leaf a)]
  | .tup vs => Json.mkObj [("t", jlist (vs.map (valJ leaf)))]
  | .node kvs => Json.mkObj [("n", jlist (kvs.map (fun kv => jlist [Json.str kv.1, valJ leaf kv.2])))]

/-- a leaf as sent: the `_ordering` argument (`null`: the constructor's default, read off the live
package) and the term list handed to the constructor (BEFORE `_reorder`) -/
def specOf (j : Json) : Calc.Spec :=
  let o := match jval j "o" with
    | .str s => orderingOf s
    | _ => orderingOf Gen.Calculus.defaultOrdering
  ⟨Calc.Simple.new o ((jarr j "terms").map termOf), jbool j "st"⟩

def simpleJ (f : Calc.Simple) : Json :=
  Json.mkObj [("o", Json.str (Calc.orderingName f.ordering)), ("terms", termsJ f.terms)]

def specJ (s : Calc.Spec) : Json :=
  Json.mkObj [("o", Json.str (Calc.orderingName s.formula.ordering)), ("terms", termsJ s.formula.terms),
    ("st", Json.bool s.hasStructure)]

/-! ### sequence operations (same wire format as the `c19` stream) -/

def sfOpOf (j : Json) : SFm.Op :=
  match jstr j "o" with
  | "insert" => .insert (jint j "i") (optTermOf (jval j "t"))
  | "set" => .set (jint j "i") (optTermOf (jval j "t"))
  | "del" => .del (jint j "i")
  | "delslice" => .delSlice (jint j "a") (jint j "b")
  | "append" => .append (optTermOf (jval j "t"))
  | "extend" => .extend ((jarr j "ts").map optTermOf)
  | "pop" => .pop (jint j "i")
  | _ => .reverse

/-! ### numeric materialisation -/

def ratOfString (s : String) : Rat :=
  match s.splitOn "/" with
  | [p] => (p.toInt?.getD 0 : Int)
  | [p, q] => mkRat (p.toInt?.getD 0) (q.toNat?.getD 1)
  | _ => 0

def ratStr (r : Rat) : String :=
  if r.den = 1 then toString r.num else toString r.num ++ "/" ++ toString r.den

def envOf (j : Json) : CalcMat.Env :=
  (asArr j).map (fun p =>
    match p with
    | .arr #[.str e, .str v] => (e, CalcMat.NumVal.const (ratOfString v))
    | .arr #[.str e, .arr c] => (e, CalcMat.NumVal.col (c.toList.map (fun x => ratOfString (asStr x))))
    | _ => ("?", CalcMat.NumVal.const 0))

def scopeErrName : ScopeErr → String
  | .py e => e.name
  | .fuel => "MODEL-OUT-OF-FUEL"

/-- per term: the list of its columns (name, values) -/
def matJ (env : CalcMat.Env) (efr : Bool) (nrows : Nat) (f : Calc.Simple) : Json :=
  match CalcMat.materialize env f.terms efr nrows with
  | .error e => jerr (scopeErrName e)
  | .ok rs => jlist (rs.map (fun r => jlist (r.cols.map (fun e =>
      Json.mkObj [("name", Json.str e.name), ("values", jstrs (e.col.map ratStr))]))))

/-! ### the request -/

def exJ {α : Type} (leaf : α → Json) : Except Calc.Err (St.Val α) → Json
  | .ok v => valJ leaf v
  | .error e => jerr e.className

/-- request `{"op": "diff", "tree": …, "wrt": […], "sympy": use_sympy, "ops": […], "dops": […],
"mat": {"env", "efr", "nrows"}}`:
* `init`: every leaf after the constructor's `_reorder`;
* `d`: `differentiate(*wrt)` of the formula / spec(s) (or the exception class);
* `terms2`, `d2` (root leaf only): the object after the edit history `ops`, and its derivative;
* `terms3`, `d3` (root leaf only, with `"slice": [a, b]`): the slice `f[a:b]` of the edited object and its derivative;
* `dd` (root leaf only): the DERIVATIVE object after the edit history `dops`;
* `mat` / `mat0`: the columns, term by term, of every leaf of the derivative / of the original. -/
def handleDiff (j : Json) : Json :=
  let sympy := Gen.Calculus.sympyImportable
  let useSympy := jbool j "sympy"
  let wrt := strs j "wrt"
  let tree : St.Val Calc.Spec := valOf specOf (jval j "tree")
  let d := Calc.differentiateSpecs sympy useSympy tree wrt
  let base : List (String × Json) := [("init", valJ specJ tree), ("d", exJ specJ d)]
  let hist : List (String × Json) :=
    match tree with
    | .leaf s =>
      let ops := (jarr j "ops").map sfOpOf
      let f2 := s.formula.edit ops
      let d2 := f2.differentiate sympy useSympy wrt
      let dd : Json :=
        match s.formula.differentiate sympy useSympy wrt with
        | .error e => jerr e.className
        | .ok df => simpleJ (df.edit ((jarr j "dops").map sfOpOf))
      let sl : List (String × Json) :=
        match jval j "slice" with
        | .arr #[a, b] =>
          let f3 := f2.slice (asInt a) (asInt b)
          [("terms3", termsJ f3.terms),
           ("d3", match f3.differentiate sympy useSympy wrt with
             | .ok r => simpleJ r | .error e => jerr e.className)]
        | _ => []
      [("terms2", termsJ f2.terms),
       ("d2", match d2 with | .ok r => simpleJ r | .error e => jerr e.className),
       ("dd", dd)] ++ sl
    | _ => []
  let mat : List (String × Json) :=
    match jval j "mat" with
    | .null => []
    | m =>
      let env := envOf (jval m "env")
      let efr := jbool m "efr"
      let n := jnat m "nrows"
      let leafMat (s : Calc.Spec) : Json := matJ env efr n s.formula
      [("mat0", valJ leafMat tree),
       ("mat", match d with | .ok v => valJ leafMat v | .error e => jerr e.className)]
  Json.mkObj (base ++ hist ++ mat)

def handle (j : Json) : Json :=
  match jstr j "op" with
  | "diff" => handleDiff j
  | _ => handleLegacy j

end FormulaicVerif.Engines.C20
