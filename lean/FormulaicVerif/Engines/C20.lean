import FormulaicVerif.Engines.Json
import FormulaicVerif.Model.Calculus
namespace FormulaicVerif.Engines.C20
open Lean FormulaicVerif.Model FormulaicVerif.Engines

def evalOf : String → EvalMethod
  | "literal" => .literal
  | "python" => .python
  | _ => .lookup
def evalStr : EvalMethod → String
  | .literal => "literal" | .python => "python" | .lookup => "lookup"

def factorOf (j : Json) : Factor := ⟨jstr j "x", evalOf (jstr j "m")⟩
def factorJ (f : Factor) : Json := Json.mkObj [("x", Json.str f.expr), ("m", Json.str (evalStr f.eval))]
def termOf (j : Json) : Model.Term := (asArr j).map factorOf
def termJ (t : Model.Term) : Json := jlist (t.map factorJ)

/-- request: {"terms": [[{x,m}...]...], "wrt": [..]} → differentiated term list -/
def handle (j : Json) : Json :=
  let f := (jarr j "terms").map termOf
  match differentiateFormula f (strs j "wrt") with
  | .error _ => jerr "RuntimeError"
  | .ok ts => Json.mkObj [("terms", jlist (ts.map termJ))]

end FormulaicVerif.Engines.C20
