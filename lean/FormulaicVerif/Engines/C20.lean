import FormulaicVerif.Engines.Json
import FormulaicVerif.Model.Calculus
namespace FormulaicVerif.Engines.C20
open Lean FormulaicVerif.Model FormulaicVerif.Engines

def evalOf : String → EvalMethod
  | "literal" => .literal
  | "python" => .python
  | _ => .lookup
def evalStr : EvalMethod → String
  | .literal => "literal" | .python => "python" | .lookup => "lookup"

def factorOf (j : Json) : Factor := ⟨jstr j "x", evalOf (jstr j "m")⟩
def factorJ (f : Factor) : Json := Json.mkObj [("x", Json.str f.expr), ("m", Json.str (evalStr f.eval))]
def termOf (j : Json) : Model.Term := (asArr j).map factorOf
def termJ (t : Model.Term) : Json := jlist (t.map factorJ)

def diffJ (f : List Model.Term) (wrt : List String) : Json :=
  match differentiateFormula f wrt with
  | .error _ => jerr "RuntimeError"
  | .ok ts => jlist (ts.map termJ)

/-- request: {"terms": [[{x,m}...]...], "wrt": [..], optional "terms2": …} → differentiated term list(s).
`terms2` is the term list of the same formula object after in-place edits (the model is a pure
function, so a second call is just another application) -/
def handle (j : Json) : Json :=
  let f := (jarr j "terms").map termOf
  match differentiateFormula f (strs j "wrt") with
  | .error _ => jerr "RuntimeError"
  | .ok ts =>
    match jval j "terms2" with
    | .arr a => Json.mkObj [("terms", jlist (ts.map termJ)), ("terms2", diffJ (a.toList.map termOf) (strs j "wrt"))]
    | _ => Json.mkObj [("terms", jlist (ts.map termJ))]

end FormulaicVerif.Engines.C20
