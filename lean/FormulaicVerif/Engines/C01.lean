import FormulaicVerif.Engines.Json
import FormulaicVerif.Model.Parser
import FormulaicVerif.Model.FromSpec
import FormulaicVerif.Model.BaseParser
/-! Engine for the parser stack (properties C01, C14, C15): ops `tokenize`, `tokens`, `terms`, `formula`, `both`;
for C01 also `spec` (every specification form: `Model/FromSpec.lean`). -/
namespace FormulaicVerif.Engines.C01
open Lean FormulaicVerif.Model FormulaicVerif.Engines

def charInfos (j : Json) : List CharInfo :=
  let s := (jstr j "s").toList
  let w := (jstr j "w").toList
  let sp := (jstr j "sp").toList
  (s.zip (w.zip sp)).map (fun (c, (a, b)) => { c := c, word := a == '1', space := b == '1' })

def cfgOf (j : Json) : ParseCfg :=
  let c := jval j "cfg"
  { includeIntercept := jbool c "intercept", twosided := jbool c "twosided",
    multipart := jbool c "multipart", multistage := jbool c "multistage" }

def envOf (j : Json) : PyEnv :=
  let normTab : List (String × Json) := (jarr j "norm").map (fun p => (jstr p "k", p))
  let varTab : List (String × List String) := (jarr j "pyvars").map (fun p => (jstr p "k", strs p "v"))
  { norm := fun cs =>
      match normTab.find? (fun p => p.1 == String.ofList cs) with
      | some (_, p) =>
        match p.getObjValAs? String "ok" with
        | .ok t => .ok t.toList
        | .error _ => if jstr p "err" == "SyntaxError" then .error .syntaxError else .error (.other (jstr p "err"))
      | none => .error (.other "norm-missing")
    pyvars := fun cs => match varTab.find? (fun p => p.1 == String.ofList cs) with
      | some (_, v) => v
      | none => []
    available := match jval j "avail" with
      | .arr a => some (a.toList.map asStr)
      | _ => none }

def kindStr : Option TKind → String
  | some .context => "context" | some .operator => "operator" | some .value => "value"
  | some .name => "name" | some .python => "python" | none => "none"

def optNat : Option Nat → Json
  | some n => Json.num (JsonNumber.fromNat n)
  | none => Json.null

def tokJ (t : Tok) : Json :=
  jlist [Json.str (String.ofList t.text), Json.str (kindStr t.kind), optNat t.start, optNat t.stop]

def evalStr : EvalMethod → String
  | .literal => "literal" | .python => "python" | .lookup => "lookup"

def termJ (t : Model.Term) : Json := jlist (t.map (fun f => jlist [Json.str f.expr, Json.str (evalStr f.eval)]))

def valJ : Val → Json
  | .set ts => jlist (ts.map termJ)
  | .tuple vs => Json.mkObj [("t", jlist (listJ vs))]
  | .struct fs => Json.mkObj [("s", Json.mkObj (fieldsJ fs))]
where
  listJ : List Val → List Json
    | [] => []
    | v :: vs => valJ v :: listJ vs
  fieldsJ : List (String × Val) → List (String × Json)
    | [] => []
    | (k, v) :: fs => (k, valJ v) :: fieldsJ fs

def errJ : ParseErr → Json
  | .syntax _ => jerr "FormulaParsingError"
  | .pySyntax => jerr "SyntaxError"
  | .internal n => jerr ("internal:" ++ n)

def lexErrJ : LexErr → Json
  | _ => jerr "FormulaParsingError"

/-! ### op `spec`: `Formula.from_spec` / `Formula(...)` / `StructuredFormula(...)` / `SimpleFormula(...)` -/

/-- a formula string of a specification with its per-string data -/
structure StrData where
  cs : List CharInfo
  env : PyEnv

def strTable (j : Json) : List StrData :=
  (jarr j "strs").map (fun sj =>
    let e := envOf sj
    { cs := charInfos sj, env := { e with available := (envOf j).available } })

def evalOf (s : String) : EvalMethod :=
  if s == "literal" then .literal else if s == "python" then .python else .lookup

def termOfJ (j : Json) : Model.Term :=
  Model.Term.ofFactors ((asArr j).map (fun f => match asArr f with
    | [e, m] => Factor.mk (asStr e) (evalOf (asStr m))
    | _ => Factor.mk "" .lookup))

def itemOfJ (tab : List StrData) (j : Json) : FromSpec.Item StrData :=
  match j.getObjVal? "s" with
  | .ok i => match tab[asNat i]? with
    | some d => .str d
    | none => .bad
  | .error _ =>
    match j.getObjVal? "t" with
    | .ok t => .term (termOfJ t)
    | .error _ => .bad

def ordOfJ (j : Json) : Option FromSpec.Ordering :=
  match j with
  | .str s => FromSpec.orderingOfString s
  | _ => none

instance : Inhabited (FromSpec.Spec StrData) := ⟨.other⟩

partial def specOfJ (tab : List StrData) (j : Json) : FromSpec.Spec StrData :=
  match jstr j "k" with
  | "str" => match tab[jnat j "i"]? with
    | some d => .str d
    | none => .other
  | "items" => .items ((jarr j "xs").map (itemOfJ tab))
  | "dict" => .dict ((jarr j "fs").map (fun p => match asArr p with
      | [k, v] => (asStr k, specOfJ tab v)
      | _ => ("", .other)))
  | "structured" => .structured ((jarr j "fs").map (fun p => match asArr p with
      | [k, v] => (asStr k, specOfJ tab v)
      | _ => ("", .other)))
  | "tuple" => .tuple ((jarr j "xs").map (specOfJ tab))
  | "built" => .built (specOfJ tab (jval j "root")) (ordOfJ (jval j "ord"))
  | _ => .other

def optCfg (j : Json) (k : String) : Option ParseCfg :=
  match j.getObjVal? k with
  | .ok (.obj _) => some (cfgOf (Json.mkObj [("cfg", jval j k)]))
  | _ => none

/-- like `valJ`, but a structure is the LIST of its (key, value) pairs, in order -/
def valJO : Val → Json
  | .set ts => jlist (ts.map termJ)
  | .tuple vs => Json.mkObj [("t", jlist (listJ vs))]
  | .struct fs => Json.mkObj [("s", jlist (fieldsJ fs))]
where
  listJ : List Val → List Json
    | [] => []
    | v :: vs => valJO v :: listJ vs
  fieldsJ : List (String × Val) → List Json
    | [] => []
    | (k, v) :: fs => jlist [Json.str k, valJO v] :: fieldsJ fs

def specErrJ : FromSpec.Err → Json
  | .parse e => errJ e
  | .invalid => jerr "internal:FormulaInvalidError"
  | .value => jerr "internal:ValueError"
  | .type => jerr "internal:TypeError"

def specEnv : FromSpec.Env StrData := { parse := fun cfg d => parseTerms cfg d.env d.cs }

def handleSpec (j : Json) : Json :=
  let tab := strTable j
  -- `ord` absent: the default of the entry point's signature (regenerated: `Gen.defaultOrderings`)
  let entryIdx : Nat := match jstr j "entry" with
    | "from_spec" => 0 | "formula" => 1 | "simple" => 2 | _ => 3
  let ord := match jval j "ord" with
    | .null => FromSpec.orderingOfString (Gen.defaultOrderings.getD entryIdx "")
    | x => ordOfJ x
  let parser := optCfg j "parser"
  let nested := optCfg j "nested"
  let kw : List (String × FromSpec.Spec StrData) := (jarr j "kw").map (fun p => match asArr p with
    | [k, v] => (asStr k, specOfJ tab v)
    | _ => ("", .other))
  let root : Option (FromSpec.Spec StrData) := match j.getObjVal? "root" with
    | .ok (.obj o) => some (specOfJ tab (.obj o))
    | _ => none
  let r : Except FromSpec.Err Val :=
    match jstr j "entry" with
    | "from_spec" => FromSpec.fromSpec specEnv ord parser nested (specOfJ tab (jval j "root"))
    | "formula" => FromSpec.formulaCall specEnv ord parser nested root kw
    | "structured" => FromSpec.structuredFormula specEnv ord parser nested root kw
    | "simple" =>
      let sr : FromSpec.SimpleRoot StrData := match jstr j "sroot" with
        | "missing" => .missing
        | "str" => .str
        | "items" => .items ((jarr j "xs").map (itemOfJ tab))
        | _ => .notIterable
      FromSpec.simpleCall ord sr (jbool j "has_structure")
    | _ => .error .type
  match r with
  | .error e => specErrJ e
  | .ok v => Json.mkObj [("formula", valJO v)]

/-! ### op `all`: every stage of `FormulaParser.parse` (targets TOKENS, AST, TERMS) and `Formula(<str>)` -/

def fixStr : Fixity → String
  | .infix => "infix" | .prefix => "prefix" | .postfix => "postfix"

/-- `Token` leaves as `["tok", text, kind]`, `ASTNode`s as `["op", symbol, arity, fixity, [args]]` -/
def astJ : Ast → Json
  | .leaf t => jlist [Json.str "tok", Json.str (String.ofList t.text), Json.str (kindStr t.kind)]
  | .node o args => jlist [Json.str "op", Json.str o.symbol, Json.num (JsonNumber.fromNat o.arity),
      Json.str (fixStr o.fixity), jlist (argsJ args)]
where
  argsJ : List Ast → List Json
    | [] => []
    | a :: as => astJ a :: argsJ as

def handleAll (j : Json) : Json :=
  let cfg := cfgOf j
  let env := envOf j
  let cs := charInfos j
  let tk := getTokens cfg env cs
  let tokensJ : Json := match tk with
    | .error e => errJ e
    | .ok (ts, _) => jlist (ts.map (fun t => jlist [Json.str (String.ofList t.text), Json.str (kindStr t.kind)]))
  let treeJ : Json := match tk with
    | .error e => errJ e
    | .ok (ts, _) =>
      match tokensToAst cfg.table ts with
      | .error e => errJ e
      | .ok none => Json.null
      | .ok (some a) => astJ a
  let termsJ : List (String × Json) := match parseTerms cfg env cs with
    | .error e => [("terms", errJ e), ("formula", errJ e)]
    | .ok v => [("terms", valJ v), ("formula", valJ (mapLeaves sortByDegree (simplifyVal (valDepth v + 2) v)))]
  Json.mkObj ([("tokens", tokensJ), ("ast", treeJ)] ++ termsJ)


/-- op `base`: the base class `FormulaParser` with a `DefaultOperatorResolver` (lazy token pipeline) -/
def handleBase (j : Json) : Json :=
  let cfg := cfgOf j
  let env := envOf j
  let cs := charInfos j
  let treeJ : Json := match BaseParser.baseAst cfg env cs with
    | .error e => errJ e
    | .ok none => Json.null
    | .ok (some a) => astJ a
  let termsJ : Json := match BaseParser.baseTerms cfg env cs with
    | .error e => errJ e
    | .ok v => valJ v
  Json.mkObj [("ast", treeJ), ("terms", termsJ)]


def handle (j : Json) : Json :=
  match jstr j "op" with
  | "tokenize" =>
    match tokenize (charInfos j) with
    | .error e => lexErrJ e
    | .ok ts => Json.mkObj [("tokens", jlist (ts.map tokJ))]
  | "tokens" =>
    match getTokens (cfgOf j) (envOf j) (charInfos j) with
    | .error e => errJ e
    | .ok (ts, _) => Json.mkObj [("tokens", jlist (ts.map (fun t => jlist [Json.str (String.ofList t.text), Json.str (kindStr t.kind)])))]
  | "terms" =>
    match parseTerms (cfgOf j) (envOf j) (charInfos j) with
    | .error e => errJ e
    | .ok v => Json.mkObj [("terms", valJ v)]
  | "formula" =>
    match formulaOfString (cfgOf j) (envOf j) (charInfos j) with
    | .error e => errJ e
    | .ok v => Json.mkObj [("formula", valJ v)]
  | "both" =>
    match parseTerms (cfgOf j) (envOf j) (charInfos j) with
    | .error e => errJ e
    | .ok v => Json.mkObj [("terms", valJ v),
        ("formula", valJ (mapLeaves sortByDegree (simplifyVal (valDepth v + 2) v)))]
  | "spec" => handleSpec j
  | "all" => handleAll j
  | "base" => handleBase j
  | op => jerr ("unknown op " ++ op)

end FormulaicVerif.Engines.C01
