import FormulaicVerif.Engines.Json
import FormulaicVerif.Model.Parser
/-! Engine for the parser stack (properties C01, C14, C15): ops `tokenize`, `tokens`, `terms`, `formula`. -/
namespace FormulaicVerif.Engines.C01
open Lean FormulaicVerif.Model FormulaicVerif.Engines

def charInfos (j : Json) : List CharInfo :=
  let s := (jstr j "s").toList
  let w := (jstr j "w").toList
  let sp := (jstr j "sp").toList
  (s.zip (w.zip sp)).map (fun (c, (a, b)) => { c := c, word := a == '1', space := b == '1' })

def cfgOf (j : Json) : ParseCfg :=
  let c := jval j "cfg"
  { includeIntercept := jbool c "intercept", twosided := jbool c "twosided",
    multipart := jbool c "multipart", multistage := jbool c "multistage" }

def envOf (j : Json) : PyEnv :=
  let normTab : List (String × Json) := (jarr j "norm").map (fun p => (jstr p "k", p))
  let varTab : List (String × List String) := (jarr j "pyvars").map (fun p => (jstr p "k", strs p "v"))
  { norm := fun cs =>
      match normTab.find? (fun p => p.1 == String.ofList cs) with
      | some (_, p) =>
        match p.getObjValAs? String "ok" with
        | .ok t => .ok t.toList
        | .error _ => if jstr p "err" == "SyntaxError" then .error .syntaxError else .error (.other (jstr p "err"))
      | none => .error (.other "norm-missing")
    pyvars := fun cs => match varTab.find? (fun p => p.1 == String.ofList cs) with
      | some (_, v) => v
      | none => []
    available := match jval j "avail" with
      | .arr a => some (a.toList.map asStr)
      | _ => none }

def kindStr : Option TKind → String
  | some .context => "context" | some .operator => "operator" | some .value => "value"
  | some .name => "name" | some .python => "python" | none => "none"

def optNat : Option Nat → Json
  | some n => Json.num (JsonNumber.fromNat n)
  | none => Json.null

def tokJ (t : Tok) : Json :=
  jlist [Json.str (String.ofList t.text), Json.str (kindStr t.kind), optNat t.start, optNat t.stop]

def evalStr : EvalMethod → String
  | .literal => "literal" | .python => "python" | .lookup => "lookup"

def termJ (t : Model.Term) : Json := jlist (t.map (fun f => jlist [Json.str f.expr, Json.str (evalStr f.eval)]))

def valJ : Val → Json
  | .set ts => jlist (ts.map termJ)
  | .tuple vs => Json.mkObj [("t", jlist (listJ vs))]
  | .struct fs => Json.mkObj [("s", Json.mkObj (fieldsJ fs))]
where
  listJ : List Val → List Json
    | [] => []
    | v :: vs => valJ v :: listJ vs
  fieldsJ : List (String × Val) → List (String × Json)
    | [] => []
    | (k, v) :: fs => (k, valJ v) :: fieldsJ fs

def errJ : ParseErr → Json
  | .syntax _ => jerr "FormulaParsingError"
  | .pySyntax => jerr "SyntaxError"
  | .internal n => jerr ("internal:" ++ n)

def lexErrJ : LexErr → Json
  | _ => jerr "FormulaParsingError"

def handle (j : Json) : Json :=
  match jstr j "op" with
  | "tokenize" =>
    match tokenize (charInfos j) with
    | .error e => lexErrJ e
    | .ok ts => Json.mkObj [("tokens", jlist (ts.map tokJ))]
  | "tokens" =>
    match getTokens (cfgOf j) (envOf j) (charInfos j) with
    | .error e => errJ e
    | .ok (ts, _) => Json.mkObj [("tokens", jlist (ts.map (fun t => jlist [Json.str (String.ofList t.text), Json.str (kindStr t.kind)])))]
  | "terms" =>
    match parseTerms (cfgOf j) (envOf j) (charInfos j) with
    | .error e => errJ e
    | .ok v => Json.mkObj [("terms", valJ v)]
  | "formula" =>
    match formulaOfString (cfgOf j) (envOf j) (charInfos j) with
    | .error e => errJ e
    | .ok v => Json.mkObj [("formula", valJ v)]
  | "both" =>
    match parseTerms (cfgOf j) (envOf j) (charInfos j) with
    | .error e => errJ e
    | .ok v => Json.mkObj [("terms", valJ v),
        ("formula", valJ (mapLeaves sortByDegree (simplifyVal (valDepth v + 2) v)))]
  | op => jerr ("unknown op " ++ op)

end FormulaicVerif.Engines.C01
