import FormulaicVerif.Engines.C02
import FormulaicVerif.Model.Crossed
import FormulaicVerif.Model.ScopedOps
import FormulaicVerif.Spec.CrossedCheck
/-! Engine `c03`: the executable models the C03 theorems are about.

ops
* `matrix`, `simplify`, `spanned` — as engine `c02` (`Model/Materialize.lean` on forwarded factor encodings);
* `crossed`  — `Model.Crossed`: the whole matrix on a fully crossed design from the DESIGN alone (level lists,
  contrast names, numeric values, term list): the factor cache is computed by the model through the model
  of `transforms/contrasts.py`; also reports `certified` (`Spec.C03Check.certified`: the hypotheses of the
  property theorem hold for this very case);
* `algebra`  — `Model.ScopedOps`: `==`, `<`, `hash`, `sorted`, de-duplication of scoped factors / terms,
  foreign operands included. -/
namespace FormulaicVerif.Engines.C03
open Lean FormulaicVerif.Model FormulaicVerif.Engines FormulaicVerif.Engines.C02
open FormulaicVerif.Model.Contrasts (Label Contrast)

/-! ### decoding of a design -/

/-- {"s": "text"} | {"i": 3} -/
def labelOf (j : Json) : Label :=
  match j.getObjVal? "s" with
  | .ok (.str s) => .str s
  | _ => .int (jint j "i")

def optLabelOf (j : Json) : Option Label := if j.isNull then none else some (labelOf j)

def contrastOf (j : Json) : Contrast :=
  match jstr j "k" with
  | "treatment" => .treatment (optLabelOf (jval j "base"))
  | "SAS" => .sas (optLabelOf (jval j "base"))
  | "sum" => .sum
  | "helmert" => .helmert (jbool j "reverse") (jbool j "scale")
  | "diff" => .diff (jbool j "backward")
  | _ => .poly (if (jval j "scores").isNull then none else some ((jarr j "scores").map fun s => ratOfString (asStr s)))

def columnOf (j : Json) : Crossed.Column :=
  if jbool j "cat" then .cat ((jarr j "levels").map labelOf) (jbool j "declared")
  else .num ((jarr j "values").map fun s => ratOfString (asStr s))

def factorSpecOf (j : Json) : Crossed.FactorSpec :=
  match jstr j "t" with
  | "column" => .column (jstr j "expr") (jnat j "col")
  | "wrapped" => .wrapped (jstr j "expr") (jnat j "col") (contrastOf (jval j "contrast"))
  | "literal" => .literal (jstr j "expr") (ratOfString (jstr j "value"))
  | _ => .null (jstr j "expr")

def designOf (j : Json) : Crossed.Design :=
  { columns := (jarr j "columns").map columnOf, factors := (jarr j "factors").map factorSpecOf,
    sparse := jbool j "sparse" }

def designErrName : Crossed.Err → String
  | .contrasts .indexError => "IndexError"
  | .contrasts _ => "ValueError"
  | .index => "KeyError"
  | .kind => "TypeError"

/-! ### polynomial contrasts: the code divides column `k` by `sqrt(norms2[k])`; the model keeps the
unnormalised rational columns and reports, per matrix column, the product of the `norms2` involved -/

/-- `(expr, field text) ↦ norms2` for the reduced columns of every `C(…, contr.poly)` factor -/
def polyNorms (d : Crossed.Design) : List ((String × String) × Rat) :=
  d.factors.flatMap fun f =>
    match f with
    | .wrapped e col (.poly sc) =>
      match d.columns[col]? with
      | some (.cat ls decl) =>
        let cats := if decl then ls else Contrasts.inferLevels (ls.map some)
        match Contrasts.codingNorms2 (.poly sc) cats true, Contrasts.codingColumnNames (.poly sc) cats true with
        | .ok ns, .ok names => (names.zip ns).map fun (nm, v) => ((e, (Crossed.fieldOfLabel nm).text), v)
        | _, _ => []
      | _ => []
    | _ => []

def entryNorm (tab : List ((String × String) × Rat)) (e : Entry) : Rat :=
  e.parts.foldl (fun acc p =>
    match p.reduced, p.field with
    | true, some f =>
      match tab.find? (fun kv => kv.1 == (p.expr, f.text)) with
      | some kv => acc * kv.2
      | none => acc
    | _, _ => acc) 1

def handleCrossed (j : Json) : Json :=
  let d := designOf j
  let terms := (jarr j "terms").map (fun t => (asArr t).map asStr)
  match Crossed.designStructure d terms (jbool j "efr") (jbool j "cluster") with
  | .error (.design e) => jerr (designErrName e)
  | .error (.scope e) => jerr (scopeErrName e)
  | .ok rs =>
      let tab := polyNorms d
      Json.mkObj [
        ("nrows", Json.num (JsonNumber.fromNat (Crossed.rows d).length)),
        -- every hypothesis of `Props.C03.certified_design_full_rank_same_span` holds for this case
        ("certified", Json.bool (FormulaicVerif.Spec.C03Check.certified d terms (jbool j "cluster") (jbool j "asdict"))),
        ("structure", jlist (rs.map (fun r => Json.mkObj [
          ("term", jstrs r.term), ("scoped", jlist (r.sts.map stJ)),
          ("columns", jstrs (r.cols.map (·.name)))]))),
        ("columns", jlist ((combineColumns (jbool j "asdict") (allColumns rs)).map (fun e =>
          Json.mkObj [("name", Json.str e.name), ("parts", jlist (e.parts.map partJ)), ("values", colJ e.col),
                      ("norm2", ratJ (entryNorm tab e))])))]

/-! ### `algebra` -/

open FormulaicVerif.Model.ScopedOps in
def objOf (j : Json) : Obj :=
  match jstr j "t" with
  | "sf" => .sf ⟨jstr j "expr", jbool j "reduced"⟩
  | "st" => .st (stOf j)
  | _ => .other

open FormulaicVerif.Model.ScopedOps in
def objJ : Obj → Json
  | .sf f => Json.mkObj [("t", Json.str "sf"), ("expr", Json.str f.expr), ("reduced", Json.bool f.reduced)]
  | .st t => Json.mkObj [("t", Json.str "st"), ("st", stJ t)]
  | .other => Json.mkObj [("t", Json.str "other")]

open FormulaicVerif.Model.ScopedOps in
def handleAlgebra (j : Json) : Json :=
  let a := objOf (jval j "a")
  let b := objOf (jval j "b")
  let xs := (jarr j "xs").map objOf
  Json.mkObj [
    ("eq", Json.bool (pyEq a b)),
    ("lt", match pyLt a b with | .ok v => Json.bool v | .error _ => jerr "TypeError"),
    ("samehash", Json.bool (hashKey a == hashKey b && (hashKey a).isSome)),
    ("sorted", match pySorted xs with | .ok l => jlist (l.map objJ) | .error _ => jerr "TypeError"),
    ("dedup", jlist ((dedupSF ((jarr j "fs").map sfOf)).map sfJ)),
    ("member", Json.bool (osMem ((jarr j "set").map stOf) (stOf (jval j "x"))))]

def handle (j : Json) : Json :=
  match jstr j "op" with
  | "crossed" => handleCrossed j
  | "algebra" => handleAlgebra j
  | "noop" => Json.mkObj []
  | _ => C02.handle j

end FormulaicVerif.Engines.C03
