import FormulaicVerif.Engines.C01
import FormulaicVerif.Model.PyAlias
import FormulaicVerif.Model.TokenMethods
/-! Engine for C15: the tokenizer ops of the parser-stack engine (`tokenize`, … — forwarded to
`Engines.C01`), plus `lex` (tokens with source contexts, factors and the alias pass of every Python
token), `alias` (`sanitize_variable_names` / `sanitize_python_code` on an arbitrary fragment),
`split` (`Token.split`) and `tokcmp` (`Token.__eq__/__lt__/__hash__`). -/
namespace FormulaicVerif.Engines.C15
open Lean FormulaicVerif.Model FormulaicVerif.Engines

def cs (s : String) : List Char := s.toList
def js (l : List Char) : Json := Json.str (String.ofList l)

def isSpaceOf (j : Json) : Char → Bool :=
  let sp := (jstr j "spchars").toList
  fun c => sp.contains c

/-- `format_expr` as a table computed by the harness with CPython: sanitised fragment ↦ formatted text or error class -/
def fmtOf (j : Json) : List Char → Except PyAlias.Err (List Char) :=
  let tab : List (String × Json) := (jarr j "fmt").map (fun p => (jstr p "k", p))
  fun s =>
    match tab.find? (fun p => p.1 == String.ofList s) with
    | some (_, p) =>
      match p.getObjValAs? String "ok" with
      | .ok t => .ok t.toList
      | .error _ => if jstr p "err" == "SyntaxError" then .error .syntaxError else .error (.other (jstr p "err"))
    | none => .error (.other "fmt-missing")

def errJ : PyAlias.Err → Json
  | .syntaxError => jerr "SyntaxError"
  | .other n => jerr ("internal:" ++ n)
  | .loopBound => jerr "model:loop-bound"

def aliasesJ (al : PyAlias.Aliases) : Json := jlist (al.map (fun p => jlist [js p.1, js p.2]))

def partJ : PyAlias.Part → Json
  | .text s => js s
  | .lit s => js s
  | .name b => js ('`' :: b ++ ['`'])

/-- the alias pass and the restoration for one fragment, as `sanitize_python_code` runs them -/
def pyJ (j : Json) (frag : List Char) : Json :=
  match PyAlias.sanitizeNames { pre := PyAlias.formulaicPrefix, ident := fun _ => false } (isSpaceOf j) [] frag with
  | none => jerr "model:loop-bound"
  | some (s1, al, _) =>
    let fin : Json := match fmtOf j s1 with
      | .error e => errJ e
      | .ok s2 => Json.mkObj [("ok", js (PyAlias.restore al s2))]
    Json.mkObj [("s1", js s1), ("aliases", aliasesJ al), ("final", fin)]

def methErrJ : TokM.MethErr → Json
  | .runtimeError => jerr "RuntimeError"
  | .keyError => jerr "KeyError"
  | .other n => jerr ("model:" ++ n)

def factorJ (t : Tok) : Json :=
  match TokM.toFactor t with
  | .error e => methErrJ e
  | .ok f => jlist [Json.str f.expr, Json.str (C01.evalStr f.eval)]

def termsJ (t : Tok) : Json :=
  match TokM.toTerms t with
  | .error e => methErrJ e
  | .ok ts => jlist (ts.map C01.termJ)

def optStrJ : Option (List Char) → Json
  | some s => js s
  | none => Json.null

def tokenFullJ (src : List Char) (t : Tok) : Json :=
  Json.mkObj [
    ("tok", C01.tokJ t),
    ("ctx", optStrJ (TokM.sourceContext (some src) t false)),
    ("cctx", optStrJ (TokM.sourceContext (some src) t true)),
    ("factor", factorJ t),
    ("terms", termsJ t),
    ("rv", match TokM.requiredVariables t with
      | some vs => jlist (vs.map js)
      | none => Json.null)]

def kindOf : String → Option TKind
  | "context" => some .context | "operator" => some .operator | "value" => some .value
  | "name" => some .name | "python" => some .python | _ => none

def optNatOf (j : Json) : Option Nat := (j.getNat?).toOption

/-- a token sent by the harness as `[text, kind, start, stop]` -/
def tokOf (j : Json) : Tok :=
  match asArr j with
  | [t, k, a, b] => { text := (asStr t).toList, kind := kindOf (asStr k), start := optNatOf a, stop := optNatOf b }
  | _ => {}

def handle (j : Json) : Json :=
  match jstr j "op" with
  | "lex" =>
    let ci := C01.charInfos j
    let src := ci.map (·.c)
    let (emitted, err) := tokenizeStream ci
    let pys := emitted.filter (fun t => t.kind == some .python)
    Json.mkObj [
      ("tokens", jlist (emitted.map (tokenFullJ src))),
      ("error", match err with | some _ => Json.str "FormulaParsingError" | none => Json.null),
      ("py", jlist (pys.map (fun t => pyJ j t.text)))]
  | "alias" =>
    let expr := cs (jstr j "expr")
    let plainTab : List (String × Bool) := (jarr j "plain").map (fun p => match asArr p with
      | [k, v] => (asStr k, asBool v)
      | _ => ("", false))
    let cfg : PyAlias.Cfg := {
      pre := cs (jstr j "pre"),
      ident := fun n => match plainTab.find? (fun p => p.1 == String.ofList n) with
        | some p => p.2
        | none => false }
    let env := (strs j "env").map cs
    let parts := PyAlias.split expr
    match PyAlias.sanitizeNames cfg (isSpaceOf j) env expr with
    | none => jerr "model:loop-bound"
    | some (s1, al, added) =>
      let fin : Json := match j.getObjVal? "fmt" with
        | .ok _ => (match fmtOf j s1 with
          | .error e => errJ e
          | .ok s2 => Json.mkObj [("ok", js (PyAlias.restore al s2))])
        | .error _ => Json.null
      Json.mkObj [("parts", jlist (parts.map partJ)), ("s1", js s1), ("aliases", aliasesJ al),
        ("added", jlist (added.map (fun p => jlist [js p.1, js p.2]))), ("final", fin)]
  | "split" =>
    let t := tokOf (jval j "tok")
    jlist ((TokM.split t (cs (jstr j "pat")) (jbool j "after") (jbool j "before")).map C01.tokJ)
  | "tokinfo" =>
    let t := tokOf (jval j "tok")
    let src : Option (List Char) := match jval j "src" with
      | .str x => some x.toList
      | _ => none
    Json.mkObj [
      ("ctx", optStrJ (TokM.sourceContext src t false)),
      ("cctx", optStrJ (TokM.sourceContext src t true)),
      ("factor", factorJ t),
      ("terms", termsJ t),
      ("rv", match TokM.requiredVariables t with
        | some vs => jlist (vs.map js)
        | none => Json.null)]
  | "tokcmp" =>
    let a := tokOf (jval j "a")
    let b := tokOf (jval j "b")
    Json.mkObj [("eq", Json.bool (TokM.eqTok a b)), ("eqstr", Json.bool (TokM.eqStr a b.text)),
      ("lt", Json.bool (TokM.ltTok a b)), ("samehash", Json.bool (TokM.hashKey a == TokM.hashKey b)),
      ("loc", jlist [C01.optNat (TokM.sourceLoc a).1, C01.optNat (TokM.sourceLoc a).2])]
  | _ => C01.handle j

end FormulaicVerif.Engines.C15
