import FormulaicVerif.Engines.Json
import FormulaicVerif.Model.Replay
import FormulaicVerif.Model.CallArgs
/-! Engine `c04`: runs `Model.Replay.materialize` — a fit on the training rows of a pool, then the
fitted spec (also after `getstate`/`restore`) on every follow-up selection of pool rows.
Rationals travel as `"p/q"` strings (every float of the implementation is a dyadic rational). -/
namespace FormulaicVerif.Engines.C04
open Lean FormulaicVerif.Model FormulaicVerif.Model.Replay FormulaicVerif.Engines

def ratOfStr (s : String) : Rat :=
  match s.splitOn "/" with
  | [p] => Rat.ofInt (p.toInt?.getD 0)
  | [p, q] => mkRat (p.toInt?.getD 0) (q.toNat?.getD 1)
  | _ => 0

def ratOf : Json → Rat
  | .str s => ratOfStr s
  | j => Rat.ofInt (asInt j)

def optRat : Json → Option Rat
  | .null => none
  | j => some (ratOf j)

def ratJ (r : Rat) : Json := .str (toString r.num ++ "/" ++ toString r.den)
def ratsJ (l : List Rat) : Json := jlist (l.map ratJ)
def rats (j : Json) (k : String) : List Rat := (jarr j k).map ratOf
def optRats (j : Json) (k : String) : Option (List Rat) :=
  match jval j k with
  | .arr a => some (a.toList.map ratOf)
  | _ => none
def matOf (j : Json) (k : String) : List (List Rat) := (jarr j k).map (fun r => (asArr r).map ratOf)

/-! ### labels, cells, frames -/

def labelOf (j : Json) : Option Contrasts.Label :=
  match j.getObjVal? "s" with
  | .ok (.str s) => some (.str s)
  | _ =>
    match j.getObjVal? "i" with
    | .ok v => some (.int (asInt v))
    | _ => none

def labelJ : Contrasts.Label → Json
  | .str s => Json.mkObj [("s", Json.str s)]
  | .int i => Json.mkObj [("i", Json.num (JsonNumber.fromInt i))]

/-- a cell: `"p/q"` (number), `{"s": …}` / `{"i": …}` (label), `{"null": true}` (missing label) -/
def cellOf (j : Json) : Cell :=
  match j with
  | .str s => .num (ratOfStr s)
  | .obj _ => .lab (labelOf j)
  | j => .num (Rat.ofInt (asInt j))

def rowOf (cols : List String) (j : Json) : Row := cols.zip ((asArr j).map cellOf)

/-! ### the external routines -/

def absR (r : Rat) : Rat := if r < 0 then -r else r

/-- `numpy.sqrt` as a function: the supplied root whose square is nearest (0 ↦ 0) -/
def sqrtOf (roots : List Rat) (v : Rat) : Rat :=
  if v = 0 then 0
  else
    match roots with
    | [] => 1
    | r :: rs => rs.foldl (fun best c => if absR (c * c - v) < absR (best * best - v) then c else best) r

def argOf (j : Json) (dflt : Bool) : Scale.Arg Rat :=
  match j with
  | .bool b => .flag b
  | .str s => .value (ratOfStr s)
  | _ => .flag dflt

def modeOf : String → BSpline.Mode
  | "clip" => .clip | "na" => .na | "zero" => .zero | "extend" => .extend | _ => .raise

def trOf (j : Json) : Tr :=
  match jstr j "kind" with
  | "scale" => .scale (argOf (jval j "center") true) (argOf (jval j "scale") true) (ratOf (jval j "ddof"))
  | "poly" => .poly (jnat j "degree") (jbool j "raw")
  | "bs" => .bs {
      df := match jval j "df" with | .null => none | d => some (asInt d)
      knots := optRats j "knots"
      degree := jnat j "degree"
      intercept := jbool j "intercept"
      lower := optRat (jval j "lower")
      upper := optRat (jval j "upper")
      mode := modeOf (jstr j "mode") }
  | _ => .cs {
      df := match jval j "df" with | .null => none | d => some (asInt d)
      knots := optRats j "knots"
      lower := optRat (jval j "lower")
      upper := optRat (jval j "upper")
      constraints := match jval j "constraints" with
        | .null => .none
        | .str _ => .center
        | _ => .matrix (matOf j "constraints")
      cyclic := jbool j "cyclic"
      mode := modeOf (jstr j "mode") }

def paramsOf (roots : List Rat) (j : Json) : Params :=
  let q := rats j "quant"
  let F := matOf j "F"
  let Q2 := matOf j "Q2"
  { sqrt := sqrtOf roots, quant := fun _ _ => q, getF := fun _ => F, getQ2 := fun _ => Q2 }

def opOf : String → BinOp
  | "sub" => .sub | "mul" => .mul | _ => .add

instance : Inhabited Expr := ⟨.col ""⟩

partial def exprOf (j : Json) : Expr :=
  match jstr j "op" with
  | "col" => .col (jstr j "v")
  | "binc" => .binc (opOf (jstr j "f")) (exprOf (jval j "a")) (ratOf (jval j "c"))
  | "bin" => .bin (opOf (jstr j "f")) (exprOf (jval j "a")) (exprOf (jval j "b"))
  | "elem" => .elem (jstr j "fn") (exprOf (jval j "a"))
  | _ => .call (jstr j "text") (exprOf (jval j "a"))

def pyLitOf (j : Json) : CallArgs.PyLit :=
  match j with
  | .null => .none
  | .bool b => .bool b
  | .str s => .num (ratOfStr s)
  | j =>
    match j.getObjVal? "s" with
    | .ok (.str s) => .str s
    | _ => .num (Rat.ofInt (asInt j))

/-- the transform a call node denotes: from the call AS WRITTEN (`fn`, `pos`, `kw`), bound against the live
signature table `Gen.statefulSignatures` by the model (`CallArgs.trOfCall`); nodes without `fn` (the streams that
call a transform directly) carry the resolved description `tr` -/
def trOfNode (j : Json) : Except String Tr :=
  match j.getObjVal? "fn" with
  | .ok (.str fn) =>
    let kw := (jarr j "kw").map (fun p => match asArr p with
      | [k, v] => (asStr k, pyLitOf v)
      | _ => ("", CallArgs.PyLit.none))
    match CallArgs.trOfCall Gen.statefulSignatures fn ((jarr j "pos").map pyLitOf) kw with
    | .ok tr => .ok tr
    | .error e => .error ("MODEL-BIND-ERROR " ++ fn ++ ": " ++ reprStr e)
  | _ => .ok (trOf (jval j "tr"))

/-- the call nodes of an expression tree: (text, transform, external routines) -/
partial def callsOf (roots : List Rat) (j : Json) : List (String × Tr × Params) :=
  let sub := (match j.getObjVal? "a" with | .ok a => callsOf roots a | _ => []) ++
    (match j.getObjVal? "b" with | .ok b => callsOf roots b | _ => [])
  if jstr j "op" == "call" then
    match trOfNode j with
    | .ok tr => (jstr j "text", tr, paramsOf roots (jval j "params")) :: sub
    | .error _ => sub
  else sub

/-- the first call node whose arguments do not bind (reported instead of a fit) -/
partial def bindErrorOf (j : Json) : Option String :=
  let here := if jstr j "op" == "call" then (match trOfNode j with | .error e => some e | .ok _ => none) else none
  match here with
  | some e => some e
  | none =>
    match (match j.getObjVal? "a" with | .ok a => bindErrorOf a | _ => none) with
    | some e => some e
    | none => (match j.getObjVal? "b" with | .ok b => bindErrorOf b | _ => none)

def envBindError (j : Json) : Option String :=
  (jarr j "factors").findSome? (fun f =>
    if jstr (jval f "sem") "k" == "num" then bindErrorOf (jval (jval f "sem") "e") else none)

def contrastOf (j : Json) : Contrasts.Contrast :=
  match jstr j "c" with
  | "treatment" => .treatment (labelOf (jval j "base"))
  | "SAS" => .sas (labelOf (jval j "base"))
  | "sum" => .sum
  | "helmert" => .helmert (jbool j "reverse") (jbool j "scale")
  | "diff" => .diff (jbool j "backward")
  | _ => .treatment none

def semOf (j : Json) : FactorSem :=
  match jstr j "k" with
  | "lit" => .lit (ratOf (jval j "v"))
  | "cat" => .cat (jstr j "var") (contrastOf (jval j "contrast")) (jbool j "viaC")
  | _ => .num (exprOf (jval j "e"))

def envOf (j : Json) : Env :=
  let roots := rats j "roots"
  let normT := (jarr j "norm").map (fun p => match asArr p with | [a, b] => (asStr a, asStr b) | _ => ("", ""))
  let elemT := (jarr j "elem").map (fun p => match asArr p with
    | [f, x, y] => ((asStr f, ratOf x), ratOf y)
    | _ => (("", 0), 0))
  -- `contr.poly` (orthonormal polynomial coding: irrational entries) has no semantics here: outside the model
  let semT := ((jarr j "factors").filter (fun f => jstr (jval (jval f "sem") "contrast") "c" != "poly")).map
    (fun f => (jstr f "expr", semOf (jval f "sem")))
  let norm : String → String := fun t => match normT.lookup t with | some n => n | none => t
  let callT := ((jarr j "factors").flatMap (fun f =>
      if jstr (jval f "sem") "k" == "num" then callsOf roots (jval (jval f "sem") "e") else [])).map
    (fun c => (stateKey norm c.1, c.2))
  -- `C(var, levels=[…])`: the nominated levels, by factor expression
  let levT : List (String × List Contrasts.Label) := (jarr j "factors").filterMap (fun f =>
    match (jval f "sem").getObjVal? "levels" with
    | .ok (.arr a) => some (jstr f "expr", a.toList.filterMap labelOf)
    | _ => none)
  { norm := norm
    elem := fun f x => (elemT.find? (fun p => p.1.1 == f && p.1.2 == x)).map (·.2)
    sem := fun e => semT.lookup e
    call := fun k => callT.lookup k
    levels := fun e => levT.lookup e }

/-! ### printing -/

def tErrName : TErr → String
  | .scale _ => "nonfinite"
  | .poly .nonFinite => "nonfinite"
  | .poly .keyError => "FactorEvaluationError"
  | .poly .typeError => "FactorEvaluationError"
  | .poly .valueError => "FactorEvaluationError"
  | .bs .valueError => "FactorEvaluationError"
  | .bs .noData => "not-modelled:no-data"
  | .cs .valueError => "FactorEvaluationError"
  | .cs .index => "FactorEvaluationError"
  | .cs .noData => "not-modelled:no-data"
  | .contrast _ => "ValueError"
  | .nullRow => "not-modelled:null-row"
  | .ragged => "MODEL-RAGGED"
  | .stateShape => "not-modelled:state-shape"
  | .sparseShape => "ValueError"

def rErrName : RErr → String
  | .nameError => "FactorEvaluationError"
  | .transform e => tErrName e
  | .py e => e.name
  | .scope (.py e) => e.name
  | .scope .fuel => "MODEL-OUT-OF-FUEL"
  | .encoding => "FactorEncodingError"
  | .badOutput => "FormulaMaterializationError"
  | .dataMismatch => "DataMismatchWarning"
  | .kindMismatch => "MODEL-KIND-MISMATCH-ESCAPED"
  | .evalError => "FactorEvaluationError"
  | .notModelled w => "not-modelled:" ++ w

def entryJ (e : Entry) : Json := Json.mkObj [("name", Json.str e.name), ("values", ratsJ e.col)]
def matrixJ (m : List Entry) : Json := jlist (m.map entryJ)

def sfJ (f : SF) : Json := jlist [Json.str f.expr, Json.bool f.reduced]
def stJ (s : ST) : Json := Json.mkObj [("factors", jlist (s.factors.map sfJ)), ("scale", ratJ s.scale)]
def structJ (s : TermStruct) : Json :=
  Json.mkObj [("term", jstrs s.term), ("scoped", jlist (s.sts.map stJ)), ("columns", jstrs s.columns)]

def optOptRatJ : Option (Option Rat) → Json
  | none => Json.str "absent"
  | some none => Json.null
  | some (some r) => ratJ r

def scaleStateJ (s : Scale.State Rat) : Json :=
  Json.mkObj [("ddof", match s.ddof with | none => Json.str "absent" | some d => ratJ d),
    ("center", optOptRatJ s.center), ("scale", optOptRatJ s.scale)]

def optRatsJ : Option (List Rat) → Json
  | none => Json.null
  | some l => ratsJ l

def tstateJ : TState → Json
  | .scale s => Json.mkObj [("kind", "scale"), ("state", scaleStateJ s)]
  | .poly s => Json.mkObj [("kind", "poly"), ("alpha", optRatsJ s.alpha), ("norms2", optRatsJ s.norms2)]
  | .bs s => Json.mkObj [("kind", "bs"), ("lower", ratJ s.lower), ("upper", ratJ s.upper), ("knots", ratsJ s.knots)]
  | .cs s => Json.mkObj [("kind", "cs"), ("lower", ratJ s.lower), ("upper", ratJ s.upper), ("knots", ratsJ s.knots),
      ("cyclic", Json.bool s.cyclic),
      ("constraints", match s.constraints with | none => Json.null | some c => jlist (c.map ratsJ))]
  | .keyed m => Json.mkObj [("kind", "keyed"),
      ("states", jlist (m.map (fun p => jlist [Json.str p.1.text, scaleStateJ p.2])))]
  | .arr ss => Json.mkObj [("kind", "arr"), ("states", jlist (ss.map scaleStateJ))]

def specJ (s : Spec) : Json :=
  Json.mkObj [
    ("structure", match s.structure_ with | none => Json.null | some st => jlist (st.map structJ)),
    ("tstate", jlist (s.transformState.map (fun p => jlist [Json.str p.1, tstateJ p.2]))),
    ("estate", jlist (s.encoderState.map (fun p => jlist [Json.str p.1, jlist (p.2.map labelJ)]))),
    ("output", match s.output with | none => Json.null | some o => Json.str o),
    ("column_names", jstrs s.columnNames)]

/-- `op = "dict"`: the decorator's loop over dict-valued data (`T.callDict`) for a `scale`-family
transform: a fit from the empty state, then the recorded per-key states on selections of rows.
`{tr, roots, cols: [[{t, s}, [x…]]…], followups: [[i…]…]}` -/
def handleDict (j : Json) : Json :=
  let roots := rats j "roots"
  let cols : List (Field × List Rat) := (jarr j "cols").map (fun p => match asArr p with
    | [k, c] => ((⟨jstr k "t", jbool k "s"⟩ : Field), (asArr c).map ratOf)
    | _ => (⟨"", false⟩, []))
  let keyJ (k : Field) : Json := Json.mkObj [("t", Json.str k.text), ("s", Json.bool k.isStr)]
  let resJ (res : List (Field × List Rat)) : Json := jlist (res.map (fun p => jlist [keyJ p.1, ratsJ p.2]))
  let stJ (m : List (Field × Scale.State Rat)) : Json := jlist (m.map (fun p => jlist [keyJ p.1, scaleStateJ p.2]))
  match trOf (jval j "tr") with
  | .scale ca sa dd =>
    let t := scaleT (sqrtOf roots) ca sa dd
    match t.callDict Field.hidden [] cols with
    | .error e => Json.mkObj [("fit", jerr (tErrName e))]
    | .ok (res, m) =>
      let one (fu : Json) : Json :=
        let is := (asArr fu).map asNat
        match t.callDict Field.hidden m (cols.map (fun p => (p.1, Replay.select is p.2))) with
        | .error e => jerr (tErrName e)
        | .ok (res', m') => Json.mkObj [("res", resJ res'), ("state", stJ m')]
      Json.mkObj [("fit", Json.mkObj [("res", resJ res), ("state", stJ m)]),
        ("replays", jlist ((jarr j "followups").map one))]
  | _ => jerr "not-modelled:dict"

/-- `op = "sparse"`: a `scale`-family transform called on a `scipy.sparse` matrix (`callSparse`): a fit from the
empty state, then the recorded state on selections of rows.  `{tr, roots, cols: [[x…]…], followups: [[i…]…]}` -/
def handleSparse (j : Json) : Json :=
  let roots := rats j "roots"
  let cols : List (List Rat) := (jarr j "cols").map (fun c => (asArr c).map ratOf)
  match trOf (jval j "tr") with
  | .scale ca sa dd =>
    let t := scaleT (sqrtOf roots) ca sa dd
    let resJ (r : Except TErr (List Rat × Scale.State Rat)) : Json :=
      match r with
      | .error e => jerr (tErrName e)
      | .ok (out, st) => Json.mkObj [("res", ratsJ out), ("state", scaleStateJ st)]
    let fit := callSparse t none cols
    let st : Option (Scale.State Rat) := match fit with | .ok (_, s) => some s | .error _ => none
    Json.mkObj [("fit", resJ fit),
      ("replays", jlist ((jarr j "followups").map (fun fu =>
        resJ (callSparse t st (cols.map (Replay.select ((asArr fu).map asNat)))))))]
  | _ => jerr "not-modelled:sparse"

/-- `op = "parts"`: a STRUCTURED formula (`lhs ~ a | b`): the parts are fitted jointly on the training rows
(`materializeParts`), then the attached specs are replayed on follow-up rows — jointly, or one part's spec alone,
also after `getstate`/`restore`.
`{columns, pool, declared, factors, norm, elem, roots, parts: [[term…]…], efr, output, cluster, train,
  followups: [{rows, part: i | null, pickle}]}` -/
def handleParts (j : Json) : Json :=
  let cols := strs j "columns"
  let pool := (jarr j "pool").map (rowOf cols)
  let declared := (jarr j "declared").map (fun p => match asArr p with
    | [k, ls] => (asStr k, (asArr ls).filterMap labelOf)
    | _ => ("", []))
  let frame (is : List Nat) : Frame := { columns := cols, declared := declared, rows := Replay.select is pool }
  let env := envOf j
  let output : Option String := match jval j "output" with | .str o => some o | _ => none
  let specs0 := (jarr j "parts").map (fun pj =>
    Spec.fresh ((asArr pj).map (fun t => (asArr t).map asStr)) (jbool j "efr") output
      (if jbool j "cluster" then "numerical_factors" else "none"))
  let outJ (r : Spec × List Entry) : Json := Json.mkObj [("columns", matrixJ r.2), ("spec", specJ r.1)]
  match envBindError j with
  | some e => Json.mkObj [("fit", jerr e)]
  | none =>
  match materializeParts env specs0 (frame ((jarr j "train").map asNat)) with
  | .error e => Json.mkObj [("fit", jerr (rErrName e))]
  | .ok rs =>
    let specs := rs.map (·.1)
    let viaPickle (s : Spec) : Option Spec := Spec.ofDict (restore (getstate (s.toDict ++ [("column_names", .derived s.columnNames)])))
    let one (fu : Json) : Json :=
      let ss : List Spec := if jbool fu "pickle" then specs.filterMap viaPickle else specs
      let fr := frame ((jarr fu "rows").map asNat)
      match jval fu "part" with
      | .null =>
        match materializeParts env ss fr with
        | .error e => jerr (rErrName e)
        | .ok rs' => Json.mkObj [("parts", jlist (rs'.map outJ))]
      | pj =>
        match ss[asNat pj]? with
        | none => jerr "MODEL-NO-SUCH-PART"
        | some s =>
          match materialize env s fr with
          | .error e => jerr (rErrName e)
          | .ok r => Json.mkObj [("parts", jlist [outJ r])]
    Json.mkObj [("fit", Json.mkObj [("parts", jlist (rs.map outJ))]),
      ("replays", jlist ((jarr j "followups").map one))]

/-- `op = "session"`: two (or more) specs fitted on their own training rows, then a HISTORY of
`get_model_matrix(spec_i)` calls on ONE materializer object built for the rows `rows`
(`Mat.run`: the object's cache is threaded through the calls, failing calls included).
`{columns, present, pool, declared, factors, norm, elem, roots,
  fits: [{terms, efr, output, cluster, train, factors, norm, elem, roots}], rows: [i…],
  calls: [{spec: i, strict: bool}]}` -/
def handleSession (j : Json) : Json :=
  let cols := strs j "columns"
  let pool := (jarr j "pool").map (rowOf cols)
  let declared := (jarr j "declared").map (fun p => match asArr p with
    | [k, ls] => (asStr k, (asArr ls).filterMap labelOf)
    | _ => ("", []))
  let frame (is : List Nat) : Frame := { columns := cols, declared := declared, rows := Replay.select is pool }
  -- the data of the materializer object may lack a column of the pool (`present`)
  let dataFrame (is : List Nat) : Frame := { columns := strs j "present", declared := declared, rows := Replay.select is pool }
  let env := envOf j
  let fitOne (fj : Json) : Except RErr (Spec × List Entry) :=
    let terms := (jarr fj "terms").map (fun t => (asArr t).map asStr)
    let output : Option String := match jval fj "output" with | .str o => some o | _ => none
    -- each fit with the external-routine results (quantile knots …) of its own training rows
    materialize (envOf fj) (Spec.fresh terms (jbool fj "efr") output (if jbool fj "cluster" then "numerical_factors" else "none"))
      (frame ((jarr fj "train").map asNat))
  let fits := (jarr j "fits").map fitOne
  let outJ (r : Except RErr (Spec × List Entry)) : Json :=
    match r with
    | .error e => jerr (rErrName e)
    | .ok (s, m) => Json.mkObj [("columns", matrixJ m), ("spec", specJ s)]
  let specs : List Spec := fits.filterMap (fun r => match r with | .ok (s, _) => some s | .error _ => none)
  if specs.length != fits.length then Json.mkObj [("fits", jlist (fits.map outJ)), ("calls", jlist [])] else
  let calls : List (Bool × Spec) := (jarr j "calls").filterMap (fun cj =>
    (specs[jnat cj "spec"]?).map (fun s => (jbool cj "strict", s)))
  Json.mkObj [("fits", jlist (fits.map outJ)),
    ("calls", jlist ((Mat.run env (dataFrame ((jarr j "rows").map asNat)) [] calls).map outJ))]

/-- request:
`{columns, pool: [[cell…]…], train: [i…], followups: [{rows: [i…], pickle: bool}…],
  terms, factors: [{expr, sem}], norm, elem, roots, efr, output, cluster}` -/
def handle (j : Json) : Json :=
  if jstr j "op" == "noop" then Json.mkObj [] else
  if jstr j "op" == "dict" then handleDict j else
  if jstr j "op" == "session" then handleSession j else
  if jstr j "op" == "sparse" then handleSparse j else
  if jstr j "op" == "parts" then handleParts j else
  let cols := strs j "columns"
  let pool := (jarr j "pool").map (rowOf cols)
  let declared := (jarr j "declared").map (fun p => match asArr p with
    | [k, ls] => (asStr k, (asArr ls).filterMap labelOf)
    | _ => ("", []))
  let frame (is : List Nat) : Frame := { columns := cols, declared := declared, rows := Replay.select is pool }
  let env := envOf j
  let terms := (jarr j "terms").map (fun t => (asArr t).map asStr)
  let output : Option String := match jval j "output" with | .str o => some o | _ => none
  let spec0 := Spec.fresh terms (jbool j "efr") output (if jbool j "cluster" then "numerical_factors" else "none")
  match envBindError j with
  | some e => Json.mkObj [("fit", jerr e)]
  | none =>
  match materialize env spec0 (frame ((jarr j "train").map asNat)) with
  | .error e => Json.mkObj [("fit", jerr (rErrName e))]
  | .ok (spec, m) =>
    -- the cached properties that live in the instance `__dict__` next to the dataclass fields
    -- the instance `__dict__` as the implementation reports it (its keys, in order): the dataclass fields and the
    -- cached properties that have been read
    let fieldVals := spec.toDict
    let instKeys := strs j "inst_keys"
    let inst : PyDict :=
      if instKeys.isEmpty then fieldVals ++ [("column_names", .derived spec.columnNames)]
      else instKeys.map (fun k => match fieldVals.lookup k with
        | some v => (k, v)
        | none => (k, .derived spec.columnNames))
    let pickled : Option Spec := Spec.ofDict (restore (getstate inst))
    let one (fu : Json) : Json :=
      let s : Option Spec := if jbool fu "pickle" then pickled else some spec
      match s with
      | none => jerr "MODEL-PICKLE-LOST-A-FIELD"
      | some s =>
        -- `get_model_matrix(data, output=…)`: `spec.update(output=…)` first
        let s := match jval fu "output" with
          | .str o => { s with output := some o }
          | _ => s
        -- a hand-edited spec: the recorded categories of one factor replaced
        let s := match fu.getObjVal? "edit" with
          | .ok ed => { s with encoderState := setKey s.encoderState (jstr ed "factor") ((jarr ed "categories").filterMap labelOf) }
          | _ => s
        -- the follow-up data: a selection of pool rows, possibly without one column, possibly with one column of
        -- the other kind (strings for numbers / numbers for categories)
        let fr0 := frame ((jarr fu "rows").map asNat)
        let fr1 : Frame := match jval fu "drop" with
          | .str c => { fr0 with columns := fr0.columns.filter (· != c) }
          | _ => fr0
        let fr : Frame := match jval fu "swap" with
          | .str c => { fr1 with rows := fr1.rows.map (fun r => r.map (fun kv =>
              if kv.1 == c then (kv.1, match kv.2 with
                | .num _ => Cell.lab (some (.str "~"))
                | .lab _ => Cell.num 0) else kv)) }
          | _ => fr1
        match materialize env s fr with
        | .error e => jerr (rErrName e)
        | .ok (s', m') =>
          Json.mkObj [("columns", matrixJ m'), ("spec", specJ s')]
    Json.mkObj [("fit", Json.mkObj [("columns", matrixJ m), ("spec", specJ spec)]),
      ("replays", jlist ((jarr j "followups").map one)), ("field_names", jstrs fieldNames),
      ("getstate_keys", jstrs ((getstate inst).map (·.1)))]

end FormulaicVerif.Engines.C04
