import FormulaicVerif.Engines.Json
import FormulaicVerif.Model.Nulls
/-! Engine `c06`: runs `Model.Nulls.call` on one call record.

request  {"variant": "current" | "legacy" (default current), "n": rows, "labels": [str…],
          "policy": "drop"|"raise"|"ignore", "output": "pandas"|"numpy"|"sparse"|"narwhals",
          "entry": "sugar"|"formula"|"modelspec"|"modelspecs"|"materializer",
          "structured": bool, "overrides": bool, "joint": bool, "caller": [nat…] | null,
          "parts": [{"mat": "pandas"|"narwhals", "intercept": bool,
                     "factors": [{"nulls": [nat…], "store": "series"|"ndarray"|"nw"|"list",
                                  "enc": "default"|"C"|"hashed"}…]}…]}
The cells of every factor are the row positions `0 … n-1`, so a surviving column lists the
positions that were kept.
answer   {"error": kind} | {"parts": [{"nrows", "intercept": k|null, "cols": [[pos…]…],
                                        "index": [str…] | {"range": k} | null}…],
                            "final": [nat…] (sorted) | null} -/
namespace FormulaicVerif.Engines.C06
open Lean FormulaicVerif.Engines FormulaicVerif.Model.Nulls

def policyOf : String → Policy
  | "raise" => .raise
  | "ignore" => .ignore
  | _ => .drop

def outputOf : String → Output
  | "numpy" => .numpy
  | "sparse" => .sparse
  | "narwhals" => .narwhals
  | _ => .pandas

def matOf : String → Mat
  | "narwhals" => .narwhals
  | "arrow" => .arrow
  | _ => .pandas

def storeOf : String → Store
  | "ndarray" => .ndarray
  | "nw" => .nwSeries
  | "list" => .pylist
  | _ => .series

def encOf : String → Encoder
  | "C" => .contrastsC
  | "hashed" => .hashed
  | _ => .default

def entryOf : String → Entry
  | "formula" => .formula
  | "modelspec" => .modelSpec
  | "modelspecs" => .modelSpecs
  | "materializer" => .materializer
  | _ => .sugar

def nats (j : Json) (k : String) : List Nat := (jarr j k).map asNat

def factorOf (n : Nat) (j : Json) : Factor Nat :=
  ⟨List.range n, nats j "nulls", storeOf (jstr j "store"), encOf (jstr j "enc")⟩

def partOf (n : Nat) (j : Json) : Part Nat :=
  ⟨matOf (jstr j "mat"), jbool j "intercept", (jarr j "factors").map (factorOf n)⟩

def errStr : Err → String
  | .nullsPresent => "NullsPresent"
  | .indexError => "IndexError"
  | .lengthMismatch => "LengthMismatch"
  | .negativeDimensions => "LengthMismatch"

def jnats (xs : List Nat) : Json := jlist (xs.map (fun k => Json.num (JsonNumber.fromNat k)))

def indexJ : IndexOut String → Json
  | .none => Json.null
  | .labels ls => jstrs ls
  | .range k => Json.mkObj [("range", Json.num (JsonNumber.fromNat k))]

def matrixJ (m : Matrix String Nat) : Json :=
  Json.mkObj [
    ("nrows", Json.num (JsonNumber.fromNat m.nrows)),
    ("intercept", match m.intercept with | some k => Json.num (JsonNumber.fromNat k) | none => Json.null),
    ("cols", jlist (m.cols.map jnats)),
    ("index", indexJ m.index)]

def handle (j : Json) : Json :=
  let v := if jstr j "variant" == "legacy" then legacy else current
  let n := jnat j "n"
  let caller : Option DropSet :=
    match jval j "caller" with
    | .arr a => some (a.toList.map asNat).eraseDups
    | _ => none
  let c : CallRec := ⟨entryOf (jstr j "entry"), jbool j "structured", jbool j "overrides", jbool j "joint", caller⟩
  let parts := (jarr j "parts").map (partOf n)
  match call v (strs j "labels") n (policyOf (jstr j "policy")) (outputOf (jstr j "output")) parts c with
  | .error e => jerr (errStr e)
  | .ok r =>
    Json.mkObj [
      ("parts", jlist (r.mats.map matrixJ)),
      ("final", match r.callerAfter with | some s => jnats (sorted s) | none => Json.null)]

end FormulaicVerif.Engines.C06
