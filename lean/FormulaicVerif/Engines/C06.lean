import FormulaicVerif.Engines.Json
import FormulaicVerif.Model.Nulls
import FormulaicVerif.Model.NullsHistory
/-! Engine `c06`: runs `Model.Nulls.call` on one call record, or (`"op": "history"`)
`Model.NullsHist.runHistory` on a list of calls made on ONE materializer object.

request  {"variant": "current" | "legacy" (default current), "n": rows, "labels": [str…],
          "policy": "drop"|"raise"|"ignore", "output": "pandas"|"numpy"|"sparse"|"narwhals",
          "entry": "sugar"|"formula"|"modelspec"|"modelspecs"|"materializer",
          "structured": bool, "overrides": bool, "joint": bool, "caller": [nat…] | null,
          "parts": [{"mat": "pandas"|"narwhals", "intercept": bool,
                     "factors": [{"nulls": [nat…], "store": "series"|"ndarray"|"nw"|"list",
                                  "enc": "default"|"C"|"hashed"}…]}…]}
The cells of every factor are the row positions `0 … n-1`, so a surviving column lists the
positions that were kept.
answer   {"error": kind} | {"parts": [{"nrows", "intercept": k|null, "cols": [[pos…]…],
                                        "index": [str…] | {"range": k} | null}…],
                            "final": [nat…] (sorted) | null}

history  {"op": "history", "variant", "reset": bool (default true: the caches are emptied at the
          start of a call), "n", "labels",
          "calls": [{"policy", "output", "caller", "parts": [… as above, every factor with its
                     cache key "key": expr …]}…]}
answer   {"calls": [one answer as above per call, in order]} -/
namespace FormulaicVerif.Engines.C06
open Lean FormulaicVerif.Engines FormulaicVerif.Model.Nulls FormulaicVerif.Model.NullsHist

def policyOf : String → Policy
  | "raise" => .raise
  | "ignore" => .ignore
  | _ => .drop

def outputOf : String → Output
  | "numpy" => .numpy
  | "sparse" => .sparse
  | "narwhals" => .narwhals
  | _ => .pandas

def matOf : String → Mat
  | "narwhals" => .narwhals
  | "arrow" => .arrow
  | _ => .pandas

def storeOf : String → Store
  | "ndarray" => .ndarray
  | "nw" => .nwSeries
  | "list" => .pylist
  | _ => .series

def encOf : String → Encoder
  | "C" => .contrastsC
  | "hashed" => .hashed
  | _ => .default

def entryOf : String → Entry
  | "formula" => .formula
  | "modelspec" => .modelSpec
  | "modelspecs" => .modelSpecs
  | "materializer" => .materializer
  | _ => .sugar

def nats (j : Json) (k : String) : List Nat := (jarr j k).map asNat

def factorOf (n : Nat) (j : Json) : Factor Nat :=
  ⟨List.range n, nats j "nulls", storeOf (jstr j "store"), encOf (jstr j "enc")⟩

def partOf (n : Nat) (j : Json) : Part Nat :=
  ⟨matOf (jstr j "mat"), jbool j "intercept", (jarr j "factors").map (factorOf n)⟩

def errStr : Err → String
  | .nullsPresent => "NullsPresent"
  | .indexError => "IndexError"
  | .lengthMismatch => "LengthMismatch"
  | .negativeDimensions => "LengthMismatch"

def jnats (xs : List Nat) : Json := jlist (xs.map (fun k => Json.num (JsonNumber.fromNat k)))

def indexJ : IndexOut String → Json
  | .none => Json.null
  | .labels ls => jstrs ls
  | .range k => Json.mkObj [("range", Json.num (JsonNumber.fromNat k))]

def matrixJ (m : Matrix String Nat) : Json :=
  Json.mkObj [
    ("nrows", Json.num (JsonNumber.fromNat m.nrows)),
    ("intercept", match m.intercept with | some k => Json.num (JsonNumber.fromNat k) | none => Json.null),
    ("cols", jlist (m.cols.map jnats)),
    ("index", indexJ m.index)]

def callerOf (j : Json) : Option DropSet :=
  match jval j "caller" with
  | .arr a => some (a.toList.map asNat).eraseDups
  | _ => none

def kpartOf (n : Nat) (j : Json) : KPart Nat :=
  ⟨matOf (jstr j "mat"), jbool j "intercept",
   (jarr j "factors").map (fun f => ⟨jstr f "key", factorOf n f⟩)⟩

def hcallOf (n : Nat) (j : Json) : Call Nat :=
  ⟨policyOf (jstr j "policy"), outputOf (jstr j "output"), (jarr j "parts").map (kpartOf n), callerOf j⟩

def herrStr : HErr → String
  | .rows e => errStr e
  | .keyError => "Other:KeyError"

def calloutJ (r : CallOut String Nat) : Json :=
  Json.mkObj [
    ("parts", jlist (r.mats.map matrixJ)),
    ("final", match r.callerAfter with | some s => jnats (sorted s) | none => Json.null)]

def handleHistory (j : Json) : Json :=
  let v := if jstr j "variant" == "legacy" then legacy else current
  let n := jnat j "n"
  let reset := match jval j "reset" with | .bool b => b | _ => true
  let calls := (jarr j "calls").map (hcallOf n)
  let rs := runHistory reset v (strs j "labels") n calls Caches.empty
  Json.mkObj [("calls", jlist (rs.map (fun r =>
    match r with
    | .error e => jerr (herrStr e)
    | .ok o => calloutJ o)))]

def handleCall (j : Json) : Json :=
  let v := if jstr j "variant" == "legacy" then legacy else current
  let n := jnat j "n"
  let caller : Option DropSet := callerOf j
  let c : CallRec := ⟨entryOf (jstr j "entry"), jbool j "structured", jbool j "overrides", jbool j "joint", caller⟩
  let parts := (jarr j "parts").map (partOf n)
  match call v (strs j "labels") n (policyOf (jstr j "policy")) (outputOf (jstr j "output")) parts c with
  | .error e => jerr (errStr e)
  | .ok r => calloutJ r

def handle (j : Json) : Json :=
  if jstr j "op" == "history" then handleHistory j else handleCall j

end FormulaicVerif.Engines.C06
