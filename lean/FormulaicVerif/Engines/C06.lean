import FormulaicVerif.Engines.Json
import FormulaicVerif.Model.Nulls
import FormulaicVerif.Model.NullsHistory
/-! Engine `c06`: runs `Model.Nulls.callNA` on one call record, (`"op": "history"`)
`Model.NullsHist.runHistory` on a list of calls made on ONE materializer object, or (`"op":
"find_nulls"` / `"drop_rows"`) the value-level functions `Model.Nulls.findNulls` / `dropRowsV`.

value V  {"t": "none" | "other"}
         {"t": "scalar", "k": "num"|"str"|"np", "null": bool}      {"t": "array0", "null": bool}
         {"t": "list"|"nw"|"series"|"array1", "len": k, "nulls": [pos…]}
         {"t": "array2"|"frame", "n": rows, "cols": [[null pos…]…]}  {"t": "arrayN", "n": rows}
         {"t": "sparse", "csc": bool, "n": rows, "cols": [[null pos…]…]}
         {"t": "dict", "items": [{"hidden": bool, "v": V}…]}
The content of cell `i` of every column is the number `i`, so a surviving column lists the
positions that were kept.

request  {"variant": "current" | "legacy" | "beforeValues" | "beforeShared" (default current), "n": rows, "labels": [str…],
          "policy": "drop"|"raise"|"ignore"  (an NAAction member)  or  "na_text": any string,
          "output": "pandas"|"numpy"|"sparse"|"narwhals",
          "entry": "sugar"|"formula"|"modelspec"|"modelspecs"|"materializer",
          "structured": bool, "overrides": bool, "joint": bool, "caller": [nat…] | null,
          "parts": [{"mat": "pandas"|"narwhals"|"arrow", "intercept": bool,
                     "factors": [{"value": V, "enc": "default"|"C"|"hashed"|"constant"}…]}…]}
answer   {"error": kind} | {"parts": [{"nrows", "intercept": k|null,
                                        "cols": [[[pos…] per column] per factor],
                                        "index": [str…] | {"range": k} | null}…],
                            "final": [nat…] (sorted) | null}

history  {"op": "history", "variant", "reset": bool (default true: the caches are emptied at the
          start of a call), "n", "labels",
          "calls": [{"policy", "output", "caller", "parts": [… as above, every factor with its
                     cache key "key": expr …]}…]}
answer   {"calls": [one answer as above per call, in order]}

sethistory {"op": "sethistory", "variant", "set": [nat…] | null, "calls": [one call request as above (its
            "caller" is ignored: every call receives the same set object) …]}
answer     {"calls": [one call answer per call, each with "set_after"]}
(every call answer carries "set_after": the content of the caller's set object after the call, also
when it raised; null when no set was passed)

find_nulls {"op": "find_nulls", "variant", "value": V}
answer     {"nulls": [pos…] (sorted)} | {"error": kind}
drop_rows  {"op": "drop_rows", "variant", "labels": [str…], "value": V, "indices": [nat…]}
answer     {"t": …, "n": rows | null, "cols": [[pos…]…]} | {"error": kind} -/
namespace FormulaicVerif.Engines.C06
open Lean FormulaicVerif.Engines FormulaicVerif.Model.Nulls FormulaicVerif.Model.NullsHist

def policyOf : String → Policy
  | "raise" => .raise
  | "ignore" => .ignore
  | _ => .drop

def outputOf : String → Output
  | "numpy" => .numpy
  | "sparse" => .sparse
  | "narwhals" => .narwhals
  | _ => .pandas

def matOf : String → Mat
  | "narwhals" => .narwhals
  | "arrow" => .arrow
  | _ => .pandas

def encOf : String → Encoder
  | "C" => .contrastsC
  | "hashed" => .hashed
  | "constant" => .constant
  | _ => .default

def entryOf : String → Entry
  | "formula" => .formula
  | "modelspec" => .modelSpec
  | "modelspecs" => .modelSpecs
  | "materializer" => .materializer
  | _ => .sugar

def nats (j : Json) (k : String) : List Nat := (jarr j k).map asNat

/-- a column of `k` cells holding `0 … k-1`, null at the listed positions -/
def cellsOfJ (k : Nat) (nulls : List Nat) : List (Cell Nat) :=
  (List.range k).map (fun i => ⟨i, nulls.contains i⟩)

def tableOf (j : Json) : Nat × List (List (Cell Nat)) :=
  let n := jnat j "n"
  (n, (jarr j "cols").map (fun c => cellsOfJ n ((asArr c).map asNat)))

def scalarKindOf : String → ScalarKind
  | "str" => .pyStr
  | "np" => .npNum
  | _ => .pyNum

/-- decoding of a value; nesting deeper than the fuel decodes as an unknown object -/
def valueOfFuel : Nat → Json → Value Nat
  | 0, _ => .other
  | fuel + 1, j =>
  match jstr j "t" with
  | "none" => .none
  | "scalar" => .scalar (scalarKindOf (jstr j "k")) ⟨0, jbool j "null"⟩
  | "list" => .pylist (cellsOfJ (jnat j "len") (nats j "nulls"))
  | "nw" => .nwSeries (cellsOfJ (jnat j "len") (nats j "nulls"))
  | "series" => .series (cellsOfJ (jnat j "len") (nats j "nulls"))
  | "array0" => .array0 ⟨0, jbool j "null"⟩
  | "array1" => .array1 (cellsOfJ (jnat j "len") (nats j "nulls"))
  | "array2" => .array2 (tableOf j).1 (tableOf j).2
  | "arrayN" => .arrayN (jnat j "n")
  | "frame" => .frame (tableOf j).1 (tableOf j).2
  | "sparse" => .sparse (jbool j "csc") (tableOf j).1 (tableOf j).2
  | "dict" => .dict ((jarr j "items").map (fun it => (jbool it "hidden", valueOfFuel fuel (jval it "v"))))
  | _ => .other

def valueOf (j : Json) : Value Nat := valueOfFuel 32 j

def factorOf (j : Json) : Factor Nat := ⟨valueOf (jval j "value"), encOf (jstr j "enc")⟩

def partOf (j : Json) : Part Nat :=
  ⟨matOf (jstr j "mat"), jbool j "intercept", (jarr j "factors").map factorOf⟩

def errStr : Err → String
  | .nullsPresent => "NullsPresent"
  | .indexError => "IndexError"
  | .lengthMismatch => "LengthMismatch"
  | .negativeDimensions => "LengthMismatch"
  | .constantNull => "ConstantNull"
  | .tooManyDims => "TooManyDims"
  | .noFindNulls => "NoFindNulls"
  | .noDropRows => "NoDropRows"
  | .notColumns => "NotColumns"
  | .invalidNAAction => "InvalidNAAction"

def jnats (xs : List Nat) : Json := jlist (xs.map (fun k => Json.num (JsonNumber.fromNat k)))

def indexJ : IndexOut String → Json
  | .none => Json.null
  | .labels ls => jstrs ls
  | .range k => Json.mkObj [("range", Json.num (JsonNumber.fromNat k))]

def matrixJ (m : Matrix String Nat) : Json :=
  Json.mkObj [
    ("nrows", Json.num (JsonNumber.fromNat m.nrows)),
    ("intercept", match m.intercept with | some k => Json.num (JsonNumber.fromNat k) | none => Json.null),
    ("cols", jlist (m.cols.map (fun f => jlist (f.map (fun c => jnats (c.map (·.val))))))),
    ("index", indexJ m.index)]

def callerOf (j : Json) : Option DropSet :=
  match jval j "caller" with
  | .arr a => some (a.toList.map asNat).eraseDups
  | _ => none

def kpartOf (j : Json) : KPart Nat :=
  ⟨matOf (jstr j "mat"), jbool j "intercept",
   (jarr j "factors").map (fun f => ⟨jstr f "key", factorOf f⟩)⟩

def hcallOf (j : Json) : Call Nat :=
  ⟨policyOf (jstr j "policy"), outputOf (jstr j "output"), (jarr j "parts").map kpartOf, callerOf j⟩

def herrStr : HErr → String
  | .rows e => errStr e
  | .keyError => "Other:KeyError"

def calloutJ (r : CallOut String Nat) : Json :=
  Json.mkObj [
    ("parts", jlist (r.mats.map matrixJ)),
    ("final", match r.callerAfter with | some s => jnats (sorted s) | none => Json.null)]

def variantOf (j : Json) : Variant :=
  match jstr j "variant" with
  | "legacy" => legacy
  | "beforeValues" => beforeValues
  | "beforeShared" => beforeShared
  | _ => current

def handleHistory (j : Json) : Json :=
  let v := variantOf j
  let n := jnat j "n"
  let reset := match jval j "reset" with | .bool b => b | _ => true
  let calls := (jarr j "calls").map hcallOf
  let rs := runHistory reset v (strs j "labels") n calls Caches.empty
  Json.mkObj [("calls", jlist (rs.map (fun r =>
    match r with
    | .error e => jerr (herrStr e)
    | .ok o => calloutJ o)))]

def naOf (j : Json) : NAInput :=
  match jval j "na_text" with
  | .str s => .text s
  | _ => .member (policyOf (jstr j "policy"))

def setJ : Option DropSet → Json
  | some s => jnats (sorted s)
  | none => Json.null

/-- the answer to one call: its result or error, and the caller's set object afterwards -/
def answerJ (res : Except Err (CallOut String Nat)) (after : Option DropSet) : Json :=
  match res with
  | .error e => Json.mkObj [("error", Json.str (errStr e)), ("set_after", setJ after)]
  | .ok r =>
    Json.mkObj [
      ("parts", jlist (r.mats.map matrixJ)),
      ("final", match r.callerAfter with | some s => jnats (sorted s) | none => Json.null),
      ("set_after", setJ after)]

def callRecOf (j : Json) (caller : Option DropSet) : CallRec :=
  ⟨entryOf (jstr j "entry"), jbool j "structured", jbool j "overrides", jbool j "joint", caller⟩

def handleCall (j : Json) : Json :=
  let v := variantOf j
  let n := jnat j "n"
  let c := callRecOf j (callerOf j)
  let parts := (jarr j "parts").map partOf
  answerJ (callNA v (strs j "labels") n (naOf j) (outputOf (jstr j "output")) parts c)
    (setAfterCallNA v (strs j "labels") n (naOf j) (outputOf (jstr j "output")) parts c)

def setCallOf (j : Json) : SetCall String Nat :=
  ⟨strs j "labels", jnat j "n", naOf j, outputOf (jstr j "output"), (jarr j "parts").map partOf,
   callRecOf j none⟩

/-- `runSetHistory` in segments: a call that carries `"set_override"` starts a new segment with that
content (used after a DROP call whose null check raised: what it left in the set depends on the
order in which the pooled factors were checked, which is not modelled) -/
def runSegments (v : Variant) : List Json → Option DropSet → List (Except Err (CallOut String Nat) × Option DropSet)
  | [], _ => []
  | j :: r, s =>
    let s0 : Option DropSet := match jval j "set_override" with
      | .arr a => some (a.toList.map asNat).eraseDups
      | _ => s
    match runSetHistory v [setCallOf j] s0 with
    | [x] => x :: runSegments v r x.2
    | _ => []

/-- `"op": "sethistory"`: ONE set object (`"set"`: its initial content, or null) handed to every call -/
def handleSetHistory (j : Json) : Json :=
  let v := variantOf j
  let s0 : Option DropSet := match jval j "set" with
    | .arr a => some (a.toList.map asNat).eraseDups
    | _ => none
  let rs := runSegments v (jarr j "calls") s0
  Json.mkObj [("calls", jlist (rs.map (fun r => answerJ r.1 r.2)))]

def handleFindNulls (j : Json) : Json :=
  match findNulls (variantOf j) (valueOf (jval j "value")) with
  | .error e => jerr (errStr e)
  | .ok ns => Json.mkObj [("nulls", jnats (sorted ns.eraseDups))]

def colsJ (cols : List (List (Cell Nat))) : Json := jlist (cols.map (fun c => jnats (c.map (·.val))))

/-- what is left of a value: its type, `shape[0]` where it has one, the surviving cells per column -/
def valueJ : Value Nat → Json
  | .none => Json.mkObj [("t", "none")]
  | .scalar _ _ => Json.mkObj [("t", "scalar")]
  | .pylist c => Json.mkObj [("t", "list"), ("n", Json.null), ("cols", colsJ [c])]
  | .nwSeries c => Json.mkObj [("t", "nw"), ("n", Json.null), ("cols", colsJ [c])]
  | .series c => Json.mkObj [("t", "series"), ("n", Json.null), ("cols", colsJ [c])]
  | .array0 _ => Json.mkObj [("t", "array0")]
  | .array1 c => Json.mkObj [("t", "array1"), ("n", Json.null), ("cols", colsJ [c])]
  | .array2 n cols => Json.mkObj [("t", "array2"), ("n", Json.num (JsonNumber.fromNat n)), ("cols", colsJ cols)]
  | .arrayN n => Json.mkObj [("t", "arrayN"), ("n", Json.num (JsonNumber.fromNat n)), ("cols", colsJ [])]
  | .frame n cols => Json.mkObj [("t", "frame"), ("n", Json.num (JsonNumber.fromNat n)), ("cols", colsJ cols)]
  | .sparse csc n cols =>
    Json.mkObj [("t", if csc then "csc" else "csr"), ("n", Json.num (JsonNumber.fromNat n)), ("cols", colsJ cols)]
  | .dict _ => Json.mkObj [("t", "dict")]
  | .other => Json.mkObj [("t", "other")]

def handleDropRows (j : Json) : Json :=
  match dropRowsV (variantOf j) (strs j "labels") (valueOf (jval j "value")) (nats j "indices") with
  | .error e => jerr (errStr e)
  | .ok x => valueJ x

def handle (j : Json) : Json :=
  match jstr j "op" with
  | "history" => handleHistory j
  | "sethistory" => handleSetHistory j
  | "find_nulls" => handleFindNulls j
  | "drop_rows" => handleDropRows j
  | _ => handleCall j

end FormulaicVerif.Engines.C06
