import FormulaicVerif.Engines.Json
import FormulaicVerif.Model.Sparse
import FormulaicVerif.Model.EntryPoints
import FormulaicVerif.Model.Registry
import FormulaicVerif.Model.Dispatch
import FormulaicVerif.Model.Wrapper
import FormulaicVerif.Gen.Names
import FormulaicVerif.Gen.Plumbing
import FormulaicVerif.Gen.Registry
/-! Engine of property C05. ops:
* `entry`   a call record (and optional follow-up records `more`) → the request(s) that reach
            `FormulaMaterializer.get_model_matrix`, for every entry point
            (registry and NAAction values: the GENERATED `Gen.materializerOutputs`, `Gen.naActions`);
* `registry` a registration history (from the empty registry or from the GENERATED live classes) and queries →
            `REGISTERED_NAMES` / `REGISTERED_INPUTS` after it and the answers of `for_data` / `for_materializer`;
* `wrapper` a sequence of copy / deepcopy / pickle on a `ModelMatrix` (objects carry an identity counter) and a list of
            leaves offered to `ModelMatrices` / `ModelSpecs` → names, numbers, object identities, container outcomes;
* `sparse`  terms over source factors → `sparsePipeline` (names, indptr, indices, data) and `densePipeline`;
* `sparseop` single operations on explicit columns. -/
namespace FormulaicVerif.Engines.C05
open Lean FormulaicVerif.Model FormulaicVerif.Engines

def ratOfString (s : String) : Rat :=
  match s.splitOn "/" with
  | [p] => (p.toInt?.getD 0 : Int)
  | [p, q] => mkRat (p.toInt?.getD 0) (q.toNat?.getD 1)
  | _ => 0
def ratStr (r : Rat) : String :=
  if r.den == 1 then toString r.num else toString r.num ++ "/" ++ toString r.den
def ratJ (r : Rat) : Json := Json.str (ratStr r)
def colOf (j : Json) : Col := (asArr j).map (fun x => ratOfString (asStr x))
def colJ (c : Col) : Json := jlist (c.map ratJ)
def optStr : Json → Option String
  | .str s => some s
  | _ => none
def optNat : Json → Option Nat
  | .null => none
  | j => some (asNat j)
def natJ (n : Nat) : Json := toJson n
def optStrJ : Option String → Json
  | some s => Json.str s
  | none => Json.null
def optNatJ : Option Nat → Json
  | some n => natJ n
  | none => Json.null

/-! ### entry points -/
section entry
open FormulaicVerif.Model.EntryPoints

/-- the registry of the live package: the GENERATED classes registered in their generated order -/
def liveRegistry : Registry.Registry := Registry.registerAll {} Gen.materializerClasses

def dataOf (j : Json) : Registry.Data :=
  { module := jstr j "module", qualname := jstr j "qualname", supportedBy := (jarr j "supportedBy").map asNat }

def env : Env :=
  { registry := Dispatch.envRegistry liveRegistry, naActions := Gen.naActions, clusterBys := Gen.clusterBys,
    fwdOverride := Gen.forwardsDropOnOverride, fwdJoint := Gen.forwardsDropOnJoint }

/-- `materializer=`: a string, `null`, or `{"t": "cls" | "inst" | "other", "name": REGISTER_NAME of the class | null}` -/
def matArgOf : Json → MatArg
  | .str s => .name s
  | .null => .none
  | j =>
    match jstr j "t" with
    | "cls" => .cls (optStr (jval j "name"))
    | "inst" => .inst (optStr (jval j "name"))
    | _ => .other

def attrOf (j : Json) : Attr :=
  let v := jval j "v"
  match jstr j "k" with
  | "materializer" => .materializer (matArgOf v)
  | "materializer_params" => .params (optNat v)
  | "ensure_full_rank" => .efr (asBool v)
  | "na_action" => .na (asStr v)
  | "output" => .output (optStr v)
  | "cluster_by" => .cluster (asStr v)
  | k => .unknown k

def mspecOf (j : Json) : MSpec :=
  { formula := jnat j "formula", materializer := optStr (jval j "materializer"), params := optNat (jval j "params"),
    efr := jbool j "efr", na := jstr j "na", output := optStr (jval j "output"), cluster := jstr j "cluster" }

def mspecJ (m : MSpec) : Json :=
  Json.mkObj [("formula", natJ m.formula), ("materializer", optStrJ m.materializer), ("params", optNatJ m.params),
    ("efr", Json.bool m.efr), ("na", Json.str m.na), ("output", optStrJ m.output), ("cluster", Json.str m.cluster)]

def specOf (j : Json) : SpecArg :=
  match jstr j "t" with
  | "formula" => .formula (jnat j "f")
  | "sformula" => .sformula ((jarr j "parts").map (fun p => (jstr p "k", jnat p "f")))
  | "mspec" => .mspec (mspecOf (jval j "ms"))
  | _ => .mspecs ((jarr j "parts").map (fun p => (jstr p "k", mspecOf (jval p "ms"))))

/-- `probe`: what `for_data` reads of the data (type module / qualname, accepting classes); the name of the
class `for_data` picks is computed by the registry model over the GENERATED live classes -/
def callOf (j : Json) : Call :=
  { Dispatch.callFor liveRegistry liveRegistry.classes (specOf (jval j "spec")) (jnat j "data") (dataOf (jval j "probe"))
      (optNat (jval j "context")) (optNat (jval j "dropRows")) ((jarr j "overrides").map attrOf) with
    -- a set the library creates itself is reported under identity 0 (the caller's set is 1);
    -- `dropGrows`: PARAMETER, whether generating the parts one by one adds null rows to the drop set
    freshDrop := 0, dropGrows := jbool j "dropGrows" }

def requestJ (r : Request) : Json :=
  Json.mkObj [("mat", Json.str r.matName), ("data", natJ r.data), ("context", optNatJ r.context),
    ("layers", jstrs r.layers), ("params", optNatJ r.params),
    ("specs", jlist (r.specs.map (fun p => Json.mkObj [("k", Json.str p.1), ("ms", mspecJ p.2)]))),
    ("simplify", Json.bool r.simplify), ("dropRows", optNatJ r.dropRows)]

def resultJ : Except Err (List Request) → Json
  | .error e => jerr e.name
  | .ok rs => Json.mkObj [("requests", jlist (rs.map requestJ))]

def viaAll (c : Call) : List (String × Json) := [
    ("dataMat", optStrJ c.dataMat),
    ("sugar", resultJ (requestVia env .sugar c)),
    ("formula", resultJ (requestVia env .formulaMethod c)),
    ("spec", resultJ (requestVia env .specMethod c)),
    ("spec_ov", resultJ (requestVia env .specMethodOv c)),
    ("materializer", resultJ (requestVia env .materializer c))]

/-- `call`: the call record of the case; `more` (optional): further call records of the same case (the
follow-up calls that hand over the spec an earlier call produced), answered in order under `"more"` -/
def handleEntry (j : Json) : Json :=
  Json.mkObj (viaAll (callOf (jval j "call")) ++
    [("more", jlist ((jarr j "more").map (fun c => Json.mkObj (viaAll (callOf c)))))])
end entry

/-! ### registry -/
section registry
open FormulaicVerif.Model.Registry

def optStrs : Json → Option (List String)
  | .arr a => some (a.toList.map asStr)
  | _ => none

def matClassOf (j : Json) : MatClass :=
  { cid := jnat j "cid", name := optStr (jval j "name"), ownName := jbool j "ownName",
    ownInputs := optStrs (jval j "ownInputs"), outputs := strs j "outputs", precedence := ratOfString (jstr j "prec") }

def regErrJ : Err → Json
  | .unknownName n => Json.mkObj [("error", Json.str (Err.name (.unknownName n))), ("kind", Json.str "unknownName"), ("listed", jstrs [n])]
  | .invalid => Json.mkObj [("error", Json.str (Err.name .invalid)), ("kind", Json.str "invalid"), ("listed", jstrs [])]
  | .noInput l => Json.mkObj [("error", Json.str (Err.name (.noInput l))), ("kind", Json.str "noInput"), ("listed", jstrs l)]
  | .noOutput l => Json.mkObj [("error", Json.str (Err.name (.noOutput l))), ("kind", Json.str "noOutput"), ("listed", jstrs l)]

def regResJ : Except Err MatClass → Json
  | .ok c => Json.mkObj [("ok", natJ c.cid)]
  | .error e => regErrJ e

def handleRegistry (j : Json) : Json :=
  let all := (jarr j "classes").map matClassOf
  let byCid (n : Nat) : MatClass := (all.find? (fun c => c.cid == n)).getD { cid := n }
  let base : Registry := if jstr j "base" == "live" then liveRegistry else {}
  let created := (jarr j "created").map (fun x => byCid (asNat x))
  let r := registerAll base created
  let setOrder := (jarr j "setOrder").map (fun x => byCid (asNat x))
  let answer (q : Json) : Json :=
    match jstr q "q" with
    | "data" =>
      let d := dataOf q
      let o := optStr (jval q "output")
      match forData r setOrder d o with
      | .ok c =>
        -- `for_data_set_order_irrelevant`: under another iteration order of the set the answer is `c` itself when `c` is
        -- explicitly registered for the input type, else an accepting class of the SAME precedence that offers the output
        let alike := if (registeredFor r d).contains c then [c]
          else (fallbackFor setOrder d).filter (fun k => offers o k && k.precedence == c.precedence)
        Json.mkObj [("ok", natJ c.cid), ("any_order", jlist (alike.map (fun k => natJ k.cid)))]
      | .error e => regErrJ e
    | _ =>
      let arg : MatArg := match jstr q "t" with
        | "name" => .name (jstr q "v")
        | "inst" => .inst (byCid (jnat q "c"))
        | "cls" => .cls (byCid (jnat q "c"))
        | _ => .other
      regResJ (forMaterializer r arg)
  Json.mkObj [
    ("names", jlist (r.names.map (fun p => jlist [Json.str p.1, natJ p.2.cid]))),
    ("inputs", jlist (r.inputs.map (fun p => jlist [Json.str p.1, jlist (p.2.map (fun c => natJ c.cid))]))),
    ("classes", jlist (r.classes.map (fun c => natJ c.cid))),
    ("answers", jlist ((jarr j "queries").map answer))]
end registry

/-! ### wrapper -/
section wrapper
open FormulaicVerif.Model.Wrapper

/-- objects carry an identity: every copy is a new object with the same content -/
def bumping : Copiers (Nat × List (List String)) (Nat × List String) :=
  ⟨fun a => (a.1 + 1, a.2), fun a => (a.1 + 1, a.2), fun a => (a.1 + 1, a.2), fun s => (s.1 + 1, s.2), fun s => (s.1 + 1, s.2)⟩

def opOf : String → Op
  | "copy" => .copy
  | "deepcopy" => .deepcopy
  | _ => .pickle

def itemOf (j : Json) : Item (Nat × List (List String)) (Nat × List String) :=
  match asStr j with
  | "matrix" => .matrix ⟨(0, []), some (0, [])⟩
  | "matrix_nospec" => .matrix ⟨(0, []), none⟩
  | "spec" => .spec (0, [])
  | _ => .other

def outcomeJ {β} (keys : β → List String) : Except Wrapper.Err β → Json
  | .ok b => Json.mkObj [("keys", jstrs (keys b))]
  | .error _ => jerr "TypeError"

def handleWrapper (j : Json) : Json :=
  let m0 : MM (Nat × List (List String)) (Nat × List String) :=
    ⟨(0, (jarr j "rows").map (fun r => (asArr r).map asStr)), some (0, strs j "names")⟩
  let m := m0.applyAll bumping ((jarr j "ops").map (fun o => opOf (asStr o)))
  let items := (jarr j "items").map (fun it => (jstr it "k", itemOf (jval it "v")))
  let mms := mkModelMatrices items
  Json.mkObj [
    ("names", match m.spec with | some s => jstrs s.2 | none => Json.null),
    ("rows", jlist (m.wrapped.2.map jstrs)),
    ("same_spec_object", Json.bool (m.spec.map (·.1) == some 0)),
    ("same_wrapped_object", Json.bool (m.wrapped.1 == 0)),
    ("matrices", outcomeJ (fun b => b.map (·.1)) mms),
    ("specs", outcomeJ (fun b => b.map (·.1)) (mkModelSpecs items)),
    ("model_spec", match mms with
      | .ok b => outcomeJ (fun x => x.map (·.1)) (modelSpecOf b)
      | .error _ => Json.null)]
end wrapper

/-! ### sparse -/
section sparse
open FormulaicVerif.Model.Sparse

def entriesJ (es : List (Nat × Rat)) : Json := jlist (es.map (fun e => jlist [natJ e.1, ratJ e.2]))
def scolJ (c : SCol) : Json := Json.mkObj [("nrows", natJ c.nrows), ("entries", entriesJ c.entries), ("dense", colJ c.toDense)]
def scolOf (j : Json) : SCol :=
  ⟨jnat j "nrows", (jarr j "entries").map (fun e => match asArr e with
    | [r, v] => (asNat r, ratOfString (asStr v))
    | _ => (0, 0))⟩

def fsrcOf (j : Json) : FSrc :=
  match jstr j "t" with
  | "num" => .num (jstr j "name") (colOf (jval j "vals"))
  | "one" => .one (jnat j "nrows")
  | "scalar" => .scalar (jstr j "name") (ratOfString (jstr j "val")) (jnat j "nrows")
  | _ => .cat (jstr j "name") ((jarr j "vals").map optStr) (strs j "levels") (jbool j "reduced")

def stermOf (j : Json) : STerm := ⟨ratOfString (jstr j "scale"), (jarr j "factors").map fsrcOf⟩

def handleSparse (j : Json) : Json :=
  let terms := (jarr j "terms").map stermOf
  let sp := match sparsePipeline (jnat j "nrows") terms with
    | .error e => jerr e.name
    | .ok (names, m) => Json.mkObj [("names", jstrs names), ("indptr", jlist (m.indptr.map natJ)),
        ("indices", jlist (m.indices.map natJ)), ("data", colJ m.data), ("dense", jlist (m.toDense.map colJ))]
  let de := match densePipeline terms with
    | .error e => jerr e.name
    | .ok (names, cols) => Json.mkObj [("names", jstrs names), ("cols", jlist (cols.map colJ))]
  Json.mkObj [("sparse", sp), ("dense", de)]

def handleSparseOp (j : Json) : Json :=
  match jstr j "which" with
  | "mul" => scolJ (SCol.mul (scolOf (jval j "a")) (scolOf (jval j "b")))
  | "smul" => scolJ (SCol.smul (ratOfString (jstr j "q")) (scolOf (jval j "a")))
  | "ofDense" => scolJ (SCol.ofDense (colOf (jval j "x")))
  | "encode" =>
    let levels := match jval j "levels" with
      | .arr a => some (a.toList.map asStr)
      | _ => none
    let declared := match jval j "declared" with
      | .arr a => some (a.toList.map asStr)
      | _ => none
    let r := encodeSparse ((jarr j "vals").map optStr) levels declared (jbool j "drop_first")
    let d := encodeDense ((jarr j "vals").map optStr) levels declared (jbool j "drop_first")
    Json.mkObj [("levels", jstrs r.1), ("cols", jlist (r.2.map scolJ)), ("dense", jlist (d.2.map colJ))]
  | "hstack" =>
    let cols := (jarr j "cols").map scolOf
    let m := hstack (jnat j "nrows") cols
    Json.mkObj [("indptr", jlist (m.indptr.map natJ)), ("indices", jlist (m.indices.map natJ)), ("data", colJ m.data),
      ("dense", jlist (m.toDense.map colJ))]
  | w => jerr ("unknown sparse op " ++ w)
end sparse

def handle (j : Json) : Json :=
  match jstr j "op" with
  | "entry" => handleEntry j
  | "registry" => handleRegistry j
  | "wrapper" => handleWrapper j
  | "sparse" => handleSparse j
  | "sparseop" => handleSparseOp j
  | "noop" => Json.mkObj []
  | op => jerr ("unknown op " ++ op)

end FormulaicVerif.Engines.C05
