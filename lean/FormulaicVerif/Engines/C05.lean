import FormulaicVerif.Engines.Json
import FormulaicVerif.Model.Sparse
import FormulaicVerif.Model.EntryPoints
import FormulaicVerif.Gen.Names
import FormulaicVerif.Gen.Plumbing
/-! Engine of property C05. ops:
* `entry`   a call record (and optional follow-up records `more`) → the request(s) that reach
            `FormulaMaterializer.get_model_matrix`, for every entry point
            (registry and NAAction values: the GENERATED `Gen.materializerOutputs`, `Gen.naActions`);
* `sparse`  terms over source factors → `sparsePipeline` (names, indptr, indices, data) and `densePipeline`;
* `sparseop` single operations on explicit columns. -/
namespace FormulaicVerif.Engines.C05
open Lean FormulaicVerif.Model FormulaicVerif.Engines

def ratOfString (s : String) : Rat :=
  match s.splitOn "/" with
  | [p] => (p.toInt?.getD 0 : Int)
  | [p, q] => mkRat (p.toInt?.getD 0) (q.toNat?.getD 1)
  | _ => 0
def ratStr (r : Rat) : String :=
  if r.den == 1 then toString r.num else toString r.num ++ "/" ++ toString r.den
def ratJ (r : Rat) : Json := Json.str (ratStr r)
def colOf (j : Json) : Col := (asArr j).map (fun x => ratOfString (asStr x))
def colJ (c : Col) : Json := jlist (c.map ratJ)
def optStr : Json → Option String
  | .str s => some s
  | _ => none
def optNat : Json → Option Nat
  | .null => none
  | j => some (asNat j)
def natJ (n : Nat) : Json := toJson n
def optStrJ : Option String → Json
  | some s => Json.str s
  | none => Json.null
def optNatJ : Option Nat → Json
  | some n => natJ n
  | none => Json.null

/-! ### entry points -/
section entry
open FormulaicVerif.Model.EntryPoints

def env : Env :=
  { registry := Gen.materializerOutputs, naActions := Gen.naActions,
    fwdOverride := Gen.forwardsDropOnOverride, fwdJoint := Gen.forwardsDropOnJoint }

def attrOf (j : Json) : Attr :=
  let v := jval j "v"
  match jstr j "k" with
  | "materializer" => .materializer (optStr v)
  | "materializer_params" => .params (optNat v)
  | "ensure_full_rank" => .efr (asBool v)
  | "na_action" => .na (asStr v)
  | "output" => .output (optStr v)
  | "cluster_by" => .cluster (asStr v)
  | k => .unknown k

def mspecOf (j : Json) : MSpec :=
  { formula := jnat j "formula", materializer := optStr (jval j "materializer"), params := optNat (jval j "params"),
    efr := jbool j "efr", na := jstr j "na", output := optStr (jval j "output"), cluster := jstr j "cluster" }

def mspecJ (m : MSpec) : Json :=
  Json.mkObj [("formula", natJ m.formula), ("materializer", optStrJ m.materializer), ("params", optNatJ m.params),
    ("efr", Json.bool m.efr), ("na", Json.str m.na), ("output", optStrJ m.output), ("cluster", Json.str m.cluster)]

def specOf (j : Json) : SpecArg :=
  match jstr j "t" with
  | "formula" => .formula (jnat j "f")
  | "sformula" => .sformula ((jarr j "parts").map (fun p => (jstr p "k", jnat p "f")))
  | "mspec" => .mspec (mspecOf (jval j "ms"))
  | _ => .mspecs ((jarr j "parts").map (fun p => (jstr p "k", mspecOf (jval p "ms"))))

def callOf (j : Json) : Call :=
  { spec := specOf (jval j "spec"), data := jnat j "data", dataMat := optStr (jval j "dataMat"),
    context := optNat (jval j "context"), dropRows := optNat (jval j "dropRows"),
    overrides := (jarr j "overrides").map attrOf }

def requestJ (r : Request) : Json :=
  Json.mkObj [("mat", Json.str r.matName), ("data", natJ r.data), ("context", optNatJ r.context),
    ("layers", jstrs r.layers), ("params", optNatJ r.params),
    ("specs", jlist (r.specs.map (fun p => Json.mkObj [("k", Json.str p.1), ("ms", mspecJ p.2)]))),
    ("simplify", Json.bool r.simplify), ("dropRows", optNatJ r.dropRows)]

def resultJ : Except Err (List Request) → Json
  | .error e => jerr e.name
  | .ok rs => Json.mkObj [("requests", jlist (rs.map requestJ))]

def viaAll (c : Call) : List (String × Json) := [
    ("sugar", resultJ (requestVia env .sugar c)),
    ("formula", resultJ (requestVia env .formulaMethod c)),
    ("spec", resultJ (requestVia env .specMethod c)),
    ("spec_ov", resultJ (requestVia env .specMethodOv c)),
    ("materializer", resultJ (requestVia env .materializer c))]

/-- `call`: the call record of the case; `more` (optional): further call records of the same case (the
follow-up calls that hand over the spec an earlier call produced), answered in order under `"more"` -/
def handleEntry (j : Json) : Json :=
  Json.mkObj (viaAll (callOf (jval j "call")) ++
    [("more", jlist ((jarr j "more").map (fun c => Json.mkObj (viaAll (callOf c)))))])
end entry

/-! ### sparse -/
section sparse
open FormulaicVerif.Model.Sparse

def entriesJ (es : List (Nat × Rat)) : Json := jlist (es.map (fun e => jlist [natJ e.1, ratJ e.2]))
def scolJ (c : SCol) : Json := Json.mkObj [("nrows", natJ c.nrows), ("entries", entriesJ c.entries), ("dense", colJ c.toDense)]
def scolOf (j : Json) : SCol :=
  ⟨jnat j "nrows", (jarr j "entries").map (fun e => match asArr e with
    | [r, v] => (asNat r, ratOfString (asStr v))
    | _ => (0, 0))⟩

def fsrcOf (j : Json) : FSrc :=
  match jstr j "t" with
  | "num" => .num (jstr j "name") (colOf (jval j "vals"))
  | _ => .cat (jstr j "name") ((jarr j "vals").map optStr) (strs j "levels") (jbool j "reduced")

def stermOf (j : Json) : STerm := ⟨ratOfString (jstr j "scale"), (jarr j "factors").map fsrcOf⟩

def handleSparse (j : Json) : Json :=
  let terms := (jarr j "terms").map stermOf
  let sp := match sparsePipeline (jnat j "nrows") terms with
    | .error e => jerr e.name
    | .ok (names, m) => Json.mkObj [("names", jstrs names), ("indptr", jlist (m.indptr.map natJ)),
        ("indices", jlist (m.indices.map natJ)), ("data", colJ m.data), ("dense", jlist (m.toDense.map colJ))]
  let de := match densePipeline terms with
    | .error e => jerr e.name
    | .ok (names, cols) => Json.mkObj [("names", jstrs names), ("cols", jlist (cols.map colJ))]
  Json.mkObj [("sparse", sp), ("dense", de)]

def handleSparseOp (j : Json) : Json :=
  match jstr j "which" with
  | "mul" => scolJ (SCol.mul (scolOf (jval j "a")) (scolOf (jval j "b")))
  | "smul" => scolJ (SCol.smul (ratOfString (jstr j "q")) (scolOf (jval j "a")))
  | "ofDense" => scolJ (SCol.ofDense (colOf (jval j "x")))
  | "encode" =>
    let levels := match jval j "levels" with
      | .arr a => some (a.toList.map asStr)
      | _ => none
    let declared := match jval j "declared" with
      | .arr a => some (a.toList.map asStr)
      | _ => none
    let r := encodeSparse ((jarr j "vals").map optStr) levels declared (jbool j "drop_first")
    let d := encodeDense ((jarr j "vals").map optStr) levels declared (jbool j "drop_first")
    Json.mkObj [("levels", jstrs r.1), ("cols", jlist (r.2.map scolJ)), ("dense", jlist (d.2.map colJ))]
  | "hstack" =>
    let cols := (jarr j "cols").map scolOf
    let m := hstack (jnat j "nrows") cols
    Json.mkObj [("indptr", jlist (m.indptr.map natJ)), ("indices", jlist (m.indices.map natJ)), ("data", colJ m.data),
      ("dense", jlist (m.toDense.map colJ))]
  | w => jerr ("unknown sparse op " ++ w)
end sparse

def handle (j : Json) : Json :=
  match jstr j "op" with
  | "entry" => handleEntry j
  | "sparse" => handleSparse j
  | "sparseop" => handleSparseOp j
  | "noop" => Json.mkObj []
  | op => jerr ("unknown op " ++ op)

end FormulaicVerif.Engines.C05
