import FormulaicVerif.Engines.Json
import FormulaicVerif.Model.Structured
import FormulaicVerif.Model.LayeredMapping
import FormulaicVerif.Model.SimpleFormula
import FormulaicVerif.Model.StructuredOps
import FormulaicVerif.Model.LayeredOps
import FormulaicVerif.Model.StructuredFormula
import FormulaicVerif.Gen.Containers
import FormulaicVerif.Model.OrderedSet
/-! Engine of the `c19` correspondence stream: runs the container models on one JSON request.
Only decoding/encoding lives here; every observable is computed by `Model.St`, `Model.LMap`,
`Model.SFm`. -/
namespace FormulaicVerif.Engines.C19
open Lean FormulaicVerif.Model FormulaicVerif.Engines

/-! ### Structured -/
open St in
partial def valOf (j : Json) : Val String :=
  match j.getObjVal? "l" with
  | .ok (.str s) => .leaf s
  | _ =>
    match j.getObjVal? "t" with
    | .ok (.arr a) => .tup (a.toList.map valOf)
    | _ => .node ((jarr j "n").map (fun kv =>
        match kv with
        | .arr #[.str k, v] => (k, valOf v)
        | _ => ("?", .leaf "?")))

open St in
partial def valJ : Val String → Json
  | .leaf a => Json.mkObj [("l", Json.str a)]
  | .tup vs => Json.mkObj [("t", jlist (vs.map valJ))]
  | .node kvs => Json.mkObj [("n", jlist (kvs.map (fun kv => jlist [Json.str kv.1, valJ kv.2])))]

def itemsOfJ (j : Json) : St.Items String :=
  match valOf j with
  | .node kvs => kvs
  | _ => []

def stErr : St.Err → String
  | .valueError => "ValueError"
  | .keyError => "KeyError"
  | .runtimeError => "RuntimeError"
  | .merger => "NotImplementedError"
  | .outOfFuel => "outOfFuel"

def soErr : StOps.Err → String
  | .keyError => "KeyError"
  | .indexError => "IndexError"
  | .typeError => "TypeError"
  | .attributeError => "AttributeError"

def exJ (r : Except St.Err (St.Val String)) : Json :=
  match r with
  | .ok v => valJ v
  | .error e => jerr (stErr e)

def pathElemStr : St.PathElem → String
  | .key k => k
  | .idx i => toString i

def pathElemJ : St.PathElem → Json
  | .key k => Json.str k
  | .idx i => Json.num i

/-- the function the harness maps: `lambda x, ctx: x + "@" + ".".join(map(str, ctx))` -/
def mapFn (a : String) (ctx : St.Path) : String := a ++ "@" ++ ".".intercalate (ctx.map pathElemStr)

/-- the one-argument function the harness maps (reached through the `TypeError` fallback of `_map`) -/
def mapFn1 (a : String) (_ : St.Path) : String := a ++ "!"

/-- the function the harness maps with `recurse=False`: a nested `Structured` is described by its keys -/
def mapFnNR (v : St.Val String) (ctx : St.Path) : String :=
  (match v with
   | .leaf a => a
   | .node kvs => "S[" ++ ",".intercalate (kvs.map (·.1)) ++ "]"
   | .tup _ => "T") ++ "@" ++ ".".intercalate (ctx.map pathElemStr)

/-- the merger the harness passes: joins the leaves, raises on the leaf `bad` -/
def merger (xs : List String) : Except St.Err String :=
  if xs.contains "bad" then .error .merger else .ok ("(" ++ "+".intercalate xs ++ ")")

def logJ (log : List (String × St.Path)) : Json :=
  jlist (log.map (fun e => jlist [Json.str e.1, jlist (e.2.map pathElemJ)]))

def handleSt (j : Json) : Json :=
  let tree := jval j "tree"
  let kvs := itemsOfJ tree
  let s : St.Val String := .node kvs
  let ml := St.mapLog mapFn [] s
  let combos := [(true, true), (true, false), (false, true), (false, false)]
  let simp := combos.map (fun ru => St.simplify ru.1 ru.2 false kvs)
  let simp2 := simp.map (fun r =>
    match r with
    | .ok (.node s') => exJ (St.simplify true true false s')
    | _ => Json.null)
  let simpSame := (combos.zip simp).map (fun x =>
    match x.2 with
    | .ok (.node s') => exJ (St.simplify x.1.1 x.1.2 false s')
    | _ => Json.null)
  let upd := jval j "upd"
  let uroot := match upd.getObjVal? "root" with
    | .ok .null => none
    | .ok r => some (valOf r)
    | .error _ => none
  let ukw := (jarr upd "kw").map (fun kv =>
    match kv with
    | .arr #[.str k, v] => (k, valOf v)
    | _ => ("?", St.Val.leaf "?"))
  let objs := (jarr j "objs").map valOf
  let sets := (jarr j "sets").map (fun kv =>
    match kv with
    | .arr #[.str k, v] => (k, valOf v)
    | _ => ("?", St.Val.leaf "?"))
  let setRes : St.Items String × List Json := sets.foldl (fun acc kv =>
    match StOps.setAny acc.1 (.plain (.str kv.1)) kv.2 with
    | .ok s' => (s', acc.2 ++ [Json.null])
    | .error e => (acc.1, acc.2 ++ [Json.str (soErr e)])) (kvs, [])
  Json.mkObj [
    ("map", valJ ml.1),
    ("log", logJ ml.2),
    ("flat", jstrs (St.flatten s)),
    ("flat_mapped", jstrs (St.flatten ml.1)),
    ("map1", valJ (St.mapV mapFn1 [] s)),
    ("map_nr", valJ (StOps.mapTopNR mapFnNR kvs)),
    ("paths", jlist (ml.2.map (fun e => exJ (St.lookupPath e.2 s)))),
    ("simp", jlist (simp.map exJ)),
    ("simp_default_again", jlist simp2),
    ("simp_same_again", jlist simpSame),
    ("simp_inplace", jlist [exJ (St.simplify true false true kvs), exJ (St.simplify false false true kvs)]),
    ("simp_inplace_unwrap", exJ (St.simplify true true true kvs)),
    ("update", exJ (St.update kvs uroot ukw)),
    ("merge", exJ (St.mergeTop merger objs)),
    ("merge_more_fuel", exJ (St.merge merger (St.mergeFuel objs + 3) [] objs)),
    ("sets", Json.mkObj [("errs", jlist setRes.2), ("tree", valJ (.node setRes.1))])]

/-! ### Structured: container protocol (`so`) -/
def leafOfJ (j : Json) : StOps.Leaf :=
  match j.getObjVal? "s" with
  | .ok (.str s) => .str s
  | _ =>
    match j.getObjVal? "i" with
    | .ok v => .int (asInt v)
    | _ =>
      match j.getObjVal? "L" with
      | .ok (.arr a) => .list (a.toList.map asInt)
      | _ =>
        match j.getObjVal? "S" with
        | .ok (.arr a) => .set (a.toList.map asInt)
        | _ => .dict ((jarr j "D").map (fun kv =>
            match kv with
            | .arr #[.str k, v] => (k, asInt v)
            | _ => ("?", 0)))

def leafJ : StOps.Leaf → Json
  | .str s => Json.mkObj [("s", Json.str s)]
  | .int i => Json.mkObj [("i", Json.num i)]
  | .list xs => Json.mkObj [("L", jlist (xs.map (fun (x : Int) => Json.num x)))]
  | .set xs => Json.mkObj [("S", jlist ((xs.mergeSort (fun a b => decide (a ≤ b))).map (fun (x : Int) => Json.num x)))]
  | .dict kvs => Json.mkObj [("D", jlist (kvs.map (fun kv => jlist [Json.str kv.1, Json.num (kv.2 : Int)])))]

open St in
partial def valOfL (j : Json) : Val StOps.Leaf :=
  match j.getObjVal? "l" with
  | .ok l => .leaf (leafOfJ l)
  | _ =>
    match j.getObjVal? "t" with
    | .ok (.arr a) => .tup (a.toList.map valOfL)
    | _ => .node ((jarr j "n").map (fun kv =>
        match kv with
        | .arr #[.str k, v] => (k, valOfL v)
        | _ => ("?", .leaf (.str "?"))))

open St in
partial def valJL : Val StOps.Leaf → Json
  | .leaf a => Json.mkObj [("l", leafJ a)]
  | .tup vs => Json.mkObj [("t", jlist (vs.map valJL))]
  | .node kvs => Json.mkObj [("n", jlist (kvs.map (fun kv => jlist [Json.str kv.1, valJL kv.2])))]

/-- a `_to_dict` result; Python cannot tell a `dict` leaf from a converted `Structured`, so both are
written `{"d": …}` (the harness does the same) -/
partial def dvalJ : StOps.DVal StOps.Leaf → Json
  | .leaf (.dict kvs) => Json.mkObj [("d", jlist (kvs.map (fun kv =>
      jlist [Json.str kv.1, Json.mkObj [("l", Json.mkObj [("i", Json.num (kv.2 : Int))])]])))]
  | .leaf a => Json.mkObj [("l", leafJ a)]
  | .tup vs => Json.mkObj [("t", jlist (vs.map dvalJ))]
  | .dict kvs => Json.mkObj [("d", jlist (kvs.map (fun kv => jlist [Json.str kv.1, dvalJ kv.2])))]
  | .st v => valJL v

def keyOfJ : Json → StOps.Key
  | .str s => .str s
  | .num n => .int (asInt (.num n))
  | _ => .none

def anyKeyOfJ (j : Json) : StOps.AnyKey :=
  match j.getObjVal? "p" with
  | .ok (.arr a) => .path (a.toList.map keyOfJ)
  | _ => .plain (keyOfJ j)

def soOpOf (j : Json) : StOps.Op StOps.Leaf :=
  match jstr j "o" with
  | "get" => .get (anyKeyOfJ (jval j "key"))
  | "set" => .set (anyKeyOfJ (jval j "key")) (valOfL (jval j "v"))
  | "getattr" => .getattr (jstr j "a")
  | "setattr" => .setattr (jstr j "a") (valOfL (jval j "v"))
  | "iter" => .iter
  | "len" => .len
  | "contains" => .contains (keyOfJ (jval j "key"))
  | "eq" => .eq (valOfL (jval j "other"))
  | _ => .toDict (jbool j "recurse")

def soResJ : StOps.Res StOps.Leaf → Json
  | .none => Json.null
  | .val v => valJL v
  | .vals vs => jlist (vs.map valJL)
  | .nat n => Json.num n
  | .bool b => Json.bool b
  | .dict d => Json.mkObj [("d", jlist (d.map (fun kv => jlist [Json.str kv.1, dvalJ kv.2])))]
  | .err e => jerr (soErr e)

def exJL (r : Except St.Err (St.Val StOps.Leaf)) : Json :=
  match r with
  | .ok v => valJL v
  | .error e => jerr (stErr e)

def handleSo (j : Json) : Json :=
  let kvs : St.Items StOps.Leaf := match valOfL (jval j "tree") with
    | .node kvs => kvs
    | _ => []
  let ops := (jarr j "ops").map soOpOf
  let tr := StOps.trace StOps.Leaf.ops kvs ops
  let objs := (jarr j "merge").map valOfL
  Json.mkObj [
    ("trace", jlist (tr.map (fun r => Json.mkObj [("res", soResJ r.2), ("state", valJL (.node r.1))]))),
    ("final", valJL (.node (StOps.run StOps.Leaf.ops kvs ops))),
    ("merge", exJL (StOps.mergeDefault objs))]

/-! ### StructuredFormula constructor (`stf`) -/
def handleStf (j : Json) : Json :=
  let kvs := itemsOfJ (jval j "tree")
  Json.mkObj [
    ("ctor", exJ (StF.sfCtor kvs)),
    ("call", exJ (StF.formulaCall kvs))]

/-! ### OrderedSet (`os`) -/
def osOtherOf (j : Json) : OSet.Other :=
  if jbool j "isset" then .set (OSet.mk (strs j "xs")) else .list (strs j "xs")

def osOpOf (j : Json) : OSet.Op :=
  let b := osOtherOf j
  match jstr j "o" with
  | "or" => .union b
  | "and" => .inter b
  | "sub" => .diff b
  | "rsub" => .rdiff b
  | "xor" => .xor b
  | "isdisjoint" => .isdisjoint b
  | "contains" => .contains (jstr j "x")
  | c => .cmp (match c with
      | "le" => .le | "lt" => .lt | "ge" => .ge | "gt" => .gt | _ => .eq) b

def osResJ : OSet.Res → Json
  | .none => Json.null
  | .bool b => Json.bool b
  | .err _ => jerr "TypeError"

def handleOs (j : Json) : Json :=
  let a := OSet.mk (strs j "xs")
  let ops := (jarr j "ops").map osOpOf
  Json.mkObj [
    ("init", jstrs (OSet.iter a)),
    ("len", Json.num (OSet.len a)),
    ("trace", jlist ((OSet.trace a ops).map (fun r =>
      Json.mkObj [("items", jstrs (OSet.iter r.1)), ("len", Json.num (OSet.len r.1)), ("res", osResJ r.2)]))),
    ("final", jstrs (OSet.run a ops))]

/-! ### LayeredMapping -/
open LMap in
partial def layerOf (j : Json) : Layer Json :=
  let kv (x : Json) : String × Json :=
    match x with
    | .arr #[.str k, v] => (k, v)
    | _ => ("?", Json.null)
  match j.getObjVal? "d" with
  | .ok (.arr a) => .dict (a.toList.map kv)
  | _ =>
    let name := match j.getObjVal? "name" with
      | .ok (.str s) => some s
      | _ => none
    .lm name ((jarr j "m").map kv) ((jarr j "layers").map layerOf)

def optStrJ : Option String → Json
  | some s => Json.str s
  | none => Json.null

def lmOpOf (j : Json) : LMap.Op Json :=
  match jstr j "o" with
  | "set" => .set (jstr j "k") (jval j "v")
  | "del" => .del (jstr j "k")
  | _ =>
    let name := match j.getObjVal? "name" with
      | .ok (.str s) => some s
      | _ => none
    .withLayers (((jarr j "layers").filter (fun l => !(l == Json.null))).map layerOf)
      (jbool j "prepend") (jbool j "inplace") name

def kvOfJ (x : Json) : String × Json :=
  match x with
  | .arr #[.str k, v] => (k, v)
  | _ => ("?", Json.null)

def lmOpXOf (j : Json) : LMapX.Op Json :=
  match jstr j "o" with
  | "pop" => .pop (jstr j "k") (if jbool j "hasd" then some (jval j "d") else none)
  | "popitem" => .popitem
  | "clear" => .clear
  | "setdefault" => .setdefault (jstr j "k") (jval j "d")
  | "update" => .update ((jarr j "pairs").map kvOfJ)
  | "ext" => .ext ((jarr j "path").map asNat) (jstr j "k") (if jbool j "del" then none else some (jval j "v"))
  | _ => .base (lmOpOf j)

partial def layerJ : LMap.Layer Json → Json
  | .dict d => Json.mkObj [("d", jlist (d.map (fun kv => jlist [Json.str kv.1, kv.2])))]
  | .lm name muts layers => Json.mkObj [
      ("name", optStrJ name),
      ("m", jlist (muts.map (fun kv => jlist [Json.str kv.1, kv.2]))),
      ("layers", jlist (layers.map layerJ))]

def lmResJ : LMapX.Res Json → Json
  | .none => Json.null
  | .val v => Json.mkObj [("v", v)]
  | .item k v => Json.mkObj [("item", jlist [Json.str k, v])]

def lmErrJ : LMapX.Err → Json
  | .keyError => Json.str "KeyError"
  | .attributeError => Json.str "AttributeError"

def lmObsX (m : LMap.LM Json) (r : Except LMapX.Err (LMapX.Res Json)) : Json :=
  Json.mkObj [
    ("err", match r with | .ok _ => Json.null | .error e => lmErrJ e),
    ("res", match r with | .ok x => lmResJ x | .error _ => Json.null),
    ("view", jlist (m.view.map (fun kv => jlist [Json.str kv.1, kv.2.getD (Json.str "<KeyError>")]))),
    ("len", Json.num m.len),
    ("name", optStrJ m.name),
    ("named", jlist ((LMapX.namedLayers m).map (fun kv => jlist [Json.str kv.1, layerJ kv.2])))]

def handleLm (j : Json) : Json :=
  let name := match j.getObjVal? "name" with
    | .ok (.str s) => some s
    | _ => none
  let m0 : LMap.LM Json := { name := name, muts := [], layers := ((jarr j "layers").filter (fun l => !(l == Json.null))).map layerOf }
  let ops := (jarr j "ops").map lmOpXOf
  let tr := LMapX.trace m0 ops
  let m := LMapX.run m0 ops
  let probe := strs j "probe"
  Json.mkObj [
    ("init", lmObsX m0 (.ok .none)),
    ("trace", jlist (tr.map (fun r => lmObsX r.1 r.2))),
    ("final_is_run", Json.bool (match tr.getLast? with
      | some r => r.1.view.map (·.1) == m.view.map (·.1) && r.1.muts.map (·.1) == m.muts.map (·.1)
      | none => true)),
    ("probe", jlist (probe.map (fun k =>
      Json.mkObj [
        ("k", Json.str k),
        ("in", Json.bool (m.contains k)),
        ("get", (m.get k).getD (Json.str "<KeyError>")),
        ("named", match m.getWithLayerName k with
          | some (v, n) => jlist [v, optStrJ n]
          | none => jlist [Json.null, Json.null]),
        ("layer_name", optStrJ (LMapX.layerNameForKey m k))]))),
    ("attrs", jlist ((strs j "attrs").map (fun a =>
      match LMapX.getAttr m a with
      | .ok l => layerJ l
      | .error e => lmErrJ e)))]

/-! ### SimpleFormula -/
def evalOf : String → EvalMethod
  | "literal" => .literal
  | "python" => .python
  | _ => .lookup
def evalStr : EvalMethod → String
  | .literal => "literal" | .python => "python" | .lookup => "lookup"
def factorOf (j : Json) : Factor := ⟨jstr j "x", evalOf (jstr j "m")⟩
def factorJ (f : Factor) : Json := Json.mkObj [("x", Json.str f.expr), ("m", Json.str (evalStr f.eval))]
def termOf (j : Json) : Model.Term := (asArr j).map factorOf
def termJ (t : Model.Term) : Json := jlist (t.map factorJ)
def optTermOf (j : Json) : Option Model.Term :=
  match j with
  | .arr _ => some (termOf j)
  | _ => none

def optIntOf (j : Json) (k : String) : Option Int :=
  match j.getObjVal? k with
  | .ok (.num n) => some (asInt (.num n))
  | _ => none

def sfOpOf (j : Json) : SFm.Op :=
  match jstr j "o" with
  | "insert" => .insert (jint j "i") (optTermOf (jval j "t"))
  | "set" => .set (jint j "i") (optTermOf (jval j "t"))
  | "del" => .del (jint j "i")
  | "delslice" => .delSlice (jint j "a") (jint j "b")
  | "append" => .append (optTermOf (jval j "t"))
  | "extend" => .extend ((jarr j "ts").map optTermOf)
  | "pop" => .pop (jint j "i")
  | "iadd" => .iadd ((jarr j "ts").map optTermOf)
  | "setslice" => .setSlice (optIntOf j "a") (optIntOf j "b") (jint j "c")
      (match j.getObjVal? "ts" with
       | .ok (.arr a) => .list (a.toList.map optTermOf)
       | _ => .term (termOf (jval j "t")))
  | "delslicex" => .delSliceX (optIntOf j "a") (optIntOf j "b") (jint j "c")
  | "clear" => .clear
  | "remove" => .remove (optTermOf (jval j "t"))
  | "getslice" => .getSlice (optIntOf j "a") (optIntOf j "b") (jint j "c")
  | "index" => .index (optTermOf (jval j "t"))
  | "count" => .count (optTermOf (jval j "t"))
  | "contains" => .contains (optTermOf (jval j "t"))
  | "reversed" => .reversed
  | "eq" => .eq ((jarr j "other").map termOf)
  | "eqforeign" => .eqForeign
  | _ => .reverse

def sfErrJ : Option SFm.Err → Json
  | none => Json.null
  | some .indexError => Json.str "IndexError"
  | some .invalid => Json.str "FormulaInvalidError"
  | some .typeError => Json.str "TypeError"
  | some .valueError => Json.str "ValueError"

def sfResJ : SFm.Res → Json
  | .none => Json.null
  | .terms ts => Json.mkObj [("terms", jlist (ts.map termJ))]
  | .nat n => Json.mkObj [("n", Json.num n)]
  | .bool b => Json.mkObj [("b", Json.bool b)]

/-- the value each operation returns, computed on the state BEFORE it -/
def sfResults (o : SFm.Ordering) : List Model.Term → List SFm.Op → List SFm.Res
  | _, [] => []
  | l, op :: ops => SFm.result o l op :: sfResults o (SFm.step o l op).1 ops

def handleSf (j : Json) : Json :=
  -- the ordering names come from the live `OrderingMethod` enum (`Gen/Containers.lean`)
  let o : SFm.Ordering :=
    ((Gen.Containers.orderingValues.zip [SFm.Ordering.none, .degree, .sort]).lookup (jstr j "ordering")).getD .none
  let l0 := SFm.init o ((jarr j "terms").map termOf)
  let ops := (jarr j "ops").map sfOpOf
  let tr := SFm.trace o l0 ops
  let rs := sfResults o l0 ops
  Json.mkObj [
    ("init", jlist (l0.map termJ)),
    ("trace", jlist ((tr.zip rs).map (fun x =>
      Json.mkObj [("terms", jlist (x.1.1.map termJ)), ("err", sfErrJ x.1.2), ("res", sfResJ x.2)]))),
    ("final", jlist ((SFm.run o l0 ops).map termJ)),
    ("ctors", jlist ((jarr j "ctors").map (fun c =>
      let arg : SFm.CtorArg := match jstr c "arg" with
        | "missing" => .missing
        | "notterms" => .notTerms
        | _ => .terms ((jarr c "ts").map optTermOf)
      match SFm.construct o arg (jbool c "kw") with
      | .ok l => jlist (l.map termJ)
      | .error e => sfErrJ (some e))))]

/-- request: `{"op": "st" | "lm" | "sf", …}` -/
def handle (j : Json) : Json :=
  match jstr j "op" with
  | "st" => handleSt j
  | "so" => handleSo j
  | "stf" => handleStf j
  | "os" => handleOs j
  | "lm" => handleLm j
  | "sf" => handleSf j
  | o => jerr ("unknown op " ++ o)

end FormulaicVerif.Engines.C19
