import FormulaicVerif.Engines.Json
import FormulaicVerif.Model.Structured
import FormulaicVerif.Model.LayeredMapping
import FormulaicVerif.Model.SimpleFormula
/-! Engine of the `c19` correspondence stream: runs the container models on one JSON request.
Only decoding/encoding lives here; every observable is computed by `Model.St`, `Model.LMap`,
`Model.SFm`. -/
namespace FormulaicVerif.Engines.C19
open Lean FormulaicVerif.Model FormulaicVerif.Engines

/-! ### Structured -/
open St in
partial def valOf (j : Json) : Val String :=
  match j.getObjVal? "l" with
  | .ok (.str s) => .leaf s
  | _ =>
    match j.getObjVal? "t" with
    | .ok (.arr a) => .tup (a.toList.map valOf)
    | _ => .node ((jarr j "n").map (fun kv =>
        match kv with
        | .arr #[.str k, v] => (k, valOf v)
        | _ => ("?", .leaf "?")))

open St in
partial def valJ : Val String → Json
  | .leaf a => Json.mkObj [("l", Json.str a)]
  | .tup vs => Json.mkObj [("t", jlist (vs.map valJ))]
  | .node kvs => Json.mkObj [("n", jlist (kvs.map (fun kv => jlist [Json.str kv.1, valJ kv.2])))]

def itemsOfJ (j : Json) : St.Items String :=
  match valOf j with
  | .node kvs => kvs
  | _ => []

def stErr : St.Err → String
  | .valueError => "ValueError"
  | .keyError => "KeyError"
  | .runtimeError => "RuntimeError"
  | .merger => "NotImplementedError"
  | .outOfFuel => "outOfFuel"

def exJ (r : Except St.Err (St.Val String)) : Json :=
  match r with
  | .ok v => valJ v
  | .error e => jerr (stErr e)

def pathElemStr : St.PathElem → String
  | .key k => k
  | .idx i => toString i

def pathElemJ : St.PathElem → Json
  | .key k => Json.str k
  | .idx i => Json.num i

/-- the function the harness maps: `lambda x, ctx: x + "@" + ".".join(map(str, ctx))` -/
def mapFn (a : String) (ctx : St.Path) : String := a ++ "@" ++ ".".intercalate (ctx.map pathElemStr)

/-- the merger the harness passes: joins the leaves, raises on the leaf `bad` -/
def merger (xs : List String) : Except St.Err String :=
  if xs.contains "bad" then .error .merger else .ok ("(" ++ "+".intercalate xs ++ ")")

def logJ (log : List (String × St.Path)) : Json :=
  jlist (log.map (fun e => jlist [Json.str e.1, jlist (e.2.map pathElemJ)]))

def handleSt (j : Json) : Json :=
  let tree := jval j "tree"
  let kvs := itemsOfJ tree
  let s : St.Val String := .node kvs
  let ml := St.mapLog mapFn [] s
  let combos := [(true, true), (true, false), (false, true), (false, false)]
  let simp := combos.map (fun ru => St.simplify ru.1 ru.2 false kvs)
  let simp2 := simp.map (fun r =>
    match r with
    | .ok (.node s') => exJ (St.simplify true true false s')
    | _ => Json.null)
  let simpSame := (combos.zip simp).map (fun x =>
    match x.2 with
    | .ok (.node s') => exJ (St.simplify x.1.1 x.1.2 false s')
    | _ => Json.null)
  let upd := jval j "upd"
  let uroot := match upd.getObjVal? "root" with
    | .ok .null => none
    | .ok r => some (valOf r)
    | .error _ => none
  let ukw := (jarr upd "kw").map (fun kv =>
    match kv with
    | .arr #[.str k, v] => (k, valOf v)
    | _ => ("?", St.Val.leaf "?"))
  let objs := (jarr j "objs").map valOf
  let sets := (jarr j "sets").map (fun kv =>
    match kv with
    | .arr #[.str k, v] => (k, valOf v)
    | _ => ("?", St.Val.leaf "?"))
  let setRes : St.Items String × List Json := sets.foldl (fun acc kv =>
    match St.setItem acc.1 kv.1 kv.2 with
    | .ok s' => (s', acc.2 ++ [Json.null])
    | .error e => (acc.1, acc.2 ++ [Json.str (stErr e)])) (kvs, [])
  Json.mkObj [
    ("map", valJ ml.1),
    ("log", logJ ml.2),
    ("flat", jstrs (St.flatten s)),
    ("flat_mapped", jstrs (St.flatten ml.1)),
    ("paths", jlist (ml.2.map (fun e => exJ (St.lookupPath e.2 s)))),
    ("simp", jlist (simp.map exJ)),
    ("simp_default_again", jlist simp2),
    ("simp_same_again", jlist simpSame),
    ("simp_inplace", jlist [exJ (St.simplify true false true kvs), exJ (St.simplify false false true kvs)]),
    ("simp_inplace_unwrap", exJ (St.simplify true true true kvs)),
    ("update", exJ (St.update kvs uroot ukw)),
    ("merge", exJ (St.mergeTop merger objs)),
    ("merge_more_fuel", exJ (St.merge merger (St.mergeFuel objs + 3) [] objs)),
    ("sets", Json.mkObj [("errs", jlist setRes.2), ("tree", valJ (.node setRes.1))])]

/-! ### LayeredMapping -/
open LMap in
partial def layerOf (j : Json) : Layer Json :=
  let kv (x : Json) : String × Json :=
    match x with
    | .arr #[.str k, v] => (k, v)
    | _ => ("?", Json.null)
  match j.getObjVal? "d" with
  | .ok (.arr a) => .dict (a.toList.map kv)
  | _ =>
    let name := match j.getObjVal? "name" with
      | .ok (.str s) => some s
      | _ => none
    .lm name ((jarr j "m").map kv) ((jarr j "layers").map layerOf)

def optStrJ : Option String → Json
  | some s => Json.str s
  | none => Json.null

def lmObs (m : LMap.LM Json) (err : Json) : Json :=
  Json.mkObj [
    ("err", err),
    ("view", jlist (m.view.map (fun kv => jlist [Json.str kv.1, kv.2.getD (Json.str "<KeyError>")]))),
    ("len", Json.num m.len),
    ("name", optStrJ m.name)]

def lmOpOf (j : Json) : LMap.Op Json :=
  match jstr j "o" with
  | "set" => .set (jstr j "k") (jval j "v")
  | "del" => .del (jstr j "k")
  | _ =>
    let name := match j.getObjVal? "name" with
      | .ok (.str s) => some s
      | _ => none
    .withLayers (((jarr j "layers").filter (fun l => !(l == Json.null))).map layerOf)
      (jbool j "prepend") (jbool j "inplace") name

def handleLm (j : Json) : Json :=
  let name := match j.getObjVal? "name" with
    | .ok (.str s) => some s
    | _ => none
  let m0 : LMap.LM Json := { name := name, muts := [], layers := ((jarr j "layers").filter (fun l => !(l == Json.null))).map layerOf }
  let ops := (jarr j "ops").map lmOpOf
  let res : LMap.LM Json × List Json := ops.foldl (fun acc op =>
    match LMap.step acc.1 op with
    | .ok m' => (m', acc.2 ++ [lmObs m' Json.null])
    | .error _ => (acc.1, acc.2 ++ [lmObs acc.1 (Json.str "KeyError")])) (m0, [])
  let m := res.1
  let probe := strs j "probe"
  Json.mkObj [
    ("init", lmObs m0 Json.null),
    ("trace", jlist res.2),
    ("final_is_run", Json.bool ((LMap.run m0 ops).view.map (·.1) == m.view.map (·.1))),
    ("probe", jlist (probe.map (fun k =>
      Json.mkObj [
        ("k", Json.str k),
        ("in", Json.bool (m.contains k)),
        ("get", (m.get k).getD (Json.str "<KeyError>")),
        ("named", match m.getWithLayerName k with
          | some (v, n) => jlist [v, optStrJ n]
          | none => jlist [Json.null, Json.null])])))]

/-! ### SimpleFormula -/
def evalOf : String → EvalMethod
  | "literal" => .literal
  | "python" => .python
  | _ => .lookup
def evalStr : EvalMethod → String
  | .literal => "literal" | .python => "python" | .lookup => "lookup"
def factorOf (j : Json) : Factor := ⟨jstr j "x", evalOf (jstr j "m")⟩
def factorJ (f : Factor) : Json := Json.mkObj [("x", Json.str f.expr), ("m", Json.str (evalStr f.eval))]
def termOf (j : Json) : Model.Term := (asArr j).map factorOf
def termJ (t : Model.Term) : Json := jlist (t.map factorJ)
def optTermOf (j : Json) : Option Model.Term :=
  match j with
  | .arr _ => some (termOf j)
  | _ => none

def sfOpOf (j : Json) : SFm.Op :=
  match jstr j "o" with
  | "insert" => .insert (jint j "i") (optTermOf (jval j "t"))
  | "set" => .set (jint j "i") (optTermOf (jval j "t"))
  | "del" => .del (jint j "i")
  | "delslice" => .delSlice (jint j "a") (jint j "b")
  | "append" => .append (optTermOf (jval j "t"))
  | "extend" => .extend ((jarr j "ts").map optTermOf)
  | "pop" => .pop (jint j "i")
  | _ => .reverse

def sfErrJ : Option SFm.Err → Json
  | none => Json.null
  | some .indexError => Json.str "IndexError"
  | some .invalid => Json.str "FormulaInvalidError"

def handleSf (j : Json) : Json :=
  let o : SFm.Ordering := match jstr j "ordering" with
    | "degree" => .degree
    | "sort" => .sort
    | _ => .none
  let l0 := SFm.init o ((jarr j "terms").map termOf)
  let ops := (jarr j "ops").map sfOpOf
  let tr := SFm.trace o l0 ops
  Json.mkObj [
    ("init", jlist (l0.map termJ)),
    ("trace", jlist (tr.map (fun r =>
      Json.mkObj [("terms", jlist (r.1.map termJ)), ("err", sfErrJ r.2)]))),
    ("final", jlist ((SFm.run o l0 ops).map termJ))]

/-- request: `{"op": "st" | "lm" | "sf", …}` -/
def handle (j : Json) : Json :=
  match jstr j "op" with
  | "st" => handleSt j
  | "lm" => handleLm j
  | "sf" => handleSf j
  | o => jerr ("unknown op " ++ o)

end FormulaicVerif.Engines.C19
