import FormulaicVerif.Engines.Json
import FormulaicVerif.Engines.C01
import FormulaicVerif.Model.Variables
import FormulaicVerif.Model.Dot
/-! Engine of the `c17` correspondence stream. Only decoding/encoding lives here; every observable
is computed by `Model.Variables` and — for the formula itself (which parts, which factors, what every
`.` expands to) — by the whole parser model (`Model.Parser.formulaOfString`, shared with C01) through
`Model.Dot`. What comes in from CPython: the `ast` tree and alias table of every Python token, the
normal form of Python tokens, the key lists of the layers.

Values are symbolic strings (`data:x`, `context:f`, …); the symbolic operations never fail on their
own (see `symOps`), so an evaluation fails in the engine because of an unbound name, a reserved name
in a layer, or a closure whose body fails. -/
namespace FormulaicVerif.Engines.C17
open Lean FormulaicVerif.Model FormulaicVerif.Model.Variables FormulaicVerif.Engines

mutual
partial def exprOf (j : Json) : Expr :=
  match jstr j "t" with
  | "name" => .name (jstr j "id")
  | "const" => .const (jstr j "r")
  | "attr" => .attr (exprOf (jval j "v")) (jstr j "a")
  | "call" => .call (exprOf (jval j "f")) ((jarr j "args").map exprOf)
      ((jarr j "kws").map (fun kv => match kv with
        | .arr #[.str k, v] => (k, exprOf v)
        | _ => ("?", .const "?")))
  | "unop" => .unop (jstr j "op") (exprOf (jval j "x"))
  | "binop" => .binop (jstr j "op") (exprOf (jval j "l")) (exprOf (jval j "r"))
  | "sub" => .subscript (exprOf (jval j "v")) (exprOf (jval j "i"))
  | "seq" => .seq (jstr j "k") ((jarr j "es").map exprOf)
  | "lambda" => .lambda (strs j "ps") ((jarr j "ds").map exprOf) (exprOf (jval j "body"))
  | "comp" => .comp (jstr j "k") ((jarr j "es").map exprOf) ((jarr j "gens").map genOf)
  | _ => .const "?"
partial def genOf (j : Json) : Gen :=
  .mk (strs j "ts") (exprOf (jval j "it")) ((jarr j "ifs").map exprOf)
end

def pairsOf (js : List Json) : List (String × String) :=
  js.map (fun kv => match kv with
    | .arr #[.str a, .str b] => (a, b)
    | _ => ("?", "?"))

def codeOf (j : Json) : Option PyCode :=
  match j with
  | .null => none
  | _ => some { ast := exprOf (jval j "ast"), aliases := pairsOf (jarr j "aliases") }

def factorOf (j : Json) : PFactor :=
  { expr := jstr j "x",
    kind := match jstr j "m" with
      | "lookup" => .lookup
      | "literal" => .literal
      | _ => .python (codeOf (jval j "code")) }

def tokOf (j : Json) : PTok :=
  { text := jstr j "text",
    kind := match jstr j "kind" with
      | "name" => .name
      | "python" => .python (codeOf (jval j "code"))
      | _ => .other }

def optStrJ : Option String → Json
  | some s => Json.str s
  | none => Json.null

def varJ (v : Var) : Json := jlist [Json.str v.name, Json.bool v.value, Json.bool v.callable, optStrJ v.source]

/-- a value that is, or contains, a closure whose body fails -/
def broken (v : String) : Bool := (v.splitOn "closure!").length > 1

/-- symbolic operations: values are strings that spell out how they were computed; no operation fails,
every iterable has one item, every condition holds (except on the literals `False`, `0`, `None`), and a
closure (lambda, generator expression) is run once with symbolic arguments when it is created — a
closure whose body fails makes every call that involves it fail (the generated expressions call or
consume every closure they create). -/
def symOps : Ops String :=
  { const := fun r => r,
    attr := fun v a => .ok (v ++ "." ++ a),
    call := fun f as ks =>
      if broken f || as.any broken || ks.any (fun k => broken k.2) then .error "closure body fails"
      else .ok (f ++ "(" ++ ", ".intercalate (as ++ ks.map (fun k => k.1 ++ "=" ++ k.2)) ++ ")"),
    unop := fun o v => .ok (o ++ "(" ++ v ++ ")"),
    binop := fun o l r => .ok (o ++ "(" ++ l ++ ", " ++ r ++ ")"),
    subscript := fun v i => .ok (v ++ "[" ++ i ++ "]"),
    seq := fun k vs => k ++ "[" ++ ", ".intercalate vs ++ "]",
    iter := fun v => .ok ["item(" ++ v ++ ")"],
    truth := fun v => .ok (!(v == "False" || v == "0" || v == "None")),
    unpack := fun n v => .ok ((List.range n).map (fun i => v ++ "[" ++ toString i ++ "]")),
    closure := fun kind ps captured run =>
      match run (ps.map (fun p => (p, "param:" ++ p))) with
      | .ok v => kind ++ "{" ++ ", ".intercalate captured ++ " -> " ++ v ++ "}"
      | .error _ => "closure!" ++ kind }

def layerOf (tag : String) (names : List String) : List (String × String) :=
  names.map (fun n => (n, tag ++ ":" ++ n))

/-- the caller's context: a JSON array of keys is a plain dict; an object
`{"name": str|null, "muts": [keys], "layers": [...]}` is a `LayeredMapping` -/
partial def ctxOf (j : Json) : LMap.Layer String :=
  match j with
  | .arr a => .dict (layerOf "context" (a.toList.map asStr))
  | _ =>
    .lm (match jval j "name" with | .str s => some s | _ => none)
      (layerOf "context" (strs j "muts")) ((jarr j "layers").map ctxOf)

def runJ (L : Layers String) (ps : List (List PFactor)) : Json :=
  match materializeParts symOps L ps with
  | .ok (vals, vars, req) =>
    Json.mkObj [("ok", Json.bool true), ("values", jstrs vals), ("vars", jlist (vars.map varJ)),
      ("req", jstrs req),
      ("by_source", jlist ((specsBySource symOps L ps).map (fun p => jlist [optStrJ p.1, jstrs p.2]))),
      ("fvars", jlist ((factorVariables symOps L ps.flatten).map (fun p => jlist [Json.str p.1,
        match p.2 with | some vs => jstrs (vs.map (·.name)) | none => Json.null])))]
  | .error (.factorEvaluation c) =>
    Json.mkObj [("error", Json.str "FactorEvaluationError"),
      ("cause", Json.str (match c with
        | .nameError _ => "NameError" | .unboundLocal _ => "UnboundLocalError" | .other w => w))]

def layersOf (j : Json) : Layers String :=
  { data := layerOf "data" (strs j "data"), context := ctxOf (jval j "context"),
    transforms := layerOf "transforms" Gen.transformNames, builtins := layerOf "builtins" (strs j "builtins") }

/-- named-layer observables: the names of `layered_context.named_layers`, and for every probed name
the keys of `getattr(layered_context, name)` or `AttributeError` -/
def namedJ (L : Layers String) (probe : List String) : List (String × Json) :=
  [("named", jstrs ((namedLayers L.lm.toLayer).map (·.1))),
   ("probe", jlist (probe.map (fun n => match getNamedLayer L.lm n with
      | .ok l => jlist [Json.str n, jstrs l.keys]
      | .error _ => jlist [Json.str n, Json.str "AttributeError"])))]

def codesOf (j : Json) : List (String × Option PyCode) :=
  (jarr j "codes").map (fun p => (jstr p "k", codeOf (jval p "code")))

/-- `Formula(formula)` through the whole parser model (no `.`: nothing is available), then everything
C17 observes about its factors -/
def handleFormula (j : Json) : Json :=
  let codes := codesOf j
  match Dot.formulaWithDots (C01.envOf j).norm codes none (C01.charInfos j) with
  | .error e => C01.errJ e
  | .ok v =>
  -- the factors of every part (`SimpleFormula`) of the formula, in `_map` order
  let ps0 : List (List PFactor) := (Dot.parts v).map (Dot.partFactors codes)
  let fs := ps0.flatten                -- each factor as written: what `Formula.required_variables` walks
  let ps := poolParts ps0              -- as evaluated: one evaluation per expression
  let L := layersOf j
  let bfsJ := jlist (fs.map (fun f => jlist [Json.str f.expr, match f.kind with
    | .python (some c) => jlist ((astVariables c.ast c.aliases).map varJ)
    | _ => Json.null]))
  let pre := formulaRequired fs
  let sweep (names : List String) : List (String × Json) :=
    [("restricted", runJ (L.restrict names) ps),
     ("removed", jlist (names.map (fun v => jlist [Json.str v, runJ (L.remove v) ps])))]
  let preJ := match pre with
    | .error _ => jerr "SyntaxError"
    | .ok vs => Json.mkObj ([("vars", jlist (vs.map varJ))] ++ sweep (vs.map (·.name)))
  let postJ := match materializeParts symOps L ps with
    | .error _ => Json.null
    | .ok (_, _, req) => Json.mkObj (sweep req)
  -- what the `_context` handed to a stateful transform finds for the probed keys
  let ctxProbe := jlist ((strs j "ctxkeys").map (fun k => match L.lm.getWithLayerName k with
    | some (_, n) => jlist [Json.str k, Json.bool true, optStrJ n]
    | none => jlist [Json.str k, Json.bool false, Json.null]))
  Json.mkObj ([("formula", C01.valJ v), ("bfs", bfsJ), ("pre", preJ), ("full", runJ L ps), ("post", postJ),
    ("ctx_probe", ctxProbe)] ++ namedJ L (strs j "probe"))

/-- `ModelSpec.required_variables` of every part, in the shape of the formula -/
def partsJ (L : Layers String) (codes : List (String × Option PyCode)) : Val → Json
  | .set ts => match materialize symOps L (Dot.partFactors codes ts) with
    | .ok (_, vars) => jstrs (specRequired vars)
    | .error _ => Json.null
  | .tuple vs => Json.mkObj [("t", jlist (listJ L codes vs))]
  | .struct fs => Json.mkObj [("s", Json.mkObj (fieldsJ L codes fs))]
where
  listJ (L : Layers String) (codes : List (String × Option PyCode)) : List Val → List Json
    | [] => []
    | v :: vs => partsJ L codes v :: listJ L codes vs
  fieldsJ (L : Layers String) (codes : List (String × Option PyCode)) : List (String × Val) → List (String × Json)
    | [] => []
    | (k, v) :: fs => (k, partsJ L codes v) :: fieldsJ L codes fs

/-- `Formula.from_spec(formula, context=materializer.layered_context)` through the whole parser model,
then the materialisation of all parts -/
def handleDot (j : Json) : Json :=
  let L := layersOf j
  let codes := codesOf j
  let env0 := C01.envOf j
  let available : Option (List String) := match jstr j "avail_mode" with
    | "explicit" => some (strs j "avail_list")     -- `__formulaic_variables_available__`
    | "none" => none                               -- a context without a `data` layer
    | _ => L.available                             -- the materializer's layered context
  match Dot.formulaWithDots env0.norm codes available (C01.charInfos j) with
  | .error e => C01.errJ e
  | .ok v =>
    let ps := poolParts ((Dot.parts v).map (Dot.partFactors codes))
    Json.mkObj ([("formula", C01.valJ v), ("full", runJ L ps), ("parts", partsJ L codes v),
      ("available", match available with | some a => jstrs a | none => Json.null),
      ("tokprobe", jlist ((jarr j "tokprobe").map (fun t =>
        jstrs (tokenRequired ⟨jstr t "text", .python (codeOf (jval t "code"))⟩))))] ++ namedJ L (strs j "probe"))

/-- a history of parses (and materialisations) that share one context object: the materializer's
layered context, or a mapping the caller built. Every step carries its own string; the context after
the history is reported by its keys. -/
def handleHistory (j : Json) : Json :=
  let L := layersOf j
  let codes := codesOf j
  let explicit : Option (List String) := match jval j "explicit" with
    | .arr a => some (a.toList.map asStr)
    | _ => none
  let own : LMap.Layer String := .dict (layerOf "parser" (strs j "own"))
  let caller : LMap.Layer String := match jstr j "target" with
    | "materializer" => L.lm.toLayer
    | _ => ctxOf (jval j "caller")
  let steps := jarr j "steps"
  let (results, after) := Dot.parseHistory (fun cs =>
      -- the normal forms of the Python tokens of all steps, in one table
      (C01.envOf j).norm cs) codes explicit own caller (steps.map C01.charInfos)
  let stepJ (r : Except ParseErr Val) : Json := match r with
    | .error e => C01.errJ e
    | .ok v =>
      let ps := poolParts ((Dot.parts v).map (Dot.partFactors codes))
      Json.mkObj [("formula", C01.valJ v), ("full", runJ L ps), ("parts", partsJ L codes v)]
  Json.mkObj [("steps", jlist (results.map stepJ)), ("keys", jstrs after.keys)]

def handle (j : Json) : Json :=
  match jstr j "op" with
  | "formula" => handleFormula j
  | "dot" => handleDot j
  | "history" => handleHistory j
  | _ => jerr "bad-op"

end FormulaicVerif.Engines.C17
