import FormulaicVerif.Engines.Json
import FormulaicVerif.Model.Variables
import FormulaicVerif.Model.Dot
/-! Engine of the `c17` correspondence stream. Only decoding/encoding lives here; every observable
is computed by `Model.Variables` (and, for `.`, by the parser model's `applyPlain`).

Values are symbolic strings (`data:x`, `context:f`, …) and the operations on them never fail, so
the only way an evaluation fails in the engine is an unbound name. -/
namespace FormulaicVerif.Engines.C17
open Lean FormulaicVerif.Model FormulaicVerif.Model.Variables FormulaicVerif.Engines

partial def exprOf (j : Json) : Expr :=
  match jstr j "t" with
  | "name" => .name (jstr j "id")
  | "const" => .const (jstr j "r")
  | "attr" => .attr (exprOf (jval j "v")) (jstr j "a")
  | "call" => .call (exprOf (jval j "f")) ((jarr j "args").map exprOf)
      ((jarr j "kws").map (fun kv => match kv with
        | .arr #[.str k, v] => (k, exprOf v)
        | _ => ("?", .const "?")))
  | "unop" => .unop (jstr j "op") (exprOf (jval j "x"))
  | "binop" => .binop (jstr j "op") (exprOf (jval j "l")) (exprOf (jval j "r"))
  | "sub" => .subscript (exprOf (jval j "v")) (exprOf (jval j "i"))
  | "seq" => .seq (jstr j "k") ((jarr j "es").map exprOf)
  | _ => .const "?"

def pairsOf (js : List Json) : List (String × String) :=
  js.map (fun kv => match kv with
    | .arr #[.str a, .str b] => (a, b)
    | _ => ("?", "?"))

def codeOf (j : Json) : Option PyCode :=
  match j with
  | .null => none
  | _ => some { ast := exprOf (jval j "ast"), aliases := pairsOf (jarr j "aliases") }

def factorOf (j : Json) : PFactor :=
  { expr := jstr j "x",
    kind := match jstr j "m" with
      | "lookup" => .lookup
      | "literal" => .literal
      | _ => .python (codeOf (jval j "code")) }

def tokOf (j : Json) : PTok :=
  { text := jstr j "text",
    kind := match jstr j "kind" with
      | "name" => .name
      | "python" => .python (codeOf (jval j "code"))
      | _ => .other }

def optStrJ : Option String → Json
  | some s => Json.str s
  | none => Json.null

def varJ (v : Var) : Json := jlist [Json.str v.name, Json.bool v.value, Json.bool v.callable, optStrJ v.source]

def symOps : Ops String :=
  { const := fun r => r,
    attr := fun v a => .ok (v ++ "." ++ a),
    call := fun f as ks => .ok (f ++ "(" ++ ", ".intercalate (as ++ ks.map (fun k => k.1 ++ "=" ++ k.2)) ++ ")"),
    unop := fun o v => .ok (o ++ "(" ++ v ++ ")"),
    binop := fun o l r => .ok (o ++ "(" ++ l ++ ", " ++ r ++ ")"),
    subscript := fun v i => .ok (v ++ "[" ++ i ++ "]"),
    seq := fun k vs => k ++ "[" ++ ", ".intercalate vs ++ "]" }

def layerOf (tag : String) (names : List String) : List (String × String) :=
  names.map (fun n => (n, tag ++ ":" ++ n))

/-- the caller's context: a JSON array of keys is a plain dict; an object
`{"name": str|null, "muts": [keys], "layers": [...]}` is a `LayeredMapping` -/
partial def ctxOf (j : Json) : LMap.Layer String :=
  match j with
  | .arr a => .dict (layerOf "context" (a.toList.map asStr))
  | _ =>
    .lm (match jval j "name" with | .str s => some s | _ => none)
      (layerOf "context" (strs j "muts")) ((jarr j "layers").map ctxOf)

def runJ (L : Layers String) (fs : List PFactor) : Json :=
  match materialize symOps L fs with
  | .ok (vals, vars) =>
    Json.mkObj [("ok", Json.bool true), ("values", jstrs vals), ("vars", jlist (vars.map varJ)),
      ("req", jstrs (specRequired vars)),
      ("by_source", jlist ((bySource vars).map (fun p => jlist [optStrJ p.1, jstrs p.2])))]
  | .error (.factorEvaluation c) =>
    Json.mkObj [("error", Json.str "FactorEvaluationError"),
      ("cause", Json.str (match c with | .nameError _ => "NameError" | .other w => w))]

def handleFormula (j : Json) : Json :=
  let fs := (jarr j "factors").map factorOf
  let L : Layers String :=
    { data := layerOf "data" (strs j "data"), context := ctxOf (jval j "context"),
      transforms := layerOf "transforms" Gen.transformNames, builtins := layerOf "builtins" (strs j "builtins") }
  let bfsJ := jlist (fs.map (fun f => match f.kind with
    | .python (some c) => jlist ((astVariables c.ast c.aliases).map varJ)
    | _ => Json.null))
  let pre := formulaRequired fs
  let full := materialize symOps L fs
  let sweep (names : List String) : List (String × Json) :=
    [("restricted", runJ (L.restrict names) fs),
     ("removed", jlist (names.map (fun v => jlist [Json.str v, runJ (L.remove v) fs])))]
  let preJ := match pre with
    | .error _ => jerr "SyntaxError"
    | .ok vs => Json.mkObj ([("vars", jlist (vs.map varJ))] ++ sweep (vs.map (·.name)))
  let postJ := match full with
    | .error _ => Json.null
    | .ok (_, vars) => Json.mkObj (sweep (specRequired vars))
  Json.mkObj [("bfs", bfsJ), ("pre", preJ), ("full", runJ L fs), ("post", postJ)]

def handleDot (j : Json) : Json :=
  let lhs := (jarr j "lhs").map tokOf
  let cols := strs j "cols"
  let used := lhsUsed lhs
  match Dot.expand cols used with
  | .ok ts => Json.mkObj [("used", jstrs used), ("terms", jlist (ts.map (fun t => jstrs (t.map (·.expr)))))]
  | .error _ => jerr "FormulaParsingError"

def handle (j : Json) : Json :=
  match jstr j "op" with
  | "formula" => handleFormula j
  | "dot" => handleDot j
  | _ => jerr "bad-op"

end FormulaicVerif.Engines.C17
