import Lean.Data.Json
/-! Small helpers for the JSON line protocol (driver side only; not part of any model). -/
namespace FormulaicVerif.Engines
open Lean

def jstr (j : Json) (k : String) : String := (j.getObjValAs? String k).toOption.getD ""
def jnat (j : Json) (k : String) : Nat := (j.getObjValAs? Nat k).toOption.getD 0
def jint (j : Json) (k : String) : Int := (j.getObjValAs? Int k).toOption.getD 0
def jbool (j : Json) (k : String) : Bool := (j.getObjValAs? Bool k).toOption.getD false
def jarr (j : Json) (k : String) : List Json :=
  match j.getObjVal? k with
  | .ok (.arr a) => a.toList
  | _ => []
def jval (j : Json) (k : String) : Json := (j.getObjVal? k).toOption.getD Json.null
def asArr : Json → List Json
  | .arr a => a.toList
  | _ => []
def asStr : Json → String
  | .str s => s
  | _ => ""
def asNat (j : Json) : Nat := (j.getNat?).toOption.getD 0
def asInt (j : Json) : Int := (j.getInt?).toOption.getD 0
def asBool : Json → Bool
  | .bool b => b
  | _ => false
def strs (j : Json) (k : String) : List String := (jarr j k).map asStr
def jlist (xs : List Json) : Json := Json.arr xs.toArray
def jstrs (xs : List String) : Json := jlist (xs.map Json.str)
def jerr (kind : String) : Json := Json.mkObj [("error", Json.str kind)]

end FormulaicVerif.Engines
