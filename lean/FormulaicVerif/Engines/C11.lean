import FormulaicVerif.Engines.Json
import FormulaicVerif.Model.Contrasts
import FormulaicVerif.Model.ContrastsCache
import FormulaicVerif.Model.ContrastsExt
import FormulaicVerif.Spec.Contrasts
namespace FormulaicVerif.Engines.C11
open Lean FormulaicVerif.Model.Contrasts FormulaicVerif.Model.ContrastsExt FormulaicVerif.Engines

/-- rationals travel as "p/q" strings (or "p") -/
def ratJ (r : Rat) : Json := Json.str (toString r.num ++ "/" ++ toString r.den)

def parseRat (s : String) : Rat :=
  match s.splitOn "/" with
  | [p] => ((p.toInt?.getD 0 : Int) : Rat)
  | [p, q] => ((p.toInt?.getD 0 : Int) : Rat) / ((q.toInt?.getD 1 : Int) : Rat)
  | _ => 0

def labelOf (j : Json) : Label :=
  match j.getObjVal? "s" with
  | .ok (.str s) => .str s
  | _ => .int (jint j "i")

def labelJ : Label → Json
  | .str s => Json.mkObj [("s", Json.str s)]
  | .int i => Json.mkObj [("i", Json.num (JsonNumber.fromInt i))]

def optLabelOf (j : Json) : Option Label := if j.isNull then none else some (labelOf j)
def optLabelJ : Option Label → Json
  | none => Json.null
  | some l => labelJ l

/-- {"k": "treatment"|"SAS"|"sum"|"helmert"|"diff"|"poly", "base": label|null, "reverse", "scale",
"backward", "scores": [..]|null} -/
def contrastOf (j : Json) : Contrast :=
  match jstr j "k" with
  | "treatment" => .treatment (optLabelOf (jval j "base"))
  | "SAS" => .sas (optLabelOf (jval j "base"))
  | "sum" => .sum
  | "helmert" => .helmert (jbool j "reverse") (jbool j "scale")
  | "diff" => .diff (jbool j "backward")
  | _ => .poly (if (jval j "scores").isNull then none else some ((jarr j "scores").map fun s => parseRat (asStr s)))

def errJ : Err → Json
  | .indexError => jerr "IndexError"
  | _ => jerr "ValueError"

def matJ (m : List (List Rat)) : Json := jlist (m.map fun r => jlist (r.map ratJ))

def exceptJ {α} (f : α → Json) : Except Err α → Json
  | .ok a => f a
  | .error e => errJ e

/-- closed-form coefficient matrix (Spec) for the resolved contrast, as rows -/
def coefJ (c : Contrast) (levels : List Label) (reduced : Bool) : Json :=
  let n := levels.length
  if reduced then
    match getCodingMatrix c levels true false, c.kind levels with
    | .ok _, .ok (.poly _) =>
        -- same closed form, evaluated on the memoised table (the entry function recomputes exponentially)
        match c with
        | .poly sc => exceptJ (fun s => matJ (polyCoefRows s n)) (polyScores sc n)
        | _ => jerr "unreachable"
    | .ok _, .ok k => matJ (toRows (fun r i => FormulaicVerif.Spec.Contrasts.coef k n r i) n n)
    | .error e, _ => errJ e
    | _, .error e => errJ e
  else
    exceptJ (fun _ => matJ (toRows eye n n)) (getCodingMatrix c levels false false)

def labelsJ (p : List Label × List Label) : Json :=
  Json.mkObj [("index", jlist (p.1.map labelJ)), ("columns", jlist (p.2.map labelJ))]

def matricesFor (c : Contrast) (levels : List Label) (reduced : Bool) : Json :=
  Json.mkObj [
    ("coding_dense", exceptJ matJ (getCodingMatrix c levels reduced false)),
    ("coding_sparse", exceptJ matJ (getCodingMatrix c levels reduced true)),
    ("norms2", exceptJ (fun l => jlist (l.map ratJ)) (codingNorms2 c levels reduced)),
    ("coef", coefJ c levels reduced),
    ("names", exceptJ (fun l => jlist (l.map labelJ)) (codingColumnNames c levels reduced)),
    ("row_names", exceptJ (fun l => jlist (l.map labelJ)) (coefRowNames c levels reduced)),
    ("coding_labels", exceptJ labelsJ (codingFrameLabels c levels reduced)),
    ("coef_labels", exceptJ labelsJ (coefFrameLabels c levels reduced)),
    ("drop_field", exceptJ optLabelJ (dropField c levels reduced)),
    ("spans_intercept", Json.bool (spansIntercept levels reduced)),
    ("format", Json.str (factorFormat c reduced))]

def encodedJ (e : Encoded × List Label) : Json :=
  Json.mkObj [
    ("values", matJ e.1.values),
    ("names", jlist (e.1.columnNames.map labelJ)),
    ("spans_intercept", Json.bool e.1.spansIntercept),
    ("drop_field", optLabelJ e.1.dropField),
    ("format", Json.str e.1.format),
    ("format_reduced", Json.str e.1.formatReduced),
    ("categories", jlist (e.2.map labelJ))]


/-! ### extended surface: custom contrasts, the `contrasts=` argument, direct `apply`, frame labels -/

def xerrJ : XErr → Json
  | .base e => errJ e
  | .shape1d => jerr "IndexError"
  | .missingArgument => jerr "TypeError"
  | .notSquare false => jerr "LinAlgError"
  | .singular false => jerr "LinAlgError"
  | .singular true => jerr "RuntimeError"
  | .uncertified => jerr "model-uncertified"
  | .nanResult => jerr "nan-result"
  | _ => jerr "ValueError"

def xexceptJ {α} (f : α → Json) : Except XErr α → Json
  | .ok a => f a
  | .error e => xerrJ e

def ratsOf (j : Json) : List Rat := (asArr j).map fun s => parseRat (asStr s)

/-- {"form": "dict", "items": [[label, [..]], …]} | {"form": "rows"|"ndarray", "rows": [[..], …]} | {"form": "flat", "vals": [..]} -/
def inputOf (j : Json) : CustomInput :=
  match jstr j "form" with
  | "dict" => .dict ((jarr j "items").map fun it =>
      match asArr it with
      | [l, vs] => (labelOf l, ratsOf vs)
      | _ => (Label.str "", []))
  | "flat" => .flat (ratsOf (jval j "vals"))
  | _ => .rows ((jarr j "rows").map ratsOf)

def namesOf (j : Json) : Option (List Label) :=
  if (jval j "names").isNull then none else some ((jarr j "names").map labelOf)

/-- the `contrasts=` argument: a built-in instance (as before), {"k": "unset"}, {"k": "cls", "name": …},
{"k": "custom", …input…, "names": [..]|null} -/
def argOf (j : Json) : ContrastArg :=
  match jstr j "k" with
  | "unset" => .unset
  | "cls" => .cls (jstr j "name")
  | "custom" => .custom (inputOf j) (namesOf j)
  | _ => .builtin (contrastOf j)

def shapeJ : Shape → Json
  | .d1 m => jlist [Json.num (JsonNumber.fromNat m)]
  | .d2 r c => jlist [Json.num (JsonNumber.fromNat r), Json.num (JsonNumber.fromNat c)]

def customFor (k : Custom) (levels : List Label) (reduced : Bool) : Json :=
  Json.mkObj [
    ("coding_dense", xexceptJ matJ (customCodingMatrix k levels false)),
    ("coding_sparse", xexceptJ matJ (customCodingMatrix k levels true)),
    ("coef_dense", xexceptJ matJ (customCoefMatrix k levels reduced false)),
    ("coef_sparse", xexceptJ matJ (customCoefMatrix k levels reduced true)),
    ("names", xexceptJ (fun l => jlist (l.map labelJ)) (customColumnNames k)),
    ("row_names", jlist ((customRowNames levels reduced).map labelJ)),
    ("coding_labels", xexceptJ labelsJ (do
        let _ ← customCodingMatrix k levels false
        let names ← customColumnNames k
        pure (levels, names))),
    ("coef_labels", xexceptJ labelsJ (do
        let _ ← customCoefMatrix k levels reduced false
        pure (customRowNames levels reduced, levels))),
    ("drop_field", Json.null),
    ("spans_intercept", Json.bool false),
    ("format", Json.str plainFormat)]

def dtypeOf : String → DummiesType
  | "frame" => .frame
  | "ndarray" => .ndarray
  | "spmatrix" => .spmatrix
  | _ => .other

def merrJ : FormulaicVerif.Model.ContrastsCache.MErr → Json
  | .encode e => xerrJ e
  | .keyError => jerr "KeyError"

/-- put the per-factor answers back into the order of the history -/
def interleave : List String → List Json → List Json → List Json
  | [], _, _ => []
  | "A" :: ws, a :: as, bs => a :: interleave ws as bs
  | _ :: ws, as, b :: bs => b :: interleave ws as bs
  | _ :: ws, as, [] => Json.null :: interleave ws as []

/-- op "formula": one materialization; `history` lists the uses of the contrast factors A (`contrast`) and
B (`contrast2`, same column, same levels) in materialization order as `{which, reduced, newspec}`. Each factor
expression has its own cache entries, so each runs through `Model.ContrastsCache.materialize` on its own
sub-history. -/
def formulaFor (j : Json) : Json :=
  let levels := if (jval j "levels").isNull then none else some ((jarr j "levels").map labelOf)
  let data := (jarr j "data").map optLabelOf
  let out := jstr j "output"
  let hist := jarr j "history"
  let cats := match levels with
    | some ls => ls
    | none => inferLevels data
  let runOne (which : String) (arg : ContrastArg) : Except FormulaicVerif.Model.ContrastsCache.MErr (List Json) :=
    let qs := (hist.filter fun h => jstr h "which" == which).map fun h =>
      (⟨jbool h "reduced", jbool h "newspec"⟩ : FormulaicVerif.Model.ContrastsCache.Request)
    match FormulaicVerif.Model.ContrastsCache.materialize ⟨data, arg, levels, out, none⟩ qs with
    | .error e => .error e
    | .ok encs => .ok ((encs.zip qs).map fun (e, q) =>
        Json.mkObj [("enc", encodedJ (e, cats)),
                    ("norms2", match resolveArg arg with
                      | .ok (.builtin c) => exceptJ (fun l => jlist (l.map ratJ)) (codingNorms2 c cats q.reduced)
                      | _ => Json.null)])
  match runOne "A" (argOf (jval j "contrast")),
        (if (jval j "contrast2").isNull then .ok [] else runOne "B" (argOf (jval j "contrast2"))) with
  | .error e, _ => merrJ e
  | _, .error e => merrJ e
  | .ok as, .ok bs => Json.mkObj [("encs", jlist (interleave (hist.map fun h => jstr h "which") as bs))]

def handle (j : Json) : Json :=
  let c := contrastOf (jval j "contrast")
  match jstr j "op" with
  | "matrices" =>
      let levels := (jarr j "levels").map labelOf
      Json.mkObj [("reduced", matricesFor c levels true), ("full", matricesFor c levels false)]
  | "encode" =>
      let levels := if (jval j "levels").isNull then none else some ((jarr j "levels").map labelOf)
      let data := (jarr j "data").map optLabelOf
      let reduced := jbool j "reduced"
      let arg := argOf (jval j "contrast")
      -- "drop_rows" (positions) present: the request went through the encoder closure of `C(...)`
      let enc := if (jval j "drop_rows").isNull then xEncodeContrasts data arg levels reduced (jstr j "output")
                 else cEncoder data arg levels none ((jarr j "drop_rows").map asNat) reduced (jstr j "output")
      let norms := match enc, resolveArg arg with
        | .ok (_, cats), .ok (.builtin c) => exceptJ (fun l => jlist (l.map ratJ)) (codingNorms2 c cats reduced)
        | _, _ => Json.null
      Json.mkObj [("enc", xexceptJ encodedJ enc), ("norms2", norms)]
  | "custom" =>
      let levels := (jarr j "levels").map labelOf
      match mkCustom (inputOf (jval j "contrast")) (namesOf (jval j "contrast")) with
      | .error e => Json.mkObj [("init", xerrJ e)]
      | .ok k =>
          Json.mkObj [("init", Json.mkObj [("shape", shapeJ k.shape),
                                           ("names", match k.names with
                                              | none => Json.null
                                              | some ns => jlist (ns.map labelJ))]),
                      ("reduced", customFor k levels true), ("full", customFor k levels false)]
  | "apply" =>
      let levels := (jarr j "levels").map labelOf
      let dummies := (jarr j "dummies").map ratsOf
      let output := if (jval j "output").isNull then none else some (jstr j "output")
      let reduced := jbool j "reduced"
      match resolveArg (argOf (jval j "contrast")) with
      | .error e => Json.mkObj [("init", xerrJ e)]
      | .ok x =>
          let r := applyDirect x (dtypeOf (jstr j "dtype")) dummies levels reduced output
          let norms := match r, x with
            | .ok _, .builtin c => exceptJ (fun l => jlist (l.map ratJ)) (codingNorms2 c levels reduced)
            | _, _ => Json.null
          Json.mkObj [("enc", xexceptJ (fun (e : Encoded × String) =>
                          (encodedJ (e.1, levels)).setObjVal! "output" (Json.str e.2)) r),
                      ("norms2", norms)]
  | "formula" => formulaFor j
  | _ => jerr "unknown-op"

end FormulaicVerif.Engines.C11
