import FormulaicVerif.Engines.Json
import FormulaicVerif.Model.Constraints
import FormulaicVerif.Model.ConstraintParse
import FormulaicVerif.Model.ConstraintForms
namespace FormulaicVerif.Engines.C16
open Lean FormulaicVerif.Engines FormulaicVerif.Model.Constraints FormulaicVerif.Model.ConstraintForms

def ratStr (q : Rat) : String := toString q.num ++ "/" ++ toString q.den

/-- "p/q" (q > 0) or "p" -/
def ratOf (s : String) : Rat :=
  match s.splitOn "/" with
  | [p] => (p.toInt?.getD 0 : Int)
  | [p, q] => ((p.toInt?.getD 0 : Int) : Rat) / ((q.toNat?.getD 1 : Nat) : Rat)
  | _ => 0

def kindOf : String → Option Kind
  | "name" => some .name
  | "python" => some .python
  | "value" => some .value
  | _ => none

def op1Of : String → Option Op1
  | "+" => some .pos
  | "-" => some .neg
  | _ => none

def op2Of : String → Option Op2
  | "," => some .comma
  | "=" => some .eq
  | "+" => some .add
  | "-" => some .sub
  | "*" => some .mul
  | "/" => some .div
  | _ => none

/-- {"k": kind, "t": text} | {"op": symbol, "args": [..]}; `none` = outside the modelled operator table -/
partial def nodeOf (j : Json) : Option Node :=
  match j.getObjVal? "op" with
  | .ok (.str sym) =>
    match jarr j "args" with
    | [a] => do
      let o ← op1Of sym
      let a ← nodeOf a
      pure (.un o a)
    | [a, b] => do
      let o ← op2Of sym
      let a ← nodeOf a
      let b ← nodeOf b
      pure (.bin o a b)
    | _ => none
  | _ => do
    let k ← kindOf (jstr j "k")
    pure (.leaf k (jstr j "t"))

def parsedOf (j : Json) : Option Parsed :=
  match j.getObjVal? "error" with
  | .ok (.str c) => some (.error c)
  | _ => match j.getObjVal? "ast" with
    | .ok a => (nodeOf a).map .ast
    | _ => some .empty

def charInfos (j : Json) : List FormulaicVerif.Model.CharInfo :=
  let s := (jstr j "s").toList
  let w := (jstr j "w").toList
  let sp := (jstr j "sp").toList
  (s.zip (w.zip sp)).map (fun (c, (a, b)) => { c := c, word := a == '1', space := b == '1' })

def kindStr : Kind → String
  | .name => "name" | .python => "python" | .value => "value"

def op1Str : Op1 → String
  | .pos => "+" | .neg => "-"

def op2Str : Op2 → String
  | .comma => "," | .eq => "=" | .add => "+" | .sub => "-" | .mul => "*" | .div => "/"

def nodeJ : Node → Json
  | .leaf k t => Json.mkObj [("k", Json.str (kindStr k)), ("t", Json.str t)]
  | .un o a => Json.mkObj [("op", Json.str (op1Str o)), ("args", jlist [nodeJ a])]
  | .bin o a b => Json.mkObj [("op", Json.str (op2Str o)), ("args", jlist [nodeJ a, nodeJ b])]

def parsedJ : Parsed → Json
  | .empty => Json.mkObj [("empty", Json.bool true)]
  | .ast n => Json.mkObj [("ast", nodeJ n)]
  | .error c => Json.mkObj [("error", Json.str c)]

/-- the model's own parse of one string (tokenizer + shunting-yard over the live constraint table) -/
def modelParse (ci : Json) : Option Parsed := FormulaicVerif.Model.ConstraintParse.parse (charInfos ci)

/-- the parser as a parameter: a finite table string ↦ result, supplied by the harness -/
def parseFn (tbl : List (String × Parsed)) (s : String) : Parsed :=
  match tbl.find? (fun p => p.1 == s) with
  | some p => p.2
  | none => .error "not-supplied"

/-- errors some evaluation schedule / set order could raise for one string -/
def altOne (names : List String) (p : Parsed) : List Err :=
  match p with
  | .error c => [.parse c]
  | .empty => []
  | .ast n => match toTermsAll n with
    | .error es => es
    | .ok v => match rowsOf id names v.items with
      | .error e => [e]
      | .ok _ => []

def altSpec (names : List String) (parse : String → Parsed) : Spec → List Err
  | .str s => altOne names (parse s)
  | .list ss => altOne names (parse (",".intercalate ss))
  | .dict items =>
    match (items.map (fun kv => altOne names (parse kv.1))).find? (fun l => !l.isEmpty) with
    | some l => l
    | none => if items.isEmpty then [.emptyDict] else []

/-! ### every kind of specification (`Model/ConstraintForms.lean`) -/

/-- {"n": "p/q"} | {"s": text} | [arr, ...] -/
partial def arrOf (j : Json) : Option Arr :=
  match j with
  | .arr xs => (xs.toList.mapM arrOf).map .seq
  | _ => match j.getObjVal? "n", j.getObjVal? "s" with
    | .ok (.str q), _ => some (.num (ratOf q))
    | _, .ok (.str t) => some (.text t)
    | _, _ => none

def cellJ : Cell → Json
  | .num q => Json.str (ratStr q)
  | .text t => Json.mkObj [("s", Json.str t)]

def dictOf (j : Json) : List (String × Rat) :=
  (asArr j).map (fun kv => match asArr kv with
    | [k, v] => (asStr k, ratOf (asStr v))
    | _ => ("", 0))

/-- `variable_names`: a list or `null` -/
def namesOf (j : Json) : Option (List String) :=
  match j.getObjVal? "names" with
  | .ok (.arr a) => some (a.toList.map asStr)
  | _ => none

/-- {"t": "none"|"num"|"str"|"dict"|"inst"|"list"|"tuple"|"nd", "v": …}; an instance carries its four attributes -/
def pyOf (j : Json) : Option PyVal :=
  match jstr j "t" with
  | "none" => some .none
  | "num" => some (.num (ratOf (jstr j "v")))
  | "str" => some (.str (jstr j "v"))
  | "dict" => some (.dict (dictOf (jval j "v")))
  | "list" => ((jarr j "v").mapM arrOf).map .list
  | "tuple" => ((jarr j "v").mapM arrOf).map .tuple
  | "nd" => (arrOf (jval j "v")).map .nd
  | "inst" => do
    -- the instance is built by the MODEL's constructor from the arguments the harness passed to the real one
    let A ← arrOf (jval j "A")
    let b ← arrOf (jval j "b")
    match initLC A b (namesOf (Json.mkObj [("names", jval j "inames")])) with
    | .ok lc => pure (.inst lc)
    | .error _ => none     -- the constructor call itself fails: see `ctorError`
  | _ => none

/-- the error of building the instance that is passed as the specification (`LinearConstraints(A, b, names)`) -/
def ctorError (j : Json) : Option FErr :=
  match jstr j "t", arrOf (jval j "A"), arrOf (jval j "b") with
  | "inst", some A, some b => match initLC A b (namesOf (Json.mkObj [("names", jval j "inames")])) with
    | .error e => some e
    | .ok _ => none
  | _, _, _ => none

/-- the formula specification a Python object is read as (for the error-class alternatives) -/
def formulaSpec : PyVal → Option Spec
  | .str s => some (.str s)
  | .dict items => some (.dict items)
  | .list xs => (allText xs).map .list
  | _ => none

def lcJ (lc : LC) : List (String × Json) :=
  [("A", jlist (lc.matrix.map (fun r => jlist (r.map cellJ)))), ("b", jlist (lc.values.map cellJ)),
   ("ncols", toJson lc.ncols), ("names", jstrs lc.names), ("n", toJson lc.nConstraints),
   ("repr", Json.str lc.repr)]

/-- request: {"names": [...] | null, "py": spec, "parses": [[string, parsed, chars], ...]} -/
def handleOne (j : Json) : Json :=
  let names := namesOf j
  -- [string, parse reported by the real parser] (parser as a parameter), or
  -- [string, …, {s,w,sp}]: the model parses the string itself and the harness compares the two parses
  let tbl? : Option (List (String × Parsed)) := (jarr j "parses").mapM (fun kv =>
    match asArr kv with
    | [k, v] => (parsedOf v).map (fun p => (asStr k, p))
    | [k, _, ci] => (modelParse ci).map (fun p => (asStr k, p))
    | _ => none)
  let msgJ := fun (m : Option String) => match m with | some t => Json.str t | none => Json.null
  match ctorError (jval j "py") with
  | some e => Json.mkObj [("error", Json.str e.cls), ("etag", Json.str e.tag), ("msg", msgJ e.msg), ("alt", jlist []),
      ("pm", jlist []), ("ctor", Json.bool true)]
  | none =>
  match tbl?, pyOf (jval j "py") with
  | some tbl, some spec =>
    let pm := ("pm", jlist (tbl.map (fun kv => jlist [Json.str kv.1, parsedJ kv.2])))
    match fromSpecAny id (parseFn tbl) names spec with
    | .ok lc => Json.mkObj (lcJ lc ++ [pm])
    | .error e =>
      let alt := match e, names, formulaSpec spec with
        | .compile _, some ns, some fs => altSpec ns (parseFn tbl) fs
        | _, _, _ => []
      Json.mkObj [("error", Json.str e.cls), ("etag", Json.str e.tag), ("msg", msgJ e.msg),
        ("alt", jlist (alt.map (fun a => jlist [Json.str a.cls, msgJ (errMsg a)]))), pm]
  | _, _ => jerr "unmodelled"

/-- one request, or a history {"steps": [request, ...]}: the model is a pure function of
(names, spec, parse), so a history is answered step by step, independently -/
def handle (j : Json) : Json :=
  match j.getObjVal? "steps" with
  | .ok (.arr steps) => Json.mkObj [("steps", jlist (steps.toList.map handleOne))]
  | _ => handleOne j

end FormulaicVerif.Engines.C16
