import FormulaicVerif.Engines.Json
import FormulaicVerif.Model.Constraints
import FormulaicVerif.Model.ConstraintParse
namespace FormulaicVerif.Engines.C16
open Lean FormulaicVerif.Engines FormulaicVerif.Model.Constraints

def ratStr (q : Rat) : String := toString q.num ++ "/" ++ toString q.den

/-- "p/q" (q > 0) or "p" -/
def ratOf (s : String) : Rat :=
  match s.splitOn "/" with
  | [p] => (p.toInt?.getD 0 : Int)
  | [p, q] => ((p.toInt?.getD 0 : Int) : Rat) / ((q.toNat?.getD 1 : Nat) : Rat)
  | _ => 0

def kindOf : String → Option Kind
  | "name" => some .name
  | "python" => some .python
  | "value" => some .value
  | _ => none

def op1Of : String → Option Op1
  | "+" => some .pos
  | "-" => some .neg
  | _ => none

def op2Of : String → Option Op2
  | "," => some .comma
  | "=" => some .eq
  | "+" => some .add
  | "-" => some .sub
  | "*" => some .mul
  | "/" => some .div
  | _ => none

/-- {"k": kind, "t": text} | {"op": symbol, "args": [..]}; `none` = outside the modelled operator table -/
partial def nodeOf (j : Json) : Option Node :=
  match j.getObjVal? "op" with
  | .ok (.str sym) =>
    match jarr j "args" with
    | [a] => do
      let o ← op1Of sym
      let a ← nodeOf a
      pure (.un o a)
    | [a, b] => do
      let o ← op2Of sym
      let a ← nodeOf a
      let b ← nodeOf b
      pure (.bin o a b)
    | _ => none
  | _ => do
    let k ← kindOf (jstr j "k")
    pure (.leaf k (jstr j "t"))

def parsedOf (j : Json) : Option Parsed :=
  match j.getObjVal? "error" with
  | .ok (.str c) => some (.error c)
  | _ => match j.getObjVal? "ast" with
    | .ok a => (nodeOf a).map .ast
    | _ => some .empty

def charInfos (j : Json) : List FormulaicVerif.Model.CharInfo :=
  let s := (jstr j "s").toList
  let w := (jstr j "w").toList
  let sp := (jstr j "sp").toList
  (s.zip (w.zip sp)).map (fun (c, (a, b)) => { c := c, word := a == '1', space := b == '1' })

def kindStr : Kind → String
  | .name => "name" | .python => "python" | .value => "value"

def op1Str : Op1 → String
  | .pos => "+" | .neg => "-"

def op2Str : Op2 → String
  | .comma => "," | .eq => "=" | .add => "+" | .sub => "-" | .mul => "*" | .div => "/"

def nodeJ : Node → Json
  | .leaf k t => Json.mkObj [("k", Json.str (kindStr k)), ("t", Json.str t)]
  | .un o a => Json.mkObj [("op", Json.str (op1Str o)), ("args", jlist [nodeJ a])]
  | .bin o a b => Json.mkObj [("op", Json.str (op2Str o)), ("args", jlist [nodeJ a, nodeJ b])]

def parsedJ : Parsed → Json
  | .empty => Json.mkObj [("empty", Json.bool true)]
  | .ast n => Json.mkObj [("ast", nodeJ n)]
  | .error c => Json.mkObj [("error", Json.str c)]

/-- the model's own parse of one string (tokenizer + shunting-yard over the live constraint table) -/
def modelParse (ci : Json) : Option Parsed := FormulaicVerif.Model.ConstraintParse.parse (charInfos ci)

/-- the parser as a parameter: a finite table string ↦ result, supplied by the harness -/
def parseFn (tbl : List (String × Parsed)) (s : String) : Parsed :=
  match tbl.find? (fun p => p.1 == s) with
  | some p => p.2
  | none => .error "not-supplied"

def specOf (j : Json) : Option Spec :=
  match jstr j "form" with
  | "str" => some (.str (jstr j "spec"))
  | "list" => some (.list (strs j "spec"))
  | "dict" => some (.dict ((jarr j "spec").map (fun kv =>
      match asArr kv with
      | [k, v] => (asStr k, ratOf (asStr v))
      | _ => ("", 0))))
  | _ => none

/-- error classes some evaluation schedule / set order could raise for one string -/
def altOne (names : List String) (p : Parsed) : List String :=
  match p with
  | .error c => [c]
  | .empty => []
  | .ast n => match toTermsAll n with
    | .error es => es.map Err.cls
    | .ok v => match rowsOf id names v.items with
      | .error e => [e.cls]
      | .ok _ => []

def altSpec (names : List String) (parse : String → Parsed) : Spec → List String
  | .str s => altOne names (parse s)
  | .list ss => altOne names (parse (",".intercalate ss))
  | .dict items =>
    match (items.map (fun kv => altOne names (parse kv.1))).find? (fun l => !l.isEmpty) with
    | some l => l
    | none => if items.isEmpty then ["ValueError"] else []

/-- request: {"names": [...], "form": "str"|"list"|"dict", "spec": ..., "parses": [[string, parsed], ...]} -/
def handleOne (j : Json) : Json :=
  let names := strs j "names"
  -- [string, parse reported by the real parser] (parser as a parameter), or
  -- [string, …, {s,w,sp}]: the model parses the string itself and the harness compares the two parses
  let tbl? : Option (List (String × Parsed)) := (jarr j "parses").mapM (fun kv =>
    match asArr kv with
    | [k, v] => (parsedOf v).map (fun p => (asStr k, p))
    | [k, _, ci] => (modelParse ci).map (fun p => (asStr k, p))
    | _ => none)
  match tbl?, specOf j with
  | some tbl, some spec =>
    let pm := ("pm", jlist (tbl.map (fun kv => jlist [Json.str kv.1, parsedJ kv.2])))
    match fromSpec id names (parseFn tbl) spec with
    | .ok (A, b) => Json.mkObj [("A", jlist (A.map (fun r => jstrs (r.map ratStr)))), ("b", jstrs (b.map ratStr)), pm]
    | .error e => Json.mkObj [("error", Json.str e.cls), ("alt", jstrs (altSpec names (parseFn tbl) spec)), pm]
  | _, _ => jerr "unmodelled"

/-- one request, or a history {"steps": [request, ...]}: the model is a pure function of
(names, spec, parse), so a history is answered step by step, independently -/
def handle (j : Json) : Json :=
  match j.getObjVal? "steps" with
  | .ok (.arr steps) => Json.mkObj [("steps", jlist (steps.toList.map handleOne))]
  | _ => handleOne j

end FormulaicVerif.Engines.C16
