import FormulaicVerif.Engines.Json
import FormulaicVerif.Model.Reuse
import FormulaicVerif.Gen.KindTable
/-! Engine `c09`: runs `Model.Reuse.replayWith` / `replayDerivedWith` (reuse of a recorded spec on a
follow-up frame) and `replayState` (what the application leaves in the spec).

request  {"apps": [application…]}   (a bare application is accepted as well)
application
         {"specs": [spec…], "frame": {"nrows": n, "cols": [{"name", "dtype", "cells", "categories"?}…]},
          "order": [expr…], "route": "pandas" | "narwhals" | "arrow",
          "overrides"?: {"na_action"?, "output"?, "efr"?},
          "derive"?: [{"op":"part","i"} | {"op":"subset","picks":[term index…]} |
                      {"op":"subset_all","picks":[[term index…]…]} | {"op":"pickle"}…],
          "fit_specs"?: [spec…], "derived"?: [spec…], "replay_on"?: "model" | "live"}  (see `handleOne`)
  spec   {"terms": [[{"expr","via","column","declared","value","contr"?,"levels"?}…]…],
          "structure": [{"scoped": [{"factors": [{"expr","reduced"}…], "scale": "p/q"}…], "columns": […]}…],
          "encoder_state": [{"expr","kind","levels": null | [val…]}…], "transform_state": [[k, v]…],
          "na_action", "efr", "output"}
  val    {"n": "p/q"} | {"s": "text"} | {"b": true|false} | null
  contr  see `contrOf`
The kind of a frame column is looked up in the GENERATED table `Gen.kindTable` by its dtype label, in the
column of the input route.
answer   {"apps": [answer…]};  answer = {"error": <exception class>} | {"results": [{"names","values","warn","branches","generated"}…]}
         with "derive": also "derived_diff": [field…] (empty = the live derived spec is the model's), or {"derive_error"}
         always with "pooled": the pooled factor expressions, "kinds": the kind per frame column,
         "spec_after": the encoder_state per spec after a successful application (null otherwise),
         "poly_checks": the model's unnormalised polynomial coding + norms2 per table of the parameter. -/
namespace FormulaicVerif.Engines.C09
open Lean FormulaicVerif.Model.Reuse FormulaicVerif.Engines

def ratOfString (s : String) : Rat :=
  match s.splitOn "/" with
  | [p] => (p.toInt?.getD 0 : Int)
  | [p, q] => mkRat (p.toInt?.getD 0) (q.toNat?.getD 1)
  | _ => 0

def ratStr (r : Rat) : String :=
  if r.den = 1 then toString r.num else toString r.num ++ "/" ++ toString r.den

def kindOf : String → Kind
  | "categorical" => .categorical
  | "constant" => .constant
  | _ => .numerical

def kindStr : Kind → String
  | .categorical => "categorical" | .numerical => "numerical" | .constant => "constant"

def optKindOf (j : Json) : Option Kind :=
  match j with
  | .str "categorical" => some .categorical
  | .str "numerical" => some .numerical
  | .str "constant" => some .constant
  | _ => none

def valOf (j : Json) : Cell :=
  match j.getObjVal? "n" with
  | .ok (.str q) => some (.num (ratOfString q))
  | _ =>
    match j.getObjVal? "s" with
    | .ok (.str s) => some (.str s)
    | _ =>
      match j.getObjVal? "b" with
      | .ok (.bool b) => some (.bool b)
      | _ => none

def levelsOf (j : Json) : Option (List Val) :=
  match j with
  | .arr a => some (a.toList.filterMap valOf)
  | _ => none

def ratsOf (j : Json) : List Rat := (asArr j).map (fun x => ratOfString (asStr x))

def optStrs (j : Json) : Option (List String) :=
  match j with
  | .arr a => some (a.toList.map asStr)
  | _ => none

/-- the `contrasts` argument of a `C(…)` call:
null | {"kind":"treatment","sas","base": val|null} | {"kind":"sum"} | {"kind":"helmert","reverse","scale"}
| {"kind":"diff","backward"} | {"kind":"poly","scores": null|[q…],"tables":[{"n","matrix":[[q…]…]}…]}
| {"kind":"custom","dict","ctor","vectors":[[q…]…],"keys":[s…],"names": null|[s…]} -/
def contrOf (j : Json) : Contr :=
  match jstr j "kind" with
  | "treatment" => .treatment (jbool j "sas") (valOf (jval j "base"))
  | "sum" => .sum
  | "helmert" => .helmert (jbool j "reverse") (jbool j "scale")
  | "diff" => .diff (jbool j "backward")
  | "poly" =>
    .poly (match jval j "scores" with | .arr a => some (ratsOf (.arr a)) | _ => none)
          ((jarr j "tables").map (fun t => (jnat t "n", (jarr t "matrix").map ratsOf)))
  | "custom" =>
    .custom { isDict := jbool j "dict", vectors := (jarr j "vectors").map ratsOf, keys := strs j "keys",
              names := optStrs (jval j "names"), viaCtor := jbool j "ctor" }
  | _ => .default

def factorOf (j : Json) : FactorDecl :=
  { expr := jstr j "expr"
    via := match jstr j "via" with
      | "cwrap" => .cwrap (contrOf (jval j "contr")) (levelsOf (jval j "levels"))
      | "literal" => .literal (ratOfString (jstr j "value"))
      | _ => .lookup
    column := jstr j "column"
    declared := optKindOf (jval j "declared") }

def scopedTermOf (j : Json) : ScopedTerm :=
  { factors := (jarr j "factors").map (fun f => ⟨jstr f "expr", jbool f "reduced"⟩)
    scale := ratOfString (jstr j "scale") }

def naOf : String → NaAction
  | "raise" => .raise | "ignore" => .ignore | _ => .drop

def outputOf : String → Output
  | "numpy" => .numpy | "sparse" => .sparse | "narwhals" => .narwhals | _ => .pandas

def specOf (j : Json) : Spec :=
  { terms := (jarr j "terms").map (fun t => (asArr t).map factorOf)
    structure_ := (jarr j "structure").map (fun t =>
      { scopedTerms := (jarr t "scoped").map scopedTermOf, columns := strs t "columns" })
    encoderState := (jarr j "encoder_state").map (fun e =>
      (jstr e "expr", { kind := kindOf (jstr e "kind"), levels := levelsOf (jval e "levels") }))
    transformState := (jarr j "transform_state").map (fun kv =>
      match asArr kv with | [k, v] => (asStr k, asStr v) | _ => ("", ""))
    naAction := naOf (jstr j "na_action")
    ensureFullRank := jbool j "efr"
    output := outputOf (jstr j "output") }

/-- `_is_categorical` on a column of this dtype, from the generated table: of the pandas materializer
(`route = "pandas"`), of the narwhals materializer on a pandas frame (`"narwhals"`) or on the pyarrow
table built from it (`"arrow"`) -/
def dtypeKind (route label : String) : Option Kind :=
  match FormulaicVerif.Gen.kindTable.find? (fun r => r.dtype == label) with
  | some r =>
    match (if route == "narwhals" then r.narwhalsKind else if route == "arrow" then r.arrowKind else r.pandasKind) with
    | .categorical => some .categorical
    | .numerical => some .numerical
    | .error => none
  | none => none

def frameOf (route : String) (j : Json) : Except String Frame := do
  let cols ← (jarr j "cols").mapM (fun c =>
    match dtypeKind route (jstr c "dtype") with
    | none => .error ("dtype not in Gen.kindTable: " ++ jstr c "dtype")
    | some k => .ok (jstr c "name",
        ({ kind := k, cells := (jarr c "cells").map valOf, cats := levelsOf (jval c "categories") } : NewCol)))
  return { nrows := jnat j "nrows", cols := cols }

def errName : Err → String
  | .factorEncoding => "FactorEncodingError"
  | .factorEvaluation => "FactorEvaluationError"
  | .valueError => "ValueError"
  | .runtimeError => "RuntimeError"
  | .keyError => "KeyError"
  | .typeError => "TypeError"
  | .indexError => "IndexError"

def cellJ : Option Rat → Json
  | none => Json.null
  | some q => Json.str (ratStr q)

def branchStr : Branch → String
  | .exact => "exact" | .zeroFill => "zero" | .broadcast => "broadcast"

def resultJ (r : Result) : Json :=
  Json.mkObj [
    ("names", jstrs r.names),
    ("values", jlist (r.cols.map (fun c => jlist (c.vals.map cellJ)))),
    ("warn", Json.bool r.warn),
    ("branches", jstrs (r.branches.map branchStr)),
    ("generated", jlist (r.generated.map jstrs))]

def stepOf (j : Json) : Step :=
  match jstr j "op" with
  | "part" => .part (jnat j "i")
  | "subset" => .subset ((jarr j "picks").map asNat)
  | "subset_all" => .subsetAll ((jarr j "picks").map (fun ps => (asArr ps).map asNat))
  | _ => .roundTrip

def overridesOf (j : Json) : Overrides :=
  { naAction := match jval j "na_action" with | .str v => some (naOf v) | _ => none
    output := match jval j "output" with | .str v => some (outputOf v) | _ => none
    ensureFullRank := match jval j "efr" with | .bool b => some b | _ => none }

/-- which recorded field of a derived spec differs between the model's derivation and the live object -/
def specDiff (m l : Spec) : List String :=
  (if m.terms = l.terms then [] else ["formula terms"]) ++
  (if m.structure_ = l.structure_ then [] else ["structure"]) ++
  (if m.encoderState = l.encoderState then []
   else ["encoder_state (model keeps " ++ toString (m.encoderState.map (·.1)) ++ ", live has "
         ++ toString (l.encoderState.map (·.1)) ++ ")"]) ++
  (if m.transformState = l.transformState then [] else ["transform_state"]) ++
  (if m.naAction = l.naAction ∧ m.ensureFullRank = l.ensureFullRank ∧ m.output = l.output then []
   else ["na_action/ensure_full_rank/output"])

def specsDiff (ms ls : List Spec) : List String :=
  if ms.length ≠ ls.length then ["number of specs"]
  else (ms.zip ls).flatMap (fun p => specDiff p.1 p.2)

def valJ : Val → Json
  | .num q => Json.mkObj [("n", Json.str (ratStr q))]
  | .str t => Json.mkObj [("s", Json.str t)]
  | .bool b => Json.mkObj [("b", Json.bool b)]

/-- the `encoder_state` of a spec in the request's own format -/
def encStateJ (s : Spec) : Json :=
  jlist (s.encoderState.map (fun kr => Json.mkObj [
    ("expr", Json.str kr.1), ("kind", Json.str (kindStr kr.2.kind)),
    ("levels", match kr.2.levels with | none => Json.null | some ls => jlist (ls.map valJ))]))

def ratsJ (l : List Rat) : Json := jlist (l.map (fun q => Json.str (ratStr q)))

/-- for every `contr.poly` factor and every level count its parameter table covers: the model's own
UNNORMALISED coding matrix and `norms2`, so that the harness can check the contract of the parameter
(`table[i][j] · sqrt(norms2[j]) = raw[i][j]`) -/
def polyChecks (specs : List Spec) : Json :=
  jlist ((pooledFactors specs).flatMap (fun d =>
    match d.via with
    | .cwrap (.poly scores tables) _ =>
      tables.filterMap (fun t =>
        let labels := List.replicate t.1 (FormulaicVerif.Model.Contrasts.Label.int 0)
        match FormulaicVerif.Model.Contrasts.rawCodingMatrix (.poly scores) labels true,
              FormulaicVerif.Model.Contrasts.codingNorms2 (.poly scores) labels true with
        | .ok raw, .ok n2 => some (Json.mkObj [("expr", Json.str d.expr), ("n", Json.num t.1),
            ("raw", jlist (raw.map ratsJ)), ("norms2", ratsJ n2)])
        | _, _ => none)
    | _ => []))

def answer (specs : List Spec) (fr : Frame) (order : List String) (run : Except Err (List Result))
    (extra : List (String × Json)) : Json :=
  let after : Json :=
    match replayState specs fr order with
    | .ok (_, ss) => jlist (ss.map encStateJ)
    | .error _ => Json.null
  let extra := extra ++ [
    ("pooled", jstrs ((pooledFactors specs).map (·.expr))),
    ("kinds", jlist (fr.cols.map (fun c => jstrs [c.1, kindStr c.2.kind]))),
    ("spec_after", after),
    ("poly_checks", polyChecks specs)]
  match run with
  | .error e => Json.mkObj (("error", Json.str (errName e)) :: extra)
  | .ok rs => Json.mkObj (("results", jlist (rs.map resultJ)) :: extra)

/-- one application of recorded spec(s) to a follow-up frame.
without `"derive"`: `replayWith overrides` on `"specs"`. With `"derive"` (a history between fit and reuse,
possibly empty): the model derives the spec(s) itself from `"fit_specs"` (`Model.Reuse.derive`), reports
how they differ from the live derived spec(s) `"derived"`, and — `"replay_on": "model"` — replays ITS OWN
derived specs (`replayDerivedWith`); `"replay_on": "live"` (the derived spec was hand-edited afterwards)
replays `"specs"`. `"route"` selects the column of the generated kind table. -/
def handleOne (j : Json) : Json :=
  match frameOf (jstr j "route") (jval j "frame") with
  | .error e => jerr ("bad-request: " ++ e)
  | .ok fr =>
    let specs := (jarr j "specs").map specOf
    let order := strs j "order"
    let ov := overridesOf (jval j "overrides")
    match j.getObjVal? "derive" with
    | .ok (.arr steps) =>
      let fit := (jarr j "fit_specs").map specOf
      let live := (jarr j "derived").map specOf
      let steps := steps.toList.map stepOf
      match derive fit steps with
      | .error e => Json.mkObj [("derive_error", Json.str (errName e))]
      | .ok ds =>
        let extra := [("derived_diff", jstrs (specsDiff ds live))]
        if jstr j "replay_on" == "live" then
          answer (specs.map ov.apply) fr order (replayWith ov specs fr order) extra
        else answer (ds.map ov.apply) fr order (replayDerivedWith ov fit steps fr order) extra
    | _ => answer (specs.map ov.apply) fr order (replayWith ov specs fr order) []

/-- `{"apps": [application…]}` → `{"apps": [answer…]}`; a bare application is answered directly -/
def handle (j : Json) : Json :=
  match j.getObjVal? "apps" with
  | .ok (.arr apps) => Json.mkObj [("apps", jlist (apps.toList.map handleOne))]
  | _ => handleOne j

end FormulaicVerif.Engines.C09
