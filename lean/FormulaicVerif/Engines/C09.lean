import FormulaicVerif.Engines.Json
import FormulaicVerif.Model.Reuse
import FormulaicVerif.Gen.KindTable
/-! Engine `c09`: runs `Model.Reuse.replay` (reuse of a recorded spec on a follow-up frame).

request  {"specs": [spec…], "frame": {"nrows": n, "cols": [{"name", "dtype", "cells", "categories"?}…]}, "order": [expr…]}
  spec   {"terms": [[{"expr","via","column","declared","value"}…]…],
          "structure": [{"scoped": [{"factors": [{"expr","reduced"}…], "scale": "p/q"}…], "columns": […]}…],
          "encoder_state": [{"expr","kind","levels": null | [val…]}…], "transform_state": [[k, v]…],
          "na_action", "efr", "output"}
  val    {"n": "p/q"} | {"s": "text"} | {"b": true|false} | null
The kind of a frame column is looked up in the GENERATED table `Gen.kindTable` (pandas
materializer) by its dtype label.
optional {"derive": [{"op":"part","i"} | {"op":"subset","picks":[term index…]} | {"op":"pickle"}…],
          "fit_specs": [spec…], "derived": [spec…], "replay_on": "model" | "live"}  (see `handle`)
answer   {"error": <exception class>} | {"results": [{"names","values","warn","branches","generated"}…]}
         with "derive": also "derived_diff": [field…] (empty = the live derived spec is the model's), or {"derive_error"}
         always with "pooled": the pooled factor expressions and "kinds": the kind per frame column. -/
namespace FormulaicVerif.Engines.C09
open Lean FormulaicVerif.Model.Reuse FormulaicVerif.Engines

def ratOfString (s : String) : Rat :=
  match s.splitOn "/" with
  | [p] => (p.toInt?.getD 0 : Int)
  | [p, q] => mkRat (p.toInt?.getD 0) (q.toNat?.getD 1)
  | _ => 0

def ratStr (r : Rat) : String :=
  if r.den = 1 then toString r.num else toString r.num ++ "/" ++ toString r.den

def kindOf : String → Kind
  | "categorical" => .categorical
  | "constant" => .constant
  | _ => .numerical

def kindStr : Kind → String
  | .categorical => "categorical" | .numerical => "numerical" | .constant => "constant"

def optKindOf (j : Json) : Option Kind :=
  match j with
  | .str "categorical" => some .categorical
  | .str "numerical" => some .numerical
  | .str "constant" => some .constant
  | _ => none

def valOf (j : Json) : Cell :=
  match j.getObjVal? "n" with
  | .ok (.str q) => some (.num (ratOfString q))
  | _ =>
    match j.getObjVal? "s" with
    | .ok (.str s) => some (.str s)
    | _ =>
      match j.getObjVal? "b" with
      | .ok (.bool b) => some (.bool b)
      | _ => none

def levelsOf (j : Json) : Option (List Val) :=
  match j with
  | .arr a => some (a.toList.filterMap valOf)
  | _ => none

def factorOf (j : Json) : FactorDecl :=
  { expr := jstr j "expr"
    via := match jstr j "via" with
      | "cwrap" => .cwrap
      | "literal" => .literal (ratOfString (jstr j "value"))
      | _ => .lookup
    column := jstr j "column"
    declared := optKindOf (jval j "declared") }

def scopedTermOf (j : Json) : ScopedTerm :=
  { factors := (jarr j "factors").map (fun f => ⟨jstr f "expr", jbool f "reduced"⟩)
    scale := ratOfString (jstr j "scale") }

def naOf : String → NaAction
  | "raise" => .raise | "ignore" => .ignore | _ => .drop

def outputOf : String → Output
  | "numpy" => .numpy | "sparse" => .sparse | _ => .pandas

def specOf (j : Json) : Spec :=
  { terms := (jarr j "terms").map (fun t => (asArr t).map factorOf)
    structure_ := (jarr j "structure").map (fun t =>
      { scopedTerms := (jarr t "scoped").map scopedTermOf, columns := strs t "columns" })
    encoderState := (jarr j "encoder_state").map (fun e =>
      (jstr e "expr", { kind := kindOf (jstr e "kind"), levels := levelsOf (jval e "levels") }))
    transformState := (jarr j "transform_state").map (fun kv =>
      match asArr kv with | [k, v] => (asStr k, asStr v) | _ => ("", ""))
    naAction := naOf (jstr j "na_action")
    ensureFullRank := jbool j "efr"
    output := outputOf (jstr j "output") }

/-- `_is_categorical` of the pandas materializer on a column of this dtype, from the generated table -/
def dtypeKind (label : String) : Option Kind :=
  match FormulaicVerif.Gen.kindTable.find? (fun r => r.dtype == label) with
  | some r =>
    match r.pandasKind with
    | .categorical => some .categorical
    | .numerical => some .numerical
    | .error => none
  | none => none

def frameOf (j : Json) : Except String Frame := do
  let cols ← (jarr j "cols").mapM (fun c =>
    match dtypeKind (jstr c "dtype") with
    | none => .error ("dtype not in Gen.kindTable: " ++ jstr c "dtype")
    | some k => .ok (jstr c "name",
        ({ kind := k, cells := (jarr c "cells").map valOf, cats := levelsOf (jval c "categories") } : NewCol)))
  return { nrows := jnat j "nrows", cols := cols }

def errName : Err → String
  | .factorEncoding => "FactorEncodingError"
  | .factorEvaluation => "FactorEvaluationError"
  | .valueError => "ValueError"
  | .runtimeError => "RuntimeError"
  | .keyError => "KeyError"
  | .typeError => "TypeError"

def cellJ : Option Rat → Json
  | none => Json.null
  | some q => Json.str (ratStr q)

def branchStr : Branch → String
  | .exact => "exact" | .zeroFill => "zero" | .broadcast => "broadcast"

def resultJ (r : Result) : Json :=
  Json.mkObj [
    ("names", jstrs r.names),
    ("values", jlist (r.cols.map (fun c => jlist (c.vals.map cellJ)))),
    ("warn", Json.bool r.warn),
    ("branches", jstrs (r.branches.map branchStr)),
    ("generated", jlist (r.generated.map jstrs))]

def stepOf (j : Json) : Step :=
  match jstr j "op" with
  | "part" => .part (jnat j "i")
  | "subset" => .subset ((jarr j "picks").map asNat)
  | _ => .roundTrip

/-- which recorded field of a derived spec differs between the model's derivation and the live object -/
def specDiff (m l : Spec) : List String :=
  (if m.terms = l.terms then [] else ["formula terms"]) ++
  (if m.structure_ = l.structure_ then [] else ["structure"]) ++
  (if m.encoderState = l.encoderState then []
   else ["encoder_state (model keeps " ++ toString (m.encoderState.map (·.1)) ++ ", live has "
         ++ toString (l.encoderState.map (·.1)) ++ ")"]) ++
  (if m.transformState = l.transformState then [] else ["transform_state"]) ++
  (if m.naAction = l.naAction ∧ m.ensureFullRank = l.ensureFullRank ∧ m.output = l.output then []
   else ["na_action/ensure_full_rank/output"])

def specsDiff (ms ls : List Spec) : List String :=
  if ms.length ≠ ls.length then ["number of specs"]
  else (ms.zip ls).flatMap (fun p => specDiff p.1 p.2)

def answer (specs : List Spec) (fr : Frame) (run : Except Err (List Result)) (extra : List (String × Json)) : Json :=
  let extra := extra ++ [
    ("pooled", jstrs ((pooledFactors specs).map (·.expr))),
    ("kinds", jlist (fr.cols.map (fun c => jstrs [c.1, kindStr c.2.kind])))]
  match run with
  | .error e => Json.mkObj (("error", Json.str (errName e)) :: extra)
  | .ok rs => Json.mkObj (("results", jlist (rs.map resultJ)) :: extra)

/-- without `"derive"`: `replay` on `"specs"`. With `"derive"` (a history between fit and reuse):
the model derives the spec(s) itself from `"fit_specs"` (`Model.Reuse.derive`), reports how they
differ from the live derived spec(s) `"derived"`, and — `"replay_on": "model"` — replays ITS OWN
derived specs (`replayDerived`); `"replay_on": "live"` (the derived spec was hand-edited afterwards)
replays `"specs"`. -/
def handle (j : Json) : Json :=
  match frameOf (jval j "frame") with
  | .error e => jerr ("bad-request: " ++ e)
  | .ok fr =>
    let specs := (jarr j "specs").map specOf
    let order := strs j "order"
    match j.getObjVal? "derive" with
    | .ok (.arr steps) =>
      let fit := (jarr j "fit_specs").map specOf
      let live := (jarr j "derived").map specOf
      let steps := steps.toList.map stepOf
      match derive fit steps with
      | .error e => Json.mkObj [("derive_error", Json.str (errName e))]
      | .ok ds =>
        let extra := [("derived_diff", jstrs (specsDiff ds live))]
        if jstr j "replay_on" == "live" then answer specs fr (replay specs fr order) extra
        else answer ds fr (replayDerived fit steps fr order) extra
    | _ => answer specs fr (replay specs fr order) []

end FormulaicVerif.Engines.C09
