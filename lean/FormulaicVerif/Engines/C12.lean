import FormulaicVerif.Engines.Json
import FormulaicVerif.Model.BSpline
import FormulaicVerif.Model.CubicSpline
import FormulaicVerif.Model.SplineEntry
import FormulaicVerif.Model.SplineSolve
/-! Correspondence engine for C12: runs the executable models of `basis_spline` (`op = "bs"`) and
`cubic_spline` (`op = "cs"`), and histories of such uses (`op = "uses"`).  Rationals travel as `"p/q"` strings (exact: every float the
implementation produces is a dyadic rational). -/
namespace FormulaicVerif.Engines.C12
open Lean FormulaicVerif.Model FormulaicVerif.Engines

def ratOfStr (s : String) : Rat :=
  match s.splitOn "/" with
  | [p] => Rat.ofInt (p.toInt?.getD 0)
  | [p, q] => mkRat (p.toInt?.getD 0) (q.toNat?.getD 1)
  | _ => 0

def ratOf : Json → Rat
  | .str s => ratOfStr s
  | j => Rat.ofInt (asInt j)

def optRat : Json → Option Rat
  | .null => none
  | j => some (ratOf j)

def ratJ (r : Rat) : Json := .str (toString r.num ++ "/" ++ toString r.den)
def ratsJ (l : List Rat) : Json := jlist (l.map ratJ)
def rowJ : Option (List Rat) → Json
  | none => .null
  | some r => ratsJ r
def rats (j : Json) (k : String) : List Rat := (jarr j k).map ratOf
def optRats (j : Json) (k : String) : Option (List Rat) :=
  match jval j k with
  | .arr a => some (a.toList.map ratOf)
  | _ => none
def optXs (j : Json) (k : String) : Option (List (Option Rat)) :=
  match jval j k with
  | .arr a => some (a.toList.map optRat)
  | _ => none
def matOf (j : Json) (k : String) : List (List Rat) := (jarr j k).map (fun r => (asArr r).map ratOf)
def optMat (j : Json) (k : String) : Option (List (List Rat)) :=
  match jval j k with
  | .arr a => some (a.toList.map (fun r => (asArr r).map ratOf))
  | _ => none

/-! ## shared decoding -/
open BSpline (Mode) in
def reasonJ (r : SplineEntry.Reason) : Json :=
  Json.mkObj [("error", Json.str r.cls), ("reason", Json.str (reprStr r))]

def optInt : Json → Option Int
  | .null => none
  | d => some (asInt d)

def shapeOf : String → SplineEntry.XShape
  | "scalar" => .scalar | "col" => .col | "mat" => .mat | "cube" => .cube | _ => .vec

/-- `null` = `None`; `{"str": s}`; `{"ndim": k, "rows": [[…]]}` -/
def consOf (j : Json) : SplineEntry.ConsArg :=
  match j with
  | .null => .none
  | c =>
    match c.getObjVal? "str" with
    | .ok (.str s) => .str s
    | _ => .arr (jnat c "ndim") (matOf c "rows")

/-! ## basis_spline -/
section bs
open BSpline SplineEntry

def outJ (o : Output) : Json :=
  Json.mkObj [("cols", jlist (o.cols.map (fun (n : Nat) => Json.num n))), ("rows", jlist (o.rows.map rowJ))]

def stateJ (st : State) : Json :=
  Json.mkObj [("lower", ratJ st.lower), ("upper", ratJ st.upper), ("knots", ratsJ st.knots)]

/-- the call as written; an omitted argument (`null`) takes the default of the generated
signature table.  `via` names the TRANSFORMS alias the call goes through. -/
def rawBsOf (j : Json) : RawBs := {
  x := (jarr j "x").map optRat
  df := match jval j "df" with | .null => Gen.Spline.bsDf | d => some (asInt d)
  knots := optRats j "knots"
  degree := match jval j "degree" with | .null => Gen.Spline.bsDegree | d => asInt d
  intercept := match jval j "intercept" with | .null => Gen.Spline.bsIntercept | b => asBool b
  lower := match jval j "lower" with | .null => Gen.Spline.bsLower | v => some (ratOf v)
  upper := match jval j "upper" with | .null => Gen.Spline.bsUpper | v => some (ratOf v)
  mode := match jval j "mode" with | .null => Gen.Spline.bsMode | m => asStr m }

def handleBs (j : Json) : Json :=
  let aliasOk : Bool := match jval j "via" with
    | .null => true
    | v => (match resolveAlias (asStr v) with | some (f, _) => f == "basis_spline" | none => false)
  if !aliasOk then jerr "unknown-alias" else
  let r := rawBsOf j
  -- the quantile PARAMETER: the implementation's interior knots when it recorded a state; when it
  -- did not (the call failed), the model's own exact quantiles
  let qf : List Rat → Nat → List Rat := match jval j "quant" with
    | .null => quantLin
    | _ => fun _ _ => rats j "quant"
  -- the recorded state predicted by the model alone (quantile knots computed exactly)
  let exact : Json := match prepareBs r quantLin with
    | .error e => reasonJ e
    | .ok (st, _) => stateJ st
  match basisSpline r qf with
  | .error e => (reasonJ e).setObjVal! "exact" exact
  | .ok (st, out) =>
    -- what the quantile routine was (or would have been) asked for
    let mode := (parseMode r.mode).getD .raise
    let s := knotsSample mode st.lower st.upper r.x
    let second : Json := match optXs j "x2" with
      | none => .null
      | some x2 => match transformBs st r.degree r.intercept r.mode x2 with
        | .error e => reasonJ e
        | .ok o => outJ o
    Json.mkObj [
      ("state", stateJ st), ("first", outJ out), ("second", second), ("sample", ratsJ s.1),
      ("exact", exact)]
end bs

/-! ## cubic_spline -/
section cs
open CubicSpline SplineEntry

def csOutJ (o : CubicSpline.Output) : Json :=
  Json.mkObj [("ncols", Json.num o.ncols), ("rows", jlist (o.rows.map rowJ))]

def csStateJ (st : CubicSpline.State) : Json :=
  Json.mkObj [("lower", ratJ st.lower), ("upper", ratJ st.upper), ("knots", ratsJ st.knots),
    ("cyclic", Json.bool st.cyclic),
    ("constraints", match st.constraints with | none => .null | some c => jlist (c.map ratsJ))]

/-- the call as written.  `via` = `null`: `cubic_spline` itself; otherwise the TRANSFORMS alias,
whose `functools.partial` preset of `cyclic` applies unless the call passes `cyclic` itself. -/
def rawCsOf (j : Json) : Option RawCs :=
  let preset : Option (Option Bool) := match jval j "via" with
    | .null => some none
    | v => (match resolveAlias (asStr v) with
      | some (f, c) => if f == "cubic_spline" then some c else none
      | none => none)
  match preset with
  | none => none
  | some pc => some {
      xshape := shapeOf (jstr j "xshape")
      x := (jarr j "x").map optRat
      df := match jval j "df" with | .null => Gen.Spline.csDf | d => some (asInt d)
      knots := optRats j "knots"
      lower := match jval j "lower" with | .null => Gen.Spline.csLower | v => some (ratOf v)
      upper := match jval j "upper" with | .null => Gen.Spline.csUpper | v => some (ratOf v)
      cons := consOf (jval j "cons")
      cyclic := match jval j "cyclic" with
        | .null => (match pc with | some c => c | none => Gen.Spline.csCyclic)
        | b => asBool b
      mode := match jval j "mode" with | .null => Gen.Spline.csMode | m => asStr m }

/-- the second-derivative map the model solves for (exact, certified by `solveF`); the empty
matrix when the solver fails, which surfaces as a disagreement -/
def modelF (knots : List Rat) (cyclic : Bool) : List (List Rat) :=
  match SplineSolve.solveF knots cyclic with
  | some F => F
  | none => []

def handleCs (j : Json) : Json :=
  match rawCsOf j with
  | none => jerr "unknown-alias"
  | some r =>
    let qf : List Rat → Nat → List Rat := match jval j "quant" with
      | .null => quantLin
      | _ => fun _ _ => rats j "quant"
    -- the implementation's F: only its contract residual is computed from it (diagnostic); the
    -- rows are evaluated with the F the model solves for EXACTLY on the recorded knots
    let Fimpl := matOf j "F"
    let getF : List Rat → List (List Rat) := fun k => modelF k r.cyclic
    let Q2 := matOf j "Q2"
    let exact : Json := match prepareCs r quantLin with
      | .error e => reasonJ e
      | .ok p => Json.mkObj [("lower", ratJ p.lower), ("upper", ratJ p.upper), ("knots", ratsJ p.knots)]
    match cubicSpline r qf getF (fun _ => Q2) with
    | .error e => (reasonJ e).setObjVal! "exact" exact
    | .ok (st, out) =>
      let F := getF st.knots
      let second : Json := match optXs j "x2" with
        | none => .null
        | some x2 => match transformState st (shapeOf (jstr j "x2shape")) x2 r.mode F Q2 with
          | .error e => reasonJ e
          | .ok o => csOutJ o
      let xs := match reformatX r.xshape r.x with | .ok xs => xs | .error _ => []
      Json.mkObj [
        ("state", csStateJ st), ("first", csOutJ out), ("second", second),
        ("sample", ratsJ (CubicSpline.knotsSample st.lower st.upper xs)),
        ("exact", exact),
        ("F", jlist (F.map ratsJ)),
        ("solved", Json.bool (SplineSolve.solveF st.knots st.cyclic).isSome),
        -- residuals of the contracts, exact: B·F − D on the implementation's F, and Q₂ᵀ·cᵀ
        ("resF", jlist ((CubicSpline.residualF st.knots st.cyclic Fimpl).map ratsJ)),
        ("resQ", match st.constraints with
          | none => .null
          | some c => jlist ((CubicSpline.residualQ c Q2).map ratsJ))]

/-- `op = "cs_state"`: `cubic_spline(x, …, _state=<given>)` -/
def handleCsState (j : Json) : Json :=
  let sj := jval j "state"
  let st : CubicSpline.State := {
    lower := ratOf (jval sj "lower"), upper := ratOf (jval sj "upper"), knots := rats sj "knots",
    cyclic := jbool sj "cyclic", constraints := optMat sj "constraints" }
  let Fimpl := matOf j "F"
  let F := modelF st.knots st.cyclic
  let Q2 := matOf j "Q2"
  match transformState st (shapeOf (jstr j "xshape")) ((jarr j "x").map optRat)
      (match jval j "mode" with | .null => Gen.Spline.csMode | m => asStr m) F Q2 with
  | .error e => reasonJ e
  | .ok o => Json.mkObj [("out", csOutJ o), ("F", jlist (F.map ratsJ)),
      ("resF", jlist ((CubicSpline.residualF st.knots st.cyclic Fimpl).map ratsJ)),
      ("resQ", match st.constraints with
        | none => .null
        | some c => jlist ((CubicSpline.residualQ c Q2).map ratsJ))]

/-- `op = "helper"`: the module-level helpers of cubic_spline.py called directly -/
def handleHelper (j : Json) : Json :=
  match jstr j "fn" with
  | "map_cyclic" =>
    match mapCyclicAll (rats j "x") (ratOf (jval j "lb")) (ratOf (jval j "ub")) with
    | .error e => reasonJ e
    | .ok v => Json.mkObj [("out", ratsJ v)]
  | "sorted_knots" =>
    let lower := ratOf (jval j "lower")
    let upper := ratOf (jval j "upper")
    let xs := (jarr j "x").map optRat
    match sortedKnots (CubicSpline.knotsSample lower upper xs) lower upper (optInt (jval j "n_inner"))
        (optRats j "inner") quantLin with
    | .error e => reasonJ e
    | .ok k => Json.mkObj [("out", ratsJ k)]
  | "base" =>
    let knots := rats j "knots"
    let one (x : Rat) : Json := match CubicSpline.baseFunctions knots x with
      | .error e => reasonJ (.inner e)
      | .ok b => Json.mkObj [("ajm", ratJ b.ajm), ("ajp", ratJ b.ajp), ("cjm", ratJ b.cjm),
          ("cjp", ratJ b.cjp), ("j", Json.num b.j)]
    Json.mkObj [("out", jlist ((rats j "x").map one))]
  | f => jerr ("unknown helper " ++ f)
end cs

def handleOne (j : Json) : Json :=
  match jstr j "op" with
  | "bs" => handleBs j
  | "cs" => handleCs j
  | "cs_state" => handleCsState j
  | "helper" => handleHelper j
  | o => jerr ("unknown op " ++ o)

/-- `op = "uses"`: a HISTORY of uses of the transforms (several terms of one formula, successive
model-matrix calls, repeated direct calls) that were all handed the same argument objects.  The
model of a transform is a function of the arguments the user wrote and of that use's data only, so
the answer to a history is the list of the independent answers: no use can see an earlier one. -/
def handle (j : Json) : Json :=
  match jstr j "op" with
  | "uses" => Json.mkObj [("uses", jlist ((jarr j "uses").map handleOne))]
  | _ => handleOne j

end FormulaicVerif.Engines.C12
