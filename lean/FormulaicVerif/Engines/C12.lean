import FormulaicVerif.Engines.Json
import FormulaicVerif.Model.BSpline
import FormulaicVerif.Model.CubicSpline
/-! Correspondence engine for C12: runs the executable models of `basis_spline` (`op = "bs"`) and
`cubic_spline` (`op = "cs"`), and histories of such uses (`op = "uses"`).  Rationals travel as `"p/q"` strings (exact: every float the
implementation produces is a dyadic rational). -/
namespace FormulaicVerif.Engines.C12
open Lean FormulaicVerif.Model FormulaicVerif.Engines

def ratOfStr (s : String) : Rat :=
  match s.splitOn "/" with
  | [p] => Rat.ofInt (p.toInt?.getD 0)
  | [p, q] => mkRat (p.toInt?.getD 0) (q.toNat?.getD 1)
  | _ => 0

def ratOf : Json → Rat
  | .str s => ratOfStr s
  | j => Rat.ofInt (asInt j)

def optRat : Json → Option Rat
  | .null => none
  | j => some (ratOf j)

def ratJ (r : Rat) : Json := .str (toString r.num ++ "/" ++ toString r.den)
def ratsJ (l : List Rat) : Json := jlist (l.map ratJ)
def rowJ : Option (List Rat) → Json
  | none => .null
  | some r => ratsJ r
def rats (j : Json) (k : String) : List Rat := (jarr j k).map ratOf
def optRats (j : Json) (k : String) : Option (List Rat) :=
  match jval j k with
  | .arr a => some (a.toList.map ratOf)
  | _ => none
def optXs (j : Json) (k : String) : Option (List (Option Rat)) :=
  match jval j k with
  | .arr a => some (a.toList.map optRat)
  | _ => none
def matOf (j : Json) (k : String) : List (List Rat) := (jarr j k).map (fun r => (asArr r).map ratOf)
def optMat (j : Json) (k : String) : Option (List (List Rat)) :=
  match jval j k with
  | .arr a => some (a.toList.map (fun r => (asArr r).map ratOf))
  | _ => none

/-! ## basis_spline -/
section bs
open BSpline

def modeOf : String → Mode
  | "clip" => .clip | "na" => .na | "zero" => .zero | "extend" => .extend | _ => .raise

def errJ : Err → Json
  | .valueError => jerr "ValueError"
  | .noData => jerr "not-modelled:no-data"

def outJ (o : Output) : Json :=
  Json.mkObj [("cols", jlist (o.cols.map (fun (n : Nat) => Json.num n))), ("rows", jlist (o.rows.map rowJ))]

def handleBs (j : Json) : Json :=
  let a : Args := {
    df := match jval j "df" with | .null => none | d => some (asInt d)
    knots := optRats j "knots"
    degree := jnat j "degree"
    intercept := jbool j "intercept"
    lower := optRat (jval j "lower")
    upper := optRat (jval j "upper")
    mode := modeOf (jstr j "mode") }
  let xs := (jarr j "x").map optRat
  let q := rats j "quant"
  match fit a xs (fun _ _ => q) with
  | .error e => errJ e
  | .ok (st, out) =>
    -- what the quantile routine was (or would have been) asked for
    let s := knotsSample a.mode st.lower st.upper xs
    let second : Json := match optXs j "x2" with
      | none => .null
      | some x2 => match transform st a.degree a.intercept a.mode x2 with
        | .error e => errJ e
        | .ok o => outJ o
    Json.mkObj [
      ("state", Json.mkObj [("lower", ratJ st.lower), ("upper", ratJ st.upper), ("knots", ratsJ st.knots)]),
      ("first", outJ out), ("second", second), ("sample", ratsJ s.1)]
end bs

/-! ## cubic_spline -/
section cs
open CubicSpline

def csErrJ : CubicSpline.Err → Json
  | .valueError => jerr "ValueError"
  | .index => jerr "IndexError"
  | .noData => jerr "not-modelled:no-data"

def csOutJ (o : CubicSpline.Output) : Json :=
  Json.mkObj [("ncols", Json.num o.ncols), ("rows", jlist (o.rows.map rowJ))]

def handleCs (j : Json) : Json :=
  let a : CubicSpline.Args := {
    df := match jval j "df" with | .null => none | d => some (asInt d)
    knots := optRats j "knots"
    lower := optRat (jval j "lower")
    upper := optRat (jval j "upper")
    constraints := match jval j "constraints" with
      | .null => .none
      | .str _ => .center
      | _ => .matrix (matOf j "constraints")
    cyclic := jbool j "cyclic"
    mode := modeOf (jstr j "mode") }
  let xs := (jarr j "x").map optRat
  let q := rats j "quant"
  let F := matOf j "F"
  let Q2 := matOf j "Q2"
  match CubicSpline.fit a xs (fun _ _ => q) (fun _ => F) (fun _ => Q2) with
  | .error e => csErrJ e
  | .ok (st, out) =>
    let second : Json := match optXs j "x2" with
      | none => .null
      | some x2 => match CubicSpline.transform st a.mode x2 F Q2 with
        | .error e => csErrJ e
        | .ok o => csOutJ o
    Json.mkObj [
      ("state", Json.mkObj [("lower", ratJ st.lower), ("upper", ratJ st.upper), ("knots", ratsJ st.knots),
        ("cyclic", Json.bool st.cyclic),
        ("constraints", match st.constraints with | none => .null | some c => jlist (c.map ratsJ))]),
      ("first", csOutJ out), ("second", second),
      ("sample", ratsJ (CubicSpline.knotsSample st.lower st.upper xs)),
      -- residuals of the parameter contracts, exact: B·F − D and Q₂ᵀ·cᵀ
      ("resF", jlist ((CubicSpline.residualF st.knots st.cyclic F).map ratsJ)),
      ("resQ", match st.constraints with
        | none => .null
        | some c => jlist ((CubicSpline.residualQ c Q2).map ratsJ))]
end cs

def handleOne (j : Json) : Json :=
  match jstr j "op" with
  | "bs" => handleBs j
  | "cs" => handleCs j
  | o => jerr ("unknown op " ++ o)

/-- `op = "uses"`: a HISTORY of uses of the transforms (several terms of one formula, successive
model-matrix calls, repeated direct calls) that were all handed the same argument objects.  The
model of a transform is a function of the arguments the user wrote and of that use's data only, so
the answer to a history is the list of the independent answers: no use can see an earlier one. -/
def handle (j : Json) : Json :=
  match jstr j "op" with
  | "uses" => Json.mkObj [("uses", jlist ((jarr j "uses").map handleOne))]
  | _ => handleOne j

end FormulaicVerif.Engines.C12
