import FormulaicVerif.Engines.Json
import FormulaicVerif.Engines.C02
import FormulaicVerif.Model.Parts
import FormulaicVerif.Model.PartsHist
import FormulaicVerif.Gen.Materializers
/-! Engine `c07`: runs the executable model `Model/Parts.lean` (joint materialisation of a
structured formula) on one request.

request `{"op":"joint", "n", "caller":[…], "order":[…], "efr", "cluster", "asdict", "variant",
"tree": {"node":[[key, tree]…]} | {"tup":[tree…]} | {"leaf":{"terms":[[expr…]…],"state":[[k,v]…]}},
"factors":[C02 factor objects + "nulls":[…], "writes":[[k,v]…] | {"expr","error"}], "droplist":[…]}`

The evaluation / encoder parameters of the model are instantiated with the tables of the request
(what the implementation's `_evaluate_factor` and encoders returned on this case): `eval` looks the
expression up, `encode` answers only for the drop list the encodings were computed under. -/
namespace FormulaicVerif.Engines.C07
open Lean FormulaicVerif.Model FormulaicVerif.Model.Parts FormulaicVerif.Engines

abbrev V := St.Val

def kvsOf (j : Json) : List (String × String) :=
  (asArr j).map (fun p => match asArr p with | [k, v] => (asStr k, asStr v) | _ => ("", ""))
def kvsJ (s : List (String × String)) : Json := jlist (s.map (fun kv => jlist [Json.str kv.1, Json.str kv.2]))
def natsOf (j : Json) : List Nat := (asArr j).map asNat
def natJ (n : Nat) : Json := Json.num (JsonNumber.fromNat n)
def natsJ (l : List Nat) : Json := jlist (l.map natJ)

def specOf (j : Json) : Spec String :=
  ⟨(jarr j "terms").map (fun t => (asArr t).map asStr), none, kvsOf (jval j "state")⟩

partial def treeOf (j : Json) : V (Spec String) :=
  match j.getObjVal? "node" with
  | .ok n => .node ((asArr n).map (fun p => match asArr p with | [k, v] => (asStr k, treeOf v) | _ => ("", .tup [])))
  | .error _ =>
    match j.getObjVal? "tup" with
    | .ok t => .tup ((asArr t).map treeOf)
    | .error _ => .leaf (specOf (jval j "leaf"))

/-- the tree with its leaves replaced by their index in `_flatten` order -/
partial def indexTree {α} (v : V α) (i : Nat) : Json × Nat :=
  match v with
  | .leaf _ => (Json.mkObj [("leaf", natJ i)], i + 1)
  | .tup vs =>
    let r := vs.foldl (fun (acc : List Json × Nat) x => let y := indexTree x acc.2; (acc.1 ++ [y.1], y.2)) ([], i)
    (Json.mkObj [("tup", jlist r.1)], r.2)
  | .node kvs =>
    let r := kvs.foldl (fun (acc : List Json × Nat) kv =>
      let y := indexTree kv.2 acc.2; (acc.1 ++ [jlist [Json.str kv.1, y.1]], y.2)) ([], i)
    (Json.mkObj [("node", jlist r.1)], r.2)

mutual
/-- the tree with its leaves replaced by their position in `_flatten` order -/
def numberFrom {α} : V α → Nat → V Nat × Nat
  | .leaf _, i => (.leaf i, i + 1)
  | .tup vs, i => let r := numberFromT vs i; (.tup r.1, r.2)
  | .node kvs, i => let r := numberFromI kvs i; (.node r.1, r.2)
def numberFromT {α} : List (V α) → Nat → List (V Nat) × Nat
  | [], i => ([], i)
  | v :: vs, i => let a := numberFrom v i; let b := numberFromT vs a.2; (a.1 :: b.1, b.2)
def numberFromI {α} : St.Items α → Nat → St.Items Nat × Nat
  | [], i => ([], i)
  | (k, v) :: r, i => let a := numberFrom v i; let b := numberFromI r a.2; ((k, a.1) :: b.1, b.2)
end
def numberLeaves {α} (v : V α) : V Nat := (numberFrom v 0).1

/-- the tree with its (numeric) leaves shown -/
partial def indexTree' (v : V Nat) : Json × Unit :=
  match v with
  | .leaf i => (Json.mkObj [("leaf", natJ i)], ())
  | .tup vs => (Json.mkObj [("tup", jlist (vs.map (fun x => (indexTree' x).1)))], ())
  | .node kvs => (Json.mkObj [("node", jlist (kvs.map (fun kv => jlist [Json.str kv.1, (indexTree' kv.2).1])))], ())

def world (j : Json) : World String String :=
  let table := jarr j "factors"
  let droplist := natsOf (jval j "droplist")
  let find (e : String) : Option Json := table.find? (fun f => jstr f "expr" == e)
  { nrows := jnat j "n",
    eval := fun e _ =>
      match find e with
      | none => .error "KeyError-not-in-table"
      | some f =>
        match f.getObjVal? "error" with
        | .ok c => .error (asStr c)
        | .error _ => .ok (⟨e, natsOf (jval f "nulls")⟩, kvsOf (jval f "writes")),
    encode := fun e _ drop =>
      match find e with
      | none => .error "KeyError-not-in-table"
      | some f => if drop == droplist then .ok (C02.factorOf f) else .error "no-encoding-for-this-drop-list" }

/-- does the pandas materializer merge equally named columns for this output (generated table) -/
def pandasMerges (output : String) : Bool :=
  match FormulaicVerif.Gen.partsMaterializerClasses.find? (fun c => c.1 == "pandas") with
  | some c => c.2.2.1.contains output
  | none => false

def optsOf (j : Json) : Opts :=
  { efr := jbool j "efr", cluster := jbool j "cluster",
    variant := if jstr j "variant" = "base" then .base else .fast, asDict := pandasMerges (jstr j "output") }

def errName : PErr → String
  | .eval c => c
  | .encode c => c
  | .inconsistent => "RuntimeError"
  | .build e => C02.scopeErrName e
  | .shape => "ValueError"
  | .structure => "FactorEncodingError"

def termsJ (ts : List MTerm) : Json := jlist (ts.map jstrs)

def structJ : Option (List TermStruct) → Json
  | none => Json.null
  | some l => jlist (l.map (fun s => Json.mkObj [
      ("term", jstrs s.term), ("scoped", jlist (s.sts.map C02.stJ)), ("columns", jstrs s.columns)]))

def specJ (s : Spec String) : Json :=
  Json.mkObj [("terms", termsJ s.terms), ("structure", structJ s.struct), ("state", kvsJ s.state)]

def partJ (p : PartOut String) : Json :=
  Json.mkObj [
    ("rows", natsJ p.matrix.rows), ("nrows", natJ p.matrix.rows.length),
    ("columns", jlist (p.matrix.cols.map C02.entryJ)),
    ("terms", termsJ p.spec.terms), ("structure", structJ p.spec.struct), ("state", kvsJ p.spec.state)]

def oneJ (r : Except PErr (PartOut String × List Nat)) : Json :=
  match r with
  | .error e => jerr (errName e)
  | .ok (p, _) => partJ p

/-- the attached specs with every second leaf (odd `_flatten` position) replaced by a never materialized spec
over the same terms -/
def mixedOf (parts : V (PartOut String)) : V (Spec String) :=
  let leaves := St.flatten parts
  St.mapV (fun (i : Nat) _ =>
    match leaves[i]? with
    | some p => if i % 2 == 0 then p.spec else Spec.ofTerms p.spec.terms
    | none => Spec.ofTerms []) [] (numberLeaves parts)

instance : Inhabited (PartsHist.FSpec Nat) := ⟨.tup []⟩

/-- a formula specification of the harness: leaves are numbered by the harness -/
partial def fspecOf (j : Json) : PartsHist.FSpec Nat :=
  let pairs (x : Json) : List (String × PartsHist.FSpec Nat) :=
    (asArr x).map (fun p => match asArr p with | [k, v] => (asStr k, fspecOf v) | _ => ("", .tup []))
  match j.getObjVal? "leaf" with
  | .ok i => .leaf (asNat i)
  | .error _ =>
    match j.getObjVal? "str" with
    | .ok s => .str (natsOf (jval s "lhs")) (natsOf (jval s "rhs"))
    | .error _ =>
      match j.getObjVal? "tup" with
      | .ok t => .tup ((asArr t).map fspecOf)
      | .error _ =>
        match j.getObjVal? "edited" with
        | .ok r => .edited (fspecOf r) (pairs (jval j "adds"))
        | .error _ => .kw (pairs (jval j "kw"))

def stErrName : St.Err → String
  | .valueError => "ValueError"
  | .keyError => "KeyError"
  | .runtimeError => "RuntimeError"
  | .merger => "merger"
  | .outOfFuel => "MODEL-OUT-OF-FUEL"

/-- the formula tree the MODEL builds from the specification (`PartsHist.fromSpec`); its leaves receive, in
`_flatten` order, the term lists the parser produced for the implementation's leaves -/
def formulaTreeOf (j : Json) : Except String (V (Spec String) × Json) :=
  match PartsHist.fromSpec (fspecOf (jval j "fspec")) with
  | .error e => .error (stErrName e)
  | .ok T =>
    let terms := (jarr j "fterms").map (fun ts => (asArr ts).map (fun t => (asArr t).map asStr))
    let numbered := numberLeaves T
    .ok (St.mapPure (fun (i : Nat) _ => (⟨(match terms[i]? with | some t => t | none => [["<no such leaf>"]]), none, []⟩ : Spec String)) [] numbered,
         (indexTree' T).1)

def handleJoint (j : Json) : Json :=
  let W := world j
  let o := optsOf j
  let built : Except String (V (Spec String) × Json) :=
    match j.getObjVal? "fspec" with
    | .ok _ => formulaTreeOf j
    | .error _ => .ok (treeOf (jval j "tree"), Json.null)
  match built with
  | .error e => Json.mkObj [("error", Json.str e), ("ftree_error", Json.bool true)]
  | .ok (F, ftreeJ) =>
  match materialize W o F (strs j "order") (natsOf (jval j "caller")) with
  | .error e => Json.mkObj [("error", Json.str (errName e)), ("ftree", ftreeJ)]
  | .ok r =>
    let leaves := St.flatten r.parts
    Json.mkObj [
      ("ftree", ftreeJ),
      ("drop", natsJ r.drop), ("state", kvsJ r.state),
      ("tree", (indexTree r.parts 0).1), ("stree", (indexTree (specsOf r.parts) 0).1),
      ("leaves", jlist (leaves.map partJ)),
      ("specs", jlist ((St.flatten (specsOf r.parts)).map specJ)),
      -- the model's own standalone build of every formula leaf with the joint drop list supplied …
      ("standalone", jlist ((St.flatten F).map (fun s => oneJ (materializeOne W o (Spec.ofTerms s.terms) [] r.drop)))),
      -- … its replay of every attached spec …
      ("replay", jlist (leaves.map (fun p => oneJ (materializeOne W o p.spec [] r.drop)))),
      -- … and of all attached specs together (`materializer.get_model_matrix(result.model_spec, drop_rows=…)`)
      ("jreplay",
        match materialize W o (specsOf r.parts) (strs j "order") r.drop with
        | .error e => jerr (errName e)
        | .ok r2 => Json.mkObj [("tree", (indexTree r2.parts 0).1), ("leaves", jlist ((St.flatten r2.parts).map partJ))]),
      -- … and a MIXED-STATE structure: the attached specs at the even leaf positions, fresh formula leaves (terms
      -- only) at the odd ones, built jointly with the joint drop list supplied
      ("mreplay",
        match materialize W o (mixedOf r.parts) (strs j "order") r.drop with
        | .error e => jerr (errName e)
        | .ok r2 => Json.mkObj [("tree", (indexTree r2.parts 0).1), ("leaves", jlist ((St.flatten r2.parts).map partJ))])]

/-! ### op `hist`: multi-step histories (`Model/PartsHist.lean`)

request `{"op":"hist", "n", "perm":[expr…], "stages":[stage…]}` (the registry of materializer classes is the
generated table `Gen/Materializers.lean`) where a stage is
`{"do":"build", "tree": formula tree, "cls", "params":[[k,v]…], "ov", "caller": […]|null, "table", "encs"}` (a
materializer object of class `cls` builds a structured formula),
`{"do":"compose", "ctree", "route":"specs"|"materializer", "cls", "params", "ov", "caller", "table", "encs"}`
(a structured spec composed from earlier results is built), or
`{"do":"calls", "calls":[{"tree","ov","caller"}…], "cls", "params", "table", "encs"}` (several calls on ONE
materializer object). `table` / `encs` are what the implementation's `_evaluate_factor` and encoders returned
during that stage: the evaluation and encoder parameters of the model answer only for the arguments they were
observed with (expression + pooled transform state; expression + drop list + rank + encoder state handed in). -/

open FormulaicVerif.Model.PartsHist

abbrev HS := HSpec String String
abbrev PH := PartH String String

def optStr (j : Json) : Option String := match j with | .str s => some s | _ => none
def optBool (j : Json) : Option Bool := match j with | .bool b => some b | _ => none
def optNats (j : Json) : Option (List Nat) := match j with | .arr _ => some (natsOf j) | _ => none

def ovOf (j : Json) : Overrides :=
  match j with
  | .null => Overrides.none
  | _ => ⟨optBool (jval j "efr"), optBool (jval j "cluster"), optStr (jval j "output")⟩

/-- the registry, from the table `harness/translate.py` generates out of the live package -/
def liveClasses : List MatClass :=
  FormulaicVerif.Gen.partsMaterializerClasses.map (fun c => ⟨c.1, c.2.1, c.2.2.1, if c.2.2.2 then .fast else .base⟩)

def hworld (n : Nat) (st : Json) : HWorld String String String :=
  let table := jarr st "table"
  let encs := jarr st "encs"
  let findE (e : String) (s : TState String) : Option Json :=
    table.find? (fun f => jstr f "expr" == e && kvsOf (jval f "st") == s)
  let findAny (e : String) : Option Json := table.find? (fun f => jstr f "expr" == e && (f.getObjVal? "error").toOption.isNone)
  { nrows := n,
    eval := fun e s =>
      match findE e s with
      | none => .error "no-evaluation-for-this-expression-and-state"
      | some f =>
        match f.getObjVal? "error" with
        | .ok c => .error (asStr c)
        | .error _ => .ok (⟨e, natsOf (jval f "nulls")⟩, kvsOf (jval f "writes")),
    fmeta := fun e _ =>
      match findAny e with
      | none => ⟨true, .numerical, false, false⟩
      | some f => ⟨jbool f "present", C02.kindOf f, jbool f "spans", jbool f "share"⟩,
    encode := fun e _ drop r prior =>
      match encs.find? (fun x => jstr x "expr" == e && natsOf (jval x "drop") == drop && jbool x "r" == r &&
          optStr (jval x "prior") == prior) with
      | none => .error "no-encoding-for-these-arguments"
      | some x =>
        match x.getObjVal? "error" with
        | .ok c => .error (asStr c)
        | .error _ => .ok (C02.encOf (jval x "enc"), jstr x "post") }

def hspecFresh (j : Json) : HS := HSpec.fresh ((jarr j "terms").map (fun t => (asArr t).map asStr))

partial def htreeOf (j : Json) : V HS :=
  match j.getObjVal? "node" with
  | .ok n => .node ((asArr n).map (fun p => match asArr p with | [k, v] => (asStr k, htreeOf v) | _ => ("", .tup [])))
  | .error _ =>
    match j.getObjVal? "tup" with
    | .ok t => .tup ((asArr t).map htreeOf)
    | .error _ => .leaf (hspecFresh (jval j "leaf"))

instance : Inhabited (CTree String String) := ⟨.tup []⟩

/-- the structured formula of a build: built by the MODEL from the specification when the request carries one
(`fspec` + the parser's term lists per leaf in `_flatten` order), otherwise the tree the harness observed -/
def hFormulaOf (j : Json) : Except HErr (V HS) :=
  match j.getObjVal? "fspec" with
  | .error _ => .ok (htreeOf (jval j "tree"))
  | .ok f =>
    match PartsHist.fromSpec (fspecOf f) with
    | .error .valueError => .error .value
    | .error .keyError => .error .key
    | .error _ => .error .runtime
    | .ok T =>
      let terms := (jarr j "fterms").map (fun ts => (asArr ts).map (fun t => (asArr t).map asStr))
      .ok (St.mapPure (fun (i : Nat) _ => (HSpec.fresh (match terms[i]? with | some t => t | none => [["<no such leaf>"]]) : HS))
        [] (numberLeaves T))

partial def ctreeOf (j : Json) : CTree String String :=
  let pairs (x : Json) : List (String × CTree String String) :=
    (asArr x).map (fun p => match asArr p with | [k, v] => (asStr k, ctreeOf v) | _ => ("", .tup []))
  match j.getObjVal? "ref" with
  | .ok r =>
    match asArr r with
    | [b, k, i] => if asStr k = "top" then .refTop (asNat b) (asNat i) else .refLeaf (asNat b) (asNat i)
    | [b, _] => .refWhole (asNat b)
    | _ => .tup []
  | .error _ =>
    match j.getObjVal? "fresh" with
    | .ok f => .fresh (htreeOf f)
    | .error _ =>
      match j.getObjVal? "tup" with
      | .ok t => .tup ((asArr t).map ctreeOf)
      | .error _ =>
        match j.getObjVal? "inplace" with
        | .ok b => .inplace (asNat b) (pairs (jval j "adds"))
        | .error _ => .kw (pairs (jval j "kw"))

def herrName : HErr → String
  | .part e => errName e
  | .notFound => "FormulaMaterializerNotFoundError"
  | .badOutput => "FormulaMaterializationError"
  | .index => "IndexError"
  | .value => "ValueError"
  | .attribute => "AttributeError"
  | .key => "KeyError"
  | .runtime => "RuntimeError"

def optStrJ : Option String → Json
  | some s => Json.str s
  | none => Json.null

def encJ (d : EncDict String) : Json :=
  jlist (d.map (fun kv => jlist [Json.str kv.1, Json.str kv.2.kind, Json.str kv.2.state]))

def hspecJ (h : HS) : Json :=
  Json.mkObj [("terms", termsJ h.core.terms), ("structure", structJ h.core.struct), ("state", kvsJ h.core.state),
    ("enc", encJ h.enc), ("materializer", optStrJ h.materializer),
    ("params", match h.params with | some p => kvsJ p | none => Json.null),
    ("output", optStrJ h.output), ("efr", Json.bool h.efr), ("cluster", Json.bool h.cluster)]

def partHJ (p : PH) : Json :=
  Json.mkObj [("rows", natsJ p.matrix.rows), ("nrows", natJ p.matrix.rows.length),
    ("columns", jlist (p.matrix.cols.map C02.entryJ)), ("spec", hspecJ p.spec)]

def partsJ (parts : V PH) : List (String × Json) :=
  [("tree", (indexTree parts 0).1), ("leaves", jlist ((St.flatten parts).map partHJ))]

def envOf (j : Json) (st : Json) : Env String String String :=
  { classes := liveClasses, forData := some FormulaicVerif.Gen.forDataPandas,
    world := fun _ => hworld (jnat j "n") st }

def callerOf (st : Json) : List Nat := match optNats (jval st "caller") with | some l => l | none => []

/-- one stage; returns the answer and, when it succeeded, the result later stages may refer to -/
def runStage (j : Json) (res : List (V PH)) (st : Json) : Json × Option (V PH) :=
  let E := envOf j st
  let perm := strs j "perm"
  let fail (e : HErr) : Json × Option (V PH) := (jerr (herrName e), none)
  match jstr st "do" with
  | "build" =>
    match E.byName (jstr st "cls") with
    | .error e => fail e
    | .ok mc =>
      match hFormulaOf st with
      | .error e => fail e
      | .ok F =>
      match materializeH (E.world mc.name) mc (kvsOf (jval st "params")) F (ovOf (jval st "ov"))
          perm (callerOf st) with
      | .error e => fail e
      | .ok r => (Json.mkObj (partsJ r.parts ++ [("drop", natsJ r.drop), ("dropset", natsJ (sortSet r.dropSet))]), some r.parts)
  | "compose" =>
    match composeC res (ctreeOf (jval st "ctree")) with
    | .error e => fail e
    | .ok S =>
      let origin := Json.mkObj [("tree", (indexTree (St.norm S) 0).1), ("leaves", jlist ((St.flatten (St.norm S)).map hspecJ))]
      if jstr st "route" = "materializer" then
        match E.byName (jstr st "cls") with
        | .error e => fail e
        | .ok mc =>
          match materializeH (E.world mc.name) mc (kvsOf (jval st "params")) S (ovOf (jval st "ov")) perm (callerOf st) with
          | .error e => (Json.mkObj [("error", Json.str (herrName e)), ("origin", origin)], none)
          | .ok r => (Json.mkObj (partsJ r.parts ++ [("drop", natsJ r.drop), ("dropset", natsJ (sortSet r.dropSet)),
              ("origin", origin), ("jointly", Json.bool true), ("passes", natJ 1)]), some r.parts)
      else
        -- `ModelSpec.from_spec(S)` / `model_matrix(S, …)` re-run the constructors before `get_model_matrix` is
        -- called ("norm"); `S.get_model_matrix(…)` on the composed object itself does not
        match specsGetModelMatrix E (if jbool st "norm" then St.norm S else S) (ovOf (jval st "ov")) perm (callerOf st) with
        | .error e => (Json.mkObj [("error", Json.str (herrName e)), ("origin", origin)], none)
        | .ok r => (Json.mkObj (partsJ r.parts ++ [("dropset", natsJ (sortSet r.dropSet)), ("origin", origin),
            ("jointly", Json.bool r.jointly), ("passes", natJ r.passes)]), some r.parts)
  | "derive" =>
    -- `result.model_spec.subset(formula)` / `.differentiate(*wrt)` of an earlier result, then built through
    -- `ModelSpecs.get_model_matrix`
    match pickMod res (jnat st "from") with
    | .error e => fail e
    | .ok r0 =>
      let S0 := specsOfH r0
      let termsOf (x : Json) : List MTerm := (asArr x).map (fun t => (asArr t).map asStr)
      let derived : Except HErr (V HS) :=
        if jstr st "op" = "subset" then
          specsSubset S0 (match jval st "fm" with
            | .null => none
            | f => some (St.mapV (fun (h : HS) _ => h.core.terms) [] (htreeOf f)))
        else
          let table := (jarr st "dterms").map (fun p => match asArr p with | [a, b] => (termsOf a, termsOf b) | _ => ([], []))
          .ok (specsDifferentiate (fun ts => match table.lookup ts with | some d => d | none => [["<no derivative in the table>"]]) S0)
      match derived with
      | .error e => (Json.mkObj [("derive", jerr (herrName e))], none)
      | .ok S =>
        let dj := Json.mkObj [("tree", (indexTree S 0).1), ("leaves", jlist ((St.flatten S).map hspecJ))]
        match specsGetModelMatrix E S Overrides.none perm (callerOf st) with
        | .error e => (Json.mkObj [("derive", dj), ("error", Json.str (herrName e))], none)
        | .ok r => (Json.mkObj (partsJ r.parts ++ [("derive", dj), ("dropset", natsJ (sortSet r.dropSet)),
            ("jointly", Json.bool r.jointly), ("passes", natJ r.passes)]), some r.parts)
  | "calls" =>
    match E.byName (jstr st "cls") with
    | .error e => fail e
    | .ok mc =>
      let W := E.world mc.name
      let step (acc : MatObj String String × List Json × Option (V PH)) (c : Json) :=
        let F : V HS := match hFormulaOf c with | .ok F => F | .error _ => .node []
        let r := MatObj.call W mc (kvsOf (jval st "params")) acc.1 F (ovOf (jval c "ov")) perm (callerOf c)
        match r.1 with
        | .error e => (r.2, acc.2.1 ++ [jerr (herrName e)], acc.2.2)
        | .ok x => (r.2, acc.2.1 ++ [Json.mkObj (partsJ x.parts ++ [("drop", natsJ x.drop), ("dropset", natsJ (sortSet x.dropSet))])],
            some x.parts)
      let out := (jarr st "calls").foldl step (MatObj.empty, [], none)
      (Json.mkObj [("calls", jlist out.2.1)], out.2.2)
  | o => (jerr ("unknown stage " ++ o), none)

def handleHist (j : Json) : Json :=
  let out := (jarr j "stages").foldl (fun (acc : List Json × List (V PH)) st =>
    let r := runStage j acc.2 st
    (acc.1 ++ [r.1], match r.2 with | some p => acc.2 ++ [p] | none => acc.2)) ([], [])
  Json.mkObj [("stages", jlist out.1)]

def handle (j : Json) : Json :=
  match jstr j "op" with
  | "joint" => handleJoint j
  | "hist" => handleHist j
  | "noop" => Json.mkObj []
  | o => jerr ("unknown op " ++ o)

end FormulaicVerif.Engines.C07
