import FormulaicVerif.Engines.Json
import FormulaicVerif.Engines.C02
import FormulaicVerif.Model.Parts
/-! Engine `c07`: runs the executable model `Model/Parts.lean` (joint materialisation of a
structured formula) on one request.

request `{"op":"joint", "n", "caller":[…], "order":[…], "efr", "cluster", "asdict", "variant",
"tree": {"node":[[key, tree]…]} | {"tup":[tree…]} | {"leaf":{"terms":[[expr…]…],"state":[[k,v]…]}},
"factors":[C02 factor objects + "nulls":[…], "writes":[[k,v]…] | {"expr","error"}], "droplist":[…]}`

The evaluation / encoder parameters of the model are instantiated with the tables of the request
(what the implementation's `_evaluate_factor` and encoders returned on this case): `eval` looks the
expression up, `encode` answers only for the drop list the encodings were computed under. -/
namespace FormulaicVerif.Engines.C07
open Lean FormulaicVerif.Model FormulaicVerif.Model.Parts FormulaicVerif.Engines

abbrev V := St.Val

def kvsOf (j : Json) : List (String × String) :=
  (asArr j).map (fun p => match asArr p with | [k, v] => (asStr k, asStr v) | _ => ("", ""))
def kvsJ (s : List (String × String)) : Json := jlist (s.map (fun kv => jlist [Json.str kv.1, Json.str kv.2]))
def natsOf (j : Json) : List Nat := (asArr j).map asNat
def natJ (n : Nat) : Json := Json.num (JsonNumber.fromNat n)
def natsJ (l : List Nat) : Json := jlist (l.map natJ)

def specOf (j : Json) : Spec String :=
  ⟨(jarr j "terms").map (fun t => (asArr t).map asStr), none, kvsOf (jval j "state")⟩

partial def treeOf (j : Json) : V (Spec String) :=
  match j.getObjVal? "node" with
  | .ok n => .node ((asArr n).map (fun p => match asArr p with | [k, v] => (asStr k, treeOf v) | _ => ("", .tup [])))
  | .error _ =>
    match j.getObjVal? "tup" with
    | .ok t => .tup ((asArr t).map treeOf)
    | .error _ => .leaf (specOf (jval j "leaf"))

/-- the tree with its leaves replaced by their index in `_flatten` order -/
partial def indexTree {α} (v : V α) (i : Nat) : Json × Nat :=
  match v with
  | .leaf _ => (Json.mkObj [("leaf", natJ i)], i + 1)
  | .tup vs =>
    let r := vs.foldl (fun (acc : List Json × Nat) x => let y := indexTree x acc.2; (acc.1 ++ [y.1], y.2)) ([], i)
    (Json.mkObj [("tup", jlist r.1)], r.2)
  | .node kvs =>
    let r := kvs.foldl (fun (acc : List Json × Nat) kv =>
      let y := indexTree kv.2 acc.2; (acc.1 ++ [jlist [Json.str kv.1, y.1]], y.2)) ([], i)
    (Json.mkObj [("node", jlist r.1)], r.2)

def world (j : Json) : World String String :=
  let table := jarr j "factors"
  let droplist := natsOf (jval j "droplist")
  let find (e : String) : Option Json := table.find? (fun f => jstr f "expr" == e)
  { nrows := jnat j "n",
    eval := fun e _ =>
      match find e with
      | none => .error "KeyError-not-in-table"
      | some f =>
        match f.getObjVal? "error" with
        | .ok c => .error (asStr c)
        | .error _ => .ok (⟨e, natsOf (jval f "nulls")⟩, kvsOf (jval f "writes")),
    encode := fun e _ drop =>
      match find e with
      | none => .error "KeyError-not-in-table"
      | some f => if drop == droplist then .ok (C02.factorOf f) else .error "no-encoding-for-this-drop-list" }

def optsOf (j : Json) : Opts :=
  { efr := jbool j "efr", cluster := jbool j "cluster",
    variant := if jstr j "variant" = "base" then .base else .fast, asDict := jbool j "asdict" }

def errName : PErr → String
  | .eval c => c
  | .encode c => c
  | .inconsistent => "RuntimeError"
  | .build e => C02.scopeErrName e
  | .shape => "ValueError"
  | .structure => "FactorEncodingError"

def termsJ (ts : List MTerm) : Json := jlist (ts.map jstrs)

def structJ : Option (List TermStruct) → Json
  | none => Json.null
  | some l => jlist (l.map (fun s => Json.mkObj [
      ("term", jstrs s.term), ("scoped", jlist (s.sts.map C02.stJ)), ("columns", jstrs s.columns)]))

def specJ (s : Spec String) : Json :=
  Json.mkObj [("terms", termsJ s.terms), ("structure", structJ s.struct), ("state", kvsJ s.state)]

def partJ (p : PartOut String) : Json :=
  Json.mkObj [
    ("rows", natsJ p.matrix.rows), ("nrows", natJ p.matrix.rows.length),
    ("columns", jlist (p.matrix.cols.map C02.entryJ)),
    ("terms", termsJ p.spec.terms), ("structure", structJ p.spec.struct), ("state", kvsJ p.spec.state)]

def oneJ (r : Except PErr (PartOut String × List Nat)) : Json :=
  match r with
  | .error e => jerr (errName e)
  | .ok (p, _) => partJ p

def handleJoint (j : Json) : Json :=
  let W := world j
  let o := optsOf j
  let F := treeOf (jval j "tree")
  match materialize W o F (strs j "order") (natsOf (jval j "caller")) with
  | .error e => jerr (errName e)
  | .ok r =>
    let leaves := St.flatten r.parts
    Json.mkObj [
      ("drop", natsJ r.drop), ("state", kvsJ r.state),
      ("tree", (indexTree r.parts 0).1), ("stree", (indexTree (specsOf r.parts) 0).1),
      ("leaves", jlist (leaves.map partJ)),
      ("specs", jlist ((St.flatten (specsOf r.parts)).map specJ)),
      -- the model's own standalone build of every formula leaf with the joint drop list supplied …
      ("standalone", jlist ((St.flatten F).map (fun s => oneJ (materializeOne W o (Spec.ofTerms s.terms) [] r.drop)))),
      -- … its replay of every attached spec …
      ("replay", jlist (leaves.map (fun p => oneJ (materializeOne W o p.spec [] r.drop)))),
      -- … and of all attached specs together (`materializer.get_model_matrix(result.model_spec, drop_rows=…)`)
      ("jreplay",
        match materialize W o (specsOf r.parts) (strs j "order") r.drop with
        | .error e => jerr (errName e)
        | .ok r2 => Json.mkObj [("tree", (indexTree r2.parts 0).1), ("leaves", jlist ((St.flatten r2.parts).map partJ))])]

def handle (j : Json) : Json :=
  match jstr j "op" with
  | "joint" => handleJoint j
  | "noop" => Json.mkObj []
  | o => jerr ("unknown op " ++ o)

end FormulaicVerif.Engines.C07
