import FormulaicVerif.Engines.Json
import FormulaicVerif.Model.Materialize
import FormulaicVerif.Model.NestedMatrix
/-! Engine `c02` (serves C02 and C03): runs the executable model of the materializer pipeline.

ops: `matrix` (whole `_build_model_matrix` over flat encodings, `Model/Materialize.lean`), `nmatrix`
(the same over factor values of any shape, `Model/NestedMatrix.lean` + `Model/FactorEncode.lean`),
`encode` (`_encode_evaled_factor` of one factor), `columns` (`_get_columns_for_term`, base and fast,
both label types), `simplify` (`_simplify_scoped_terms` on an explicit list), `spanned`
(`_get_scoped_terms_spanned_by_evaled_factors`), `cluster` (`_cluster_terms`). Rationals travel as
`"p/q"` strings. -/
namespace FormulaicVerif.Engines.C02
open Lean FormulaicVerif.Model FormulaicVerif.Engines

def ratOfString (s : String) : Rat :=
  match s.splitOn "/" with
  | [p] => (p.toInt?.getD 0 : Int)
  | [p, q] => mkRat (p.toInt?.getD 0) (q.toNat?.getD 1)
  | _ => 0

def ratStr (r : Rat) : String :=
  if r.den = 1 then toString r.num else toString r.num ++ "/" ++ toString r.den

def ratJ (r : Rat) : Json := Json.str (ratStr r)
def colOf (j : Json) : Col := (asArr j).map (fun x => ratOfString (asStr x))
def colJ (c : Col) : Json := jlist (c.map ratJ)

def fieldOf (j : Json) : Field := ⟨jstr j "t", jbool j "s"⟩
def optFieldOf (j : Json) : Option Field := match j with | .null => none | _ => some (fieldOf j)

def segOf (j : Json) : Seg :=
  match asArr j with
  | [k] => if asStr k = "name" then .name else .field
  | [_, s] => .lit (asStr s)
  | _ => .lit ""

def fmtOf (j : Json) : Fmt := (asArr j).map segOf
def optFmtOf (j : Json) : Option Fmt := match j with | .null => none | _ => some (fmtOf j)

def encOf (j : Json) : Encoded :=
  let cols := (jarr j "cols").map (fun p =>
    match asArr p with
    | [f, c] => (fieldOf f, colOf c)
    | _ => (⟨"", false⟩, []))
  let val : EncVal :=
    if jbool j "dict" then .dict cols
    else match cols with
      | [(_, c)] => .single c
      | _ => .single []
  { val := val, spansIntercept := jbool j "spans", dropField := optFieldOf (jval j "drop"),
    reducedMeta := jbool j "rmeta", fmt := fmtOf (jval j "fmt"), fmtReduced := optFmtOf (jval j "fmtr") }

def kindOf (j : Json) : Kind :=
  match jstr j "kind" with
  | "constant" => .constant (ratOfString (jstr j "value"))
  | "categorical" => .categorical
  | _ => .numerical

def factorOf (j : Json) : EvaledFactor :=
  { expr := jstr j "expr", present := jbool j "present", kind := kindOf j,
    spansIntercept := jbool j "spans", encFull := encOf (jval j "full"),
    encReduced := encOf (jval j "reduced") }

def sfOf (j : Json) : SF :=
  match asArr j with
  | [e, r] => ⟨asStr e, asBool r⟩
  | _ => ⟨"", false⟩
def sfJ (f : SF) : Json := jlist [Json.str f.expr, Json.bool f.reduced]
def stOf (j : Json) : ST := ST.new ((jarr j "factors").map sfOf) (ratOfString (jstr j "scale"))
def stJ (s : ST) : Json := Json.mkObj [("factors", jlist (s.factors.map sfJ)), ("scale", ratJ s.scale)]

def partJ (p : Part) : Json :=
  jlist [Json.str p.expr, (match p.field with | none => Json.null | some f => Json.str f.text),
    Json.bool p.reduced]
def entryJ (e : Entry) : Json :=
  Json.mkObj [("name", Json.str e.name), ("parts", jlist (e.parts.map partJ)), ("values", colJ e.col)]

def scopeErrName : ScopeErr → String
  | .py e => e.name
  | .fuel => "MODEL-OUT-OF-FUEL"

def cfgOf (j : Json) : Config :=
  { cache := (jarr j "factors").map factorOf,
    terms := (jarr j "terms").map (fun t => (asArr t).map asStr),
    ensureFullRank := jbool j "efr", clusterByNumerical := jbool j "cluster",
    variant := if jstr j "variant" = "base" then .base else .fast,
    nrows := jnat j "nrows" }

def handleMatrix (j : Json) : Json :=
  let cfg := cfgOf j
  match buildStructure cfg with
  | .error e => jerr (scopeErrName e)
  | .ok rs =>
    Json.mkObj [
      ("structure", jlist (rs.map (fun r => Json.mkObj [
        ("term", jstrs r.term), ("scoped", jlist (r.sts.map stJ)),
        ("columns", jstrs (r.cols.map (·.name)))]))),
      ("columns", jlist ((combineColumns (jbool j "asdict") (allColumns rs)).map entryJ))]

/-! ### factor values of any shape (`Model/FactorEncode.lean`) -/
section Nested
open FormulaicVerif.Model.Nest

def metaOf (j : Json) : Meta :=
  { columnNames := match jval j "cn" with | .null => none | v => some ((asArr v).map fieldOf),
    format := fmtOf (jval j "fmt"), encoded := jbool j "enc", hasEncoder := jbool j "hasenc",
    spansIntercept := jbool j "spans", dropField := optFieldOf (jval j "drop"), reduced := jbool j "red",
    formatReduced := optFmtOf (jval j "fmtr") }
def optMetaOf (j : Json) : Option Meta := match j with | .null => none | _ => some (metaOf j)

/-- decode a value tree (`fuel` bounds the nesting depth; the harness never nests deeper than 8) -/
def valOf : Nat → Json → Val
  | 0, _ => .col []
  | n + 1, j =>
    match j.getObjVal? "c" with
    | .ok c => .col (colOf c)
    | .error _ =>
      .dict ((jarr j "d").foldr (fun p es =>
        match asArr p with
        | [k, v] => .cons (fieldOf k) (valOf n v) es
        | _ => es) .nil) (optMetaOf (jval j "m"))

def pairsOf (j : Json) : List (Field × Col) :=
  (asArr j).map (fun p => match asArr p with | [f, c] => (fieldOf f, colOf c) | _ => (⟨"", false⟩, []))

def rawOf (j : Json) : Raw :=
  match jstr j "t" with
  | "frame" => .frame (pairsOf (jval j "cols"))
  | "arr2" => .arr2 ((jarr j "cols").map colOf)
  | "arrN" => .arrN
  | "cat" => .cat ((jarr j "levels").map fieldOf)
      ((jarr j "codes").map (fun c => match c with | .null => none | c => some (asNat c)))
  | _ => .val (valOf 64 (jval j "v"))

def rfactorOf (j : Json) : RFactor :=
  { expr := jstr j "expr", present := jbool j "present",
    -- a literal's value is computed by the model from its text (`constantValue`)
    kind := (match kindOf j with | .constant v => .constant (constantValue (jstr j "expr") v) | k => k),
    md := metaOf (jval j "md"),
    raw := rawOf (jval j "raw"),
    ext := match jval j "ext" with
      | .null => none
      | e => some (valOf 64 (jval e "full"), valOf 64 (jval e "reduced")) }

def fieldJ (f : Field) : Json := Json.mkObj [("t", Json.str f.text), ("s", Json.bool f.isStr)]
def npartJ (p : NPart) : Json := jlist [Json.str p.expr, jlist (p.path.map fieldJ), Json.bool p.reduced]
def nentryJ (e : NEntry) : Json :=
  Json.mkObj [("name", Json.str e.name), ("parts", jlist (e.parts.map npartJ)), ("values", colJ e.col)]

def ncfgOf (j : Json) : NConfig :=
  { cache := (jarr j "factors").map rfactorOf,
    terms := (jarr j "terms").map (fun t => (asArr t).map asStr),
    ensureFullRank := jbool j "efr", clusterByNumerical := jbool j "cluster",
    variant := if jstr j "variant" = "base" then .base else .fast,
    nrows := jnat j "nrows" }

def handleNMatrix (j : Json) : Json :=
  let cfg := ncfgOf j
  match nbuildStructure cfg with
  | .error e => jerr e.name
  | .ok rs =>
    Json.mkObj [
      ("structure", jlist (rs.map (fun r => Json.mkObj [
        ("term", jstrs r.term), ("scoped", jlist (r.sts.map stJ)),
        ("columns", jstrs (r.cols.map (·.name)))]))),
      ("columns", jlist ((ncombineColumns (jbool j "asdict") (nallColumns rs)).map nentryJ)),
      -- cross-check: the flat model on the same case, when the harness could express it
      ("flat", match jval j "flat" with | .null => Json.null | f => handleMatrix f)]

def nitemJ (it : NItem) : Json :=
  jlist [Json.str it.name, jlist (it.part.path.map fieldJ), colJ it.col]

/-- `_encode_evaled_factor(factor, spec, drop_rows, reduced_rank)` for both rank settings -/
def handleEncode (j : Json) : Json :=
  let f := rfactorOf (jval j "factor")
  let one (r : Bool) : Json :=
    match encodeFactor f r with
    | .error e => jerr e.name
    | .ok items => jlist (items.map nitemJ)
  Json.mkObj [("full", one false), ("reduced", one true)]

def nitemOf (j : Json) : NItem :=
  ⟨jstr j "name", ⟨jstr j "name", [], false⟩, colOf (jval j "col")⟩

def nresJ (r : Except MErr (List NEntry)) : Json :=
  match r with
  | .error e => jerr e.name
  | .ok es => jlist (es.map (fun e => jlist [Json.str e.name, colJ e.col]))

end Nested

def itemOf (j : Json) : Item :=
  ⟨jstr j "name", ⟨jstr j "name", none, false⟩, colOf (jval j "col")⟩

def resJ (r : Except MErr (List Entry)) : Json :=
  match r with
  | .error e => jerr e.name
  | .ok es => jlist (es.map (fun e => jlist [Json.str e.name, colJ e.col]))

def handleColumns (j : Json) : Json :=
  let fs := (jarr j "factors").map (fun f => (asArr f).map itemOf)
  let s := ratOfString (jstr j "scale")
  let nfs := (jarr j "factors").map (fun f => (asArr f).map nitemOf)
  Json.mkObj [("base", resJ (columnsBase fs s)), ("fast", resJ (columnsFast fs s)),
    ("nbase", nresJ (Nest.ncolumnsBase nfs s)), ("nfast", nresJ (Nest.ncolumnsFast nfs s))]

def handleSimplify (j : Json) : Json :=
  let sts := (jarr j "sts").map stOf
  match simplify (simplifyFuel sts) sts with
  | none => jerr "MODEL-OUT-OF-FUEL"
  | some r => Json.mkObj [("sts", jlist (r.map stJ))]

def handleSpanned (j : Json) : Json :=
  let efs := (jarr j "factors").map factorOf
  Json.mkObj [("sts", jlist ((spannedBy efs).map stJ))]


def handleCluster (j : Json) : Json :=
  let c := (jarr j "factors").map factorOf
  match clusterTerms c (jbool j "cluster") ((jarr j "terms").map (fun t => (asArr t).map asStr)) with
  | .error e => jerr e.name
  | .ok ts => Json.mkObj [("terms", jlist (ts.map jstrs))]

def handle (j : Json) : Json :=
  match jstr j "op" with
  | "matrix" => handleMatrix j
  | "nmatrix" => handleNMatrix j
  | "encode" => handleEncode j
  | "cluster" => handleCluster j
  | "columns" => handleColumns j
  | "simplify" => handleSimplify j
  | "spanned" => handleSpanned j
  | o => jerr ("unknown op " ++ o)

end FormulaicVerif.Engines.C02
