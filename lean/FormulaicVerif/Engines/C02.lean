import FormulaicVerif.Engines.Json
import FormulaicVerif.Model.Materialize
/-! Engine `c02` (serves C02 and C03): runs the executable model of the materializer pipeline.

ops: `matrix` (whole `_build_model_matrix`), `columns` (`_get_columns_for_term`, base and fast),
`simplify` (`_simplify_scoped_terms` on an explicit list), `spanned`
(`_get_scoped_terms_spanned_by_evaled_factors`). Rationals travel as `"p/q"` strings. -/
namespace FormulaicVerif.Engines.C02
open Lean FormulaicVerif.Model FormulaicVerif.Engines

def ratOfString (s : String) : Rat :=
  match s.splitOn "/" with
  | [p] => (p.toInt?.getD 0 : Int)
  | [p, q] => mkRat (p.toInt?.getD 0) (q.toNat?.getD 1)
  | _ => 0

def ratStr (r : Rat) : String :=
  if r.den = 1 then toString r.num else toString r.num ++ "/" ++ toString r.den

def ratJ (r : Rat) : Json := Json.str (ratStr r)
def colOf (j : Json) : Col := (asArr j).map (fun x => ratOfString (asStr x))
def colJ (c : Col) : Json := jlist (c.map ratJ)

def fieldOf (j : Json) : Field := ⟨jstr j "t", jbool j "s"⟩
def optFieldOf (j : Json) : Option Field := match j with | .null => none | _ => some (fieldOf j)

def segOf (j : Json) : Seg :=
  match asArr j with
  | [k] => if asStr k = "name" then .name else .field
  | [_, s] => .lit (asStr s)
  | _ => .lit ""

def fmtOf (j : Json) : Fmt := (asArr j).map segOf
def optFmtOf (j : Json) : Option Fmt := match j with | .null => none | _ => some (fmtOf j)

def encOf (j : Json) : Encoded :=
  let cols := (jarr j "cols").map (fun p =>
    match asArr p with
    | [f, c] => (fieldOf f, colOf c)
    | _ => (⟨"", false⟩, []))
  let val : EncVal :=
    if jbool j "dict" then .dict cols
    else match cols with
      | [(_, c)] => .single c
      | _ => .single []
  { val := val, spansIntercept := jbool j "spans", dropField := optFieldOf (jval j "drop"),
    reducedMeta := jbool j "rmeta", fmt := fmtOf (jval j "fmt"), fmtReduced := optFmtOf (jval j "fmtr") }

def kindOf (j : Json) : Kind :=
  match jstr j "kind" with
  | "constant" => .constant (ratOfString (jstr j "value"))
  | "categorical" => .categorical
  | _ => .numerical

def factorOf (j : Json) : EvaledFactor :=
  { expr := jstr j "expr", present := jbool j "present", kind := kindOf j,
    spansIntercept := jbool j "spans", encFull := encOf (jval j "full"),
    encReduced := encOf (jval j "reduced") }

def sfOf (j : Json) : SF :=
  match asArr j with
  | [e, r] => ⟨asStr e, asBool r⟩
  | _ => ⟨"", false⟩
def sfJ (f : SF) : Json := jlist [Json.str f.expr, Json.bool f.reduced]
def stOf (j : Json) : ST := ST.new ((jarr j "factors").map sfOf) (ratOfString (jstr j "scale"))
def stJ (s : ST) : Json := Json.mkObj [("factors", jlist (s.factors.map sfJ)), ("scale", ratJ s.scale)]

def partJ (p : Part) : Json :=
  jlist [Json.str p.expr, (match p.field with | none => Json.null | some f => Json.str f.text),
    Json.bool p.reduced]
def entryJ (e : Entry) : Json :=
  Json.mkObj [("name", Json.str e.name), ("parts", jlist (e.parts.map partJ)), ("values", colJ e.col)]

def scopeErrName : ScopeErr → String
  | .py e => e.name
  | .fuel => "MODEL-OUT-OF-FUEL"

def cfgOf (j : Json) : Config :=
  { cache := (jarr j "factors").map factorOf,
    terms := (jarr j "terms").map (fun t => (asArr t).map asStr),
    ensureFullRank := jbool j "efr", clusterByNumerical := jbool j "cluster",
    variant := if jstr j "variant" = "base" then .base else .fast,
    nrows := jnat j "nrows" }

def handleMatrix (j : Json) : Json :=
  let cfg := cfgOf j
  match buildStructure cfg with
  | .error e => jerr (scopeErrName e)
  | .ok rs =>
    Json.mkObj [
      ("structure", jlist (rs.map (fun r => Json.mkObj [
        ("term", jstrs r.term), ("scoped", jlist (r.sts.map stJ)),
        ("columns", jstrs (r.cols.map (·.name)))]))),
      ("columns", jlist ((combineColumns (jbool j "asdict") (allColumns rs)).map entryJ))]

def itemOf (j : Json) : Item :=
  ⟨jstr j "name", ⟨jstr j "name", none, false⟩, colOf (jval j "col")⟩

def resJ (r : Except MErr (List Entry)) : Json :=
  match r with
  | .error e => jerr e.name
  | .ok es => jlist (es.map (fun e => jlist [Json.str e.name, colJ e.col]))

def handleColumns (j : Json) : Json :=
  let fs := (jarr j "factors").map (fun f => (asArr f).map itemOf)
  let s := ratOfString (jstr j "scale")
  Json.mkObj [("base", resJ (columnsBase fs s)), ("fast", resJ (columnsFast fs s))]

def handleSimplify (j : Json) : Json :=
  let sts := (jarr j "sts").map stOf
  match simplify (simplifyFuel sts) sts with
  | none => jerr "MODEL-OUT-OF-FUEL"
  | some r => Json.mkObj [("sts", jlist (r.map stJ))]

def handleSpanned (j : Json) : Json :=
  let efs := (jarr j "factors").map factorOf
  Json.mkObj [("sts", jlist ((spannedBy efs).map stJ))]

def handle (j : Json) : Json :=
  match jstr j "op" with
  | "matrix" => handleMatrix j
  | "columns" => handleColumns j
  | "simplify" => handleSimplify j
  | "spanned" => handleSpanned j
  | o => jerr ("unknown op " ++ o)

end FormulaicVerif.Engines.C02
