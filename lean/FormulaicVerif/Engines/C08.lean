import FormulaicVerif.Engines.Json
import FormulaicVerif.Model.Encode
import FormulaicVerif.Gen.KindTable
/-! Engine of property C08: runs `Model.Encode` on JSON requests, always against the GENERATED kind table. -/
namespace FormulaicVerif.Engines.C08
open Lean FormulaicVerif.Model FormulaicVerif.Model.Encode FormulaicVerif.Engines

def ratOfString (s : String) : Rat :=
  match s.splitOn "/" with
  | [p] => (p.toInt?.getD 0 : Int)
  | [p, q] => mkRat (p.toInt?.getD 0) (q.toNat?.getD 1)
  | _ => 0

def ratStr (r : Rat) : String :=
  if r.den == 1 then toString r.num else toString r.num ++ "/" ++ toString r.den

def optStr : Json → Option String
  | .str s => some s
  | _ => none
def optRat : Json → Option Rat
  | .str s => some (ratOfString s)
  | _ => none
def optBool : Json → Option Bool
  | .bool b => some b
  | _ => none

def matOf : String → Mat
  | "narwhals" => .narwhals
  | "arrow" => .arrow
  | _ => .pandas
def naOf : String → NA
  | "raise" => .raise
  | "ignore" => .ignore
  | _ => .drop

def columnOf (j : Json) : Column :=
  let vals := jarr j "vals"
  match jstr j "type" with
  | "text" => .text (vals.map optStr)
  | "cat" => .cat (strs j "declared") (vals.map optStr)
  | "bool" => .bool (vals.map optBool)
  | _ => .num (vals.map optRat)

def inOf (j : Json) : In := ⟨jstr j "name", jstr j "dtype", columnOf j⟩

def cellJ : Cell → Json
  | .num q => Json.str (ratStr q)
  | .nan => Json.str "nan"
  | .str s => Json.mkObj [("s", Json.str s)]

def kindStr : FKind → String
  | .categorical => "categorical" | .numerical => "numerical" | .error => "error"

def handle (j : Json) : Json :=
  match jstr j "op" with
  | "build" =>
    let o : Opts := ⟨jbool j "intercept", jbool j "efr", naOf (jstr j "na")⟩
    match build Gen.kindTable (matOf (jstr j "mat")) o (jnat j "nrows") ((jarr j "cols").map inOf) with
    | .error e => jerr e.name
    | .ok cols =>
      Json.mkObj [("columns", jlist (cols.map (fun c =>
        Json.mkObj [("name", Json.str c.1), ("values", jlist (c.2.map cellJ))])))]
  | "kind" =>
    match inferKind Gen.kindTable (matOf (jstr j "mat")) (jstr j "dtype") with
    | .error e => jerr e.name
    | .ok k => Json.mkObj [("kind", Json.str (kindStr k))]
  | "levels" =>
    let declared := match jval j "declared" with
      | .arr a => some (a.toList.map asStr)
      | _ => none
    Json.mkObj [("levels", jstrs (levels ((jarr j "vals").map optStr) declared))]
  | op => jerr ("unknown op " ++ op)

end FormulaicVerif.Engines.C08
