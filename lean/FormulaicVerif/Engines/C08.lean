import FormulaicVerif.Engines.Json
import FormulaicVerif.Model.Encode
import FormulaicVerif.Model.Encode2
import FormulaicVerif.Model.EncodeDt
import FormulaicVerif.Gen.KindTable
import FormulaicVerif.Gen.DtypeTable
/-! Engine of property C08: runs `Model.Encode` on JSON requests, always against the GENERATED kind table. -/
namespace FormulaicVerif.Engines.C08
open Lean FormulaicVerif.Model FormulaicVerif.Model.Encode FormulaicVerif.Engines

def ratOfString (s : String) : Rat :=
  match s.splitOn "/" with
  | [p] => (p.toInt?.getD 0 : Int)
  | [p, q] => mkRat (p.toInt?.getD 0) (q.toNat?.getD 1)
  | _ => 0

def ratStr (r : Rat) : String :=
  if r.den == 1 then toString r.num else toString r.num ++ "/" ++ toString r.den

def optStr : Json → Option String
  | .str s => some s
  | _ => none
def optRat : Json → Option Rat
  | .str s => some (ratOfString s)
  | _ => none
def optBool : Json → Option Bool
  | .bool b => some b
  | _ => none

def matOf : String → Mat
  | "narwhals" => .narwhals
  | "arrow" => .arrow
  | _ => .pandas
def naOf : String → NA
  | "raise" => .raise
  | "ignore" => .ignore
  | _ => .drop

def columnOf (j : Json) : Column :=
  let vals := jarr j "vals"
  match jstr j "type" with
  | "text" => .text (vals.map optStr)
  | "cat" => .cat (strs j "declared") (vals.map optStr)
  | "bool" => .bool (vals.map optBool)
  | _ => .num (vals.map optRat)

def inOf (j : Json) : In := ⟨jstr j "name", jstr j "dtype", columnOf j⟩

def cellJ : Cell → Json
  | .num q => Json.str (ratStr q)
  | .nan => Json.str "nan"
  | .str s => Json.mkObj [("s", Json.str s)]

def kindStr : FKind → String
  | .categorical => "categorical" | .numerical => "numerical" | .error => "error"

/-! ### requests of the extended model (`Model/PyLevels.lean`, `Model/Encode2.lean`) -/
section ext
open FormulaicVerif.Model.PyLevels FormulaicVerif.Model.Enc2

/-- `{"s": text} | {"i": "123"} | {"b": true} | {"f": "3/2"} | {"y": bytes}`; anything else is a null -/
def pyValOf (j : Json) : Option PyVal :=
  match j.getObjVal? "s" with
  | .ok (.str s) => some (.str s)
  | _ =>
  match j.getObjVal? "i" with
  | .ok (.str s) => some (.int (s.toInt?.getD 0))
  | _ =>
  match j.getObjVal? "b" with
  | .ok (.bool b) => some (.bool b)
  | _ =>
  match j.getObjVal? "f" with
  | .ok (.str s) => some (.flt (ratOfString s))
  | _ =>
  match j.getObjVal? "y" with
  | .ok (.str s) => some (.bytes s)
  | _ => none

def pyValsOpt (j : Json) (k : String) : Option (List PyVal) :=
  match j.getObjVal? k with
  | .ok (.arr a) => some (a.toList.filterMap pyValOf)
  | _ => none

def pyValJ : PyVal → Json
  | .str s => Json.mkObj [("s", Json.str s)]
  | .int i => Json.mkObj [("i", Json.str (toString i))]
  | .bool b => Json.mkObj [("b", Json.bool b)]
  | .flt q => Json.mkObj [("f", Json.str (ratStr q))]
  | .bytes s => Json.mkObj [("y", Json.str s)]

def in2Of (j : Json) : Enc2.In :=
  ⟨jstr j "name", jstr j "dtype", pyValsOpt j "declared", (jarr j "vals").map pyValOf⟩

def scaleOf (j : Json) : Option Scale :=
  match j.getObjVal? "scale" with
  | .ok s =>
    match s.getObjVal? "i", s.getObjVal? "f" with
    | .ok (.str x), _ => some (.int (x.toInt?.getD 0))
    | _, .ok (.str x) => some (.flt (ratOfString x))
    | _, _ => none
  | _ => none

def ratsOf (j : Json) : List Rat := (asArr j).map (fun x => ratOfString (asStr x))

/-- `{"matrix": [["1","0"],…]}` | `{"dict": [["lo", ["1","-1"]], …]}` -/
def customOf (j : Json) : Option Custom :=
  match j.getObjVal? "matrix", j.getObjVal? "dict" with
  | .ok (.arr a), _ => some (.matrix (a.toList.map ratsOf))
  | _, .ok (.arr a) => some (.dict (a.toList.map (fun e => match asArr e with | [k, w] => (asStr k, ratsOf w) | _ => ("", []))))
  | _, _ => none

/-- the factor's text is written by the model (`Enc2.exprOf`); a factor whose text is not modelled gets a
text no formula can contain, so that the case shows up as a disagreement instead of passing unnoticed.
`C(x, contr.treatment)` (the coding class as argument) is the one spelling the structure does not
determine: the harness flags it. -/
def termOf (j : Json) : Enc2.Term :=
  let fid : FactorId := ⟨jstr j "name", jbool j "isC", pyValOf (jval j "base"), pyValsOpt j "levels", customOf (jval j "custom")⟩
  let expr := if jbool j "classArg" then "C(" ++ fid.name ++ ", contr.treatment)" else (exprOf fid).getD "<text not modelled>"
  ⟨expr, scaleOf j, fid⟩

def outOf : String → Output
  | "numpy" => .numpy
  | "sparse" => .sparse
  | "narwhals" => .narwhals
  | _ => .pandas

def callOf (j : Json) : Enc2.Call :=
  ⟨jbool j "intercept", jbool j "efr", naOf (jstr j "na"), outOf (jstr j "output"), (jarr j "terms").map termOf⟩

def resultJ : Except Enc2.Err (List OutCol) → Json
  | .error e => jerr e.name
  | .ok cols =>
    Json.mkObj [("columns", jlist (cols.map (fun c =>
      Json.mkObj [("name", Json.str c.1), ("values", jlist (c.2.map cellJ))])))]

def withDtypes (r : Json) (d : Except Enc2.Err (List Dtypes.NDt)) : Json :=
  r.setObjVal! "dtypes" (match d with
    | .ok ds => jstrs (ds.map (·.name))
    | .error e => Json.str e.name)

def handleExt (j : Json) : Option Json :=
  match jstr j "op" with
  | "history" =>
    let reset := match j.getObjVal? "reset" with | .ok (.bool false) => false | _ => true
    let frame := (jarr j "cols").map in2Of
    let calls := (jarr j "calls").map callOf
    let m := matOf (jstr j "mat")
    let rs := runHistory reset Gen.kindTable m (jnat j "nrows") frame calls Caches.empty
    some (Json.mkObj [("results", jlist ((rs.zip calls).map (fun (r, k) =>
      match r with
      | .ok _ => withDtypes (resultJ r) (callDtypes Gen.dtypeTables Gen.kindTable m (jnat j "nrows") frame k)
      | .error _ => resultJ r)))])
  | "apply" =>
    let lvls := (jarr j "levels").filterMap pyValOf
    let codes := (jarr j "codes").map (fun c => match c.getNat? with | .ok n => some n | .error _ => none)
    match labelsOf lvls with
    | .error e => some (jerr e.name)
    | .ok labels =>
      match applyTreatment .pandas (pyValOf (jval j "base")) (jbool j "reduced") lvls (dummies labels codes) with
      | .error e => some (jerr e.name)
      | .ok enc => some (Json.mkObj [("columns", jlist (enc.fields.map (fun c =>
          Json.mkObj [("name", Json.str c.1), ("values", jlist (c.2.map cellJ))])))])
  | "levels2" =>
    let vals := (jarr j "vals").map pyValOf
    let lv := levelsOf vals (pyValsOpt j "declared")
    if (match pyValsOpt j "declared" with | some d => hasDup d | none => false) then some (jerr "ValueError") else
    -- `encode_contrasts`: `raise ValueError(f"Unknown output type ...")` after the levels were found
    if !(["pandas", "numpy", "sparse", "narwhals"].contains (jstr j "output")) then some (jerr "ValueError") else
    -- `categorical_encode_series_to_sparse_csc_matrix(series, levels, drop_first)`: the first level is taken out of the
    -- categories (its rows become all zero) before the codes are read
    let lv2 := if jbool j "drop_first" then lv.drop 1 else lv
    some (Json.mkObj [("levels", jlist (lv.map pyValJ)),
      ("sparse_levels", jlist (lv2.map pyValJ)),
      ("sparse_codes", jlist ((recode lv2 vals).map (fun c => match c with | some n => Json.num n | none => Json.null))),
      ("labels", match labelsOf lv with | .ok ls => jstrs ls | .error e => Json.str e.name),
      ("sortable", Json.bool (sortMixed (uniques vals)).isSome),
      ("codes", jlist ((recode lv vals).map (fun c => match c with | some n => Json.num n | none => Json.null)))])
  | _ => none

end ext

def handle (j : Json) : Json :=
  match handleExt j with
  | some r => r
  | none =>
  match jstr j "op" with
  | "build" =>
    let o : Opts := ⟨jbool j "intercept", jbool j "efr", naOf (jstr j "na")⟩
    match build Gen.kindTable (matOf (jstr j "mat")) o (jnat j "nrows") ((jarr j "cols").map inOf) with
    | .error e => (jerr e.name).setObjVal! "new" ((handleExt (jval j "hist")).getD Json.null)
    | .ok cols =>
      Json.mkObj [("columns", jlist (cols.map (fun c =>
        Json.mkObj [("name", Json.str c.1), ("values", jlist (c.2.map cellJ))]))),
        -- the same frame through the extended model (`Model/Encode2.lean`)
        ("new", (handleExt (jval j "hist")).getD Json.null)]
  | "kind" =>
    match inferKind Gen.kindTable (matOf (jstr j "mat")) (jstr j "dtype") with
    | .error e => jerr e.name
    | .ok k => Json.mkObj [("kind", Json.str (kindStr k))]
  | "levels" =>
    let declared := match jval j "declared" with
      | .arr a => some (a.toList.map asStr)
      | _ => none
    Json.mkObj [("levels", jstrs (levels ((jarr j "vals").map optStr) declared))]
  | op => jerr ("unknown op " ++ op)

end FormulaicVerif.Engines.C08
