import FormulaicVerif.Engines.Json
import FormulaicVerif.Model.Heap
import FormulaicVerif.Model.HeapScope
import FormulaicVerif.Model.HeapX
import FormulaicVerif.Model.HeapDot
import FormulaicVerif.Spec.Purity
import FormulaicVerif.Spec.PurityX
/-! Engine `c18`: runs an extended history of operations (formula objects and their edits included)
through the store model (`Model.HeapX.xtrace`, built on `Model.Heap.step`) and through the value
semantics (`Spec.PurityX.xprun`, built on `Spec.Purity.pstep`); rank reduction is computed by
`Model.HeapScope`.  The numeric parameters arrive as tables:
fitted-state tokens per (call node, data set), failing factors, null rows, row counts and the
per-row level codes of categorical factors (the encoder state is the sorted list of distinct codes
on the kept rows). -/
namespace FormulaicVerif.Engines.C18
open Lean FormulaicVerif.Engines FormulaicVerif.Model.Heap FormulaicVerif.Spec.Purity
open FormulaicVerif.Model.HeapX FormulaicVerif.Spec.PurityX

abbrev F := String
abbrev E := List Nat

def sub (j : Json) (k1 : String) (k2 : String) : Json := jval (jval j k1) k2

def insertSorted (x : Nat) : List Nat → List Nat
  | [] => [x]
  | y :: ys => if x < y then x :: y :: ys else if x = y then y :: ys else y :: insertSorted x ys

def termJ (t : Model.Heap.Term) : Json := jstrs t
def formulaJ (f : Formula) : Json := jlist (f.map termJ)
def jnats (xs : List Nat) : Json := jlist (xs.map fun (n : Nat) => (n : Json))
def naStr : NAAction → String
  | .drop => "drop" | .raise => "raise" | .ignore => "ignore"

def entryJ (s : StructEntry E) : Json :=
  Json.mkObj [("term", termJ s.term), ("origin", formulaJ s.origin), ("efr", s.efr), ("d", s.data),
    ("encs", jlist (s.encs.map fun p => jlist [Json.str p.1, Json.bool p.2.1, jnats p.2.2]))]

def colJ (c : ColInfo F E) : Json :=
  Json.mkObj [("f", c.factor), ("r", c.reduced),
    ("fits", jlist (c.fits.map fun p => jlist [Json.str p.1, Json.str p.2])), ("enc", jnats c.enc)]

def partJ (p : Part F E) : Json :=
  Json.mkObj [("formula", formulaJ p.formula), ("efr", p.cfg.efr), ("na", naStr p.cfg.na), ("d", p.data),
    ("kept", jnats p.kept), ("terms", formulaJ p.terms), ("cols", jlist (p.cols.map colJ)),
    ("struct", jlist (p.struct.map entryJ))]

/-- kind and `spans_intercept` of an evaluated factor on a data set (table `kinds`: f ↦ d ↦ [kind, spans]) -/
def kindOf (j : Json) (f : String) (d : Nat) : Model.HeapScope.FKind :=
  match asArr (jval (sub j "kinds" f) (toString d)) with
  | [Json.str "categorical", Json.bool s] => .categorical s
  | _ => .numerical

/-- the parameters; `failing` is the table of part records for which `_enforce_structure` raises.
Rank reduction (`scopedOf`) is COMPUTED by the model (`Model/HeapScope.lean`, sets iterated in
insertion order; every other admissible order gives the same: `Props.C18.scoped_terms_hash_seed_independent`) -/
def paramsOf (j : Json) (failing : List String) : Params F E :=
  Model.HeapScope.withScope (σ := .insertion) (kind := kindOf j) {
  scopedOf := fun _ _ _ _ => []   -- replaced by `withScope`
  encodingFails part := failing.contains (partJ part).compress
  nodes f := (asArr (sub j "nodes" f)).map asStr
  fit n d := match jval (sub j "fit" n) (toString d) with
    | .str s => s
    | _ => "?"
  fails f d := asBool (jval (sub j "fails" f) (toString d))
  nulls f d := (asArr (jval (sub j "nulls" f) (toString d))).map asNat
  nrows d := asNat (sub j "nrows" (toString d))
  encFit f d kept :=
    -- levels given in the formula (`C(a, levels=L)`) or declared by a categorical dtype of the data set
    -- (in the declared order) do not come from the values of the kept rows
    match jval (sub j "fixedenc" f) (toString d) with
    | .arr a => a.toList.map asNat
    | _ =>
    let rows := asArr (jval (sub j "levels" f) (toString d))
    kept.foldl (fun acc i => match rows[i]? with
      | some Json.null => acc
      | some x => insertSorted (asNat x) acc
      | none => acc) [] }

def termOf (j : Json) : Model.Heap.Term := (asArr j).map asStr
def formulaOf (j : Json) : Formula := (asArr j).map termOf
def naOf : String → NAAction
  | "raise" => .raise
  | "ignore" => .ignore
  | _ => .drop
def cfgOf (j : Json) : Cfg := ⟨jbool j "efr", naOf (jstr j "na")⟩

def optNat (j : Json) (k : String) : Option Nat :=
  match j.getObjVal? k with
  | .ok v => (v.getNat?).toOption
  | _ => none

def updOf (j : Json) : XUpd :=
  { formula := optNat j "formula",
    efr := match j.getObjVal? "efr" with
      | .ok (.bool b) => some b
      | _ => none,
    na := match j.getObjVal? "na" with
      | .ok (.str s) => some (naOf s)
      | _ => none,
    clearStruct := jbool j "clear",
    resetState := jbool j "reset" }

def intOf (j : Json) (k : String) : Int := (j.getObjValAs? Int k).toOption.getD 0

def editOfJ (j : Json) : Edit :=
  match jstr j "k" with
  | "insert" => .insert (intOf j "i") (termOf (jval j "t"))
  | "append" => .append (termOf (jval j "t"))
  | "set" => .set (intOf j "i") (termOf (jval j "t"))
  | _ => .del (intOf j "i")

def opOf (j : Json) : XOp :=
  match jstr j "op" with
  | "formula" =>
    -- a string spec with the `.` wildcard arrives as a template; the MODEL expands it against the columns of the
    -- data set of this call and the variables of its own left-hand side (`Model/HeapDot.lean`)
    match jval j "dot" with
    | .null => .formula (formulaOf (jval j "f"))
    | dt => .formula (Model.HeapDot.expand ((jarr dt "cols").map asStr) ((jarr dt "lhs").map asStr)
        (formulaOf (jval dt "tmpl")) (formulaOf (jval dt "remove")))
  | "new" => .newSpec (jnat j "fid") (cfgOf j)
  | "update" => .update (jnat j "h") (updOf (jval j "u"))
  | "subset" => .subset (jnat j "h") (formulaOf (jval j "picks"))
  | "build" => .build ((jarr j "fids").map asNat) (cfgOf j) (jnat j "d")
  | "edit" => .edit (jnat j "fid") (editOfJ (jval j "e"))
  | "editof" => .editOf (jnat j "h") (editOfJ (jval j "e"))
  | _ => .call ((jarr j "hs").map asNat) (match jval j "u" with
      | .null => none
      | u => some (updOf u)) (jnat j "d")


def errStr : Err → String
  | .badHandle => "badHandle"
  | .inconsistent => "RuntimeError"
  | .factorEval => "EvaluationError"   -- FactorEvaluationError \
  | .nullRaise => "EvaluationError"    -- ValueError            / which one escapes first depends on set order
  | .keyError => "KeyError"
  | .noStructure => "RuntimeError"
  | .missingTerms => "ValueError"
  | .encoding => "FactorEncodingError"

def xerrStr : XErr → String
  | .base e => errStr e
  | .indexError => "IndexError"
  | .badFormula => "badFormula"

def outcomeJ : XOutcome F E → Json
  | .error e => Json.mkObj [("err", xerrStr e)]
  | .ok ps => Json.mkObj [("parts", jlist (ps.map partJ))]

/-- canonical numbering of references by first occurrence -/
def classIds (refs : List Nat) : List Nat :=
  let firsts := refs.foldl (fun acc r => if acc.contains r then acc else acc ++ [r]) []
  refs.map fun r => (firsts.idxOf r)

def specJ (w : World F E) (nodeKeys factorKeys : List String) (s : Spec E) (tc ec : Nat) (fc : Json) : Json :=
  Json.mkObj [("formula", formulaJ s.formula), ("efr", s.cfg.efr), ("na", naStr s.cfg.na),
    ("struct", match s.struct with
      | none => Json.null
      | some st => jlist (st.map fun e => termJ e.term)),
    ("tc", tc), ("ec", ec), ("fc", fc),
    ("t", Json.mkObj (nodeKeys.filterMap fun k => (w.tcells s.t k).map fun v => (k, Json.str v))),
    ("e", Json.mkObj (factorKeys.filterMap fun k => (w.ecells s.e k).map fun v => (k, jnats v)))]

def worldJ (xw : XWorld F E) (nodeKeys factorKeys : List String) : Json :=
  let w := xw.base
  let tcs := classIds (w.specs.map (·.t))
  let ecs := classIds (w.specs.map (·.e))
  let fcs : List Json := (List.range w.specs.length).map fun i => match (xw.fref[i]? : Option Nat) with
    | some r => Json.num (JsonNumber.fromNat r)
    | none => Json.null
  jlist ((w.specs.zip (tcs.zip (ecs.zip fcs))).map fun x => specJ w nodeKeys factorKeys x.1 x.2.1 x.2.2.1 x.2.2.2)

def objKeys : Json → List String
  | .obj kvs => kvs.toList.map (·.1)
  | _ => []

/-- table construction (not part of the model): the implementation reported that operation `i`
raised `FactorEncodingError` after completing `j` parts; the record of part `j` is added to the table
of failing records.  The answer is then computed by the plain model with the final table. -/
def growTable (j : Json) (tape : List (Nat × Nat)) :
    Nat → XWorld F E → List String → List XOp → List String
  | _, _, tbl, [] => tbl
  | i, w, tbl, op :: ops =>
    let r := xstep (paramsOf j tbl) w op
    match tape.find? (fun x => x.1 == i) with
    | none => growTable j tape (i + 1) r.1 tbl ops
    | some x =>
      let tbl' := match r.2 with
        | .ok parts => match parts[x.2]? with
          | some p => if tbl.contains (partJ p).compress then tbl else tbl ++ [(partJ p).compress]
          | none => tbl
        | .error _ => tbl
      growTable j tape (i + 1) (xstep (paramsOf j tbl') w op).1 tbl' ops

def handle (j : Json) : Json :=
  let ops := (jarr j "ops").map opOf
  let tape := (jarr j "encfail").map fun x => (asNat ((asArr x).getD 0 Json.null), asNat ((asArr x).getD 1 Json.null))
  let tbl := growTable j tape 0 XWorld.init [] ops
  let P := paramsOf j tbl
  let factorKeys := objKeys (jval j "nodes")
  let nodeKeys := (factorKeys.flatMap P.nodes).eraseDups
  let tr := xtrace P XWorld.init ops
  -- the model's scoped terms for every (formula, ensure_full_rank, data set) the harness asks about
  let scopedAns := (jarr j "scopedq").map fun q =>
    match Model.HeapScope.scopedTerms .insertion (fun f => kindOf j f (jnat q "d")) (formulaOf (jval q "origin")) (jbool q "efr") with
    | .error _ => Json.null
    | .ok r => jlist (r.map fun p => jlist (p.2.map fun st => Json.mkObj [
        ("factors", jlist (st.factors.map fun sf => jlist [Json.str sf.expr, Json.bool sf.reduced])),
        ("scale", Json.str (toString st.scale))]))
  Json.mkObj [
    ("scoped", jlist scopedAns),
    ("heap", jlist (tr.map fun x => Json.mkObj [("out", outcomeJ x.2), ("specs", worldJ x.1 nodeKeys factorKeys),
      ("forms", jlist (x.1.forms.map formulaJ))])),
    ("pure", jlist ((xprun P XEnv.init ops).map outcomeJ)),
    ("failing", jstrs tbl)]

end FormulaicVerif.Engines.C18
