import FormulaicVerif.Engines.Json
import FormulaicVerif.Model.Heap
import FormulaicVerif.Spec.Purity
/-! Engine `c18`: runs a history of operations through the store model (`Model.Heap.trace`) and
through the value semantics (`Spec.Purity.prun`).  The numeric parameters arrive as tables:
fitted-state tokens per (call node, data set), failing factors, null rows, row counts and the
per-row level codes of categorical factors (the encoder state is the sorted list of distinct codes
on the kept rows). -/
namespace FormulaicVerif.Engines.C18
open Lean FormulaicVerif.Engines FormulaicVerif.Model.Heap FormulaicVerif.Spec.Purity

abbrev F := String
abbrev E := List Nat

def sub (j : Json) (k1 : String) (k2 : String) : Json := jval (jval j k1) k2

def insertSorted (x : Nat) : List Nat → List Nat
  | [] => [x]
  | y :: ys => if x < y then x :: y :: ys else if x = y then y :: ys else y :: insertSorted x ys

def termJ (t : Model.Heap.Term) : Json := jstrs t
def formulaJ (f : Formula) : Json := jlist (f.map termJ)
def jnats (xs : List Nat) : Json := jlist (xs.map fun (n : Nat) => (n : Json))
def naStr : NAAction → String
  | .drop => "drop" | .raise => "raise" | .ignore => "ignore"

def entryJ (s : StructEntry E) : Json :=
  Json.mkObj [("term", termJ s.term), ("origin", formulaJ s.origin), ("efr", s.efr), ("d", s.data),
    ("encs", jlist (s.encs.map fun p => jlist [Json.str p.1, Json.bool p.2.1, jnats p.2.2]))]

def colJ (c : ColInfo F E) : Json :=
  Json.mkObj [("f", c.factor), ("r", c.reduced),
    ("fits", jlist (c.fits.map fun p => jlist [Json.str p.1, Json.str p.2])), ("enc", jnats c.enc)]

def partJ (p : Part F E) : Json :=
  Json.mkObj [("formula", formulaJ p.formula), ("efr", p.cfg.efr), ("na", naStr p.cfg.na), ("d", p.data),
    ("kept", jnats p.kept), ("terms", formulaJ p.terms), ("cols", jlist (p.cols.map colJ)),
    ("struct", jlist (p.struct.map entryJ))]

/-- the parameters; `failing` is the table of part records for which `_enforce_structure` raises -/
def paramsOf (j : Json) (failing : List String) : Params F E where
  scopedOf t origin efr d :=
    -- table: list of {term, origin, efr, d, factors: [[expr, reduced]...]}
    match (jarr j "scoped").find? (fun e => termJ t == jval e "term" && formulaJ origin == jval e "origin"
        && jbool e "efr" == efr && jnat e "d" == d) with
    | some e => (jarr e "factors").map fun x => (asStr ((asArr x).getD 0 Json.null), asBool ((asArr x).getD 1 Json.null))
    | none => []
  encodingFails part := failing.contains (partJ part).compress
  nodes f := (asArr (sub j "nodes" f)).map asStr
  fit n d := match jval (sub j "fit" n) (toString d) with
    | .str s => s
    | _ => "?"
  fails f d := asBool (jval (sub j "fails" f) (toString d))
  nulls f d := (asArr (jval (sub j "nulls" f) (toString d))).map asNat
  nrows d := asNat (sub j "nrows" (toString d))
  encFit f d kept :=
    -- levels given in the formula (`C(a, levels=L)`) do not come from the data
    match sub j "fixedenc" f with
    | .arr a => a.toList.map asNat
    | _ =>
    let rows := asArr (jval (sub j "levels" f) (toString d))
    kept.foldl (fun acc i => match rows[i]? with
      | some Json.null => acc
      | some x => insertSorted (asNat x) acc
      | none => acc) []

def termOf (j : Json) : Model.Heap.Term := (asArr j).map asStr
def formulaOf (j : Json) : Formula := (asArr j).map termOf
def naOf : String → NAAction
  | "raise" => .raise
  | "ignore" => .ignore
  | _ => .drop
def cfgOf (j : Json) : Cfg := ⟨jbool j "efr", naOf (jstr j "na")⟩

def updOf (j : Json) : Upd :=
  { formula := match j.getObjVal? "formula" with
      | .ok (.arr a) => some (formulaOf (.arr a))
      | _ => none,
    efr := match j.getObjVal? "efr" with
      | .ok (.bool b) => some b
      | _ => none,
    na := match j.getObjVal? "na" with
      | .ok (.str s) => some (naOf s)
      | _ => none,
    clearStruct := jbool j "clear" }

def opOf (j : Json) : Op :=
  match jstr j "op" with
  | "new" => .newSpec (formulaOf (jval j "f")) (cfgOf j)
  | "update" => .update (jnat j "h") (updOf (jval j "u"))
  | "subset" => .subset (jnat j "h") (formulaOf (jval j "terms"))
  | "build" => .build ((jarr j "fs").map formulaOf) (cfgOf j) (jnat j "d")
  | _ => .call ((jarr j "hs").map asNat) (match jval j "u" with
      | .null => none
      | u => some (updOf u)) (jnat j "d")


def errStr : Err → String
  | .badHandle => "badHandle"
  | .inconsistent => "RuntimeError"
  | .factorEval => "EvaluationError"   -- FactorEvaluationError \
  | .nullRaise => "EvaluationError"    -- ValueError            / which one escapes first depends on set order
  | .keyError => "KeyError"
  | .noStructure => "RuntimeError"
  | .missingTerms => "ValueError"
  | .encoding => "FactorEncodingError"

def outcomeJ : Outcome F E → Json
  | .error e => Json.mkObj [("err", errStr e)]
  | .ok ps => Json.mkObj [("parts", jlist (ps.map partJ))]

/-- canonical numbering of references by first occurrence -/
def classIds (refs : List Nat) : List Nat :=
  let firsts := refs.foldl (fun acc r => if acc.contains r then acc else acc ++ [r]) []
  refs.map fun r => (firsts.idxOf r)

def specJ (w : World F E) (nodeKeys factorKeys : List String) (s : Spec E) (tc ec : Nat) : Json :=
  Json.mkObj [("formula", formulaJ s.formula), ("efr", s.cfg.efr), ("na", naStr s.cfg.na),
    ("struct", match s.struct with
      | none => Json.null
      | some st => jlist (st.map fun e => termJ e.term)),
    ("tc", tc), ("ec", ec),
    ("t", Json.mkObj (nodeKeys.filterMap fun k => (w.tcells s.t k).map fun v => (k, Json.str v))),
    ("e", Json.mkObj (factorKeys.filterMap fun k => (w.ecells s.e k).map fun v => (k, jnats v)))]

def worldJ (w : World F E) (nodeKeys factorKeys : List String) : Json :=
  let tcs := classIds (w.specs.map (·.t))
  let ecs := classIds (w.specs.map (·.e))
  jlist ((w.specs.zip (tcs.zip ecs)).map fun x => specJ w nodeKeys factorKeys x.1 x.2.1 x.2.2)

def objKeys : Json → List String
  | .obj kvs => kvs.toList.map (·.1)
  | _ => []

/-- table construction (not part of the model): the implementation reported that operation `i`
raised `FactorEncodingError` after completing `j` parts; the record of part `j` is added to the table
of failing records.  The answer is then computed by the plain model with the final table. -/
def growTable (j : Json) (mode : Mode) (tape : List (Nat × Nat)) :
    Nat → World F E → List String → List Op → List String
  | _, _, tbl, [] => tbl
  | i, w, tbl, op :: ops =>
    let r := step (paramsOf j tbl) mode w op
    match tape.find? (fun x => x.1 == i) with
    | none => growTable j mode tape (i + 1) r.1 tbl ops
    | some x =>
      let tbl' := match r.2 with
        | .ok parts => match parts[x.2]? with
          | some p => if tbl.contains (partJ p).compress then tbl else tbl ++ [(partJ p).compress]
          | none => tbl
        | .error _ => tbl
      growTable j mode tape (i + 1) (step (paramsOf j tbl') mode w op).1 tbl' ops

def handle (j : Json) : Json :=
  let ops := (jarr j "ops").map opOf
  let mode := if jstr j "mode" == "share" then Mode.share else Mode.copy
  let tape := (jarr j "encfail").map fun x => (asNat ((asArr x).getD 0 Json.null), asNat ((asArr x).getD 1 Json.null))
  let tbl := growTable j mode tape 0 World.init [] ops
  let P := paramsOf j tbl
  let factorKeys := objKeys (jval j "nodes")
  let nodeKeys := (factorKeys.flatMap P.nodes).eraseDups
  let tr := trace P mode World.init ops
  Json.mkObj [
    ("heap", jlist (tr.map fun x => Json.mkObj [("out", outcomeJ x.2), ("specs", worldJ x.1 nodeKeys factorKeys)])),
    ("pure", jlist ((prun P [] ops).map outcomeJ)),
    ("failing", jstrs tbl)]

end FormulaicVerif.Engines.C18
