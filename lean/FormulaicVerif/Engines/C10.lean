import FormulaicVerif.Engines.Json
import FormulaicVerif.Model.SpecMeta
/-! Engine `c10`: runs the executable model of `ModelSpec`'s derived metadata (`Model/SpecMeta.lean`).

ops: `meta` (everything derived from a forwarded `structure`, plus the outcome of every probe),
`split` (`Term.FACTOR_MATCHER.finditer` on a string). -/
namespace FormulaicVerif.Engines.C10
open Lean FormulaicVerif.Engines FormulaicVerif.Model FormulaicVerif.Model.SpecMeta

def sOf (j : Json) : Str := (asStr j).toList
def sJ (s : Str) : Json := Json.str (String.ofList s)
def termOf (j : Json) : SpecMeta.Term := (asArr j).map sOf
def termJ (t : SpecMeta.Term) : Json := jlist (t.map sJ)
def natsJ (xs : List Nat) : Json := jlist (xs.map (fun n => Json.num (n : Nat)))
def sliceJ (s : Nat × Nat) : Json := natsJ [s.1, s.2]

def rowOf (j : Json) : Row :=
  { term := termOf (jval j "term"),
    svars := (jarr j "svars").map (fun st => (asArr st).map (fun f => (asArr f).map sOf)),
    columns := (jarr j "columns").map sOf }

def resJ {α} (f : α → Json) : Except PyErr α → Json
  | .ok v => Json.mkObj [("ok", f v)]
  | .error e => Json.mkObj [("err", Json.str e.name)]

def optJ {α} (f : α → Json) : Option α → Json
  | some v => Json.mkObj [("ok", f v)]
  | none => Json.mkObj [("err", Json.str "KeyError")]

def matOf : String → Materializer
  | "narwhals" => .narwhals
  | _ => .pandas
def outOf : String → Output
  | "numpy" => .numpy | "sparse" => .sparse | "narwhals" => .narwhals | _ => .pandas

/-- sort (key, json) pairs by key for canonical output of dicts whose order is not observable -/
def sortByKey (xs : List (Str × Json)) : List (Str × Json) :=
  (sortStrs (xs.map (·.1))).filterMap (fun k => (xs.find? (fun e => e.1 == k)).map (fun e => (k, e.2)))

def rowJ (r : Row) : Json := Json.mkObj [("term", termJ r.term), ("columns", jlist (r.columns.map sJ))]

def probe (formula : List SpecMeta.Term) (st : Structure) (j : Json) : Json :=
  match jstr j "k" with
  | "term" =>
    let t := termOf (jval j "t")
    Json.mkObj [
      ("ti", resJ natsJ ((termIndices st).get (.term t))),
      ("ts", resJ sliceJ ((termSlices st).get (.term t))),
      ("in", Json.bool ((termIndices st).contains (.term t))),
      ("gs", resJ sliceJ (getSlice st (.term t)))]
  | "str" =>
    let s := sOf (jval j "s")
    Json.mkObj [
      ("ti", resJ natsJ ((termIndices st).get (.str s))),
      ("ts", resJ sliceJ ((termSlices st).get (.str s))),
      ("in", Json.bool ((termIndices st).contains (.str s))),
      ("gs", resJ sliceJ (getSlice st (.str s))),
      ("ci", optJ (fun (n : Nat) => Json.num (n : Nat)) ((columnIndices st).lookup s)),
      ("gci", resJ natsJ (getColumnIndices st [s]))]
  | "var" =>
    let v := sOf (jval j "s")
    Json.mkObj [
      ("vi", match variableIndices st with
        | .ok d => optJ natsJ (d.lookup v)
        | .error e => Json.mkObj [("err", Json.str e.name)]),
      ("gvi", resJ natsJ (getVariableIndices st [v]))]
  | "tidx" =>
    resJ natsJ (getTermIndices formula st ((jarr j "terms").map termOf))
  | "subset" =>
    resJ (fun (sub : Structure) => Json.mkObj [
      ("rows", jlist (sub.map rowJ)),
      ("names", jlist ((columnNames sub).map sJ))]) (subset formula st ((jarr j "terms").map termOf))
  | k => jerr ("unknown probe " ++ k)

def handleMeta (j : Json) : Json :=
  let st : Structure := (jarr j "structure").map rowOf
  let formula := (jarr j "formula").map termOf
  let mode := combineMode (matOf (jstr j "materializer")) (outOf (jstr j "output"))
  Json.mkObj [
    ("column_names", jlist ((columnNames st).map sJ)),
    ("labels", jlist ((matrixLabels mode st).map sJ)),
    ("column_indices", jlist ((columnIndices st).map (fun e => jlist [sJ e.1, Json.num (e.2 : Nat)]))),
    ("term_indices", jlist ((termIndices st).map (fun e => jlist [termJ e.1, natsJ e.2]))),
    ("term_slices", jlist ((termSlices st).map (fun e => jlist [termJ e.1, sliceJ e.2]))),
    ("term_variables", jlist ((termVariables st).map (fun e => jlist [termJ e.1, jlist ((sortStrs e.2).map sJ)]))),
    ("variable_terms", jlist ((sortByKey ((variableTerms st).map (fun e =>
        (e.1, jlist ((sortStrs (e.2.map termHash)).map sJ))))).map (fun e => jlist [sJ e.1, e.2]))),
    ("variable_indices", match variableIndices st with
      | .ok d => jlist ((sortByKey (d.map (fun e => (e.1, natsJ e.2)))).map (fun e => jlist [sJ e.1, e.2]))
      | .error e => jerr e.name),
    ("probes", jlist ((jarr j "probes").map (probe formula st)))]

def handle (j : Json) : Json :=
  match jstr j "op" with
  | "meta" => handleMeta j
  | "split" => Json.mkObj [("factors", jlist ((matchFactors (sOf (jval j "s"))).map sJ))]
  | o => jerr ("unknown op " ++ o)

end FormulaicVerif.Engines.C10
