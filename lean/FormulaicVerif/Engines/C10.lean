import FormulaicVerif.Engines.Json
import FormulaicVerif.Model.SpecMeta
import FormulaicVerif.Model.SpecsMeta
/-! Engine `c10`: runs the executable model of `ModelSpec`'s derived metadata (`Model/SpecMeta.lean`)
and of `ModelSpecs.subset` (`Model/SpecsMeta.lean`).

ops: `meta` (everything derived from a forwarded `ModelSpec` — structure possibly `None` —, plus the
outcome of every probe), `specs` (`ModelSpecs.subset` on a forwarded tree of specs),
`split` (`Term.FACTOR_MATCHER.finditer` on a string). -/
namespace FormulaicVerif.Engines.C10
open Lean FormulaicVerif.Engines FormulaicVerif.Model FormulaicVerif.Model.SpecMeta
open FormulaicVerif.Model.SpecsMeta

def sOf (j : Json) : Str := (asStr j).toList
def sJ (s : Str) : Json := Json.str (String.ofList s)
def termOf (j : Json) : SpecMeta.Term := (asArr j).map sOf
def termJ (t : SpecMeta.Term) : Json := jlist (t.map sJ)
def natsJ (xs : List Nat) : Json := jlist (xs.map (fun n => Json.num (n : Nat)))
def sliceJ (s : Nat × Nat) : Json := natsJ [s.1, s.2]
def intJ (i : Int) : Json := Json.num (JsonNumber.fromInt i)
def optIntJ : Option Int → Json
  | some i => intJ i
  | none => Json.null
def pySliceJ (s : PySlice) : Json := jlist [optIntJ s.start, optIntJ s.stop, optIntJ s.step]
def optIntOf : Json → Option Int
  | .null => none
  | j => some (asInt j)
def optStrJ : Option Str → Json
  | some s => sJ s
  | none => Json.null

def varOf (j : Json) : Var :=
  { name := sOf (jval j "n"), value := jbool j "v", callable := jbool j "c",
    source := match jval j "s" with
      | .null => none
      | s => some (sOf s) }
def varJ (v : Var) : Json := jlist [sJ v.name, Json.bool v.value, Json.bool v.callable, optStrJ v.source]

def sfactorOf (j : Json) : SFactor :=
  { expr := sOf (jval j "e"),
    vars := match jval j "vars" with
      | .null => none
      | a => some ((asArr a).map varOf) }

def rowOf (j : Json) : Row :=
  { term := termOf (jval j "term"),
    sterms := (jarr j "sterms").map (fun st => (asArr st).map sfactorOf),
    columns := (jarr j "columns").map sOf }

def encOf (j : Json) : EncEntry :=
  { expr := sOf (jval j "e"), categorical := jbool j "cat", hasContrasts := jbool j "con" }

def specOf (j : Json) : Spec :=
  { formula := (jarr j "formula").map termOf,
    structure? := match jval j "structure" with
      | .null => none
      | a => some ((asArr a).map rowOf),
    enc := (jarr j "enc").map encOf }

def resJ {α} (f : α → Json) : Except PyErr α → Json
  | .ok v => Json.mkObj [("ok", f v)]
  | .error e => Json.mkObj [("err", Json.str e.name)]

def optJ {α} (f : α → Json) : Option α → Json
  | some v => Json.mkObj [("ok", f v)]
  | none => Json.mkObj [("err", Json.str "KeyError")]

def optNullJ {α} (f : α → Json) : Option α → Json
  | some v => f v
  | none => Json.null

def matOf (s : String) : Materializer := (Materializer.ofName s).getD .pandas
def outOf (s : String) : Output := (Output.ofName s).getD .pandas
def orderingOf : String → SpecMeta.Ordering
  | "none" => .none | "sort" => .sort | _ => .degree

/-- sort (key, json) pairs by key for canonical output of dicts whose order is not observable -/
def sortByKey (xs : List (Str × Json)) : List (Str × Json) :=
  (sortStrs (xs.map (·.1))).filterMap (fun k => (xs.find? (fun e => e.1 == k)).map (fun e => (k, e.2)))

/-- canonical output of a set of variables: sorted by name -/
def varsJ (vs : List Var) : Json :=
  jlist ((sortByKey (vs.map (fun v => (v.name, varJ v)))).map (·.2))

def rowJ (r : Row) : Json := Json.mkObj [("term", termJ r.term), ("columns", jlist (r.columns.map sJ))]

def reqTermOf (j : Json) : ReqTerm :=
  { term := termOf (jval j "t"), literal := (jarr j "lit").map asBool }

def parsedOf (j : Json) : ParsedSpec :=
  match jstr j "p" with
  | "structured" => .structured
  | "formula" => .formula ((jarr j "terms").map termOf)
  | _ => .terms ((jarr j "terms").map reqTermOf)

def identOf (j : Json) : AnyIdent :=
  match jstr j "kind" with
  | "int" => .int (jint j "i")
  | "slice" => .slice ⟨optIntOf (jval j "a"), optIntOf (jval j "b"), optIntOf (jval j "c")⟩
  | "unhashable" => .unhashable
  | _ => .other

def subJ (sp : Spec) : Json :=
  Json.mkObj [
    ("rows", match sp.structure? with
      | some st => jlist (st.map rowJ)
      | none => Json.null),
    ("names", match sp.structure? with
      | some st => jlist ((columnNames st).map sJ)
      | none => Json.null),
    ("formula", jlist (sp.formula.map termJ))]

/-- bind the structure of the spec (RuntimeError when it is not populated) -/
def withSt {α} (sp : Spec) (f : Structure → Except PyErr α) : Except PyErr α :=
  match sp.st with
  | .ok st => f st
  | .error e => .error e

def probe (sp : Spec) (j : Json) : Json :=
  let ti := fun (k : Key) => withSt sp (fun st => (termIndices st).get k)
  let ts := fun (k : Key) => withSt sp (fun st => (termSlices st).get k)
  let tin := fun (k : Key) => sp.attr (fun st => (termIndices st).contains k)
  let tget := fun (k : Key) => withSt sp (fun st => (termIndices st).getDefault k)
  match jstr j "k" with
  | "term" =>
    let t := mkTerm (termOf (jval j "t"))
    Json.mkObj [
      ("ti", resJ natsJ (ti (.term t))),
      ("ts", resJ sliceJ (ts (.term t))),
      ("in", resJ Json.bool (tin (.term t))),
      ("get", resJ (optNullJ natsJ) (tget (.term t))),
      ("gs", resJ pySliceJ (sp.getSlice (.term t)))]
  | "str" =>
    let s := sOf (jval j "s")
    Json.mkObj [
      ("ti", resJ natsJ (ti (.str s))),
      ("ts", resJ sliceJ (ts (.str s))),
      ("in", resJ Json.bool (tin (.str s))),
      ("get", resJ (optNullJ natsJ) (tget (.str s))),
      ("gs", resJ pySliceJ (sp.getSlice (.str s))),
      ("ci", match sp.st with
        | .ok st => optJ (fun (n : Nat) => Json.num (n : Nat)) ((columnIndices st).lookup s)
        | .error e => Json.mkObj [("err", Json.str e.name)]),
      ("gci", resJ natsJ (sp.getColumnIndices [s]))]
  | "var" =>
    let v := sOf (jval j "s")
    Json.mkObj [
      ("vi", match withSt sp variableIndices with
        | .ok d => optJ natsJ (d.lookup v)
        | .error e => Json.mkObj [("err", Json.str e.name)]),
      ("gvi", resJ natsJ (withSt sp (fun st => getVariableIndices st [v])))]
  | "cols" =>
    resJ natsJ (sp.getColumnIndices ((jarr j "names").map sOf))
  | "ident" =>
    Json.mkObj [("gs", resJ pySliceJ (sp.getSlice (identOf j)))]
  | "tidx" =>
    resJ natsJ (sp.getTermIndices (orderingOf (jstr j "ordering")) (parsedOf (jval j "spec")))
  | "subset" =>
    resJ subJ (sp.subset (orderingOf (jstr j "ordering")) (parsedOf (jval j "spec")))
  | k => jerr ("unknown probe " ++ k)

/-! ### histories of accessor calls on the cached mappings -/

def keyOf (j : Json) : Key :=
  match jstr j "k" with
  | "term" => .term (mkTerm (termOf (jval j "t")))
  | _ => .str (sOf (jval j "s"))

def anyIdentOf (j : Json) : AnyIdent :=
  match jstr j "k" with
  | "term" => .term (mkTerm (termOf (jval j "t")))
  | "str" => .str (sOf (jval j "s"))
  | _ => identOf j

def opOf (j : Json) : Op :=
  match jstr j "op" with
  | "ti" => .tiItem (keyOf (jval j "key"))
  | "ti_get" => .tiGet (keyOf (jval j "key"))
  | "ti_in" => .tiIn (keyOf (jval j "key"))
  | "ts" => .tsItem (keyOf (jval j "key"))
  | "ts_get" => .tsGet (keyOf (jval j "key"))
  | "ts_in" => .tsIn (keyOf (jval j "key"))
  | "gs" => .slice (anyIdentOf (jval j "key"))
  | "tidx" => .termIdx (orderingOf (jstr j "ordering")) (parsedOf (jval j "spec"))
  | "ci" => .colItem (sOf (jval j "s"))
  | "cols" => .colIdx ((jarr j "names").map sOf)
  | "vi" => .varItem (sOf (jval j "s"))
  | _ => .varIdx ((jarr j "names").map sOf)

def opValJ : OpVal → Json
  | .nats xs => natsJ xs
  | .optNats xs => optNullJ natsJ xs
  | .range r => sliceJ r
  | .optRange r => optNullJ sliceJ r
  | .bool b => Json.bool b
  | .pyslice p => pySliceJ p
  | .nat n => Json.num (n : Nat)

def stateJ (s : SpecState) : Json :=
  Json.mkObj [
    ("term_indices", jlist (s.ti.map (fun e => jlist [termJ e.1, natsJ e.2]))),
    ("term_slices", jlist (s.ts.map (fun e => jlist [termJ e.1, sliceJ e.2]))),
    ("column_indices", jlist (s.ci.map (fun e => jlist [sJ e.1, Json.num (e.2 : Nat)]))),
    ("term_variables", jlist (s.tv.map (fun e => jlist [termJ e.1, varsJ e.2])))]

/-- run the forwarded history on the state of the materialized spec: outcomes and final state -/
def historyJ (sp : Spec) (ops : List Json) : Json :=
  match sp.structure? with
  | none => Json.null
  | some st =>
    let r := (SpecState.init sp.formula st).run (ops.map opOf)
    Json.mkObj [("out", jlist (r.2.map (resJ opValJ))), ("after", stateJ r.1)]

def handleMeta (j : Json) : Json :=
  let sp := specOf j
  let mode := combineMode (matOf (jstr j "materializer")) (outOf (jstr j "output"))
  let strsJ := fun (xs : List Str) => jlist ((sortStrs xs).map sJ)
  let termsJ := fun (ts : List SpecMeta.Term) => jlist ((sortStrs (ts.map termHash)).map sJ)
  Json.mkObj [
    ("column_names", resJ (fun xs => jlist (xs.map sJ)) (sp.attr columnNames)),
    ("labels", resJ (fun xs => jlist (xs.map sJ)) (sp.attr (matrixLabels mode))),
    ("column_indices", resJ (fun d => jlist (d.map (fun e => jlist [sJ e.1, Json.num (e.2 : Nat)])))
      (sp.attr columnIndices)),
    ("term_indices", resJ (fun d => jlist (d.map (fun e => jlist [termJ e.1, natsJ e.2]))) (sp.attr termIndices)),
    ("term_slices", resJ (fun d => jlist (d.map (fun e => jlist [termJ e.1, sliceJ e.2]))) (sp.attr termSlices)),
    ("term_variables", resJ (fun d => jlist (d.map (fun e => jlist [termJ e.1, varsJ e.2])))
      (sp.attr termVariablesFull)),
    ("variable_terms", resJ (fun d => jlist ((sortByKey (d.map (fun e => (e.1, termsJ e.2)))).map
      (fun e => jlist [sJ e.1, e.2]))) (sp.attr variableTerms)),
    ("variable_indices", resJ (fun d => jlist ((sortByKey (d.map (fun e => (e.1, natsJ e.2)))).map
      (fun e => jlist [sJ e.1, e.2]))) (withSt sp variableIndices)),
    ("term_factors", jlist ((termFactors sp.formula).map (fun e => jlist [termJ e.1, strsJ e.2]))),
    ("factors", strsJ (factors sp.formula)),
    ("factor_terms", jlist ((sortByKey ((factorTerms sp.formula).map (fun e => (e.1, termsJ e.2)))).map
      (fun e => jlist [sJ e.1, e.2]))),
    ("factor_variables", resJ (fun d => jlist ((sortByKey (d.map (fun e => (e.1, varsJ e.2)))).map
      (fun e => jlist [sJ e.1, e.2]))) (withSt sp (factorVariables sp.formula))),
    ("factor_contrasts", strsJ (factorContrastKeys sp.formula sp.enc)),
    ("variables", resJ varsJ (sp.attr variables)),
    ("variables_by_source", resJ (fun d => jlist ((sortByKey (d.map (fun e =>
        (match e.1 with | some s => 's' :: s | none => ['n'], jlist [optStrJ e.1, strsJ e.2])))).map (·.2)))
      (sp.attr variablesBySource)),
    ("required_variables", resJ strsJ (sp.attr requiredVariables)),
    ("probes", jlist ((jarr j "probes").map (probe sp))),
    ("history", historyJ sp (jarr j "history"))]

/-! ### `ModelSpecs` -/

partial def treeOf {α} [Inhabited α] (leaf : Json → α) (j : Json) : St.Val α :=
  match j.getObjVal? "leaf" with
  | .ok l => .leaf (leaf l)
  | .error _ =>
    match j.getObjVal? "tup" with
    | .ok t => .tup ((asArr t).map (treeOf leaf))
    | .error _ => .node ((jarr j "node").map (fun kv =>
        match asArr kv with
        | [k, v] => (asStr k, treeOf leaf v)
        | _ => ("", .node [])))

partial def treeJ {α} (leaf : α → Json) : St.Val α → Json
  | .leaf a => Json.mkObj [("leaf", leaf a)]
  | .tup vs => Json.mkObj [("tup", jlist (vs.map (treeJ leaf)))]
  | .node kvs => Json.mkObj [("node", jlist (kvs.map (fun kv => jlist [Json.str kv.1, treeJ leaf kv.2])))]

def handleSpecs (j : Json) : Json :=
  let specs := treeOf specOf (jval j "specs")
  Json.mkObj [
    ("required_variables", jlist ((sortStrs (specsRequiredVariables
      ((St.flatten specs).filterMap (·.structure?)))).map sJ)),
    ("probes", jlist ((jarr j "probes").map (fun p =>
      resJ (treeJ subJ) (specsSubset specs (treeOf (fun l => (asArr l).map termOf) (jval p "parsed"))))))]

def handle (j : Json) : Json :=
  match jstr j "op" with
  | "meta" => handleMeta j
  | "specs" => handleSpecs j
  | "split" => Json.mkObj [("factors", jlist ((matchFactors (sOf (jval j "s"))).map sJ))]
  | o => jerr ("unknown op " ++ o)

end FormulaicVerif.Engines.C10
