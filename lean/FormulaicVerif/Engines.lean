import FormulaicVerif.Engines.Json
import FormulaicVerif.Engines.C20
/-! Dispatch table of the line-protocol driver: engine name ↦ handler. -/
namespace FormulaicVerif.Engines
open Lean

def dispatch (e : String) (j : Json) : Json :=
  match e with
  | "c20" => C20.handle j
  | _ => jerr ("unknown engine " ++ e)

end FormulaicVerif.Engines
