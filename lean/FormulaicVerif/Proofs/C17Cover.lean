import FormulaicVerif.Proofs.C17Required
/-! Helper lemmas for C17: every data column the formula reads is in the reported sets (under the
side conditions). Not obligations. -/
namespace FormulaicVerif.Proofs.C17
open FormulaicVerif.Model.Variables FormulaicVerif.Model.LMap FormulaicVerif.Spec.Variables
variable {ν : Type}

/-- a data column read by a Python factor occurs as a bare name -/
theorem bare_occurrence (L : Layers ν) (c : PyCode) (hp : PlainUse L c) (k : String) (hk : k ∈ dataKeys L)
    (id : String) (hid : id ∈ freeNames c.ast) (hu : unalias c.aliases id = k) :
    ∃ o ∈ occs c.ast, o.base = id ∧ o.chain = o.base := by
  obtain ⟨o, ho, hb⟩ := (mem_freeNames_iff id c.ast).1 hid
  refine ⟨o, ho, hb, ?_⟩
  by_cases hc : o.chain = o.base
  · exact hc
  · exact absurd (by rw [hb, hu]; exact hk) (hp.noAttrOnData o ho hc)

/-- after materialisation: every variable named like a data column carries the source `data` -/
theorem data_named_source (ops : Ops ν) (L : Layers ν) (f : PFactor) (hok : FactorOK L f)
    (hpl : FactorPlain L f) (r : ν × List Var) (h : evalFactor ops L f = .ok r) (w : Var) (hw : w ∈ r.2)
    (hk : w.name ∈ dataKeys L) : w.source = some "data" := by
  cases hkind : f.kind with
  | lookup =>
    obtain ⟨layer, h1, h2⟩ := lookup_vars ops L f hkind r h
    rw [h2] at hw
    have : w = Var.ofValue f.expr layer := by simpa using hw
    subst this
    obtain ⟨v, hv⟩ := firstLayer_data L f.expr (by simpa [Var.ofValue] using hk)
    rw [hv] at h1
    simp only [Option.some.injEq, Prod.mk.injEq] at h1
    simp [Var.ofValue, ← h1.2]
  | literal =>
    simp only [evalFactor, hkind, Except.ok.injEq] at h
    subst h; cases hw
  | python oc =>
    cases oc with
    | none => simp only [evalFactor, hkind] at h; cases h
    | some c =>
      have hok1 : AliasOK L c := by simpa [FactorOK, hkind] using hok
      have hp : PlainUse L c := by simpa [FactorPlain, hkind] using hpl
      rw [python_vars ops L f c hkind r h] at hw
      obtain ⟨o, ho, hn, hs⟩ := exprVariables_mem c _ w hw
      by_cases hc : o.chain = o.base
      · have hroot := hp.noDotQuoted o ho hc
        rw [hs, hc, hroot]
        rw [layerName_evalEnv L c hok1 _ (aliasVal_unalias L c hok1 o.base)]
        obtain ⟨v, hv⟩ := firstLayer_data L (unalias c.aliases o.base) (by rw [← hc, ← hn]; exact hk)
        rw [hv]
      · exact absurd (by rw [← hn]; exact hk) (hp.noCollision o ho hc)

theorem cover_post (ops : Ops ν) (L : Layers ν) (fs : List PFactor)
    (hok : ∀ f ∈ fs, FactorOK L f) (hpl : ∀ f ∈ fs, FactorPlain L f)
    (vals : List ν) (vars : List Var) (hm : materialize ops L fs = .ok (vals, vars))
    (k : String) (hk : k ∈ usedColumns L fs) : k ∈ specRequired vars := by
  obtain ⟨hread, hdata⟩ := (mem_usedColumns L fs k).1 hk
  obtain ⟨rs, hrs, _, hvars⟩ := materialize_ok ops L fs vals vars hm
  obtain ⟨f, hf, hkf⟩ := List.mem_flatMap.1 hread
  obtain ⟨r, hr⟩ := evalFactors_each ops L fs rs hrs f hf
  -- some recorded variable is named k
  have hex : ∃ w ∈ rs.flatMap (·.2), w.name = k := by
    cases hkind : f.kind with
    | lookup =>
      obtain ⟨layer, _, h2⟩ := lookup_vars ops L f hkind r hr
      have : k = f.expr := by simpa [factorReads, hkind] using hkf
      exact ⟨Var.ofValue f.expr layer, (evalFactors_vars ops L fs rs hrs _).2 ⟨f, hf, r, hr, by rw [h2]; simp⟩,
        by simp [Var.ofValue, this]⟩
    | literal => simp [factorReads, hkind] at hkf
    | python oc =>
      cases oc with
      | none => simp [factorReads, hkind] at hkf
      | some c =>
        have hp : PlainUse L c := by simpa [FactorPlain, hkind] using hpl f hf
        simp only [factorReads, hkind, List.mem_map] at hkf
        obtain ⟨id, hid, hidk⟩ := hkf
        obtain ⟨o, ho, hb, hc⟩ := bare_occurrence L c hp k hdata id hid hidk
        obtain ⟨u, hu, hun⟩ := exprVariables_exists c (evalEnv L c.aliases) o ho
        refine ⟨u, (evalFactors_vars ops L fs rs hrs _).2 ⟨f, hf, r, hr, ?_⟩, by rw [hun, hc, hb, hidk]⟩
        rw [python_vars ops L f c hkind r hr]; exact hu
  obtain ⟨w, hw, hwn⟩ := hex
  obtain ⟨u, hu, hun⟩ := union_names _ w hw
  obtain ⟨w', hw', hwn', hws'⟩ := union_from _ u hu
  obtain ⟨f', hf', r', hr', hwr'⟩ := (evalFactors_vars ops L fs rs hrs w').1 hw'
  have hsrc : w'.source = some "data" :=
    data_named_source ops L f' (hok f' hf') (hpl f' hf') r' hr' w' hwr' (by rw [hwn', hun, hwn]; exact hdata)
  rw [hvars]
  simp only [specRequired, List.mem_map, List.mem_filter]
  exact ⟨u, ⟨hu, by rw [← hws', hsrc]; simp⟩, by rw [hun, hwn]⟩

theorem cover_pre (L : Layers ν) (fs : List PFactor)
    (hpl : ∀ f ∈ fs, FactorPlain L f) (hpb : ∀ f ∈ fs, FactorPlainBefore L f)
    (pre : List Var) (hp : formulaRequired fs = .ok pre)
    (k : String) (hk : k ∈ usedColumns L fs) : k ∈ pre.map (·.name) := by
  obtain ⟨hread, hdata⟩ := (mem_usedColumns L fs k).1 hk
  obtain ⟨all, hall, hpre⟩ := formulaRequired_ok fs pre hp
  obtain ⟨f, hf, hkf⟩ := List.mem_flatMap.1 hread
  obtain ⟨vs, hvs⟩ := factorsRequired_each fs all hall f hf
  have hex : ∃ w ∈ vs, w.name = k := by
    cases hkind : f.kind with
    | lookup =>
      simp only [factorRequired, hkind, Except.ok.injEq] at hvs
      subst hvs
      have : k = f.expr := by simpa [factorReads, hkind] using hkf
      exact ⟨Var.ofValue f.expr, by simp, by simp [Var.ofValue, this]⟩
    | literal => simp [factorReads, hkind] at hkf
    | python oc =>
      cases oc with
      | none => simp [factorReads, hkind] at hkf
      | some c =>
        have hp1 : PlainUse L c := by simpa [FactorPlain, hkind] using hpl f hf
        have hp2 : PlainBefore L c := by simpa [FactorPlainBefore, hkind] using hpb f hf
        simp only [factorRequired, hkind, Except.ok.injEq] at hvs
        subst hvs
        simp only [factorReads, hkind, List.mem_map] at hkf
        obtain ⟨id, hid, hidk⟩ := hkf
        obtain ⟨o, ho, hb, hc⟩ := bare_occurrence L c hp1 k hdata id hid hidk
        have ha : o.toVar c.aliases ∈ astVariables c.ast c.aliases := (astVariables_mem _ _ _).2 ⟨o, ho, rfl⟩
        obtain ⟨u, hu, hun⟩ := exists_dedupFirst _ _ ha
        have hname : u.name = k := by rw [hun, toVar_name, hc, hb, hidk]
        obtain ⟨o', ho', hou⟩ := (astVariables_mem _ _ u).1 (mem_dedupFirst _ u hu)
        have hn' : unalias c.aliases o'.chain = k := by rw [← hname, hou, toVar_name]
        have hval : u.value = true := by
          rw [hou, toVar_value]
          cases hcall : o'.callable with
          | false => rfl
          | true => exact absurd (by rw [hn']; exact hdata) (hp2.noCallableData o' ho' hcall)
        have htr : isTransformRoot u.name = false := by
          rw [hname, ← hidk, ← hb]
          exact hp2.noTransformNamed o ho (by rw [hb, hidk]; exact hdata)
        exact ⟨u, List.mem_filter.2 ⟨hu, by simp [hval, htr]⟩, hname⟩
  obtain ⟨w, hw, hwn⟩ := hex
  have hwall : w ∈ all := (factorsRequired_mem fs all hall w).2 ⟨f, hf, vs, hvs, hw⟩
  obtain ⟨u, hu, hun⟩ := union_names _ w hwall
  rw [hpre]
  exact List.mem_map.2 ⟨u, hu, by rw [hun, hwn]⟩

end FormulaicVerif.Proofs.C17
