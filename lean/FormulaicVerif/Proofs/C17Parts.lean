import FormulaicVerif.Proofs.C17Cover
import FormulaicVerif.Proofs.C17Dot
/-! Helper lemmas for C17: formulas with several parts (`ModelSpecs`). Not obligations. -/
namespace FormulaicVerif.Proofs.C17
open FormulaicVerif.Model FormulaicVerif.Model.Variables FormulaicVerif.Model.LMap FormulaicVerif.Spec.Variables
open FormulaicVerif.Spec.Containers FormulaicVerif.Proofs.C19
variable {ν : Type}

theorem evalFactors_of_each (ops : Ops ν) (L : Layers ν) :
    ∀ (fs : List PFactor), (∀ f ∈ fs, ∃ r, evalFactor ops L f = .ok r) → ∃ rs, evalFactors ops L fs = .ok rs
  | [], _ => ⟨[], rfl⟩
  | g :: fs, h => by
    obtain ⟨r, hr⟩ := h g (by simp)
    obtain ⟨rs, hrs⟩ := evalFactors_of_each ops L fs (fun f hf => h f (by simp [hf]))
    exact ⟨r :: rs, by simp only [evalFactors, hr, hrs]⟩

theorem materialize_isOk_iff (ops : Ops ν) (L : Layers ν) (fs : List PFactor) :
    (∃ r, materialize ops L fs = .ok r) ↔ ∀ f ∈ fs, ∃ r, evalFactor ops L f = .ok r := by
  constructor
  · rintro ⟨⟨vals, vars⟩, h⟩
    obtain ⟨rs, hrs, _, _⟩ := materialize_ok ops L fs vals vars h
    exact evalFactors_each ops L fs rs hrs
  · intro h
    obtain ⟨rs, hrs⟩ := evalFactors_of_each ops L fs h
    exact ⟨_, by simp only [materialize, hrs]; rfl⟩

/-- every part of a formula that materialises materialises on its own -/
theorem part_ok (ops : Ops ν) (L : Layers ν) (ps : List (List PFactor))
    (h : ∃ r, materialize ops L ps.flatten = .ok r) (p : List PFactor) (hp : p ∈ ps) :
    ∃ r, materialize ops L p = .ok r := by
  rw [materialize_isOk_iff] at h ⊢
  exact fun f hf => h f (List.mem_flatten.2 ⟨p, hp, hf⟩)

theorem mem_specsRequired (ops : Ops ν) (L : Layers ν) (ps : List (List PFactor)) (k : String) :
    k ∈ specsRequired ops L ps ↔ ∃ p ∈ ps, k ∈ specRequired (partVars ops L p) := by
  simp only [specsRequired]
  have : dedupBy id (ps.flatMap (fun p => specRequired (partVars ops L p)))
      = firstOcc (ps.flatMap (fun p => specRequired (partVars ops L p))) := dedup_eq _
  rw [this, mem_firstOcc, List.mem_flatMap]

theorem usedColumns_flatten (L : Layers ν) (ps : List (List PFactor)) (k : String) :
    k ∈ usedColumns L ps.flatten ↔ ∃ p ∈ ps, k ∈ usedColumns L p := by
  simp only [mem_usedColumns, reads, List.mem_flatMap, List.mem_flatten]
  constructor
  · rintro ⟨⟨f, ⟨p, hp, hf⟩, hk⟩, hd⟩
    exact ⟨p, hp, ⟨f, hf, hk⟩, hd⟩
  · rintro ⟨p, hp, ⟨f, hf, hk⟩, hd⟩
    exact ⟨⟨f, ⟨p, hp, hf⟩, hk⟩, hd⟩

/-- every data column some part reads is in the union of the parts' required sets -/
theorem cover_parts (ops : Ops ν) (L : Layers ν) (ps : List (List PFactor))
    (hok : ∀ p ∈ ps, ∀ f ∈ p, FactorOK L f) (hpl : ∀ p ∈ ps, ∀ f ∈ p, FactorPlain L f)
    (hm : ∃ r, materialize ops L ps.flatten = .ok r) (k : String) (hk : k ∈ usedColumns L ps.flatten) :
    k ∈ specsRequired ops L ps := by
  obtain ⟨p, hp, hkp⟩ := (usedColumns_flatten L ps k).1 hk
  obtain ⟨⟨vals, vars⟩, hr⟩ := part_ok ops L ps hm p hp
  refine (mem_specsRequired ops L ps k).2 ⟨p, hp, ?_⟩
  have : partVars ops L p = vars := by simp only [partVars, hr]
  rw [this]
  exact cover_post ops L p (hok p hp) (hpl p hp) vals vars hr k hkp

/-- a variable some part reports by a bare name is a key that part — hence the formula — reads -/
theorem parts_name_read (ops : Ops ν) (L : Layers ν) (ps : List (List PFactor))
    (hm : ∃ r, materialize ops L ps.flatten = .ok r) (v : String) (hv : v ∈ specsRequired ops L ps)
    (hb : BareVar ps.flatten v) : v ∈ reads ps.flatten := by
  obtain ⟨p, hp, hvp⟩ := (mem_specsRequired ops L ps v).1 hv
  obtain ⟨⟨vals, vars⟩, hr⟩ := part_ok ops L ps hm p hp
  have hpv : partVars ops L p = vars := by simp only [partVars, hr]
  rw [hpv] at hvp
  have hv' : v ∈ vars.map (·.name) := by
    simp only [specRequired, List.mem_map, List.mem_filter] at hvp ⊢
    obtain ⟨u, ⟨hu1, _⟩, hu2⟩ := hvp
    exact ⟨u, hu1, hu2⟩
  have hbp : BareVar p v := fun f hf c hc o ho hn => hb f (List.mem_flatten.2 ⟨p, hp, hf⟩) c hc o ho hn
  have := post_name_read ops L p vals vars hr v hv' hbp
  obtain ⟨f, hf, hvf⟩ := List.mem_flatMap.1 this
  exact List.mem_flatMap.2 ⟨f, List.mem_flatten.2 ⟨p, hp, hf⟩, hvf⟩

/-- a part made of looked-up names only reports (a subset of) those names -/
theorem lookup_part_required (ops : Ops ν) (L : Layers ν) (names : List String) (vals : List ν) (vars : List Var)
    (hm : materialize ops L (names.map (fun n => (⟨n, .lookup⟩ : PFactor))) = .ok (vals, vars)) :
    ∀ v ∈ specRequired vars, v ∈ names := by
  intro v hv
  have hv' : v ∈ vars.map (·.name) := by
    simp only [specRequired, List.mem_map, List.mem_filter] at hv ⊢
    obtain ⟨u, ⟨hu1, _⟩, hu2⟩ := hv
    exact ⟨u, hu1, hu2⟩
  have hb : BareVar (names.map (fun n => (⟨n, .lookup⟩ : PFactor))) v := by
    intro f hf c hc
    obtain ⟨n, _, hn⟩ := List.mem_map.1 hf
    subst hn; cases hc
  have := post_name_read ops L _ vals vars hm v hv' hb
  obtain ⟨f, hf, hvf⟩ := List.mem_flatMap.1 this
  obtain ⟨n, hn, hfn⟩ := List.mem_map.1 hf
  subst hfn
  simp only [factorReads, List.mem_singleton] at hvf
  rw [hvf]; exact hn

end FormulaicVerif.Proofs.C17
