import FormulaicVerif.Proofs.C09Ext
/-! Helper lemmas for `Props.C09.replay_order_irrelevant`: the iteration order of the pooled factor set
(a Python `set`) does not influence a reuse. The dropped rows matter only as a set, the factor cache
only through lookups, and every factor is evaluated on its own. Core Lean only. -/
namespace FormulaicVerif.Proofs.C09
open FormulaicVerif.Model.Reuse

/-! ### lists of dropped positions matter only as sets -/

def DropEq (d₁ d₂ : List Nat) : Prop := ∀ i, i ∈ d₁ ↔ i ∈ d₂

/-- for an element of the list, the number of distinct elements is one more than that of the rest -/
theorem eraseDups_length_of_mem (n : Nat) : ∀ (l : List Nat), l.length ≤ n → ∀ a ∈ l,
    l.eraseDups.length = 1 + (l.filter (fun b => !b == a)).eraseDups.length := by
  induction n with
  | zero =>
    intro l hl a ha
    cases l with
    | nil => simp at ha
    | cons x xs => simp at hl
  | succ n ih =>
    intro l hl a ha
    cases l with
    | nil => simp at ha
    | cons b bs =>
      rw [List.eraseDups_cons]
      by_cases hba : b = a
      · subst hba
        simp [Nat.add_comm]
      · have ha' : a ∈ bs := by
          rcases List.mem_cons.mp ha with h | h
          · exact absurd h.symm hba
          · exact h
        have hmem : a ∈ bs.filter (fun c => !c == b) := by
          rw [List.mem_filter]; exact ⟨ha', by simpa using fun h => hba h.symm⟩
        have hlen : (bs.filter (fun c => !c == b)).length ≤ n := by
          have := List.length_filter_le (fun c => !c == b) bs
          simp only [List.length_cons] at hl
          omega
        rw [List.length_cons, ih _ hlen a hmem]
        have hf : (b :: bs).filter (fun c => !c == a) = b :: bs.filter (fun c => !c == a) := by
          simp [hba]
        rw [hf, List.eraseDups_cons, List.length_cons, List.filter_filter, List.filter_filter]
        have : (fun c : Nat => (!c == a) && (!c == b)) = (fun c : Nat => (!c == b) && (!c == a)) := by
          funext c; exact Bool.and_comm _ _
        rw [this]
        omega

theorem eraseDups_length_congr (n : Nat) : ∀ (l₁ l₂ : List Nat), l₁.length ≤ n → DropEq l₁ l₂ →
    l₁.eraseDups.length = l₂.eraseDups.length := by
  induction n with
  | zero =>
    intro l₁ l₂ hl h
    cases l₁ with
    | nil =>
      cases l₂ with
      | nil => rfl
      | cons y ys => exact absurd ((h y).mpr (by simp)) (by simp)
    | cons x xs => simp at hl
  | succ n ih =>
    intro l₁ l₂ hl h
    cases l₁ with
    | nil =>
      cases l₂ with
      | nil => rfl
      | cons y ys => exact absurd ((h y).mpr (by simp)) (by simp)
    | cons a as =>
      have ha2 : a ∈ l₂ := (h a).mp (by simp)
      rw [eraseDups_length_of_mem _ (a :: as) (Nat.le_refl _) a (by simp),
        eraseDups_length_of_mem _ l₂ (Nat.le_refl _) a ha2]
      congr 1
      apply ih
      · have := List.length_filter_le (fun b => !b == a) (a :: as)
        have h2 : ((a :: as).filter (fun b => !b == a)).length ≤ as.length := by
          simp only [List.filter_cons, beq_self_eq_true, Bool.not_true, Bool.false_eq_true, if_false]
          exact List.length_filter_le _ _
        simp only [List.length_cons] at hl
        omega
      · intro i
        simp only [List.mem_filter]
        rw [h i]

theorem nRetained_congr (fr : Frame) (d₁ d₂ : List Nat) (h : DropEq d₁ d₂) : nRetained fr d₁ = nRetained fr d₂ := by
  unfold nRetained
  rw [eraseDups_length_congr _ d₁ d₂ (Nat.le_refl _) h]

theorem dropAux_congr {α} (d₁ d₂ : List Nat) (h : DropEq d₁ d₂) :
    ∀ (xs : List α) (i : Nat), dropAux d₁ i xs = dropAux d₂ i xs := by
  intro xs
  induction xs with
  | nil => intro i; rfl
  | cons x r ih =>
    intro i
    have hc : d₁.contains i = d₂.contains i := by
      rw [Bool.eq_iff_iff, List.contains_iff_mem, List.contains_iff_mem]; exact h i
    simp only [dropAux, hc, ih]

theorem dropRows_congr {α} (d₁ d₂ : List Nat) (h : DropEq d₁ d₂) (xs : List α) :
    dropRows d₁ xs = dropRows d₂ xs := dropAux_congr d₁ d₂ h xs 0


/-! ### the build reads the cache through lookups and the dropped rows as a set -/

def CacheEq (c₁ c₂ : Cache) : Prop := ∀ k, dget k c₁ = dget k c₂

theorem encodeFactor_congr_drop (s : Spec) (fr : Frame) (d₁ d₂ : List Nat) (h : DropEq d₁ d₂) (ev : Evaled)
    (red : Bool) : encodeFactor s fr d₁ ev red = encodeFactor s fr d₂ ev red := by
  simp only [encodeFactor, dropRows_congr d₁ d₂ h, nRetained_congr fr d₁ d₂ h]

theorem encodeAll_congr_drop (s : Spec) (fr : Frame) (d₁ d₂ : List Nat) (h : DropEq d₁ d₂) :
    ∀ fs, encodeAll s fr d₁ fs = encodeAll s fr d₂ fs := by
  intro fs
  induction fs with
  | nil => rfl
  | cons p r ih =>
    obtain ⟨ev, red⟩ := p
    simp only [encodeAll, encodeFactor_congr_drop s fr d₁ d₂ h, ih]

theorem scopedTermColumns_congr_drop (s : Spec) (fr : Frame) (d₁ d₂ : List Nat) (h : DropEq d₁ d₂)
    (scale : Rat) (fs : List (Evaled × Bool)) :
    scopedTermColumns s fr d₁ scale fs = scopedTermColumns s fr d₂ scale fs := by
  cases fs with
  | nil => simp only [scopedTermColumns, nRetained_congr fr d₁ d₂ h]
  | cons p r => simp only [scopedTermColumns, encodeAll_congr_drop s fr d₁ d₂ h]

theorem termLoop_congr_drop (s : Spec) (fr : Frame) (d₁ d₂ : List Nat) (h : DropEq d₁ d₂) :
    ∀ l acc w, termLoop s fr d₁ l acc w = termLoop s fr d₂ l acc w := by
  intro l
  induction l with
  | nil => intro acc w; rfl
  | cons x r ih =>
    intro acc w
    obtain ⟨scale, fs⟩ := x
    simp only [termLoop, scopedTermColumns_congr_drop s fr d₁ d₂ h, ih]

theorem rehydrate_congr (c₁ c₂ : Cache) (h : CacheEq c₁ c₂) (st : ScopedTerm) :
    rehydrate c₁ st = rehydrate c₂ st := by
  unfold rehydrate
  congr 1
  funext sf
  rw [h sf.expr]

theorem termColumns_congr_cd (s : Spec) (fr : Frame) (d₁ d₂ : List Nat) (hd : DropEq d₁ d₂)
    (c₁ c₂ : Cache) (hc : CacheEq c₁ c₂) (t : TermStruct) :
    termColumns s fr d₁ c₁ t = termColumns s fr d₂ c₂ t := by
  simp only [termColumns, rehydrate_congr c₁ c₂ hc]
  split
  · rfl
  · exact termLoop_congr_drop s fr d₁ d₂ hd _ [] false

theorem generateAll_congr_cd (s : Spec) (fr : Frame) (d₁ d₂ : List Nat) (hd : DropEq d₁ d₂)
    (c₁ c₂ : Cache) (hc : CacheEq c₁ c₂) :
    ∀ ts, generateAll s fr d₁ c₁ ts = generateAll s fr d₂ c₂ ts := by
  intro ts
  induction ts with
  | nil => rfl
  | cons t r ih => simp only [generateAll, termColumns_congr_cd s fr d₁ d₂ hd c₁ c₂ hc, ih]

theorem buildMatrix_congr_cd (s : Spec) (fr : Frame) (d₁ d₂ : List Nat) (hd : DropEq d₁ d₂)
    (c₁ c₂ : Cache) (hc : CacheEq c₁ c₂) : buildMatrix s fr d₁ c₁ = buildMatrix s fr d₂ c₂ := by
  simp only [buildMatrix, generateAll_congr_cd s fr d₁ d₂ hd c₁ c₂ hc, nRetained_congr fr d₁ d₂ hd]

theorem buildAll_congr_cd (fr : Frame) (d₁ d₂ : List Nat) (hd : DropEq d₁ d₂)
    (c₁ c₂ : Cache) (hc : CacheEq c₁ c₂) : ∀ specs, buildAll fr d₁ c₁ specs = buildAll fr d₂ c₂ specs := by
  intro specs
  induction specs with
  | nil => rfl
  | cons s r ih => simp only [buildAll, buildMatrix_congr_cd s fr d₁ d₂ hd c₁ c₂ hc, ih]


/-! ### the evaluation phase: each factor on its own -/

/-- the rows `_check_for_nulls` adds to `drop_rows` -/
def nullsToDrop (na : NaAction) (cells : List Cell) : Except Err (List Nat) :=
  match na with
  | .ignore => .ok []
  | .raise => if (nullPositionsFrom 0 cells).isEmpty then .ok [] else .error .valueError
  | .drop => .ok (nullPositionsFrom 0 cells)

/-- `_evaluate_factor` without the accumulator: the cache entry and the rows to drop -/
def evalCore (es : EvalSpec) (fr : Frame) (d : FactorDecl) : Except Err (Evaled × List Nat) :=
  match evalValue fr d with
  | .error e => .error e
  | .ok (k0, col) =>
    match guardDeclared d.declared k0 with
    | .error e => .error e
    | .ok k =>
      match guardRecorded es d.expr k with
      | .error e => .error e
      | .ok () =>
        match nullsToDrop es.naAction col.cells with
        | .error e => .error e
        | .ok ns => .ok (⟨d, k, col.cells, col.cats⟩, ns)

theorem evalFactor_eq_core (es : EvalSpec) (fr : Frame) (d : FactorDecl) (drop : List Nat) :
    evalFactor es fr d drop =
      match evalCore es fr d with
      | .error e => .error e
      | .ok (ev, ns) => .ok (ev, drop ++ ns) := by
  unfold evalFactor evalCore
  cases evalValue fr d with
  | error e => rfl
  | ok p =>
    obtain ⟨k0, col⟩ := p
    simp only
    cases guardDeclared d.declared k0 with
    | error e => rfl
    | ok k =>
      simp only
      cases guardRecorded es d.expr k with
      | error e => rfl
      | ok u =>
        simp only
        cases hna : es.naAction with
        | drop => simp [checkNulls, nullsToDrop]
        | raise =>
          simp only [checkNulls, nullsToDrop]
          by_cases hn : (nullPositionsFrom 0 col.cells).isEmpty = true
          · simp [hn]
          · simp [hn]
        | ignore => simp [checkNulls, nullsToDrop]

theorem dget_snoc {α} (k k' : String) (a : List (String × α)) (v : α) :
    dget k (a ++ [(k', v)]) = match dget k a with | some x => some x | none => if k' = k then some v else none := by
  rw [dget_append]
  cases dget k a <;> simp [dget]

/-- a successful evaluation phase over factors with distinct expressions, none of them cached yet:
every factor evaluates on its own, the cache gains exactly their entries, the dropped rows exactly
their null rows -/
theorem evalPhase_char (es : EvalSpec) (fr : Frame) :
    ∀ (fs : List FactorDecl) (cache : Cache) (drop : List Nat),
      fs.Pairwise (fun a b => a.expr ≠ b.expr) → (∀ d ∈ fs, dget d.expr cache = none) →
      (∀ d ∈ fs, ∃ p, evalCore es fr d = .ok p) →
      ∃ cache' drop', evalPhase es fr fs cache drop = .ok (cache', drop') ∧
        (∀ k ev, dget k cache' = some ev ↔
          (dget k cache = some ev ∨ (dget k cache = none ∧ ∃ d ∈ fs, d.expr = k ∧ ∃ ns, evalCore es fr d = .ok (ev, ns)))) ∧
        (∀ i, i ∈ drop' ↔ (i ∈ drop ∨ ∃ d ∈ fs, ∃ ev ns, evalCore es fr d = .ok (ev, ns) ∧ i ∈ ns)) := by
  intro fs
  induction fs with
  | nil =>
    intro cache drop _ _ _
    refine ⟨cache, drop, rfl, ?_, ?_⟩
    · intro k ev; simp
    · intro i; simp
  | cons d r ih =>
    intro cache drop hp hc hok
    rw [List.pairwise_cons] at hp
    obtain ⟨⟨ev, ns⟩, hd⟩ := hok d (by simp)
    have hcd : dget d.expr cache = none := hc d (by simp)
    have hstep : evalPhase es fr (d :: r) cache drop = evalPhase es fr r (cache ++ [(d.expr, ev)]) (drop ++ ns) := by
      simp only [evalPhase, hcd, evalFactor_eq_core, hd]
    obtain ⟨cache', drop', hrun, hcache, hdrop⟩ := ih (cache ++ [(d.expr, ev)]) (drop ++ ns) hp.2
      (fun d' hd' => dget_snoc_ne _ _ _ _ (hp.1 d' hd') (hc d' (by simp [hd'])))
      (fun d' hd' => hok d' (by simp [hd']))
    refine ⟨cache', drop', by rw [hstep, hrun], ?_, ?_⟩
    · intro k ev'
      rw [hcache k ev', dget_snoc]
      by_cases hk : d.expr = k
      · subst hk
        simp only [hcd, if_true]
        constructor
        · rintro (h | ⟨h, _⟩)
          · simp only [Option.some.injEq] at h
            subst h
            exact Or.inr ⟨trivial, d, by simp, rfl, ns, hd⟩
          · simp at h
        · rintro (h | ⟨_, d', hd', hk', ns', hcore⟩)
          · simp at h
          · rcases List.mem_cons.mp hd' with rfl | hm
            · rw [hd] at hcore
              simp only [Except.ok.injEq, Prod.mk.injEq] at hcore
              exact Or.inl (by rw [hcore.1])
            · exact absurd hk'.symm (hp.1 d' hm)
      · simp only [hk, if_false]
        cases hkc : dget k cache with
        | some x =>
          simp only
          constructor
          · rintro (h | ⟨h, _⟩)
            · exact Or.inl h
            · simp at h
          · rintro (h | ⟨h, _⟩)
            · exact Or.inl h
            · simp at h
        | none =>
          simp only
          constructor
          · rintro (h | ⟨_, d', hd', hk', ns', hcore⟩)
            · simp at h
            · exact Or.inr ⟨trivial, d', by simp [hd'], hk', ns', hcore⟩
          · rintro (h | ⟨_, d', hd', hk', ns', hcore⟩)
            · simp at h
            · rcases List.mem_cons.mp hd' with rfl | hm
              · exact absurd hk' hk
              · exact Or.inr ⟨trivial, d', hm, hk', ns', hcore⟩
    · intro i
      rw [hdrop i, List.mem_append]
      constructor
      · rintro ((h | h) | ⟨d', hd', ev', ns', hcore, hi⟩)
        · exact Or.inl h
        · exact Or.inr ⟨d, by simp, ev, ns, hd, h⟩
        · exact Or.inr ⟨d', by simp [hd'], ev', ns', hcore, hi⟩
      · rintro (h | ⟨d', hd', ev', ns', hcore, hi⟩)
        · exact Or.inl (Or.inl h)
        · rcases List.mem_cons.mp hd' with rfl | hm
          · rw [hd] at hcore
            simp only [Except.ok.injEq, Prod.mk.injEq] at hcore
            exact Or.inl (Or.inr (by rw [hcore.2]; exact hi))
          · exact Or.inr ⟨d', hm, ev', ns', hcore, hi⟩

/-- … and a successful phase means every factor evaluated on its own -/
theorem evalPhase_ok_all (es : EvalSpec) (fr : Frame) :
    ∀ (fs : List FactorDecl) (cache : Cache) (drop : List Nat) (p : Cache × List Nat),
      fs.Pairwise (fun a b => a.expr ≠ b.expr) → (∀ d ∈ fs, dget d.expr cache = none) →
      evalPhase es fr fs cache drop = .ok p → ∀ d ∈ fs, ∃ q, evalCore es fr d = .ok q := by
  intro fs
  induction fs with
  | nil => intro cache drop p _ _ _ d hd; simp at hd
  | cons d r ih =>
    intro cache drop p hp hc h d' hd'
    rw [List.pairwise_cons] at hp
    have hcd : dget d.expr cache = none := hc d (by simp)
    simp only [evalPhase, hcd, evalFactor_eq_core] at h
    cases hcore : evalCore es fr d with
    | error e => simp [hcore] at h
    | ok q =>
      obtain ⟨ev, ns⟩ := q
      simp only [hcore] at h
      rcases List.mem_cons.mp hd' with rfl | hm
      · exact ⟨_, hcore⟩
      · exact ih _ _ p hp.2
          (fun d'' hd'' => dget_snoc_ne _ _ _ _ (hp.1 d'' hd'') (hc d'' (by simp [hd''])))
          h d' hm


/-! ### two iteration orders of the pooled factor set -/

theorem find_expr (l : List FactorDecl) (e : String) (d : FactorDecl)
    (h : l.find? (fun x => x.expr == e) = some d) : d.expr = e := by
  simpa using List.find?_some h

theorem orderedFactors_pairwise (specs : List Spec) (order : List String) (hn : order.Nodup) :
    (orderedFactors specs order).Pairwise (fun a b => a.expr ≠ b.expr) := by
  unfold orderedFactors
  refine List.Pairwise.filterMap _ ?_ hn
  intro e e' hne d hd d' hd'
  rw [find_expr _ e d hd, find_expr _ e' d' hd']
  exact hne

theorem orderedFactors_mem_congr (specs : List Spec) (o₁ o₂ : List String) (hm : ∀ e, e ∈ o₁ ↔ e ∈ o₂)
    (d : FactorDecl) : d ∈ orderedFactors specs o₁ ↔ d ∈ orderedFactors specs o₂ := by
  simp only [orderedFactors, List.mem_filterMap]
  constructor
  · rintro ⟨e, he, hf⟩; exact ⟨e, (hm e).mp he, hf⟩
  · rintro ⟨e, he, hf⟩; exact ⟨e, (hm e).mpr he, hf⟩

/-- the evaluation phase of two duplicate-free orders over the same expressions: both fail, or both
succeed with caches that agree under lookup and the same set of dropped rows -/
theorem evalPhase_order (es : EvalSpec) (fr : Frame) (fs₁ fs₂ : List FactorDecl)
    (hp₁ : fs₁.Pairwise (fun a b => a.expr ≠ b.expr)) (hp₂ : fs₂.Pairwise (fun a b => a.expr ≠ b.expr))
    (hm : ∀ d, d ∈ fs₁ ↔ d ∈ fs₂) (c₁ : Cache) (d₁ : List Nat)
    (h : evalPhase es fr fs₁ [] [] = .ok (c₁, d₁)) :
    ∃ c₂ d₂, evalPhase es fr fs₂ [] [] = .ok (c₂, d₂) ∧ CacheEq c₁ c₂ ∧ DropEq d₁ d₂ := by
  have hall := evalPhase_ok_all es fr fs₁ [] [] _ hp₁ (by simp [dget]) h
  obtain ⟨c₁', d₁', hrun₁, hc₁, hd₁⟩ := evalPhase_char es fr fs₁ [] [] hp₁ (by simp [dget]) hall
  rw [h] at hrun₁
  simp only [Except.ok.injEq, Prod.mk.injEq] at hrun₁
  obtain ⟨rfl, rfl⟩ := hrun₁
  obtain ⟨c₂, d₂, hrun₂, hc₂, hd₂⟩ := evalPhase_char es fr fs₂ [] [] hp₂ (by simp [dget])
    (fun d hd => hall d ((hm d).mpr hd))
  refine ⟨c₂, d₂, hrun₂, ?_, ?_⟩
  · intro k
    apply Option.ext
    intro ev
    rw [hc₁ k ev, hc₂ k ev]
    constructor
    · rintro (h | ⟨h0, d, hd, hk, ns, hcore⟩)
      · exact Or.inl h
      · exact Or.inr ⟨h0, d, (hm d).mp hd, hk, ns, hcore⟩
    · rintro (h | ⟨h0, d, hd, hk, ns, hcore⟩)
      · exact Or.inl h
      · exact Or.inr ⟨h0, d, (hm d).mpr hd, hk, ns, hcore⟩
  · intro i
    rw [hd₁ i, hd₂ i]
    constructor
    · rintro (h | ⟨d, hd, ev, ns, hcore, hi⟩)
      · exact Or.inl h
      · exact Or.inr ⟨d, (hm d).mp hd, ev, ns, hcore, hi⟩
    · rintro (h | ⟨d, hd, ev, ns, hcore, hi⟩)
      · exact Or.inl h
      · exact Or.inr ⟨d, (hm d).mpr hd, ev, ns, hcore, hi⟩

theorem replay_order_ok (specs : List Spec) (fr : Frame) (o₁ o₂ : List String)
    (hn₁ : o₁.Nodup) (hn₂ : o₂.Nodup) (hm : ∀ e, e ∈ o₁ ↔ e ∈ o₂) (rs : List Result)
    (h : replay specs fr o₁ = .ok rs) : replay specs fr o₂ = .ok rs := by
  obtain ⟨es, c₁, d₁, hes, hev, hb⟩ := replay_ok specs fr o₁ rs h
  obtain ⟨c₂, d₂, hev₂, hc, hd⟩ := evalPhase_order es fr _ _
    (orderedFactors_pairwise specs o₁ hn₁) (orderedFactors_pairwise specs o₂ hn₂)
    (orderedFactors_mem_congr specs o₁ o₂ hm) c₁ d₁ hev
  simp only [replay, hes, hev₂]
  rw [← buildAll_congr_cd fr d₁ d₂ hd c₁ c₂ hc specs]
  exact hb


end FormulaicVerif.Proofs.C09
