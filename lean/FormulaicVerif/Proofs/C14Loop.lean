import FormulaicVerif.Model.SignLoop
import FormulaicVerif.Props.C01
/-! Termination of the sign-collapsing `while True` loop of `DefaultOperatorResolver.resolve`, and its
agreement with the one-pass function `collapseSigns` that the parser model uses. -/
namespace FormulaicVerif.Proofs.C14Loop
open FormulaicVerif FormulaicVerif.Model FormulaicVerif.Model.SignLoop

theorem isSignC_iff (c : Char) : isSignC c = (c == '+' || c == '-') := rfl

theorem filter_ne_plus (run : List Char) (h : ∀ c ∈ run, isSignC c = true) :
    run.filter (fun c => c != '+') = run.filter (· == '-') := by
  apply List.filter_congr
  intro c hc
  have := h c hc
  simp only [isSignC, Bool.or_eq_true, beq_iff_eq] at this
  rcases this with rfl | rfl <;> decide

/-- the sign the loop writes for a run is the one the one-pass function computes -/
theorem collapse_of_run (run : List Char) (h : ∀ c ∈ run, isSignC c = true) (hl : 2 ≤ run.length) :
    collapseSigns run = [signOfRun run] := by
  rw [Props.C01.collapse_run run h hl]
  unfold signOfRun
  rw [filter_ne_plus run h]
  by_cases hp : (run.filter (· == '-')).length % 2 = 1
  · simp [hp]
  · simp [hp]

theorem signOfRun_sign (run : List Char) : isSignC (signOfRun run) = true := by
  unfold signOfRun; split <;> decide

theorem collapse_cons_nonsign (c : Char) (cs : List Char) (hc : isSignC c = false) :
    collapseSigns (c :: cs) = c :: collapseSigns cs := by
  have := Props.C01.collapse_split [] c cs hc
  simpa [collapseSigns, collapseSignsAux, collapseSignsAux.closeRun] using this

theorem collapse_sign_then (c d : Char) (ds : List Char) (hd : isSignC d = false) :
    collapseSigns (c :: d :: ds) = c :: collapseSigns (d :: ds) := by
  have h1 := Props.C01.collapse_split [c] d ds hd
  rw [Props.C01.collapse_single] at h1
  rw [collapse_cons_nonsign d ds hd]
  simpa using h1

theorem dropWhile_head {p : Char → Bool} : ∀ (l : List Char) (e : Char) (r : List Char),
    l.dropWhile p = e :: r → p e = false := by
  intro l
  induction l with
  | nil => intro e r h; cases h
  | cons x xs ih =>
    intro e r h
    rw [List.dropWhile_cons] at h
    by_cases hp : p x = true
    · rw [if_pos hp] at h; exact ih e r h
    · rw [if_neg hp] at h
      injection h with h1 _
      subst h1
      simpa using hp

theorem takeWhile_all {p : Char → Bool} (l : List Char) : ∀ c ∈ l.takeWhile p, p c = true := by
  induction l with
  | nil => intro c hc; cases hc
  | cons x xs ih =>
    intro c hc
    rw [List.takeWhile_cons] at hc
    by_cases hp : p x = true
    · rw [if_pos hp] at hc
      rcases List.mem_cons.mp hc with rfl | hc
      · exact hp
      · exact ih c hc
    · rw [if_neg hp] at hc; cases hc

/-- one iteration of the loop: if it breaks, the one-pass function leaves the string alone; if it
rewrites, the one-pass value is unchanged, the string gets shorter, and a leading non-sign stays -/
theorem step_spec : ∀ (s : List Char),
    (collapseStep s = none → collapseSigns s = s) ∧
    (∀ s', collapseStep s = some s' →
      collapseSigns s' = collapseSigns s ∧ s'.length < s.length ∧
      (∀ x xs, s = x :: xs → isSignC x = false → ∃ ys, s' = x :: ys)) := by
  intro s
  induction s with
  | nil => exact ⟨fun _ => rfl, fun s' h => by simp [collapseStep] at h⟩
  | cons c cs ih =>
    by_cases hc : isSignC c = true
    · cases cs with
      | nil =>
        refine ⟨fun _ => Props.C01.collapse_single c, fun s' h => ?_⟩
        simp [collapseStep, hc] at h
      | cons d ds =>
        by_cases hd : isSignC d = true
        · -- a run of at least two signs starts here
          have hstep : collapseStep (c :: d :: ds) =
              some (signOfRun (c :: d :: ds.takeWhile isSignC) :: ds.dropWhile isSignC) := by
            simp [collapseStep, hc, hd]
          refine ⟨fun h => (by rw [hstep] at h; cases h), fun s' h => ?_⟩
          rw [hstep] at h
          injection h with h
          subst h
          have hrun : ∀ x ∈ c :: d :: ds.takeWhile isSignC, isSignC x = true := by
            intro x hx
            simp only [List.mem_cons] at hx
            rcases hx with rfl | rfl | hx
            · exact hc
            · exact hd
            · exact takeWhile_all ds x hx
          have hlen : 2 ≤ (c :: d :: ds.takeWhile isSignC).length := by simp
          have hsplit : c :: d :: ds = (c :: d :: ds.takeWhile isSignC) ++ ds.dropWhile isSignC := by
            simp [List.takeWhile_append_dropWhile]
          refine ⟨?_, ?_, ?_⟩
          · cases hrest : ds.dropWhile isSignC with
            | nil =>
              rw [hsplit, hrest, List.append_nil, collapse_of_run _ hrun hlen]
              exact Props.C01.collapse_single _
            | cons e rest =>
              have he : isSignC e = false := dropWhile_head ds e rest hrest
              rw [hsplit, hrest, Props.C01.collapse_split _ e rest he, collapse_of_run _ hrun hlen]
              have := Props.C01.collapse_split [signOfRun (c :: d :: ds.takeWhile isSignC)] e rest he
              rw [Props.C01.collapse_single] at this
              simpa using this
          · have : ds.length = (ds.takeWhile isSignC).length + (ds.dropWhile isSignC).length := by
              rw [← List.length_append, List.takeWhile_append_dropWhile]
            simp only [List.length_cons]
            omega
          · intro x xs hx hxs
            injection hx with hx _
            subst hx
            rw [hc] at hxs; cases hxs
        · have hd' : isSignC d = false := by simpa using hd
          have hstep : collapseStep (c :: d :: ds) = (collapseStep (d :: ds)).map (c :: ·) := by
            simp [collapseStep, hc, hd']
          constructor
          · intro h
            rw [hstep] at h
            have hn : collapseStep (d :: ds) = none := by
              cases hh : collapseStep (d :: ds) with
              | none => rfl
              | some t => rw [hh] at h; cases h
            rw [collapse_sign_then c d ds hd', ih.1 hn]
          · intro s' h
            rw [hstep] at h
            cases hh : collapseStep (d :: ds) with
            | none => rw [hh] at h; cases h
            | some t =>
              rw [hh] at h
              injection h with h
              subst h
              obtain ⟨h1, h2, h3⟩ := ih.2 t hh
              obtain ⟨ys, hys⟩ := h3 d ds rfl hd'
              subst hys
              refine ⟨?_, by simp only [List.length_cons] at h2 ⊢; omega, ?_⟩
              · rw [collapse_sign_then c d ys hd', collapse_sign_then c d ds hd', h1]
              · intro x xs hx hxs
                injection hx with hx _
                subst hx
                rw [hc] at hxs; cases hxs
    · have hc' : isSignC c = false := by simpa using hc
      have hstep : collapseStep (c :: cs) = (collapseStep cs).map (c :: ·) := by
        simp [collapseStep, hc']
      constructor
      · intro h
        rw [hstep] at h
        have hn : collapseStep cs = none := by
          cases hh : collapseStep cs with
          | none => rfl
          | some t => rw [hh] at h; cases h
        rw [collapse_cons_nonsign c cs hc', ih.1 hn]
      · intro s' h
        rw [hstep] at h
        cases hh : collapseStep cs with
        | none => rw [hh] at h; cases h
        | some t =>
          rw [hh] at h
          injection h with h
          subst h
          obtain ⟨h1, h2, _⟩ := ih.2 t hh
          refine ⟨?_, by simp only [List.length_cons]; omega, ?_⟩
          · rw [collapse_cons_nonsign c t hc', collapse_cons_nonsign c cs hc', h1]
          · intro x xs hx _
            injection hx with hx _
            subst hx
            exact ⟨t, rfl⟩

/-- **the loop terminates**: with more fuel than the string is long it breaks, and its value is the
one-pass function of the parser model -/
theorem collapseLoop_terminates : ∀ (n : Nat) (s : List Char), s.length < n →
    collapseLoop n s = some (collapseSigns s) := by
  intro n
  induction n with
  | zero => intro s h; omega
  | succ n ih =>
    intro s h
    unfold collapseLoop
    cases hs : collapseStep s with
    | none => simp only; rw [(step_spec s).1 hs]
    | some s' =>
      obtain ⟨h1, h2, _⟩ := (step_spec s).2 s' hs
      simp only
      rw [ih s' (by omega), h1]

/-- `resolve` with the loop as written is `resolve` with the one-pass function -/
theorem resolveTokenLoop_eq (tab : OpTable) (text : List Char) :
    resolveTokenLoop tab text = resolveToken tab text := by
  unfold resolveTokenLoop resolveToken
  rw [collapseLoop_terminates (text.length + 1) text (by omega)]
  cases tab.lookup (String.ofList text) <;> rfl

end FormulaicVerif.Proofs.C14Loop
