import FormulaicVerif.Spec.NumericMatrix
import FormulaicVerif.Proofs.C02Pipeline
import FormulaicVerif.Proofs.C20Sem
import Mathlib.Tactic.Ring
/-! Helper lemmas for C20, part 4: the C02 materializer model on a numeric factor cache
(`Model.CalcMat`) computes, term by term, the reference columns `Spec.NumMat.specCols`.
Not obligations. -/
namespace FormulaicVerif.Proofs.C20
open FormulaicVerif.Model FormulaicVerif.Spec FormulaicVerif.Model.CalcMat FormulaicVerif.Spec.NumMat
open FormulaicVerif.Proofs.C02

/-! ### the cache -/

theorem mkFactor_expr (e : String) (v : NumVal) : (mkFactor e v).expr = e := by cases v <;> rfl
theorem mkFactor_present (e : String) (v : NumVal) : (mkFactor e v).present = true := by cases v <;> rfl

theorem get_mkCache (env : Env) (e : String) :
    (mkCache env).get e = match lookup env e with
      | some v => .ok (mkFactor e v)
      | none => .error .keyError := by
  unfold Cache.get mkCache lookup
  rw [List.find?_map]
  have : ((fun f : EvaledFactor => f.expr == e) ∘ fun p : String × NumVal => mkFactor p.1 p.2)
      = fun p : String × NumVal => p.1 == e := by
    funext p; simp [mkFactor_expr]
  rw [this]
  cases h : env.find? (fun p => p.1 == e) with
  | none => rfl
  | some p =>
    have := List.find?_some h
    have hp : p.1 = e := by simpa using this
    simp [hp]

/-- the cache entry of a factor expression (a missing one never occurs under `Covers`) -/
def facOf (env : Env) (e : String) : EvaledFactor := mkFactor e ((lookup env e).getD (.const 0))

def efsOf (env : Env) (t : Term) : List EvaledFactor := (exprs t).map (facOf env)

theorem facOf_expr (env : Env) (e : String) : (facOf env e).expr = e := mkFactor_expr _ _

theorem evaledFactors_numeric (env : Env) (n : Nat) (t : Term) (hc : Covers env n t) :
    evaledFactors (mkCache env) (exprs t) = .ok (efsOf env t) := by
  induction t with
  | nil => rfl
  | cons f r ih =>
    obtain ⟨v, hv, _⟩ := hc f (by simp)
    have ihr := ih (fun g hg => hc g (by simp [hg]))
    simp only [exprs, List.map_cons] at ihr ⊢
    simp only [evaledFactors, get_mkCache, hv, ihr, mkFactor_present, if_true, efsOf, exprs, List.map_cons,
      facOf, Option.getD_some]

theorem facOf_var (env : Env) (e : String) (h : isVar env e = true) :
    ∃ c, lookup env e = some (.col c) ∧ facOf env e = mkFactor e (.col c) := by
  unfold isVar at h
  cases hl : lookup env e with
  | none => simp [hl] at h
  | some v =>
    cases v with
    | const v => simp [hl] at h
    | col c => exact ⟨c, rfl, by simp [facOf, hl]⟩

theorem facOf_const (env : Env) (e : String) (h : isVar env e = false) :
    ∃ v, (facOf env e).kind = .constant v := by
  unfold isVar at h
  cases hl : lookup env e with
  | none => exact ⟨0, by simp [facOf, hl, mkFactor]⟩
  | some v =>
    cases v with
    | const v => exact ⟨v, by simp [facOf, hl, mkFactor]⟩
    | col c => simp [hl] at h

theorem nonconst_efs (env : Env) (es : List String) :
    (es.map (facOf env)).filter (fun f => match f.kind with | .constant _ => false | _ => true)
      = (es.filter (isVar env)).map (facOf env) := by
  induction es with
  | nil => rfl
  | cons e r ih =>
    simp only [List.map_cons, List.filter_cons, ih]
    by_cases hv : isVar env e = true
    · obtain ⟨c, _, hf⟩ := facOf_var env e hv
      simp [hv, hf, mkFactor]
    · have hv' : isVar env e = false := by simpa using hv
      obtain ⟨v, hk⟩ := facOf_const env e hv'
      simp [hv', hk]

theorem spannedChoices_efs (env : Env) (es : List String) :
    spannedChoices (es.map (facOf env)) = [(es.filter (isVar env)).map (fun e => (⟨e, false⟩ : SF))] := by
  induction es with
  | nil => rfl
  | cons e r ih =>
    simp only [List.map_cons, spannedChoices, ih, List.filter_cons]
    by_cases hv : isVar env e = true
    · obtain ⟨c, _, hf⟩ := facOf_var env e hv
      simp [hv, hf, mkFactor]
    · have hv' : isVar env e = false := by simpa using hv
      obtain ⟨v, hk⟩ := facOf_const env e hv'
      simp [hv', hk]

theorem scaleOf_efs_aux (env : Env) (es : List String) (h : ∀ e ∈ es, lookup env e ≠ none) (acc : Rat) :
    (es.map (facOf env)).foldl (fun s f => match f.kind with | .constant v => s * v | _ => s) acc
      = (es.filterMap (constVal env)).foldl (· * ·) acc := by
  induction es generalizing acc with
  | nil => rfl
  | cons e r ih =>
    have ihr := fun a => ih (fun e' he' => h e' (by simp [he'])) a
    have he := h e (by simp)
    cases hl : lookup env e with
    | none => exact absurd hl he
    | some v =>
      cases v with
      | const v => simp [facOf, hl, mkFactor, ihr, constVal]
      | col c => simp [facOf, hl, mkFactor, ihr, constVal]

theorem covers_lookup {env : Env} {n : Nat} {t : Term} (hc : Covers env n t) :
    ∀ e ∈ exprs t, lookup env e ≠ none := by
  intro e he
  obtain ⟨f, hf, rfl⟩ := List.mem_map.1 he
  obtain ⟨v, hv, _⟩ := hc f hf
  simp [hv]

theorem scaleOf_efs (env : Env) (n : Nat) (t : Term) (hc : Covers env n t) :
    scaleOf (efsOf env t) = scaleT env t := by
  unfold scaleOf efsOf scaleT
  exact scaleOf_efs_aux env (exprs t) (covers_lookup hc) 1

theorem vars_nodup (env : Env) (t : Term) (hwf : Term.WF t) : (vars env t).Nodup := by
  unfold vars
  exact List.Nodup.sublist List.filter_sublist hwf

theorem stNew_vars (env : Env) (t : Term) (hwf : Term.WF t) :
    ST.new ((vars env t).map (fun e => (⟨e, false⟩ : SF))) (scaleT env t) = stOf env t := by
  unfold ST.new stOf
  rw [dedupSF_of_nodup (nodup_map_sf (vars_nodup env t hwf) false)]

theorem fullScoped_efs (env : Env) (n : Nat) (t : Term) (hwf : Term.WF t) (hc : Covers env n t) :
    fullScoped (efsOf env t) = stOf env t := by
  have h := nonconst_efs env (exprs t)
  have h2 : fullScoped (efsOf env t) =
      ST.new ((((exprs t).filter (isVar env)).map (facOf env)).map (fun f => (⟨f.expr, false⟩ : SF)))
        (scaleOf (efsOf env t)) := by
    unfold fullScoped efsOf
    exact congrArg (fun l => ST.new (l.map (fun f => (⟨f.expr, false⟩ : SF))) _) h
  rw [h2, scaleOf_efs env n t hc, List.map_map]
  have : ((fun f : EvaledFactor => (⟨f.expr, false⟩ : SF)) ∘ facOf env) = fun e => (⟨e, false⟩ : SF) := by
    funext e; simp [facOf_expr]
  rw [this]
  exact stNew_vars env t hwf

theorem spannedBy_efs (env : Env) (n : Nat) (t : Term) (hwf : Term.WF t) (hc : Covers env n t) :
    spannedBy (efsOf env t) = [stOf env t] := by
  unfold spannedBy
  rw [scaleOf_efs env n t hc]
  unfold efsOf
  rw [spannedChoices_efs]
  simp only [List.map_cons, List.map_nil]
  have := stNew_vars env t hwf
  unfold vars at this
  rw [this]
  rfl

/-! ### scoping -/

theorem osDiff_single (st : ST) (sp : List ST) : osDiff [st] sp = if osMem sp st then [] else [st] := by
  unfold osDiff
  cases h : osMem sp st with
  | true => simp [h]; rfl
  | false => simp [h]; rfl

theorem simplify_nil : simplify (simplifyFuel []) [] = some [] := rfl
theorem simplify_single (st : ST) : simplify (simplifyFuel [st]) [st] = some [st] := rfl

theorem scopeTerm_numeric (env : Env) (n : Nat) (efr : Bool) (spanned : List ST) (t : Term)
    (hwf : Term.WF t) (hc : Covers env n t) :
    scopeTerm (mkCache env) efr spanned (exprs t) = .ok (
      if t = [] then ([], spanned)
      else if efr then
        (if osMem spanned (stOf env t) then ([], spanned)
         else ([stOf env t], spanned ++ [stOf env t].filter (fun st => st.scale ≠ 0)))
      else ([stOf env t], spanned)) := by
  unfold scopeTerm
  rw [evaledFactors_numeric env n t hc]
  cases t with
  | nil => rfl
  | cons f r =>
    have hne : efsOf env (f :: r) = facOf env f.expr :: efsOf env r := rfl
    have hs := spannedBy_efs env n (f :: r) hwf hc
    have hf := fullScoped_efs env n (f :: r) hwf hc
    rw [hne] at hs hf ⊢
    simp only [hs, hf, osDiff_single]
    cases efr with
    | false => simp
    | true =>
      cases hm : osMem spanned (stOf env (f :: r)) with
      | true => simp [simplify_nil]
      | false => simp [simplify_single]

/-! ### columns -/

/-- the column of a variable factor -/
def colOf (env : Env) (e : String) : Col :=
  match lookup env e with
  | some (.col c) => c
  | _ => []

def itemOf (env : Env) (e : String) : Item := ⟨e, ⟨e, none, false⟩, colOf env e⟩

theorem encodeFactors_vars (env : Env) (es : List String) (h : ∀ e ∈ es, isVar env e = true) :
    encodeFactors (mkCache env) (es.map (fun e => (⟨e, false⟩ : SF))) = .ok (es.map (fun e => [itemOf env e])) := by
  induction es with
  | nil => rfl
  | cons e r ih =>
    have ihr := ih (fun e' he' => h e' (by simp [he']))
    have he := h e (by simp)
    unfold isVar at he
    cases hl : lookup env e with
    | none => simp [hl] at he
    | some v =>
      cases v with
      | const v => simp [hl] at he
      | col c =>
        simp only [List.map_cons, encodeFactors, get_mkCache, hl, ihr]
        simp [encodeEvaledFactor, mkFactor, encOf, itemOf, colOf, hl]

theorem kron_singletons {α} (l : List α) : kron (l.map (fun x => [x])) = [l] := by
  induction l with
  | nil => rfl
  | cons x r ih => simp [kron, ih]

theorem rowProd_scale (env : Env) (n : Nat) (i : Nat) (t : Term) (hc : Covers env n t) (acc : Rat) :
    ((exprs t).filterMap (constVal env)).foldl (· * ·) acc * rowProd ((vars env t).map (colOf env)) i
      = acc * evalProd (rowEnv env i) t := by
  induction t generalizing acc with
  | nil => simp [exprs, vars, rowProd, evalProd]
  | cons f r ih =>
    have ihr := fun a => ih (fun g hg => hc g (by simp [hg])) a
    obtain ⟨v, hv, _⟩ := hc f (by simp)
    simp only [exprs, vars, List.map_cons] at ihr ⊢
    cases v with
    | const v =>
      have hnv : isVar env f.expr = false := by simp [isVar, hv]
      have hcv : constVal env f.expr = some v := by simp [constVal, hv]
      simp only [List.filterMap_cons, hcv, List.foldl_cons, List.filter_cons, hnv, evalProd]
      have hr : rowEnv env i f.expr = v := by simp [rowEnv, hv]
      rw [hr]
      have := ihr (acc * v)
      simp only [Bool.false_eq_true, if_false]
      rw [this]; ring
    | col c =>
      have hnv : isVar env f.expr = true := by simp [isVar, hv]
      have hcv : constVal env f.expr = none := by simp [constVal, hv]
      simp only [List.filterMap_cons, hcv, List.filter_cons, hnv, if_true, List.map_cons, rowProd_cons, evalProd]
      have hr : rowEnv env i f.expr = c.getD i 0 := by simp [rowEnv, hv]
      have hcol : colOf env f.expr = c := by simp [colOf, hv]
      rw [hr, hcol]
      have := ihr acc
      calc _ = c.getD i 0 * (List.foldl (· * ·) acc (List.filterMap (constVal env) (List.map (fun x => x.expr) r))
                * rowProd (List.map (colOf env) (List.filter (isVar env) (List.map (fun x => x.expr) r))) i) := by ring
        _ = _ := by rw [this]; ring

theorem col_ext {a b : Col} (hl : a.length = b.length) (h : ∀ i, i < a.length → a.getD i 0 = b.getD i 0) : a = b := by
  apply List.ext_getElem hl
  intro i h1 h2
  have := h i h1
  simpa [List.getD_eq_getElem?_getD, h1, h2] using this

theorem vars_cols_length (env : Env) (n : Nat) (t : Term) (hc : Covers env n t) :
    ∀ c ∈ (vars env t).map (colOf env), c.length = n := by
  intro c hcm
  obtain ⟨e, he, rfl⟩ := List.mem_map.1 hcm
  unfold vars at he
  obtain ⟨hex, hv⟩ := List.mem_filter.1 he
  obtain ⟨f, hf, rfl⟩ := List.mem_map.1 hex
  obtain ⟨v, hl, hlen⟩ := hc f hf
  unfold isVar at hv
  cases v with
  | const v => simp [hl] at hv
  | col c => simpa [colOf, hl] using hlen c rfl

/-- the values of the one column of a numeric term -/
theorem smul_colProd_termCol (env : Env) (n : Nat) (t : Term) (hc : Covers env n t) :
    Col.smul (scaleT env t) (colProd n ((vars env t).map (colOf env))) = termCol env n t := by
  obtain ⟨hlen, hval⟩ := smul_colProd_spec n (scaleT env t) _ (vars_cols_length env n t hc)
  apply col_ext
  · simp [hlen, termCol]
  · intro i hi
    rw [hlen] at hi
    rw [hval i hi]
    have := rowProd_scale env n i t hc 1
    unfold scaleT
    rw [this]
    simp [termCol, List.getD_eq_getElem?_getD, hi]

theorem termColumns_numeric (env : Env) (n : Nat) (t : Term) (hc : Covers env n t) :
    ∃ e, termColumns (mkCache env) .fast n [] [stOf env t] = .ok [e] ∧ e.col = termCol env n t := by
  by_cases hv : vars env t = []
  · refine ⟨⟨"Intercept", [], Col.smul (scaleT env t) (Col.ones n)⟩, ?_, ?_⟩
    · simp [termColumns, scopedTermColumns, stOf, hv, dictUpdate, dictSet]
    · have := smul_colProd_termCol env n t hc
      rw [hv] at this
      exact this
  · have hall : ∀ e ∈ vars env t, isVar env e = true := fun e he => (List.mem_filter.1 he).2
    have henc := encodeFactors_vars env (vars env t) hall
    have hne : (vars env t).map (fun e => [itemOf env e]) ≠ [] := by simpa using hv
    refine ⟨entryOf n (scaleT env t) ((vars env t).map (itemOf env)), ?_, ?_⟩
    · have hp : (vars env t).map (itemOf env) ≠ [] := by simpa using hv
      have hk : kron ((vars env t).map (fun e => [itemOf env e])) = [(vars env t).map (itemOf env)] := by
        rw [← kron_singletons ((vars env t).map (itemOf env)), List.map_map]; rfl
      simp only [termColumns, scopedTermColumns, stOf, List.isEmpty_map, List.isEmpty_iff, hv, henc,
        columnsFor_eq, columnsBase_eq _ _ hne, hk, List.map_cons, List.map_nil,
        entryOf_irrel 0 n _ _ hp]
      simp [dictOfList, dictUpdate, dictSet]
    · simp only [entryOf, List.map_map]
      have := smul_colProd_termCol env n t hc
      have hcomp : ((fun x : Item => x.col) ∘ itemOf env) = colOf env := by funext e; rfl
      rw [hcomp]
      exact this

/-! ### the whole pipeline -/

theorem pipeline_numeric (env : Env) (n : Nat) (efr : Bool) : ∀ (ts : List Term) (spanned : List ST),
    (∀ t ∈ ts, Term.WF t ∧ Covers env n t) →
    ∃ res rs, getScopedTerms (mkCache env) efr spanned (ts.map exprs) = .ok res ∧
      buildTerms (mkCache env) .fast n res = .ok rs ∧
      rs.map (·.term) = ts.map exprs ∧
      rs.map (fun r => r.cols.map (·.col)) = specCols env n efr spanned ts := by
  intro ts
  induction ts with
  | nil => intro spanned _; exact ⟨[], [], rfl, rfl, rfl, rfl⟩
  | cons t ts ih =>
    intro spanned h
    obtain ⟨hwf, hc⟩ := h t (by simp)
    have hrest : ∀ t' ∈ ts, Term.WF t' ∧ Covers env n t' := fun t' ht' => h t' (by simp [ht'])
    have hst := scopeTerm_numeric env n efr spanned t hwf hc
    by_cases hnil : t = []
    · obtain ⟨res, rs, h1, h2, h3, h4⟩ := ih spanned hrest
      rw [if_pos hnil] at hst
      refine ⟨(exprs t, []) :: res, ⟨exprs t, [], []⟩ :: rs, ?_, ?_, ?_, ?_⟩
      · simp only [List.map_cons, getScopedTerms, hst, h1]
      · simp only [buildTerms, termColumns, h2]
      · simp [h3]
      · simp [specCols, hnil, h4]
    · rw [if_neg hnil] at hst
      cases efr with
      | false =>
        obtain ⟨res, rs, h1, h2, h3, h4⟩ := ih spanned hrest
        obtain ⟨e, he, hcol⟩ := termColumns_numeric env n t hc
        simp only [Bool.false_eq_true, if_false] at hst
        refine ⟨(exprs t, [stOf env t]) :: res, ⟨exprs t, [stOf env t], [e]⟩ :: rs, ?_, ?_, ?_, ?_⟩
        · simp only [List.map_cons, getScopedTerms, hst, h1]
        · simp only [buildTerms, he, h2]
        · simp [h3]
        · simp [specCols, hnil, h4, hcol]
      | true =>
        simp only [if_true] at hst
        cases hm : osMem spanned (stOf env t) with
        | true =>
          obtain ⟨res, rs, h1, h2, h3, h4⟩ := ih spanned hrest
          simp only [hm, if_true] at hst
          refine ⟨(exprs t, []) :: res, ⟨exprs t, [], []⟩ :: rs, ?_, ?_, ?_, ?_⟩
          · simp only [List.map_cons, getScopedTerms, hst, h1]
          · simp only [buildTerms, termColumns, h2]
          · simp [h3]
          · simp [specCols, hnil, hm, h4]
        | false =>
          obtain ⟨e, he, hcol⟩ := termColumns_numeric env n t hc
          simp only [hm, Bool.false_eq_true, if_false] at hst
          by_cases hs : scaleT env t = 0
          · obtain ⟨res, rs, h1, h2, h3, h4⟩ := ih spanned hrest
            have hf : [stOf env t].filter (fun st => decide (st.scale ≠ 0)) = [] := by simp [stOf, hs]
            rw [hf, List.append_nil] at hst
            refine ⟨(exprs t, [stOf env t]) :: res, ⟨exprs t, [stOf env t], [e]⟩ :: rs, ?_, ?_, ?_, ?_⟩
            · simp only [List.map_cons, getScopedTerms, hst, h1]
            · simp only [buildTerms, he, h2]
            · simp [h3]
            · simp [specCols, hnil, hm, h4, hcol, hs]
          · obtain ⟨res, rs, h1, h2, h3, h4⟩ := ih (spanned ++ [stOf env t]) hrest
            have hf : [stOf env t].filter (fun st => decide (st.scale ≠ 0)) = [stOf env t] := by simp [stOf, hs]
            rw [hf] at hst
            refine ⟨(exprs t, [stOf env t]) :: res, ⟨exprs t, [stOf env t], [e]⟩ :: rs, ?_, ?_, ?_, ?_⟩
            · simp only [List.map_cons, getScopedTerms, hst, h1]
            · simp only [buildTerms, he, h2]
            · simp [h3]
            · simp [specCols, hnil, hm, h4, hcol, hs]

/-- the C02 materializer model on a numeric cache computes the reference columns, term by term -/
theorem materialize_numeric (env : Env) (n : Nat) (efr : Bool) (ts : List Term)
    (h : ∀ t ∈ ts, Term.WF t ∧ Covers env n t) :
    ∃ rs, materialize env ts efr n = .ok rs ∧ rs.map (·.term) = ts.map exprs ∧
      rs.map (fun r => r.cols.map (·.col)) = specCols env n efr [] ts := by
  obtain ⟨res, rs, h1, h2, h3, h4⟩ := pipeline_numeric env n efr ts [] h
  refine ⟨rs, ?_, h3, h4⟩
  simp [materialize, buildStructure, config, clusterTerms, h1, h2]

/-! ### reading off one term -/

theorem specCols_length (env : Env) (n : Nat) (efr : Bool) (ts : List Term) (spanned : List ST) :
    (specCols env n efr spanned ts).length = ts.length := by
  induction ts generalizing spanned with
  | nil => rfl
  | cons t r ih =>
    simp only [specCols]
    split
    · simp [ih]
    · split <;> simp [ih]

theorem specCols_getElem (env : Env) (n : Nat) (efr : Bool) (ts : List Term) (spanned : List ST) (j : Nat)
    (hj : j < ts.length) (hne : ts[j] ≠ [])
    (hsp : efr = true → ∀ s ∈ spanned, ST.eq s (stOf env ts[j]) = false)
    (hearlier : efr = true → ∀ i (hi : i < j), scaleT env (ts[i]'(by omega)) ≠ 0 →
      ST.eq (stOf env (ts[i]'(by omega))) (stOf env ts[j]) = false) :
    (specCols env n efr spanned ts)[j]? = some [termCol env n ts[j]] := by
  induction ts generalizing spanned j with
  | nil => simp at hj
  | cons t r ih =>
    cases j with
    | zero =>
      simp only [List.getElem_cons_zero] at hne hsp
      have hmem : (efr && osMem spanned (stOf env t)) = false := by
        cases efr with
        | false => rfl
        | true =>
          simp only [Bool.true_and, osMem]
          rw [List.any_eq_false]
          intro s hs
          simp [hsp rfl s hs]
      simp [specCols, hne, hmem]
    | succ j =>
      simp only [List.getElem_cons_succ] at hne hsp
      have hj' : j < r.length := by simpa using hj
      have he' : efr = true → ∀ i (hi : i < j), scaleT env (r[i]'(by omega)) ≠ 0 →
          ST.eq (stOf env (r[i]'(by omega))) (stOf env r[j]) = false := by
        intro hefr i hi hsc
        have := hearlier hefr (i + 1) (by omega)
        simp only [List.getElem_cons_succ] at this
        exact this hsc
      have h0 : efr = true → scaleT env t ≠ 0 → ST.eq (stOf env t) (stOf env r[j]) = false := by
        intro hefr hsc
        have := hearlier hefr 0 (by omega)
        simp only [List.getElem_cons_zero, List.getElem_cons_succ] at this
        exact this hsc
      simp only [specCols]
      split
      · simp only [List.getElem?_cons_succ]
        exact ih spanned j hj' hne hsp he'
      · split
        · simp only [List.getElem?_cons_succ]
          exact ih spanned j hj' hne hsp he'
        · simp only [List.getElem?_cons_succ]
          apply ih _ j hj' hne _ he'
          intro hefr s hs
          split at hs
          · rename_i hcond
            simp only [Bool.and_eq_true, decide_eq_true_eq] at hcond
            rcases List.mem_append.1 hs with hs | hs
            · exact hsp hefr s hs
            · simp only [List.mem_singleton] at hs
              subst hs
              exact h0 hefr hcond.2
          · exact hsp hefr s hs

/-! ### `ScopedTerm.__eq__` on numeric terms: the same set of variable factors -/

theorem SF.insert_perm (x : SF) (l : List SF) : (SF.insert x l).Perm (x :: l) := by
  induction l with
  | nil => exact List.Perm.refl _
  | cons y r ih =>
    simp only [SF.insert]
    split
    · exact ((List.Perm.cons y ih).trans (List.Perm.swap x y r))
    · exact List.Perm.refl _

theorem SF.sort_perm (l : List SF) : (SF.sort l).Perm l := by
  induction l with
  | nil => exact List.Perm.refl _
  | cons x r ih => exact (SF.insert_perm x _).trans (List.Perm.cons x ih)

theorem stEq_vars {env : Env} {a b : Term} (h : ST.eq (stOf env a) (stOf env b) = true) :
    (vars env a).Perm (vars env b) := by
  unfold ST.eq at h
  have heq : SF.sort (stOf env a).factors = SF.sort (stOf env b).factors := by simpa using h
  have hp : (stOf env a).factors.Perm (stOf env b).factors :=
    (SF.sort_perm _).symm.trans (heq ▸ SF.sort_perm _)
  have := hp.map (·.expr)
  simpa [stOf, List.map_map, Function.comp_def] using this

/-! ### the rendered derivative of a numeric term is a numeric term -/

theorem dOpt_sublist (d : Option (List Factor)) (v : String) (t : List Factor)
    (h : ∀ g, d = some g → g.Sublist t) : ∀ g, dOpt d v = some g → g.Sublist t := by
  intro g hg
  cases d with
  | none => simp [dOpt] at hg
  | some g0 =>
    simp only [dOpt, dFactors] at hg
    split at hg
    · simp only [Option.some.injEq] at hg
      subst hg
      exact List.filter_sublist.trans (h g0 rfl)
    · cases hg

theorem dMany_sublist (vs : List String) (d : Option (List Factor)) (t : List Factor)
    (h : ∀ g, d = some g → g.Sublist t) : ∀ g, dMany d vs = some g → g.Sublist t := by
  induction vs generalizing d with
  | nil => simpa [dMany_nil] using h
  | cons v r ih => rw [dMany_cons]; exact ih _ (dOpt_sublist d v t h)

theorem render_wf (t : Term) (wrt : List String) (h : Term.WF t) : Term.WF (render (dMany (some t) wrt)) := by
  cases hd : dMany (some t) wrt with
  | none => simp [render, Term.WF]
  | some g =>
    have hw := dMany_wf wrt (some t) (by intro g hg; cases hg; exact h) g hd
    cases g with
    | nil => simp [render, Term.WF]
    | cons x r => exact hw

theorem render_covers (env : Env) (n : Nat) (t : Term) (wrt : List String) (hl : HasLiterals env)
    (h : Covers env n t) : Covers env n (render (dMany (some t) wrt)) := by
  cases hd : dMany (some t) wrt with
  | none =>
    intro f hf
    simp only [render, List.mem_singleton] at hf
    subst hf
    exact ⟨.const 0, hl.1, by intro c hc; cases hc⟩
  | some g =>
    have hs := dMany_sublist wrt (some t) t (by intro g hg; cases hg; exact List.Sublist.refl _) g hd
    cases g with
    | nil =>
      intro f hf
      simp only [render, List.mem_singleton] at hf
      subst hf
      exact ⟨.const 1, hl.2, by intro c hc; cases hc⟩
    | cons x r => exact fun f hf => h f (hs.subset hf)

theorem render_ne_nil (d : Option (List Factor)) : render d ≠ [] := by
  cases d with
  | none => simp [render]
  | some g => cases g <;> simp [render]

theorem evalProd_render (env : Env) (r : Nat) (hl : HasLiterals env) (d : Option (List Factor)) :
    evalProd (rowEnv env r) (render d) = evalD (rowEnv env r) d := by
  cases d with
  | none => simp [render, evalProd, evalD, rowEnv, litZero, hl.1]
  | some g =>
    cases g with
    | nil => simp [render, evalProd, evalD, rowEnv, litOne, hl.2]
    | cons x r => rfl

/-! ### distinct terms have distinct non-zero derivatives -/

/-- a non-zero iterated derivative: the variables are distinct, each is a factor of the term, and
the derivative is the term without them -/
theorem dMany_some (vs : List String) (t g : List Factor) (h : dMany (some t) vs = some g) :
    vs.Nodup ∧ (∀ v ∈ vs, v ∈ t.map (·.expr)) ∧ g = t.filter (fun f => !(vs.contains f.expr)) := by
  induction vs generalizing t with
  | nil =>
    simp only [dMany, Option.some.injEq] at h
    subst h
    refine ⟨List.nodup_nil, by simp, ?_⟩
    symm
    rw [List.filter_eq_self]
    intro f _
    rfl
  | cons v r ih =>
    rw [dMany_cons] at h
    simp only [dOpt, dFactors] at h
    by_cases ha : t.any (fun f => f.expr == v) = true
    · simp only [ha, if_true] at h
      obtain ⟨hn, hm, hg⟩ := ih _ h
      have hv : v ∈ t.map (·.expr) := by
        obtain ⟨f, hf, hfv⟩ := List.any_eq_true.1 ha
        exact List.mem_map.2 ⟨f, hf, by simpa using hfv⟩
      refine ⟨?_, ?_, ?_⟩
      · rw [List.nodup_cons]
        refine ⟨?_, hn⟩
        intro hvr
        obtain ⟨f, hf, hfe⟩ := List.mem_map.1 (hm v hvr)
        have := (List.mem_filter.1 hf).2
        simp [hfe] at this
      · intro u hu
        rcases List.mem_cons.1 hu with rfl | hu
        · exact hv
        · obtain ⟨f, hf, hfe⟩ := List.mem_map.1 (hm u hu)
          exact List.mem_map.2 ⟨f, (List.mem_filter.1 hf).1, hfe⟩
      · rw [hg, List.filter_filter]
        apply List.filter_congr
        intro f _
        by_cases hfv : f.expr = v
        · simp [hfv]
        · have : (v == f.expr) = false := by simpa using fun e => hfv e.symm
          simp [hfv, Bool.and_comm]
    · simp only [ha, Bool.false_eq_true, if_false] at h
      rw [dMany_none] at h
      cases h

theorem vars_filter (env : Env) (t : Term) (p : String → Bool) :
    vars env (t.filter (fun f => p f.expr)) = (vars env t).filter p := by
  unfold vars exprs
  induction t with
  | nil => rfl
  | cons f r ih =>
    by_cases hp : p f.expr = true
    · by_cases hv : isVar env f.expr = true <;> simp [hp, hv, ih]
    · have hp' : p f.expr = false := by simpa using hp
      by_cases hv : isVar env f.expr = true <;> simp [hp', hv, ih]

theorem vars_render (env : Env) (hl : HasLiterals env) (g : List Factor) :
    vars env (render (some g)) = vars env g := by
  cases g with
  | nil => simp [render, vars, exprs, litOne, isVar, hl.2]
  | cons x r => rfl

/-- two terms that contain all the variables `vs` and agree (as sets of variable factors) after
removing them agree before -/
theorem vars_perm_of_removed (env : Env) (vs : List String) (a b : Term) (ha : Term.WF a) (hb : Term.WF b)
    (hva : ∀ v ∈ vs, v ∈ a.map (·.expr)) (hvb : ∀ v ∈ vs, v ∈ b.map (·.expr))
    (h : ((vars env a).filter (fun e => !(vs.contains e))).Perm ((vars env b).filter (fun e => !(vs.contains e)))) :
    (vars env a).Perm (vars env b) := by
  have hna := vars_nodup env a ha
  have hnb := vars_nodup env b hb
  rw [List.perm_ext_iff_of_nodup hna hnb]
  intro e
  have key : ∀ (t : Term), (∀ v ∈ vs, v ∈ t.map (·.expr)) →
      (e ∈ vars env t ↔ (e ∈ (vars env t).filter (fun e => !(vs.contains e)) ∨ (e ∈ vs ∧ isVar env e = true))) := by
    intro t hvt
    constructor
    · intro he
      by_cases hc : vs.contains e = true
      · exact .inr ⟨by simpa using hc, (List.mem_filter.1 he).2⟩
      · exact .inl (List.mem_filter.2 ⟨he, by simpa using hc⟩)
    · rintro (he | ⟨he, hv⟩)
      · exact (List.mem_filter.1 he).1
      · exact List.mem_filter.2 ⟨hvt e he, hv⟩
  rw [key a hva, key b hvb, h.mem_iff]


theorem scaleT_zero (env : Env) (hl : HasLiterals env) : scaleT env [litZero] = 0 := by
  simp [scaleT, exprs, litZero, constVal, hl.1]

end FormulaicVerif.Proofs.C20
