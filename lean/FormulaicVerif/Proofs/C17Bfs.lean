import FormulaicVerif.Spec.Variables
/-! Helper lemmas for C17: the breadth-first extraction terminates within its budget and reports
exactly the occurrences `Spec.Variables.occs` enumerates depth first. Not obligations. -/
namespace FormulaicVerif.Proofs.C17
open FormulaicVerif.Model.Variables FormulaicVerif.Spec.Variables

/-! ### chains -/
theorem chainName_eq : ∀ (e : Expr), chainName e = (chainOcc e).map (·.2)
  | .name id => rfl
  | .attr v a => by simp only [chainName, chainOcc, chainName_eq v, Option.map_map]; rfl
  | .const _ => rfl
  | .call _ _ _ => rfl
  | .unop _ _ => rfl
  | .binop _ _ _ => rfl
  | .subscript _ _ => rfl
  | .seq _ _ => rfl

theorem chain_freeNames : ∀ (e : Expr) (p : String × String), chainOcc e = some p → freeNames e = [p.1]
  | .name id, p, h => by simp only [chainOcc, Option.some.injEq] at h; subst h; rfl
  | .attr v a, p, h => by
    simp only [chainOcc] at h
    cases hv : chainOcc v with
    | none => rw [hv] at h; cases h
    | some q =>
      rw [hv] at h
      simp only [Option.map_some, Option.some.injEq] at h
      subst h
      simpa [freeNames] using chain_freeNames v q hv
  | .const _, _, h => by cases h
  | .call _ _ _, _, h => by cases h
  | .unop _ _, _, h => by cases h
  | .binop _ _ _, _, h => by cases h
  | .subscript _ _, _, h => by cases h
  | .seq _ _, _, h => by cases h

/-! ### every `Name` node is an occurrence -/
mutual
theorem mem_freeNames_iff (x : String) : ∀ (e : Expr), x ∈ freeNames e ↔ ∃ o ∈ occs e, o.base = x
  | .name id => by simp [freeNames, occs, eq_comm]
  | .const _ => by simp [freeNames, occs]
  | .attr v a => by
    simp only [freeNames, occs]
    cases h : chainOcc (.attr v a) with
    | some p =>
      have := chain_freeNames (.attr v a) p h
      simp only [freeNames] at this
      simp [this, eq_comm]
    | none => exact mem_freeNames_iff x v
  | .call f args kws => by
    simp only [freeNames, occs]
    cases h : chainOcc f with
    | some p =>
      have := chain_freeNames f p h
      simp only [List.mem_append, List.mem_cons, this, List.not_mem_nil, or_false,
        mem_freeNamesList_iff x args, mem_freeNamesKws_iff x kws]
      constructor
      · rintro ((h1 | h2) | h3)
        · exact ⟨_, Or.inl rfl, h1.symm⟩
        · obtain ⟨o, ho, hb⟩ := h2; exact ⟨o, Or.inr (Or.inl ho), hb⟩
        · obtain ⟨o, ho, hb⟩ := h3; exact ⟨o, Or.inr (Or.inr ho), hb⟩
      · rintro ⟨o, (h1 | h2 | h3), hb⟩
        · subst h1; exact Or.inl (Or.inl hb.symm)
        · exact Or.inl (Or.inr ⟨o, h2, hb⟩)
        · exact Or.inr ⟨o, h3, hb⟩
    | none =>
      simp only [List.mem_append, mem_freeNames_iff x f, mem_freeNamesList_iff x args,
        mem_freeNamesKws_iff x kws]
      constructor
      · rintro ((⟨o, ho, hb⟩ | ⟨o, ho, hb⟩) | ⟨o, ho, hb⟩)
        · exact ⟨o, Or.inl ho, hb⟩
        · exact ⟨o, Or.inr (Or.inl ho), hb⟩
        · exact ⟨o, Or.inr (Or.inr ho), hb⟩
      · rintro ⟨o, (h1 | h2 | h3), hb⟩
        · exact Or.inl (Or.inl ⟨o, h1, hb⟩)
        · exact Or.inl (Or.inr ⟨o, h2, hb⟩)
        · exact Or.inr ⟨o, h3, hb⟩
  | .unop _ y => by simpa [freeNames, occs] using mem_freeNames_iff x y
  | .binop _ l r => by
    simp only [freeNames, occs, List.mem_append, mem_freeNames_iff x l, mem_freeNames_iff x r]
    constructor
    · rintro (⟨o, ho, hb⟩ | ⟨o, ho, hb⟩)
      · exact ⟨o, Or.inl ho, hb⟩
      · exact ⟨o, Or.inr ho, hb⟩
    · rintro ⟨o, (h1 | h2), hb⟩
      · exact Or.inl ⟨o, h1, hb⟩
      · exact Or.inr ⟨o, h2, hb⟩
  | .subscript v i => by
    simp only [freeNames, occs, List.mem_append, mem_freeNames_iff x v, mem_freeNames_iff x i]
    constructor
    · rintro (⟨o, ho, hb⟩ | ⟨o, ho, hb⟩)
      · exact ⟨o, Or.inl ho, hb⟩
      · exact ⟨o, Or.inr ho, hb⟩
    · rintro ⟨o, (h1 | h2), hb⟩
      · exact Or.inl ⟨o, h1, hb⟩
      · exact Or.inr ⟨o, h2, hb⟩
  | .seq _ es => by simpa [freeNames, occs] using mem_freeNamesList_iff x es
theorem mem_freeNamesList_iff (x : String) :
    ∀ (es : List Expr), x ∈ freeNamesList es ↔ ∃ o ∈ occsList es, o.base = x
  | [] => by simp [freeNamesList, occsList]
  | e :: es => by
    simp only [freeNamesList, occsList, List.mem_append, mem_freeNames_iff x e, mem_freeNamesList_iff x es]
    constructor
    · rintro (⟨o, ho, hb⟩ | ⟨o, ho, hb⟩)
      · exact ⟨o, Or.inl ho, hb⟩
      · exact ⟨o, Or.inr ho, hb⟩
    · rintro ⟨o, (h1 | h2), hb⟩
      · exact Or.inl ⟨o, h1, hb⟩
      · exact Or.inr ⟨o, h2, hb⟩
theorem mem_freeNamesKws_iff (x : String) :
    ∀ (ks : List (String × Expr)), x ∈ freeNamesKws ks ↔ ∃ o ∈ occsKws ks, o.base = x
  | [] => by simp [freeNamesKws, occsKws]
  | k :: ks => by
    simp only [freeNamesKws, occsKws, List.mem_append, mem_freeNames_iff x k.2, mem_freeNamesKws_iff x ks]
    constructor
    · rintro (⟨o, ho, hb⟩ | ⟨o, ho, hb⟩)
      · exact ⟨o, Or.inl ho, hb⟩
      · exact ⟨o, Or.inr ho, hb⟩
    · rintro ⟨o, (h1 | h2), hb⟩
      · exact Or.inl ⟨o, h1, hb⟩
      · exact Or.inr ⟨o, h2, hb⟩
end


/-! ### the queue -/
def itemOccs : Item → List Occ
  | .node e => occs e
  | .kw v => occs v

def queueOccs (q : List Item) : List Occ := q.flatMap itemOccs

theorem queueOccs_append (a b : List Item) : queueOccs (a ++ b) = queueOccs a ++ queueOccs b := by
  simp [queueOccs]

theorem queueOccs_nodes (es : List Expr) : queueOccs (es.map Item.node) = occsList es := by
  induction es with
  | nil => rfl
  | cons e es ih =>
    simp only [queueOccs, List.map_cons, List.flatMap_cons, itemOccs, occsList] at ih ⊢
    rw [ih]

theorem queueOccs_kws (ks : List (String × Expr)) :
    queueOccs (ks.map (fun k => Item.kw k.2)) = occsKws ks := by
  induction ks with
  | nil => rfl
  | cons k ks ih =>
    simp only [queueOccs, List.map_cons, List.flatMap_cons, itemOccs, occsKws] at ih ⊢
    rw [ih]

theorem queueOccs_children (e : Expr) (h : chainOcc e = none) (hc : ∀ f a k, e = .call f a k → chainOcc f = none) :
    queueOccs (children e) = occs e := by
  cases e with
  | name id => simp [chainOcc] at h
  | const r => rfl
  | attr v a => simp [children, queueOccs, itemOccs, occs, h]
  | call f args kws =>
    have hf := hc f args kws rfl
    simp only [children, occs, hf]
    have : (Item.node f :: (args.map Item.node ++ kws.map (fun k => Item.kw k.2)))
        = [Item.node f] ++ (args.map Item.node ++ kws.map (fun k => Item.kw k.2)) := rfl
    rw [this, queueOccs_append, queueOccs_append, queueOccs_nodes, queueOccs_kws]
    simp [queueOccs, itemOccs]
  | unop o x => simp [children, queueOccs, itemOccs, occs]
  | binop o l r => simp [children, queueOccs, itemOccs, occs]
  | subscript v i => simp [children, queueOccs, itemOccs, occs]
  | seq k es => simpa [children, occs] using queueOccs_nodes es

/-- one loop iteration, on occurrences: the occurrence reported for the popped node (if any) and
the nodes pushed -/
theorem visit_spec (aliases : List (String × String)) (it : Item) :
    ∃ (ho : Option Occ), (visit aliases it).1 = ho.map (Occ.toVar aliases) ∧
      ∀ o, o ∈ itemOccs it ↔ (ho = some o ∨ o ∈ queueOccs (visit aliases it).2) := by
  cases it with
  | kw v => exact ⟨none, rfl, fun o => by simp [visit, itemOccs, queueOccs]⟩
  | node e =>
    cases e with
    | name id =>
      refine ⟨some ⟨id, id, false⟩, by simp [visit, chainName, Occ.toVar], fun o => ?_⟩
      simp [visit, chainName, itemOccs, occs, queueOccs, eq_comm]
    | const r => exact ⟨none, rfl, fun o => by simp [visit, children, itemOccs, occs, queueOccs]⟩
    | attr v a =>
      cases h : chainOcc (.attr v a) with
      | some p =>
        have hn : chainName (.attr v a) = some p.2 := by rw [chainName_eq, h]; rfl
        refine ⟨some ⟨p.1, p.2, false⟩, by simp [visit, hn, Occ.toVar], fun o => ?_⟩
        simp [visit, hn, itemOccs, occs, h, queueOccs, eq_comm]
      | none =>
        have hn : chainName (.attr v a) = none := by rw [chainName_eq, h]; rfl
        refine ⟨none, by simp [visit, hn], fun o => ?_⟩
        have := queueOccs_children (.attr v a) h (by intro f a k hk; cases hk)
        simp [visit, hn, itemOccs, this]
    | call f args kws =>
      cases h : chainOcc f with
      | some p =>
        have hn : chainName f = some p.2 := by rw [chainName_eq, h]; rfl
        refine ⟨some ⟨p.1, p.2, true⟩, by simp [visit, hn, Occ.toVar], fun o => ?_⟩
        simp only [visit, hn, itemOccs, occs, h, queueOccs_append, queueOccs_nodes, queueOccs_kws,
          List.mem_cons, Option.some.injEq]
        constructor
        · rintro (h1 | h2)
          · exact Or.inl h1.symm
          · exact Or.inr h2
        · rintro (h1 | h2)
          · exact Or.inl h1.symm
          · exact Or.inr h2
      | none =>
        have hn : chainName f = none := by rw [chainName_eq, h]; rfl
        refine ⟨none, by simp [visit, hn], fun o => ?_⟩
        have := queueOccs_children (.call f args kws) rfl (by intro f' a' k' hk; cases hk; exact h)
        simp [visit, hn, itemOccs, this]
    | unop o x => exact ⟨none, rfl, fun o => by simp [visit, itemOccs, queueOccs, children, occs]⟩
    | binop o l r => exact ⟨none, rfl, fun o => by simp [visit, itemOccs, queueOccs, children, occs]⟩
    | subscript v i => exact ⟨none, rfl, fun o => by simp [visit, itemOccs, queueOccs, children, occs]⟩
    | seq k es =>
      refine ⟨none, rfl, fun o => ?_⟩
      have := queueOccs_children (.seq k es) rfl (by intro f a k' hk; cases hk)
      simp [visit, itemOccs, this]

/-- what the loop returns, as a set: the accumulator plus the variable of every occurrence below
the queued nodes -/
theorem bfs_mem (aliases : List (String × String)) :
    ∀ (fuel : Nat) (q : List Item) (acc r : List Var), bfs aliases fuel q acc = some r →
      ∀ v, v ∈ r ↔ (v ∈ acc ∨ ∃ o ∈ queueOccs q, v = o.toVar aliases)
  | _, [], acc, r, h => by
    have : acc = r := by cases ‹Nat› <;> simpa [bfs] using h
    subst this; intro v; simp [queueOccs]
  | 0, _ :: _, _, _, h => by simp [bfs] at h
  | fuel + 1, it :: todo, acc, r, h => by
    intro v
    obtain ⟨ho, h1, h2⟩ := visit_spec aliases it
    simp only [bfs] at h
    generalize hv : visit aliases it = p at h h1 h2
    obtain ⟨ov, more⟩ := p
    simp only at h h1 h2
    have ih := bfs_mem aliases fuel (todo ++ more) _ r h v
    rw [ih, queueOccs_append]
    have hq : queueOccs (it :: todo) = itemOccs it ++ queueOccs todo := by simp [queueOccs]
    rw [hq]
    subst h1
    cases ho with
    | none =>
      simp only [Option.map_none, List.mem_append]
      constructor
      · rintro (ha | ⟨o, (ho | ho), hv'⟩)
        · exact Or.inl ha
        · exact Or.inr ⟨o, Or.inr ho, hv'⟩
        · exact Or.inr ⟨o, Or.inl ((h2 o).2 (Or.inr ho)), hv'⟩
      · rintro (ha | ⟨o, (ho | ho), hv'⟩)
        · exact Or.inl ha
        · rcases (h2 o).1 ho with hx | hx
          · cases hx
          · exact Or.inr ⟨o, Or.inr hx, hv'⟩
        · exact Or.inr ⟨o, Or.inl ho, hv'⟩
    | some o0 =>
      simp only [Option.map_some, List.mem_append, List.mem_singleton]
      constructor
      · rintro ((ha | ha) | ⟨o, (ho | ho), hv'⟩)
        · exact Or.inl ha
        · exact Or.inr ⟨o0, Or.inl ((h2 o0).2 (Or.inl rfl)), ha⟩
        · exact Or.inr ⟨o, Or.inr ho, hv'⟩
        · exact Or.inr ⟨o, Or.inl ((h2 o).2 (Or.inr ho)), hv'⟩
      · rintro (ha | ⟨o, (ho | ho), hv'⟩)
        · exact Or.inl (Or.inl ha)
        · rcases (h2 o).1 ho with hx | hx
          · cases hx; exact Or.inl (Or.inr hv')
          · exact Or.inr ⟨o, Or.inr hx, hv'⟩
        · exact Or.inr ⟨o, Or.inl ho, hv'⟩

/-! ### the budget suffices -/
theorem itemsSize_append (a b : List Item) : itemsSize (a ++ b) = itemsSize a + itemsSize b := by
  simp [itemsSize, List.sum_append]

theorem itemsSize_nodes (es : List Expr) : itemsSize (es.map Item.node) = sizeList es := by
  induction es with
  | nil => rfl
  | cons e es ih => simp only [itemsSize, List.map_cons, List.sum_cons, Item.size, sizeList] at ih ⊢; rw [ih]

theorem itemsSize_kws (ks : List (String × Expr)) :
    itemsSize (ks.map (fun k => Item.kw k.2)) = sizeKws ks := by
  induction ks with
  | nil => rfl
  | cons k ks ih => simp only [itemsSize, List.map_cons, List.sum_cons, Item.size, sizeKws] at ih ⊢; rw [ih]

theorem itemsSize_children (e : Expr) : itemsSize (children e) + 1 ≤ e.size := by
  cases e with
  | name id => simp [children, itemsSize, Expr.size]
  | const r => simp [children, itemsSize, Expr.size]
  | attr v a => simp [children, itemsSize, Expr.size, Item.size]; omega
  | call f args kws =>
    have : children (.call f args kws) = [Item.node f] ++ (args.map Item.node ++ kws.map (fun k => Item.kw k.2)) := rfl
    rw [this, itemsSize_append, itemsSize_append, itemsSize_nodes, itemsSize_kws]
    simp [itemsSize, Item.size, Expr.size]; omega
  | unop o x => simp [children, itemsSize, Expr.size, Item.size]; omega
  | binop o l r => simp [children, itemsSize, Expr.size, Item.size]; omega
  | subscript v i => simp [children, itemsSize, Expr.size, Item.size]; omega
  | seq k es =>
    have : children (.seq k es) = es.map Item.node := rfl
    rw [this, itemsSize_nodes]; simp [Expr.size]; omega

theorem visit_size (aliases : List (String × String)) (it : Item) :
    itemsSize (visit aliases it).2 + 1 ≤ it.size := by
  cases it with
  | kw v => simp [visit, itemsSize, Item.size]; omega
  | node e =>
    have hc := itemsSize_children e
    cases e with
    | call f args kws =>
      simp only [visit]
      cases chainName f with
      | none => simpa [Item.size] using hc
      | some n =>
        simp only [itemsSize_append, itemsSize_nodes, itemsSize_kws, Item.size, Expr.size]
        omega
    | attr v a =>
      simp only [visit]
      cases chainName (.attr v a) with
      | none => simpa [Item.size] using hc
      | some n => simp [itemsSize, Item.size, Expr.size]
    | name id => simp [visit, chainName, itemsSize, Item.size, Expr.size]
    | const r => simpa [visit, Item.size] using hc
    | unop o x => simpa [visit, Item.size] using hc
    | binop o l r => simpa [visit, Item.size] using hc
    | subscript v i => simpa [visit, Item.size] using hc
    | seq k es => simpa [visit, Item.size] using hc

theorem Item.size_pos (it : Item) : 1 ≤ it.size := by
  have := visit_size [] it; omega

theorem bfs_isSome (aliases : List (String × String)) :
    ∀ (fuel : Nat) (q : List Item) (acc : List Var), itemsSize q ≤ fuel → ∃ r, bfs aliases fuel q acc = some r
  | _, [], acc, _ => ⟨acc, by cases ‹Nat› <;> simp [bfs]⟩
  | 0, it :: todo, _, h => by
    have := Item.size_pos it
    simp [itemsSize] at h
    omega
  | fuel + 1, it :: todo, acc, h => by
    simp only [bfs]
    have hs := visit_size aliases it
    generalize visit aliases it = p at hs
    obtain ⟨ov, more⟩ := p
    simp only at hs ⊢
    apply bfs_isSome aliases fuel
    rw [itemsSize_append]
    simp only [itemsSize, List.map_cons, List.sum_cons] at h
    simp only [itemsSize] at hs ⊢
    omega

theorem astVariables_mem (e : Expr) (aliases : List (String × String)) (v : Var) :
    v ∈ astVariables e aliases ↔ ∃ o ∈ occs e, v = o.toVar aliases := by
  obtain ⟨r, hr⟩ := bfs_isSome aliases e.size [.node e] [] (by simp [itemsSize, Item.size])
  have := bfs_mem aliases _ _ _ _ hr v
  simp only [astVariables, hr]
  simpa [queueOccs, itemOccs] using this

end FormulaicVerif.Proofs.C17
