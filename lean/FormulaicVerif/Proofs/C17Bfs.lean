import FormulaicVerif.Spec.Variables
/-! Helper lemmas for C17: the breadth-first extraction terminates within its budget and reports
exactly the FREE occurrences `Spec.Variables.occs` enumerates depth first (the queue carries the
locally bound names; the specification removes bound occurrences at the binder). Not obligations. -/
namespace FormulaicVerif.Proofs.C17
open FormulaicVerif.Model.Variables FormulaicVerif.Spec.Variables

/-! ### filtering by bound names -/
theorem mem_without_iff (b xs : List String) (x : String) :
    x ∈ without b xs ↔ x ∈ xs ∧ b.contains x = false := by
  simp [without, List.mem_filter]

theorem mem_freeOf_iff (b : List String) (os : List Occ) (o : Occ) :
    o ∈ freeOf b os ↔ o ∈ os ∧ b.contains o.base = false := by
  simp [freeOf, List.mem_filter]

theorem freeOf_append (b : List String) (xs ys : List Occ) :
    freeOf b (xs ++ ys) = freeOf b xs ++ freeOf b ys := by simp [freeOf]

theorem freeOf_nil_left (os : List Occ) : freeOf [] os = os := by simp [freeOf]

theorem freeOf_freeOf (b c : List String) (os : List Occ) :
    freeOf b (freeOf c os) = freeOf (b ++ c) os := by
  simp only [freeOf, List.filter_filter]
  congr 1
  funext o
  by_cases h1 : o.base ∈ b <;> by_cases h2 : o.base ∈ c <;> simp [h1, h2]

/-- the names of a list are exactly the bases of a list of occurrences -/
def Rel (xs : List String) (os : List Occ) : Prop := ∀ x, x ∈ xs ↔ ∃ o ∈ os, o.base = x

theorem Rel.nil : Rel [] [] := fun x => by simp

theorem Rel.append {xs ys : List String} {os ps : List Occ} (h1 : Rel xs os) (h2 : Rel ys ps) :
    Rel (xs ++ ys) (os ++ ps) := by
  intro x
  simp only [List.mem_append, h1 x, h2 x]
  constructor
  · rintro (⟨o, ho, hb⟩ | ⟨o, ho, hb⟩)
    · exact ⟨o, Or.inl ho, hb⟩
    · exact ⟨o, Or.inr ho, hb⟩
  · rintro ⟨o, (h | h), hb⟩
    · exact Or.inl ⟨o, h, hb⟩
    · exact Or.inr ⟨o, h, hb⟩

theorem Rel.without {xs : List String} {os : List Occ} (b : List String) (h : Rel xs os) :
    Rel (without b xs) (freeOf b os) := by
  intro x
  simp only [mem_without_iff, h x, mem_freeOf_iff]
  constructor
  · rintro ⟨⟨o, ho, hb⟩, hx⟩
    exact ⟨o, ⟨ho, by rw [hb]; exact hx⟩, hb⟩
  · rintro ⟨o, ⟨ho, hx⟩, hb⟩
    exact ⟨⟨o, ho, hb⟩, by rw [← hb]; exact hx⟩

theorem Rel.single (id chainName : String) (c : Bool) : Rel [id] [⟨id, chainName, c⟩] := by
  intro x; simp [eq_comm]

/-! ### chains -/
theorem chain_freeNames : ∀ (e : Expr) (p : String × String), chain e = some p → freeNames e = [p.1]
  | .name id, p, h => by simp only [chain, Option.some.injEq] at h; subst h; rfl
  | .attr v a, p, h => by
    simp only [chain] at h
    cases hv : chain v with
    | none => rw [hv] at h; cases h
    | some q =>
      rw [hv] at h
      simp only [Option.map_some, Option.some.injEq] at h
      subst h
      simpa [freeNames] using chain_freeNames v q hv
  | .const _, _, h => by cases h
  | .call _ _ _, _, h => by cases h
  | .unop _ _, _, h => by cases h
  | .binop _ _ _, _, h => by cases h
  | .subscript _ _, _, h => by cases h
  | .seq _ _, _, h => by cases h
  | .lambda _ _ _, _, h => by cases h
  | .comp _ _ _, _, h => by cases h

theorem chain_strictNames : ∀ (e : Expr) (p : String × String), chain e = some p → strictNames e = [p.1]
  | .name id, p, h => by simp only [chain, Option.some.injEq] at h; subst h; rfl
  | .attr v a, p, h => by
    simp only [chain] at h
    cases hv : chain v with
    | none => rw [hv] at h; cases h
    | some q =>
      rw [hv] at h
      simp only [Option.map_some, Option.some.injEq] at h
      subst h
      simpa [strictNames] using chain_strictNames v q hv
  | .const _, _, h => by cases h
  | .call _ _ _, _, h => by cases h
  | .unop _ _, _, h => by cases h
  | .binop _ _ _, _, h => by cases h
  | .subscript _ _, _, h => by cases h
  | .seq _ _, _, h => by cases h
  | .lambda _ _ _, _, h => by cases h
  | .comp _ _ _, _, h => by cases h

/-! ### every free `Name` node is an occurrence -/
mutual
theorem rel_freeNames : ∀ (e : Expr), Rel (freeNames e) (occs e)
  | .name id => by simpa [freeNames, occs] using Rel.single id id false
  | .const _ => by simpa [freeNames, occs] using Rel.nil
  | .attr v a => by
    simp only [freeNames, occs]
    cases h : chainOcc (.attr v a) with
    | some p =>
      have := chain_freeNames (.attr v a) p h
      simp only [freeNames] at this
      rw [this]
      exact Rel.single _ _ _
    | none => exact rel_freeNames v
  | .call f args kws => by
    simp only [freeNames, occs]
    cases h : chainOcc f with
    | some p =>
      have := chain_freeNames f p h
      rw [this, List.append_assoc]
      exact Rel.append (Rel.single _ _ _) (Rel.append (rel_freeNamesList args) (rel_freeNamesKws kws))
    | none =>
      rw [List.append_assoc]
      exact Rel.append (rel_freeNames f) (Rel.append (rel_freeNamesList args) (rel_freeNamesKws kws))
  | .unop _ y => by simpa [freeNames, occs] using rel_freeNames y
  | .binop _ l r => by
    simp only [freeNames, occs]; exact Rel.append (rel_freeNames l) (rel_freeNames r)
  | .subscript v i => by
    simp only [freeNames, occs]; exact Rel.append (rel_freeNames v) (rel_freeNames i)
  | .seq _ es => by simpa [freeNames, occs] using rel_freeNamesList es
  | .lambda ps ds body => by
    simp only [freeNames, occs]
    exact Rel.append (rel_freeNamesList ds) (Rel.without ps (rel_freeNames body))
  | .comp _ elts gens => by
    simp only [freeNames, occs]
    exact Rel.append (Rel.without _ (rel_freeNamesList elts)) (rel_freeNamesGens _ true gens)
theorem rel_freeNamesList : ∀ (es : List Expr), Rel (freeNamesList es) (occsList es)
  | [] => by simpa [freeNamesList, occsList] using Rel.nil
  | e :: es => by
    simp only [freeNamesList, occsList]; exact Rel.append (rel_freeNames e) (rel_freeNamesList es)
theorem rel_freeNamesKws : ∀ (ks : List (String × Expr)), Rel (freeNamesKws ks) (occsKws ks)
  | [] => by simpa [freeNamesKws, occsKws] using Rel.nil
  | k :: ks => by
    simp only [freeNamesKws, occsKws]; exact Rel.append (rel_freeNames k.2) (rel_freeNamesKws ks)
theorem rel_freeNamesGens (T : List String) :
    ∀ (first : Bool) (gs : List Gen), Rel (freeNamesGens T first gs) (occsGens T first gs)
  | _, [] => by simpa [freeNamesGens, occsGens] using Rel.nil
  | first, .mk _ it ifs :: gs => by
    simp only [freeNamesGens, occsGens]
    refine Rel.append (Rel.append ?_ (Rel.without T (rel_freeNamesList ifs))) (rel_freeNamesGens T false gs)
    cases first
    · simpa using Rel.without T (rel_freeNames it)
    · simpa using rel_freeNames it
end

theorem mem_freeNames_iff (x : String) (e : Expr) : x ∈ freeNames e ↔ ∃ o ∈ occs e, o.base = x :=
  rel_freeNames e x

/-! ### the queue -/
def itemOccs : Item → List Occ
  | .node e b => freeOf b (occs e)
  | .kw v b => freeOf b (occs v)

def queueOccs (q : List Item) : List Occ := q.flatMap itemOccs

theorem queueOccs_append (a b : List Item) : queueOccs (a ++ b) = queueOccs a ++ queueOccs b := by
  simp [queueOccs]

theorem queueOccs_cons (it : Item) (q : List Item) : queueOccs (it :: q) = itemOccs it ++ queueOccs q := by
  simp [queueOccs]

theorem queueOccs_nodes (b : List String) (es : List Expr) :
    queueOccs (es.map (fun e => Item.node e b)) = freeOf b (occsList es) := by
  induction es with
  | nil => rfl
  | cons e es ih =>
    simp only [List.map_cons, queueOccs_cons, itemOccs, occsList, freeOf_append, ih]

theorem queueOccs_kws (b : List String) (ks : List (String × Expr)) :
    queueOccs (ks.map (fun k => Item.kw k.2 b)) = freeOf b (occsKws ks) := by
  induction ks with
  | nil => rfl
  | cons k ks ih =>
    simp only [List.map_cons, queueOccs_cons, itemOccs, occsKws, freeOf_append, ih]

/-- the generators: what is queued with the inner names is what the specification filters by the
targets and then by the outer names -/
theorem queueOccs_genItems (b : List String) (T : List String) :
    ∀ (first : Bool) (gs : List Gen),
      queueOccs (genItems b (b ++ T) first gs) = freeOf b (occsGens T first gs)
  | _, [] => rfl
  | first, .mk _ it ifs :: gs => by
    simp only [genItems, queueOccs_cons, queueOccs_append, itemOccs, queueOccs_nodes, occsGens,
      freeOf_append, queueOccs_genItems b T false gs]
    cases first <;> simp [freeOf_freeOf]

theorem queueOccs_children (b : List String) (e : Expr) (h : chainOcc e = none)
    (hc : ∀ f a k, e = .call f a k → chainOcc f = none) :
    queueOccs (children b e) = freeOf b (occs e) := by
  cases e with
  | name id => simp [chainOcc, chain] at h
  | const r => rfl
  | attr v a => simp [children, queueOccs, itemOccs, occs, h]
  | call f args kws =>
    have hf := hc f args kws rfl
    simp only [children, occs, hf, queueOccs_cons, queueOccs_append, queueOccs_nodes, queueOccs_kws,
      itemOccs, freeOf_append]
  | unop o x => simp [children, queueOccs, itemOccs, occs]
  | binop o l r => simp [children, queueOccs, itemOccs, occs, freeOf_append]
  | subscript v i => simp [children, queueOccs, itemOccs, occs, freeOf_append]
  | seq k es => simpa [children, occs] using queueOccs_nodes b es
  | lambda ps ds body =>
    simp only [children, occs, queueOccs_append, queueOccs_nodes, queueOccs_cons, itemOccs,
      freeOf_append, freeOf_freeOf]
    simp [queueOccs]
  | comp k elts gens =>
    simp only [children, occs, queueOccs_append, queueOccs_nodes, queueOccs_genItems, freeOf_append,
      freeOf_freeOf]

/-- a chain node that is reported unless its root is bound -/
theorem chain_case (aliases : List (String × String)) (b : List String) (base n : String) (callable : Bool)
    (more : List Item) (rest : List Occ) (hq : queueOccs more = freeOf b rest) :
    ∃ (ho : Option Occ),
      (if b.contains base then none
        else some (Occ.toVar aliases ⟨base, n, callable⟩)) = ho.map (Occ.toVar aliases) ∧
      ∀ o, o ∈ freeOf b (⟨base, n, callable⟩ :: rest) ↔ (ho = some o ∨ o ∈ queueOccs more) := by
  cases hb : b.contains base with
  | true =>
    refine ⟨none, by simp, fun o => ?_⟩
    rw [hq]
    simp only [mem_freeOf_iff, List.mem_cons, reduceCtorEq, false_or]
    constructor
    · rintro ⟨(h1 | h2), h3⟩
      · subst h1; rw [hb] at h3; cases h3
      · exact ⟨h2, h3⟩
    · rintro ⟨h2, h3⟩; exact ⟨Or.inr h2, h3⟩
  | false =>
    refine ⟨some ⟨base, n, callable⟩, by simp, fun o => ?_⟩
    rw [hq]
    simp only [mem_freeOf_iff, List.mem_cons, Option.some.injEq]
    constructor
    · rintro ⟨(h1 | h2), h3⟩
      · exact Or.inl h1.symm
      · exact Or.inr ⟨h2, h3⟩
    · rintro (h1 | ⟨h2, h3⟩)
      · subst h1; exact ⟨Or.inl rfl, hb⟩
      · exact ⟨Or.inr h2, h3⟩

/-- one loop iteration, on occurrences: the occurrence reported for the popped node (if any) and
the nodes pushed -/
theorem visit_spec (aliases : List (String × String)) (it : Item) :
    ∃ (ho : Option Occ), (visit aliases it).1 = ho.map (Occ.toVar aliases) ∧
      ∀ o, o ∈ itemOccs it ↔ (ho = some o ∨ o ∈ queueOccs (visit aliases it).2) := by
  cases it with
  | kw v b => exact ⟨none, rfl, fun o => by simp [visit, itemOccs, queueOccs]⟩
  | node e b =>
    -- a node that is not a chain (and not a call of a chain): nothing reported, children queued
    have generic : chainOcc e = none → (∀ f a k, e = .call f a k → chainOcc f = none) →
        (visit aliases (.node e b) = (none, children b e)) →
        ∃ (ho : Option Occ), (visit aliases (.node e b)).1 = ho.map (Occ.toVar aliases) ∧
          ∀ o, o ∈ itemOccs (.node e b) ↔ (ho = some o ∨ o ∈ queueOccs (visit aliases (.node e b)).2) := by
      intro h hc hv
      refine ⟨none, by rw [hv]; rfl, fun o => ?_⟩
      rw [hv]
      simp [itemOccs, queueOccs_children b e h hc]
    cases e with
    | name id =>
      obtain ⟨ho, h1, h2⟩ := chain_case aliases b id id false [] [] rfl
      refine ⟨ho, ?_, ?_⟩
      · rw [← h1]; simp only [visit, chain, Occ.toVar]; split <;> rfl
      · simpa [itemOccs, occs, visit, chain] using h2
    | const r => exact generic rfl (by intro f a k hk; cases hk) rfl
    | attr v a =>
      cases h : chainOcc (.attr v a) with
      | some p =>
        have hn : chain (.attr v a) = some p := h
        obtain ⟨base, n⟩ := p
        obtain ⟨ho, h1, h2⟩ := chain_case aliases b base n false [] [] rfl
        refine ⟨ho, ?_, ?_⟩
        · rw [← h1]; simp only [visit, hn, Occ.toVar]; split <;> rfl
        · simpa [itemOccs, occs, h, visit, hn] using h2
      | none =>
        have hn : chain (.attr v a) = none := h
        exact generic h (by intro f a k hk; cases hk) (by simp [visit, hn])
    | call f args kws =>
      cases h : chainOcc f with
      | some p =>
        have hn : chain f = some p := h
        obtain ⟨base, n⟩ := p
        obtain ⟨ho, h1, h2⟩ := chain_case aliases b base n true
          (args.map (fun a => Item.node a b) ++ kws.map (fun k => Item.kw k.2 b)) (occsList args ++ occsKws kws)
          (by rw [queueOccs_append, queueOccs_nodes, queueOccs_kws, freeOf_append])
        refine ⟨ho, ?_, ?_⟩
        · rw [← h1]; simp only [visit, hn, Occ.toVar]; split <;> rfl
        · simpa [itemOccs, occs, h, visit, hn] using h2
      | none =>
        have hn : chain f = none := h
        exact generic rfl (by intro f' a' k' hk; cases hk; exact h) (by simp [visit, hn])
    | unop o x => exact generic rfl (by intro f a k hk; cases hk) rfl
    | binop o l r => exact generic rfl (by intro f a k hk; cases hk) rfl
    | subscript v i => exact generic rfl (by intro f a k hk; cases hk) rfl
    | seq k es => exact generic rfl (by intro f a k' hk; cases hk) rfl
    | lambda ps ds body => exact generic rfl (by intro f a k hk; cases hk) rfl
    | comp k elts gens => exact generic rfl (by intro f a k' hk; cases hk) rfl

/-- what the loop returns, as a set: the accumulator plus the variable of every occurrence below
the queued nodes -/
theorem bfs_mem (aliases : List (String × String)) :
    ∀ (fuel : Nat) (q : List Item) (acc r : List Var), bfs aliases fuel q acc = some r →
      ∀ v, v ∈ r ↔ (v ∈ acc ∨ ∃ o ∈ queueOccs q, v = o.toVar aliases)
  | _, [], acc, r, h => by
    have : acc = r := by cases ‹Nat› <;> simpa [bfs] using h
    subst this; intro v; simp [queueOccs]
  | 0, _ :: _, _, _, h => by simp [bfs] at h
  | fuel + 1, it :: todo, acc, r, h => by
    intro v
    obtain ⟨ho, h1, h2⟩ := visit_spec aliases it
    simp only [bfs] at h
    generalize hv : visit aliases it = p at h h1 h2
    obtain ⟨ov, more⟩ := p
    simp only at h h1 h2
    have ih := bfs_mem aliases fuel (todo ++ more) _ r h v
    rw [ih, queueOccs_append]
    have hq : queueOccs (it :: todo) = itemOccs it ++ queueOccs todo := by simp [queueOccs]
    rw [hq]
    subst h1
    cases ho with
    | none =>
      simp only [Option.map_none, List.mem_append]
      constructor
      · rintro (ha | ⟨o, (ho | ho), hv'⟩)
        · exact Or.inl ha
        · exact Or.inr ⟨o, Or.inr ho, hv'⟩
        · exact Or.inr ⟨o, Or.inl ((h2 o).2 (Or.inr ho)), hv'⟩
      · rintro (ha | ⟨o, (ho | ho), hv'⟩)
        · exact Or.inl ha
        · rcases (h2 o).1 ho with hx | hx
          · cases hx
          · exact Or.inr ⟨o, Or.inr hx, hv'⟩
        · exact Or.inr ⟨o, Or.inl ho, hv'⟩
    | some o0 =>
      simp only [Option.map_some, List.mem_append, List.mem_singleton]
      constructor
      · rintro ((ha | ha) | ⟨o, (ho | ho), hv'⟩)
        · exact Or.inl ha
        · exact Or.inr ⟨o0, Or.inl ((h2 o0).2 (Or.inl rfl)), ha⟩
        · exact Or.inr ⟨o, Or.inr ho, hv'⟩
        · exact Or.inr ⟨o, Or.inl ((h2 o).2 (Or.inr ho)), hv'⟩
      · rintro (ha | ⟨o, (ho | ho), hv'⟩)
        · exact Or.inl (Or.inl ha)
        · rcases (h2 o).1 ho with hx | hx
          · cases hx; exact Or.inl (Or.inr hv')
          · exact Or.inr ⟨o, Or.inr hx, hv'⟩
        · exact Or.inr ⟨o, Or.inl ho, hv'⟩

/-! ### the budget suffices -/
theorem itemsSize_append (a b : List Item) : itemsSize (a ++ b) = itemsSize a + itemsSize b := by
  simp [itemsSize, List.sum_append]

theorem itemsSize_cons (it : Item) (q : List Item) : itemsSize (it :: q) = it.size + itemsSize q := by
  simp [itemsSize]

theorem itemsSize_nodes (b : List String) (es : List Expr) :
    itemsSize (es.map (fun e => Item.node e b)) = sizeList es := by
  induction es with
  | nil => rfl
  | cons e es ih => simp only [List.map_cons, itemsSize_cons, Item.size, sizeList, ih]

theorem itemsSize_kws (b : List String) (ks : List (String × Expr)) :
    itemsSize (ks.map (fun k => Item.kw k.2 b)) = sizeKws ks := by
  induction ks with
  | nil => rfl
  | cons k ks ih => simp only [List.map_cons, itemsSize_cons, Item.size, sizeKws, ih]

theorem itemsSize_genItems (outer inner : List String) :
    ∀ (first : Bool) (gs : List Gen), itemsSize (genItems outer inner first gs) ≤ sizeGens gs
  | _, [] => by simp [genItems, itemsSize, sizeGens]
  | first, .mk _ it ifs :: gs => by
    have ih := itemsSize_genItems outer inner false gs
    simp only [genItems, itemsSize_cons, itemsSize_append, itemsSize_nodes, Item.size, sizeGens]
    omega

theorem itemsSize_children (b : List String) (e : Expr) : itemsSize (children b e) + 1 ≤ e.size := by
  cases e with
  | name id => simp [children, itemsSize, Expr.size]
  | const r => simp [children, itemsSize, Expr.size]
  | attr v a => simp [children, itemsSize, Expr.size, Item.size]; omega
  | call f args kws =>
    simp only [children, itemsSize_cons, itemsSize_append, itemsSize_nodes, itemsSize_kws, Item.size, Expr.size]
    omega
  | unop o x => simp [children, itemsSize, Expr.size, Item.size]; omega
  | binop o l r => simp [children, itemsSize, Expr.size, Item.size]; omega
  | subscript v i => simp [children, itemsSize, Expr.size, Item.size]; omega
  | seq k es =>
    simp only [children, itemsSize_nodes, Expr.size]; omega
  | lambda ps ds body =>
    simp only [children, itemsSize_append, itemsSize_nodes, itemsSize_cons, Item.size, Expr.size]
    simp [itemsSize]; omega
  | comp k elts gens =>
    have := itemsSize_genItems b (b ++ gensTargets gens) true gens
    simp only [children, itemsSize_append, itemsSize_nodes, Expr.size]
    omega

theorem visit_size (aliases : List (String × String)) (it : Item) :
    itemsSize (visit aliases it).2 + 1 ≤ it.size := by
  cases it with
  | kw v b => simp [visit, itemsSize, Item.size]; omega
  | node e b =>
    have hc := itemsSize_children b e
    cases e with
    | call f args kws =>
      simp only [visit]
      cases chain f with
      | none => simpa [Item.size] using hc
      | some p =>
        simp only [itemsSize_append, itemsSize_nodes, itemsSize_kws, Item.size, Expr.size]
        omega
    | attr v a =>
      simp only [visit]
      cases chain (.attr v a) with
      | none => simpa [Item.size] using hc
      | some p => simp [itemsSize, Item.size, Expr.size]
    | name id => simp [visit, chain, itemsSize, Item.size, Expr.size]
    | const r => simpa [visit, Item.size] using hc
    | unop o x => simpa [visit, Item.size] using hc
    | binop o l r => simpa [visit, Item.size] using hc
    | subscript v i => simpa [visit, Item.size] using hc
    | seq k es => simpa [visit, Item.size] using hc
    | lambda ps ds body => simpa [visit, Item.size] using hc
    | comp k elts gens => simpa [visit, Item.size] using hc

theorem Item.size_pos (it : Item) : 1 ≤ it.size := by
  have := visit_size [] it; omega

theorem bfs_isSome (aliases : List (String × String)) :
    ∀ (fuel : Nat) (q : List Item) (acc : List Var), itemsSize q ≤ fuel → ∃ r, bfs aliases fuel q acc = some r
  | _, [], acc, _ => ⟨acc, by cases ‹Nat› <;> simp [bfs]⟩
  | 0, it :: todo, _, h => by
    have := Item.size_pos it
    simp [itemsSize] at h
    omega
  | fuel + 1, it :: todo, acc, h => by
    simp only [bfs]
    have hs := visit_size aliases it
    generalize visit aliases it = p at hs
    obtain ⟨ov, more⟩ := p
    simp only at hs ⊢
    apply bfs_isSome aliases fuel
    rw [itemsSize_append]
    simp only [itemsSize, List.map_cons, List.sum_cons] at h
    simp only [itemsSize] at hs ⊢
    omega

theorem astVariables_mem (e : Expr) (aliases : List (String × String)) (v : Var) :
    v ∈ astVariables e aliases ↔ ∃ o ∈ occs e, v = o.toVar aliases := by
  obtain ⟨r, hr⟩ := bfs_isSome aliases e.size [.node e []] [] (by simp [itemsSize, Item.size])
  have := bfs_mem aliases _ _ _ _ hr v
  simp only [astVariables, hr]
  simpa [queueOccs, itemOccs, freeOf_nil_left] using this

end FormulaicVerif.Proofs.C17
