import FormulaicVerif.Model.Dispatch
import FormulaicVerif.Proofs.C05Entry
import FormulaicVerif.Proofs.C05Registry
/-! Helper lemmas for C05: the plumbing model over the registry model. Core Lean only. -/
namespace FormulaicVerif.Proofs.C05D
open FormulaicVerif.Model FormulaicVerif.Model.EntryPoints FormulaicVerif.Model.Dispatch
open FormulaicVerif.Proofs.C05E FormulaicVerif.Proofs.C05R

/-- looking a name up in the plumbing model's view of the registry is looking it up in `REGISTERED_NAMES` -/
theorem find?_envRegistry (names : List (String × Registry.MatClass)) (n : String) :
    (names.map (fun p => (p.1, p.2.outputs))).find? (fun r => r.1 == n)
      = (Registry.dictGet? names n).map (fun c => (n, c.outputs)) := by
  induction names with
  | nil => rfl
  | cons x rest ih =>
    obtain ⟨k, c⟩ := x
    by_cases h : k = n
    · subst h; simp [Registry.dictGet?]
    · have : (k == n) = false := by simpa using h
      simp only [List.map_cons, List.find?_cons, this, Registry.dictGet?, h, if_false]
      exact ih

theorem forMaterializer_envRegistry (env : Env) (r : Registry.Registry) (h : env.registry = envRegistry r) (n : String) :
    EntryPoints.forMaterializer env n
      = (match Registry.dictGet? r.names n with
          | none => .error .notFound
          | some c => .ok (n, c.outputs)) := by
  simp only [EntryPoints.forMaterializer, h, envRegistry, find?_envRegistry]
  cases Registry.dictGet? r.names n <;> rfl

/-- the pair `for_materializer(name)` returns carries that name -/
theorem forMaterializer_fst {env : Env} {n : String} {r : String × List String}
    (h : EntryPoints.forMaterializer env n = .ok r) : r.1 = n := by
  simp only [EntryPoints.forMaterializer] at h
  cases hf : env.registry.find? (fun r => r.1 == n) with
  | none => simp [hf] at h
  | some x =>
    simp only [hf, Except.ok.injEq] at h
    subst h
    have := List.find?_some hf
    simpa using this

/-! ### what a prepared leaf records -/

theorem prepareLeaf_ok {inst : Inst} {ms ms' : MSpec} (h : prepareLeaf inst ms = .ok ms') :
    ms'.materializer = some inst.name ∧ ms'.params = inst.params ∧
    (∃ o, ms'.output = some o ∧ o ∈ inst.outputs ∧ (ms.output = some o ∨ (ms.output = none ∧ inst.outputs.head? = some o))) ∧
    ms'.formula = ms.formula ∧ ms'.efr = ms.efr ∧ ms'.na = ms.na ∧ ms'.cluster = ms.cluster := by
  unfold prepareLeaf at h
  cases ho : ms.output with
  | none =>
    simp only [ho] at h
    cases hout : inst.outputs with
    | nil => simp [hout] at h
    | cons o rest =>
      simp only [hout, Except.ok.injEq] at h
      subst h
      exact ⟨rfl, rfl, ⟨o, rfl, by simp, Or.inr ⟨rfl, rfl⟩⟩, rfl, rfl, rfl, rfl⟩
  | some o =>
    simp only [ho] at h
    by_cases hc : o ∈ inst.outputs
    · have hb : inst.outputs.contains o = true := by simpa using hc
      simp only [hb, if_true, Except.ok.injEq] at h
      subst h
      exact ⟨rfl, rfl, ⟨o, rfl, hc, Or.inl rfl⟩, rfl, rfl, rfl, rfl⟩
    · simp [hc] at h

/-- the request is served by the class registered under `r.1`, which offers `r.2`: every leaf records
that class and an output it offers -/
def ServedBy (r : String × List String) (q : Request) : Prop :=
  q.matName = r.1 ∧ ∀ l ∈ q.specs, l.2.materializer = some r.1 ∧ ∃ o, l.2.output = some o ∧ o ∈ r.2

theorem mkReq_served {c : Call} {r : String × List String} {prm : Option Nat} {p : Prepared} {d : Option Nat} {q : Request}
    (h : mkReq (instOf c r prm) p d = .ok q) : ServedBy r q := by
  obtain ⟨specs, hm, _, rfl⟩ := mkReq_ok h
  refine ⟨rfl, fun l hl => ?_⟩
  obtain ⟨p0, _, hp0⟩ := mapParts_ok_mem _ _ _ hm l hl
  have := prepareLeaf_ok hp0
  obtain ⟨o, h1, h2, _⟩ := this.2.2.1
  exact ⟨this.1, o, h1, h2⟩

/-- how the class of a request was chosen: nominated by name, or by `for_data` -/
def Chosen (env : Env) (c : Call) (q : Request) : Prop :=
  ∃ (m : Option String) (r : String × List String), resolve env c m = .ok r ∧ ServedBy r q

theorem oneReq_chosen {env : Env} {c : Call} {ms : MSpec} {d : Option Nat} {q : Request}
    (h : oneReq env c ms d = .ok q) : Chosen env c q := by
  simp only [oneReq] at h
  cases hr : resolve env c ms.materializer with
  | error e => simp [hr] at h
  | ok r => simp only [hr] at h; exact ⟨ms.materializer, r, hr, mkReq_served h⟩

theorem afterPrepared_chosen {env : Env} {c : Call} {p : Prepared} {d : Option Nat} {rs : List Request}
    (h : afterPrepared env c p d = .ok rs) : ∀ q ∈ rs, Chosen env c q := by
  cases p with
  | one ms =>
    simp only [afterPrepared] at h
    cases ho : oneReq env c ms d with
    | error e => simp [ho, Except.map] at h
    | ok q0 =>
      simp only [ho, Except.map, Except.ok.injEq] at h
      subst h
      intro q hq
      simp only [List.mem_singleton] at hq
      subst hq
      exact oneReq_chosen ho
  | many parts =>
    simp only [afterPrepared, manyReq] at h
    cases hj : jointLoop none none (parts.map (·.2)) with
    | some mp =>
      obtain ⟨m, prm⟩ := mp
      simp only [hj] at h
      cases hr : resolve env c m with
      | error e => simp [hr] at h
      | ok r =>
        simp only [hr] at h
        cases hm : mkReq (instOf c r prm) (.many parts) (if env.fwdJoint then d else none) with
        | error e => simp [hm, Except.map] at h
        | ok q0 =>
          simp only [hm, Except.map, Except.ok.injEq] at h
          subst h
          intro q hq
          simp only [List.mem_singleton] at hq
          subst hq
          exact ⟨m, r, hr, mkReq_served hm⟩
    | none =>
      simp only [hj] at h
      cases hm : mapParts (fun ms => oneReq env c ms (perSpecDrop c d)) parts with
      | error e => simp [hm, Except.map] at h
      | ok out =>
        simp only [hm, Except.map, Except.ok.injEq] at h
        subst h
        intro q hq
        obtain ⟨kq, hkq, rfl⟩ := List.mem_map.mp (mem_twice.mp hq)
        obtain ⟨p0, _, hp0⟩ := mapParts_ok_mem _ parts out hm kq hkq
        exact oneReq_chosen hp0

theorem chosen_of_eraseDrop {env : Env} {c : Call} {q q' : Request} (h : eraseDrop q = eraseDrop q')
    (hc : Chosen env c q') : Chosen env c q := by
  obtain ⟨m, r, hr, hs⟩ := hc
  have e1 : q.matName = q'.matName := by have := congrArg Request.matName h; simpa [eraseDrop] using this
  have e2 : q.specs = q'.specs := by have := congrArg Request.specs h; simpa [eraseDrop] using this
  exact ⟨m, r, hr, e1.trans hs.1, by rw [e2]; exact hs.2⟩

/-! ### `for_data` behind the plumbing -/

theorem resolve_none_callFor {env : Env} {r : Registry.Registry} {so : List Registry.MatClass} {spec : SpecArg} {id : Nat}
    {d : Registry.Data} {ctx dr : Option Nat} {ov : List Attr} {rr : String × List String}
    (h : resolve env (callFor r so spec id d ctx dr ov) none = .ok rr) :
    ∃ cl, Registry.forData r so d none = .ok cl ∧ cl.name = some rr.1 ∧ Accepts r so d cl := by
  simp only [resolve, forData, callFor, dataMatOf] at h
  cases hf : Registry.forData r so d none with
  | error e => simp [hf] at h
  | ok cl =>
    simp only [hf] at h
    cases hn : cl.name with
    | none => simp [hn] at h
    | some n =>
      simp only [hn] at h
      have := forMaterializer_fst h
      refine ⟨cl, rfl, by rw [hn, this], ?_⟩
      have hok := forData_ok hf
      exact mem_candidates.mp (List.mem_of_find?_eq_some hok)

/-! ### every request is internally consistent -/

theorem oneReq_consistent {env : Env} {c : Call} {ms : MSpec} {d : Option Nat} {q : Request}
    (h : oneReq env c ms d = .ok q) : consistent q.specs = true := by
  simp only [oneReq] at h
  cases hr : resolve env c ms.materializer with
  | error e => simp [hr] at h
  | ok r =>
    simp only [hr] at h
    obtain ⟨specs, _, hc, rfl⟩ := mkReq_ok h
    exact hc

theorem afterPrepared_consistent {env : Env} {c : Call} {p : Prepared} {d : Option Nat} {rs : List Request}
    (h : afterPrepared env c p d = .ok rs) : ∀ q ∈ rs, consistent q.specs = true := by
  cases p with
  | one ms =>
    simp only [afterPrepared] at h
    cases ho : oneReq env c ms d with
    | error e => simp [ho, Except.map] at h
    | ok q0 =>
      simp only [ho, Except.map, Except.ok.injEq] at h
      subst h
      intro q hq
      simp only [List.mem_singleton] at hq
      subst hq
      exact oneReq_consistent ho
  | many parts =>
    simp only [afterPrepared, manyReq] at h
    cases hj : jointLoop none none (parts.map (·.2)) with
    | some mp =>
      obtain ⟨m, prm⟩ := mp
      simp only [hj] at h
      cases hr : resolve env c m with
      | error e => simp [hr] at h
      | ok r =>
        simp only [hr] at h
        cases hm : mkReq (instOf c r prm) (.many parts) (if env.fwdJoint then d else none) with
        | error e => simp [hm, Except.map] at h
        | ok q0 =>
          simp only [hm, Except.map, Except.ok.injEq] at h
          subst h
          intro q hq
          simp only [List.mem_singleton] at hq
          subst hq
          obtain ⟨specs, _, hc, rfl⟩ := mkReq_ok hm
          exact hc
    | none =>
      simp only [hj] at h
      cases hm : mapParts (fun ms => oneReq env c ms (perSpecDrop c d)) parts with
      | error e => simp [hm, Except.map] at h
      | ok out =>
        simp only [hm, Except.map, Except.ok.injEq] at h
        subst h
        intro q hq
        obtain ⟨kq, hkq, rfl⟩ := List.mem_map.mp (mem_twice.mp hq)
        obtain ⟨p0, _, hp0⟩ := mapParts_ok_mem _ parts out hm kq hkq
        exact oneReq_consistent hp0

end FormulaicVerif.Proofs.C05D
