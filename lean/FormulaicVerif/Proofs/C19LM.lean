import FormulaicVerif.Proofs.C19Dict
import FormulaicVerif.Model.LayeredMapping
/-! Helper lemmas for C19, part 5: `LayeredMapping`. Not obligations. -/
namespace FormulaicVerif.Proofs.C19
open FormulaicVerif.Model FormulaicVerif.Model.LMap FormulaicVerif.Spec.Containers

variable {ν : Type}

/-! ### de-duplication -/
theorem dedupAux_eq (xs seen : List String) :
    dedupAux id seen xs = (firstOcc xs).filter (fun y => !seen.contains y) := by
  induction xs generalizing seen with
  | nil => simp [dedupAux, firstOcc]
  | cons x r ih =>
    simp only [dedupAux, id, firstOcc, List.filter_cons]
    by_cases hx : seen.contains x = true
    · simp only [hx, if_true, Bool.not_true, Bool.false_eq_true, if_false, ih, List.filter_filter]
      apply List.filter_congr
      intro y _
      by_cases hy : y = x
      · subst hy
        have hm : y ∈ seen := by simpa using hx
        simp [hm]
      · simp [hy]
    · have hx' : seen.contains x = false := by simpa using hx
      simp only [hx', Bool.false_eq_true, if_false, Bool.not_false, if_true, ih, List.filter_filter]
      congr 1
      apply List.filter_congr
      intro y _
      by_cases hy : y = x
      · subst hy; simp
      · simp [hy]

theorem dedup_eq (xs : List String) : dedup xs = firstOcc xs := by
  simp [dedup, dedupBy, dedupAux_eq]

theorem firstOcc_append (a b : List String) :
    firstOcc (a ++ b) = firstOcc a ++ (firstOcc b).filter (fun y => !a.contains y) := by
  induction a with
  | nil =>
    simp only [List.nil_append, firstOcc]
    symm; rw [List.filter_eq_self]; intro y _; rfl
  | cons x r ih =>
    simp only [List.cons_append, firstOcc, ih, List.filter_append, List.filter_filter]
    congr 2
    apply List.filter_congr
    intro y _
    by_cases hy : y = x
    · subst hy; simp
    · simp [hy]

theorem contains_firstOcc (xs : List String) (y : String) : (firstOcc xs).contains y = xs.contains y := by
  have := mem_firstOcc xs y
  by_cases h : y ∈ xs
  · have h' := this.2 h
    simp [h, h']
  · have h' : y ∉ firstOcc xs := fun hc => h (this.1 hc)
    simp [h, h']

theorem firstOcc_idem (xs : List String) : firstOcc (firstOcc xs) = firstOcc xs :=
  firstOcc_of_nodup _ (firstOcc_nodup xs)

theorem firstOcc_middle (a X c : List String) :
    firstOcc (a ++ (firstOcc X ++ c)) = firstOcc (a ++ (X ++ c)) := by
  rw [firstOcc_append a, firstOcc_append a, firstOcc_append (firstOcc X), firstOcc_append X,
    firstOcc_idem]
  simp only [contains_firstOcc]

theorem distinctCount_aux (xs s : List String) :
    (xs.foldl (fun s x => if s.contains x then s else x :: s) s).length =
      s.length + ((firstOcc xs).filter (fun y => !s.contains y)).length := by
  induction xs generalizing s with
  | nil => simp [firstOcc]
  | cons x r ih =>
    simp only [List.foldl_cons, ih, firstOcc, List.filter_cons]
    by_cases hx : s.contains x = true
    · simp only [hx, if_true, Bool.not_true, Bool.false_eq_true, if_false, List.filter_filter]
      congr 2
      apply List.filter_congr
      intro y _
      by_cases hy : y = x
      · subst hy
        have hm : y ∈ s := by simpa using hx
        simp [hm]
      · simp [hy]
    · have hx' : s.contains x = false := by simpa using hx
      simp only [hx', Bool.false_eq_true, if_false, Bool.not_false, if_true, List.length_cons,
        List.filter_filter]
      have : List.filter (fun y => !(x :: s).contains y) (firstOcc r)
          = List.filter (fun a => (!s.contains a) && !(a == x)) (firstOcc r) := by
        apply List.filter_congr
        intro y _
        by_cases hy : y = x
        · subst hy; simp
        · simp [hy]
      rw [this]; omega

theorem distinctCount_eq (xs : List String) : distinctCount xs = (firstOcc xs).length := by
  unfold distinctCount
  rw [distinctCount_aux]
  simp

/-! ### lookup through the layers -/
theorem lookup_isSome_iff (d : List (String × ν)) (k : String) :
    (d.lookup k).isSome = true ↔ k ∈ d.map (·.1) := by
  induction d with
  | nil => simp
  | cons kv r ih =>
    obtain ⟨k0, v0⟩ := kv
    by_cases h : k = k0
    · subst h; simp [List.lookup]
    · have hb : (k == k0) = false := by simpa using h
      simp [List.lookup, hb, ih, h]

mutual
theorem get_eq_lookup_flat : ∀ (l : Layer ν) (k : String), l.get k = l.flat.lookup k
  | .dict d, k => by simp [Layer.get, Layer.flat]
  | .lm n muts layers, k => by
    simp only [Layer.get, Layer.flat, lookup_append', getL_eq_lookup_flatL layers k]
    cases List.lookup k muts <;> rfl
theorem getL_eq_lookup_flatL : ∀ (ls : List (Layer ν)) (k : String), getL ls k = (flatL ls).lookup k
  | [], k => by simp [getL, flatL]
  | l :: r, k => by
    simp only [getL, flatL, lookup_append', get_eq_lookup_flat l k, getL_eq_lookup_flatL r k]
    cases List.lookup k l.flat <;> rfl
end

mutual
theorem keys_firstOcc : ∀ (l : Layer ν) (pre post : List String),
    firstOcc (pre ++ (l.keys ++ post)) = firstOcc (pre ++ (l.flat.map (·.1) ++ post))
  | .dict d, pre, post => by simp [Layer.keys, Layer.flat]
  | .lm n muts layers, pre, post => by
    simp only [Layer.keys, Layer.flat, dedup_eq, firstOcc_middle, List.map_append, List.append_assoc]
    have := keysL_firstOcc layers (pre ++ muts.map (·.1)) post
    simpa [List.append_assoc] using this
theorem keysL_firstOcc : ∀ (ls : List (Layer ν)) (pre post : List String),
    firstOcc (pre ++ (keysL ls ++ post)) = firstOcc (pre ++ ((flatL ls).map (·.1) ++ post))
  | [], pre, post => by simp [keysL, flatL]
  | l :: r, pre, post => by
    simp only [keysL, flatL, List.map_append, List.append_assoc]
    rw [keys_firstOcc l pre (keysL r ++ post)]
    have := keysL_firstOcc r (pre ++ l.flat.map (·.1)) post
    simpa [List.append_assoc] using this
end

mutual
theorem getNamed_fst : ∀ (l : Layer ν) (path : List String) (here : Option String) (k : String),
    (l.getNamed path here k).map (·.1) = l.get k
  | .dict d, path, here, k => by
    simp only [Layer.getNamed, Layer.get]; cases d.lookup k <;> rfl
  | .lm n muts layers, path, here, k => by
    simp only [Layer.getNamed, Layer.get]
    cases muts.lookup k with
    | some v => rfl
    | none => exact getNamedL_fst layers _ _ k
theorem getNamedL_fst : ∀ (ls : List (Layer ν)) (path : List String) (here : Option String) (k : String),
    (getNamedL ls path here k).map (·.1) = getL ls k
  | [], path, here, k => by simp [getNamedL, getL]
  | l :: r, path, here, k => by
    have h1 := getNamed_fst l path here k
    have h2 := getNamedL_fst r path here k
    simp only [getNamedL, getL]
    cases hx : l.getNamed path here k with
    | some x => rw [hx] at h1; simp only [Option.map] at h1; rw [← h1]; rfl
    | none => rw [hx] at h1; simp only [Option.map] at h1; rw [← h1]; exact h2
end

end FormulaicVerif.Proofs.C19
