import FormulaicVerif.Model.FromSpec
/-! # C01 — equivalent specification forms (`Model/FromSpec.lean`)

The string parser is a parameter `E.parse`; the statements say: whenever the strings involved denote
the same term sets, the forms give the same formula. (`Props/C01.lean` instantiates the hypotheses
with the parse theorems for the documented grammar.) -/
namespace FormulaicVerif.Proofs.C01Forms
open FormulaicVerif FormulaicVerif.Model FormulaicVerif.Model.FromSpec

variable {σ : Type}

/-! ### `_simplify` on the shapes that occur -/

theorem simplifyFull_set (ts : List Term) : simplifyFull (.set ts) = .set ts := by
  simp [simplifyFull, simplifyVal, unwrapRoot]

theorem simplifyFull_root_set (ts : List Term) : simplifyFull (.struct [("root", .set ts)]) = .set ts := by
  simp [simplifyFull, simplifyVal, unwrapRoot, Val.isTuple]

theorem simplifyFull_lhs_rhs (l r : List Term) :
    simplifyFull (.struct [("lhs", .set l), ("rhs", .set r)]) = .struct [("lhs", .set l), ("rhs", .set r)] := by
  simp [simplifyFull, simplifyVal, unwrapRoot, valDepth, valDepth.depthFields]

theorem simplifyInit_lhs_rhs (l r : List Term) :
    simplifyInit (.struct [("lhs", .set l), ("rhs", .set r)]) = .struct [("lhs", .set l), ("rhs", .set r)] := by
  simp [simplifyInit, peelInit, valDepth, valDepth.depthFields, simplifyFull_set]

/-! ### `SimpleFormula` -/

theorem allTerms_some : ∀ ts : List Term, allTerms (ts.map some) = some ts
  | [] => rfl
  | t :: ts => by simp [allTerms, allTerms_some ts]

theorem simple_ok (o : FromSpec.Ordering) (ts : List Term) :
    simpleFormula (some o) (ts.map some) = .ok (.set (orderTerms o ts)) := by
  simp [simpleFormula, allTerms_some]

theorem buildItems_terms (E : Env σ) (P : Parsers) : ∀ ts : List Term,
    buildItems E P (ts.map Item.term) = .ok (ts.map some)
  | [] => rfl
  | t :: ts => by simp [buildItems, buildItems_terms E P ts]

theorem iterVal_root_set (ts : List Term) (n : Nat) :
    iterVal (n + 1) (.struct [("root", .set ts)]) = ts.map some := by
  simp [iterVal]

/-- the `i`-th string denotes (parser `cfg`) the plain term set `Ts[i]` -/
def AllParse (E : Env σ) (cfg : ParseCfg) : List σ → List (List Term) → Prop
  | [], [] => True
  | s :: ss, T :: Ts => E.parse cfg s = .ok (.struct [("root", .set T)]) ∧ AllParse E cfg ss Ts
  | _, _ => False

/-- a list of strings, each denoting (nested parser) a plain term set: the concatenation, in order —
repeated terms are KEPT (a list is not a set) -/
theorem buildItems_strings (E : Env σ) (P : Parsers) : ∀ (ss : List σ) (Ts : List (List Term)),
    AllParse E P.nested ss Ts → buildItems E P (ss.map Item.str) = .ok (Ts.flatten.map some)
  | [], [], _ => rfl
  | [], _ :: _, h => h.elim
  | _ :: _, [], h => h.elim
  | s :: ss, T :: Ts, h => by
    simp only [List.map_cons, buildItems, h.1, buildItems_strings E P ss Ts h.2]
    simp [iterVal, valDepth, valDepth.depthFields]

/-! ### one-sided formulas: string, list of `Term`s, list of strings -/

/-- a string whose parse is the plain term set `T`, the list of the `Term`s of `T`, and a list of
strings that denote `T` piece by piece all give `SimpleFormula(T)` in the requested ordering -/
theorem forms_onesided (E : Env σ) (o : FromSpec.Ordering) (parser nested : Option ParseCfg) (s : σ) (T : List Term)
    (ss : List σ) (Ts : List (List Term))
    (hs : E.parse (resolveParsers parser nested).parser s = .ok (.struct [("root", .set T)]))
    (hss : AllParse E (resolveParsers parser nested).nested ss Ts)
    (hT : Ts.flatten = T) :
    fromSpec E (some o) parser nested (.str s) = .ok (.set (orderTerms o T))
    ∧ fromSpec E (some o) parser nested (.items (T.map Item.term)) = .ok (.set (orderTerms o T))
    ∧ fromSpec E (some o) parser nested (.items (ss.map Item.str)) = .ok (.set (orderTerms o T)) := by
  refine ⟨?_, ?_, ?_⟩
  · simp only [fromSpec, build, hs, simplifyFull_root_set, ofParsed, simple_ok]
  · simp only [fromSpec, build, buildItems_terms, simple_ok]
  · simp only [fromSpec, build, buildItems_strings E _ ss Ts hss, hT, simple_ok]

/-! ### two-sided formulas: string, dict, keywords, `Structured`, with strings or `Term` lists -/

theorem forKey_lhs (P : Parsers) : P.forKey "lhs" = { parser := P.nested, nested := P.nested } := by
  simp [Parsers.forKey]
theorem forKey_rhs (P : Parsers) : P.forKey "rhs" = { parser := P.nested, nested := P.nested } := by
  simp [Parsers.forKey]

theorem build_str_root (E : Env σ) (m : Mode) (o : FromSpec.Ordering) (P : Parsers) (s : σ) (T : List Term)
    (h : E.parse P.parser s = .ok (.struct [("root", .set T)])) :
    build E m (some o) P (.str s) = .ok (.set (orderTerms o T)) := by
  simp only [build, h, simplifyFull_root_set, ofParsed, simple_ok]

theorem build_items_terms (E : Env σ) (m : Mode) (o : FromSpec.Ordering) (P : Parsers) (T : List Term) :
    build E m (some o) P (.items (T.map Item.term)) = .ok (.set (orderTerms o T)) := by
  simp only [build, buildItems_terms, simple_ok]

theorem checkKeys_lhs_rhs (o : FromSpec.Ordering) : checkKeys (some o) ["lhs", "rhs"] = .ok () := by
  simp [checkKeys, reservedKeys]

/-- the two sides prepared by a `StructuredFormula` (`_prepare_item`: nested parser for both keys) -/
theorem buildFields_lhs_rhs (E : Env σ) (o : FromSpec.Ordering) (P : Parsers) (x y : Spec σ) (L R : List Term)
    (hx : build E .item (some o) { parser := P.nested, nested := P.nested } x = .ok (.set (orderTerms o L)))
    (hy : build E .item (some o) { parser := P.nested, nested := P.nested } y = .ok (.set (orderTerms o R))) :
    buildFields E .item (some o) P true false [("lhs", x), ("rhs", y)]
      = .ok [("lhs", .set (orderTerms o L)), ("rhs", .set (orderTerms o R))]
    ∧ buildFields E .item (some o) P true true [("lhs", x), ("rhs", y)] = .ok [] := by
  constructor
  · simp [buildFields, forKey_lhs, forKey_rhs, hx, hy]
  · simp [buildFields]

/-- `lhs ~ rhs` as ONE string (parser), as `{"lhs": …, "rhs": …}`, as `Formula(lhs=…, rhs=…)`, as a
`Structured(lhs=…, rhs=…)`, with the sides given as strings (nested parser) or as lists of `Term`s: the
same `StructuredFormula` whenever the sides denote the same term sets `L`, `R` -/
theorem forms_twosided (E : Env σ) (o : FromSpec.Ordering) (parser nested : Option ParseCfg) (s sl sr : σ)
    (L R : List Term)
    (hs : E.parse (resolveParsers parser nested).parser s
      = .ok (.struct [("lhs", .set L), ("rhs", .set R)]))
    (hl : E.parse (resolveParsers parser nested).nested sl = .ok (.struct [("root", .set L)]))
    (hr : E.parse (resolveParsers parser nested).nested sr = .ok (.struct [("root", .set R)])) :
    let result : Except Err Val := .ok (.struct [("lhs", .set (orderTerms o L)), ("rhs", .set (orderTerms o R))])
    fromSpec E (some o) parser nested (.str s) = result
    ∧ fromSpec E (some o) parser nested (.dict [("lhs", .str sl), ("rhs", .str sr)]) = result
    ∧ formulaCall E (some o) parser nested none [("lhs", .str sl), ("rhs", .str sr)] = result
    ∧ fromSpec E (some o) parser nested (.dict [("lhs", .items (L.map Item.term)), ("rhs", .items (R.map Item.term))]) = result
    ∧ formulaCall E (some o) parser nested none
        [("lhs", .items (L.map Item.term)), ("rhs", .items (R.map Item.term))] = result
    ∧ fromSpec E (some o) parser nested (.structured [("lhs", .str sl), ("rhs", .str sr)]) = result := by
  intro result
  have hck := checkKeys_lhs_rhs o
  have hsl := build_str_root E .item o (Parsers.mk (resolveParsers parser nested).nested (resolveParsers parser nested).nested) sl L hl
  have hsr := build_str_root E .item o (Parsers.mk (resolveParsers parser nested).nested (resolveParsers parser nested).nested) sr R hr
  have hstr := buildFields_lhs_rhs E o (resolveParsers parser nested) (.str sl) (.str sr) L R hsl hsr
  have hitm := buildFields_lhs_rhs E o (resolveParsers parser nested) (.items (L.map Item.term))
    (.items (R.map Item.term)) L R (build_items_terms E .item o _ L) (build_items_terms E .item o _ R)
  refine ⟨?_, ?_, ?_, ?_, ?_, ?_⟩
  · simp only [fromSpec, build, hs, simplifyFull_lhs_rhs, ofParsed, List.map_cons, List.map_nil, hck,
      prepParsedFields]
    simp [prepParsed.prepFields, prepParsed, simple_ok, simplifyInit_lhs_rhs, simplifyFull_lhs_rhs, result]
  · simp only [fromSpec, build, List.map_cons, List.map_nil, hck, hstr.1, hstr.2, List.append_nil,
      simplifyInit_lhs_rhs, result]
  · simp only [formulaCall, structuredFormula, List.map_cons, List.map_nil, hck]
    have : List.filter (fun p : String × Spec σ => p.1 != "root") [("lhs", .str sl), ("rhs", .str sr)]
        = [("lhs", .str sl), ("rhs", .str sr)] := by simp [List.filter]
    rw [this, hstr.1]
    simp [Except.map, simplifyInit_lhs_rhs, simplifyFull_lhs_rhs, result]
  · simp only [fromSpec, build, List.map_cons, List.map_nil, hck, hitm.1, hitm.2, List.append_nil,
      simplifyInit_lhs_rhs, result]
  · simp only [formulaCall, structuredFormula, List.map_cons, List.map_nil, hck]
    have : List.filter (fun p : String × Spec σ => p.1 != "root")
          [("lhs", .items (L.map Item.term)), ("rhs", .items (R.map Item.term))]
        = [("lhs", .items (L.map Item.term)), ("rhs", .items (R.map Item.term))] := by
      simp [List.filter]
    rw [this, hitm.1]
    simp [Except.map, simplifyInit_lhs_rhs, simplifyFull_lhs_rhs, result]
  · have h2 := buildFields_lhs_rhs E o (Parsers.mk (resolveParsers parser nested).nested (resolveParsers parser nested).nested) (.str sl) (.str sr) L R hsl hsr
    simp only [fromSpec, build, List.map_cons, List.map_nil, hck, h2.1, h2.2, List.append_nil,
      simplifyInit_lhs_rhs, simplifyFull_lhs_rhs, result]

/-! ### nested structure: a tuple of one-part strings vs the multi-part string -/

theorem simplifyFull_root_tuple2 (a b : List Term) :
    simplifyFull (.struct [("root", .tuple [.set a, .set b])]) = .struct [("root", .tuple [.set a, .set b])] := by
  simp [simplifyFull, simplifyVal, unwrapRoot, valDepth, valDepth.depthFields, valDepth.depthList, Val.isTuple]

theorem simplifyInit_root_tuple2 (a b : List Term) :
    simplifyInit (.struct [("root", .tuple [.set a, .set b])]) = .struct [("root", .tuple [.set a, .set b])] := by
  simp [simplifyInit, peelInit, valDepth, valDepth.depthFields, valDepth.depthList, simplifyFull, simplifyVal, unwrapRoot]

theorem forms_multipart_two (E : Env σ) (o : FromSpec.Ordering) (parser nested : Option ParseCfg) (s s1 s2 : σ)
    (T1 T2 : List Term)
    (hs : E.parse (resolveParsers parser nested).parser s = .ok (.struct [("root", .tuple [.set T1, .set T2])]))
    (h1 : E.parse (resolveParsers parser nested).parser s1 = .ok (.struct [("root", .set T1)]))
    (h2 : E.parse (resolveParsers parser nested).parser s2 = .ok (.struct [("root", .set T2)])) :
    fromSpec E (some o) parser nested (.str s)
      = .ok (.struct [("root", .tuple [.set (orderTerms o T1), .set (orderTerms o T2)])])
    ∧ fromSpec E (some o) parser nested (.tuple [.str s1, .str s2])
      = .ok (.struct [("root", .tuple [.set (orderTerms o T1), .set (orderTerms o T2)])]) := by
  have hck : checkKeys (some o) ["root"] = .ok () := by simp [checkKeys, reservedKeys]
  have hck0 : checkKeys (some o) [] = .ok () := by simp [checkKeys, reservedKeys]
  have hP : (resolveParsers parser nested).forKey "root" = resolveParsers parser nested := by
    simp [Parsers.forKey]
  constructor
  · simp only [fromSpec, build, hs, simplifyFull_root_tuple2, ofParsed, List.map_cons, List.map_nil, hck,
      prepParsedFields]
    simp [prepParsed.prepFields, prepParsed, prepParsed.prepList, simple_ok, simplifyInit_root_tuple2,
      simplifyFull_root_tuple2, Except.map]
  · have b1 := build_str_root E .item o (resolveParsers parser nested) s1 T1 h1
    have b2 := build_str_root E .item o (resolveParsers parser nested) s2 T2 h2
    have hl : buildList E .item (some o) (resolveParsers parser nested) [.str s1, .str s2]
        = .ok [.set (orderTerms o T1), .set (orderTerms o T2)] := by
      simp only [buildList, b1, b2]
    show build E .top (some o) (resolveParsers parser nested) (.tuple [.str s1, .str s2]) = _
    rw [build]
    simp only [hck0, hP, hl, simplifyInit_root_tuple2, simplifyFull_root_tuple2]

/-! ### fuel: the two fuel-bounded loops of `Model/FromSpec.lean` never run out -/

theorem valDepth_root (r : Val) : valDepth (.struct [("root", r)]) = 1 + valDepth r := by
  simp [valDepth, valDepth.depthFields]

/-- `iterVal` needs no more fuel than the nesting depth plus one -/
theorem iterVal_fuel : ∀ (n m : Nat) (v : Val), valDepth v < n → valDepth v < m → iterVal n v = iterVal m v
  | 0, _, _, h, _ => by omega
  | _, 0, _, _, h => by omega
  | n + 1, m + 1, .set ts, _, _ => by simp [iterVal]
  | n + 1, m + 1, .tuple vs, _, _ => by simp [iterVal]
  | n + 1, m + 1, .struct fs, hn, hm => by
    simp only [iterVal]
    split
    · rename_i r
      rw [valDepth_root] at hn hm
      exact iterVal_fuel n m r (by omega) (by omega)
    · rfl

/-- … and neither does the unwrapping loop of `_simplify(unwrap=False)` -/
theorem peelInit_fuel : ∀ (n m : Nat) (v : Val), valDepth v ≤ n → valDepth v ≤ m → peelInit n v = peelInit m v
  | 0, 0, _, _, _ => rfl
  | 0, m + 1, v, hn, _ => by
    simp only [peelInit]
    split
    · rename_i gs
      rw [valDepth_root] at hn; omega
    · rfl
  | n + 1, 0, v, _, hm => by
    simp only [peelInit]
    split
    · rename_i gs
      rw [valDepth_root] at hm; omega
    · rfl
  | n + 1, m + 1, v, hn, hm => by
    simp only [peelInit]
    split
    · rename_i gs
      rw [valDepth_root] at hn hm
      exact peelInit_fuel n m (.struct gs) (by omega) (by omega)
    · rfl

end FormulaicVerif.Proofs.C01Forms
