import FormulaicVerif.Proofs.C12Quant
/-! Helper lemmas for C12 (not obligations): the entry-point model `Model/SplineEntry.lean`.

* forgetting the reasons (`eraseCs`, `eraseBs`) turns `cubicSpline` / `basisSpline` into
  `CubicSpline.fit` / `BSpline.fit` — the functions the older theorems are about;
* inversion of a successful call (`prepareCs_inv`) and what it guarantees (`prepareCs_ok`);
* which error exits cannot be taken through the entry points;
* the result does not depend on the order (cr/cc: nor on repeats) in which explicit knots are listed;
* the quantile knots of an accepted `df` call are admissible. -/
namespace FormulaicVerif.Proofs.C12
open FormulaicVerif.Model FormulaicVerif.Model.SplineEntry

/-- forget the reasons -/
def eraseCs {α : Type} : Except Reason α → Except CubicSpline.Err α
  | .ok a => .ok a
  | .error e => .error e.toCs

def eraseBs {α : Type} : Except Reason α → Except BSpline.Err α
  | .ok a => .ok a
  | .error e => .error e.toBs

@[simp] theorem eraseCs_ok {α : Type} (a : α) : eraseCs (.ok a : Except Reason α) = .ok a := rfl
@[simp] theorem eraseCs_error {α : Type} (e : Reason) : eraseCs (.error e : Except Reason α) = .error e.toCs := rfl
@[simp] theorem eraseBs_ok {α : Type} (a : α) : eraseBs (.ok a : Except Reason α) = .ok a := rfl
@[simp] theorem eraseBs_error {α : Type} (e : Reason) : eraseBs (.error e : Except Reason α) = .error e.toBs := rfl

theorem resolveBound_eraseCs (g d : Option Rat) (e : Bool) :
    eraseCs (resolveBound g d e)
      = (match BSpline.resolveBound g d e with | .ok v => .ok v | .error x => .error (CubicSpline.ofBs x)) := by
  unfold resolveBound BSpline.resolveBound
  cases g <;> cases d <;> cases e <;> rfl

theorem resolveBound_eraseBs (g d : Option Rat) (e : Bool) :
    eraseBs (resolveBound g d e) = BSpline.resolveBound g d e := by
  unfold resolveBound BSpline.resolveBound
  cases g <;> cases d <;> cases e <;> rfl

theorem innerKnots_erase (s : List Rat) (lo hi : Rat) (n : Option Int) (i : Option (List Rat))
    (q : List Rat → ℕ → List Rat) :
    eraseCs (innerKnots s lo hi n i q) = CubicSpline.innerKnots s lo hi n i q := by
  unfold innerKnots CubicSpline.innerKnots
  cases i <;> cases n <;> simp only [apply_ite eraseCs, eraseCs_ok, eraseCs_error, Reason.toCs]

theorem sortedKnots_erase (s : List Rat) (lo hi : Rat) (n : Option Int) (i : Option (List Rat))
    (q : List Rat → ℕ → List Rat) :
    eraseCs (sortedKnots s lo hi n i q) = CubicSpline.allSortedKnots s lo hi n i q := by
  unfold sortedKnots CubicSpline.allSortedKnots
  rw [← innerKnots_erase]
  by_cases h0 : hi < lo
  · simp only [h0, if_true, eraseCs_error, Reason.toCs]
  · simp only [h0, if_false]
    cases h : innerKnots s lo hi n i q with
    | error e => rfl
    | ok v =>
      obtain ⟨ik, m⟩ := v
      simp only [eraseCs_ok, apply_ite eraseCs, eraseCs_error, Reason.toCs]

theorem nInnerOf_erase (df : Option Int) (c : Bool) (nc : ℕ) :
    eraseCs (nInnerOf df c nc) = CubicSpline.nInnerOf df c nc := by
  unfold nInnerOf CubicSpline.nInnerOf
  cases df <;> simp only [apply_ite eraseCs, eraseCs_ok, eraseCs_error, Reason.toCs]

theorem eraseCs_eq_cases {α : Type} {A : Except Reason α} {B : Except CubicSpline.Err α} (h : eraseCs A = B) :
    (∃ v, A = .ok v ∧ B = .ok v) ∨ (∃ x, A = .error x ∧ B = .error x.toCs) := by
  cases A with
  | ok v => exact Or.inl ⟨v, rfl, h.symm⟩
  | error x => exact Or.inr ⟨x, rfl, h.symm⟩

theorem resolveBound_cases (g d : Option Rat) (e : Bool) :
    (∃ v, resolveBound g d e = .ok v ∧ BSpline.resolveBound g d e = .ok v) ∨
    (∃ x y, resolveBound g d e = .error x ∧ BSpline.resolveBound g d e = .error y ∧
      CubicSpline.ofBs y = x.toCs ∧ y = x.toBs) := by
  unfold resolveBound BSpline.resolveBound
  cases g <;> cases d <;> cases e <;> simp [CubicSpline.ofBs, Reason.toCs, Reason.toBs]

theorem cubicSpline_erase (r : RawCs) (quant : List Rat → ℕ → List Rat)
    (getF : List Rat → List (List Rat)) (getQ2 : List (List Rat) → List (List Rat))
    (xs : List (Option Rat)) (mode : BSpline.Mode) (cons : CubicSpline.Constraints)
    (hx : reformatX r.xshape r.x = .ok xs) (hm : parseMode r.mode = some mode)
    (hc : parseCons r.cons = .ok cons) :
    eraseCs (cubicSpline r quant getF getQ2) = CubicSpline.fit (r.args cons mode) xs quant getF getQ2 := by
  unfold cubicSpline prepareCs CubicSpline.fit
  have e1 : (r.args cons mode).mode = mode := rfl
  have e2 : (r.args cons mode).df = r.df := rfl
  have e3 : (r.args cons mode).knots = r.knots := rfl
  have e4 : (r.args cons mode).lower = r.lower := rfl
  have e5 : (r.args cons mode).upper = r.upper := rfl
  have e6 : (r.args cons mode).constraints = cons := rfl
  have e7 : (r.args cons mode).cyclic = r.cyclic := rfl
  rw [e1, e2, e3, e4, e5, e6, e7]
  simp only [hx, hm, hc]
  by_cases hb : (r.df.isSome && r.knots.isSome) = true
  · simp only [hb, if_true, eraseCs_error, Reason.toCs]
  have hb' := Bool.eq_false_iff.2 hb
  simp only [hb', Bool.false_eq_true, if_false]
  rcases resolveBound_cases r.lower (BSpline.minOf (BSpline.nonNull xs)) xs.isEmpty with
    ⟨lower, a1, b1⟩ | ⟨x, y, a1, b1, c1, _⟩
  swap
  · simp only [a1, b1, eraseCs_error, c1]
  simp only [a1, b1]
  rcases resolveBound_cases r.upper (BSpline.maxOf (BSpline.nonNull xs)) xs.isEmpty with
    ⟨upper, a2, b2⟩ | ⟨x, y, a2, b2, c2, _⟩
  swap
  · simp only [a2, b2, eraseCs_error, c2]
  simp only [a2, b2]
  by_cases hr : (mode = .raise && (BSpline.nonNull xs).any (BSpline.outside lower upper)) = true
  · simp only [hr, if_true, eraseCs_error, Reason.toCs]
  have hr' := Bool.eq_false_iff.2 hr
  simp only [hr', Bool.false_eq_true, if_false]
  by_cases hn : (r.df.isNone && r.knots.isNone) = true
  · simp only [hn, if_true, eraseCs_error, Reason.toCs]
  have hn' := Bool.eq_false_iff.2 hn
  simp only [hn', Bool.false_eq_true, if_false]
  rcases eraseCs_eq_cases (nInnerOf_erase r.df r.cyclic (CubicSpline.nConstraints cons)) with
    ⟨nInner, a3, b3⟩ | ⟨x, a3, b3⟩
  swap
  · simp only [a3, b3, eraseCs_error]
  simp only [a3, b3]
  rcases eraseCs_eq_cases (sortedKnots_erase (CubicSpline.knotsSample lower upper xs) lower upper nInner
      r.knots quant) with ⟨knots, a4, b4⟩ | ⟨x, a4, b4⟩
  swap
  · simp only [a4, b4, eraseCs_error]
  simp only [a4, b4]
  unfold finishCs
  simp only [RawCs.args]
  cases h5 : CubicSpline.constraintsOf
      { df := r.df, knots := r.knots, lower := r.lower, upper := r.upper, constraints := cons,
        cyclic := r.cyclic, mode := mode } lower upper knots (getF knots) xs with
  | error e =>
    simp only [eraseCs_error]
    cases cons with
    | matrix m =>
      simp only [Reason.toCs]
      have : e = .valueError := by
        unfold CubicSpline.constraintsOf at h5
        simp only at h5
        by_cases hany : (m.any fun r_1 => r_1.length != if r.cyclic = true then knots.length - 1 else knots.length) = true
        · rw [if_pos hany] at h5; injection h5 with h5; exact h5.symm
        · rw [if_neg hany] at h5; cases h5
      rw [this]
    | none => rfl
    | center => rfl
  | ok cs =>
    simp only
    generalize CubicSpline.transform _ mode xs (getF knots) _ = T
    cases T <;> rfl

theorem interiorKnots_eraseBs (r : RawBs) (mode : BSpline.Mode) (lo hi : Rat) (q : List Rat → ℕ → List Rat)
    (hd : 0 ≤ r.degree) :
    eraseBs (interiorKnots r mode lo hi q) = BSpline.interiorKnots (r.args mode) lo hi r.x q := by
  unfold interiorKnots BSpline.interiorKnots
  have e1 : (r.args mode).mode = mode := rfl
  have e2 : (r.args mode).df = r.df := rfl
  have e3 : (r.args mode).knots = r.knots.map sort := rfl
  have e4 : (r.args mode).intercept = r.intercept := rfl
  have e5 : ((r.args mode).degree : Int) = r.degree := by
    show ((r.degree.toNat : ℕ) : Int) = r.degree
    exact Int.toNat_of_nonneg hd
  rw [e1, e2, e3, e4, e5]
  cases r.knots <;> cases r.df <;>
    simp only [Option.map, apply_ite eraseBs, eraseBs_ok, eraseBs_error, Reason.toBs]

theorem transform_error_bs {st : BSpline.State} {d : ℕ} {ic : Bool} {m : BSpline.Mode}
    {xs : List (Option Rat)} {e : BSpline.Err} (h : BSpline.transform st d ic m xs = .error e) :
    e = .valueError := by
  unfold BSpline.transform at h
  split at h
  · injection h with h; exact h.symm
  · cases h

theorem basisSpline_erase (r : RawBs) (quant : List Rat → ℕ → List Rat) (mode : BSpline.Mode)
    (hm : parseMode r.mode = some mode) (hd : 0 ≤ r.degree) :
    eraseBs (basisSpline r quant) = BSpline.fit (r.args mode) r.x quant := by
  unfold basisSpline prepareBs BSpline.fit BSpline.prepare
  have e1 : (r.args mode).mode = mode := rfl
  have e2 : (r.args mode).df = r.df := rfl
  have e3 : (r.args mode).knots = r.knots.map sort := rfl
  have e4 : (r.args mode).intercept = r.intercept := rfl
  have e5 : (r.args mode).degree = r.degree.toNat := rfl
  have e6 : (r.args mode).lower = r.lower := rfl
  have e7 : (r.args mode).upper = r.upper := rfl
  have hik := interiorKnots_eraseBs r mode
  generalize r.args mode = a at *
  rw [e1, e2, e3, e5, e6, e7, e4]
  simp only [hm]
  have hsome : (r.knots.map sort).isSome = r.knots.isSome := by cases r.knots <;> rfl
  rw [hsome]
  by_cases hb : (r.df.isSome && r.knots.isSome) = true
  · simp only [hb, if_true, eraseBs_error, Reason.toBs]
  have hb' := Bool.eq_false_iff.2 hb
  simp only [hb', Bool.false_eq_true, if_false]
  rcases resolveBound_cases r.lower (BSpline.minOf (BSpline.nonNull r.x)) r.x.isEmpty with
    ⟨lower, a1, b1⟩ | ⟨x, y, a1, b1, _, c1⟩
  swap
  · simp only [a1, b1, eraseBs_error, c1]
  simp only [a1, b1]
  rcases resolveBound_cases r.upper (BSpline.maxOf (BSpline.nonNull r.x)) r.x.isEmpty with
    ⟨upper, a2, b2⟩ | ⟨x, y, a2, b2, _, c2⟩
  swap
  · simp only [a2, b2, eraseBs_error, c2]
  simp only [a2, b2]
  by_cases hr : (mode = .raise && (BSpline.nonNull r.x).any (BSpline.outside lower upper)) = true
  · simp only [hr, if_true, eraseBs_error, Reason.toBs]
  have hr' := Bool.eq_false_iff.2 hr
  simp only [hr', Bool.false_eq_true, if_false]
  have h4 := hik lower upper quant hd
  cases a4 : interiorKnots r mode lower upper quant with
  | error x =>
    rw [a4] at h4
    simp only [eraseBs_error] at h4
    simp only [← h4, eraseBs_error]
  | ok interior =>
    rw [a4] at h4
    simp only [eraseBs_ok] at h4
    have hnd : ¬ r.degree < 0 := by omega
    simp only [← h4, hnd, if_false]
    cases h6 : BSpline.transform
        { lower := lower, upper := upper, knots := BSpline.padKnots lower interior upper r.degree.toNat }
        r.degree.toNat r.intercept mode r.x with
    | error e =>
      simp only [eraseBs_error, Reason.toBs, transform_error_bs h6]
    | ok out => rfl

/-! ## what an accepted call guarantees -/

theorem innerKnots_ok {s : List Rat} {lo hi : Rat} {n : Option Int} {i : Option (List Rat)}
    {q : List Rat → ℕ → List Rat} {ik : List Rat} {m : Int}
    (h : innerKnots s lo hi n i q = .ok (ik, m)) :
    0 ≤ m ∧ (∀ ks, i = some ks → ik = CubicSpline.unique ks ∧ ∀ k ∈ ik, lo ≤ k ∧ k ≤ hi) := by
  unfold innerKnots at h
  cases i with
  | none =>
    cases n with
    | none => cases h
    | some n =>
      simp only at h
      by_cases h1 : n < 0
      · rw [if_pos h1] at h; cases h
      · rw [if_neg h1] at h
        refine ⟨?_, fun ks hks => by cases hks⟩
        by_cases h2 : (!s.isEmpty) = true
        · rw [if_pos h2] at h; injection h with h; injection h with _ h; omega
        · rw [if_neg h2] at h
          by_cases h3 : n = 0
          · rw [if_pos h3] at h; injection h with h; injection h with _ h; omega
          · rw [if_neg h3] at h; cases h
  | some ks =>
    have tail : ∀ (h : (if ((CubicSpline.unique ks).any fun k => decide (k < lo)) = true then
          (Except.error Reason.knotsBelow : Except Reason (List Rat × Int))
        else if ((CubicSpline.unique ks).any fun k => decide (k > hi)) = true then Except.error Reason.knotsAbove
        else Except.ok (CubicSpline.unique ks, ((CubicSpline.unique ks).length : Int))) = .ok (ik, m)),
        0 ≤ m ∧ (∀ ks', some ks = some ks' → ik = CubicSpline.unique ks' ∧ ∀ k ∈ ik, lo ≤ k ∧ k ≤ hi) := by
      intro h
      by_cases h1 : ((CubicSpline.unique ks).any fun k => decide (k < lo)) = true
      · rw [if_pos h1] at h; cases h
      rw [if_neg h1] at h
      by_cases h2 : ((CubicSpline.unique ks).any fun k => decide (k > hi)) = true
      · rw [if_pos h2] at h; cases h
      rw [if_neg h2] at h
      injection h with h
      injection h with ha hb
      subst ha
      refine ⟨by rw [← hb]; exact Int.natCast_nonneg _, ?_⟩
      intro ks' hks'
      injection hks' with hks'
      subst hks'
      refine ⟨rfl, ?_⟩
      intro k hk
      simp only [List.any_eq_true, decide_eq_true_eq, not_exists, not_and, not_lt] at h1 h2
      exact ⟨h1 k hk, h2 k hk⟩
    cases n with
    | none =>
      simp only [Bool.false_eq_true, if_false] at h
      exact tail h
    | some n =>
      simp only at h
      by_cases h0 : decide (n ≠ ((CubicSpline.unique ks).length : Int)) = true
      · rw [if_pos h0] at h; cases h
      rw [if_neg h0] at h
      exact tail h

theorem sortedKnots_ok {s : List Rat} {lo hi : Rat} {n : Option Int} {i : Option (List Rat)}
    {q : List Rat → ℕ → List Rat} {k : List Rat} (h : sortedKnots s lo hi n i q = .ok k) :
    k.Pairwise (· < ·) ∧ 2 ≤ k.length ∧ lo ∈ k ∧ hi ∈ k ∧ lo ≤ hi ∧
      (∀ ks, i = some ks → k = CubicSpline.unique (lo :: hi :: ks)) := by
  unfold sortedKnots at h
  by_cases hle : hi < lo
  · rw [if_pos hle] at h; cases h
  rw [if_neg hle] at h
  cases h1 : innerKnots s lo hi n i q with
  | error e => rw [h1] at h; cases h
  | ok v =>
    obtain ⟨ik, m⟩ := v
    rw [h1] at h
    simp only at h
    by_cases hlen : ((CubicSpline.unique ([lo, hi] ++ ik)).length : Int) ≠ m + 2
    · rw [if_pos hlen] at h; cases h
    rw [if_neg hlen] at h
    injection h with h
    subst h
    obtain ⟨hm, hex⟩ := innerKnots_ok h1
    refine ⟨unique_pairwise _, ?_, mem_unique.2 (by simp), mem_unique.2 (by simp), not_lt.1 hle, ?_⟩
    · have : ((CubicSpline.unique ([lo, hi] ++ ik)).length : Int) = m + 2 := by
        by_contra hc; exact hlen hc
      omega
    · intro ks hks
      obtain ⟨e, _⟩ := hex ks hks
      rw [e]
      apply unique_congr
      intro a
      simp only [List.cons_append, List.nil_append, List.mem_cons, mem_unique]

/-- inversion of a successful `prepareCs`: every check passed, in order -/
theorem prepareCs_inv {r : RawCs} {quant : List Rat → ℕ → List Rat} {p : PrepCs}
    (h : prepareCs r quant = .ok p) :
    (r.df.isSome && r.knots.isSome) = false ∧ reformatX r.xshape r.x = .ok p.xs ∧
    resolveBound r.lower (BSpline.minOf (BSpline.nonNull p.xs)) p.xs.isEmpty = .ok p.lower ∧
    resolveBound r.upper (BSpline.maxOf (BSpline.nonNull p.xs)) p.xs.isEmpty = .ok p.upper ∧
    parseMode r.mode = some p.mode ∧
    (p.mode = .raise && (BSpline.nonNull p.xs).any (BSpline.outside p.lower p.upper)) = false ∧
    (r.df.isNone && r.knots.isNone) = false ∧ parseCons r.cons = .ok p.cons ∧
    ∃ nInner, nInnerOf r.df r.cyclic (CubicSpline.nConstraints p.cons) = .ok nInner ∧
      sortedKnots (CubicSpline.knotsSample p.lower p.upper p.xs) p.lower p.upper nInner r.knots quant
        = .ok p.knots := by
  unfold prepareCs at h
  by_cases hb : (r.df.isSome && r.knots.isSome) = true
  · rw [if_pos hb] at h; cases h
  rw [if_neg hb] at h
  cases hx : reformatX r.xshape r.x with
  | error e => rw [hx] at h; cases h
  | ok xs =>
  rw [hx] at h
  simp only at h
  cases h1 : resolveBound r.lower (BSpline.minOf (BSpline.nonNull xs)) xs.isEmpty with
  | error e => rw [h1] at h; cases h
  | ok lower =>
  rw [h1] at h
  simp only at h
  cases h2 : resolveBound r.upper (BSpline.maxOf (BSpline.nonNull xs)) xs.isEmpty with
  | error e => rw [h2] at h; cases h
  | ok upper =>
  rw [h2] at h
  simp only at h
  cases hm : parseMode r.mode with
  | none => rw [hm] at h; cases h
  | some mode =>
  rw [hm] at h
  simp only at h
  by_cases hr : (mode = .raise && (BSpline.nonNull xs).any (BSpline.outside lower upper)) = true
  · rw [if_pos hr] at h; cases h
  rw [if_neg hr] at h
  by_cases hn : (r.df.isNone && r.knots.isNone) = true
  · rw [if_pos hn] at h; cases h
  rw [if_neg hn] at h
  cases hc : parseCons r.cons with
  | error e => rw [hc] at h; cases h
  | ok cons =>
  rw [hc] at h
  simp only at h
  cases h3 : nInnerOf r.df r.cyclic (CubicSpline.nConstraints cons) with
  | error e => rw [h3] at h; cases h
  | ok nInner =>
  rw [h3] at h
  simp only at h
  cases h4 : sortedKnots (CubicSpline.knotsSample lower upper xs) lower upper nInner r.knots quant with
  | error e => rw [h4] at h; cases h
  | ok knots =>
  rw [h4] at h
  simp only at h
  injection h with h
  subst h
  exact ⟨Bool.eq_false_iff.2 hb, rfl, h1, h2, rfl, Bool.eq_false_iff.2 hr, Bool.eq_false_iff.2 hn, rfl,
    nInner, h3, h4⟩

/-- **an accepted first call of cubic_spline records admissible knots**: strictly increasing, at
least two, containing both bounds, with `lower ≤ upper` — the hypotheses `hs`, `hn` of every
cubic-spline theorem; with explicit knots they are exactly the distinct values among the bounds
and the user's list -/
theorem prepareCs_ok {r : RawCs} {quant : List Rat → ℕ → List Rat} {p : PrepCs}
    (h : prepareCs r quant = .ok p) :
    p.knots.Pairwise (· < ·) ∧ 2 ≤ p.knots.length ∧ p.lower ∈ p.knots ∧ p.upper ∈ p.knots ∧
      p.lower ≤ p.upper ∧
      (∀ ks, r.knots = some ks → p.knots = CubicSpline.unique (p.lower :: p.upper :: ks)) := by
  obtain ⟨_, _, _, _, _, _, _, _, nInner, _, hsk⟩ := prepareCs_inv h
  exact sortedKnots_ok hsk
/-! ## explicit knots: the order of listing (cr/cc: and repeats) does not matter -/

theorem innerKnots_congr (s : List Rat) (lo hi : Rat) (n : Option Int) (ks ks' : List Rat)
    (q : List Rat → ℕ → List Rat) (h : ∀ a, a ∈ ks ↔ a ∈ ks') :
    innerKnots s lo hi n (some ks) q = innerKnots s lo hi n (some ks') q := by
  unfold innerKnots
  simp only [unique_congr h]

theorem sortedKnots_congr (s : List Rat) (lo hi : Rat) (n : Option Int) (ks ks' : List Rat)
    (q : List Rat → ℕ → List Rat) (h : ∀ a, a ∈ ks ↔ a ∈ ks') :
    sortedKnots s lo hi n (some ks) q = sortedKnots s lo hi n (some ks') q := by
  unfold sortedKnots
  rw [innerKnots_congr s lo hi n ks ks' q h]

/-- `constraintsOf` reads only `cyclic`, `constraints` and `mode` of its argument record -/
theorem constraintsOf_congr (a a' : CubicSpline.Args) (h1 : a.cyclic = a'.cyclic)
    (h2 : a.constraints = a'.constraints) (h3 : a.mode = a'.mode) (lo hi : Rat) (k : List Rat)
    (F : List (List Rat)) (xs : List (Option Rat)) :
    CubicSpline.constraintsOf a lo hi k F xs = CubicSpline.constraintsOf a' lo hi k F xs := by
  unfold CubicSpline.constraintsOf
  rw [h1, h2, h3]

theorem cubicSpline_knots_congr (r : RawCs) (ks ks' : List Rat) (h : ∀ a, a ∈ ks ↔ a ∈ ks')
    (quant : List Rat → ℕ → List Rat) (getF : List Rat → List (List Rat))
    (getQ2 : List (List Rat) → List (List Rat)) :
    cubicSpline { r with knots := some ks } quant getF getQ2
      = cubicSpline { r with knots := some ks' } quant getF getQ2 := by
  unfold cubicSpline
  have hp : prepareCs { r with knots := some ks } quant = prepareCs { r with knots := some ks' } quant := by
    unfold prepareCs
    simp only [Option.isSome_some, Option.isNone_some, sortedKnots_congr _ _ _ _ ks ks' quant h]
  rw [hp]
  cases prepareCs { r with knots := some ks' } quant with
  | error e => rfl
  | ok p =>
    simp only
    unfold finishCs
    dsimp only
    rw [constraintsOf_congr (({ r with knots := some ks } : RawCs).args p.cons p.mode)
      (({ r with knots := some ks' } : RawCs).args p.cons p.mode) rfl rfl rfl]

theorem basisSpline_knots_perm (r : RawBs) (ks ks' : List Rat) (h : ks.Perm ks')
    (quant : List Rat → ℕ → List Rat) :
    basisSpline { r with knots := some ks } quant = basisSpline { r with knots := some ks' } quant := by
  unfold basisSpline
  have hp : prepareBs { r with knots := some ks } quant = prepareBs { r with knots := some ks' } quant := by
    unfold prepareBs interiorKnots
    simp only [Option.isSome_some, sort_eq_of_perm h]
  rw [hp]

/-! ## which error exits can be taken through `cubic_spline` -/

theorem nInnerOf_ok {df : Option Int} {c : Bool} {nc : ℕ} {n : Option Int}
    (h : nInnerOf df c nc = .ok n) : n.isSome = df.isSome ∧ ∀ m, n = some m → 0 ≤ m := by
  unfold nInnerOf at h
  cases df with
  | none => injection h with h; subst h; exact ⟨rfl, fun m hm => by cases hm⟩
  | some d =>
    simp only at h
    by_cases hd : d < (if (!c && nc == 0) = true then 2 else 1)
    · rw [if_pos hd] at h; cases h
    rw [if_neg hd] at h
    injection h with h
    subst h
    refine ⟨rfl, ?_⟩
    intro m hm
    injection hm with hm
    subst hm
    cases c <;> cases hnc : (nc == 0) <;> simp [hnc] at hd ⊢
    · have : nc ≠ 0 := by simpa using hnc
      omega
    · omega
    · omega
    · omega

/-- the exits of `_get_all_sorted_knots` that remain when it is called the way `cubic_spline`
calls it: exactly one of `n_inner_knots` / `inner_knots`, and a non-negative count -/
theorem sortedKnots_error_reasons {s : List Rat} {lo hi : Rat} {n : Option Int} {i : Option (List Rat)}
    {q : List Rat → ℕ → List Rat} {e : Reason} (h : sortedKnots s lo hi n i q = .error e)
    (hn : ∀ m, n = some m → 0 ≤ m) (hx : n.isSome = !i.isSome) :
    e = .lowerGtUpper ∨ e = .noDataForKnots ∨ e = .knotsBelow ∨ e = .knotsAbove ∨ e = .notDistinct := by
  unfold sortedKnots at h
  by_cases hle : hi < lo
  · rw [if_pos hle] at h; injection h with h; exact Or.inl h.symm
  rw [if_neg hle] at h
  cases h1 : innerKnots s lo hi n i q with
  | ok v =>
    obtain ⟨ik, m⟩ := v
    rw [h1] at h
    simp only at h
    split at h
    · injection h with h; exact Or.inr (Or.inr (Or.inr (Or.inr h.symm)))
    · cases h
  | error e' =>
    rw [h1] at h
    injection h with h
    subst h
    unfold innerKnots at h1
    cases i with
    | none =>
      cases n with
      | none => simp at hx
      | some m =>
        simp only at h1
        have := hn m rfl
        have hneg : ¬ m < 0 := by omega
        rw [if_neg hneg] at h1
        split at h1
        · cases h1
        · split at h1
          · cases h1
          · injection h1 with h1; exact Or.inr (Or.inl h1.symm)
    | some ks =>
      cases n with
      | some m => simp at hx
      | none =>
        simp only [Bool.false_eq_true, if_false] at h1
        split at h1
        · injection h1 with h1; exact Or.inr (Or.inr (Or.inl h1.symm))
        · split at h1
          · injection h1 with h1; exact Or.inr (Or.inr (Or.inr (Or.inl h1.symm)))
          · cases h1

/-- the reachable error exits of a first call of `cubic_spline` -/
def CsReachable : Reason → Prop
  | .bothDfKnots | .notOneDim | .emptyData | .noData | .badMode | .extrapolationCs | .neitherDfKnots
  | .badConstraintStr | .constraintNdim | .dfTooSmallCs | .lowerGtUpper | .noDataForKnots | .knotsBelow
  | .knotsAbove | .notDistinct | .constraintCols | .inner _ => True
  | _ => False

theorem resolveBound_error {g d : Option Rat} {b : Bool} {e : Reason} (h : resolveBound g d b = .error e) :
    e = .emptyData ∨ e = .noData := by
  unfold resolveBound at h
  cases g <;> cases d <;> cases b <;> simp at h <;> simp [← h]

theorem reformatX_error {sh : XShape} {x : List (Option Rat)} {e : Reason}
    (h : reformatX sh x = .error e) : e = .notOneDim := by
  cases sh <;> simp [reformatX] at h <;> exact h.symm

theorem nInnerOf_error {df : Option Int} {c : Bool} {nc : ℕ} {e : Reason}
    (h : nInnerOf df c nc = .error e) : e = .dfTooSmallCs := by
  unfold nInnerOf at h
  cases df with
  | none => cases h
  | some d =>
    simp only at h
    by_cases hd : d < (if (!c && nc == 0) = true then 2 else 1)
    · rw [if_pos hd] at h; injection h with h; exact h.symm
    · rw [if_neg hd] at h; cases h

theorem prepareCs_error_reachable {r : RawCs} {quant : List Rat → ℕ → List Rat} {e : Reason}
    (h : prepareCs r quant = .error e) : CsReachable e := by
  unfold prepareCs at h
  by_cases hb : (r.df.isSome && r.knots.isSome) = true
  · rw [if_pos hb] at h; injection h with h; subst h; trivial
  rw [if_neg hb] at h
  cases hx : reformatX r.xshape r.x with
  | error e' =>
    rw [hx] at h; injection h with h; subst h
    rw [reformatX_error hx]; trivial
  | ok xs =>
  rw [hx] at h
  simp only at h
  cases h1 : resolveBound r.lower (BSpline.minOf (BSpline.nonNull xs)) xs.isEmpty with
  | error e' =>
    rw [h1] at h; injection h with h; subst h
    rcases resolveBound_error h1 with rfl | rfl <;> trivial
  | ok lower =>
  rw [h1] at h
  simp only at h
  cases h2 : resolveBound r.upper (BSpline.maxOf (BSpline.nonNull xs)) xs.isEmpty with
  | error e' =>
    rw [h2] at h; injection h with h; subst h
    rcases resolveBound_error h2 with rfl | rfl <;> trivial
  | ok upper =>
  rw [h2] at h
  simp only at h
  cases hm : parseMode r.mode with
  | none => rw [hm] at h; injection h with h; subst h; trivial
  | some mode =>
  rw [hm] at h
  simp only at h
  by_cases hr : (mode = .raise && (BSpline.nonNull xs).any (BSpline.outside lower upper)) = true
  · rw [if_pos hr] at h; injection h with h; subst h; trivial
  rw [if_neg hr] at h
  by_cases hn : (r.df.isNone && r.knots.isNone) = true
  · rw [if_pos hn] at h; injection h with h; subst h; trivial
  rw [if_neg hn] at h
  cases hc : parseCons r.cons with
  | error e' =>
    rw [hc] at h; injection h with h; subst h
    unfold parseCons at hc
    split at hc
    · cases hc
    · split at hc
      · cases hc
      · injection hc with hc; subst hc; trivial
    · split at hc
      · injection hc with hc; subst hc; trivial
      · cases hc
  | ok cons =>
  rw [hc] at h
  simp only at h
  cases h3 : nInnerOf r.df r.cyclic (CubicSpline.nConstraints cons) with
  | error e' =>
    rw [h3] at h; injection h with h; subst h
    rw [nInnerOf_error h3]; trivial
  | ok nInner =>
  rw [h3] at h
  simp only at h
  cases h4 : sortedKnots (CubicSpline.knotsSample lower upper xs) lower upper nInner r.knots quant with
  | ok knots => rw [h4] at h; cases h
  | error e' =>
    rw [h4] at h; injection h with h; subst h
    obtain ⟨hs, hnn⟩ := nInnerOf_ok h3
    have hx' : nInner.isSome = !r.knots.isSome := by
      rw [hs]
      cases hdf : r.df <;> cases hk : r.knots <;> simp [hdf, hk] at hb hn ⊢
    rcases sortedKnots_error_reasons h4 hnn hx' with rfl | rfl | rfl | rfl | rfl <;> trivial

theorem cubicSpline_error_reachable {r : RawCs} {quant : List Rat → ℕ → List Rat}
    {getF : List Rat → List (List Rat)} {getQ2 : List (List Rat) → List (List Rat)} {e : Reason}
    (h : cubicSpline r quant getF getQ2 = .error e) : CsReachable e := by
  unfold cubicSpline at h
  cases hp : prepareCs r quant with
  | error e' => rw [hp] at h; injection h with h; subst h; exact prepareCs_error_reachable hp
  | ok p =>
    rw [hp] at h
    simp only at h
    unfold finishCs at h
    dsimp only at h
    split at h
    · injection h with h; subst h
      split <;> trivial
    · split at h
      · injection h with h; subst h; trivial
      · cases h

/-! ## quantile knots of an accepted `df` call are admissible -/

/-- inversion of a successful `prepareBs` -/
theorem prepareBs_inv {r : RawBs} {quant : List Rat → ℕ → List Rat} {st : BSpline.State}
    {mode : BSpline.Mode} (h : prepareBs r quant = .ok (st, mode)) :
    (r.df.isSome && r.knots.isSome) = false ∧
    resolveBound r.lower (BSpline.minOf (BSpline.nonNull r.x)) r.x.isEmpty = .ok st.lower ∧
    resolveBound r.upper (BSpline.maxOf (BSpline.nonNull r.x)) r.x.isEmpty = .ok st.upper ∧
    parseMode r.mode = some mode ∧
    (mode = .raise && (BSpline.nonNull r.x).any (BSpline.outside st.lower st.upper)) = false ∧
    0 ≤ r.degree ∧
    ∃ interior, interiorKnots r mode st.lower st.upper quant = .ok interior ∧
      st.knots = BSpline.padKnots st.lower interior st.upper r.degree.toNat := by
  unfold prepareBs at h
  by_cases hb : (r.df.isSome && r.knots.isSome) = true
  · rw [if_pos hb] at h; cases h
  rw [if_neg hb] at h
  simp only at h
  cases h1 : resolveBound r.lower (BSpline.minOf (BSpline.nonNull r.x)) r.x.isEmpty with
  | error e => rw [h1] at h; cases h
  | ok lower =>
  rw [h1] at h
  simp only at h
  cases h2 : resolveBound r.upper (BSpline.maxOf (BSpline.nonNull r.x)) r.x.isEmpty with
  | error e => rw [h2] at h; cases h
  | ok upper =>
  rw [h2] at h
  simp only at h
  cases hm : parseMode r.mode with
  | none => rw [hm] at h; cases h
  | some m =>
  rw [hm] at h
  simp only at h
  by_cases hr : (m = .raise && (BSpline.nonNull r.x).any (BSpline.outside lower upper)) = true
  · rw [if_pos hr] at h; cases h
  rw [if_neg hr] at h
  cases h4 : interiorKnots r m lower upper quant with
  | error e => rw [h4] at h; cases h
  | ok interior =>
  rw [h4] at h
  simp only at h
  by_cases hd : r.degree < 0
  · rw [if_pos hd] at h; cases h
  rw [if_neg hd] at h
  injection h with h
  injection h with ha hb'
  subst ha hb'
  exact ⟨Bool.eq_false_iff.2 hb, rfl, rfl, rfl, Bool.eq_false_iff.2 hr, by omega, interior, h4, rfl⟩

theorem knotsSample_inside (mode : BSpline.Mode) (lo hi : Rat) (xs : List (Option Rat))
    (hraise : (mode = .raise && (BSpline.nonNull xs).any (BSpline.outside lo hi)) = false)
    (hext : mode = .extend → ∀ v ∈ BSpline.nonNull xs, lo ≤ v ∧ v ≤ hi) :
    ∀ v ∈ (BSpline.knotsSample mode lo hi xs).1, lo ≤ v ∧ v ≤ hi := by
  intro v hv
  have hfilter : ∀ v ∈ (BSpline.nonNull xs).filter (BSpline.inside lo hi), lo ≤ v ∧ v ≤ hi := by
    intro v hv
    rw [List.mem_filter] at hv
    simpa [BSpline.inside] using hv.2
  cases mode with
  | clip => exact hfilter v hv
  | na => exact hfilter v hv
  | zero => exact hfilter v hv
  | extend => exact hext rfl v hv
  | raise =>
    simp only [decide_true, Bool.true_and] at hraise
    have hv' : v ∈ BSpline.nonNull xs := hv
    have := List.any_eq_false.1 hraise v hv'
    simp only [BSpline.outside, Bool.or_eq_true, decide_eq_true_eq, not_or, not_lt] at this
    exact this

/-- **`df` knots of an accepted basis_spline call** (quantiles computed by the model): the
recorded knot vector is the padding of interior knots that are non-decreasing and inside the
bounds — the hypothesis `KnotsOk` of the value theorems.  For `extrapolation="extend"` the code
takes the quantiles of ALL the data, so this needs the data to lie inside the bounds. -/
theorem prepareBs_df_knotsOk {r : RawBs} {st : BSpline.State} {mode : BSpline.Mode}
    (h : prepareBs r quantLin = .ok (st, mode)) (df : Int) (hdf : r.df = some df)
    (hext : mode = .extend → ∀ v ∈ BSpline.nonNull r.x, st.lower ≤ v ∧ v ≤ st.upper) :
    ∃ interior, st.knots = BSpline.padKnots st.lower interior st.upper r.degree.toNat ∧
      KnotsOk st.lower st.upper interior := by
  obtain ⟨_, _, _, _, hraise, _, interior, hik, hk⟩ := prepareBs_inv h
  refine ⟨interior, hk, ?_⟩
  unfold interiorKnots at hik
  simp only [hdf] at hik
  by_cases c1 : df - r.degree - (if r.intercept = true then 1 else 0) < 0
  · rw [if_pos c1] at hik; cases hik
  rw [if_neg c1] at hik
  by_cases c2 : (BSpline.knotsSample mode st.lower st.upper r.x).2 = 0
  · rw [if_pos c2] at hik; cases hik
  rw [if_neg c2] at hik
  by_cases c3 : (BSpline.knotsSample mode st.lower st.upper r.x).1.isEmpty = true
  · rw [if_pos c3] at hik; cases hik
  rw [if_neg c3] at hik
  injection hik with hik
  subst hik
  have hin := knotsSample_inside mode st.lower st.upper r.x hraise hext
  have hne' : (BSpline.knotsSample mode st.lower st.upper r.x).1 ≠ [] := by
    intro hc; rw [hc] at c3; simp at c3
  obtain ⟨v, hv⟩ := List.exists_mem_of_ne_nil _ hne'
  exact ⟨le_trans (hin v hv).1 (hin v hv).2, quantLin_sorted _ _ hne', quantLin_bounds _ _ _ _ hne' hin⟩

/-- explicit knots: the model sorts them; they are admissible iff they lie inside the bounds -/
theorem sort_knotsOk (lo hi : Rat) (ks : List Rat) (hle : lo ≤ hi) (hin : ∀ k ∈ ks, lo ≤ k ∧ k ≤ hi) :
    KnotsOk lo hi (sort ks) :=
  ⟨hle, sort_pairwise ks, fun k hk => hin k (mem_sort.1 hk)⟩

/-- **`df` knots of cubic_spline never collide** (exact quantiles): when the in-range data hold at
least two distinct values, `_get_all_sorted_knots` succeeds for every requested number of inner
knots, and returns the bounds around the strictly increasing quantile knots -/
theorem sortedKnots_df_ok (xs : List (Option Rat)) (lo hi : Rat) (n : Int) (hn : 0 ≤ n)
    (h2 : 2 ≤ (CubicSpline.knotsSample lo hi xs).length) :
    sortedKnots (CubicSpline.knotsSample lo hi xs) lo hi (some n) none quantLin
      = .ok (lo :: (quantLin (CubicSpline.knotsSample lo hi xs) n.toNat ++ [hi])) := by
  set s := CubicSpline.knotsSample lo hi xs with hs
  have hstrict : s.Pairwise (· < ·) := unique_pairwise _
  have hin : ∀ v ∈ s, lo ≤ v ∧ v ≤ hi := by
    intro v hv
    rw [hs, CubicSpline.knotsSample, mem_unique, List.mem_filter] at hv
    simpa [BSpline.inside] using hv.2
  obtain ⟨qs, qb⟩ := quantLin_strict s n.toNat lo hi hstrict h2 hin
  have hne : s ≠ [] := by intro hc; rw [hc] at h2; simp at h2
  obtain ⟨v, hv⟩ := List.exists_mem_of_ne_nil _ hne
  have hle : lo ≤ hi := le_trans (hin v hv).1 (hin v hv).2
  have hall : (lo :: (quantLin s n.toNat ++ [hi])).Pairwise (· < ·) := by
    rw [List.pairwise_cons]
    constructor
    · intro b hb
      rw [List.mem_append, List.mem_singleton] at hb
      rcases hb with hb | rfl
      · exact (qb b hb).1
      · rcases List.exists_mem_of_ne_nil _ hne with ⟨w, hw⟩
        by_cases hq : quantLin s n.toNat = []
        · -- no inner knot requested: lo < hi because the sample has two distinct values inside
          have a0 := hin _ (List.getElem_mem (by omega : 0 < s.length))
          have a1 := hin _ (List.getElem_mem (by omega : 1 < s.length))
          have := List.pairwise_iff_getElem.1 hstrict 0 1 (by omega) (by omega) (by omega)
          linarith
        · obtain ⟨u, hu⟩ := List.exists_mem_of_ne_nil _ hq
          exact lt_trans (qb u hu).1 (qb u hu).2
    · rw [List.pairwise_append]
      refine ⟨qs, by simp, ?_⟩
      intro a ha b hb
      rw [List.mem_singleton] at hb
      subst hb
      exact (qb a ha).2
  unfold sortedKnots innerKnots
  have hneg : ¬ n < 0 := by omega
  have hnotlt : ¬ hi < lo := not_lt.2 hle
  have hemp : (!s.isEmpty) = true := by
    cases hs' : s with
    | nil => exact absurd hs' hne
    | cons a t => rfl
  simp only [hnotlt, if_false, hneg, hemp, if_true]
  have hu : CubicSpline.unique ([lo, hi] ++ quantLin s n.toNat) = lo :: (quantLin s n.toNat ++ [hi]) := by
    rw [← unique_of_strict hall]
    apply unique_congr
    intro a
    simp only [List.cons_append, List.nil_append, List.mem_cons, List.mem_append]
    tauto
  rw [hu]
  have hlen : (((lo :: (quantLin s n.toNat ++ [hi])).length : ℕ) : Int) = n + 2 := by
    simp only [List.length_cons, List.length_append, quantLin_length, List.length_nil]
    omega
  simp only [hlen, ne_eq, not_true_eq_false, if_false]
/-! ## for stating examples -/

/-- the reason of a rejected call -/
def reasonOf {α : Type} : Except Reason α → Option Reason
  | .ok _ => none
  | .error e => some e

theorem unique_eq {l l' : List Rat} (hm : ∀ a, a ∈ l ↔ a ∈ l') (hs : l'.Pairwise (· < ·)) :
    CubicSpline.unique l = l' := by
  rw [unique_congr hm, unique_of_strict hs]

end FormulaicVerif.Proofs.C12
