import FormulaicVerif.Proofs.C06Values
/-! Helper lemmas for C06, part 2: the encoders, `_combine_columns`, `get_model_matrix` and the
entry points of the tree under test (`current`), and the legacy label-based drop. -/
namespace FormulaicVerif.Proofs.C06
open FormulaicVerif.Model.Nulls FormulaicVerif.Spec.Nulls

variable {ρ L : Type}

/-! ### from a value to its columns -/

mutual
theorem memberColumns_eq (x : Value ρ) : memberColumns x = (leaves x).map colShape := by
  cases x with
  | dict items =>
    simp only [memberColumns, leaves]
    exact itemColumns_eq items
  | none => rfl
  | scalar k c => rfl
  | pylist cells => rfl
  | nwSeries cells => rfl
  | series cells => rfl
  | array0 c => rfl
  | array1 cells => rfl
  | array2 n cols => rfl
  | arrayN n => rfl
  | frame n cols => rfl
  | sparse csc n cols => rfl
  | other => rfl
theorem itemColumns_eq (items : List (Bool × Value ρ)) :
    itemColumns items = (leavesItems items).map colShape := by
  cases items with
  | nil => rfl
  | cons it r =>
    obtain ⟨hid, x⟩ := it
    simp only [itemColumns, leavesItems, List.map_append, itemColumns_eq r]
    cases hid
    · simp only [Bool.false_eq_true, if_false, memberColumns_eq x]
    · simp
end

mutual
theorem leaves_memberOK (n : Nat) (x : Value ρ) (h : MemberOK n x) : ∀ l ∈ leaves x, LeafOK n l := by
  cases x with
  | dict items =>
    simp only [leaves]
    exact leavesItems_membersOK n items h
  | none => exact absurd h (by simp [MemberOK])
  | scalar k c =>
    intro l hl
    simp only [leaves, List.mem_singleton] at hl
    subst hl
    cases k <;> exact h
  | pylist cells =>
    intro l hl
    simp only [leaves, List.mem_singleton] at hl
    subst hl
    exact h
  | nwSeries cells =>
    intro l hl
    simp only [leaves, List.mem_singleton] at hl
    subst hl
    exact h
  | series cells =>
    intro l hl
    simp only [leaves, List.mem_singleton] at hl
    subst hl
    exact h
  | array0 c => exact absurd h (by simp [MemberOK])
  | array1 cells =>
    intro l hl
    simp only [leaves, List.mem_singleton] at hl
    subst hl
    exact h
  | array2 k cols => exact absurd h (by simp [MemberOK])
  | arrayN k => exact absurd h (by simp [MemberOK])
  | frame k cols => exact absurd h (by simp [MemberOK])
  | sparse csc k cols => exact absurd h (by simp [MemberOK])
  | other => exact absurd h (by simp [MemberOK])
theorem leavesItems_membersOK (n : Nat) (items : List (Bool × Value ρ)) (h : MembersOK n items) :
    ∀ l ∈ leavesItems items, LeafOK n l := by
  cases items with
  | nil => simp [leavesItems]
  | cons it r =>
    obtain ⟨hid, x⟩ := it
    obtain ⟨h1, h2⟩ : MemberOK n x ∧ MembersOK n r := h
    intro l hl
    simp only [leavesItems, List.mem_append] at hl
    rcases hl with hl | hl
    · cases hid
      · simp only [Bool.false_eq_true, if_false] at hl
        exact leaves_memberOK n x h1 l hl
      · simp at hl
    · exact leavesItems_membersOK n r h2 l hl
end

mutual
theorem checkable_memberOK (n : Nat) (x : Value ρ) (h : MemberOK n x) : Checkable x := by
  cases x with
  | dict items =>
    simp only [Checkable]
    exact checkableItems_membersOK n items h
  | scalar k c => cases k <;> exact h
  | none => trivial
  | pylist cells => trivial
  | nwSeries cells => trivial
  | series cells => trivial
  | array1 cells => trivial
  | array0 c => exact absurd h (by simp [MemberOK])
  | array2 k cols => trivial
  | arrayN k => exact absurd h (by simp [MemberOK])
  | frame k cols => trivial
  | sparse csc k cols => trivial
  | other => exact absurd h (by simp [MemberOK])
theorem checkableItems_membersOK (n : Nat) (items : List (Bool × Value ρ)) (h : MembersOK n items) :
    CheckableItems items := by
  cases items with
  | nil => trivial
  | cons it r =>
    obtain ⟨hid, x⟩ := it
    obtain ⟨h1, h2⟩ : MemberOK n x ∧ MembersOK n r := h
    exact ⟨checkable_memberOK n x h1, checkableItems_membersOK n r h2⟩
end

theorem cellNull_lt (cells : List (Cell ρ)) (i : Nat) (h : cellNull cells i = true) :
    i < cells.length := by
  unfold cellNull at h
  by_contra hge
  rw [List.getElem?_eq_none (by omega)] at h
  cases h

mutual
theorem rowNull_lt_memberOK (n : Nat) (x : Value ρ) (h : MemberOK n x) (i : Nat)
    (hi : rowNull x i = true) : i < n := by
  cases x with
  | dict items =>
    simp only [rowNull] at hi
    exact rowNullItems_lt n items h i hi
  | scalar k c => simp [rowNull] at hi
  | pylist cells =>
    have hl : cells.length = n := h
    rw [← hl]
    exact cellNull_lt cells i hi
  | nwSeries cells =>
    have hl : cells.length = n := h
    rw [← hl]
    exact cellNull_lt cells i hi
  | series cells =>
    have hl : cells.length = n := h
    rw [← hl]
    exact cellNull_lt cells i hi
  | array1 cells =>
    have hl : cells.length = n := h
    rw [← hl]
    exact cellNull_lt cells i hi
  | none => simp [rowNull] at hi
  | array0 c => simp [rowNull] at hi
  | array2 k cols => exact absurd h (by simp [MemberOK])
  | arrayN k => simp [rowNull] at hi
  | frame k cols => exact absurd h (by simp [MemberOK])
  | sparse csc k cols => exact absurd h (by simp [MemberOK])
  | other => simp [rowNull] at hi
theorem rowNullItems_lt (n : Nat) (items : List (Bool × Value ρ)) (h : MembersOK n items) (i : Nat)
    (hi : rowNullItems items i = true) : i < n := by
  cases items with
  | nil => simp [rowNullItems] at hi
  | cons it r =>
    obtain ⟨hid, x⟩ := it
    obtain ⟨h1, h2⟩ : MemberOK n x ∧ MembersOK n r := h
    simp only [rowNullItems, Bool.or_eq_true] at hi
    rcases hi with hi | hi
    · exact rowNull_lt_memberOK n x h1 i hi
    · exact rowNullItems_lt n r h2 i hi
end

theorem tableNull_lt (n : Nat) (cols : List (List (Cell ρ))) (i : Nat)
    (h : tableNull n cols i = true) : i < n := by
  unfold tableNull at h
  simp only [Bool.and_eq_true, decide_eq_true_eq] at h
  exact h.1

theorem checkable_valueOK (n : Nat) (x : Value ρ) (h : ValueOK n x) : Checkable x := by
  cases x <;> first | trivial | exact checkable_memberOK n _ h

theorem rowNull_lt_valueOK (n : Nat) (x : Value ρ) (h : ValueOK n x) (i : Nat)
    (hi : rowNull x i = true) : i < n := by
  cases x with
  | array2 k cols =>
    obtain ⟨hk, _⟩ : k = n ∧ ∀ c ∈ cols, c.length = n := h
    rw [← hk]
    exact tableNull_lt k cols i hi
  | frame k cols =>
    obtain ⟨hk, _⟩ : k = n ∧ ∀ c ∈ cols, c.length = n := h
    rw [← hk]
    exact tableNull_lt k cols i hi
  | dict items => exact rowNull_lt_memberOK n _ h i hi
  | scalar k c => exact rowNull_lt_memberOK n _ h i hi
  | pylist cells => exact rowNull_lt_memberOK n _ h i hi
  | nwSeries cells => exact rowNull_lt_memberOK n _ h i hi
  | series cells => exact rowNull_lt_memberOK n _ h i hi
  | array1 cells => exact rowNull_lt_memberOK n _ h i hi
  | none => simp [rowNull] at hi
  | array0 c => exact rowNull_lt_memberOK n _ h i hi
  | arrayN k => exact rowNull_lt_memberOK n _ h i hi
  | sparse csc k cols => exact rowNull_lt_memberOK n _ h i hi
  | other => exact rowNull_lt_memberOK n _ h i hi

theorem colCells_columns (x : Value ρ) (s : Store) (cells : List (Cell ρ))
    (h : colCells x = some (s, cells)) :
    columns x = [.vec cells] ∧ Checkable x ∧ ∀ i, rowNull x i = cellNull cells i := by
  cases x <;> simp only [colCells, Option.some.injEq, Prod.mk.injEq, reduceCtorEq] at h
  all_goals
    obtain ⟨_, rfl⟩ := h
    exact ⟨rfl, trivial, fun _ => rfl⟩

/-- a well-formed factor can be null-checked, and the rows flagged are rows of the frame -/
theorem findNulls_factorOK (n : Nat) (f : Factor ρ) (h : FactorOK n f) :
    ∃ ns, findNulls current f.value = .ok ns ∧ nullsOf f = ns ∧ ∀ i ∈ ns, i < n := by
  have hchk : Checkable f.value ∧ ∀ i, rowNull f.value i = true → i < n := by
    unfold FactorOK at h
    cases he : f.encoder with
    | default =>
      rw [he] at h
      exact ⟨checkable_valueOK n _ h, rowNull_lt_valueOK n _ h⟩
    | contrastsC =>
      rw [he] at h
      obtain ⟨s, cells, hc, hl⟩ := h
      obtain ⟨_, h2, h3⟩ := colCells_columns _ s cells hc
      refine ⟨h2, fun i hi => ?_⟩
      rw [h3 i] at hi
      rw [← hl]
      exact cellNull_lt cells i hi
    | hashed =>
      rw [he] at h
      obtain ⟨s, cells, hc, hl⟩ := h
      obtain ⟨_, h2, h3⟩ := colCells_columns _ s cells hc
      refine ⟨h2, fun i hi => ?_⟩
      rw [h3 i] at hi
      rw [← hl]
      exact cellNull_lt cells i hi
    | constant =>
      rw [he] at h
      obtain ⟨k, c, hv, hl⟩ := h
      rw [hv]
      refine ⟨?_, fun i hi => by simp [rowNull] at hi⟩
      cases k <;> exact hl
  obtain ⟨ns, hns⟩ := (findNulls_ok_iff f.value).2 hchk.1
  refine ⟨ns, hns, by simp [nullsOf, hns], ?_⟩
  intro i hi
  exact hchk.2 i ((findNulls_rows current f.value ns hns i).1 hi)

/-! ### encoders of the tree under test (`current`) -/

theorem leavesItems_map (g : List (Cell ρ) → Value ρ) (hg : ∀ c, leaves (g c) = [g c])
    (cols : List (List (Cell ρ))) :
    leavesItems (cols.map (fun c => (false, g c))) = cols.map g := by
  induction cols with
  | nil => rfl
  | cons c r ih => simp [leavesItems, hg, ih]

/-- `as_columns` + the `map_dict` traversal on a well-formed value: columns and constants only,
and they are the columns of the reference semantics -/
theorem asColumns_valueOK (n : Nat) (x : Value ρ) (h : ValueOK n x) (hx : isNone x = false) :
    ∃ y, asColumns x = .ok y ∧ (∀ l ∈ leaves y, LeafOK n l) ∧
      columns x = (leaves y).map colShape := by
  cases x with
  | array2 k cols =>
    obtain ⟨_, hc⟩ : k = n ∧ ∀ c ∈ cols, c.length = n := h
    refine ⟨_, rfl, ?_, ?_⟩
    · simp only [leaves, leavesItems_map (fun c => Value.array1 c) (fun _ => rfl)]
      intro l hl
      rw [List.mem_map] at hl
      obtain ⟨c, hcm, rfl⟩ := hl
      exact hc c hcm
    · simp only [leaves, leavesItems_map (fun c => Value.array1 c) (fun _ => rfl), columns,
        List.map_map]
      rfl
  | frame k cols =>
    obtain ⟨_, hc⟩ : k = n ∧ ∀ c ∈ cols, c.length = n := h
    refine ⟨_, rfl, ?_, ?_⟩
    · simp only [leaves, leavesItems_map (fun c => Value.series c) (fun _ => rfl)]
      intro l hl
      rw [List.mem_map] at hl
      obtain ⟨c, hcm, rfl⟩ := hl
      exact hc c hcm
    · simp only [leaves, leavesItems_map (fun c => Value.series c) (fun _ => rfl), columns,
        List.map_map]
      rfl
  | dict items => exact ⟨_, rfl, leaves_memberOK n _ h, memberColumns_eq _⟩
  | scalar k c => exact ⟨_, rfl, leaves_memberOK n _ h, memberColumns_eq _⟩
  | pylist cells => exact ⟨_, rfl, leaves_memberOK n _ h, memberColumns_eq _⟩
  | nwSeries cells => exact ⟨_, rfl, leaves_memberOK n _ h, memberColumns_eq _⟩
  | series cells => exact ⟨_, rfl, leaves_memberOK n _ h, memberColumns_eq _⟩
  | array1 cells => exact ⟨_, rfl, leaves_memberOK n _ h, memberColumns_eq _⟩
  | none => exact absurd hx (by simp [isNone])
  | array0 c => exact absurd h (by simp [ValueOK, MemberOK])
  | arrayN k => exact absurd h (by simp [ValueOK, MemberOK])
  | sparse csc k cols => exact absurd h (by simp [ValueOK, MemberOK])
  | other => exact absurd h (by simp [ValueOK, MemberOK])

/-- one member through `if drop_rows: values = drop_nulls(values, indices=drop_rows)` -/
theorem leaf_step [DecidableEq L] (labels : List L) (n : Nat) (l : Value ρ) (d : List Nat)
    (hl : LeafOK n l) (hd : ∀ i ∈ d, i < n) :
    (if d.isEmpty then .ok l else dropRowsV current labels l d) =
      (.ok (keepRows (keptPositions n d) l) : Except Err (Value ρ)) := by
  have hvec : ∀ (cells : List (Cell ρ)), cells.length = n → d.isEmpty = true →
      rowsAt cells (keptPositions n d) = cells := by
    intro cells hc he
    have : d = [] := by simpa using he
    subst this
    rw [keptPositions_nil, ← hc, rowsAt_range]
  by_cases he : d.isEmpty = true
  · rw [if_pos he]
    cases l with
    | pylist cells => simp only [keepRows, hvec cells hl he]
    | nwSeries cells => simp only [keepRows, hvec cells hl he]
    | series cells => simp only [keepRows, hvec cells hl he]
    | array1 cells => simp only [keepRows, hvec cells hl he]
    | scalar k c => rfl
    | none => exact absurd hl (by simp [LeafOK])
    | array0 c => exact absurd hl (by simp [LeafOK])
    | array2 k cols => exact absurd hl (by simp [LeafOK])
    | arrayN k => exact absurd hl (by simp [LeafOK])
    | frame k cols => exact absurd hl (by simp [LeafOK])
    | sparse csc k cols => exact absurd hl (by simp [LeafOK])
    | dict items => exact absurd hl (by simp [LeafOK])
    | other => exact absurd hl (by simp [LeafOK])
  · rw [if_neg he]
    cases l with
    | pylist cells => exact dropRowsV_positional labels n _ d hl hd
    | nwSeries cells => exact dropRowsV_positional labels n _ d hl hd
    | series cells => exact dropRowsV_positional labels n _ d hl hd
    | array1 cells => exact dropRowsV_positional labels n _ d hl hd
    | scalar k c => simp [dropRowsV, current, keepRows]
    | none => exact absurd hl (by simp [LeafOK])
    | array0 c => exact absurd hl (by simp [LeafOK])
    | array2 k cols => exact absurd hl (by simp [LeafOK])
    | arrayN k => exact absurd hl (by simp [LeafOK])
    | frame k cols => exact absurd hl (by simp [LeafOK])
    | sparse csc k cols => exact absurd hl (by simp [LeafOK])
    | dict items => exact absurd hl (by simp [LeafOK])
    | other => exact absurd hl (by simp [LeafOK])

/-- what `_combine_columns` sees of a member that kept the rows at `K` -/
theorem leaf_props (n : Nat) (K : List Nat) (l : Value ρ) (hl : LeafOK n l)
    (hK : ∀ i ∈ K, i < n) :
    isBad (keepRows K l) = false ∧
    (∀ m, colLen? (keepRows K l) = some m → m = K.length) ∧
    cellsOf K.length (keepRows K l) = shapeRows K (colShape l) := by
  have hlen : ∀ (cells : List (Cell ρ)), cells.length = n → (rowsAt cells K).length = K.length :=
    fun cells hc => length_rowsAt cells K (by rw [hc]; exact hK)
  cases l with
  | pylist cells =>
    refine ⟨rfl, ?_, rfl⟩
    intro m hm
    simp only [keepRows, colLen?, colShape, colCells, Option.some.injEq] at hm
    rw [← hm, hlen cells hl]
  | nwSeries cells =>
    refine ⟨rfl, ?_, rfl⟩
    intro m hm
    simp only [keepRows, colLen?, colShape, colCells, Option.some.injEq] at hm
    rw [← hm, hlen cells hl]
  | series cells =>
    refine ⟨rfl, ?_, rfl⟩
    intro m hm
    simp only [keepRows, colLen?, colShape, colCells, Option.some.injEq] at hm
    rw [← hm, hlen cells hl]
  | array1 cells =>
    refine ⟨rfl, ?_, rfl⟩
    intro m hm
    simp only [keepRows, colLen?, colShape, colCells, Option.some.injEq] at hm
    rw [← hm, hlen cells hl]
  | scalar k c =>
    refine ⟨rfl, ?_, rfl⟩
    intro m hm
    simp [keepRows, colLen?, colShape, colCells] at hm
  | none => exact absurd hl (by simp [LeafOK])
  | array0 c => exact absurd hl (by simp [LeafOK])
  | array2 k cols => exact absurd hl (by simp [LeafOK])
  | arrayN k => exact absurd hl (by simp [LeafOK])
  | frame k cols => exact absurd hl (by simp [LeafOK])
  | sparse csc k cols => exact absurd hl (by simp [LeafOK])
  | dict items => exact absurd hl (by simp [LeafOK])
  | other => exact absurd hl (by simp [LeafOK])

theorem mapE_ok {α β ε : Type} (f : α → Except ε β) (g : α → β) (xs : List α)
    (h : ∀ x ∈ xs, f x = .ok (g x)) : mapE f xs = .ok (xs.map g) := by
  induction xs with
  | nil => rfl
  | cons a r ih =>
    simp only [mapE, h a (by simp), ih (fun x hx => h x (by simp [hx])), List.map_cons]

theorem kept_lt (n : Nat) (d : List Nat) : ∀ i ∈ keptPositions n d, i < n := by
  intro i hi
  rw [mem_keptPositions] at hi
  exact hi.1

/-- Every encoder of the tree under test, on every well-formed factor: the column objects it hands
on are neither unusable nor of a length other than the number of kept rows, and their cells are the
cells of the factor's columns at the kept positions (constants fill the kept rows). -/
theorem encodeFactor_current [DecidableEq L] (labels : List L) (n : Nat) (so : Bool) (f : Factor ρ)
    (d : List Nat) (hf : FactorOK n f) (hd : ∀ i ∈ d, i < n)
    (hK : (keptPositions n d).length = n - d.length) (hle : d.length ≤ n) :
    ∃ xs, encodeFactor current labels n so f d = .ok xs ∧
      (∀ x ∈ xs, isBad x = false) ∧
      (∀ x ∈ xs, ∀ m, colLen? x = some m → m = (keptPositions n d).length) ∧
      xs.map (cellsOf (keptPositions n d).length) =
        (columns f.value).map (shapeRows (keptPositions n d)) := by
  unfold FactorOK at hf
  unfold encodeFactor
  by_cases hnone : isNone f.value = true
  · have hv : f.value = .none := by
      cases hx : f.value <;> simp [hx, isNone] at hnone
      rfl
    refine ⟨[], by simp [hnone], by simp, by simp, ?_⟩
    rw [hv]
    rfl
  have hnone' : isNone f.value = false := by simpa using hnone
  simp only [hnone', Bool.false_eq_true, if_false]
  unfold encodeValue
  cases he : f.encoder with
  | default =>
    rw [he] at hf
    obtain ⟨y, hy, hleaf, hcols⟩ := asColumns_valueOK n f.value hf hnone'
    simp only [hy]
    refine ⟨(leaves y).map (keepRows (keptPositions n d)), ?_, ?_, ?_, ?_⟩
    · exact mapE_ok _ _ _ (fun l hl => leaf_step labels n l d (hleaf l hl) hd)
    · intro x hx
      rw [List.mem_map] at hx
      obtain ⟨l, hl, rfl⟩ := hx
      exact (leaf_props n _ l (hleaf l hl) (kept_lt n d)).1
    · intro x hx
      rw [List.mem_map] at hx
      obtain ⟨l, hl, rfl⟩ := hx
      exact (leaf_props n _ l (hleaf l hl) (kept_lt n d)).2.1
    · rw [hcols, List.map_map, List.map_map]
      apply List.map_congr_left
      intro l hl
      exact (leaf_props n _ l (hleaf l hl) (kept_lt n d)).2.2
  | contrastsC =>
    rw [he] at hf
    obtain ⟨s, cells, hc, hl⟩ := hf
    have hpos := dropPositional_eq cells d (by rw [hl]; exact hd)
    rw [hl] at hpos
    obtain ⟨hcol, _, _⟩ := colCells_columns _ s cells hc
    have hlen : (rowsAt cells (keptPositions n d)).length = (keptPositions n d).length :=
      length_rowsAt_kept cells n d hl
    refine ⟨[.series (rowsAt cells (keptPositions n d))], ?_, ?_, ?_, ?_⟩
    · simp only [hc]
      cases s <;> simp [dropSeries, current, hpos]
    · intro x hx
      simp only [List.mem_singleton] at hx
      subst hx
      rfl
    · intro x hx m hm
      simp only [List.mem_singleton] at hx
      subst hx
      simp only [colLen?, colShape, colCells, Option.some.injEq] at hm
      rw [← hm, hlen]
    · rw [hcol]
      rfl
  | hashed =>
    rw [he] at hf
    obtain ⟨s, cells, hc, hl⟩ := hf
    have hpos := dropPositional_eq cells d (by rw [hl]; exact hd)
    rw [hl] at hpos
    obtain ⟨hcol, _, _⟩ := colCells_columns _ s cells hc
    have hlen : (rowsAt cells (keptPositions n d)).length = (keptPositions n d).length :=
      length_rowsAt_kept cells n d hl
    refine ⟨[.array1 (rowsAt cells (keptPositions n d))], ?_, ?_, ?_, ?_⟩
    · simp [hc, current, hpos]
    · intro x hx
      simp only [List.mem_singleton] at hx
      subst hx
      rfl
    · intro x hx m hm
      simp only [List.mem_singleton] at hx
      subst hx
      simp only [colLen?, colShape, colCells, Option.some.injEq] at hm
      rw [← hm, hlen]
    · rw [hcol]
      rfl
  | constant =>
    rw [he] at hf
    obtain ⟨k, c, hv, _⟩ := hf
    have hneg : (!so && decide (n < d.length)) = false := by
      simp only [Bool.and_eq_false_iff, decide_eq_false_iff_not, Nat.not_lt]
      exact Or.inr hle
    refine ⟨[.array1 (List.replicate (n - d.length) c)], ?_, ?_, ?_, ?_⟩
    · simp only [hv, hneg, Bool.false_eq_true, if_false]
    · intro x hx
      simp only [List.mem_singleton] at hx
      subst hx
      rfl
    · intro x hx m hm
      simp only [List.mem_singleton] at hx
      subst hx
      simp only [colLen?, colShape, colCells, Option.some.injEq, List.length_replicate] at hm
      rw [← hm, hK]
    · rw [hv]
      simp only [columns, memberColumns, List.map_cons, List.map_nil, shapeRows, cellsOf, colShape,
        colCells, hK]

/-- all factors of a part -/
theorem mapE_encode [DecidableEq L] (labels : List L) (n : Nat) (so : Bool) (d : List Nat)
    (fs : List (Factor ρ)) (hfs : ∀ f ∈ fs, FactorOK n f) (hd : ∀ i ∈ d, i < n)
    (hK : (keptPositions n d).length = n - d.length) (hle : d.length ≤ n) :
    ∃ cols, mapE (fun f => encodeFactor current labels n so f d) fs = .ok cols ∧
      (∀ x ∈ cols.flatten, isBad x = false) ∧
      (∀ x ∈ cols.flatten, ∀ m, colLen? x = some m → m = (keptPositions n d).length) ∧
      cols.map (fun xs => xs.map (cellsOf (keptPositions n d).length)) =
        fs.map (fun f => (columns f.value).map (shapeRows (keptPositions n d))) := by
  induction fs with
  | nil => exact ⟨[], rfl, by simp, by simp, rfl⟩
  | cons f r ih =>
    obtain ⟨xs, h1, h2, h3, h4⟩ := encodeFactor_current labels n so f d (hfs f (by simp)) hd hK hle
    obtain ⟨cols, i1, i2, i3, i4⟩ := ih (fun g hg => hfs g (by simp [hg]))
    refine ⟨xs :: cols, by simp only [mapE, h1, i1], ?_, ?_, ?_⟩
    · intro x hx
      simp only [List.flatten_cons, List.mem_append] at hx
      rcases hx with hx | hx
      · exact h2 x hx
      · exact i2 x hx
    · intro x hx
      simp only [List.flatten_cons, List.mem_append] at hx
      rcases hx with hx | hx
      · exact h3 x hx
      · exact i3 x hx
    · simp only [List.map_cons, h4, i4]

/-! ### step 1 -/

theorem checkFactor_ok (p : Policy) (f : Factor ρ) (d : DropSet) (ns : List Nat)
    (h : findNulls current f.value = .ok ns) :
    checkFactor current p f d = checkForNulls p ns d := by
  cases p <;> simp [checkFactor, h, checkForNulls]

theorem evalFactors_drop (fs : List (Factor ρ)) (d : DropSet)
    (hfs : ∀ f ∈ fs, ∃ ns, findNulls current f.value = .ok ns) :
    evalFactors current .drop fs d = .ok (setUpdate d (fs.flatMap nullsOf)) := by
  induction fs generalizing d with
  | nil => simp [evalFactors, setUpdate]
  | cons f r ih =>
    obtain ⟨ns, hns⟩ := hfs f (by simp)
    have hn : nullsOf f = ns := by simp [nullsOf, hns]
    simp only [evalFactors, checkFactor_ok .drop f d ns hns, checkForNulls,
      ih _ (fun g hg => hfs g (by simp [hg])), List.flatMap_cons, setUpdate_append, hn]

theorem evalFactors_ignore (fs : List (Factor ρ)) (d : DropSet) :
    evalFactors current .ignore fs d = .ok d := by
  induction fs generalizing d with
  | nil => rfl
  | cons f r ih => simp only [evalFactors, checkFactor, ih]

theorem evalFactors_raise (fs : List (Factor ρ)) (d : DropSet)
    (hfs : ∀ f ∈ fs, ∃ ns, findNulls current f.value = .ok ns) :
    evalFactors current .raise fs d =
      if fs.flatMap nullsOf = [] then .ok d else .error .nullsPresent := by
  induction fs generalizing d with
  | nil => rfl
  | cons f r ih =>
    obtain ⟨ns, hns⟩ := hfs f (by simp)
    have hn : nullsOf f = ns := by simp [nullsOf, hns]
    simp only [evalFactors, checkFactor_ok .raise f d ns hns, checkForNulls, List.flatMap_cons,
      List.append_eq_nil_iff, hn]
    cases ns with
    | nil => simp [ih d (fun g hg => hfs g (by simp [hg]))]
    | cons a b => simp

/-- a factor that `find_nulls` cannot handle stops step 1 under DROP and RAISE, provided the
factors evaluated before it pass (are checkable and, under RAISE, have no nulls) -/
theorem evalFactors_uncheckable (pol : Policy) (hpol : pol ≠ .ignore) (pre : List (Factor ρ))
    (f : Factor ρ) (post : List (Factor ρ)) (d : DropSet) (e : Err)
    (hpre : ∀ g ∈ pre, ∃ ns, findNulls current g.value = .ok ns ∧ (pol = .raise → ns = []))
    (hf : findNulls current f.value = .error e) :
    evalFactors current pol (pre ++ f :: post) d = .error e := by
  induction pre generalizing d with
  | nil =>
    cases pol with
    | ignore => exact absurd rfl hpol
    | drop => simp [evalFactors, checkFactor, hf]
    | raise => simp [evalFactors, checkFactor, hf]
  | cons g r ih =>
    obtain ⟨ns, hns, hr⟩ := hpre g (by simp)
    have ih' := fun d' => ih d' (fun x hx => hpre x (by simp [hx]))
    cases pol with
    | ignore => exact absurd rfl hpol
    | drop =>
      simp only [List.cons_append, evalFactors, checkFactor_ok .drop g d ns hns, checkForNulls]
      exact ih' _
    | raise =>
      have : ns = [] := hr rfl
      subst this
      simp only [List.cons_append, evalFactors, checkFactor_ok .raise g d [] hns, checkForNulls,
        List.isEmpty_nil, if_true]
      exact ih' _

/-- how the null check of one factor fails under a policy (never under IGNORE) -/
def FailsWith (pol : Policy) (f : Factor ρ) (e : Err) : Prop :=
  pol ≠ .ignore ∧
  (findNulls current f.value = .error e ∨
   (pol = .raise ∧ e = .nullsPresent ∧ ∃ ns, findNulls current f.value = .ok ns ∧ ns ≠ []))

/-- the null check of one factor passes under a policy -/
def Passes (pol : Policy) (f : Factor ρ) : Prop :=
  pol = .ignore ∨ ∃ ns, findNulls current f.value = .ok ns ∧ (pol = .raise → ns = [])

theorem checkFactor_error_iff (pol : Policy) (f : Factor ρ) (d : DropSet) (e : Err) :
    checkFactor current pol f d = .error e ↔ FailsWith pol f e := by
  unfold FailsWith
  cases pol with
  | ignore => simp [checkFactor]
  | drop =>
    cases hn : findNulls current f.value with
    | error e' => simp [checkFactor, hn]
    | ok ns => simp [checkFactor, hn, checkForNulls]
  | raise =>
    cases hn : findNulls current f.value with
    | error e' => simp [checkFactor, hn]
    | ok ns =>
      cases ns with
      | nil => simp [checkFactor, hn, checkForNulls]
      | cons a b =>
        simp only [checkFactor, hn, checkForNulls, List.isEmpty_cons, Bool.false_eq_true, if_false,
          Except.error.injEq, ne_eq, reduceCtorEq, not_false_eq_true, false_or, true_and,
          Except.ok.injEq, exists_eq_left', List.cons_ne_nil, and_true]
        exact ⟨fun h => h.symm, fun h => h.symm⟩

theorem checkFactor_ok_iff (pol : Policy) (f : Factor ρ) (d : DropSet) :
    (∃ d', checkFactor current pol f d = .ok d') ↔ Passes pol f := by
  unfold Passes
  cases pol with
  | ignore => simp [checkFactor]
  | drop =>
    cases hn : findNulls current f.value with
    | error e' => simp [checkFactor, hn]
    | ok ns => simp [checkFactor, hn, checkForNulls]
  | raise =>
    cases hn : findNulls current f.value with
    | error e' => simp [checkFactor, hn]
    | ok ns =>
      cases ns with
      | nil => simp [checkFactor, hn, checkForNulls]
      | cons a b => simp [checkFactor, hn, checkForNulls]

/-- Step 1 fails exactly when some factor fails its null check while all factors evaluated before
it pass — and then with THAT factor's error. -/
theorem evalFactors_error_iff (pol : Policy) (fs : List (Factor ρ)) (d : DropSet) (e : Err) :
    evalFactors current pol fs d = .error e ↔
      ∃ pre f post, fs = pre ++ f :: post ∧ (∀ g ∈ pre, Passes pol g) ∧ FailsWith pol f e := by
  induction fs generalizing d with
  | nil => simp [evalFactors]
  | cons g r ih =>
    simp only [evalFactors]
    cases hc : checkFactor current pol g d with
    | error e' =>
      constructor
      · intro h
        simp only [Except.error.injEq] at h
        subst h
        exact ⟨[], g, r, rfl, by simp, (checkFactor_error_iff pol g d e').1 hc⟩
      · rintro ⟨pre, f, post, hsplit, hpre, hf⟩
        cases pre with
        | nil =>
          simp only [List.nil_append, List.cons.injEq] at hsplit
          obtain ⟨rfl, rfl⟩ := hsplit
          have := (checkFactor_error_iff pol g d e).2 hf
          rw [hc] at this
          simpa using this
        | cons x pre' =>
          simp only [List.cons_append, List.cons.injEq] at hsplit
          obtain ⟨rfl, _⟩ := hsplit
          obtain ⟨d', hd'⟩ := (checkFactor_ok_iff pol g d).2 (hpre g (by simp))
          rw [hc] at hd'
          cases hd'
    | ok d' =>
      simp only
      rw [ih d']
      constructor
      · rintro ⟨pre, f, post, rfl, hpre, hf⟩
        refine ⟨g :: pre, f, post, rfl, ?_, hf⟩
        intro x hx
        rcases List.mem_cons.mp hx with rfl | hx
        · exact (checkFactor_ok_iff pol x d).1 ⟨d', hc⟩
        · exact hpre x hx
      · rintro ⟨pre, f, post, hsplit, hpre, hf⟩
        cases pre with
        | nil =>
          simp only [List.nil_append, List.cons.injEq] at hsplit
          obtain ⟨rfl, rfl⟩ := hsplit
          have := (checkFactor_error_iff pol g d e).2 hf
          rw [hc] at this
          cases this
        | cons x pre' =>
          simp only [List.cons_append, List.cons.injEq] at hsplit
          obtain ⟨rfl, rfl⟩ := hsplit
          exact ⟨pre', f, post, rfl, fun y hy => hpre y (by simp [hy]), hf⟩

/-- every column of a well-formed factor has one cell per row -/
theorem columns_lengths (n : Nat) (f : Factor ρ) (hf : FactorOK n f) :
    ∀ s ∈ columns f.value, ∀ cells, s = .vec cells → cells.length = n := by
  unfold FactorOK at hf
  have hcol : ∀ (st : Store) (cells : List (Cell ρ)), colCells f.value = some (st, cells) →
      cells.length = n → ∀ s ∈ columns f.value, ∀ cs, s = .vec cs → cs.length = n := by
    intro st cells hc hl s hs cs hcs
    rw [(colCells_columns _ st cells hc).1, List.mem_singleton] at hs
    rw [hs] at hcs
    cases hcs
    exact hl
  cases he : f.encoder with
  | default =>
    rw [he] at hf
    by_cases hnone : isNone f.value = true
    · have hv : f.value = .none := by
        cases hx : f.value <;> simp [hx, isNone] at hnone
        rfl
      intro s hs
      rw [hv] at hs
      simp [columns] at hs
    obtain ⟨y, _, hleaf, hcols⟩ := asColumns_valueOK n f.value hf (by simpa using hnone)
    intro s hs cells hsc
    rw [hcols, List.mem_map] at hs
    obtain ⟨l, hl, hls⟩ := hs
    have hL := hleaf l hl
    subst hsc
    cases l <;> simp only [colShape, colCells, reduceCtorEq, ColShape.vec.injEq] at hls <;>
      (subst hls; exact hL)
  | contrastsC =>
    rw [he] at hf
    obtain ⟨st, cells, hc, hl⟩ := hf
    exact hcol st cells hc hl
  | hashed =>
    rw [he] at hf
    obtain ⟨st, cells, hc, hl⟩ := hf
    exact hcol st cells hc hl
  | constant =>
    rw [he] at hf
    obtain ⟨k, c, hv, _⟩ := hf
    intro s hs cells hsc
    rw [hv] at hs
    simp only [columns, memberColumns, List.mem_singleton] at hs
    rw [hs] at hsc
    cases hsc

/-! ### one part -/

theorem combine_ok (v : Variant) (n : Nat) (d : List Nat) (icpt : Option Nat)
    (cols : List (List (Value ρ))) (idx : IndexOut L) (k : Nat)
    (hic : ∀ x, icpt = some x → x = k)
    (hbad : ∀ x ∈ cols.flatten, isBad x = false)
    (hcols : ∀ x ∈ cols.flatten, ∀ m, colLen? x = some m → m = k)
    (hidx : ∀ ls, idx = .labels ls → ls.length = k)
    (hempty : (if v.emptyHonours then n - d.length else n) = k) :
    combine v n d icpt cols idx =
      .ok ⟨k, icpt, cols.map (fun xs => xs.map (cellsOf k)),
        match idx with | .range _ => .range k | .labels ls => .labels ls | .none => .none⟩ := by
  unfold combine
  have hb : cols.flatten.any isBad = false := by
    rw [Bool.eq_false_iff]
    intro h
    rw [List.any_eq_true] at h
    obtain ⟨x, hx, hxb⟩ := h
    rw [hbad x hx] at hxb
    cases hxb
  simp only [hb, Bool.false_eq_true, if_false]
  generalize hlens : colLens icpt cols.flatten = lens
  have hall : ∀ x ∈ lens, x = k := by
    intro x hx
    rw [← hlens] at hx
    unfold colLens at hx
    rw [List.mem_append] at hx
    rcases hx with hx | hx
    · cases icpt with
      | none => simp at hx
      | some y => simp at hx; rw [hx]; exact hic y rfl
    · rw [List.mem_filterMap] at hx
      obtain ⟨c, hc, hm⟩ := hx
      exact hcols c hc x hm
  cases lens with
  | nil =>
    cases idx with
    | none => simp [hempty]
    | labels ls => simp [hidx ls rfl]
    | range r => simp [hempty]
  | cons l rest =>
    have hl : l = k := hall l (by simp)
    have hrest : rest.all (fun x => x == l) = true := by
      rw [List.all_eq_true]
      intro x hx
      simp [hall x (by simp [hx]), hl]
    simp only [hrest, if_true]
    cases idx with
    | none => simp [hl]
    | labels ls => simp [hidx ls rfl, hl]
    | range r => simp [hl]

theorem outIndex_current [DecidableEq L] (labels : List L) (n : Nat) (m : Mat) (o : Output)
    (d : List Nat) (hl : labels.length = n) (hd : ∀ i ∈ d, i < n) :
    outIndex current labels n m o d = .ok
      (match o, m with
        | .pandas, .pandas => .labels (rowsAt labels (keptPositions n d))
        | .pandas, .narwhals => .labels (rowsAt labels (keptPositions n d))
        | .narwhals, .narwhals => .labels (rowsAt labels (keptPositions n d))
        | .pandas, .arrow => .range (n - d.length)
        | _, _ => .none) := by
  have hdl : ∀ i ∈ d, i < labels.length := by rw [hl]; exact hd
  have hpos := dropPositional_eq labels d hdl
  rw [hl] at hpos
  have hempty : d.isEmpty = true → rowsAt labels (keptPositions n d) = labels := by
    intro h
    have : d = [] := by simpa using h
    subst this
    rw [keptPositions_nil, ← hl, rowsAt_range]
  cases o <;> cases m <;> try rfl
  · -- pandas output, PandasMaterializer
    simp only [outIndex, dropSeries, current, hpos]
    by_cases h : d.isEmpty = true
    · simp [h, hempty h]
    · simp [h]
  · -- pandas output, NarwhalsMaterializer over a pandas frame
    simp only [outIndex, current, hpos]
    by_cases h : d.isEmpty = true
    · simp [h, hempty h]
    · simp [h]
  · -- narwhals output (the native pandas frame), NarwhalsMaterializer over a pandas frame
    simp only [outIndex, current, hpos]
    by_cases h : d.isEmpty = true
    · simp [h, hempty h]
    · simp [h]

theorem buildModelMatrix_current [DecidableEq L] (labels : List L) (n : Nat) (o : Output)
    (d : List Nat) (p : Part ρ) (hl : labels.length = n)
    (hp : ∀ f ∈ p.factors, FactorOK n f) (hK : (keptPositions n d).length = n - d.length)
    (hle : d.length ≤ n) (hd : ∀ i ∈ d, i < n) :
    buildModelMatrix current labels n o d p = .ok (expectedMatrix labels (keptPositions n d) o p) := by
  obtain ⟨cols, henc, hbad, hlen, hcells⟩ := mapE_encode labels n (o == .sparse) d p.factors hp hd hK hle
  have hlab : (rowsAt labels (keptPositions n d)).length = (keptPositions n d).length :=
    length_rowsAt_kept labels n d hl
  unfold buildModelMatrix
  rw [henc]
  have hneg : (p.intercept && o != .sparse && decide (n < d.length)) = false := by
    simp only [Bool.and_eq_false_iff, decide_eq_false_iff_not, Nat.not_lt]
    exact Or.inr hle
  simp only [hneg, Bool.false_eq_true, if_false, outIndex_current labels n p.mat o d hl hd]
  rw [combine_ok current n d _ _ _ (keptPositions n d).length
    (by intro x hx; split at hx <;> simp at hx; omega) hbad hlen
    (by
      intro ls hls
      cases o <;> cases hm : p.mat <;> simp [hm] at hls <;> (subst hls; exact hlab))
    (by simp [current, hK])]
  unfold expectedMatrix
  rw [hcells]
  cases o <;> cases hm : p.mat <;> simp [hK]

/-! ### which errors the build stage can produce -/

/-- the errors of the null check (step 1) -/
def NullCheckErr (e : Err) : Prop :=
  e = .nullsPresent ∨ e = .constantNull ∨ e = .tooManyDims ∨ e = .noFindNulls

/-- the errors of encoding and combining columns (step 3) -/
def BuildErr (e : Err) : Prop :=
  e = .indexError ∨ e = .noDropRows ∨ e = .notColumns ∨ e = .negativeDimensions ∨ e = .lengthMismatch

theorem buildErr_not_nullCheck (e : Err) (h : BuildErr e) : ¬ NullCheckErr e := by
  rcases h with rfl | rfl | rfl | rfl | rfl <;> (intro hn; rcases hn with h | h | h | h <;> cases h)

theorem dropPositional_err (xs : List ρ) (d : List Nat) (e : Err)
    (h : dropPositional xs d = .error e) : e = .indexError := by
  unfold dropPositional at h
  split at h
  · cases h
  · cases h; rfl

theorem dropRows_current_err [DecidableEq L] (labels : List L) (s : Store) (xs : List ρ)
    (d : List Nat) (e : Err) (h : dropRows current labels s xs d = .error e) : e = .indexError := by
  cases s <;> simp only [dropRows, dropSeries, current, Bool.false_eq_true, if_false, reduceCtorEq] at h
  · exact dropPositional_err xs d e h
  · exact dropPositional_err xs d e h

theorem dropTable_err (n : Nat) (cols : List (List ρ)) (d : List Nat) (e : Err)
    (h : dropTable n cols d = .error e) : e = .indexError := by
  unfold dropTable at h
  split at h
  · cases h
  · cases h; rfl

theorem dropRowsV_current_err [DecidableEq L] (labels : List L) (x : Value ρ) (d : List Nat) (e : Err)
    (h : dropRowsV current labels x d = .error e) : e = .indexError ∨ e = .noDropRows := by
  cases x with
  | pylist cells =>
    simp only [dropRowsV] at h
    cases hr : dropRows current labels .pylist cells d with
    | error e' => rw [hr] at h; cases h; exact Or.inl (dropRows_current_err labels _ cells d e hr)
    | ok r => rw [hr] at h; cases h
  | nwSeries cells =>
    simp only [dropRowsV] at h
    cases hr : dropRows current labels .nwSeries cells d with
    | error e' => rw [hr] at h; cases h; exact Or.inl (dropRows_current_err labels _ cells d e hr)
    | ok r => rw [hr] at h; cases h
  | series cells =>
    simp only [dropRowsV] at h
    cases hr : dropRows current labels .series cells d with
    | error e' => rw [hr] at h; cases h; exact Or.inl (dropRows_current_err labels _ cells d e hr)
    | ok r => rw [hr] at h; cases h
  | array1 cells =>
    simp only [dropRowsV] at h
    cases hr : dropRows current labels .ndarray cells d with
    | error e' => rw [hr] at h; cases h; exact Or.inl (dropRows_current_err labels _ cells d e hr)
    | ok r => rw [hr] at h; cases h
  | array0 c => simp only [dropRowsV] at h; cases h; exact Or.inl rfl
  | array2 k cols =>
    simp only [dropRowsV] at h
    cases hr : dropTable k cols d with
    | error e' => rw [hr] at h; cases h; exact Or.inl (dropTable_err k cols d e hr)
    | ok r => rw [hr] at h; cases h
  | arrayN k =>
    simp only [dropRowsV] at h
    cases hr : dropTable k ([] : List (List (Cell ρ))) d with
    | error e' => rw [hr] at h; cases h; exact Or.inl (dropTable_err k _ d e hr)
    | ok r => rw [hr] at h; cases h
  | sparse csc k cols =>
    simp only [dropRowsV] at h
    cases hr : dropTable k cols d with
    | error e' => rw [hr] at h; cases h; exact Or.inl (dropTable_err k cols d e hr)
    | ok r => rw [hr] at h; cases h
  | scalar k c => simp [dropRowsV, current] at h
  | none => simp only [dropRowsV] at h; cases h; exact Or.inr rfl
  | frame k cols => simp only [dropRowsV] at h; cases h; exact Or.inr rfl
  | dict items => simp only [dropRowsV] at h; cases h; exact Or.inr rfl
  | other => simp only [dropRowsV] at h; cases h; exact Or.inr rfl

theorem mapE_err {α β ε : Type} (f : α → Except ε β) (xs : List α) (e : ε)
    (h : mapE f xs = .error e) : ∃ x ∈ xs, f x = .error e := by
  induction xs with
  | nil => cases h
  | cons a r ih =>
    simp only [mapE] at h
    cases hf : f a with
    | error e' =>
      rw [hf] at h
      cases h
      exact ⟨a, by simp, hf⟩
    | ok b =>
      rw [hf] at h
      simp only at h
      cases hr : mapE f r with
      | error e' =>
        rw [hr] at h
        cases h
        obtain ⟨x, hx, hfx⟩ := ih hr
        exact ⟨x, by simp [hx], hfx⟩
      | ok bs => rw [hr] at h; cases h

theorem asColumns_err (x : Value ρ) (e : Err) (h : asColumns x = .error e) : e = .notColumns := by
  cases x with
  | array0 c => simp only [asColumns] at h; cases h; rfl
  | arrayN k => simp only [asColumns] at h; cases h; rfl
  | sparse csc k cols => cases csc <;> simp [asColumns] at h
  | none => simp [asColumns] at h
  | scalar k c => simp [asColumns] at h
  | pylist cells => simp [asColumns] at h
  | nwSeries cells => simp [asColumns] at h
  | series cells => simp [asColumns] at h
  | array1 cells => simp [asColumns] at h
  | array2 k cols => simp [asColumns] at h
  | frame k cols => simp [asColumns] at h
  | dict items => simp [asColumns] at h
  | other => simp [asColumns] at h

theorem encodeFactor_current_err [DecidableEq L] (labels : List L) (n : Nat) (so : Bool) (f : Factor ρ)
    (d : List Nat) (e : Err) (h : encodeFactor current labels n so f d = .error e) : BuildErr e := by
  unfold encodeFactor at h
  split at h
  · cases h
  unfold encodeValue at h
  cases he : f.encoder with
  | default =>
    rw [he] at h
    simp only at h
    cases ha : asColumns f.value with
    | error e' =>
      rw [ha] at h
      cases h
      exact Or.inr (Or.inr (Or.inl (asColumns_err _ _ ha)))
    | ok y =>
      rw [ha] at h
      simp only at h
      obtain ⟨l, _, hl⟩ := mapE_err _ _ _ h
      split at hl
      · cases hl
      · rcases dropRowsV_current_err labels l d e hl with h1 | h1
        · exact Or.inl h1
        · exact Or.inr (Or.inl h1)
  | contrastsC =>
    rw [he] at h
    simp only at h
    cases hc : colCells f.value with
    | none =>
      rw [hc] at h
      cases h
      exact Or.inr (Or.inr (Or.inl rfl))
    | some sc =>
      obtain ⟨s, cells⟩ := sc
      rw [hc] at h
      cases s <;> simp only [dropSeries, current, Bool.false_eq_true, if_false] at h
      all_goals
        first
        | (cases hp : dropPositional cells d with
           | error e' => rw [hp] at h; cases h; exact Or.inl (dropPositional_err _ _ _ hp)
           | ok r => rw [hp] at h; cases h)
  | hashed =>
    rw [he] at h
    simp only at h
    cases hc : colCells f.value with
    | none =>
      rw [hc] at h
      cases h
      exact Or.inr (Or.inr (Or.inl rfl))
    | some sc =>
      obtain ⟨s, cells⟩ := sc
      rw [hc] at h
      simp only [current, if_true] at h
      cases hp : dropPositional cells d with
      | error e' => rw [hp] at h; cases h; exact Or.inl (dropPositional_err _ _ _ hp)
      | ok r => rw [hp] at h; cases h
  | constant =>
    rw [he] at h
    simp only at h
    cases hv : f.value with
    | scalar k c =>
      rw [hv] at h
      simp only at h
      split at h
      · cases h; exact Or.inr (Or.inr (Or.inr (Or.inl rfl)))
      · cases h
    | none => rw [hv] at h; cases h; exact Or.inr (Or.inr (Or.inl rfl))
    | pylist cells => rw [hv] at h; cases h; exact Or.inr (Or.inr (Or.inl rfl))
    | nwSeries cells => rw [hv] at h; cases h; exact Or.inr (Or.inr (Or.inl rfl))
    | series cells => rw [hv] at h; cases h; exact Or.inr (Or.inr (Or.inl rfl))
    | array0 c => rw [hv] at h; cases h; exact Or.inr (Or.inr (Or.inl rfl))
    | array1 cells => rw [hv] at h; cases h; exact Or.inr (Or.inr (Or.inl rfl))
    | array2 k cols => rw [hv] at h; cases h; exact Or.inr (Or.inr (Or.inl rfl))
    | arrayN k => rw [hv] at h; cases h; exact Or.inr (Or.inr (Or.inl rfl))
    | frame k cols => rw [hv] at h; cases h; exact Or.inr (Or.inr (Or.inl rfl))
    | sparse csc k cols => rw [hv] at h; cases h; exact Or.inr (Or.inr (Or.inl rfl))
    | dict items => rw [hv] at h; cases h; exact Or.inr (Or.inr (Or.inl rfl))
    | other => rw [hv] at h; cases h; exact Or.inr (Or.inr (Or.inl rfl))

theorem outIndex_current_err [DecidableEq L] (labels : List L) (n : Nat) (m : Mat) (o : Output)
    (d : List Nat) (e : Err) (h : outIndex current labels n m o d = .error e) : e = .indexError := by
  cases o <;> cases m <;> simp only [outIndex, current, dropSeries, Bool.false_eq_true, if_false,
    if_true, reduceCtorEq] at h
  all_goals
    split at h
    · cases h
    · cases hp : dropPositional labels d with
      | error e' => rw [hp] at h; cases h; exact dropPositional_err _ _ _ hp
      | ok r => rw [hp] at h; cases h

theorem combine_err (v : Variant) (n : Nat) (d : List Nat) (icpt : Option Nat)
    (cols : List (List (Value ρ))) (idx : IndexOut L) (e : Err)
    (h : combine v n d icpt cols idx = .error e) : e = .notColumns ∨ e = .lengthMismatch := by
  unfold combine at h
  split at h
  · cases h; exact Or.inl rfl
  · split at h
    · cases idx <;> simp at h
    · split at h
      · cases idx with
        | none => simp at h
        | range r => simp at h
        | labels ls =>
          simp only at h
          split at h
          · cases h
          · cases h; exact Or.inr rfl
      · cases h; exact Or.inr rfl

theorem buildModelMatrix_current_err [DecidableEq L] (labels : List L) (n : Nat) (o : Output)
    (d : List Nat) (p : Part ρ) (e : Err)
    (h : buildModelMatrix current labels n o d p = .error e) : BuildErr e := by
  unfold buildModelMatrix at h
  cases hm : mapE (fun f => encodeFactor current labels n (o == .sparse) f d) p.factors with
  | error e' =>
    rw [hm] at h
    cases h
    obtain ⟨f, _, hf⟩ := mapE_err _ _ _ hm
    exact encodeFactor_current_err labels n _ f d e hf
  | ok cols =>
    rw [hm] at h
    simp only at h
    split at h
    · cases h; exact Or.inr (Or.inr (Or.inr (Or.inl rfl)))
    · cases ho : outIndex current labels n p.mat o d with
      | error e' =>
        rw [ho] at h
        cases h
        exact Or.inl (outIndex_current_err labels n p.mat o d e ho)
      | ok idx =>
        rw [ho] at h
        rcases combine_err current n d _ cols idx e h with h1 | h1
        · exact Or.inr (Or.inr (Or.inl h1))
        · exact Or.inr (Or.inr (Or.inr (Or.inr h1)))

/-- A materializer call fails with an error of the null check exactly when step 1 does. -/
theorem getModelMatrix_nullCheck_iff [DecidableEq L] (labels : List L) (n : Nat) (pol : Policy)
    (o : Output) (parts : List (Part ρ)) (dropIn : Option DropSet) (e : Err) (he : NullCheckErr e) :
    getModelMatrix current labels n pol o parts dropIn = .error e ↔
      evalFactors current pol (parts.flatMap (·.factors)) (initialSet dropIn) = .error e := by
  unfold getModelMatrix
  cases hev : evalFactors current pol (parts.flatMap (·.factors)) (initialSet dropIn) with
  | error e' => simp
  | ok d1 =>
    simp only [reduceCtorEq, iff_false]
    cases hm : mapE (buildModelMatrix current labels n o (sorted d1)) parts with
    | error e' =>
      simp only [Except.error.injEq]
      intro hee
      subst hee
      obtain ⟨p, _, hp⟩ := mapE_err _ _ _ hm
      exact buildErr_not_nullCheck _ (buildModelMatrix_current_err labels n o _ p _ hp) he
    | ok ms => simp

/-! ### `FormulaMaterializer.get_model_matrix` and the entry points -/

theorem initialSet_eq (dropIn : Option DropSet) : initialSet dropIn = callerRows dropIn := by
  cases dropIn <;> rfl

theorem getModelMatrix_of_eval [DecidableEq L] (labels : List L) (n : Nat) (pol : Policy)
    (o : Output) (parts : List (Part ρ)) (dropIn : Option DropSet) (d1 : DropSet)
    (hl : labels.length = n) (hwf : WF n parts)
    (he : evalFactors current pol (parts.flatMap (·.factors)) (callerRows dropIn) = .ok d1)
    (hn : d1.Nodup) (hd : ∀ i ∈ d1, i < n) :
    getModelMatrix current labels n pol o parts dropIn =
      .ok (parts.map (expectedMatrix labels (keptPositions n d1) o), d1) := by
  unfold getModelMatrix
  simp only [initialSet_eq, he]
  have hcongr : keptPositions n (sorted d1) = keptPositions n d1 :=
    keptPositions_congr n _ _ (mem_sorted d1)
  have hK : (keptPositions n (sorted d1)).length = n - (sorted d1).length := by
    rw [hcongr, length_sorted, length_keptPositions n d1 hn hd]
  rw [mapE_ok (buildModelMatrix current labels n o (sorted d1))
    (expectedMatrix labels (keptPositions n d1) o) parts]
  intro p hp
  rw [← hcongr]
  exact buildModelMatrix_current labels n o (sorted d1) p hl (fun f hf => hwf p hp f hf) hK
    (by rw [length_sorted]; exact length_le_of_nodup n d1 hn hd)
    (fun i hi => hd i ((mem_sorted d1 i).1 hi))

theorem mem_allNulls_lt (n : Nat) (parts : List (Part ρ)) (hwf : WF n parts) :
    ∀ i ∈ allNulls parts, i < n := by
  intro i hi
  unfold allNulls at hi
  simp only [List.mem_flatMap] at hi
  obtain ⟨f, ⟨p, hp, hf⟩, hif⟩ := hi
  obtain ⟨ns, _, hn, hlt⟩ := findNulls_factorOK n f (hwf p hp f hf)
  rw [hn] at hif
  exact hlt i hif

theorem callerRows_ok (n : Nat) (c : Option DropSet) (h : CallerOK n c) :
    (callerRows c).Nodup ∧ ∀ i ∈ callerRows c, i < n := by
  cases c with
  | none => simp [callerRows]
  | some s => exact h

theorem route_current (c : CallRec) :
    route current c = if oneCall c then .joint c.caller else .perPart c.caller := by
  obtain ⟨e, s, ov, j, cl⟩ := c
  cases e <;> cases s <;> cases j <;> cases ov <;> rfl

theorem call_oneCall [DecidableEq L] (labels : List L) (n : Nat) (pol : Policy) (o : Output)
    (parts : List (Part ρ)) (c : CallRec) (h1 : oneCall c = true) :
    call current labels n pol o parts c =
      match getModelMatrix current labels n pol o parts c.caller with
      | .error e => .error e
      | .ok (ms, d1) => .ok ⟨ms, c.caller.map (fun _ => d1)⟩ := by
  unfold call
  rw [route_current, if_pos h1]
  simp only
  cases getModelMatrix current labels n pol o parts c.caller with
  | error e => rfl
  | ok r =>
    obtain ⟨ms, d1⟩ := r
    cases c.caller <;> rfl

theorem partNulls_allNulls (p : Part ρ) : allNulls [p] = partNulls p := by
  simp [allNulls, partNulls]

/-! ### one call per part -/

theorem allNulls_cons (p : Part ρ) (r : List (Part ρ)) :
    allNulls (p :: r) = partNulls p ++ allNulls r := by
  simp [allNulls, partNulls]

theorem perPartCalls_drop [DecidableEq L] (labels : List L) (n : Nat) (o : Output)
    (parts : List (Part ρ)) (d : Option DropSet) (hl : labels.length = n) (hwf : WF n parts)
    (hc : CallerOK n d) :
    perPartCalls current labels n .drop o parts d = .ok (perPartExpected labels n o parts d) := by
  induction parts generalizing d with
  | nil => rfl
  | cons p r ih =>
    have hwfp : WF n [p] := by
      intro q hq
      simp only [List.mem_singleton] at hq
      subst hq
      exact hwf q (by simp)
    have hwfr : WF n r := fun q hq => hwf q (by simp [hq])
    obtain ⟨hcn, hcr⟩ := callerRows_ok n d hc
    have hev : evalFactors current .drop ([p].flatMap (·.factors)) (callerRows d)
        = .ok (setUpdate (callerRows d) (partNulls p)) := by
      rw [evalFactors_drop _ _ (fun f hf => by
        simp only [List.flatMap_cons, List.flatMap_nil, List.append_nil] at hf
        obtain ⟨ns, hns, _⟩ := findNulls_factorOK n f (hwf p (by simp) f hf)
        exact ⟨ns, hns⟩)]
      simp [partNulls]
    have hn := nodup_setUpdate (partNulls p) (callerRows d) hcn
    have hd : ∀ i ∈ setUpdate (callerRows d) (partNulls p), i < n := by
      intro i hi
      rw [mem_setUpdate] at hi
      rcases hi with hi | hi
      · exact hcr i hi
      · have := mem_allNulls_lt n [p] hwfp i
        rw [partNulls_allNulls] at this
        exact this hi
    have hg := getModelMatrix_of_eval labels n .drop o [p] d _ hl hwfp hev hn hd
    have hc' : CallerOK n (carry d (setUpdate (callerRows d) (partNulls p))) := by
      cases d with
      | none => trivial
      | some s => exact ⟨hn, hd⟩
    unfold perPartCalls
    rw [hg]
    simp only [ih _ hwfr hc']
    rfl

theorem perPartExpected_none (labels : List L) (n : Nat) (o : Output) (parts : List (Part ρ)) :
    (perPartExpected labels n o parts none).2 = none ∧
    (perPartExpected labels n o parts none).1 =
      parts.map (fun p => expectedMatrix labels (keptPositions n (partNulls p)) o p) := by
  induction parts with
  | nil => exact ⟨rfl, rfl⟩
  | cons p r ih =>
    unfold perPartExpected
    simp only [carry, ih.1, ih.2, List.map_cons, callerRows]
    refine ⟨trivial, ?_⟩
    rw [keptPositions_congr n (setUpdate [] (partNulls p)) (partNulls p)
      (fun i => by rw [mem_setUpdate]; simp)]

theorem perPartExpected_some (labels : List L) (n : Nat) (o : Output) (parts : List (Part ρ))
    (s : DropSet) :
    ∃ s', (perPartExpected labels n o parts (some s)).2 = some s' ∧
      ∀ i, i ∈ s' ↔ i ∈ s ∨ i ∈ allNulls parts := by
  induction parts generalizing s with
  | nil => exact ⟨s, rfl, fun i => by simp [allNulls]⟩
  | cons p r ih =>
    obtain ⟨s', h1, h2⟩ := ih (setUpdate s (partNulls p))
    refine ⟨s', ?_, ?_⟩
    · unfold perPartExpected
      simpa [callerRows, carry] using h1
    · intro i
      rw [h2 i, mem_setUpdate, allNulls_cons, List.mem_append]
      tauto

/-! ### the per-spec branch of `ModelSpecs.get_model_matrix`: two passes over one shared set -/

theorem perPartExpected_final (labels : List L) (n : Nat) (o : Output) (parts : List (Part ρ))
    (s : DropSet) :
    (perPartExpected labels n o parts (some s)).2 = some (setUpdate s (allNulls parts)) := by
  induction parts generalizing s with
  | nil => simp [perPartExpected, allNulls, setUpdate]
  | cons p r ih =>
    unfold perPartExpected
    simp only [callerRows, carry, ih, allNulls_cons, setUpdate_append]

theorem partNulls_subset_allNulls (parts : List (Part ρ)) (p : Part ρ) (hp : p ∈ parts) :
    ∀ i ∈ partNulls p, i ∈ allNulls parts := by
  intro i hi
  unfold partNulls at hi
  unfold allNulls
  simp only [List.mem_flatMap] at hi ⊢
  obtain ⟨f, hf, hif⟩ := hi
  exact ⟨f, ⟨p, hp, hf⟩, hif⟩

/-- one pass over the parts during which no null check changes the set: every part is built with
that set -/
theorem perPartCalls_stable [DecidableEq L] (labels : List L) (n : Nat) (pol : Policy) (o : Output)
    (parts : List (Part ρ)) (s : DropSet) (hl : labels.length = n) (hwf : WF n parts)
    (hs : s.Nodup) (hr : ∀ i ∈ s, i < n)
    (hst : ∀ p ∈ parts, evalFactors current pol p.factors s = .ok s) :
    perPartCalls current labels n pol o parts (some s) =
      .ok (parts.map (expectedMatrix labels (keptPositions n s) o), some s) := by
  induction parts with
  | nil => rfl
  | cons p r ih =>
    have hwfp : WF n [p] := by
      intro q hq
      simp only [List.mem_singleton] at hq
      subst hq
      exact hwf q (by simp)
    have hwfr : WF n r := fun q hq => hwf q (by simp [hq])
    have hev : evalFactors current pol ([p].flatMap (·.factors)) (callerRows (some s)) = .ok s := by
      simpa [callerRows] using hst p (by simp)
    have hg := getModelMatrix_of_eval labels n pol o [p] (some s) s hl hwfp hev hs hr
    unfold perPartCalls
    rw [hg]
    simp only [carry, ih hwfr (fun q hq => hst q (by simp [hq]))]
    rfl

/-- RAISE: a pass stops at the first part that has a null -/
theorem perPartCalls_raise_nulls [DecidableEq L] (labels : List L) (n : Nat) (o : Output)
    (parts : List (Part ρ)) (s : DropSet) (hl : labels.length = n) (hwf : WF n parts)
    (hs : s.Nodup) (hr : ∀ i ∈ s, i < n) (hne : allNulls parts ≠ []) :
    perPartCalls current labels n .raise o parts (some s) = .error .nullsPresent := by
  induction parts with
  | nil => exact absurd rfl hne
  | cons p r ih =>
    have hwfp : WF n [p] := by
      intro q hq
      simp only [List.mem_singleton] at hq
      subst hq
      exact hwf q (by simp)
    have hwfr : WF n r := fun q hq => hwf q (by simp [hq])
    have hchk : ∀ f ∈ [p].flatMap (·.factors), ∃ ns, findNulls current f.value = .ok ns := by
      intro f hf
      simp only [List.flatMap_cons, List.flatMap_nil, List.append_nil] at hf
      obtain ⟨ns, hns, _⟩ := findNulls_factorOK n f (hwf p (by simp) f hf)
      exact ⟨ns, hns⟩
    have hev := evalFactors_raise ([p].flatMap (·.factors)) s hchk
    have hpn : ([p].flatMap (·.factors)).flatMap nullsOf = partNulls p := by simp [partNulls]
    rw [hpn] at hev
    by_cases hp0 : partNulls p = []
    · rw [if_pos hp0] at hev
      have hg := getModelMatrix_of_eval labels n .raise o [p] (some s) s hl hwfp
        (by simpa [callerRows] using hev) hs hr
      have hne' : allNulls r ≠ [] := by
        intro h
        apply hne
        rw [allNulls_cons, hp0, h]
        rfl
      unfold perPartCalls
      rw [hg]
      simp only [carry, ih hwfr hne']
    · rw [if_neg hp0] at hev
      unfold perPartCalls getModelMatrix
      simp only [initialSet, hev]

theorem callerRows_some (x : DropSet) : callerRows (some x) = x := rfl

/-- the per-spec branch when the first pass leaves the set as it was: there is no second pass -/
theorem call_perSpec_stable [DecidableEq L] (labels : List L) (n : Nat) (pol : Policy) (o : Output)
    (parts : List (Part ρ)) (c : CallRec) (hl : labels.length = n) (hwf : WF n parts)
    (hc : CallerOK n c.caller) (h0 : oneCall c = false)
    (hst : ∀ p ∈ parts, evalFactors current pol p.factors (callerRows c.caller) = .ok (callerRows c.caller)) :
    call current labels n pol o parts c =
      .ok ⟨parts.map (expectedMatrix labels (keptPositions n (callerRows c.caller)) o), c.caller⟩ := by
  obtain ⟨hcn, hcr⟩ := callerRows_ok n c.caller hc
  unfold call
  rw [route_current, h0]
  simp only [Bool.false_eq_true, if_false, current, if_true, initialSet_eq]
  have := perPartCalls_stable labels n pol o parts (callerRows c.caller) hl hwf hcn hcr hst
  unfold current at this
  rw [this]
  simp only [callerRows_some, bne_self_eq_false, Bool.false_eq_true, if_false]
  cases c.caller <;> rfl

/-- The per-spec branch under DROP: both passes together give every part the rows that are in
neither the caller's set nor null in ANY part, and leave caller ∪ all nulls in the shared set. -/
theorem call_perSpec_drop [DecidableEq L] (labels : List L) (n : Nat) (o : Output)
    (parts : List (Part ρ)) (c : CallRec) (hl : labels.length = n) (hwf : WF n parts)
    (hc : CallerOK n c.caller) (h0 : oneCall c = false) :
    call current labels n .drop o parts c =
      .ok ⟨parts.map (expectedMatrix labels
              (keptPositions n (callerRows c.caller ++ allNulls parts)) o),
           c.caller.map (fun _ => setUpdate (callerRows c.caller) (allNulls parts))⟩ := by
  obtain ⟨hcn, hcr⟩ := callerRows_ok n c.caller hc
  have hchk : ∀ p ∈ parts, ∀ f ∈ p.factors, ∃ ns, findNulls current f.value = .ok ns := by
    intro p hp f hf
    obtain ⟨ns, hns, _⟩ := findNulls_factorOK n f (hwf p hp f hf)
    exact ⟨ns, hns⟩
  have hd1n := nodup_setUpdate (allNulls parts) (callerRows c.caller) hcn
  have hd1r : ∀ i ∈ setUpdate (callerRows c.caller) (allNulls parts), i < n := by
    intro i hi
    rw [mem_setUpdate] at hi
    rcases hi with hi | hi
    · exact hcr i hi
    · exact mem_allNulls_lt n parts hwf i hi
  have hk : ∀ d, (∀ i, i ∈ d ↔ i ∈ callerRows c.caller ∨ i ∈ allNulls parts) →
      keptPositions n d = keptPositions n (callerRows c.caller ++ allNulls parts) := by
    intro d hd
    exact keptPositions_congr n _ _ (fun i => by rw [hd i, List.mem_append])
  -- with every null row already in the set, a pass changes nothing
  have hsat : ∀ d : DropSet, (∀ i ∈ allNulls parts, i ∈ d) →
      ∀ p ∈ parts, evalFactors current .drop p.factors d = .ok d := by
    intro d hd p hp
    rw [evalFactors_drop _ _ (hchk p hp)]
    have : setUpdate d (p.factors.flatMap nullsOf) = d :=
      setUpdate_of_subset _ d (fun i hi => hd i (partNulls_subset_allNulls parts p hp i hi))
    rw [this]
  by_cases hlen : (setUpdate (callerRows c.caller) (allNulls parts)).length = (callerRows c.caller).length
  · -- nothing to add: one pass
    have heq := setUpdate_eq_of_length _ _ hlen
    have hsub := subset_of_setUpdate_eq _ _ heq
    rw [call_perSpec_stable labels n .drop o parts c hl hwf hc h0 (hsat _ hsub), heq]
    rw [hk (callerRows c.caller) (fun i => ⟨Or.inl, fun h => h.elim id (hsub i)⟩)]
    cases c.caller <;> rfl
  · -- the set grew during the first pass: all parts again, with the complete set
    unfold call
    rw [route_current, h0]
    simp only [Bool.false_eq_true, if_false, current, if_true, initialSet_eq]
    have h1 := perPartCalls_drop labels n o parts (some (callerRows c.caller)) hl hwf ⟨hcn, hcr⟩
    have h1f := perPartExpected_final labels n o parts (callerRows c.caller)
    have h2 := perPartCalls_stable labels n .drop o parts _ hl hwf hd1n hd1r
      (hsat _ (fun i hi => (mem_setUpdate _ _ i).2 (Or.inr hi)))
    unfold current at h1 h2
    rw [h1]
    rcases hpe : perPartExpected labels n o parts (some (callerRows c.caller)) with ⟨ms, dEnd⟩
    rw [hpe] at h1f
    simp only at h1f
    subst h1f
    have hne : ((setUpdate (callerRows c.caller) (allNulls parts)).length != (callerRows c.caller).length) = true := by
      simpa using hlen
    simp only [callerRows_some, hne, if_true, h2]
    rw [hk _ (fun i => mem_setUpdate _ _ i)]
    cases c.caller <;> rfl

theorem partNulls_nil_of_allNulls_nil (parts : List (Part ρ)) (h : allNulls parts = [])
    (p : Part ρ) (hp : p ∈ parts) : partNulls p = [] := by
  rw [List.eq_nil_iff_forall_not_mem]
  intro i hi
  have := partNulls_subset_allNulls parts p hp i hi
  rw [h] at this
  cases this

/-- The per-spec branch under RAISE -/
theorem call_perSpec_raise [DecidableEq L] (labels : List L) (n : Nat) (o : Output)
    (parts : List (Part ρ)) (c : CallRec) (hl : labels.length = n) (hwf : WF n parts)
    (hc : CallerOK n c.caller) (h0 : oneCall c = false) :
    call current labels n .raise o parts c =
      if allNulls parts = [] then
        .ok ⟨parts.map (expectedMatrix labels (keptPositions n (callerRows c.caller)) o), c.caller⟩
      else .error .nullsPresent := by
  obtain ⟨hcn, hcr⟩ := callerRows_ok n c.caller hc
  by_cases hnull : allNulls parts = []
  · rw [if_pos hnull]
    apply call_perSpec_stable labels n .raise o parts c hl hwf hc h0
    intro p hp
    rw [evalFactors_raise _ _ (fun f hf => by
      obtain ⟨ns, hns, _⟩ := findNulls_factorOK n f (hwf p hp f hf)
      exact ⟨ns, hns⟩)]
    have : p.factors.flatMap nullsOf = [] := partNulls_nil_of_allNulls_nil parts hnull p hp
    rw [if_pos this]
  · rw [if_neg hnull]
    unfold call
    rw [route_current, h0]
    simp only [Bool.false_eq_true, if_false, current, if_true, initialSet_eq]
    have := perPartCalls_raise_nulls labels n o parts (callerRows c.caller) hl hwf hcn hcr hnull
    unfold current at this
    rw [this]

/-- The per-spec branch under IGNORE -/
theorem call_perSpec_ignore [DecidableEq L] (labels : List L) (n : Nat) (o : Output)
    (parts : List (Part ρ)) (c : CallRec) (hl : labels.length = n) (hwf : WF n parts)
    (hc : CallerOK n c.caller) (h0 : oneCall c = false) :
    call current labels n .ignore o parts c =
      .ok ⟨parts.map (expectedMatrix labels (keptPositions n (callerRows c.caller)) o), c.caller⟩ :=
  call_perSpec_stable labels n .ignore o parts c hl hwf hc h0 (fun _ _ => evalFactors_ignore _ _)

/-! ### the caller's set object after a call, whatever its outcome -/

theorem evalFactorsSt_spec (v : Variant) (p : Policy) (fs : List (Factor ρ)) (d : DropSet) :
    evalFactors v p fs d =
      match evalFactorsSt v p fs d with
      | (d1, none) => .ok d1
      | (_, some e) => .error e := by
  induction fs generalizing d with
  | nil => rfl
  | cons f r ih =>
    simp only [evalFactors, evalFactorsSt]
    cases checkFactor v p f d with
    | error e => rfl
    | ok d' => exact ih d'

/-- under RAISE and IGNORE a null check that passes leaves the set as it is -/
theorem checkFactor_keeps (v : Variant) (pol : Policy) (hpol : pol ≠ .drop) (f : Factor ρ)
    (d d' : DropSet) (h : checkFactor v pol f d = .ok d') : d' = d := by
  cases pol with
  | drop => exact absurd rfl hpol
  | ignore =>
    simp only [checkFactor, Except.ok.injEq] at h
    exact h.symm
  | raise =>
    simp only [checkFactor] at h
    cases hn : findNulls v f.value with
    | error e => simp [hn] at h
    | ok ns =>
      simp only [hn, checkForNulls] at h
      split at h
      · simp only [Except.ok.injEq] at h
        exact h.symm
      · cases h

theorem evalFactorsSt_keeps (v : Variant) (pol : Policy) (hpol : pol ≠ .drop) (fs : List (Factor ρ))
    (d : DropSet) : (evalFactorsSt v pol fs d).1 = d := by
  induction fs with
  | nil => rfl
  | cons f r ih =>
    simp only [evalFactorsSt]
    cases hc : checkFactor v pol f d with
    | error e => rfl
    | ok d' =>
      simp only
      rw [checkFactor_keeps v pol hpol f d d' hc]
      exact ih

theorem getModelMatrix_set [DecidableEq L] (v : Variant) (labels : List L) (n : Nat) (pol : Policy)
    (o : Output) (parts : List (Part ρ)) (d : DropSet) (ms : List (Matrix L ρ)) (d1 : DropSet)
    (h : getModelMatrix v labels n pol o parts (some d) = .ok (ms, d1)) :
    evalFactorsSt v pol (parts.flatMap (·.factors)) d = (d1, none) := by
  unfold getModelMatrix at h
  rw [evalFactorsSt_spec] at h
  simp only [initialSet] at h
  rcases hst : evalFactorsSt v pol (parts.flatMap (·.factors)) d with ⟨dd, oe⟩
  rw [hst] at h
  cases oe with
  | some e => simp at h
  | none =>
    simp only at h
    cases hm : mapE (buildModelMatrix v labels n o (sorted dd)) parts with
    | error e => rw [hm] at h; cases h
    | ok ms' =>
      rw [hm] at h
      simp only [Except.ok.injEq, Prod.mk.injEq] at h
      rw [← h.2]
      exact hst

theorem passSetAfter_keeps [DecidableEq L] (v : Variant) (labels : List L) (n : Nat) (pol : Policy)
    (hpol : pol ≠ .drop) (o : Output) (parts : List (Part ρ)) (d : DropSet) :
    (passSetAfter v labels n pol o parts d).1 = d := by
  induction parts with
  | nil => rfl
  | cons p r ih =>
    simp only [passSetAfter]
    cases hg : getModelMatrix v labels n pol o [p] (some d) with
    | error e => exact evalFactorsSt_keeps v pol hpol _ d
    | ok res =>
      obtain ⟨ms, d1⟩ := res
      have h1 := getModelMatrix_set v labels n pol o [p] d ms d1 hg
      have h2 := evalFactorsSt_keeps v pol hpol ([p].flatMap (·.factors)) d
      rw [h1] at h2
      simp only at h2
      subst h2
      exact ih

/-- RAISE and IGNORE never touch the caller's set — for ALL inputs, on every entry point, whether the
call returns or raises (a null, a null constant, an unknown type, an encoding error …). -/
theorem setAfterCall_keeps [DecidableEq L] (labels : List L) (n : Nat) (pol : Policy)
    (hpol : pol ≠ .drop) (o : Output) (parts : List (Part ρ)) (c : CallRec) :
    setAfterCall current labels n pol o parts c = c.caller := by
  unfold setAfterCall
  cases hc : c.caller with
  | none => rfl
  | some s =>
    simp only [route_current, hc]
    by_cases h1 : oneCall c = true
    · simp only [h1, if_true, gmmSetAfter, evalFactorsSt_keeps current pol hpol]
    · have h0 : oneCall c = false := by simpa using h1
      simp only [h0, Bool.false_eq_true, if_false]
      have hk := passSetAfter_keeps current labels n pol hpol o parts s
      rcases hp : passSetAfter current labels n pol o parts s with ⟨d1, ok⟩
      rw [hp] at hk
      simp only at hk
      subst hk
      simp [current]

theorem passSetAfter_of_ok [DecidableEq L] (v : Variant) (labels : List L) (n : Nat) (pol : Policy)
    (o : Output) (parts : List (Part ρ)) (d : DropSet) (ms : List (Matrix L ρ))
    (dEnd : Option DropSet) (h : perPartCalls v labels n pol o parts (some d) = .ok (ms, dEnd)) :
    ∃ dF, dEnd = some dF ∧ passSetAfter v labels n pol o parts d = (dF, true) := by
  induction parts generalizing d ms dEnd with
  | nil =>
    simp only [perPartCalls, Except.ok.injEq, Prod.mk.injEq] at h
    exact ⟨d, h.2.symm, rfl⟩
  | cons p r ih =>
    simp only [perPartCalls] at h
    cases hg : getModelMatrix v labels n pol o [p] (some d) with
    | error e => rw [hg] at h; cases h
    | ok res =>
      obtain ⟨ms1, d1⟩ := res
      rw [hg] at h
      simp only [carry] at h
      cases hr : perPartCalls v labels n pol o r (some d1) with
      | error e => rw [hr] at h; cases h
      | ok res2 =>
        obtain ⟨rest, dE⟩ := res2
        rw [hr] at h
        simp only [Except.ok.injEq, Prod.mk.injEq] at h
        obtain ⟨dF, h1, h2⟩ := ih d1 rest dE hr
        refine ⟨dF, by rw [← h.2, h1], ?_⟩
        simp only [passSetAfter, hg, h2]

/-- When a call returns, the set object holds what the call reports. -/
theorem setAfterCall_of_ok [DecidableEq L] (labels : List L) (n : Nat) (pol : Policy) (o : Output)
    (parts : List (Part ρ)) (c : CallRec) (r : CallOut L ρ)
    (h : call current labels n pol o parts c = .ok r) :
    setAfterCall current labels n pol o parts c = r.callerAfter := by
  unfold setAfterCall
  unfold call at h
  rw [route_current] at h ⊢
  cases hc : c.caller with
  | none =>
    rw [hc] at h
    by_cases h1 : oneCall c = true
    · simp only [h1, if_true] at h
      cases hg : getModelMatrix current labels n pol o parts none with
      | error e => rw [hg] at h; cases h
      | ok res =>
        obtain ⟨ms, d1⟩ := res
        rw [hg] at h
        simp only [Except.ok.injEq] at h
        rw [← h]
    · have h0 : oneCall c = false := by simpa using h1
      simp only [h0, Bool.false_eq_true, if_false, current, if_true] at h
      cases hp : perPartCalls current labels n pol o parts (some (initialSet none)) with
      | error e => unfold current at hp; rw [hp] at h; cases h
      | ok res =>
        obtain ⟨ms, dEnd⟩ := res
        unfold current at hp
        rw [hp] at h
        simp only at h
        split at h
        · split at h
          · cases h
          · simp only [Except.ok.injEq] at h
            rw [← h]
        · simp only [Except.ok.injEq] at h
          rw [← h]
  | some s =>
    rw [hc] at h
    by_cases h1 : oneCall c = true
    · simp only [h1, if_true] at h ⊢
      cases hg : getModelMatrix current labels n pol o parts (some s) with
      | error e => rw [hg] at h; cases h
      | ok res =>
        obtain ⟨ms, d1⟩ := res
        rw [hg] at h
        simp only [Except.ok.injEq] at h
        rw [← h]
        simp only [gmmSetAfter, getModelMatrix_set current labels n pol o parts s ms d1 hg]
    · have h0 : oneCall c = false := by simpa using h1
      simp only [h0, Bool.false_eq_true, if_false, current, if_true, initialSet] at h ⊢
      cases hp : perPartCalls current labels n pol o parts (some s) with
      | error e => unfold current at hp; rw [hp] at h; cases h
      | ok res =>
        obtain ⟨ms, dEnd⟩ := res
        obtain ⟨dF, hdE, hpass⟩ := passSetAfter_of_ok current labels n pol o parts s ms dEnd hp
        unfold current at hp hpass
        rw [hp] at h
        subst hdE
        simp only at h
        simp only [hpass, Bool.true_and]
        by_cases hlen : (dF.length != s.length) = true
        · simp only [hlen, if_true] at h ⊢
          cases hp2 : perPartCalls current labels n pol o parts (some dF) with
          | error e => unfold current at hp2; rw [hp2] at h; cases h
          | ok res2 =>
            obtain ⟨ms2, dEnd2⟩ := res2
            obtain ⟨dF2, hdE2, hpass2⟩ := passSetAfter_of_ok current labels n pol o parts dF ms2 dEnd2 hp2
            unfold current at hp2 hpass2
            rw [hp2] at h
            subst hdE2
            simp only [Except.ok.injEq] at h
            rw [← h, hpass2]
        · simp only [hlen, Bool.false_eq_true, if_false, Except.ok.injEq] at h ⊢
          rw [← h]

/-- DROP: whatever a (possibly failing) step 1 leaves in the set is what was there plus rows that
`find_nulls` flagged in some factor -/
theorem evalFactorsSt_drop_bounds (fs : List (Factor ρ)) (d : DropSet) :
    (∀ i ∈ d, i ∈ (evalFactorsSt current .drop fs d).1) ∧
    (∀ i ∈ (evalFactorsSt current .drop fs d).1, i ∈ d ∨ i ∈ fs.flatMap nullsOf) := by
  induction fs generalizing d with
  | nil => exact ⟨fun i hi => hi, fun i hi => Or.inl hi⟩
  | cons f r ih =>
    simp only [evalFactorsSt, checkFactor]
    cases hn : findNulls current f.value with
    | error e => exact ⟨fun i hi => hi, fun i hi => Or.inl hi⟩
    | ok ns =>
      have hno : nullsOf f = ns := by simp [nullsOf, hn]
      simp only [checkForNulls]
      obtain ⟨h1, h2⟩ := ih (setUpdate d ns)
      refine ⟨fun i hi => h1 i ((mem_setUpdate ns d i).2 (Or.inl hi)), ?_⟩
      intro i hi
      rcases h2 i hi with h | h
      · rcases (mem_setUpdate ns d i).1 h with h | h
        · exact Or.inl h
        · exact Or.inr (by simp [List.flatMap_cons, hno, h])
      · exact Or.inr (by simp [List.flatMap_cons, h])

/-! ### the legacy label-based drop -/

theorem labelsAt_eq (labels : List L) (d : List Nat) (hd : ∀ i ∈ d, i < labels.length) :
    labelsAt labels d = .ok (d.filterMap (fun i => labels[i]?)) := by
  induction d with
  | nil => rfl
  | cons i r ih =>
    have hi : i < labels.length := hd i (by simp)
    simp [labelsAt, List.getElem?_eq_getElem hi, ih (fun j hj => hd j (by simp [hj]))]

theorem filter_zip_eq_dropFrom [DecidableEq L] (bad : List L) (d : List Nat) (ls : List L)
    (ys : List ρ) (i : Nat) (hlen : ls.length = ys.length)
    (h : ∀ j (hj : j < ls.length), (ls[j] ∈ bad ↔ i + j ∈ d)) :
    ((ls.zip ys).filter (fun p => !(bad.contains p.1))).map (·.2) = dropFrom d i ys := by
  induction ls generalizing ys i with
  | nil =>
    cases ys with
    | nil => rfl
    | cons y t => simp at hlen
  | cons l r ih =>
    cases ys with
    | nil => simp at hlen
    | cons y t =>
      have h0 := h 0 (by simp)
      simp only [List.getElem_cons_zero, Nat.add_zero] at h0
      have ih' := ih t (i + 1) (by simpa using hlen) (fun j hj => by
        have := h (j + 1) (by simpa using hj)
        simpa [Nat.add_assoc, Nat.add_comm 1 j] using this)
      simp only [List.zip_cons_cons, List.filter_cons, dropFrom]
      by_cases hi : i ∈ d
      · have hb : l ∈ bad := h0.2 hi
        simpa [hb, hi] using ih'
      · have hb : l ∉ bad := fun hb => hi (h0.1 hb)
        simpa [hb, hi] using ih'

/-- With pairwise distinct labels the label-based drop of the legacy tree IS the positional drop. -/
theorem dropByLabel_eq_of_nodup [DecidableEq L] (labels : List L) (xs : List ρ) (d : List Nat)
    (hn : labels.Nodup) (hl : labels.length = xs.length) (hd : ∀ i ∈ d, i < xs.length) :
    dropByLabel labels xs d = .ok (rowsAt xs (keptPositions xs.length d)) := by
  unfold dropByLabel
  rw [labelsAt_eq labels d (by rw [hl]; exact hd)]
  simp only
  rw [filter_zip_eq_dropFrom (d.filterMap (fun i => labels[i]?)) d labels xs 0 hl, ← dropFilter_eq]
  · rfl
  · intro j hj
    rw [Nat.zero_add, List.mem_filterMap]
    constructor
    · rintro ⟨k, hk, hkj⟩
      have hkl : k < labels.length := by rw [hl]; exact hd k hk
      rw [List.getElem?_eq_getElem hkl] at hkj
      have : k = j := (List.Nodup.getElem_inj_iff hn).1 (Option.some.inj hkj)
      exact this ▸ hk
    · intro hjd
      exact ⟨j, hjd, List.getElem?_eq_getElem hj⟩

end FormulaicVerif.Proofs.C06
