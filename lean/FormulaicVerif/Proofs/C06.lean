import FormulaicVerif.Spec.Nulls
import Mathlib.Data.List.Basic
import Mathlib.Data.List.Nodup
import Mathlib.Data.List.Perm.Basic
namespace FormulaicVerif.Proofs.C06
open FormulaicVerif.Model.Nulls FormulaicVerif.Spec.Nulls

variable {ρ L : Type}

/-! ### the drop set -/
theorem mem_setAdd (s : DropSet) (x y : Nat) : y ∈ setAdd s x ↔ y ∈ s ∨ y = x := by
  unfold setAdd
  split
  · constructor
    · exact Or.inl
    · rintro (h | rfl) <;> assumption
  · simp

theorem nodup_setAdd (s : DropSet) (x : Nat) (h : s.Nodup) : (setAdd s x).Nodup := by
  unfold setAdd
  split
  · exact h
  · rename_i hx
    rw [List.nodup_append]
    refine ⟨h, by simp, ?_⟩
    intro a ha b hb
    simp at hb
    subst hb
    exact fun e => hx (e ▸ ha)

theorem mem_setUpdate (xs : List Nat) (s : DropSet) (y : Nat) : y ∈ setUpdate s xs ↔ y ∈ s ∨ y ∈ xs := by
  unfold setUpdate
  induction xs generalizing s with
  | nil => simp
  | cons x r ih =>
    simp only [List.foldl_cons, ih, mem_setAdd, List.mem_cons]
    tauto

theorem nodup_setUpdate (xs : List Nat) (s : DropSet) (h : s.Nodup) : (setUpdate s xs).Nodup := by
  unfold setUpdate
  induction xs generalizing s with
  | nil => simpa
  | cons x r ih => exact ih _ (nodup_setAdd s x h)

theorem setUpdate_append (s : DropSet) (xs ys : List Nat) :
    setUpdate (setUpdate s xs) ys = setUpdate s (xs ++ ys) := by
  simp [setUpdate, List.foldl_append]

theorem mem_insertSorted (x y : Nat) (l : List Nat) : y ∈ insertSorted x l ↔ y = x ∨ y ∈ l := by
  induction l with
  | nil => simp [insertSorted]
  | cons a r ih =>
    unfold insertSorted
    split
    · simp
    · simp only [List.mem_cons, ih]; tauto

theorem length_insertSorted (x : Nat) (l : List Nat) : (insertSorted x l).length = l.length + 1 := by
  induction l with
  | nil => rfl
  | cons a r ih =>
    unfold insertSorted
    split <;> simp [ih]

theorem mem_sorted (s : DropSet) (y : Nat) : y ∈ sorted s ↔ y ∈ s := by
  unfold sorted
  induction s with
  | nil => simp
  | cons a r ih => simp only [List.foldr_cons, mem_insertSorted, ih, List.mem_cons]

theorem length_sorted (s : DropSet) : (sorted s).length = s.length := by
  unfold sorted
  induction s with
  | nil => rfl
  | cons a r ih => simp only [List.foldr_cons, length_insertSorted, ih, List.length_cons]

/-! ### positional removal is "the rows at the kept positions" -/
theorem dropFrom_eq (d : List Nat) (xs pre : List ρ) :
    dropFrom d pre.length xs =
      ((List.range' pre.length xs.length).filter (fun i => !d.contains i)).filterMap
        (fun i => (pre ++ xs)[i]?) := by
  induction xs generalizing pre with
  | nil => simp [dropFrom]
  | cons x r ih =>
    have h := ih (pre ++ [x])
    simp only [List.length_append, List.length_cons, List.length_nil, Nat.zero_add, List.append_assoc,
      List.singleton_append] at h
    simp only [dropFrom, List.length_cons, List.range'_succ, List.filter_cons]
    by_cases hm : pre.length ∈ d
    · simp [hm, h]
    · simp [hm, h]

theorem dropFilter_eq (xs : List ρ) (d : List Nat) :
    dropFilter xs d = rowsAt xs (keptPositions xs.length d) := by
  have := dropFrom_eq d xs []
  simpa [dropFilter, rowsAt, keptPositions, List.range_eq_range'] using this

theorem dropPositional_eq (xs : List ρ) (d : List Nat) (h : ∀ i ∈ d, i < xs.length) :
    dropPositional xs d = .ok (rowsAt xs (keptPositions xs.length d)) := by
  unfold dropPositional
  rw [if_pos (by simpa using h), ← dropFilter_eq]
  rfl

theorem keptPositions_congr (n : Nat) (d d' : List Nat) (h : ∀ i, i ∈ d ↔ i ∈ d') :
    keptPositions n d = keptPositions n d' := by
  unfold keptPositions
  apply List.filter_congr
  intro i _
  simp [h i]

theorem mem_keptPositions (n : Nat) (d : List Nat) (i : Nat) :
    i ∈ keptPositions n d ↔ i < n ∧ i ∉ d := by
  simp [keptPositions]

theorem keptPositions_nil (n : Nat) : keptPositions n [] = List.range n := by
  simp [keptPositions]

theorem rowsAt_range (xs : List ρ) : rowsAt xs (List.range xs.length) = xs := by
  have := dropFilter_eq xs []
  rw [keptPositions_nil] at this
  rw [← this]
  have h : ∀ (i : Nat) (ys : List ρ), dropFrom [] i ys = ys := by
    intro i ys
    induction ys generalizing i with
    | nil => rfl
    | cons y r ih => simp [dropFrom, ih]
  exact h 0 xs

theorem length_rowsAt (xs : List ρ) (ps : List Nat) (h : ∀ i ∈ ps, i < xs.length) :
    (rowsAt xs ps).length = ps.length := by
  unfold rowsAt
  induction ps with
  | nil => rfl
  | cons p r ih =>
    have hp : p < xs.length := h p (by simp)
    simp [List.getElem?_eq_getElem hp, ih (fun i hi => h i (by simp [hi]))]

theorem length_rowsAt_kept (xs : List ρ) (n : Nat) (d : List Nat) (h : xs.length = n) :
    (rowsAt xs (keptPositions n d)).length = (keptPositions n d).length := by
  apply length_rowsAt
  intro i hi
  rw [mem_keptPositions] at hi
  omega

theorem length_le_of_nodup (n : Nat) (d : List Nat) (hn : d.Nodup) (hd : ∀ i ∈ d, i < n) :
    d.length ≤ n := by
  have h1 : ((List.range n).filter (fun i => d.contains i)).Perm d := by
    apply (List.perm_ext_iff_of_nodup ((List.nodup_range).filter _) hn).2
    intro a
    simp only [List.mem_filter, List.mem_range, List.contains_iff_mem]
    exact ⟨fun h => h.2, fun h => ⟨hd a h, h⟩⟩
  have h2 := List.length_filter_le (fun i => d.contains i) (List.range n)
  have h3 := h1.length_eq
  simp only [List.length_range] at h2
  omega

theorem length_keptPositions (n : Nat) (d : List Nat) (hn : d.Nodup) (hd : ∀ i ∈ d, i < n) :
    (keptPositions n d).length = n - d.length := by
  have h1 : ((List.range n).filter (fun i => d.contains i)).Perm d := by
    apply (List.perm_ext_iff_of_nodup ((List.nodup_range).filter _) hn).2
    intro a
    simp only [List.mem_filter, List.mem_range, List.contains_iff_mem]
    exact ⟨fun h => h.2, fun h => ⟨hd a h, h⟩⟩
  have h2 := List.length_eq_length_filter_add (l := List.range n) (fun i => d.contains i)
  have h3 := h1.length_eq
  unfold keptPositions
  simp only [List.length_range] at h2
  omega


/-! ### encoders of the tree under test (`current`) -/

theorem dropRows_current [DecidableEq L] (labels : List L) (s : Store) (xs : List ρ) (d : List Nat)
    (h : ∀ i ∈ d, i < xs.length) :
    dropRows current labels s xs d = .ok (rowsAt xs (keptPositions xs.length d)) := by
  cases s <;> simp [dropRows, dropSeries, current, dropPositional_eq xs d h, dropFilter_eq]

theorem encodeFactor_current [DecidableEq L] (labels : List L) (f : Factor ρ) (d : List Nat)
    (h : ∀ i ∈ d, i < f.vals.length) :
    encodeFactor current labels f d = .ok (rowsAt f.vals (keptPositions f.vals.length d)) := by
  unfold encodeFactor
  cases he : f.encoder with
  | default =>
    simp only
    split
    · rename_i hd
      have : d = [] := by simpa using hd
      subst this
      rw [keptPositions_nil, rowsAt_range]
    · exact dropRows_current labels f.store f.vals d h
  | contrastsC =>
    cases f.store <;> simp [dropSeries, current, dropPositional_eq f.vals d h]
  | hashed => simp [current, dropPositional_eq f.vals d h]

theorem mapE_ok {α β ε : Type} (f : α → Except ε β) (g : α → β) (xs : List α)
    (h : ∀ x ∈ xs, f x = .ok (g x)) : mapE f xs = .ok (xs.map g) := by
  induction xs with
  | nil => rfl
  | cons a r ih =>
    simp only [mapE, h a (by simp), ih (fun x hx => h x (by simp [hx])), List.map_cons]

/-! ### step 1 -/

theorem evalFactors_drop (fs : List (Factor ρ)) (d : DropSet) :
    evalFactors .drop fs d = .ok (setUpdate d (fs.flatMap (·.nulls))) := by
  induction fs generalizing d with
  | nil => simp [evalFactors, setUpdate]
  | cons f r ih =>
    simp only [evalFactors, checkForNulls, ih, List.flatMap_cons, setUpdate_append]

theorem evalFactors_ignore (fs : List (Factor ρ)) (d : DropSet) :
    evalFactors .ignore fs d = .ok d := by
  induction fs generalizing d with
  | nil => rfl
  | cons f r ih => simp only [evalFactors, checkForNulls, ih]

theorem evalFactors_raise (fs : List (Factor ρ)) (d : DropSet) :
    evalFactors .raise fs d =
      if fs.flatMap (·.nulls) = [] then .ok d else .error .nullsPresent := by
  induction fs generalizing d with
  | nil => rfl
  | cons f r ih =>
    simp only [evalFactors, checkForNulls, List.flatMap_cons, List.append_eq_nil_iff]
    cases hn : f.nulls with
    | nil => simp [ih]
    | cons a b => simp

/-! ### one part -/

theorem combine_ok (v : Variant) (n : Nat) (d : List Nat) (icpt : Option Nat) (cols : List (List ρ))
    (idx : IndexOut L) (k : Nat) (hic : ∀ x, icpt = some x → x = k) (hcols : ∀ c ∈ cols, c.length = k)
    (hidx : ∀ ls, idx = .labels ls → ls.length = k)
    (hempty : (if v.emptyHonours then n - d.length else n) = k) :
    combine v n d icpt cols idx =
      .ok ⟨k, icpt, cols, match idx with | .range _ => .range k | .labels ls => .labels ls | .none => .none⟩ := by
  unfold combine
  generalize hlens : colLens icpt cols = lens
  have hall : ∀ x ∈ lens, x = k := by
    intro x hx
    rw [← hlens] at hx
    unfold colLens at hx
    rw [List.mem_append] at hx
    rcases hx with hx | hx
    · cases icpt with
      | none => simp at hx
      | some y => simp at hx; rw [hx]; exact hic y rfl
    · rw [List.mem_map] at hx
      obtain ⟨c, hc, rfl⟩ := hx
      exact hcols c hc
  cases lens with
  | nil =>
    cases idx with
    | none => simp [hempty]
    | labels ls => simp [hidx ls rfl]
    | range r => simp [hempty]
  | cons l rest =>
    have hl : l = k := hall l (by simp)
    have hrest : rest.all (fun x => x == l) = true := by
      rw [List.all_eq_true]
      intro x hx
      simp [hall x (by simp [hx]), hl]
    simp only [hrest, if_true]
    cases idx with
    | none => simp [hl]
    | labels ls => simp [hidx ls rfl, hl]
    | range r => simp [hl]

theorem outIndex_current [DecidableEq L] (labels : List L) (n : Nat) (m : Mat) (o : Output)
    (d : List Nat) (hl : labels.length = n) (hd : ∀ i ∈ d, i < n) :
    outIndex current labels n m o d = .ok
      (match o, m with
        | .pandas, .pandas => .labels (rowsAt labels (keptPositions n d))
        | .pandas, .narwhals => .labels (rowsAt labels (keptPositions n d))
        | .pandas, .arrow => .range (n - d.length)
        | _, _ => .none) := by
  have hdl : ∀ i ∈ d, i < labels.length := by rw [hl]; exact hd
  have hpos := dropPositional_eq labels d hdl
  rw [hl] at hpos
  have hempty : d.isEmpty = true → rowsAt labels (keptPositions n d) = labels := by
    intro h
    have : d = [] := by simpa using h
    subst this
    rw [keptPositions_nil, ← hl, rowsAt_range]
  cases o <;> cases m <;> try rfl
  · -- pandas output, PandasMaterializer
    simp only [outIndex, dropSeries, current, hpos]
    by_cases h : d.isEmpty = true
    · simp [h, hempty h]
    · simp [h]
  · -- pandas output, NarwhalsMaterializer over a pandas frame
    simp only [outIndex, current, hpos]
    by_cases h : d.isEmpty = true
    · simp [h, hempty h]
    · simp [h]

theorem buildModelMatrix_current [DecidableEq L] (labels : List L) (n : Nat) (o : Output)
    (d : List Nat) (p : Part ρ) (hl : labels.length = n)
    (hp : ∀ f ∈ p.factors, f.vals.length = n) (hK : (keptPositions n d).length = n - d.length)
    (hle : d.length ≤ n) (hd : ∀ i ∈ d, i < n) :
    buildModelMatrix current labels n o d p = .ok (expectedMatrix labels (keptPositions n d) o p) := by
  have henc : mapE (fun f => encodeFactor current labels f d) p.factors
      = .ok (p.factors.map (fun f => rowsAt f.vals (keptPositions n d))) := by
    apply mapE_ok
    intro f hf
    have := encodeFactor_current labels f d (by rw [hp f hf]; exact hd)
    rw [hp f hf] at this
    exact this
  have hcols : ∀ c ∈ p.factors.map (fun f => rowsAt f.vals (keptPositions n d)),
      c.length = (keptPositions n d).length := by
    intro c hc
    rw [List.mem_map] at hc
    obtain ⟨f, hf, rfl⟩ := hc
    exact length_rowsAt_kept f.vals n d (hp f hf)
  have hlab : (rowsAt labels (keptPositions n d)).length = (keptPositions n d).length :=
    length_rowsAt_kept labels n d hl
  unfold buildModelMatrix
  rw [henc]
  have hneg : (p.intercept && o != .sparse && decide (n < d.length)) = false := by
    simp only [Bool.and_eq_false_iff, decide_eq_false_iff_not, Nat.not_lt]
    exact Or.inr hle
  simp only [hneg, Bool.false_eq_true, if_false, outIndex_current labels n p.mat o d hl hd]
  rw [combine_ok current n d _ _ _ (keptPositions n d).length
    (by intro x hx; split at hx <;> simp at hx; omega) hcols
    (by
      intro ls hls
      cases o <;> cases hm : p.mat <;> simp [hm] at hls <;> (subst hls; exact hlab))
    (by simp [current, hK])]
  unfold expectedMatrix
  cases o <;> cases hm : p.mat <;> simp [hK]

/-! ### `FormulaMaterializer.get_model_matrix` and the entry points -/

theorem initialSet_eq (dropIn : Option DropSet) : initialSet dropIn = callerRows dropIn := by
  cases dropIn <;> rfl

theorem getModelMatrix_of_eval [DecidableEq L] (labels : List L) (n : Nat) (pol : Policy)
    (o : Output) (parts : List (Part ρ)) (dropIn : Option DropSet) (d1 : DropSet)
    (hl : labels.length = n) (hwf : WF n parts)
    (he : evalFactors pol (parts.flatMap (·.factors)) (callerRows dropIn) = .ok d1)
    (hn : d1.Nodup) (hd : ∀ i ∈ d1, i < n) :
    getModelMatrix current labels n pol o parts dropIn =
      .ok (parts.map (expectedMatrix labels (keptPositions n d1) o), d1) := by
  unfold getModelMatrix
  simp only [initialSet_eq, he]
  have hcongr : keptPositions n (sorted d1) = keptPositions n d1 :=
    keptPositions_congr n _ _ (mem_sorted d1)
  have hK : (keptPositions n (sorted d1)).length = n - (sorted d1).length := by
    rw [hcongr, length_sorted, length_keptPositions n d1 hn hd]
  rw [mapE_ok (buildModelMatrix current labels n o (sorted d1))
    (expectedMatrix labels (keptPositions n d1) o) parts]
  intro p hp
  rw [← hcongr]
  exact buildModelMatrix_current labels n o (sorted d1) p hl (fun f hf => (hwf p hp f hf).1) hK
    (by rw [length_sorted]; exact length_le_of_nodup n d1 hn hd)
    (fun i hi => hd i ((mem_sorted d1 i).1 hi))

theorem mem_allNulls_lt (n : Nat) (parts : List (Part ρ)) (hwf : WF n parts) :
    ∀ i ∈ allNulls parts, i < n := by
  intro i hi
  unfold allNulls at hi
  simp only [List.mem_flatMap] at hi
  obtain ⟨f, ⟨p, hp, hf⟩, hif⟩ := hi
  exact (hwf p hp f hf).2 i hif

theorem callerRows_ok (n : Nat) (c : Option DropSet) (h : CallerOK n c) :
    (callerRows c).Nodup ∧ ∀ i ∈ callerRows c, i < n := by
  cases c with
  | none => simp [callerRows]
  | some s => exact h

theorem route_current (c : CallRec) :
    route current c = if oneCall c then .joint c.caller else .perPart c.caller := by
  obtain ⟨e, s, ov, j, cl⟩ := c
  cases e <;> cases s <;> cases j <;> cases ov <;> rfl

theorem call_oneCall [DecidableEq L] (labels : List L) (n : Nat) (pol : Policy) (o : Output)
    (parts : List (Part ρ)) (c : CallRec) (h1 : oneCall c = true) :
    call current labels n pol o parts c =
      match getModelMatrix current labels n pol o parts c.caller with
      | .error e => .error e
      | .ok (ms, d1) => .ok ⟨ms, c.caller.map (fun _ => d1)⟩ := by
  unfold call
  rw [route_current, if_pos h1]
  simp only
  cases getModelMatrix current labels n pol o parts c.caller with
  | error e => rfl
  | ok r =>
    obtain ⟨ms, d1⟩ := r
    cases c.caller <;> rfl

theorem partNulls_allNulls (p : Part ρ) : allNulls [p] = partNulls p := by
  simp [allNulls, partNulls]

/-! ### one call per part -/

theorem allNulls_cons (p : Part ρ) (r : List (Part ρ)) :
    allNulls (p :: r) = partNulls p ++ allNulls r := by
  simp [allNulls, partNulls]

theorem perPartCalls_drop [DecidableEq L] (labels : List L) (n : Nat) (o : Output)
    (parts : List (Part ρ)) (d : Option DropSet) (hl : labels.length = n) (hwf : WF n parts)
    (hc : CallerOK n d) :
    perPartCalls current labels n .drop o parts d = .ok (perPartExpected labels n o parts d) := by
  induction parts generalizing d with
  | nil => rfl
  | cons p r ih =>
    have hwfp : WF n [p] := by
      intro q hq
      simp only [List.mem_singleton] at hq
      subst hq
      exact hwf q (by simp)
    have hwfr : WF n r := fun q hq => hwf q (by simp [hq])
    obtain ⟨hcn, hcr⟩ := callerRows_ok n d hc
    have hev : evalFactors .drop ([p].flatMap (·.factors)) (callerRows d)
        = .ok (setUpdate (callerRows d) (partNulls p)) := by
      rw [evalFactors_drop]
      simp [partNulls]
    have hn := nodup_setUpdate (partNulls p) (callerRows d) hcn
    have hd : ∀ i ∈ setUpdate (callerRows d) (partNulls p), i < n := by
      intro i hi
      rw [mem_setUpdate] at hi
      rcases hi with hi | hi
      · exact hcr i hi
      · have := mem_allNulls_lt n [p] hwfp i
        rw [partNulls_allNulls] at this
        exact this hi
    have hg := getModelMatrix_of_eval labels n .drop o [p] d _ hl hwfp hev hn hd
    have hc' : CallerOK n (carry d (setUpdate (callerRows d) (partNulls p))) := by
      cases d with
      | none => trivial
      | some s => exact ⟨hn, hd⟩
    unfold perPartCalls
    rw [hg]
    simp only [ih _ hwfr hc']
    rfl

theorem perPartExpected_none (labels : List L) (n : Nat) (o : Output) (parts : List (Part ρ)) :
    (perPartExpected labels n o parts none).2 = none ∧
    (perPartExpected labels n o parts none).1 =
      parts.map (fun p => expectedMatrix labels (keptPositions n (partNulls p)) o p) := by
  induction parts with
  | nil => exact ⟨rfl, rfl⟩
  | cons p r ih =>
    unfold perPartExpected
    simp only [carry, ih.1, ih.2, List.map_cons, callerRows]
    refine ⟨trivial, ?_⟩
    rw [keptPositions_congr n (setUpdate [] (partNulls p)) (partNulls p)
      (fun i => by rw [mem_setUpdate]; simp)]

theorem perPartExpected_some (labels : List L) (n : Nat) (o : Output) (parts : List (Part ρ))
    (s : DropSet) :
    ∃ s', (perPartExpected labels n o parts (some s)).2 = some s' ∧
      ∀ i, i ∈ s' ↔ i ∈ s ∨ i ∈ allNulls parts := by
  induction parts generalizing s with
  | nil => exact ⟨s, rfl, fun i => by simp [allNulls]⟩
  | cons p r ih =>
    obtain ⟨s', h1, h2⟩ := ih (setUpdate s (partNulls p))
    refine ⟨s', ?_, ?_⟩
    · unfold perPartExpected
      simpa [callerRows, carry] using h1
    · intro i
      rw [h2 i, mem_setUpdate, allNulls_cons, List.mem_append]
      tauto

/-! ### the legacy label-based drop -/

theorem labelsAt_eq (labels : List L) (d : List Nat) (hd : ∀ i ∈ d, i < labels.length) :
    labelsAt labels d = .ok (d.filterMap (fun i => labels[i]?)) := by
  induction d with
  | nil => rfl
  | cons i r ih =>
    have hi : i < labels.length := hd i (by simp)
    simp [labelsAt, List.getElem?_eq_getElem hi, ih (fun j hj => hd j (by simp [hj]))]

theorem filter_zip_eq_dropFrom [DecidableEq L] (bad : List L) (d : List Nat) (ls : List L)
    (ys : List ρ) (i : Nat) (hlen : ls.length = ys.length)
    (h : ∀ j (hj : j < ls.length), (ls[j] ∈ bad ↔ i + j ∈ d)) :
    ((ls.zip ys).filter (fun p => !(bad.contains p.1))).map (·.2) = dropFrom d i ys := by
  induction ls generalizing ys i with
  | nil =>
    cases ys with
    | nil => rfl
    | cons y t => simp at hlen
  | cons l r ih =>
    cases ys with
    | nil => simp at hlen
    | cons y t =>
      have h0 := h 0 (by simp)
      simp only [List.getElem_cons_zero, Nat.add_zero] at h0
      have ih' := ih t (i + 1) (by simpa using hlen) (fun j hj => by
        have := h (j + 1) (by simpa using hj)
        simpa [Nat.add_assoc, Nat.add_comm 1 j] using this)
      simp only [List.zip_cons_cons, List.filter_cons, dropFrom]
      by_cases hi : i ∈ d
      · have hb : l ∈ bad := h0.2 hi
        simpa [hb, hi] using ih'
      · have hb : l ∉ bad := fun hb => hi (h0.1 hb)
        simpa [hb, hi] using ih'

/-- With pairwise distinct labels the label-based drop of the legacy tree IS the positional drop. -/
theorem dropByLabel_eq_of_nodup [DecidableEq L] (labels : List L) (xs : List ρ) (d : List Nat)
    (hn : labels.Nodup) (hl : labels.length = xs.length) (hd : ∀ i ∈ d, i < xs.length) :
    dropByLabel labels xs d = .ok (rowsAt xs (keptPositions xs.length d)) := by
  unfold dropByLabel
  rw [labelsAt_eq labels d (by rw [hl]; exact hd)]
  simp only
  rw [filter_zip_eq_dropFrom (d.filterMap (fun i => labels[i]?)) d labels xs 0 hl, ← dropFilter_eq]
  · rfl
  · intro j hj
    rw [Nat.zero_add, List.mem_filterMap]
    constructor
    · rintro ⟨k, hk, hkj⟩
      have hkl : k < labels.length := by rw [hl]; exact hd k hk
      rw [List.getElem?_eq_getElem hkl] at hkj
      have : k = j := (List.Nodup.getElem_inj_iff hn).1 (Option.some.inj hkj)
      exact this ▸ hk
    · intro hjd
      exact ⟨j, hjd, List.getElem?_eq_getElem hj⟩

end FormulaicVerif.Proofs.C06
