import FormulaicVerif.Spec.Matrix
/-! Lemmas about ordered sets of scoped terms and `_simplify_scoped_terms` shared by C02 and C03. -/
namespace FormulaicVerif.Proofs.Scoped
open FormulaicVerif.Model FormulaicVerif.Spec

/-! ### membership through the ordered-set operations -/

theorem mem_osOfList_aux {xs acc : List ST} {x : ST}
    (h : x ∈ xs.foldl (fun acc x => if osMem acc x then acc else acc ++ [x]) acc) : x ∈ acc ∨ x ∈ xs := by
  induction xs generalizing acc with
  | nil => exact .inl h
  | cons y r ih =>
    simp only [List.foldl_cons] at h
    rcases ih h with h | h
    · split at h
      · exact .inl h
      · simp only [List.mem_append, List.mem_singleton] at h
        rcases h with h | h
        · exact .inl h
        · exact .inr (by simp [h])
    · exact .inr (by simp [h])

theorem mem_osOfList {xs : List ST} {x : ST} (h : x ∈ osOfList xs) : x ∈ xs := by
  rcases mem_osOfList_aux h with h | h
  · simp at h
  · exact h

theorem mem_osDiff {a b : List ST} {x : ST} (h : x ∈ osDiff a b) : x ∈ a :=
  (List.mem_filter.mp (mem_osOfList h)).1

theorem mem_osUnion {a b : List ST} {x : ST} (h : x ∈ osUnion a b) : x ∈ a ∨ x ∈ b :=
  List.mem_append.mp (mem_osOfList h)

theorem mem_insertByLen {x y : ST} {l : List ST} : y ∈ insertByLen x l ↔ y = x ∨ y ∈ l := by
  induction l with
  | nil => simp [insertByLen]
  | cons z r ih =>
    simp only [insertByLen]
    split
    · simp
    · simp only [List.mem_cons, ih]
      constructor
      · rintro (h | h | h)
        · exact .inr (.inl h)
        · exact .inl h
        · exact .inr (.inr h)
      · rintro (h | h | h)
        · exact .inr (.inl h)
        · exact .inl h
        · exact .inr (.inr h)

theorem insertByLen_perm (x : ST) (l : List ST) : (insertByLen x l).Perm (x :: l) := by
  induction l with
  | nil => exact List.Perm.refl _
  | cons z r ih =>
    simp only [insertByLen]
    split
    · exact List.Perm.refl _
    · exact ((ih.cons z).trans (List.Perm.swap x z r))

theorem sortByLen_perm (l : List ST) : (sortByLen l).Perm l := by
  induction l with
  | nil => exact List.Perm.refl _
  | cons x r ih =>
    simp only [sortByLen, List.foldr_cons]
    exact (insertByLen_perm x _).trans (ih.cons x)

theorem mem_sortByLen {l : List ST} {x : ST} : x ∈ sortByLen l ↔ x ∈ l := (sortByLen_perm l).mem_iff

theorem findMerge_mem {st : ST} {terms : List ST} {e : ST} {f : SF} (h : findMerge st terms = some (e, f)) :
    e ∈ terms ∧ mergeCandidate st e = some f := by
  induction terms with
  | nil => simp [findMerge] at h
  | cons x r ih =>
    simp only [findMerge] at h
    cases hm : mergeCandidate st x with
    | some g =>
      simp only [hm, Option.some.injEq, Prod.mk.injEq] at h
      obtain ⟨rfl, rfl⟩ := h
      exact ⟨by simp, hm⟩
    | none =>
      simp only [hm] at h
      obtain ⟨h1, h2⟩ := ih h
      exact ⟨by simp [h1], h2⟩

/-- any property of scoped terms that `mkFull` preserves is preserved by `_simplify_scoped_terms` -/
theorem simplifyLoop_all (P : ST → Prop) (hP : ∀ f st, P st → P (mkFull f st))
    (rec : List ST → Option (List ST))
    (hrec : ∀ arg r, rec arg = some r → (∀ st ∈ arg, P st) → ∀ st ∈ r, P st)
    (todo terms out : List ST) (h : simplifyLoop rec todo terms = some out)
    (h1 : ∀ st ∈ todo, P st) (h2 : ∀ st ∈ terms, P st) : ∀ st ∈ out, P st := by
  induction todo generalizing terms with
  | nil => simp [simplifyLoop] at h; subst h; exact h2
  | cons st rest ih =>
    simp only [simplifyLoop] at h
    cases hf : findMerge st terms with
    | none =>
      simp only [hf] at h
      apply ih _ h (fun s hs => h1 s (by simp [hs]))
      intro s hs
      rcases mem_osUnion hs with hs | hs
      · exact h2 s hs
      · simp only [List.mem_singleton] at hs; subst hs; exact h1 _ (by simp)
    | some ef =>
      obtain ⟨e, f⟩ := ef
      simp only [hf] at h
      cases hr : rec (osUnion (osDiff terms [e]) [mkFull f st]) with
      | none => simp [hr] at h
      | some terms' =>
        simp only [hr] at h
        apply ih _ h (fun s hs => h1 s (by simp [hs]))
        apply hrec _ _ hr
        intro s hs
        rcases mem_osUnion hs with hs | hs
        · exact h2 s (mem_osDiff hs)
        · simp only [List.mem_singleton] at hs; subst hs; exact hP _ _ (h1 _ (by simp))

theorem simplify_all (P : ST → Prop) (hP : ∀ f st, P st → P (mkFull f st)) :
    ∀ (n : Nat) (sts r : List ST), simplify n sts = some r → (∀ st ∈ sts, P st) → ∀ st ∈ r, P st := by
  intro n
  induction n with
  | zero => intro sts r h; simp [simplify] at h
  | succ n ih =>
    intro sts r h hs
    simp only [simplify] at h
    exact simplifyLoop_all P hP (simplify n) ih _ _ _ h (fun s hs' => hs s (mem_sortByLen.mp hs')) (by simp)

theorem mkFull_scale (f : SF) (st : ST) : (mkFull f st).scale = st.scale := rfl

theorem spannedBy_scale {efs : List EvaledFactor} {st : ST} (h : st ∈ spannedBy efs) : st.scale = scaleOf efs := by
  have := mem_osOfList h
  simp only [List.mem_map] at this
  obtain ⟨fs, _, rfl⟩ := this
  rfl
end FormulaicVerif.Proofs.Scoped
