import FormulaicVerif.Model.Parser
import FormulaicVerif.Proofs.C14
import FormulaicVerif.Props.C01
import FormulaicVerif.Spec.Wilkinson
/-! C14, general statement for parsers without the multistage feature: no internal exception is
reachable from any token list.

Route: (1) a syntactic predicate `Shape` on trees (every operator is a known operator of the table
with exactly `arity` arguments; below a non-structural operator there are only non-structural
operators and leaves; the multistage `~` does not occur); (2) `Shape` is an invariant of the
index-based shunting-yard, for every operator table whose candidate groups are of the documented
kinds (`TabOk`); (3) evaluation of a `Shape` tree never returns `.internal`. -/
namespace FormulaicVerif.Proofs.C14General
open FormulaicVerif FormulaicVerif.Model

/-! ### operator classes -/

/-- a non-structural operator `applyPlain` knows, with the arity it knows it for -/
def KnownPlain (o : OpSpec) : Prop :=
  o.structural = false ∧ o.ctx = .always ∧ 100 ≤ o.prec ∧
  ((o.fixity = .infix ∧ o.arity = 2 ∧ o.symbol ∈ ["+", "-", "*", "/", "in", ":", "**", "^"]) ∨
   (o.fixity = .prefix ∧ o.arity = 1 ∧ o.symbol ∈ ["+", "-"]) ∨
   (o.fixity = .postfix ∧ o.arity = 0 ∧ o.symbol = "."))

/-- the two-sided `~` -/
def IsTildeI (o : OpSpec) : Prop :=
  o.symbol = "~" ∧ o.fixity = .infix ∧ o.arity = 2 ∧ o.prec = -100 ∧ o.assoc = .none ∧
    o.structural = true ∧ o.ctx = .emptyCtx

/-- the one-sided `~` -/
def IsTildeP (o : OpSpec) : Prop :=
  o.symbol = "~" ∧ o.fixity = .prefix ∧ o.arity = 1 ∧ o.prec = -100 ∧ o.assoc = .none ∧
    o.structural = true ∧ o.ctx = .emptyCtx

/-- the multi-part `|` -/
def IsBar (o : OpSpec) : Prop :=
  o.symbol = "|" ∧ o.fixity = .infix ∧ o.arity = 2 ∧ o.prec = -50 ∧ o.assoc = .none ∧
    o.structural = true ∧ o.ctx = .allTildeBar

def IsTilde (o : OpSpec) : Prop := IsTildeI o ∨ IsTildeP o
def StructOp (o : OpSpec) : Prop := IsTilde o ∨ IsBar o

theorem KnownPlain.ns {o : OpSpec} (h : KnownPlain o) : o.structural = false := h.1
theorem KnownPlain.prec {o : OpSpec} (h : KnownPlain o) : 100 ≤ o.prec := h.2.2.1

theorem StructOp.st {o : OpSpec} (h : StructOp o) : o.structural = true := by
  rcases h with (h | h) | h
  · exact h.2.2.2.2.2.1
  · exact h.2.2.2.2.2.1
  · exact h.2.2.2.2.2.1

theorem StructOp.prec_le {o : OpSpec} (h : StructOp o) : o.prec ≤ -50 := by
  rcases h with (h | h) | h
  · have := h.2.2.2.1; omega
  · have := h.2.2.2.1; omega
  · have := h.2.2.2.1; omega

theorem IsTilde.prec {o : OpSpec} (h : IsTilde o) : o.prec = -100 := by
  rcases h with h | h
  · exact h.2.2.2.1
  · exact h.2.2.2.1

theorem IsTilde.assoc {o : OpSpec} (h : IsTilde o) : o.assoc = .none := by
  rcases h with h | h
  · exact h.2.2.2.2.1
  · exact h.2.2.2.2.1

theorem not_plain_struct {o : OpSpec} (h1 : KnownPlain o) (h2 : StructOp o) : False := by
  have := h1.ns; rw [h2.st] at this; cases this

/-- every operator of these classes takes `arity = 2` arguments when infix -/
theorem infix_arity {o : OpSpec} (h : KnownPlain o ∨ StructOp o) (hf : o.fixity = .infix) : o.arity = 2 := by
  rcases h with h | (h | h) | h
  · rcases h.2.2.2 with h | h | h
    · exact h.2.1
    · rw [h.1] at hf; cases hf
    · rw [h.1] at hf; cases hf
  · exact h.2.2.1
  · rw [h.2.1] at hf; cases hf
  · exact h.2.2.1

/-! ### the shape of trees -/

/-- only known non-structural operators (with exactly `arity` arguments) and leaves -/
inductive PlainT : Ast → Prop
  | leaf (t : Tok) : PlainT (.leaf t)
  | node (o : OpSpec) (args : List Ast) : KnownPlain o → args.length = o.arity →
      (∀ a ∈ args, PlainT a) → PlainT (.node o args)

/-- `PlainT`, or a structural operator (`~` two-sided / one-sided, `|`; never the multistage `~`)
with exactly `arity` arguments, each of which has the shape again: a structural operator never
occurs below a non-structural one -/
inductive Shape : Ast → Prop
  | plain {a : Ast} : PlainT a → Shape a
  | struct (o : OpSpec) (args : List Ast) : StructOp o → args.length = o.arity →
      (∀ a ∈ args, Shape a) → Shape (.node o args)

/-! ### `operate` -/

theorem operate_spec (o : OpSpec) (i : Nat) (out out' : List Ast) (h : operate o i out = .ok out') :
    ∃ lo hi, hi ≤ out.length ∧
      out' = out.take lo ++ [Ast.node o ((out.drop lo).take (hi - lo))] ++ out.drop hi ∧
      ((o.fixity = .infix ∧ 1 ≤ i ∧ lo = i - 1 ∧ hi = i + 1) ∨
       (o.fixity = .prefix ∧ lo = i ∧ hi = i + o.arity) ∨
       (o.fixity = .postfix ∧ o.arity ≤ i ∧ lo = i - o.arity ∧ hi = i)) := by
  unfold operate at h
  cases hf : o.fixity with
  | «infix» =>
    rw [hf] at h
    simp only at h
    split at h
    · cases h
    · rename_i hc
      injection h with h
      simp only [Bool.or_eq_true, decide_eq_true_eq, not_or, Nat.not_lt] at hc
      exact ⟨i - 1, i + 1, by omega, h.symm, Or.inl ⟨rfl, hc.1, rfl, rfl⟩⟩
  | «prefix» =>
    rw [hf] at h
    simp only at h
    split at h
    · cases h
    · rename_i hc
      injection h with h
      simp only [Bool.false_or, decide_eq_true_eq, Nat.not_lt] at hc
      exact ⟨i, i + o.arity, by omega, h.symm, Or.inr (Or.inl ⟨rfl, rfl, rfl⟩)⟩
  | «postfix» =>
    rw [hf] at h
    simp only at h
    split at h
    · cases h
    · rename_i hc
      injection h with h
      simp only [Bool.or_eq_true, decide_eq_true_eq, not_or, Nat.not_lt] at hc
      exact ⟨i - o.arity, i, by omega, h.symm, Or.inr (Or.inr ⟨rfl, hc.1, rfl, rfl⟩)⟩

/-- where the lowest argument of a stack entry lies -/
def loOf (o : OpSpec) (i : Nat) : Nat :=
  match o.fixity with
  | .infix => i - 1
  | .prefix => i
  | .postfix => i - o.arity

theorem loOf_le (o : OpSpec) (i : Nat) : loOf o i ≤ i := by
  unfold loOf; split <;> omega

/-- `operate` in terms of `loOf`, with the number of arguments taken -/
theorem operate_spec' (o : OpSpec) (i : Nat) (out out' : List Ast)
    (hk : KnownPlain o ∨ StructOp o) (h : operate o i out = .ok out') :
    ∃ hi, loOf o i ≤ hi ∧ hi ≤ out.length ∧ hi - loOf o i = o.arity ∧
      out' = out.take (loOf o i) ++ [Ast.node o ((out.drop (loOf o i)).take (hi - loOf o i))] ++ out.drop hi := by
  obtain ⟨lo, hi, h1, h2, h3⟩ := operate_spec o i out out' h
  rcases h3 with ⟨hf, hi1, hlo, hhi⟩ | ⟨hf, hlo, hhi⟩ | ⟨hf, ha, hlo, hhi⟩
  · have har := infix_arity hk hf
    have : loOf o i = lo := by unfold loOf; rw [hf]; exact hlo.symm
    rw [this]
    exact ⟨hi, by omega, h1, by omega, h2⟩
  · have : loOf o i = lo := by unfold loOf; rw [hf]; exact hlo.symm
    rw [this]
    exact ⟨hi, by omega, h1, by omega, h2⟩
  · have : loOf o i = lo := by unfold loOf; rw [hf]; exact hlo.symm
    rw [this]
    exact ⟨hi, by omega, h1, by omega, h2⟩

def AllShape (out : List Ast) : Prop := ∀ a ∈ out, Shape a

/-- the output queue: everything has the shape, everything from position `B` on is plain -/
def OutInv (B : Nat) (out : List Ast) : Prop :=
  AllShape out ∧ (∀ a ∈ out.drop B, PlainT a) ∧ B ≤ out.length

theorem length_args (out : List Ast) (lo hi : Nat) (h1 : lo ≤ hi) (h2 : hi ≤ out.length) :
    ((out.drop lo).take (hi - lo)).length = hi - lo := by
  simp only [List.length_take, List.length_drop]; omega

theorem operate_struct (o : OpSpec) (i : Nat) (out out' : List Ast) (ho : StructOp o)
    (h : AllShape out) (hr : operate o i out = .ok out') : AllShape out' := by
  obtain ⟨hi, h1, h2, h3, h4⟩ := operate_spec' o i out out' (Or.inr ho) hr
  subst h4
  intro a ha
  simp only [List.mem_append, List.mem_cons, List.mem_nil_iff, or_false] at ha
  rcases ha with (ha | ha) | ha
  · exact h a (List.mem_of_mem_take ha)
  · subst ha
    refine Shape.struct o _ ho ?_ ?_
    · rw [length_args out _ hi h1 h2]; exact h3
    · intro b hb; exact h b (List.mem_of_mem_drop (List.mem_of_mem_take hb))
  · exact h a (List.mem_of_mem_drop ha)

theorem mem_drop_of_le {α} (l : List α) (m n : Nat) (h : m ≤ n) (a : α) (ha : a ∈ l.drop n) : a ∈ l.drop m := by
  have : l.drop n = (l.drop m).drop (n - m) := by
    rw [List.drop_drop]; congr 1; omega
  rw [this] at ha
  exact List.mem_of_mem_drop ha

theorem operate_plain (o : OpSpec) (i B : Nat) (out out' : List Ast) (ho : KnownPlain o)
    (hB : B ≤ loOf o i) (h : OutInv B out) (hr : operate o i out = .ok out') : OutInv B out' := by
  obtain ⟨hs, hp, hl⟩ := h
  obtain ⟨hi, h1, h2, h3, h4⟩ := operate_spec' o i out out' (Or.inl ho) hr
  have hnode : PlainT (Ast.node o ((out.drop (loOf o i)).take (hi - loOf o i))) := by
    refine PlainT.node o _ ho ?_ ?_
    · rw [length_args out _ hi h1 h2]; exact h3
    · intro b hb
      exact hp b (mem_drop_of_le out B _ hB b (List.mem_of_mem_take hb))
  subst h4
  refine ⟨?_, ?_, ?_⟩
  · intro a ha
    simp only [List.mem_append, List.mem_cons, List.mem_nil_iff, or_false] at ha
    rcases ha with (ha | ha) | ha
    · exact hs a (List.mem_of_mem_take ha)
    · subst ha; exact Shape.plain hnode
    · exact hs a (List.mem_of_mem_drop ha)
  · intro a ha
    have hlen : (out.take (loOf o i)).length = loOf o i := by
      rw [List.length_take]; omega
    rw [List.append_assoc, List.drop_append, hlen] at ha
    simp only [List.mem_append] at ha
    rcases ha with ha | ha
    · rw [List.drop_take] at ha
      exact hp a (List.mem_of_mem_take ha)
    · have ha' := List.mem_of_mem_drop ha
      simp only [List.cons_append, List.nil_append, List.mem_cons] at ha'
      rcases ha' with ha' | ha'
      · subst ha'; exact hnode
      · exact hp a (mem_drop_of_le out B hi (by omega) a ha')
  · simp only [List.length_append, List.length_take, List.length_cons, List.length_nil, List.length_drop]
    omega

/-! ### the stack -/

def EntryOk (B : Nat) : SEntry → Prop
  | .ctx _ i => B ≤ i
  | .op o i => (KnownPlain o ∧ B ≤ loOf o i) ∨ (StructOp o ∧ B ≤ i)

def isStructE : SEntry → Prop
  | .ctx _ _ => False
  | .op o _ => o.structural = true

/-- structural operators have only structural operators beneath them (top of stack first) -/
def SOrd : List SEntry → Prop
  | [] => True
  | e :: rest => (isStructE e → ∀ e' ∈ rest, isStructE e') ∧ SOrd rest

/-- `B` is 0, or the index of a `~` at the bottom of the stack -/
def Bot (B : Nat) (stk : List SEntry) : Prop :=
  B = 0 ∨ ∃ o, stk.getLast? = some (.op o B) ∧ IsTilde o

def StackInv (B : Nat) (stk : List SEntry) : Prop :=
  (∀ e ∈ stk, EntryOk B e) ∧ SOrd stk ∧ Bot B stk

def Inv (B : Nat) (s : ShState) : Prop := OutInv B s.out ∧ StackInv B s.stack

theorem entry_idx_ge {B : Nat} {e : SEntry} (h : EntryOk B e) : B ≤ e.idx := by
  cases e with
  | ctx c i => exact h
  | op o i =>
    rcases h with ⟨_, h⟩ | ⟨_, h⟩
    · exact Nat.le_trans h (loOf_le o i)
    · exact h

theorem bot_cons {B : Nat} {stk : List SEntry} (e : SEntry) (h : Bot B stk) : Bot B (e :: stk) := by
  rcases h with h | ⟨o, h, ht⟩
  · exact Or.inl h
  · right
    refine ⟨o, ?_, ht⟩
    cases stk with
    | nil => simp at h
    | cons x xs => rw [List.getLast?_cons_cons]; exact h

theorem bot_tail {B : Nat} {e : SEntry} {stk : List SEntry} (h : Bot B (e :: stk))
    (hne : ∀ o i, e = .op o i → ¬ IsTilde o) : Bot B stk := by
  rcases h with h | ⟨o, h, ht⟩
  · exact Or.inl h
  · right
    cases stk with
    | nil =>
      simp only [List.getLast?_singleton, Option.some.injEq] at h
      exact absurd ht (hne o B h)
    | cons x xs => rw [List.getLast?_cons_cons] at h; exact ⟨o, h, ht⟩

theorem stackInv_tail {B : Nat} {e : SEntry} {stk : List SEntry} (h : StackInv B (e :: stk))
    (hne : ∀ o i, e = .op o i → ¬ IsTilde o) : StackInv B stk :=
  ⟨fun x hx => h.1 x (List.mem_cons_of_mem _ hx), h.2.1.2, bot_tail h.2.2 hne⟩

theorem plain_not_tilde {o : OpSpec} (h : KnownPlain o) : ¬ IsTilde o :=
  fun ht => not_plain_struct h (Or.inl ht)

/-- a structural entry on top: the whole stack consists of operators (no bracket) -/
theorem struct_top_noctx {o : OpSpec} {i : Nat} {stk : List SEntry} (hs : SOrd (.op o i :: stk))
    (ho : o.structural = true) : ∀ e ∈ SEntry.op o i :: stk, ∃ o' i', e = .op o' i' := by
  intro e he
  rcases List.mem_cons.mp he with rfl | he
  · exact ⟨_, _, rfl⟩
  · have := hs.1 ho e he
    cases e with
    | ctx c j => exact absurd this (by simp [isStructE])
    | op o' j => exact ⟨_, _, rfl⟩

/-! ### `popWhile` -/

/-- the candidate never pops a structural operator -/
def NoPopStruct (c : OpSpec) : Prop := ∀ o, StructOp o → popCond o c = false

theorem noPop_plain {c : OpSpec} (h : KnownPlain c) : NoPopStruct c := by
  intro o ho
  have h1 := ho.prec_le
  have h2 := h.prec
  unfold popCond
  have a : ¬ (o.prec > c.prec) := by omega
  have b : ¬ (o.prec = c.prec) := by omega
  simp [a, b]

theorem noPop_bar {c : OpSpec} (h : IsBar c) : NoPopStruct c := by
  intro o ho
  have h1 := ho.prec_le
  have h2 : c.prec = -50 := h.2.2.2.1
  have h3 : c.assoc = .none := h.2.2.2.2.1
  unfold popCond
  have a : ¬ (o.prec > c.prec) := by omega
  simp [a, h3]

theorem popWhile_keep (c : OpSpec) (B : Nat) (hc : NoPopStruct c) :
    ∀ (stk : List SEntry) (out : List Ast) (s' : ShState),
      OutInv B out → StackInv B stk → popWhile c out stk = .ok s' → Inv B s' := by
  intro stk
  induction stk with
  | nil => intro out s' h1 h2 h; simp [popWhile] at h; subst h; exact ⟨h1, h2⟩
  | cons en stk ih =>
    intro out s' h1 h2 h
    cases en with
    | ctx ch i => simp [popWhile] at h; subst h; exact ⟨h1, h2⟩
    | op o i =>
      unfold popWhile at h
      split at h
      · rename_i hpc
        cases hop : operate o i out with
        | error e => rw [hop] at h; cases h
        | ok out' =>
          rw [hop] at h
          rcases h2.1 (.op o i) (by simp) with ⟨hk, hB⟩ | ⟨hk, _⟩
          · have hne : ∀ o' i', SEntry.op o i = .op o' i' → ¬ IsTilde o' := by
              intro o' i' he; injection he with he _; subst he; exact plain_not_tilde hk
            exact ih out' s' (operate_plain o i B out out' hk hB h1 hop) (stackInv_tail h2 hne) h
          · rw [hc o hk] at hpc; cases hpc
      · injection h with h; subst h; exact ⟨h1, h2⟩

/-- after the pops for a `|` candidate on a stack without brackets, only structural operators remain -/
theorem popWhile_bar_struct (c : OpSpec) (B : Nat) (hc : IsBar c) :
    ∀ (stk : List SEntry) (out : List Ast) (s' : ShState),
      StackInv B stk → (∀ e ∈ stk, ∃ o i, e = .op o i) → popWhile c out stk = .ok s' →
      ∀ e ∈ s'.stack, isStructE e := by
  intro stk
  induction stk with
  | nil => intro out s' _ _ h; simp [popWhile] at h; subst h; intro e he; cases he
  | cons en stk ih =>
    intro out s' h2 hn h
    cases en with
    | ctx ch i => obtain ⟨o, j, he⟩ := hn (.ctx ch i) (by simp); cases he
    | op o i =>
      unfold popWhile at h
      split at h
      · cases hop : operate o i out with
        | error e => rw [hop] at h; cases h
        | ok out' =>
          rw [hop] at h
          have h2' : StackInv B stk :=
            ⟨fun x hx => h2.1 x (List.mem_cons_of_mem _ hx), h2.2.1.2, by
              -- `Bot` is only used through `EntryOk`/`SOrd` below; re-establish it when the popped entry is no `~`
              rcases h2.2.2 with hb | ⟨t, hb, ht⟩
              · exact Or.inl hb
              · cases stk with
                | nil =>
                  -- the popped entry is the `~` itself: impossible, `|` does not pop `~`
                  simp only [List.getLast?_singleton, Option.some.injEq] at hb
                  injection hb with hb1 hb2
                  subst hb1
                  rename_i hpc
                  rw [noPop_bar hc o (Or.inl ht)] at hpc; cases hpc
                | cons x xs => rw [List.getLast?_cons_cons] at hb; exact Or.inr ⟨t, hb, ht⟩⟩
          exact ih out' s' h2' (fun e he => hn e (List.mem_cons_of_mem _ he)) h
      · rename_i hpc
        injection h with h; subst h
        have hst : o.structural = true := by
          rcases h2.1 (.op o i) (by simp) with ⟨hk, _⟩ | ⟨hk, _⟩
          · exfalso
            apply hpc
            have h1 := hk.prec
            have h3 : c.prec = -50 := hc.2.2.2.1
            unfold popCond
            have : o.prec > c.prec := by omega
            simp [this]
          · exact hk.st
        intro e he
        rcases List.mem_cons.mp he with rfl | he
        · exact hst
        · exact h2.2.1.1 hst e he

/-- all entries are `|` operators -/
def AllBars (stk : List SEntry) : Prop := ∀ e ∈ stk, ∃ o i, e = .op o i ∧ IsBar o

theorem popCond_tilde {o c : OpSpec} (hc : IsTilde c) (ho : KnownPlain o ∨ IsBar o) : popCond o c = true := by
  have h1 := hc.prec
  unfold popCond
  have : o.prec > c.prec := by
    rcases ho with ho | ho
    · have := ho.prec; omega
    · have : o.prec = -50 := ho.2.2.2.1; omega
  simp [this]

theorem popWhile_tilde_bars (c : OpSpec) (hc : IsTilde c) :
    ∀ (stk : List SEntry) (out : List Ast) (s' : ShState),
      AllShape out → AllBars stk → popWhile c out stk = .ok s' → s'.stack = [] ∧ AllShape s'.out := by
  intro stk
  induction stk with
  | nil => intro out s' h1 _ h; simp [popWhile] at h; subst h; exact ⟨rfl, h1⟩
  | cons en stk ih =>
    intro out s' h1 h2 h
    obtain ⟨o, i, he, hb⟩ := h2 en (by simp)
    subst he
    unfold popWhile at h
    rw [popCond_tilde hc (Or.inr hb)] at h
    simp only [if_true] at h
    cases hop : operate o i out with
    | error e => rw [hop] at h; cases h
    | ok out' =>
      rw [hop] at h
      exact ih out' s' (operate_struct o i out out' (Or.inr hb) h1 hop)
        (fun e he => h2 e (List.mem_cons_of_mem _ he)) h

/-- the pops for a `~` candidate accepted by its context (no bracket, no `~` on the stack) empty the stack -/
theorem popWhile_tilde (c : OpSpec) (hc : IsTilde c) :
    ∀ (stk : List SEntry) (out : List Ast) (s' : ShState),
      OutInv 0 out → StackInv 0 stk → (∀ e ∈ stk, ∃ o i, e = .op o i ∧ ¬ IsTilde o) →
      popWhile c out stk = .ok s' → s'.stack = [] ∧ AllShape s'.out := by
  intro stk
  induction stk with
  | nil => intro out s' h1 _ _ h; simp [popWhile] at h; subst h; exact ⟨rfl, h1.1⟩
  | cons en stk ih =>
    intro out s' h1 h2 hn h
    obtain ⟨o, i, he, hnt⟩ := hn en (by simp)
    subst he
    rcases h2.1 (.op o i) (by simp) with ⟨hk, hB⟩ | ⟨hk, _⟩
    · unfold popWhile at h
      rw [popCond_tilde hc (Or.inl hk)] at h
      simp only [if_true] at h
      cases hop : operate o i out with
      | error e => rw [hop] at h; cases h
      | ok out' =>
        rw [hop] at h
        have hne : ∀ o' i', SEntry.op o i = .op o' i' → ¬ IsTilde o' := by
          intro o' i' he; injection he with he _; subst he; exact hnt
        exact ih out' s' (operate_plain o i 0 out out' hk hB h1 hop) (stackInv_tail h2 hne)
          (fun e he => hn e (List.mem_cons_of_mem _ he)) h
    · -- a `|` on top: everything beneath is structural and not `~`, hence `|`
      have hbars : AllBars (.op o i :: stk) := by
        intro e he
        have hstr : isStructE e := by
          rcases List.mem_cons.mp he with rfl | he'
          · exact hk.st
          · exact h2.2.1.1 hk.st e he'
        obtain ⟨o', i', he', hnt'⟩ := hn e he
        subst he'
        refine ⟨o', i', rfl, ?_⟩
        rcases h2.1 _ he with ⟨hk', _⟩ | ⟨hk', _⟩
        · have := hk'.ns; rw [hstr] at this; cases this
        · rcases hk' with hk' | hk'
          · exact absurd hk' hnt'
          · exact hk'
      exact popWhile_tilde_bars c hc _ out s' h1.1 hbars h

/-! ### context acceptance -/

theorem accepts_empty {c : OpSpec} {stk : List SEntry} (hctx : c.ctx = .emptyCtx)
    (h : acceptsContext c stk = true) : ∀ e ∈ stk, ∃ o i, e = .op o i ∧ ¬ (o.prec ≤ c.prec) := by
  unfold acceptsContext at h
  simp only [hctx, List.isEmpty_iff, List.filter_eq_nil_iff, List.mem_reverse] at h
  intro e he
  have := h e he
  cases e with
  | ctx ch i => simp at this
  | op o i => exact ⟨o, i, rfl, by simpa using this⟩

theorem accepts_bar {c : OpSpec} {stk : List SEntry} (hctx : c.ctx = .allTildeBar)
    (h : acceptsContext c stk = true) : ∀ e ∈ stk, ∃ o i, e = .op o i := by
  unfold acceptsContext at h
  simp only [hctx, List.all_eq_true, List.mem_filter, List.mem_reverse] at h
  intro e he
  cases e with
  | ctx ch i => have := h (.ctx ch i) ⟨he, rfl⟩; simp at this
  | op o i => exact ⟨o, i, rfl⟩

/-! ### `tryCands` -/

def maxPostOf (s : ShState) : Nat :=
  match s.stack with
  | e :: _ => s.out.length - e.idx
  | [] => s.out.length

theorem tryCands_cons_ok (c : OpSpec) (cs : List OpSpec) (s s' : ShState)
    (h : tryCands (c :: cs) s = .ok s') :
    tryCands cs s = .ok s' ∨
    (acceptsContext c s.stack = true ∧ c.disabled = false ∧ ∃ s1, popWhile c s.out s.stack = .ok s1 ∧
      ((validHere c (maxPostOf s1) = true ∧ s' = { s1 with stack := .op c s1.out.length :: s1.stack }) ∨
        tryCands cs s1 = .ok s')) := by
  unfold tryCands at h
  by_cases hacc : acceptsContext c s.stack = true
  · by_cases hd : c.disabled = true
    · simp only [hacc, hd, Bool.not_true, Bool.false_eq_true, if_false, if_true] at h
      exact Or.inl h
    · have hd' : c.disabled = false := by simpa using hd
      simp only [hacc, hd', Bool.not_true, Bool.false_eq_true, if_false] at h
      right
      refine ⟨hacc, hd', ?_⟩
      cases hp : popWhile c s.out s.stack with
      | error e => rw [hp] at h; cases h
      | ok s1 =>
        rw [hp] at h
        refine ⟨s1, rfl, ?_⟩
        simp only at h
        change (if validHere c (maxPostOf s1) = true then _ else _) = _ at h
        by_cases hv : validHere c (maxPostOf s1) = true
        · left
          rw [if_pos hv] at h
          injection h with h
          exact ⟨hv, h.symm⟩
        · right
          rw [if_neg hv] at h
          exact h
  · have : (!acceptsContext c s.stack) = true := by simpa using hacc
    rw [if_pos this] at h
    exact Or.inl h

/-- candidate kinds of the "plain" groups -/
def CandPB (c : OpSpec) : Prop := KnownPlain c ∨ IsBar c ∨ c.disabled = true
/-- candidate kinds of the `~` group -/
def CandT (c : OpSpec) : Prop := IsTilde c ∨ c.disabled = true

theorem valid_infix {c : OpSpec} {m : Nat} (hf : c.fixity = .infix) (ha : c.arity = 2)
    (h : validHere c m = true) : m = 1 := by
  unfold validHere at h
  simp [hf, ha] at h
  exact h

theorem push_plain {c : OpSpec} {B : Nat} {s1 : ShState} (hk : KnownPlain c) (hi : Inv B s1)
    (hv : validHere c (maxPostOf s1) = true) :
    Inv B { s1 with stack := .op c s1.out.length :: s1.stack } := by
  obtain ⟨ho, hs⟩ := hi
  refine ⟨ho, ?_, ⟨fun hst => ?_, hs.2.1⟩, bot_cons _ hs.2.2⟩
  · intro e he
    rcases List.mem_cons.mp he with rfl | he
    · left
      refine ⟨hk, ?_⟩
      unfold loOf
      rcases hk.2.2.2 with ⟨hf, ha, _⟩ | ⟨hf, ha, _⟩ | ⟨hf, ha, _⟩
      · rw [hf]
        have hm := valid_infix hf ha hv
        unfold maxPostOf at hm
        cases hstk : s1.stack with
        | nil =>
          rw [hstk] at hm
          simp only at hm
          rcases hs.2.2 with hb | ⟨t, hb, _⟩
          · omega
          · rw [hstk] at hb; simp at hb
        | cons e rest =>
          rw [hstk] at hm
          simp only at hm
          have := entry_idx_ge (hs.1 e (by rw [hstk]; simp))
          show B ≤ s1.out.length - 1
          omega
      · rw [hf]; exact ho.2.2
      · rw [hf, ha]; exact ho.2.2
    · exact hs.1 e he
  · have := hk.ns
    simp only [isStructE] at hst
    rw [hst] at this; cases this

theorem push_bar {c : OpSpec} {B : Nat} {s1 : ShState} (hk : IsBar c) (hi : Inv B s1)
    (hall : ∀ e ∈ s1.stack, isStructE e) :
    Inv B { s1 with stack := .op c s1.out.length :: s1.stack } := by
  obtain ⟨ho, hs⟩ := hi
  refine ⟨ho, ?_, ⟨fun _ => hall, hs.2.1⟩, bot_cons _ hs.2.2⟩
  intro e he
  rcases List.mem_cons.mp he with rfl | he
  · exact Or.inr ⟨Or.inr hk, ho.2.2⟩
  · exact hs.1 e he

theorem tryCands_PB (B : Nat) (cs : List OpSpec) : ∀ (s s' : ShState),
    (∀ c ∈ cs, CandPB c) → Inv B s → tryCands cs s = .ok s' → Inv B s' := by
  induction cs with
  | nil => intro s s' _ _ h; simp [tryCands] at h
  | cons c cs ih =>
    intro s s' hc hi h
    have hcs : ∀ c' ∈ cs, CandPB c' := fun c' h' => hc c' (List.mem_cons_of_mem _ h')
    rcases tryCands_cons_ok c cs s s' h with h | ⟨hacc, hd, s1, hp, h⟩
    · exact ih s s' hcs hi h
    · rcases hc c (by simp) with hk | hk | hk
      · have hi1 := popWhile_keep c B (noPop_plain hk) s.stack s.out s1 hi.1 hi.2 hp
        rcases h with ⟨hv, h⟩ | h
        · subst h; exact push_plain hk hi1 hv
        · exact ih s1 s' hcs hi1 h
      · have hi1 := popWhile_keep c B (noPop_bar hk) s.stack s.out s1 hi.1 hi.2 hp
        have hnc := accepts_bar hk.2.2.2.2.2.2 hacc
        have hall := popWhile_bar_struct c B hk s.stack s.out s1 hi.2 hnc hp
        rcases h with ⟨hv, h⟩ | h
        · subst h; exact push_bar hk hi1 hall
        · exact ih s1 s' hcs hi1 h
      · rw [hk] at hd; cases hd

/-- intermediate state while the candidates of a `~` token are tried: the stack has been emptied -/
def Limbo (s : ShState) : Prop := s.stack = [] ∧ AllShape s.out

theorem push_tilde {c : OpSpec} {s1 : ShState} (hk : IsTilde c) (hl : Limbo s1) :
    Inv s1.out.length { s1 with stack := .op c s1.out.length :: s1.stack } := by
  obtain ⟨h1, h2⟩ := hl
  refine ⟨⟨h2, ?_, Nat.le_refl _⟩, ?_, ?_, ?_⟩
  · intro a ha; simp at ha
  · intro e he
    rw [h1] at he
    simp only [List.mem_singleton] at he
    subst he
    exact Or.inr ⟨Or.inl hk, Nat.le_refl _⟩
  · rw [h1]; exact ⟨fun _ e he => (by cases he), trivial⟩
  · right; exact ⟨c, by rw [h1]; rfl, hk⟩

theorem tilde_ctx {c : OpSpec} (h : IsTilde c) : c.ctx = .emptyCtx := by
  rcases h with h | h
  · exact h.2.2.2.2.2.2
  · exact h.2.2.2.2.2.2

theorem tryCands_T (cs : List OpSpec) : ∀ (s s' : ShState),
    (∀ c ∈ cs, CandT c) → ((∃ B, Inv B s) ∨ Limbo s) → tryCands cs s = .ok s' → ∃ B', Inv B' s' := by
  induction cs with
  | nil => intro s s' _ _ h; simp [tryCands] at h
  | cons c cs ih =>
    intro s s' hc hi h
    have hcs : ∀ c' ∈ cs, CandT c' := fun c' h' => hc c' (List.mem_cons_of_mem _ h')
    rcases tryCands_cons_ok c cs s s' h with h | ⟨hacc, hd, s1, hp, h⟩
    · exact ih s s' hcs hi h
    · rcases hc c (by simp) with hk | hk
      · have hl1 : Limbo s1 := by
          have hne := accepts_empty (tilde_ctx hk) hacc
          rcases hi with ⟨B, hi⟩ | hi
          · have hnt : ∀ e ∈ s.stack, ∃ o i, e = .op o i ∧ ¬ IsTilde o := by
              intro e he
              obtain ⟨o, i, he', hp'⟩ := hne e he
              refine ⟨o, i, he', fun ht => hp' ?_⟩
              rw [ht.prec, hk.prec]; exact Int.le_refl _
            have hB : B = 0 := by
              rcases hi.2.2.2 with hb | ⟨t, hb, ht⟩
              · exact hb
              · obtain ⟨o, i, he', hnt'⟩ := hnt _ (List.mem_of_getLast? hb)
                injection he' with he1 _
                subst he1
                exact absurd ht hnt'
            subst hB
            exact popWhile_tilde c hk s.stack s.out s1 hi.1 hi.2 hnt hp
          · obtain ⟨h1, h2⟩ := hi
            rw [h1] at hp
            simp only [popWhile] at hp
            injection hp with hp
            subst hp
            exact ⟨rfl, h2⟩
        rcases h with ⟨hv, h⟩ | h
        · subst h; exact ⟨_, push_tilde hk hl1⟩
        · exact ih s1 s' hcs (Or.inr hl1) h
      · rw [hk] at hd; cases hd

/-! ### closing brackets, operator tokens, the loop -/

theorem closeCtx_noctx (op : Char) : ∀ (stk : List SEntry) (out : List Ast) (s' : ShState),
    (∀ e ∈ stk, ∃ o i, e = .op o i) → closeCtx op out stk ≠ .ok s' := by
  intro stk
  induction stk with
  | nil => intro out s' _ h; simp [closeCtx] at h
  | cons en stk ih =>
    intro out s' hn h
    obtain ⟨o, i, he⟩ := hn en (by simp)
    subst he
    unfold closeCtx at h
    cases hop : operate o i out with
    | error e => rw [hop] at h; cases h
    | ok out' =>
      rw [hop] at h
      exact ih out' s' (fun e he => hn e (List.mem_cons_of_mem _ he)) h

theorem closeCtx_inv (op : Char) (B : Nat) : ∀ (stk : List SEntry) (out : List Ast) (s' : ShState),
    OutInv B out → StackInv B stk → closeCtx op out stk = .ok s' → Inv B s' := by
  intro stk
  induction stk with
  | nil => intro out s' _ _ h; simp [closeCtx] at h
  | cons en stk ih =>
    intro out s' h1 h2 h
    cases en with
    | ctx ch i =>
      unfold closeCtx at h
      split at h
      · injection h with h; subst h
        exact ⟨h1, stackInv_tail h2 (fun o' i' he => by cases he)⟩
      · cases h
    | op o i =>
      rcases h2.1 (.op o i) (by simp) with ⟨hk, hB⟩ | ⟨hk, _⟩
      · unfold closeCtx at h
        cases hop : operate o i out with
        | error e => rw [hop] at h; cases h
        | ok out' =>
          rw [hop] at h
          have hne : ∀ o' i', SEntry.op o i = .op o' i' → ¬ IsTilde o' := by
            intro o' i' he; injection he with he _; subst he; exact plain_not_tilde hk
          exact ih out' s' (operate_plain o i B out out' hk hB h1 hop) (stackInv_tail h2 hne) h
      · exact absurd h (closeCtx_noctx op _ out s' (struct_top_noctx h2.2.1 hk.st))

def GroupOk (g : List OpSpec) : Prop := (∀ c ∈ g, CandPB c) ∨ (∀ c ∈ g, CandT c)

theorem runCands_inv (gs : List (List OpSpec)) : ∀ (s s' : ShState),
    (∀ g ∈ gs, GroupOk g) → (∃ B, Inv B s) → runCands gs s = .ok s' → ∃ B', Inv B' s' := by
  induction gs with
  | nil => intro s s' _ hi h; simp [runCands] at h; subst h; exact hi
  | cons g gs ih =>
    intro s s' hg hi h
    unfold runCands at h
    cases ht : tryCands g s with
    | error e => rw [ht] at h; cases h
    | ok s1 =>
      rw [ht] at h
      have hi1 : ∃ B, Inv B s1 := by
        rcases hg g (by simp) with hg' | hg'
        · obtain ⟨B, hi⟩ := hi
          exact ⟨B, tryCands_PB B g s s1 hg' hi ht⟩
        · exact tryCands_T g s s1 hg' (Or.inl hi) ht
      exact ih s1 s' (fun g' h' => hg g' (List.mem_cons_of_mem _ h')) hi1 h

/-- every candidate group of the table is of one of the two documented kinds -/
def TabOk (tab : OpTable) : Prop := ∀ p ∈ tab, GroupOk p.2

theorem lookup_mem (tab : OpTable) (sym : String) (cands : List OpSpec)
    (h : tab.lookup sym = some cands) : ∃ p ∈ tab, p.2 = cands := by
  unfold OpTable.lookup at h
  split at h
  · rename_i p hp
    injection h with h
    exact ⟨p, List.mem_of_find?_eq_some hp, h⟩
  · cases h

theorem resolveToken_groups (tab : OpTable) (text : List Char) (gs : List (List OpSpec))
    (h : resolveToken tab text = .ok gs) : ∀ g ∈ gs, ∃ p ∈ tab, p.2 = g := by
  unfold resolveToken at h
  split at h
  · rename_i cands hc
    injection h with h; subst h
    intro g hg
    simp only [List.mem_singleton] at hg
    subst hg
    exact lookup_mem tab _ _ hc
  · simp only at h
    split at h
    · rename_i cands hc
      injection h with h; subst h
      intro g hg
      simp only [List.mem_singleton] at hg
      subst hg
      exact lookup_mem tab _ _ hc
    · generalize collapseSigns text = sym at h
      induction sym generalizing gs with
      | nil =>
        simp only [List.mapM_nil, pure, Except.pure] at h
        injection h with h; subst h
        intro g hg; cases hg
      | cons c cs ih =>
        simp only [List.mapM_cons, bind, Except.bind] at h
        split at h
        · cases h
        · rename_i v hv
          split at h
          · cases h
          · rename_i vs hvs
            simp only [pure, Except.pure] at h
            injection h with h; subst h
            intro g hg
            rcases List.mem_cons.mp hg with rfl | hg
            · split at hv
              · rename_i cands hc
                injection hv with hv; subst hv
                exact lookup_mem tab _ _ hc
              · cases hv
            · exact ih vs hvs g hg

theorem shuntStep_inv (tab : OpTable) (htab : TabOk tab) (s s' : ShState) (t : Tok)
    (hi : ∃ B, Inv B s) (h : shuntStep tab s t = .ok s') : ∃ B', Inv B' s' := by
  have hctx : ∀ c, ∃ B, Inv B { s with stack := .ctx c s.out.length :: s.stack } := by
    intro c
    obtain ⟨B, ho, hs⟩ := hi
    refine ⟨B, ho, ?_, ⟨fun hst => (by cases hst), hs.2.1⟩, bot_cons _ hs.2.2⟩
    intro e he
    rcases List.mem_cons.mp he with rfl | he
    · exact ho.2.2
    · exact hs.1 e he
  unfold shuntStep at h
  split at h
  · split at h
    · injection h with h; subst h; exact hctx _
    · split at h
      · injection h with h; subst h; exact hctx _
      · obtain ⟨B, hi⟩ := hi
        split at h
        · exact ⟨B, closeCtx_inv _ B _ _ _ hi.1 hi.2 h⟩
        · split at h
          · exact ⟨B, closeCtx_inv _ B _ _ _ hi.1 hi.2 h⟩
          · cases h
  · cases hr : resolveToken tab t.text with
    | error e => rw [hr] at h; cases h
    | ok gs =>
      rw [hr] at h
      refine runCands_inv gs s s' ?_ hi h
      intro g hg
      obtain ⟨p, hp, hpg⟩ := resolveToken_groups tab _ gs hr g hg
      rw [← hpg]; exact htab p hp
  · injection h with h; subst h
    obtain ⟨B, ⟨h1, h2, h3⟩, hs⟩ := hi
    refine ⟨B, ⟨?_, ?_, ?_⟩, hs⟩
    · intro a ha
      simp only [List.mem_append, List.mem_cons, List.mem_nil_iff, or_false] at ha
      rcases ha with ha | ha
      · exact h1 a ha
      · subst ha; exact Shape.plain (PlainT.leaf t)
    · intro a ha
      rw [List.drop_append] at ha
      simp only [List.mem_append] at ha
      rcases ha with ha | ha
      · exact h2 a ha
      · have := List.mem_of_mem_drop ha
        simp only [List.mem_cons, List.mem_nil_iff, or_false] at this
        subst this; exact PlainT.leaf t
    · simp only [List.length_append, List.length_cons, List.length_nil]; omega

theorem shuntRun_inv (tab : OpTable) (htab : TabOk tab) (ts : List Tok) : ∀ (s s' : ShState),
    (∃ B, Inv B s) → shuntRun tab ts s = .ok s' → ∃ B', Inv B' s' := by
  induction ts with
  | nil => intro s s' hi h; simp [shuntRun] at h; subst h; exact hi
  | cons t ts ih =>
    intro s s' hi h
    unfold shuntRun at h
    cases hs : shuntStep tab s t with
    | error e => rw [hs] at h; cases h
    | ok s1 =>
      rw [hs] at h
      exact ih s1 s' (shuntStep_inv tab htab s s1 t hi hs) h

theorem finish_struct : ∀ (stk : List SEntry) (out out' : List Ast),
    AllShape out → (∀ e ∈ stk, ∃ o i, e = .op o i ∧ StructOp o) → finish out stk = .ok out' → AllShape out' := by
  intro stk
  induction stk with
  | nil => intro out out' h1 _ h; simp [finish] at h; subst h; exact h1
  | cons en stk ih =>
    intro out out' h1 h2 h
    obtain ⟨o, i, he, hk⟩ := h2 en (by simp)
    subst he
    unfold finish at h
    cases hop : operate o i out with
    | error e => rw [hop] at h; cases h
    | ok o1 =>
      rw [hop] at h
      exact ih o1 out' (operate_struct o i out o1 hk h1 hop) (fun e he => h2 e (List.mem_cons_of_mem _ he)) h

theorem finish_inv (B : Nat) : ∀ (stk : List SEntry) (out out' : List Ast),
    OutInv B out → StackInv B stk → finish out stk = .ok out' → AllShape out' := by
  intro stk
  induction stk with
  | nil => intro out out' h1 _ h; simp [finish] at h; subst h; exact h1.1
  | cons en stk ih =>
    intro out out' h1 h2 h
    cases en with
    | ctx ch i => simp [finish] at h
    | op o i =>
      rcases h2.1 (.op o i) (by simp) with ⟨hk, hB⟩ | ⟨hk, _⟩
      · unfold finish at h
        cases hop : operate o i out with
        | error e => rw [hop] at h; cases h
        | ok o1 =>
          rw [hop] at h
          have hne : ∀ o' i', SEntry.op o i = .op o' i' → ¬ IsTilde o' := by
            intro o' i' he; injection he with he _; subst he; exact plain_not_tilde hk
          exact ih o1 out' (operate_plain o i B out o1 hk hB h1 hop) (stackInv_tail h2 hne) h
      · refine finish_struct _ out out' h1.1 ?_ h
        intro e he
        have hstr : isStructE e := by
          rcases List.mem_cons.mp he with rfl | he'
          · exact hk.st
          · exact h2.2.1.1 hk.st e he'
        cases e with
        | ctx c j => exact absurd hstr (by simp [isStructE])
        | op o' j =>
          refine ⟨o', j, rfl, ?_⟩
          rcases h2.1 _ he with ⟨hk', _⟩ | ⟨hk', _⟩
          · have := hk'.ns; simp only [isStructE] at hstr; rw [hstr] at this; cases this
          · exact hk'

/-- (2) the shape invariant: every tree the shunting-yard returns has the `Shape`, for every token
list and every table whose candidate groups are of the documented kinds -/
theorem shunt_shape (tab : OpTable) (htab : TabOk tab) (ts : List Tok) (a : Ast)
    (h : tokensToAst tab ts = .ok (some a)) : Shape a := by
  unfold tokensToAst at h
  cases hr : shuntRun tab ts {} with
  | error e => rw [hr] at h; cases h
  | ok s =>
    rw [hr] at h
    simp only at h
    have h0 : ∃ B, Inv B ({} : ShState) :=
      ⟨0, ⟨fun a ha => (by cases ha), fun a ha => (by cases ha), Nat.le_refl _⟩,
        fun e he => (by cases he), trivial, Or.inl rfl⟩
    obtain ⟨B, hi⟩ := shuntRun_inv tab htab ts {} s h0 hr
    cases hf : finish s.out s.stack with
    | error e => rw [hf] at h; cases h
    | ok l =>
      rw [hf] at h
      have hl := finish_inv B s.stack s.out l hi.1 hi.2 hf
      match l, h, hl with
      | [b], h, hl =>
        simp only at h
        injection h with h; injection h with h; subst h
        exact hl _ (by simp)
      | [], h, _ => cases h
      | _ :: _ :: _, h, _ => cases h

/-! ### (3) evaluation of trees with the shape -/

open FormulaicVerif.Proofs.C14 (Good KnownOp evalAst_node evalArgs_cons merge_sets1 merge_sets2
  applyPlain_good1 applyPlain_good2)

/-- the outcome is not an internal (non-parsing) exception -/
def NoInt {α : Type} (r : Except ParseErr α) : Prop := ∀ k, r ≠ .error (.internal k)

theorem good_noInt {r : Except ParseErr Val} (h : Good r) : NoInt r := by
  intro k hk
  rcases h with ⟨ts, h⟩ | ⟨w, h⟩
  · rw [h] at hk; cases hk
  · rw [h] at hk; cases hk

theorem len2 {α} (l : List α) (h : l.length = 2) : ∃ a b, l = [a, b] := by
  match l, h with
  | [a, b], _ => exact ⟨a, b, rfl⟩

theorem len1 {α} (l : List α) (h : l.length = 1) : ∃ a, l = [a] := by
  match l, h with
  | [a], _ => exact ⟨a, rfl⟩

theorem len0 {α} (l : List α) (h : l.length = 0) : l = [] := by
  match l, h with
  | [], _ => rfl

theorem evalArgs_nil (dot : DotCtx) : evalAst.evalArgs dot [] = .ok [] := by rw [evalAst.evalArgs]

/-- a tree of known non-structural operators evaluates to a term set or fails with the parsing error -/
theorem plain_good (dot : DotCtx) (a : Ast) (h : PlainT a) : Good (evalAst dot a) := by
  induction h with
  | leaf t => left; exact ⟨[termOfTok t], by simp [evalAst]⟩
  | node o args hk hlen hargs ih =>
    rcases hk.2.2.2 with ⟨hf, ha, hs⟩ | ⟨hf, ha, hs⟩ | ⟨hf, ha, hs⟩
    · obtain ⟨l, r, hl⟩ := len2 args (by rw [hlen, ha])
      subst hl
      have hko : KnownOp o 2 := ⟨hk.1, Or.inl ⟨hf, rfl, hs⟩⟩
      simp only [evalAst_node, evalArgs_cons]
      rcases ih l (by simp) with ⟨x, hx⟩ | ⟨w, hw⟩
      · rcases ih r (by simp) with ⟨y, hy⟩ | ⟨w, hw⟩
        · rw [hx, hy]
          simp only [evalArgs_nil, hk.1, Bool.false_eq_true, if_false, List.isEmpty_cons, List.length_cons,
            List.length_nil]
          rw [merge_sets2]
          rcases applyPlain_good2 o dot x y hko with ⟨ts, ht⟩ | ⟨w, hw⟩
          · left; exact ⟨ts, by rw [ht]; rfl⟩
          · right; exact ⟨w, by rw [hw]; rfl⟩
        · rw [hx, hw]; right; exact ⟨w, rfl⟩
      · rw [hw]; right; exact ⟨w, rfl⟩
    · obtain ⟨x, hl⟩ := len1 args (by rw [hlen, ha])
      subst hl
      have hko : KnownOp o 1 := ⟨hk.1, Or.inr ⟨hf, rfl, hs⟩⟩
      simp only [evalAst_node, evalArgs_cons]
      rcases ih x (by simp) with ⟨v, hv⟩ | ⟨w, hw⟩
      · rw [hv]
        simp only [evalArgs_nil, hk.1, Bool.false_eq_true, if_false, List.isEmpty_cons, List.length_cons,
          List.length_nil]
        rw [merge_sets1]
        obtain ⟨ts, ht⟩ := applyPlain_good1 o dot v hko
        left; exact ⟨ts, by rw [ht]; rfl⟩
      · rw [hw]; right; exact ⟨w, rfl⟩
    · have hl := len0 args (by rw [hlen, ha])
      subst hl
      simp only [evalAst_node, evalArgs_nil, hk.1, Bool.false_eq_true, if_false, List.isEmpty_nil, if_true]
      unfold applyPlain
      rw [hs, hf]
      simp only
      cases dot.available with
      | none => right; exact ⟨_, rfl⟩
      | some av => left; exact ⟨_, rfl⟩

theorem evalArgs_noInt (dot : DotCtx) : ∀ (args : List Ast), (∀ a ∈ args, NoInt (evalAst dot a)) →
    (∃ vs, evalAst.evalArgs dot args = .ok vs ∧ vs.length = args.length) ∨
    (∃ e, evalAst.evalArgs dot args = .error e ∧ ∀ k, e ≠ .internal k) := by
  intro args
  induction args with
  | nil => intro _; left; exact ⟨[], evalArgs_nil dot, rfl⟩
  | cons a as ih =>
    intro h
    rw [evalArgs_cons]
    cases ha : evalAst dot a with
    | error e =>
      right
      refine ⟨e, rfl, fun k hk => ?_⟩
      subst hk
      exact h a (by simp) k ha
    | ok v =>
      rcases ih (fun b hb => h b (List.mem_cons_of_mem _ hb)) with ⟨vs, hv, hl⟩ | ⟨e, he, hn⟩
      · left; rw [hv]; exact ⟨v :: vs, rfl, by simp [hl]⟩
      · right; rw [he]; exact ⟨e, rfl, hn⟩

theorem applyStructural_ok (o : OpSpec) (vs : List Val) (ho : StructOp o) (hl : vs.length = o.arity) :
    ∃ v, applyStructural o vs = .ok v := by
  rcases ho with (h | h) | h
  · obtain ⟨l, r, hv⟩ := len2 vs (by rw [hl, h.2.2.1])
    subst hv
    unfold applyStructural
    rw [h.1, h.2.1, h.2.2.2.2.2.2]
    exact ⟨_, rfl⟩
  · obtain ⟨x, hv⟩ := len1 vs (by rw [hl, h.2.2.1])
    subst hv
    unfold applyStructural
    rw [h.1, h.2.1]
    exact ⟨_, rfl⟩
  · obtain ⟨l, r, hv⟩ := len2 vs (by rw [hl, h.2.2.1])
    subst hv
    unfold applyStructural
    rw [h.1, h.2.1, h.2.2.2.2.2.2]
    exact ⟨_, rfl⟩

/-- (3) evaluation of a tree with the shape never raises an internal exception -/
theorem shape_noInt (dot : DotCtx) (a : Ast) (h : Shape a) : NoInt (evalAst dot a) := by
  induction h with
  | plain hp => exact good_noInt (plain_good dot _ hp)
  | struct o args hk hlen hargs ih =>
    rw [evalAst_node]
    rcases evalArgs_noInt dot args ih with ⟨vs, hv, hl⟩ | ⟨e, he, hn⟩
    · rw [hv]
      simp only [hk.st, if_true]
      obtain ⟨v, hv'⟩ := applyStructural_ok o vs hk (by rw [hl, hlen])
      rw [hv']
      intro k hk'; cases hk'
    · rw [he]
      intro k hk'
      injection hk' with hk'
      exact hn k hk'

/-! ### the documented tables without the multistage feature -/

open FormulaicVerif.Spec.Wilkinson in
theorem knownPlain_bin (s : String) (p : Int) (a : Assoc)
    (hs : s ∈ ["+", "-", "*", "/", "in", ":", "**", "^"]) (hp : 100 ≤ p) : KnownPlain (bin s p a) :=
  ⟨rfl, rfl, hp, Or.inl ⟨rfl, rfl, hs⟩⟩

open FormulaicVerif.Spec.Wilkinson in
theorem knownPlain_pre (s : String) (p : Int) (hs : s ∈ ["+", "-"]) (hp : 100 ≤ p) : KnownPlain (pre s p) :=
  ⟨rfl, rfl, hp, Or.inr (Or.inl ⟨rfl, rfl, hs⟩)⟩

open FormulaicVerif.Spec.Wilkinson in
/-- every candidate group of the documented table of a parser without the multistage feature is
either the `~` group (two-sided `~`, the disabled multistage `~`, one-sided `~`) or consists of
known non-structural operators, `|`, and disabled operators -/
theorem tabOk_documented (twosided multipart : Bool) : TabOk (documentedTable twosided multipart false) := by
  intro p hp
  simp only [documentedTable, List.mem_cons, List.mem_nil_iff, or_false] at hp
  rcases hp with rfl | rfl | rfl | rfl | rfl | rfl | rfl | rfl | rfl | rfl | rfl
  · right
    intro c hc
    simp only [List.mem_cons, List.mem_nil_iff, or_false] at hc
    rcases hc with rfl | rfl | rfl
    · exact Or.inl (Or.inl ⟨rfl, rfl, rfl, rfl, rfl, rfl, rfl⟩)
    · exact Or.inr rfl
    · exact Or.inl (Or.inr ⟨rfl, rfl, rfl, rfl, rfl, rfl, rfl⟩)
  · left
    intro c hc
    simp only [List.mem_cons, List.mem_nil_iff, or_false] at hc
    subst hc
    exact Or.inr (Or.inl ⟨rfl, rfl, rfl, rfl, rfl, rfl, rfl⟩)
  all_goals
    left
    intro c hc
    simp only [List.mem_cons, List.mem_nil_iff, or_false] at hc
    first
    | (rcases hc with rfl | rfl
       · exact Or.inl (knownPlain_bin _ _ _ (by simp) (by decide))
       · exact Or.inl (knownPlain_pre _ _ (by simp) (by decide)))
    | (subst hc; exact Or.inl (knownPlain_bin _ _ _ (by simp) (by decide)))
    | (subst hc; exact Or.inl ⟨rfl, rfl, by decide, Or.inr (Or.inr ⟨rfl, rfl, rfl⟩)⟩)

/-! ### the theorems -/

open FormulaicVerif.Spec.Wilkinson in
/-- every tree returned for a parser without the multistage feature has the shape -/
theorem documented_shape (twosided multipart : Bool) (ts : List Tok) (a : Ast)
    (h : tokensToAst (documentedTable twosided multipart false) ts = .ok (some a)) : Shape a :=
  shunt_shape _ (tabOk_documented twosided multipart) ts a h

open FormulaicVerif.Spec.Wilkinson in
/-- **C14, general statement (no multistage).** For every token list, every flag pair and every
`DotCtx`: evaluating the tree the shunting-yard returns never raises an internal exception. -/
theorem eval_no_internal (twosided multipart : Bool) (dot : DotCtx) (ts : List Tok) (a : Ast)
    (h : tokensToAst (documentedTable twosided multipart false) ts = .ok (some a)) :
    ∀ k, evalAst dot a ≠ .error (.internal k) :=
  shape_noInt dot a (documented_shape twosided multipart ts a h)

/-! ### `check_terms` -/

theorem ite_noInt {α : Type} {c : Prop} [Decidable c] {x y : Except ParseErr α} (hx : NoInt x) (hy : NoInt y) :
    NoInt (if c then x else y) := by
  split <;> assumption

theorem checkTermsAux_noInt : ∀ (ts : List Term) (seen : List (List String)), NoInt (checkTermsAux ts seen) := by
  intro ts
  induction ts with
  | nil => intro seen k h; simp [checkTermsAux] at h
  | cons t ts ih =>
    intro seen
    unfold checkTermsAux
    exact ite_noInt (fun k h => by cases h) (ite_noInt (fun k h => by cases h) (ih _))

mutual
theorem checkVal_noInt : ∀ (v : Val), NoInt (checkVal v)
  | .set ts => by rw [checkVal]; exact checkTermsAux_noInt ts []
  | .tuple vs => by rw [checkVal]; exact checkList_noInt vs
  | .struct fs => by rw [checkVal]; exact checkFields_noInt fs
theorem checkList_noInt : ∀ (vs : List Val), NoInt (checkVal.checkList vs)
  | [] => by rw [checkVal.checkList]; intro k h; cases h
  | v :: vs => by
    rw [checkVal.checkList]
    intro k h
    cases hv : checkVal v with
    | error e => rw [hv] at h; injection h with h; subst h; exact checkVal_noInt v k hv
    | ok u => rw [hv] at h; exact checkList_noInt vs k h
theorem checkFields_noInt : ∀ (fs : List (String × Val)), NoInt (checkVal.checkFields fs)
  | [] => by rw [checkVal.checkFields]; intro k h; cases h
  | (_, v) :: fs => by
    rw [checkVal.checkFields]
    intro k h
    cases hv : checkVal v with
    | error e => rw [hv] at h; injection h with h; subst h; exact checkVal_noInt v k hv
    | ok u => rw [hv] at h; exact checkFields_noInt fs k h
end

/-- **Corollary.** A parser without the multistage feature never raises an internal exception, for
every input string and every flag subset, when the Python normaliser (`ast.parse`) only raises
`SyntaxError`. -/
theorem parseTerms_no_internal (cfg : ParseCfg) (hms : cfg.multistage = false) (env : PyEnv)
    (hnorm : ∀ t x, env.norm t = .error x → x = .syntaxError) (cs : List CharInfo) :
    ∀ k, parseTerms cfg env cs ≠ .error (.internal k) := by
  intro k h
  unfold parseTerms at h
  cases hg : getTokens cfg env cs with
  | error e =>
    rw [hg] at h
    injection h with h
    subst h
    rcases Proofs.C14.pySyntax_only_from_fragment cfg env cs _ hnorm hg with ⟨w, hw⟩ | ⟨hw, _⟩
    · cases hw
    · cases hw
  | ok p =>
    obtain ⟨ts, lhs⟩ := p
    rw [hg] at h
    simp only at h
    have htab : cfg.table = Spec.Wilkinson.documentedTable cfg.twosided cfg.multipart false := by
      unfold ParseCfg.table
      rw [hms]
      exact Props.C01.table_is_documented _ _ _
    cases ht : tokensToAst cfg.table ts with
    | error e =>
      rw [ht] at h
      injection h with h
      subst h
      obtain ⟨w, hw⟩ := Proofs.C14.shunt_errors_are_syntax _ _ _ ht
      cases hw
    | ok oa =>
      rw [ht] at h
      cases oa with
      | none => cases h
      | some a =>
        simp only at h
        rw [htab] at ht
        cases he : evalAst { available := env.available, usedLhs := lhsVariables env lhs } a with
        | error e =>
          rw [he] at h
          injection h with h
          subst h
          exact eval_no_internal _ _ _ ts a ht k he
        | ok v =>
          rw [he] at h
          simp only at h
          split at h
          · rename_i e hc
            injection h with h
            subst h
            exact checkVal_noInt _ k hc
          · cases h

/-- the same for the table regenerated from the live resolver (`Gen.defaultTable`, equal to the
documented one by C01.1) -/
theorem eval_no_internal_live (twosided multipart : Bool) (dot : DotCtx) (ts : List Tok) (a : Ast)
    (h : tokensToAst (Gen.defaultTable twosided multipart false) ts = .ok (some a)) :
    ∀ k, evalAst dot a ≠ .error (.internal k) := by
  rw [Props.C01.table_is_documented] at h
  exact eval_no_internal twosided multipart dot ts a h

/-! non-vacuity: structural operators do occur in returned trees (`y ~ a | b + c` evaluates to a
structure). With the multistage feature the invariant is false (`[a ~ b] + c` puts a structural
operator below `+`), which is why the theorems are stated for `multistage = false`. -/

private def nm (s : String) : Tok := { text := s.toList, kind := some .name }
private def opT (s : String) : Tok := { text := s.toList, kind := some .operator }

example : (match tokensToAst (Spec.Wilkinson.documentedTable true true false)
      [nm "y", opT "~", nm "a", opT "|", nm "b", opT "+", nm "c"] with
    | .ok (some a) => (match evalAst ⟨none, []⟩ a with | .ok (.struct _) => true | _ => false)
    | _ => false) = true := by decide

end FormulaicVerif.Proofs.C14General
