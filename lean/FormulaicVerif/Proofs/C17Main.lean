import FormulaicVerif.Proofs.C17Resolve
import FormulaicVerif.Proofs.C17Union
/-! Helper lemmas for C17: materialisation on restricted / reduced data, and which names the
reported sets contain. Not obligations. -/
namespace FormulaicVerif.Proofs.C17
open FormulaicVerif.Model.Variables FormulaicVerif.Model.LMap FormulaicVerif.Spec.Variables
variable {ν : Type}

/-- all keys the formula reads -/
def reads (fs : List PFactor) : List String := fs.flatMap factorReads

theorem mem_usedColumns (L : Layers ν) (fs : List PFactor) (k : String) :
    k ∈ usedColumns L fs ↔ k ∈ reads fs ∧ k ∈ dataKeys L := by
  simp [usedColumns, reads]

/-! ### one factor -/
theorem lookupFactor_eq (L : Layers ν) (n : String) :
    lookupFactor L n = match firstLayer L n with
      | some (v, layer) => .ok (v, [Var.ofValue n layer])
      | none => .error (.nameError n) := by
  simp only [lookupFactor, getWithLayerName_lm]
  cases firstLayer L n with
  | none => rfl
  | some p => rfl

theorem evalFactor_python (ops : Ops ν) (L : Layers ν) (f : PFactor) (c : PyCode)
    (hk : f.kind = .python (some c)) :
    evalFactor ops L f =
      if reservedHit (evalEnv L c.aliases) then .error (.factorEvaluation (.other "RuntimeError"))
      else match eval ops (resolve L (evalEnv L c.aliases)) c.ast with
        | .ok v => .ok (v, exprVariables c (evalEnv L c.aliases))
        | .error e => .error (.factorEvaluation e) := by
  simp only [evalFactor, hk]
  split
  · rfl
  · cases eval ops (resolve L (evalEnv L c.aliases)) c.ast <;> rfl

/-- under the contract (no reserved name in the environment) the reserved-name check is silent -/
theorem evalFactor_python_ok (ops : Ops ν) (L : Layers ν) (f : PFactor) (c : PyCode)
    (hk : f.kind = .python (some c)) (hok : AliasOK L c) :
    evalFactor ops L f =
      match eval ops (resolve L (evalEnv L c.aliases)) c.ast with
        | .ok v => .ok (v, exprVariables c (evalEnv L c.aliases))
        | .error e => .error (.factorEvaluation e) := by
  rw [evalFactor_python ops L f c hk, reservedHit_false L c hok]
  rfl

theorem evalFactor_lookup (ops : Ops ν) (L : Layers ν) (f : PFactor) (hk : f.kind = .lookup) :
    evalFactor ops L f = match firstLayer L f.expr with
      | some (v, layer) => .ok (v, [Var.ofValue f.expr layer])
      | none => .error (.factorEvaluation (.nameError f.expr)) := by
  simp only [evalFactor, hk, lookupFactor_eq]
  cases firstLayer L f.expr with
  | none => rfl
  | some p => rfl

/-- the value of a factor only depends on the keys it reads -/
theorem evalFactor_congr (ops : Ops ν) (L L' : Layers ν) (f : PFactor)
    (hok : FactorOK L f) (hok' : FactorOK L' f)
    (hv : ∀ k ∈ factorReads f, valueOf L' k = valueOf L k)
    (ha : ∀ k ∈ factorReads f, lookupAll L' k = lookupAll L k) :
    (evalFactor ops L' f).map (·.1) = (evalFactor ops L f).map (·.1) := by
  cases hk : f.kind with
  | lookup =>
    rw [evalFactor_lookup ops L f hk, evalFactor_lookup ops L' f hk]
    have h1 := firstLayer_fst L f.expr
    have h2 := firstLayer_fst L' f.expr
    have h3 := hv f.expr (by simp [factorReads, hk])
    cases ha1 : firstLayer L f.expr with
    | none =>
      cases ha2 : firstLayer L' f.expr with
      | none => rfl
      | some p =>
        rw [ha1] at h1; rw [ha2] at h2
        simp only [Option.map] at h1 h2
        rw [← h1, ← h2] at h3; cases h3
    | some p =>
      cases ha2 : firstLayer L' f.expr with
      | none =>
        rw [ha1] at h1; rw [ha2] at h2
        simp only [Option.map] at h1 h2
        rw [← h1, ← h2] at h3; cases h3
      | some q =>
        rw [ha1] at h1; rw [ha2] at h2
        simp only [Option.map] at h1 h2
        rw [← h1, ← h2] at h3
        obtain ⟨pv, pl⟩ := p
        obtain ⟨qv, ql⟩ := q
        simp only [Option.some.injEq] at h3
        subst h3
        rfl
  | literal => simp only [evalFactor, hk]
  | python oc =>
    cases oc with
    | none => simp only [evalFactor, hk]
    | some c =>
      have hok1 : AliasOK L c := by simpa [FactorOK, hk] using hok
      have hok2 : AliasOK L' c := by simpa [FactorOK, hk] using hok'
      rw [evalFactor_python_ok ops L f c hk hok1, evalFactor_python_ok ops L' f c hk hok2]
      have : eval ops (resolve L' (evalEnv L' c.aliases)) c.ast
          = eval ops (resolve L (evalEnv L c.aliases)) c.ast := by
        apply eval_congr
        intro id hid
        rw [resolve_evalEnv L' c hok2, resolve_evalEnv L c hok1]
        exact ha _ (by simp only [factorReads, hk]; exact List.mem_map_of_mem hid)
      rw [this]
      cases eval ops (resolve L (evalEnv L c.aliases)) c.ast <;> rfl

/-- a factor that reads, in strict position, a key bound nowhere fails -/
theorem evalFactor_unbound (ops : Ops ν) (L : Layers ν) (f : PFactor) (hok : FactorOK L f)
    (v : String) (hv : v ∈ factorStrictReads f) (hn : lookupAll L v = none) (hf : firstLayer L v = none) :
    ∃ c, evalFactor ops L f = .error (.factorEvaluation c) := by
  cases hk : f.kind with
  | lookup =>
    have : v = f.expr := by simpa [factorStrictReads, hk] using hv
    subst this
    exact ⟨_, by rw [evalFactor_lookup ops L f hk, hf]⟩
  | literal => simp [factorStrictReads, hk] at hv
  | python oc =>
    cases oc with
    | none => simp [factorStrictReads, hk] at hv
    | some c =>
      have hok1 : AliasOK L c := by simpa [FactorOK, hk] using hok
      simp only [factorStrictReads, hk, List.mem_map] at hv
      obtain ⟨id, hid, hidv⟩ := hv
      have hr : resolve L (evalEnv L c.aliases) id = none := by
        rw [resolve_evalEnv L c hok1, hidv, hn]
      obtain ⟨e, he⟩ := eval_unbound ops _ id hr c.ast hid
      exact ⟨e, by rw [evalFactor_python_ok ops L f c hk hok1, he]⟩

/-! ### all factors -/
theorem evalFactors_congr (ops : Ops ν) (L L' : Layers ν) :
    ∀ (fs : List PFactor),
      (∀ f ∈ fs, (evalFactor ops L' f).map (·.1) = (evalFactor ops L f).map (·.1)) →
      (evalFactors ops L' fs).map (fun rs => rs.map (·.1)) = (evalFactors ops L fs).map (fun rs => rs.map (·.1))
  | [], _ => rfl
  | f :: fs, h => by
    have h1 := h f (by simp)
    have h2 := evalFactors_congr ops L L' fs (fun g hg => h g (by simp [hg]))
    simp only [evalFactors]
    cases e1 : evalFactor ops L f with
    | error x =>
      cases e2 : evalFactor ops L' f with
      | error y => rw [e1, e2] at h1; simpa [Except.map] using h1
      | ok r => rw [e1, e2] at h1; simp [Except.map] at h1
    | ok r =>
      cases e2 : evalFactor ops L' f with
      | error y => rw [e1, e2] at h1; simp [Except.map] at h1
      | ok r' =>
        rw [e1, e2] at h1
        have hr : r'.1 = r.1 := by simpa [Except.map] using h1
        cases e3 : evalFactors ops L fs with
        | error x =>
          cases e4 : evalFactors ops L' fs with
          | error y => rw [e3, e4] at h2; simpa [Except.map] using h2
          | ok rs => rw [e3, e4] at h2; simp [Except.map] at h2
        | ok rs =>
          cases e4 : evalFactors ops L' fs with
          | error y => rw [e3, e4] at h2; simp [Except.map] at h2
          | ok rs' =>
            rw [e3, e4] at h2
            have : rs'.map (·.1) = rs.map (·.1) := by simpa [Except.map] using h2
            simp [Except.map, hr, this]

theorem evalFactors_fails (ops : Ops ν) (L : Layers ν) :
    ∀ (fs : List PFactor) (f : PFactor), f ∈ fs → (∃ c, evalFactor ops L f = .error (.factorEvaluation c)) →
      ∃ c, evalFactors ops L fs = .error (.factorEvaluation c)
  | [], _, h, _ => by cases h
  | g :: fs, f, h, hf => by
    simp only [evalFactors]
    cases e1 : evalFactor ops L g with
    | error x => cases x with | factorEvaluation c => exact ⟨c, rfl⟩
    | ok r =>
      rcases List.mem_cons.1 h with h1 | h2
      · subst h1; obtain ⟨c, hc⟩ := hf; rw [hc] at e1; cases e1
      · obtain ⟨c, hc⟩ := evalFactors_fails ops L fs f h2 hf
        exact ⟨c, by rw [hc]⟩

theorem evalFactors_vars (ops : Ops ν) (L : Layers ν) :
    ∀ (fs : List PFactor) (rs : List (ν × List Var)), evalFactors ops L fs = .ok rs →
      ∀ u, u ∈ rs.flatMap (·.2) ↔ ∃ f ∈ fs, ∃ r, evalFactor ops L f = .ok r ∧ u ∈ r.2
  | [], rs, h => by
    simp only [evalFactors, Except.ok.injEq] at h
    subst h; intro u; simp
  | g :: fs, rs, h => by
    simp only [evalFactors] at h
    cases e1 : evalFactor ops L g with
    | error x => rw [e1] at h; cases h
    | ok r =>
      rw [e1] at h
      cases e2 : evalFactors ops L fs with
      | error x => rw [e2] at h; cases h
      | ok rs' =>
        rw [e2] at h
        simp only [Except.ok.injEq] at h
        subst h
        intro u
        have ih := evalFactors_vars ops L fs rs' e2 u
        simp only [List.flatMap_cons, List.mem_append, ih]
        constructor
        · rintro (h1 | ⟨f, hf, r', hr', hu⟩)
          · exact ⟨g, by simp, r, e1, h1⟩
          · exact ⟨f, by simp [hf], r', hr', hu⟩
        · rintro ⟨f, hf, r', hr', hu⟩
          rcases List.mem_cons.1 hf with h1 | h2
          · subst h1; rw [e1] at hr'; cases hr'; exact Or.inl hu
          · exact Or.inr ⟨f, h2, r', hr', hu⟩

theorem materialize_ok (ops : Ops ν) (L : Layers ν) (fs : List PFactor) (vals : List ν) (vars : List Var)
    (h : materialize ops L fs = .ok (vals, vars)) :
    ∃ rs, evalFactors ops L fs = .ok rs ∧ vals = rs.map (·.1) ∧ vars = union (rs.flatMap (·.2)) := by
  simp only [materialize] at h
  cases e : evalFactors ops L fs with
  | error x => rw [e] at h; cases h
  | ok rs =>
    rw [e] at h
    simp only [Except.map, Except.ok.injEq, Prod.mk.injEq] at h
    exact ⟨rs, rfl, h.1.symm, h.2.symm⟩

theorem materialize_vals (ops : Ops ν) (L : Layers ν) (fs : List PFactor) :
    (materialize ops L fs).map (·.1) = (evalFactors ops L fs).map (fun rs => rs.map (·.1)) := by
  simp only [materialize]
  cases evalFactors ops L fs <;> rfl

theorem materialize_fails (ops : Ops ν) (L : Layers ν) (fs : List PFactor)
    (h : ∃ c, evalFactors ops L fs = .error (.factorEvaluation c)) :
    ∃ c, materialize ops L fs = .error (.factorEvaluation c) := by
  obtain ⟨c, hc⟩ := h
  exact ⟨c, by simp only [materialize, hc]; rfl⟩

end FormulaicVerif.Proofs.C17
