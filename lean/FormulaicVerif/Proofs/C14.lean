import FormulaicVerif.Model.Parser
import FormulaicVerif.Proofs.ShuntComplete
/-! Helper lemmas for C14: error classes of the shunting-yard and of evaluation. -/
namespace FormulaicVerif.Proofs.C14
open FormulaicVerif FormulaicVerif.Model FormulaicVerif.Proofs.ShuntC

def IsSyntax (e : ParseErr) : Prop := ∃ w, e = .syntax w

theorem operate_err (o : OpSpec) (i : Nat) (out : List Ast) (e : ParseErr)
    (h : operate o i out = .error e) : IsSyntax e := by
  unfold operate at h
  split at h
  split at h
  · injection h with h; exact ⟨_, h.symm⟩
  · cases h

theorem popWhile_err (c : OpSpec) : ∀ (stk : List SEntry) (out : List Ast) (e : ParseErr),
    popWhile c out stk = .error e → IsSyntax e := by
  intro stk
  induction stk with
  | nil => intro out e h; simp [popWhile] at h
  | cons en stk ih =>
    intro out e h
    cases en with
    | ctx ch i => simp [popWhile] at h
    | op o i =>
      unfold popWhile at h
      split at h
      · cases ho : operate o i out with
        | error e' => rw [ho] at h; injection h with h; subst h; exact operate_err o i out _ ho
        | ok out' => rw [ho] at h; exact ih out' e h
      · cases h

theorem tryCands_err (cs : List OpSpec) : ∀ (s : ShState) (e : ParseErr),
    tryCands cs s = .error e → IsSyntax e := by
  induction cs with
  | nil => intro s e h; simp [tryCands] at h; exact ⟨_, h.symm⟩
  | cons c cs ih =>
    intro s e h
    unfold tryCands at h
    split at h
    · exact ih s e h
    · split at h
      · exact ih s e h
      · cases hp : popWhile c s.out s.stack with
        | error e' => rw [hp] at h; injection h with h; subst h; exact popWhile_err c _ _ _ hp
        | ok s' =>
          rw [hp] at h
          simp only at h
          split at h <;> (try split at h) <;> first | cases h | exact ih s' e h

theorem closeCtx_err (op : Char) : ∀ (stk : List SEntry) (out : List Ast) (e : ParseErr),
    closeCtx op out stk = .error e → IsSyntax e := by
  intro stk
  induction stk with
  | nil => intro out e h; simp [closeCtx] at h; exact ⟨_, h.symm⟩
  | cons en stk ih =>
    intro out e h
    cases en with
    | ctx ch i =>
      unfold closeCtx at h
      split at h
      · cases h
      · injection h with h; exact ⟨_, h.symm⟩
    | op o i =>
      unfold closeCtx at h
      cases ho : operate o i out with
      | error e' => rw [ho] at h; injection h with h; subst h; exact operate_err o i out _ ho
      | ok out' => rw [ho] at h; exact ih out' e h

theorem runCands_err (gs : List (List OpSpec)) : ∀ (s : ShState) (e : ParseErr),
    runCands gs s = .error e → IsSyntax e := by
  induction gs with
  | nil => intro s e h; simp [runCands] at h
  | cons g gs ih =>
    intro s e h
    unfold runCands at h
    cases ht : tryCands g s with
    | error e' => rw [ht] at h; injection h with h; subst h; exact tryCands_err g s _ ht
    | ok s' => rw [ht] at h; exact ih s' e h

theorem resolveToken_err (tab : OpTable) (text : List Char) (e : ParseErr)
    (h : resolveToken tab text = .error e) : IsSyntax e := by
  unfold resolveToken at h
  split at h
  · cases h
  · simp only at h
    split at h
    · cases h
    · -- mapM over characters: every failure is the `unknown operator` syntax error
      generalize collapseSigns text = sym at h
      induction sym with
      | nil => simp [List.mapM_nil, pure, Except.pure] at h
      | cons c cs ih =>
        simp only [List.mapM_cons, bind, Except.bind] at h
        split at h
        · rename_i e' he
          split at he
          · cases he
          · injection he with he; injection h with h; subst h; exact ⟨_, he.symm⟩
        · rename_i v hv
          split at h
          · rename_i e' he
            injection h with h; subst h
            exact ih he
          · cases h

theorem shuntStep_err (tab : OpTable) (s : ShState) (t : Tok) (e : ParseErr)
    (h : shuntStep tab s t = .error e) : IsSyntax e := by
  unfold shuntStep at h
  split at h
  · split at h
    · cases h
    · split at h
      · cases h
      · split at h
        · exact closeCtx_err _ _ _ _ h
        · split at h
          · exact closeCtx_err _ _ _ _ h
          · injection h with h; exact ⟨_, h.symm⟩
  · cases hr : resolveToken tab t.text with
    | error e' => rw [hr] at h; injection h with h; subst h; exact resolveToken_err tab _ _ hr
    | ok gs => rw [hr] at h; exact runCands_err gs s e h
  · cases h

theorem shuntRun_err (tab : OpTable) (ts : List Tok) : ∀ (s : ShState) (e : ParseErr),
    shuntRun tab ts s = .error e → IsSyntax e := by
  induction ts with
  | nil => intro s e h; simp [shuntRun] at h
  | cons t ts ih =>
    intro s e h
    unfold shuntRun at h
    cases hs : shuntStep tab s t with
    | error e' => rw [hs] at h; injection h with h; subst h; exact shuntStep_err tab s t _ hs
    | ok s' => rw [hs] at h; exact ih s' e h

theorem finish_err : ∀ (stk : List SEntry) (out : List Ast) (e : ParseErr),
    finish out stk = .error e → IsSyntax e := by
  intro stk
  induction stk with
  | nil => intro out e h; simp [finish] at h
  | cons en stk ih =>
    intro out e h
    cases en with
    | ctx ch i => simp [finish] at h; exact ⟨_, h.symm⟩
    | op o i =>
      unfold finish at h
      cases ho : operate o i out with
      | error e' => rw [ho] at h; injection h with h; subst h; exact operate_err o i out _ ho
      | ok out' => rw [ho] at h; exact ih out' e h

/-- every failure of the shunting-yard is the library's parsing error, for every token list and every operator table -/
theorem shunt_errors_are_syntax (tab : OpTable) (ts : List Tok) (e : ParseErr)
    (h : tokensToAst tab ts = .error e) : IsSyntax e := by
  unfold tokensToAst at h
  cases hr : shuntRun tab ts {} with
  | error e' => rw [hr] at h; injection h with h; subst h; exact shuntRun_err tab ts _ _ hr
  | ok s =>
    rw [hr] at h
    simp only at h
    cases hf : finish s.out s.stack with
    | error e' => rw [hf] at h; injection h with h; subst h; exact finish_err _ _ _ hf
    | ok l =>
      rw [hf] at h
      match l, h with
      | [], h => cases h
      | [a], h => cases h
      | _ :: _ :: _, h => injection h with h; exact ⟨_, h.symm⟩


/-- outcome of evaluating a plain (non-structural) expression: a term set or the parsing error -/
def Good (r : Except ParseErr Val) : Prop := (∃ ts, r = .ok (.set ts)) ∨ (∃ w, r = .error (.syntax w))

def KnownOp (o : OpSpec) (n : Nat) : Prop :=
  o.structural = false ∧
  ((o.fixity = .infix ∧ n = 2 ∧ o.symbol ∈ ["+", "-", "*", "/", "in", ":", "**", "^"]) ∨
   (o.fixity = .prefix ∧ n = 1 ∧ o.symbol ∈ ["+", "-"]))

def PlainE : E → Prop
  | .atom _ => True
  | .paren e => PlainE e
  | .bin o _ _ l r => KnownOp o 2 ∧ PlainE l ∧ PlainE r
  | .pre o _ _ x => KnownOp o 1 ∧ PlainE x

theorem nestedProduct_good (a b : List Term) :
    (∃ ts, nestedProduct a b = .ok ts) ∨ (∃ w, nestedProduct a b = .error (.syntax w)) := by
  unfold nestedProduct
  cases a with
  | nil => right; exact ⟨_, rfl⟩
  | cons t ts => left; simp [reduceMulTerms]

theorem power_good (a b : List Term) :
    (∃ ts, power a b = .ok ts) ∨ (∃ w, power a b = .error (.syntax w)) := by
  unfold power
  split
  · split
    · split
      · left; exact ⟨_, rfl⟩
      · right; exact ⟨_, rfl⟩
    · right; exact ⟨_, rfl⟩
  · right; exact ⟨_, rfl⟩

theorem applyPlain_good2 (o : OpSpec) (dot : DotCtx) (x y : List Term) (h : KnownOp o 2) :
    (∃ ts, applyPlain o dot [x, y] = .ok ts) ∨ (∃ w, applyPlain o dot [x, y] = .error (.syntax w)) := by
  obtain ⟨_, h | h⟩ := h
  · obtain ⟨hf, _, hs⟩ := h
    simp only [List.mem_cons, List.mem_nil_iff, or_false] at hs
    unfold applyPlain
    rcases hs with hs | hs | hs | hs | hs | hs | hs | hs <;> rw [hs, hf] <;> simp only
    · left; exact ⟨_, rfl⟩
    · left; exact ⟨_, rfl⟩
    · left; exact ⟨_, rfl⟩
    · exact nestedProduct_good x y
    · exact nestedProduct_good y x
    · left; exact ⟨_, rfl⟩
    · exact power_good x y
    · exact power_good x y
  · omega

theorem applyPlain_good1 (o : OpSpec) (dot : DotCtx) (x : List Term) (h : KnownOp o 1) :
    ∃ ts, applyPlain o dot [x] = .ok ts := by
  obtain ⟨_, h | h⟩ := h
  · omega
  · obtain ⟨hf, _, hs⟩ := h
    simp only [List.mem_cons, List.mem_nil_iff, or_false] at hs
    unfold applyPlain
    rcases hs with hs | hs <;> rw [hs, hf] <;> exact ⟨_, rfl⟩

theorem evalArgs_cons (dot : DotCtx) (a : Ast) (as : List Ast) :
    evalAst.evalArgs dot (a :: as) =
      (match evalAst dot a with
       | .error e => .error e
       | .ok v => match evalAst.evalArgs dot as with
         | .error e => .error e
         | .ok vs => .ok (v :: vs)) := by
  rw [evalAst.evalArgs]
  cases evalAst dot a with
  | error e => rfl
  | ok v => cases evalAst.evalArgs dot as <;> rfl

theorem evalAst_node (dot : DotCtx) (o : OpSpec) (args : List Ast) :
    evalAst dot (.node o args) =
      (match evalAst.evalArgs dot args with
       | .error e => .error e
       | .ok vs =>
         if o.structural then applyStructural o vs
         else if vs.isEmpty then (applyPlain o dot []).map Val.set
         else mergeVals (applyPlain o dot) (vs.length + 64) false vs) := by
  rw [evalAst]
  cases evalAst.evalArgs dot args <;> rfl

theorem merge_sets2 (m : List (List Term) → Except ParseErr (List Term)) (x y : List Term) (n : Nat) :
    mergeVals m (n + 1) false [.set x, .set y] = (m [x, y]).map Val.set := by
  simp [mergeVals, Val.isTuple, Val.isStruct]

theorem merge_sets1 (m : List (List Term) → Except ParseErr (List Term)) (x : List Term) (n : Nat) :
    mergeVals m (n + 1) false [.set x] = (m [x]).map Val.set := by
  simp [mergeVals, Val.isTuple, Val.isStruct]

/-- evaluation of any expression of the arithmetic fragment yields a term set or the parsing error:
no internal exception (`TypeError` from an empty `reduce`, `ValueError` from a misaligned merge, …)
is reachable, for unbounded nesting -/
theorem eval_plain_good (dot : DotCtx) (e : E) (h : PlainE e) : Good (evalAst dot (strip e)) := by
  induction e with
  | atom t => left; exact ⟨[termOfTok t], by simp [strip, evalAst]⟩
  | paren e ih => exact ih h
  | bin o sym cs l r ihl ihr =>
    obtain ⟨hk, hl, hr⟩ := h
    simp only [strip, evalAst_node, evalArgs_cons]
    rcases ihl hl with ⟨x, hx⟩ | ⟨w, hw⟩
    · rcases ihr hr with ⟨y, hy⟩ | ⟨w, hw⟩
      · rw [hx, hy]
        have : evalAst.evalArgs dot [] = .ok [] := by rw [evalAst.evalArgs]
        simp only [this, hk.1, Bool.false_eq_true, if_false, List.isEmpty_cons, List.length_cons,
          List.length_nil]
        rw [merge_sets2]
        rcases applyPlain_good2 o dot x y hk with ⟨ts, ht⟩ | ⟨w, hw⟩
        · left; exact ⟨ts, by rw [ht]; rfl⟩
        · right; exact ⟨w, by rw [hw]; rfl⟩
      · rw [hx, hw]; right; exact ⟨w, rfl⟩
    · rw [hw]; right; exact ⟨w, rfl⟩
  | pre o sym cs x ihx =>
    obtain ⟨hk, hx⟩ := h
    simp only [strip, evalAst_node, evalArgs_cons]
    rcases ihx hx with ⟨v, hv⟩ | ⟨w, hw⟩
    · rw [hv]
      have : evalAst.evalArgs dot [] = .ok [] := by rw [evalAst.evalArgs]
      simp only [this, hk.1, Bool.false_eq_true, if_false, List.isEmpty_cons, List.length_cons,
        List.length_nil]
      rw [merge_sets1]
      obtain ⟨ts, ht⟩ := applyPlain_good1 o dot v hk
      left; exact ⟨ts, by rw [ht]; rfl⟩
    · rw [hw]; right; exact ⟨w, rfl⟩


/-- no operator occurring in the tree is disabled -/
def noDis : Ast → Bool
  | .leaf _ => true
  | .node o args => !o.disabled && allND args
where
  allND : List Ast → Bool
    | [] => true
    | a :: as => noDis a && allND as

theorem allND_iff (l : List Ast) : noDis.allND l = true ↔ ∀ a ∈ l, noDis a = true := by
  induction l with
  | nil => simp [noDis.allND]
  | cons a as ih => simp [noDis.allND, ih]

def OutOk (out : List Ast) : Prop := ∀ a ∈ out, noDis a = true
def StackOk (stk : List SEntry) : Prop := ∀ e ∈ stk, ∀ o i, e = .op o i → o.disabled = false

theorem operate_ok (o : OpSpec) (i : Nat) (out out' : List Ast) (ho : o.disabled = false) (h : OutOk out)
    (hr : operate o i out = .ok out') : OutOk out' := by
  unfold operate at hr
  split at hr
  split at hr
  · cases hr
  · rename_i lo hi neg _ _
    injection hr with hr
    subst hr
    intro a ha
    simp only [List.mem_append, List.mem_cons, List.mem_nil_iff, or_false] at ha
    rcases ha with (ha | ha) | ha
    · exact h a (List.mem_of_mem_take ha)
    · subst ha
      simp only [noDis, ho, Bool.not_false, Bool.true_and]
      rw [allND_iff]
      intro b hb
      exact h b (List.mem_of_mem_drop (List.mem_of_mem_take hb))
    · exact h a (List.mem_of_mem_drop ha)

theorem popWhile_ok (c : OpSpec) : ∀ (stk : List SEntry) (out : List Ast) (s' : ShState),
    OutOk out → StackOk stk → popWhile c out stk = .ok s' → OutOk s'.out ∧ StackOk s'.stack := by
  intro stk
  induction stk with
  | nil => intro out s' h1 h2 h; simp [popWhile] at h; subst h; exact ⟨h1, h2⟩
  | cons en stk ih =>
    intro out s' h1 h2 h
    cases en with
    | ctx ch i => simp [popWhile] at h; subst h; exact ⟨h1, h2⟩
    | op o i =>
      unfold popWhile at h
      split at h
      · cases ho : operate o i out with
        | error e => rw [ho] at h; cases h
        | ok out' =>
          rw [ho] at h
          have hod := h2 (.op o i) (by simp) o i rfl
          exact ih out' s' (operate_ok o i out out' hod h1 ho) (fun e he => h2 e (by simp [he])) h
      · injection h with h; subst h; exact ⟨h1, h2⟩

theorem tryCands_ok (cs : List OpSpec) : ∀ (s s' : ShState),
    OutOk s.out → StackOk s.stack → tryCands cs s = .ok s' → OutOk s'.out ∧ StackOk s'.stack := by
  induction cs with
  | nil => intro s s' _ _ h; simp [tryCands] at h
  | cons c cs ih =>
    intro s s' h1 h2 h
    unfold tryCands at h
    split at h
    · exact ih s s' h1 h2 h
    · by_cases hd : c.disabled = true
      · simp only [hd, if_true] at h; exact ih s s' h1 h2 h
      · have hd' : c.disabled = false := by simpa using hd
        simp only [hd', Bool.false_eq_true, if_false] at h
        cases hp : popWhile c s.out s.stack with
        | error e => rw [hp] at h; cases h
        | ok s1 =>
          rw [hp] at h
          obtain ⟨k1, k2⟩ := popWhile_ok c s.stack s.out s1 h1 h2 hp
          simp only at h
          have hpush : StackOk (SEntry.op c s1.out.length :: s1.stack) := by
            intro e he o i heq
            rcases List.mem_cons.mp he with rfl | he
            · injection heq with h1' _; subst h1'; exact hd'
            · exact k2 e he o i heq
          split at h <;> (try split at h) <;>
            first
            | (injection h with h; subst h; exact ⟨k1, hpush⟩)
            | exact ih s1 s' k1 k2 h

theorem closeCtx_ok (op : Char) : ∀ (stk : List SEntry) (out : List Ast) (s' : ShState),
    OutOk out → StackOk stk → closeCtx op out stk = .ok s' → OutOk s'.out ∧ StackOk s'.stack := by
  intro stk
  induction stk with
  | nil => intro out s' _ _ h; simp [closeCtx] at h
  | cons en stk ih =>
    intro out s' h1 h2 h
    cases en with
    | ctx ch i =>
      unfold closeCtx at h
      split at h
      · injection h with h; subst h; exact ⟨h1, fun e he => h2 e (by simp [he])⟩
      · cases h
    | op o i =>
      unfold closeCtx at h
      cases ho : operate o i out with
      | error e => rw [ho] at h; cases h
      | ok out' =>
        rw [ho] at h
        have hod := h2 (.op o i) (by simp) o i rfl
        exact ih out' s' (operate_ok o i out out' hod h1 ho) (fun e he => h2 e (by simp [he])) h

theorem runCands_ok (gs : List (List OpSpec)) : ∀ (s s' : ShState),
    OutOk s.out → StackOk s.stack → runCands gs s = .ok s' → OutOk s'.out ∧ StackOk s'.stack := by
  induction gs with
  | nil => intro s s' h1 h2 h; simp [runCands] at h; subst h; exact ⟨h1, h2⟩
  | cons g gs ih =>
    intro s s' h1 h2 h
    unfold runCands at h
    cases ht : tryCands g s with
    | error e => rw [ht] at h; cases h
    | ok s1 =>
      rw [ht] at h
      obtain ⟨k1, k2⟩ := tryCands_ok g s s1 h1 h2 ht
      exact ih s1 s' k1 k2 h

theorem shuntStep_ok (tab : OpTable) (s s' : ShState) (t : Tok)
    (h1 : OutOk s.out) (h2 : StackOk s.stack) (h : shuntStep tab s t = .ok s') :
    OutOk s'.out ∧ StackOk s'.stack := by
  have hctx : ∀ c n, StackOk (SEntry.ctx c n :: s.stack) := by
    intro c n e he o i heq
    rcases List.mem_cons.mp he with rfl | he
    · cases heq
    · exact h2 e he o i heq
  unfold shuntStep at h
  split at h
  · split at h
    · injection h with h; subst h; exact ⟨h1, hctx _ _⟩
    · split at h
      · injection h with h; subst h; exact ⟨h1, hctx _ _⟩
      · split at h
        · exact closeCtx_ok _ _ _ _ h1 h2 h
        · split at h
          · exact closeCtx_ok _ _ _ _ h1 h2 h
          · cases h
  · cases hr : resolveToken tab t.text with
    | error e => rw [hr] at h; cases h
    | ok gs => rw [hr] at h; exact runCands_ok gs s s' h1 h2 h
  · injection h with h; subst h
    refine ⟨?_, h2⟩
    intro a ha
    simp only [List.mem_append, List.mem_cons, List.mem_nil_iff, or_false] at ha
    rcases ha with ha | ha
    · exact h1 a ha
    · subst ha; rfl

theorem shuntRun_ok (tab : OpTable) (ts : List Tok) : ∀ (s s' : ShState),
    OutOk s.out → StackOk s.stack → shuntRun tab ts s = .ok s' → OutOk s'.out ∧ StackOk s'.stack := by
  induction ts with
  | nil => intro s s' h1 h2 h; simp [shuntRun] at h; subst h; exact ⟨h1, h2⟩
  | cons t ts ih =>
    intro s s' h1 h2 h
    unfold shuntRun at h
    cases hs : shuntStep tab s t with
    | error e => rw [hs] at h; cases h
    | ok s1 =>
      rw [hs] at h
      obtain ⟨k1, k2⟩ := shuntStep_ok tab s s1 t h1 h2 hs
      exact ih s1 s' k1 k2 h

theorem finish_ok : ∀ (stk : List SEntry) (out out' : List Ast),
    OutOk out → StackOk stk → finish out stk = .ok out' → OutOk out' := by
  intro stk
  induction stk with
  | nil => intro out out' h1 _ h; simp [finish] at h; subst h; exact h1
  | cons en stk ih =>
    intro out out' h1 h2 h
    cases en with
    | ctx ch i => simp [finish] at h
    | op o i =>
      unfold finish at h
      cases ho : operate o i out with
      | error e => rw [ho] at h; cases h
      | ok o1 =>
        rw [ho] at h
        have hod := h2 (.op o i) (by simp) o i rfl
        exact ih o1 out' (operate_ok o i out o1 hod h1 ho) (fun e he => h2 e (by simp [he])) h

/-- an operator disabled by the parser configuration never appears in a syntax tree the
shunting-yard returns: for every token list and every operator table -/
theorem disabled_never_used (tab : OpTable) (ts : List Tok) (a : Ast)
    (h : tokensToAst tab ts = .ok (some a)) : noDis a = true := by
  unfold tokensToAst at h
  cases hr : shuntRun tab ts {} with
  | error e => rw [hr] at h; cases h
  | ok s =>
    rw [hr] at h
    simp only at h
    obtain ⟨k1, k2⟩ := shuntRun_ok tab ts {} s (by intro a ha; cases ha) (by intro e he; cases he) hr
    cases hf : finish s.out s.stack with
    | error e => rw [hf] at h; cases h
    | ok l =>
      rw [hf] at h
      have hl := finish_ok s.stack s.out l k1 k2 hf
      match l, h, hl with
      | [b], h, hl =>
        simp only at h
        injection h with h; injection h with h; subst h
        exact hl _ (by simp)
      | [], h, _ => cases h
      | _ :: _ :: _, h, _ => cases h

theorem sanitize_err (norm : List Char → Except PyErr (List Char)) :
    ∀ (ts : List Tok) (e : PyErr), sanitizeTokens norm ts = .error e →
      ∃ t ∈ ts, t.kind = some .python ∧ norm t.text = .error e := by
  intro ts
  induction ts with
  | nil => intro e h; simp [sanitizeTokens] at h
  | cons t ts ih =>
    intro e h
    unfold sanitizeTokens at h
    simp only at h
    by_cases hd : (t.text == ['.'] && t.kind != some .name) = true
    · simp only [hd, if_true] at h
      have hk : ¬ ((some TKind.operator : Option TKind) == some .python) = true := by decide
      simp only [hk, Bool.false_eq_true, if_false] at h
      cases hr : sanitizeTokens norm ts with
      | error e' =>
        rw [hr] at h; injection h with h; subst h
        obtain ⟨t', ht', hp⟩ := ih _ hr
        exact ⟨t', by simp [ht'], hp⟩
      | ok r => rw [hr] at h; cases h
    · simp only [hd, Bool.false_eq_true, if_false] at h
      by_cases hp : (t.kind == some .python) = true
      · simp only [hp, if_true] at h
        cases hn : norm t.text with
        | error e' =>
          rw [hn] at h
          simp only [Except.map] at h
          injection h with h; subst h
          exact ⟨t, by simp, by simpa using hp, hn⟩
        | ok x =>
          rw [hn] at h
          simp only [Except.map] at h
          cases hr : sanitizeTokens norm ts with
          | error e' =>
            rw [hr] at h; injection h with h; subst h
            obtain ⟨t', ht', hp'⟩ := ih _ hr
            exact ⟨t', by simp [ht'], hp'⟩
          | ok r => rw [hr] at h; cases h
      · simp only [hp, Bool.false_eq_true, if_false] at h
        cases hr : sanitizeTokens norm ts with
        | error e' =>
          rw [hr] at h; injection h with h; subst h
          obtain ⟨t', ht', hp'⟩ := ih _ hr
          exact ⟨t', by simp [ht'], hp'⟩
        | ok r => rw [hr] at h; cases h

/-- C14.3  Tokenisation and token rewriting fail only with the parsing error, or with Python's
SyntaxError, and the latter only when a Python fragment found in the string is itself rejected by
the Python parser (`norm`, i.e. `ast.parse`). For every string and configuration. -/
theorem pySyntax_only_from_fragment (cfg : ParseCfg) (env : PyEnv) (cs : List CharInfo) (e : ParseErr)
    (hnorm : ∀ t x, env.norm t = .error x → x = .syntaxError)
    (h : getTokens cfg env cs = .error e) :
    (∃ w, e = .syntax w) ∨
    (e = .pySyntax ∧ ∃ t ∈ (tokenizeStream cs).1, t.kind = some .python ∧ env.norm t.text = .error .syntaxError) := by
  unfold getTokens at h
  simp only at h
  cases hs : sanitizeTokens env.norm (tokenizeStream cs).1 with
  | error x =>
    rw [hs] at h
    injection h with h
    obtain ⟨t, ht, hk, hn⟩ := sanitize_err env.norm _ _ hs
    have hx := hnorm _ _ hn
    subst hx
    right
    exact ⟨by rw [← h]; rfl, t, ht, hk, hn⟩
  | ok ts =>
    rw [hs] at h
    simp only at h
    cases hl : (tokenizeStream cs).2 with
    | none => rw [hl] at h; cases h
    | some le =>
      rw [hl] at h
      injection h with h
      left
      cases le <;> exact ⟨_, h.symm⟩


end FormulaicVerif.Proofs.C14
