import FormulaicVerif.Model.Parser
import FormulaicVerif.Proofs.ShuntComplete
/-! Helper lemmas for C14: error classes of the shunting-yard and of evaluation. -/
namespace FormulaicVerif.Proofs.C14
open FormulaicVerif FormulaicVerif.Model FormulaicVerif.Proofs.ShuntC

def IsSyntax (e : ParseErr) : Prop := ∃ w, e = .syntax w

theorem operate_err (o : OpSpec) (i : Nat) (out : List Ast) (e : ParseErr)
    (h : operate o i out = .error e) : IsSyntax e := by
  unfold operate at h
  split at h
  split at h
  · injection h with h; exact ⟨_, h.symm⟩
  · cases h

theorem popWhile_err (c : OpSpec) : ∀ (stk : List SEntry) (out : List Ast) (e : ParseErr),
    popWhile c out stk = .error e → IsSyntax e := by
  intro stk
  induction stk with
  | nil => intro out e h; simp [popWhile] at h
  | cons en stk ih =>
    intro out e h
    cases en with
    | ctx ch i => simp [popWhile] at h
    | op o i =>
      unfold popWhile at h
      split at h
      · cases ho : operate o i out with
        | error e' => rw [ho] at h; injection h with h; subst h; exact operate_err o i out _ ho
        | ok out' => rw [ho] at h; exact ih out' e h
      · cases h

theorem tryCands_err (cs : List OpSpec) : ∀ (s : ShState) (e : ParseErr),
    tryCands cs s = .error e → IsSyntax e := by
  induction cs with
  | nil => intro s e h; simp [tryCands] at h; exact ⟨_, h.symm⟩
  | cons c cs ih =>
    intro s e h
    unfold tryCands at h
    split at h
    · exact ih s e h
    · split at h
      · exact ih s e h
      · cases hp : popWhile c s.out s.stack with
        | error e' => rw [hp] at h; injection h with h; subst h; exact popWhile_err c _ _ _ hp
        | ok s' =>
          rw [hp] at h
          simp only at h
          split at h <;> (try split at h) <;> first | cases h | exact ih s' e h

theorem closeCtx_err (op : Char) : ∀ (stk : List SEntry) (out : List Ast) (e : ParseErr),
    closeCtx op out stk = .error e → IsSyntax e := by
  intro stk
  induction stk with
  | nil => intro out e h; simp [closeCtx] at h; exact ⟨_, h.symm⟩
  | cons en stk ih =>
    intro out e h
    cases en with
    | ctx ch i =>
      unfold closeCtx at h
      split at h
      · cases h
      · injection h with h; exact ⟨_, h.symm⟩
    | op o i =>
      unfold closeCtx at h
      cases ho : operate o i out with
      | error e' => rw [ho] at h; injection h with h; subst h; exact operate_err o i out _ ho
      | ok out' => rw [ho] at h; exact ih out' e h

theorem runCands_err (gs : List (List OpSpec)) : ∀ (s : ShState) (e : ParseErr),
    runCands gs s = .error e → IsSyntax e := by
  induction gs with
  | nil => intro s e h; simp [runCands] at h
  | cons g gs ih =>
    intro s e h
    unfold runCands at h
    cases ht : tryCands g s with
    | error e' => rw [ht] at h; injection h with h; subst h; exact tryCands_err g s _ ht
    | ok s' => rw [ht] at h; exact ih s' e h

theorem resolveToken_err (tab : OpTable) (text : List Char) (e : ParseErr)
    (h : resolveToken tab text = .error e) : IsSyntax e := by
  unfold resolveToken at h
  split at h
  · cases h
  · simp only at h
    split at h
    · cases h
    · -- mapM over characters: every failure is the `unknown operator` syntax error
      generalize collapseSigns text = sym at h
      induction sym with
      | nil => simp [List.mapM_nil, pure, Except.pure] at h
      | cons c cs ih =>
        simp only [List.mapM_cons, bind, Except.bind] at h
        split at h
        · rename_i e' he
          split at he
          · cases he
          · injection he with he; injection h with h; subst h; exact ⟨_, he.symm⟩
        · rename_i v hv
          split at h
          · rename_i e' he
            injection h with h; subst h
            exact ih he
          · cases h

theorem shuntStep_err (tab : OpTable) (s : ShState) (t : Tok) (e : ParseErr)
    (h : shuntStep tab s t = .error e) : IsSyntax e := by
  unfold shuntStep at h
  split at h
  · split at h
    · cases h
    · split at h
      · cases h
      · split at h
        · exact closeCtx_err _ _ _ _ h
        · split at h
          · exact closeCtx_err _ _ _ _ h
          · injection h with h; exact ⟨_, h.symm⟩
  · cases hr : resolveToken tab t.text with
    | error e' => rw [hr] at h; injection h with h; subst h; exact resolveToken_err tab _ _ hr
    | ok gs => rw [hr] at h; exact runCands_err gs s e h
  · cases h

theorem shuntRun_err (tab : OpTable) (ts : List Tok) : ∀ (s : ShState) (e : ParseErr),
    shuntRun tab ts s = .error e → IsSyntax e := by
  induction ts with
  | nil => intro s e h; simp [shuntRun] at h
  | cons t ts ih =>
    intro s e h
    unfold shuntRun at h
    cases hs : shuntStep tab s t with
    | error e' => rw [hs] at h; injection h with h; subst h; exact shuntStep_err tab s t _ hs
    | ok s' => rw [hs] at h; exact ih s' e h

theorem finish_err : ∀ (stk : List SEntry) (out : List Ast) (e : ParseErr),
    finish out stk = .error e → IsSyntax e := by
  intro stk
  induction stk with
  | nil => intro out e h; simp [finish] at h
  | cons en stk ih =>
    intro out e h
    cases en with
    | ctx ch i => simp [finish] at h; exact ⟨_, h.symm⟩
    | op o i =>
      unfold finish at h
      cases ho : operate o i out with
      | error e' => rw [ho] at h; injection h with h; subst h; exact operate_err o i out _ ho
      | ok out' => rw [ho] at h; exact ih out' e h

/-- every failure of the shunting-yard is the library's parsing error, for every token list and every operator table -/
theorem shunt_errors_are_syntax (tab : OpTable) (ts : List Tok) (e : ParseErr)
    (h : tokensToAst tab ts = .error e) : IsSyntax e := by
  unfold tokensToAst at h
  cases hr : shuntRun tab ts {} with
  | error e' => rw [hr] at h; injection h with h; subst h; exact shuntRun_err tab ts _ _ hr
  | ok s =>
    rw [hr] at h
    simp only at h
    cases hf : finish s.out s.stack with
    | error e' => rw [hf] at h; injection h with h; subst h; exact finish_err _ _ _ hf
    | ok l =>
      rw [hf] at h
      match l, h with
      | [], h => cases h
      | [a], h => cases h
      | _ :: _ :: _, h => injection h with h; exact ⟨_, h.symm⟩


/-- outcome of evaluating a plain (non-structural) expression: a term set or the parsing error -/
def Good (r : Except ParseErr Val) : Prop := (∃ ts, r = .ok (.set ts)) ∨ (∃ w, r = .error (.syntax w))

def KnownOp (o : OpSpec) (n : Nat) : Prop :=
  o.structural = false ∧
  ((o.fixity = .infix ∧ n = 2 ∧ o.symbol ∈ ["+", "-", "*", "/", "in", ":", "**", "^"]) ∨
   (o.fixity = .prefix ∧ n = 1 ∧ o.symbol ∈ ["+", "-"]))

def PlainE : E → Prop
  | .atom _ => True
  | .paren e => PlainE e
  | .bin o _ _ l r => KnownOp o 2 ∧ PlainE l ∧ PlainE r
  | .pre o _ _ x => KnownOp o 1 ∧ PlainE x

theorem nestedProduct_good (a b : List Term) :
    (∃ ts, nestedProduct a b = .ok ts) ∨ (∃ w, nestedProduct a b = .error (.syntax w)) := by
  unfold nestedProduct
  cases a with
  | nil => right; exact ⟨_, rfl⟩
  | cons t ts => left; simp [reduceMulTerms]

theorem power_good (a b : List Term) :
    (∃ ts, power a b = .ok ts) ∨ (∃ w, power a b = .error (.syntax w)) := by
  unfold power
  split
  · split
    · split
      · left; exact ⟨_, rfl⟩
      · right; exact ⟨_, rfl⟩
    · right; exact ⟨_, rfl⟩
  · right; exact ⟨_, rfl⟩

theorem applyPlain_good2 (o : OpSpec) (dot : DotCtx) (x y : List Term) (h : KnownOp o 2) :
    (∃ ts, applyPlain o dot [x, y] = .ok ts) ∨ (∃ w, applyPlain o dot [x, y] = .error (.syntax w)) := by
  obtain ⟨_, h | h⟩ := h
  · obtain ⟨hf, _, hs⟩ := h
    simp only [List.mem_cons, List.mem_nil_iff, or_false] at hs
    unfold applyPlain
    rcases hs with hs | hs | hs | hs | hs | hs | hs | hs <;> rw [hs, hf] <;> simp only
    · left; exact ⟨_, rfl⟩
    · left; exact ⟨_, rfl⟩
    · left; exact ⟨_, rfl⟩
    · exact nestedProduct_good x y
    · exact nestedProduct_good y x
    · left; exact ⟨_, rfl⟩
    · exact power_good x y
    · exact power_good x y
  · omega

theorem applyPlain_good1 (o : OpSpec) (dot : DotCtx) (x : List Term) (h : KnownOp o 1) :
    ∃ ts, applyPlain o dot [x] = .ok ts := by
  obtain ⟨_, h | h⟩ := h
  · omega
  · obtain ⟨hf, _, hs⟩ := h
    simp only [List.mem_cons, List.mem_nil_iff, or_false] at hs
    unfold applyPlain
    rcases hs with hs | hs <;> rw [hs, hf] <;> exact ⟨_, rfl⟩

theorem evalArgs_cons (dot : DotCtx) (a : Ast) (as : List Ast) :
    evalAst.evalArgs dot (a :: as) =
      (match evalAst dot a with
       | .error e => .error e
       | .ok v => match evalAst.evalArgs dot as with
         | .error e => .error e
         | .ok vs => .ok (v :: vs)) := by
  rw [evalAst.evalArgs]
  cases evalAst dot a with
  | error e => rfl
  | ok v => cases evalAst.evalArgs dot as <;> rfl

theorem evalAst_node (dot : DotCtx) (o : OpSpec) (args : List Ast) :
    evalAst dot (.node o args) =
      (match evalAst.evalArgs dot args with
       | .error e => .error e
       | .ok vs =>
         if o.structural then applyStructural o vs
         else if vs.isEmpty then (applyPlain o dot []).map Val.set
         else mergeVals (applyPlain o dot) (vs.length + 64) false vs) := by
  rw [evalAst]
  cases evalAst.evalArgs dot args <;> rfl

theorem merge_sets2 (m : List (List Term) → Except ParseErr (List Term)) (x y : List Term) (n : Nat) :
    mergeVals m (n + 1) false [.set x, .set y] = (m [x, y]).map Val.set := by
  simp [mergeVals, Val.isTuple, Val.isStruct]

theorem merge_sets1 (m : List (List Term) → Except ParseErr (List Term)) (x : List Term) (n : Nat) :
    mergeVals m (n + 1) false [.set x] = (m [x]).map Val.set := by
  simp [mergeVals, Val.isTuple, Val.isStruct]

/-- evaluation of any expression of the arithmetic fragment yields a term set or the parsing error:
no internal exception (`TypeError` from an empty `reduce`, `ValueError` from a misaligned merge, …)
is reachable, for unbounded nesting -/
theorem eval_plain_good (dot : DotCtx) (e : E) (h : PlainE e) : Good (evalAst dot (strip e)) := by
  induction e with
  | atom t => left; exact ⟨[termOfTok t], by simp [strip, evalAst]⟩
  | paren e ih => exact ih h
  | bin o sym cs l r ihl ihr =>
    obtain ⟨hk, hl, hr⟩ := h
    simp only [strip, evalAst_node, evalArgs_cons]
    rcases ihl hl with ⟨x, hx⟩ | ⟨w, hw⟩
    · rcases ihr hr with ⟨y, hy⟩ | ⟨w, hw⟩
      · rw [hx, hy]
        have : evalAst.evalArgs dot [] = .ok [] := by rw [evalAst.evalArgs]
        simp only [this, hk.1, Bool.false_eq_true, if_false, List.isEmpty_cons, List.length_cons,
          List.length_nil]
        rw [merge_sets2]
        rcases applyPlain_good2 o dot x y hk with ⟨ts, ht⟩ | ⟨w, hw⟩
        · left; exact ⟨ts, by rw [ht]; rfl⟩
        · right; exact ⟨w, by rw [hw]; rfl⟩
      · rw [hx, hw]; right; exact ⟨w, rfl⟩
    · rw [hw]; right; exact ⟨w, rfl⟩
  | pre o sym cs x ihx =>
    obtain ⟨hk, hx⟩ := h
    simp only [strip, evalAst_node, evalArgs_cons]
    rcases ihx hx with ⟨v, hv⟩ | ⟨w, hw⟩
    · rw [hv]
      have : evalAst.evalArgs dot [] = .ok [] := by rw [evalAst.evalArgs]
      simp only [this, hk.1, Bool.false_eq_true, if_false, List.isEmpty_cons, List.length_cons,
        List.length_nil]
      rw [merge_sets1]
      obtain ⟨ts, ht⟩ := applyPlain_good1 o dot v hk
      left; exact ⟨ts, by rw [ht]; rfl⟩
    · rw [hw]; right; exact ⟨w, rfl⟩

end FormulaicVerif.Proofs.C14
