import FormulaicVerif.Proofs.C19St
/-! Helper lemmas for C19, part 3: first occurrences and insertion-ordered dictionaries. Not obligations. -/
namespace FormulaicVerif.Proofs.C19
open FormulaicVerif.Model.St FormulaicVerif.Spec.Containers

variable {α β γ δ : Type}

/-! ### first occurrences -/
theorem mem_firstOcc (xs : List String) (k : String) : k ∈ firstOcc xs ↔ k ∈ xs := by
  induction xs with
  | nil => simp [firstOcc]
  | cons x r ih =>
    simp only [firstOcc, List.mem_cons, List.mem_filter, ih]
    by_cases h : k = x <;> simp [h]

theorem firstOcc_nodup (xs : List String) : (firstOcc xs).Nodup := by
  induction xs with
  | nil => simp [firstOcc]
  | cons x r ih =>
    simp only [firstOcc, List.nodup_cons, List.mem_filter]
    exact ⟨by simp, ih.filter _⟩

theorem firstOcc_of_nodup (xs : List String) (h : xs.Nodup) : firstOcc xs = xs := by
  induction xs with
  | nil => rfl
  | cons x r ih =>
    rw [List.nodup_cons] at h
    simp only [firstOcc, ih h.2]
    congr 1
    rw [List.filter_eq_self]
    intro y hy
    have : y ≠ x := fun e => h.1 (e ▸ hy)
    simpa using this

/-- `ks` with `k` appended unless present -/
def addKey (ks : List String) (k : String) : List String := if ks.contains k then ks else ks ++ [k]

theorem foldl_addKey (xs ks : List String) :
    xs.foldl addKey ks = ks ++ (firstOcc xs).filter (fun k => !ks.contains k) := by
  induction xs generalizing ks with
  | nil => simp [firstOcc]
  | cons x r ih =>
    simp only [List.foldl_cons, ih, firstOcc, List.filter_cons]
    by_cases hx : ks.contains x = true
    · simp only [addKey, hx, if_true, Bool.not_true, Bool.false_eq_true, if_false, List.filter_filter]
      congr 1
      apply List.filter_congr
      intro y _
      by_cases hy : y = x
      · subst hy
        have hm : y ∈ ks := by simpa using hx
        simp [hm]
      · simp [hy]
    · have hx' : ks.contains x = false := by simpa using hx
      simp only [addKey, hx', Bool.false_eq_true, if_false, Bool.not_false, if_true,
        List.append_assoc, List.singleton_append, List.filter_filter]
      congr 2
      apply List.filter_congr
      intro y _
      by_cases hy : y = x
      · subst hy; simp
      · simp [hy]

/-! ### dictionaries -/
theorem lookup_dictSet (d : List (String × γ)) (k : String) (v : γ) (k' : String) :
    (dictSet d k v).lookup k' = if k' == k then some v else d.lookup k' := by
  induction d with
  | nil =>
    by_cases h : k' = k
    · subst h; simp [dictSet]
    · have hb : (k' == k) = false := by simpa using h
      simp [dictSet, List.lookup, hb]
  | cons kv r ih =>
    obtain ⟨k0, v0⟩ := kv
    by_cases h0 : k0 = k
    · subst h0
      by_cases h : k' = k0
      · subst h; simp [dictSet]
      · have hb : (k' == k0) = false := by simpa using h
        simp [dictSet, List.lookup, hb]
    · have hb : (k0 == k) = false := by simpa using h0
      simp only [dictSet, hb, Bool.false_eq_true, if_false, List.lookup, ih]
      by_cases h1 : k' = k0
      · subst h1
        have : (k' == k) = false := by simpa using h0
        simp [this]
      · have hb1 : (k' == k0) = false := by simpa using h1
        simp [hb1]

theorem keys_dictSet (d : List (String × γ)) (k : String) (v : γ) :
    (dictSet d k v).map (·.1) = addKey (d.map (·.1)) k := by
  induction d with
  | nil => simp [dictSet, addKey]
  | cons kv r ih =>
    obtain ⟨k0, v0⟩ := kv
    by_cases h0 : k0 = k
    · subst h0; simp [dictSet, addKey]
    · have hb : (k0 == k) = false := by simpa using h0
      simp only [dictSet, hb, Bool.false_eq_true, if_false, List.map_cons, ih, addKey,
        List.contains_cons]
      have hb' : (k == k0) = false := by simpa using (Ne.symm h0)
      simp only [hb', Bool.false_or]
      split <;> simp

theorem keys_dictUpdate (d u : List (String × γ)) :
    (dictUpdate d u).map (·.1) = (u.map (·.1)).foldl addKey (d.map (·.1)) := by
  unfold dictUpdate
  induction u generalizing d with
  | nil => simp
  | cons kv r ih => simp [List.foldl_cons, ih, keys_dictSet]

theorem lookup_eq_none_of_not_mem (d : List (String × γ)) (k : String) (h : k ∉ d.map (·.1)) :
    d.lookup k = none := by
  induction d with
  | nil => rfl
  | cons kv r ih =>
    obtain ⟨k0, v0⟩ := kv
    simp only [List.map_cons, List.mem_cons, not_or] at h
    have : (k == k0) = false := by simpa using h.1
    simp [List.lookup, this, ih h.2]

theorem lookup_dictUpdate (d u : List (String × γ)) (hu : (u.map (·.1)).Nodup) (k : String) :
    (dictUpdate d u).lookup k = match u.lookup k with
      | some v => some v
      | none => d.lookup k := by
  unfold dictUpdate
  induction u generalizing d with
  | nil => simp
  | cons kv r ih =>
    obtain ⟨k0, v0⟩ := kv
    simp only [List.map_cons, List.nodup_cons] at hu
    simp only [List.foldl_cons, ih _ hu.2, lookup_dictSet, List.lookup]
    by_cases h : k = k0
    · subst h
      simp [lookup_eq_none_of_not_mem r k hu.1]
    · have : (k == k0) = false := by simpa using h
      simp [this]

theorem dict_ext : ∀ (l1 l2 : List (String × γ)), l1.map (·.1) = l2.map (·.1) → (l1.map (·.1)).Nodup →
    (∀ k, l1.lookup k = l2.lookup k) → l1 = l2
  | [], [], _, _, _ => rfl
  | [], _ :: _, h, _, _ => by simp at h
  | _ :: _, [], h, _, _ => by simp at h
  | (k1, v1) :: r1, (k2, v2) :: r2, hk, hn, hl => by
    simp only [List.map_cons, List.cons.injEq] at hk
    obtain ⟨hk1, hkr⟩ := hk
    subst hk1
    simp only [List.map_cons, List.nodup_cons] at hn
    have hv : v1 = v2 := by simpa [List.lookup] using hl k1
    subst hv
    congr 1
    apply dict_ext r1 r2 hkr hn.2
    intro k
    by_cases h : k = k1
    · subst h
      rw [lookup_eq_none_of_not_mem r1 k hn.1, lookup_eq_none_of_not_mem r2 k (hkr ▸ hn.1)]
    · have hb : (k == k1) = false := by simpa using h
      simpa [List.lookup, hb] using hl k

theorem keys_rootLast (xs : List (String × γ)) :
    (rootLast xs).map (·.1) = (xs.map (·.1)).filter (fun k => !isRootKey k) ++ (xs.map (·.1)).filter isRootKey := by
  simp [rootLast, List.filter_map, Function.comp_def]

end FormulaicVerif.Proofs.C19
