import FormulaicVerif.Proofs.C15Alias
import Std.Data.String.ToNat
/-! Helper lemmas for C15: the suffix loop of `sanitize_variable_name` always stops within the bound
the model gives it (a pigeonhole argument: the candidates are pairwise different, and every refused
candidate is an alias in use, a key of the environment, a reserved word or a keyword). -/
namespace FormulaicVerif.Proofs.C15Loop
open FormulaicVerif FormulaicVerif.Model.PyAlias FormulaicVerif.Proofs.C15Alias

theorem candidate_injective (pre base : List Char) (j k : Nat) (h : candidate pre base j = candidate pre base k) :
    j = k := by
  unfold candidate at h
  by_cases hj : j = 0
  · by_cases hk : k = 0
    · omega
    · simp only [hj, beq_self_eq_true, if_true, beq_iff_eq, hk, if_false] at h
      have := congrArg List.length h
      simp at this
  · by_cases hk : k = 0
    · simp only [beq_iff_eq, hj, if_false, hk, if_true] at h
      have := congrArg List.length h
      simp at this
    · simp only [beq_iff_eq, hj, if_false, hk] at h
      have h2 := List.append_cancel_left h
      simp only [List.cons.injEq, true_and] at h2
      exact Nat.repr_injective (String.toList_inj.mp h2)

theorem findFree_none (x : Ctx) (name pre base : List Char) : ∀ (fuel k : Nat),
    findFree x name pre base fuel k = none → ∀ j, k ≤ j → j ≤ k + fuel → taken x name (candidate pre base j) = true := by
  intro fuel
  induction fuel with
  | zero =>
    intro k h j h1 h2
    have : j = k := by omega
    subst this
    unfold findFree at h
    split at h
    · assumption
    · simp at h
  | succ fuel ih =>
    intro k h j h1 h2
    unfold findFree at h
    split at h
    · rename_i ht
      by_cases hjk : j = k
      · subst hjk; exact ht
      · exact ih (k + 1) h j (by omega) (by omega)
    · simp at h

theorem lookup_some_mem (al : Aliases) (k v : List Char) (h : lookup al k = some v) : k ∈ al.map (·.1) := by
  induction al with
  | nil => simp [lookup] at h
  | cons p al ih =>
    rw [lookup_cons] at h
    by_cases hp : (p.1 == k) = true
    · have : p.1 = k := by simpa using hp
      simp [this]
    · simp only [hp, Bool.false_eq_true, if_false] at h
      simp [ih h]

/-- everything the loop can refuse -/
def refusable (x : Ctx) : List (List Char) :=
  x.al.map (·.1) ++ x.env ++ x.reserved ++ Gen.pythonKeywords.map String.toList

theorem refusable_length (x : Ctx) : (refusable x).length = loopBound x := by
  simp [refusable, loopBound]; omega

theorem taken_mem (x : Ctx) (name c : List Char) (h : taken x name c = true) : c ∈ refusable x := by
  unfold taken at h
  simp only [Bool.or_eq_true, Bool.not_eq_true', Bool.and_eq_true] at h
  unfold refusable
  rcases h with ((h | h) | h) | h
  · unfold getOr at h
    cases hl : lookup x.al c with
    | none => simp [hl] at h
    | some n => simp [lookup_some_mem x.al c n hl]
  · have : c ∈ x.env := by simpa using h.1
    simp [this]
  · unfold isKeyword at h
    have : String.ofList c ∈ Gen.pythonKeywords := by simpa using h
    have : c ∈ Gen.pythonKeywords.map String.toList := List.mem_map.mpr ⟨_, this, by simp⟩
    simp [this]
  · have : c ∈ x.reserved := by simpa using h
    simp [this]

/-- **The suffix loop stops.** Within `loopBound` further rounds some candidate is accepted. -/
theorem findFree_total (x : Ctx) (name pre base : List Char) :
    ∃ a, findFree x name pre base (loopBound x) 0 = some a := by
  cases h : findFree x name pre base (loopBound x) 0 with
  | some a => exact ⟨a, rfl⟩
  | none =>
    exfalso
    have hall := findFree_none x name pre base (loopBound x) 0 h
    let L := (List.range (loopBound x + 1)).map (candidate pre base)
    have hnd : L.Nodup := by
      refine List.Pairwise.map (R := (· ≠ ·)) _ ?_ (List.nodup_range)
      intro a b hab hc
      exact hab (candidate_injective pre base a b hc)
    have hsub : L ⊆ refusable x := by
      intro c hc
      obtain ⟨j, hj, rfl⟩ := List.mem_map.mp hc
      exact taken_mem x name _ (hall j (Nat.zero_le _) (by simpa using List.mem_range.mp hj |> Nat.le_of_lt_succ))
    have := hnd.length_le_of_subset hsub
    rw [refusable_length] at this
    simp [L] at this
    omega

/-- `sanitize_variable_name` always returns a name -/
theorem sanitizeName_total (cfg : Cfg) (x : Ctx) (name : List Char) : ∃ r, sanitizeName cfg x name = some r := by
  unfold sanitizeName
  split
  · exact ⟨_, rfl⟩
  · obtain ⟨a, ha⟩ := findFree_total x name cfg.pre (baseName name)
    rw [ha]
    exact ⟨_, rfl⟩

theorem step_total (cfg : Cfg) (res : List (List Char)) (s : State) (p : Part) : ∃ s', step cfg res s p = some s' := by
  cases p with
  | text t => exact ⟨_, rfl⟩
  | lit t => exact ⟨_, rfl⟩
  | name b =>
    obtain ⟨r, hr⟩ := sanitizeName_total cfg { al := s.al, env := s.env, reserved := res } b
    simp only [step, hr]
    exact ⟨_, rfl⟩

theorem run_total (cfg : Cfg) (res : List (List Char)) : ∀ (ps : List Part) (s : State), ∃ s', run cfg res ps s = some s' := by
  intro ps
  induction ps with
  | nil => intro s; exact ⟨s, rfl⟩
  | cons p ps ih =>
    intro s
    obtain ⟨s1, h1⟩ := step_total cfg res s p
    obtain ⟨s2, h2⟩ := ih s1
    exact ⟨s2, by simp [run, h1, h2]⟩

/-- **`sanitize_variable_names` is total**: the model never reports an exhausted loop bound -/
theorem sanitizeNames_total (cfg : Cfg) (p : Char → Bool) (env : List (List Char)) (expr : List Char) :
    ∃ r, sanitizeNames cfg p env expr = some r := by
  unfold sanitizeNames
  obtain ⟨s, hs⟩ := run_total cfg (reservedWords (split expr)) (split expr) { env := env }
  simp only [hs]
  exact ⟨_, rfl⟩

end FormulaicVerif.Proofs.C15Loop
