import FormulaicVerif.Model.Heap
import FormulaicVerif.Spec.Purity
/-! Helper lemmas for C18: the in-place encoding loops of one spec act on that spec's encoder cell
exactly as the value-level loops act on the cell's content, and touch nothing else. -/
namespace FormulaicVerif.Proofs.C18
open FormulaicVerif.Model.Heap FormulaicVerif.Spec.Purity

variable {F E : Type}

/-- the value of a spec record in a world -/
def absS (w : World F E) (s : Spec E) : PSpec F E :=
  ⟨s.formula, s.cfg, s.struct, w.tcells s.t, w.ecells s.e⟩

theorem setE_self (w : World F E) (r : Nat) : w.setE r (w.ecells r) = w := by
  cases w with
  | mk tc ec nx sp =>
    simp only [World.setE, World.mk.injEq, true_and, and_true]
    funext r'
    by_cases h : r' = r <;> simp [h]

theorem setE_setE (w : World F E) (r : Nat) (a b : Dict E) : (w.setE r a).setE r b = w.setE r b := by
  simp only [World.setE, World.mk.injEq, true_and, and_true]
  funext r'
  by_cases h : r' = r <;> simp [h]

@[simp] theorem setE_ecells_self (w : World F E) (r : Nat) (a : Dict E) : (w.setE r a).ecells r = a := by
  simp [World.setE]

theorem setE_ecells_ne (w : World F E) {r r' : Nat} (h : r' ≠ r) (a : Dict E) :
    (w.setE r a).ecells r' = w.ecells r' := by
  simp [World.setE, h]

@[simp] theorem setE_tcells (w : World F E) (r : Nat) (a : Dict E) : (w.setE r a).tcells = w.tcells := rfl
@[simp] theorem setE_next (w : World F E) (r : Nat) (a : Dict E) : (w.setE r a).next = w.next := rfl
@[simp] theorem setE_specs (w : World F E) (r : Nat) (a : Dict E) : (w.setE r a).specs = w.specs := rfl

/-- a value-level loop state put back into the world: the cell `er` holds the dictionary -/
def lift (w : World F E) (er : Nat) (pe : PEncSt F E) : EncSt F E := (w.setE er pe.1, pe.2.1, pe.2.2)
/-- the value-level view of an in-place loop state -/
def proj (er : Nat) (st : EncSt F E) : PEncSt F E := (st.1.ecells er, st.2.1, st.2.2)

theorem lift_proj (er : Nat) (st : EncSt F E) : lift st.1 er (proj er st) = st := by
  simp [lift, proj, setE_self]

theorem foldl_lift {α : Type} (f : EncSt F E → α → EncSt F E) (g : PEncSt F E → α → PEncSt F E) (er : Nat)
    (h : ∀ st x, f st x = lift st.1 er (g (proj er st) x)) :
    ∀ (xs : List α) (st : EncSt F E), xs.foldl f st = lift st.1 er (xs.foldl g (proj er st)) := by
  intro xs
  induction xs with
  | nil => intro st; simp [lift_proj]
  | cons x xs ih =>
    intro st
    simp only [List.foldl_cons]
    rw [ih, h]
    simp [lift, proj, setE_setE]

variable (P : Params F E)

theorem recordState_eq (w : World F E) (er : Nat) (esc : Dict E) (f : Factor) :
    recordState w er esc f = w.setE er (pRecordState (w.ecells er) esc f) := by
  unfold recordState pRecordState pRecordAdd
  cases esc f with
  | none => simp [pRecordApply, setE_self]
  | some v =>
    simp only
    cases w.ecells er f with
    | some u => simp [pRecordApply, setE_self]
    | none => rfl

theorem pRecordState_def (cell esc : Dict E) (f : Factor) :
    pRecordApply cell f (pRecordAdd cell esc f) = pRecordState cell esc f := rfl

theorem encodeFactor_lift (d : Data) (kept : List Nat) (cache : Dict (List (String × F))) (er : Nat)
    (st : EncSt F E) (fr : Factor × Bool) :
    encodeFactor P d kept cache er st fr = lift st.1 er (pEncodeFactor P d kept cache (proj er st) fr) := by
  obtain ⟨w, ec, r⟩ := st
  unfold encodeFactor pEncodeFactor lift proj
  cases r with
  | error e => simp [setE_self]
  | ok acc =>
    simp only
    cases cache fr.1 with
    | none => simp [setE_self]
    | some fits =>
      simp only [recordState_eq, pRecordState_def]
      cases ec.1 fr.1 fr.2 with
      | some enc => rfl
      | none => simp only [setE_setE, setE_ecells_self]; rfl

theorem encodeTerm_lift (d : Data) (kept : List Nat) (cache : Dict (List (String × F))) (er : Nat)
    (st : EncSt F E) (k : TermKey) :
    encodeTerm P d kept cache er st k = lift st.1 er (pEncodeTerm P d kept cache (proj er st) k) := by
  unfold encodeTerm pEncodeTerm
  obtain ⟨w, ec, r⟩ := st
  cases r with
  | error e => simp [lift, proj, setE_self]
  | ok acc =>
    simp only [proj]
    by_cases h : (TermKey.factors P k).all (fun fr => (cache fr.1).isSome) = true
    · simp only [h, if_true]
      exact foldl_lift _ _ er (encodeFactor_lift P d kept cache er) _ (w, ec, .ok acc)
    · simp [h, lift, setE_self]

theorem encodeTerms_lift (d : Data) (kept : List Nat) (cache : Dict (List (String × F))) (er : Nat)
    (ks : List TermKey) (st : EncSt F E) :
    ks.foldl (encodeTerm P d kept cache er) st
      = lift st.1 er (ks.foldl (pEncodeTerm P d kept cache) (proj er st)) :=
  foldl_lift _ _ er (encodeTerm_lift P d kept cache er) ks st

end FormulaicVerif.Proofs.C18
