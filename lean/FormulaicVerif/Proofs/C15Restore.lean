import FormulaicVerif.Proofs.C15Alias
/-! Helper lemmas for C15: the one-pass restoration of `sanitize_python_code` undoes the alias pass
of `sanitize_variable_names` exactly. -/
namespace FormulaicVerif.Proofs.C15Restore
open FormulaicVerif FormulaicVerif.Model.PyAlias FormulaicVerif.Proofs.C15Alias

/-! ### words and runs -/

/-- a character that is not an ASCII word character ends the run being read -/
theorem restoreAux_nonword (al : Aliases) (c : Char) (hc : asciiWord c = false) :
    ∀ (xs ys cur : List Char),
      restoreAux al (xs ++ c :: ys) cur = restoreAux al xs cur ++ c :: restoreAux al ys [] := by
  intro xs
  induction xs with
  | nil => intro ys cur; simp [restoreAux, hc]
  | cons x xs ih =>
    intro ys cur
    by_cases hx : asciiWord x = true
    · simp only [List.cons_append, restoreAux, hx, if_true, ih]
    · simp only [List.cons_append, restoreAux, hx, Bool.false_eq_true, if_false, ih, List.append_assoc]

theorem wordsAux_nonword (c : Char) (hc : asciiWord c = false) :
    ∀ (xs ys cur : List Char), wordsAux (xs ++ c :: ys) cur = wordsAux xs cur ++ wordsAux ys [] := by
  intro xs
  induction xs with
  | nil =>
    intro ys cur
    by_cases hcur : cur.isEmpty = true
    · simp [wordsAux, hc, hcur]
    · simp [wordsAux, hc, hcur]
  | cons x xs ih =>
    intro ys cur
    by_cases hx : asciiWord x = true
    · simp only [List.cons_append, wordsAux, hx, if_true, ih]
    · by_cases hcur : cur.isEmpty = true
      · simp only [List.cons_append, wordsAux, hx, Bool.false_eq_true, if_false, hcur, if_true, ih]
      · simp only [List.cons_append, wordsAux, hx, Bool.false_eq_true, if_false, hcur, ih, List.cons_append]

/-- a run of ASCII word characters is looked up as a whole -/
theorem restoreAux_run (al : Aliases) : ∀ (w cur : List Char), (∀ c ∈ w, asciiWord c = true) →
    restoreAux al w cur = restoreAux.subst al (cur.reverse ++ w) := by
  intro w
  induction w with
  | nil => intro cur _; simp [restoreAux]
  | cons x w ih =>
    intro cur h
    have hx : asciiWord x = true := h x (by simp)
    simp only [restoreAux, hx, if_true]
    rw [ih (x :: cur) (fun c hc => h c (by simp [hc]))]
    simp

theorem subst_none (al : Aliases) (w : List Char) (h : lookup al w = none) : restoreAux.subst al w = w := by
  simp [restoreAux.subst, h]

/-- text none of whose words is an alias is copied -/
theorem restoreAux_id (al : Aliases) (hnil : lookup al [] = none) : ∀ (t cur : List Char),
    (∀ w ∈ wordsAux t cur, lookup al w = none) → restoreAux al t cur = cur.reverse ++ t := by
  intro t
  induction t with
  | nil =>
    intro cur h
    simp only [restoreAux, List.append_nil]
    by_cases hcur : cur.isEmpty = true
    · have : cur = [] := by simpa using hcur
      subst this
      exact subst_none al [] hnil
    · have hw : cur.reverse ∈ wordsAux [] cur := by simp [wordsAux, hcur]
      exact subst_none al _ (h _ hw)
  | cons x t ih =>
    intro cur h
    by_cases hx : asciiWord x = true
    · simp only [restoreAux, hx, if_true]
      rw [ih (x :: cur) (by simpa [wordsAux, hx] using h)]
      simp
    · simp only [restoreAux, hx, Bool.false_eq_true, if_false]
      by_cases hcur : cur.isEmpty = true
      · have : cur = [] := by simpa using hcur
        subst this
        have h' : ∀ w ∈ wordsAux t [], lookup al w = none := by simpa [wordsAux, hx] using h
        rw [ih [] h']
        simp only [List.reverse_nil, List.nil_append]
        rw [subst_none al [] hnil]
        simp
      · have h' : ∀ w ∈ cur.reverse :: wordsAux t [], lookup al w = none := by simpa [wordsAux, hx, hcur] using h
        rw [ih [] (fun w hw => h' w (by simp [hw])), subst_none al _ (h' _ (by simp))]
        simp

/-! ### restoration of the sanitised text -/

/-- what a part looks like after the round trip: a back-quoted name is back, with the two spaces the
alias pass put around it -/
def target : Part → List Char
  | .name b => ' ' :: '`' :: b ++ ['`', ' ']
  | .text t => t
  | .lit t => t

/-- no word of the code (of the parts that are not back-quoted names) is an alias -/
def WordsFree (al : Aliases) (ps : List Part) : Prop := ∀ w ∈ reservedWords ps, lookup al w = none

theorem reservedWords_cons (p : Part) (ps : List Part) :
    reservedWords (p :: ps) = p.words ++ reservedWords ps := by
  simp [reservedWords]

theorem WordsFree.tail {al : Aliases} {p : Part} {ps : List Part} (h : WordsFree al (p :: ps)) : WordsFree al ps := by
  intro w hw
  apply h w
  rw [reservedWords_cons]
  exact List.mem_append_right _ hw

theorem words_lit {d d' : Char} (mid : List Char) (hd : asciiWord d = false) (hd' : asciiWord d' = false) :
    words (d :: mid ++ [d']) = words mid := by
  unfold words
  have h1 := wordsAux_nonword d hd [] (mid ++ [d']) []
  simp only [List.nil_append] at h1
  rw [List.cons_append, h1]
  have h2 := wordsAux_nonword d' hd' mid [] []
  rw [h2]
  simp [wordsAux]

theorem space_nonword : asciiWord ' ' = false := by decide

theorem restore_rendered (al : Aliases) (hnil : lookup al [] = none) : ∀ (ps : List Part), Alt ps →
    ∀ (r : List Char), RenderedAll al ps r → WordsFree al ps → restoreAux al r [] = (ps.map target).flatten := by
  intro ps halt
  induction halt with
  | last t =>
    intro r hr hf
    cases hr with
    | cons h1 h2 =>
      cases h2
      cases h1
      have hw : ∀ w ∈ wordsAux t [], lookup al w = none := by
        intro w hw
        apply hf w
        simp [reservedWords, Part.words, words, hw]
      rw [List.append_nil, restoreAux_id al hnil t [] hw]
      simp [target]
  | cons t m rest hm _ ih =>
    intro r hr hf
    cases hr with
    | cons h1 h2 =>
      cases h1
      cases h2 with
      | cons h3 h4 =>
        rename_i rm rr
        have hwt : ∀ w ∈ wordsAux t [], lookup al w = none := by
          intro w hw
          apply hf w
          rw [reservedWords_cons]
          exact List.mem_append_left _ (by simpa [Part.words, words] using hw)
        have ihr := ih rr h4 hf.tail.tail
        cases h3 with
        | text t' => exact absurd hm (by simp [IsMatch])
        | lit l =>
          obtain ⟨d, mid, d', hl, hd, hd'⟩ := hm
          subst hl
          have hwm : ∀ w ∈ wordsAux mid [], lookup al w = none := by
            intro w hw
            apply hf.tail w
            rw [reservedWords_cons]
            refine List.mem_append_left _ ?_
            show w ∈ words (d :: mid ++ [d'])
            rw [words_lit mid hd hd']
            exact hw
          have e1 : t ++ ((d :: mid ++ [d']) ++ rr) = t ++ d :: (mid ++ d' :: rr) := by simp
          rw [e1, restoreAux_nonword al d hd, restoreAux_nonword al d' hd', restoreAux_id al hnil t [] hwt,
            restoreAux_id al hnil mid [] hwm, ihr]
          simp [target]
        | name b a hl hne hw =>
          have e1 : t ++ ((' ' :: a ++ [' ']) ++ rr) = t ++ ' ' :: (a ++ ' ' :: rr) := by simp
          rw [e1, restoreAux_nonword al ' ' space_nonword, restoreAux_nonword al ' ' space_nonword,
            restoreAux_id al hnil t [] hwt, restoreAux_run al a [] hw, ihr]
          simp [target, restoreAux.subst, hl]

/-! ### `str.strip` commutes with the restoration -/

/-- what is assumed of `str.isspace` (CPython): whitespace is not an ASCII word character, and the
back-quote is not whitespace -/
structure SpaceOK (p : Char → Bool) : Prop where
  nonword : ∀ c, p c = true → asciiWord c = false
  backtick : p '`' = false

def HeadOK (p : Char → Bool) (l : List Char) : Prop := ∀ z, l.head? = some z → p z = false
def LastOK (p : Char → Bool) (l : List Char) : Prop := ∀ z, l.getLast? = some z → p z = false

theorem subst_headOK {p : Char → Bool} (hp : SpaceOK p) (al : Aliases) (w : List Char) (h : HeadOK p w) :
    HeadOK p (restoreAux.subst al w) := by
  unfold restoreAux.subst
  cases lookup al w with
  | none => exact h
  | some n => intro z hz; simp at hz; subst hz; exact hp.backtick

theorem subst_lastOK {p : Char → Bool} (hp : SpaceOK p) (al : Aliases) (w : List Char) (h : LastOK p w) :
    LastOK p (restoreAux.subst al w) := by
  unfold restoreAux.subst
  cases lookup al w with
  | none => exact h
  | some n =>
    intro z hz
    have : ('`' :: n ++ ['`']).getLast? = some '`' := by
      rw [show '`' :: n ++ ['`'] = ('`' :: n) ++ ['`'] by simp, List.getLast?_append]; simp
    rw [this] at hz
    simp at hz; subst hz; exact hp.backtick

theorem restoreAux_headOK {p : Char → Bool} (hp : SpaceOK p) (al : Aliases) (hnil : lookup al [] = none) :
    ∀ (cs cur : List Char), HeadOK p (cur.reverse ++ cs) → HeadOK p (restoreAux al cs cur) := by
  intro cs
  induction cs with
  | nil => intro cur h; simp only [restoreAux]; exact subst_headOK hp al _ (by simpa using h)
  | cons c cs ih =>
    intro cur h
    by_cases hc : asciiWord c = true
    · simp only [restoreAux, hc, if_true]
      exact ih (c :: cur) (by simpa using h)
    · simp only [restoreAux, hc, Bool.false_eq_true, if_false]
      cases cur with
      | nil =>
        simp only [List.reverse_nil]
        rw [subst_none al [] hnil]
        intro z hz
        exact h z (by simpa using hz)
      | cons d cur =>
        have hne : (d :: cur).reverse ≠ [] := by simp
        have hh : HeadOK p (d :: cur).reverse := by
          intro z hz
          apply h z
          rw [List.head?_append, hz]; simp
        have hs := subst_headOK hp al _ hh
        intro z hz
        cases hsub : restoreAux.subst al (d :: cur).reverse with
        | nil =>
          -- the substitution of a non-empty run is never empty
          unfold restoreAux.subst at hsub
          cases hl : lookup al (d :: cur).reverse with
          | none => rw [hl] at hsub; exact absurd hsub hne
          | some n => rw [hl] at hsub; simp at hsub
        | cons y ys =>
          rw [hsub] at hz hs
          simp at hz
          exact hs z (by simp [hz])

theorem subst_ne_nil (al : Aliases) (w : List Char) (h : w ≠ []) : restoreAux.subst al w ≠ [] := by
  unfold restoreAux.subst
  cases lookup al w with
  | none => exact h
  | some n => simp

theorem restoreAux_ne_nil (al : Aliases) : ∀ (cs cur : List Char), cur.reverse ++ cs ≠ [] → restoreAux al cs cur ≠ [] := by
  intro cs
  induction cs with
  | nil => intro cur h; simp only [restoreAux]; exact subst_ne_nil al _ (by simpa using h)
  | cons c cs ih =>
    intro cur _
    by_cases hc : asciiWord c = true
    · simp only [restoreAux, hc, if_true]; exact ih (c :: cur) (by simp)
    · simp only [restoreAux, hc, Bool.false_eq_true, if_false]; simp

theorem dropWhile_of_headOK {p : Char → Bool} {l : List Char} (h : HeadOK p l) : l.dropWhile p = l := by
  cases l with
  | nil => rfl
  | cons c cs => simp [List.dropWhile, h c (by simp)]

theorem restore_dropWhile {p : Char → Bool} (hp : SpaceOK p) (al : Aliases) (hnil : lookup al [] = none) :
    ∀ (s : List Char), restoreAux al (s.dropWhile p) [] = (restoreAux al s []).dropWhile p := by
  intro s
  induction s with
  | nil => simp [restoreAux, subst_none al [] hnil]
  | cons c cs ih =>
    by_cases hc : p c = true
    · have hw := hp.nonword c hc
      simp only [List.dropWhile_cons, hc, if_true, restoreAux, hw, Bool.false_eq_true, if_false,
        List.reverse_nil, subst_none al [] hnil, List.nil_append]
      exact ih
    · have hc' : p c = false := by simpa using hc
      have hh : HeadOK p (restoreAux al (c :: cs) []) :=
        restoreAux_headOK hp al hnil (c :: cs) [] (by intro z hz; simp at hz; subst hz; exact hc')
      rw [dropWhile_of_headOK hh]
      simp [List.dropWhile_cons, hc']

theorem restoreAux_lastOK {p : Char → Bool} (hp : SpaceOK p) (al : Aliases) (hnil : lookup al [] = none) :
    ∀ (cs cur : List Char), LastOK p (cur.reverse ++ cs) → LastOK p (restoreAux al cs cur) := by
  intro cs
  induction cs with
  | nil => intro cur h; simp only [restoreAux]; exact subst_lastOK hp al _ (by simpa using h)
  | cons c cs ih =>
    intro cur h
    by_cases hc : asciiWord c = true
    · simp only [restoreAux, hc, if_true]
      exact ih (c :: cur) (by simpa using h)
    · simp only [restoreAux, hc, Bool.false_eq_true, if_false]
      have hrest : LastOK p (c :: restoreAux al cs []) := by
        cases cs with
        | nil =>
          simp only [restoreAux, List.reverse_nil, subst_none al [] hnil]
          intro z hz
          apply h z
          simpa using hz
        | cons d ds =>
          have h2 : LastOK p ([].reverse ++ (d :: ds)) := by
            intro z hz
            apply h z
            rw [List.getLast?_append]
            simp only [List.reverse_nil, List.nil_append] at hz
            rw [List.getLast?_cons_cons, hz]
            simp
          have h3 := ih [] h2
          intro z hz
          cases hr : restoreAux al (d :: ds) [] with
          | nil => exact absurd hr (restoreAux_ne_nil al (d :: ds) [] (by simp))
          | cons y ys =>
            rw [hr] at hz h3
            rw [List.getLast?_cons_cons] at hz
            exact h3 z hz
      intro z hz
      rw [List.getLast?_append] at hz
      cases hl : (c :: restoreAux al cs []).getLast? with
      | none => simp at hl
      | some y =>
        rw [hl] at hz
        simp at hz
        subst hz
        exact hrest _ hl

/-- `s.rstrip()` -/
def rstrip (p : Char → Bool) (s : List Char) : List Char := (s.reverse.dropWhile p).reverse

theorem strip_eq (p : Char → Bool) (s : List Char) : strip p s = rstrip p (s.dropWhile p) := rfl

theorem dropWhile_append_all {p : Char → Bool} : ∀ (l1 l2 : List Char), (∀ c ∈ l1, p c = true) →
    (l1 ++ l2).dropWhile p = l2.dropWhile p := by
  intro l1
  induction l1 with
  | nil => intro l2 _; rfl
  | cons c l1 ih =>
    intro l2 h
    simp only [List.cons_append, List.dropWhile_cons, h c (by simp), if_true]
    exact ih l2 (fun d hd => h d (by simp [hd]))

theorem rstrip_append_spaces {p : Char → Bool} (a ws : List Char) (h : ∀ c ∈ ws, p c = true) :
    rstrip p (a ++ ws) = rstrip p a := by
  unfold rstrip
  rw [List.reverse_append, dropWhile_append_all ws.reverse a.reverse (fun c hc => h c (by simpa using hc))]

theorem rstrip_of_lastOK {p : Char → Bool} {a : List Char} (h : LastOK p a) : rstrip p a = a := by
  unfold rstrip
  have : HeadOK p a.reverse := by intro z hz; exact h z (by simpa using hz)
  rw [dropWhile_of_headOK this, List.reverse_reverse]

/-- every string is a part that does not end in whitespace followed by whitespace only -/
theorem rstrip_decomp (p : Char → Bool) (s : List Char) :
    ∃ a ws, s = a ++ ws ∧ (∀ c ∈ ws, p c = true) ∧ LastOK p a := by
  refine ⟨(s.reverse.dropWhile p).reverse, (s.reverse.takeWhile p).reverse, ?_, ?_, ?_⟩
  · rw [← List.reverse_append, List.takeWhile_append_dropWhile, List.reverse_reverse]
  · intro c hc
    have hall := List.all_takeWhile (p := p) (l := s.reverse)
    rw [List.all_eq_true] at hall
    exact hall c (by simpa using hc)
  · intro z hz
    have hz' : (s.reverse.dropWhile p).head? = some z := by simpa using hz
    have := List.head?_dropWhile_not p s.reverse
    rw [hz'] at this
    simpa using this

theorem restoreAux_spaces {p : Char → Bool} (hp : SpaceOK p) (al : Aliases) (hnil : lookup al [] = none) :
    ∀ (ws : List Char), (∀ c ∈ ws, p c = true) → restoreAux al ws [] = ws := by
  intro ws
  induction ws with
  | nil => intro _; simp [restoreAux, subst_none al [] hnil]
  | cons c ws ih =>
    intro h
    have hw := hp.nonword c (h c (by simp))
    simp only [restoreAux, hw, Bool.false_eq_true, if_false, List.reverse_nil, subst_none al [] hnil, List.nil_append]
    rw [ih (fun d hd => h d (by simp [hd]))]

theorem restoreAux_append_spaces {p : Char → Bool} (hp : SpaceOK p) (al : Aliases) (hnil : lookup al [] = none)
    (a ws : List Char) (h : ∀ c ∈ ws, p c = true) : restoreAux al (a ++ ws) [] = restoreAux al a [] ++ ws := by
  cases ws with
  | nil => simp
  | cons w ws =>
    rw [restoreAux_nonword al w (hp.nonword w (h w (by simp))),
      restoreAux_spaces hp al hnil ws (fun d hd => h d (by simp [hd]))]

theorem restore_rstrip {p : Char → Bool} (hp : SpaceOK p) (al : Aliases) (hnil : lookup al [] = none)
    (s : List Char) : restoreAux al (rstrip p s) [] = rstrip p (restoreAux al s []) := by
  obtain ⟨a, ws, hs, hws, hla⟩ := rstrip_decomp p s
  rw [hs, rstrip_append_spaces a ws hws, rstrip_of_lastOK hla, restoreAux_append_spaces hp al hnil a ws hws,
    rstrip_append_spaces _ ws hws]
  exact (rstrip_of_lastOK (restoreAux_lastOK hp al hnil a [] (by simpa using hla))).symm

/-- **`strip` and the restoration commute** -/
theorem restore_strip {p : Char → Bool} (hp : SpaceOK p) (al : Aliases) (hnil : lookup al [] = none)
    (s : List Char) : restore al (strip p s) = strip p (restore al s) := by
  unfold restore
  rw [strip_eq, strip_eq, restore_rstrip hp al hnil, restore_dropWhile hp al hnil]

/-! ### the round trip -/

/-- **Restoration undoes the alias pass.** For the template of `sanitize_python_code` (any non-empty
prefix of ASCII word characters that does not start with a digit), for EVERY fragment: applying the
restoration to the sanitised fragment gives the fragment back — every back-quoted name in its place,
with one space on either side, the whole stripped of outer whitespace; string literals, identifiers
and unterminated quotes untouched. -/
theorem restore_sanitize (cfg : Cfg) (p : Char → Bool) (env : List (List Char)) (expr s1 : List Char)
    (al : Aliases) (added : List (List Char × List Char))
    (hgp : GoodPrefix cfg.pre) (hnp : cfg.pre ≠ []) (hp : SpaceOK p)
    (h : sanitizeNames cfg p env expr = some (s1, al, added)) :
    restore al s1 = strip p ((split expr).map target).flatten := by
  unfold sanitizeNames at h
  simp only at h
  cases hr : run cfg (reservedWords (split expr)) (split expr) { env := env } with
  | none => simp [hr] at h
  | some s =>
    simp only [hr, Option.some.injEq, Prod.mk.injEq] at h
    obtain ⟨h1, h2, _⟩ := h
    have hk0 : KeysOK (reservedWords (split expr)) ({ env := env } : State).al := by
      intro k v hl; simp [lookup] at hl
    obtain ⟨_, hk, r, hren, hout⟩ := run_spec cfg _ hgp hnp (split expr) _ s hk0 hr
    have hnil : lookup s.al [] = none := by
      cases hl : lookup s.al [] with
      | none => rfl
      | some v => exact absurd rfl (hk [] v hl).1
    have hfree : WordsFree s.al (split expr) := by
      intro w hw
      cases hl : lookup s.al w with
      | none => rfl
      | some v =>
        have := (hk w v hl).2
        have hc : (reservedWords (split expr)).contains w = true := by simpa using hw
        rw [hc] at this
        exact absurd this (by simp)
    rw [← h1, ← h2, restore_strip hp s.al hnil, hout]
    simp only [List.nil_append]
    unfold restore
    rw [restore_rendered s.al hnil (split expr) (split_alt expr) r hren hfree]

end FormulaicVerif.Proofs.C15Restore
