import FormulaicVerif.Model.StructuredFormula
import FormulaicVerif.Proofs.C19Simp
/-! Helper lemmas for C19, part 10: the `StructuredFormula` constructor. Not obligations. -/
namespace FormulaicVerif.Proofs.C19
open FormulaicVerif.Model FormulaicVerif.Model.St FormulaicVerif.Model.StF FormulaicVerif.Spec.Containers

variable {α : Type}

theorem sfNode_eq (kvs : Items α) : sfNode kvs = simpVal true false (.node (rootLast kvs)) := by
  unfold sfNode simpVal
  cases unwrapLoop false (.node (rootLast kvs)) <;> simp

theorem flatten_sfNode (kvs : Items α) : flatten (sfNode kvs) = flattenI (rootLast kvs) := by
  rw [sfNode_eq, flatten_simpVal]; rfl

theorem sfNode_simplify (kvs : Items α) : simplify true false true (rootLast kvs) = .ok (sfNode kvs) := by
  rw [simplify_eq, sfNode_eq]; rfl

mutual
theorem flatten_prepV : ∀ v : Val α, flatten (prepV v) = flatten (norm v)
  | .leaf a => by simp [prepV, norm]
  | .tup vs => by simp only [prepV, norm, flatten]; exact flattenT_prepT vs
  | .node kvs => by
    simp only [prepV, norm, flatten_sfNode, flatten, rootLast, flattenI_append]
    rw [flattenI_prepI_filter kvs (fun k => !isRootKey k), flattenI_prepI_filter kvs isRootKey]
theorem flattenT_prepT : ∀ vs : List (Val α), flattenT (prepT vs) = flattenT (normT vs)
  | [] => by simp [prepT, normT]
  | v :: vs => by simp [prepT, normT, flattenT, flatten_prepV v, flattenT_prepT vs]
theorem flattenI_prepI_filter : ∀ (kvs : Items α) (p : String → Bool),
    flattenI ((prepI kvs).filter (fun kv => p kv.1)) = flattenI ((normI kvs).filter (fun kv => p kv.1))
  | [], _ => by simp [prepI, normI]
  | (k, v) :: r, p => by
    simp only [prepI, normI, List.filter_cons]
    cases p k
    · simpa using flattenI_prepI_filter r p
    · simp only [if_true, flattenI, flatten_prepV v, flattenI_prepI_filter r p]
end

end FormulaicVerif.Proofs.C19
