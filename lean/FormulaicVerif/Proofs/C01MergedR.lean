import FormulaicVerif.Proofs.C01Merged
import FormulaicVerif.Proofs.C01DenoteRSpec
/-! # C01 — parse = denotation for the tokens as the LEXER delivers them

When a part after `~` or `|` begins with a run of signs, the tokenizer delivers the separator and the run as
ONE operator token (`y ~ -a` is `y`, `~-`, `a`). `FormulaR.toksL` is the token sequence of a formula with
these merges; by `interceptTokens_split` the parser reads it exactly like `FormulaR.toks`. -/
namespace FormulaicVerif.Proofs.C01MergedR
open FormulaicVerif FormulaicVerif.Model FormulaicVerif.Proofs.C01 FormulaicVerif.Proofs.C01Intercept
open FormulaicVerif.Proofs.C01Merged FormulaicVerif.Proofs.C01GrammarR FormulaicVerif.Proofs.C01DenoteR
open FormulaicVerif.Proofs.C01Runs FormulaicVerif.Proofs.C01Denote FormulaicVerif.Proofs.C01DenoteRSpec
open FormulaicVerif.Proofs.ShuntC FormulaicVerif.Proofs.C01TopLevel
open FormulaicVerif.Spec.DenoteR

/-- the run of signs the sum begins with -/
def _root_.FormulaicVerif.Proofs.C01GrammarR.SumR.lead : SumR → Option Run
  | .first sg _ => sg
  | .firstZero sg => sg
  | .add _ s _ => s.lead
  | .addZero _ s => s.lead

/-- the tokens after that run -/
def _root_.FormulaicVerif.Proofs.C01GrammarR.SumR.rawRest : SumR → List Tok
  | .first _ p => p.raw
  | .firstZero _ => [zeroTok]
  | .add r s p => s.rawRest ++ opTok r.cs :: p.raw
  | .addZero r s => s.rawRest ++ [opTok r.cs, zeroTok]

theorem raw_lead : ∀ s : SumR, s.raw = signToks s.lead ++ s.rawRest
  | .first sg p => rfl
  | .firstZero sg => rfl
  | .add r s p => by simp only [SumR.raw, SumR.lead, SumR.rawRest, raw_lead s, List.append_assoc]
  | .addZero r s => by simp only [SumR.raw, SumR.lead, SumR.rawRest, raw_lead s, List.append_assoc]

/-- a separator and the part after it as the lexer delivers them: the separator token carries the part's
leading signs -/
def sepPart (c : Char) (s : SumR) : List Tok := opTok (c :: signCs s.lead) :: s.rawRest

/-- **the tokens as the lexer delivers them** -/
def _root_.FormulaicVerif.Proofs.C01DenoteR.FormulaR.toksL : FormulaR → List Tok
  | .one p tail => p.raw ++ tail.flatMap (sepPart '|')
  | .tilde p tail => sepPart '~' p ++ tail.flatMap (sepPart '|')
  | .two l ltail p tail => (l.raw ++ ltail.flatMap (sepPart '|')) ++ (sepPart '~' p ++ tail.flatMap (sepPart '|'))

/-! ### the tokens of a sum carry no separator -/

theorem raw_inert (s : SumR) : ∀ t ∈ s.raw, NoSep '~' t ∧ NoSep '|' t := by
  intro t ht
  by_cases hz : IsZero t
  · have hk : t.kind ≠ some .operator := by rw [hz.1]; decide
    exact ⟨fun h => absurd h hk, fun h => absurd h hk⟩
  · have hm : t ∈ s.pre := by
      rw [← SumR.replaceZero_raw, replaceZero_eq_flatMap]
      exact List.mem_flatMap.2 ⟨t, ht, by simp [hz]⟩
    exact ⟨(SumR.plain s t hm).1, (SumR.plain s t hm).2.1⟩

theorem rest_inert (s : SumR) : ∀ t ∈ s.rawRest, NoSep '~' t ∧ NoSep '|' t := fun t ht =>
  raw_inert s t (by rw [raw_lead]; exact List.mem_append_right _ ht)

theorem inert_of (s : SumR) {c : Char} (hc : SepCh c) : ∀ t ∈ s.raw, NoSep c t := fun t ht => by
  rcases hc with rfl | rfl
  · exact (raw_inert s t ht).1
  · exact (raw_inert s t ht).2

theorem rest_inert_of (s : SumR) {c : Char} (hc : SepCh c) : ∀ t ∈ s.rawRest, NoSep c t := fun t ht => by
  rcases hc with rfl | rfl
  · exact (rest_inert s t ht).1
  · exact (rest_inert s t ht).2

/-! ### splitting the merged tokens gives the tokens as written -/

theorem run_allSign (r : Run) : r.cs.all isSign = true := by
  rw [List.all_eq_true]
  intro x hx
  rcases r.ok.2 x hx with rfl | rfl <;> rfl

theorem merged_run (c : Char) (r : Run) : isMerged c (opTok (c :: r.cs)) = true := by
  have hne := r.ok.1
  simp only [isMerged, opTok, List.head?_cons, List.tail_cons, beq_self_eq_true, Bool.true_and, run_allSign r,
    Bool.and_true, Bool.not_eq_true', List.isEmpty_eq_false_iff]
  exact hne

theorem notMerged_head {c d : Char} (hcd : c ≠ d) (r : List Char) : isMerged d (opTok (c :: r)) = false := by
  cases hm : isMerged d (opTok (c :: r))
  · rfl
  · have := (merged_facts hm).2.1
    simp only [opTok] at this
    injection this with h _
    exact absurd h hcd

/-- splitting at its own separator: the separator, then the part as written -/
theorem split_sepPart {c : Char} (hc : SepCh c) (s : SumR) : splitL c (sepPart c s) = opTok [c] :: s.raw := by
  unfold sepPart
  rw [splitL_cons, splitL_inert c _ (rest_inert_of s hc), raw_lead]
  cases s.lead with
  | none =>
    rw [splitC_not (notMerged_of_sep (d := c) ⟨rfl, rfl⟩)]
    rfl
  | some r =>
    rw [show signCs (some r) = r.cs from rfl, splitC_merged (merged_run c r)]
    rfl

/-- splitting at the other separator changes nothing -/
theorem split_sepPart_other {c d : Char} (hd : SepCh d) (hcd : c ≠ d) (s : SumR) :
    splitL d (sepPart c s) = sepPart c s := by
  unfold sepPart
  rw [splitL_cons, splitL_inert d _ (rest_inert_of s hd), splitC_not (notMerged_head hcd _)]
  rfl

theorem splitL_flatMap {α : Type} (c : Char) (g : α → List Tok) : ∀ l : List α,
    splitL c (l.flatMap g) = l.flatMap (fun q => splitL c (g q))
  | [] => rfl
  | q :: l => by simp only [List.flatMap_cons, splitL_append, splitL_flatMap c g l]

theorem glue_flatMap (f : SumR → List Tok) : ∀ tail : List SumR,
    plainGlue (glueWith f tail) = tail.flatMap (fun q => opTok ['|'] :: f q)
  | [] => rfl
  | q :: tail => by
    simp only [glueWith, List.map_cons, plainGlue, List.flatMap_cons, List.cons_append]
    rw [← glue_flatMap f tail]
    rfl

theorem sepTilde : SepCh '~' := Or.inl rfl
theorem sepBar : SepCh '|' := Or.inr rfl

theorem bars_tilde (tail : List SumR) : splitL '~' (tail.flatMap (sepPart '|')) = tail.flatMap (sepPart '|') := by
  rw [splitL_flatMap]
  congr 1
  funext q
  exact split_sepPart_other sepTilde (by decide) q

theorem bars_bar (tail : List SumR) : splitL '|' (tail.flatMap (sepPart '|')) = plainGlue (glueWith SumR.raw tail) := by
  rw [splitL_flatMap, glue_flatMap]
  congr 1
  funext q
  exact split_sepPart sepBar q

theorem tildePart_bar (p : SumR) : splitL '|' (opTok ['~'] :: p.raw) = opTok ['~'] :: p.raw :=
  splitL_inert '|' _ (fun t ht => by
    rcases List.mem_cons.1 ht with rfl | ht
    · intro _; decide
    · exact inert_of p sepBar t ht)

/-- **the lexer's tokens, with the merged tokens split, are the tokens as written** -/
theorem split_toksL : ∀ f : FormulaR, splitL '|' (splitL '~' f.toksL) = f.toks
  | .one p tail => by
    simp only [FormulaR.toksL, FormulaR.toks, partsWith, splitL_append, bars_tilde, bars_bar,
      splitL_inert '~' _ (inert_of p sepTilde), splitL_inert '|' _ (inert_of p sepBar)]
  | .tilde p tail => by
    simp only [FormulaR.toksL, FormulaR.toks, partsWith, splitL_append, bars_tilde, bars_bar,
      split_sepPart sepTilde, tildePart_bar]
    rfl
  | .two l ltail p tail => by
    simp only [FormulaR.toksL, FormulaR.toks, partsWith, splitL_append, bars_tilde, bars_bar,
      split_sepPart sepTilde, tildePart_bar,
      splitL_inert '~' _ (inert_of l sepTilde), splitL_inert '|' _ (inert_of l sepBar)]
    simp [tildeSym]

/-! ### the shape -/

theorem shapeC_append {c : Char} {a b : List Tok} (ha : ShapeC c a) (hb : ShapeC c b) : ShapeC c (a ++ b) := by
  intro t ht
  rcases List.mem_append.1 ht with h | h
  · exact ha t h
  · exact hb t h

theorem shapeC_flatMap {c : Char} {α : Type} (g : α → List Tok) (l : List α) (h : ∀ q ∈ l, ShapeC c (g q)) :
    ShapeC c (l.flatMap g) := by
  intro t ht
  obtain ⟨q, hq, htq⟩ := List.mem_flatMap.1 ht
  exact h q hq t htq

theorem shapeC_inert {c : Char} {a : List Tok} (h : ∀ t ∈ a, NoSep c t) : ShapeC c a := fun t ht => Or.inl (h t ht)

theorem shape_sepPart {c d : Char} (hc : SepCh c) (hd : SepCh d) (s : SumR) : ShapeC d (sepPart c s) := by
  intro t ht
  rcases List.mem_cons.1 ht with rfl | ht
  · by_cases hcd : c = d
    · subst hcd
      cases hl : s.lead with
      | none => exact Or.inr (Or.inl ⟨rfl, rfl⟩)
      | some r => exact Or.inr (Or.inr (merged_run c r))
    · refine Or.inl (fun _ => ?_)
      show (c :: signCs s.lead).contains d = false
      have hno : (signCs s.lead).contains d = false := by
        cases hl : s.lead with
        | none => rfl
        | some r => exact signs_noSep hd (opTok r.cs) r.cs (run_allSign r) rfl
      cases hcc : (c :: signCs s.lead).contains d
      · rfl
      · exfalso
        have hm : d ∈ c :: signCs s.lead := by simpa using hcc
        rcases List.mem_cons.1 hm with h | h
        · exact hcd h.symm
        · have : (signCs s.lead).contains d = true := by simpa using h
          rw [hno] at this; cases this
  · exact Or.inl (rest_inert_of s hd t ht)

theorem shape_toksL {d : Char} (hd : SepCh d) : ∀ f : FormulaR, ShapeC d f.toksL
  | .one p tail =>
    shapeC_append (shapeC_inert (inert_of p hd)) (shapeC_flatMap _ _ (fun q _ => shape_sepPart sepBar hd q))
  | .tilde p tail =>
    shapeC_append (shape_sepPart sepTilde hd p) (shapeC_flatMap _ _ (fun q _ => shape_sepPart sepBar hd q))
  | .two l ltail p tail =>
    shapeC_append
      (shapeC_append (shapeC_inert (inert_of l hd)) (shapeC_flatMap _ _ (fun q _ => shape_sepPart sepBar hd q)))
      (shapeC_append (shape_sepPart sepTilde hd p) (shapeC_flatMap _ _ (fun q _ => shape_sepPart sepBar hd q)))

/-! ### the theorem -/

theorem lhsVariables_split (env : PyEnv) (c : Char) : ∀ X : List Tok, lhsVariables env (splitL c X) = lhsVariables env X
  | [] => rfl
  | t :: X => by
    rw [splitL_cons, lhsVariables_append, lhsVariables_split env c X]
    cases hm : isMerged c t
    · rw [splitC_not hm]
      simp [lhsVariables]
    · rw [splitC_merged hm]
      have hk := (merged_facts hm).1
      simp [lhsVariables, hk]

/-- the parser reads the lexer's tokens exactly like the tokens as written -/
theorem parseToks_toksL (cfg : ParseCfg) (env : PyEnv) (f : FormulaR) :
    parseToks cfg env f.toksL = parseToks cfg env f.toks := by
  obtain ⟨h1, h2⟩ := interceptTokens_split cfg.includeIntercept f.toksL (shape_toksL sepTilde f) (shape_toksL sepBar f)
  rw [split_toksL] at h1 h2
  unfold parseToks
  rw [h1, h2, lhsVariables_split]

/-- **parse = denotation for the token sequence the lexer delivers** (a separator and the signs after it are
one token) -/
theorem parse_eq_denoteL (cfg : ParseCfg) (env : PyEnv) (f : FormulaR) (hen : FormulaR.Enabled cfg f) :
    parseToks cfg env f.toksL = denoteFormulaR cfg (dotOf env f) f := by
  rw [parseToks_toksL]
  exact parse_eq_denoteR cfg env f hen

end FormulaicVerif.Proofs.C01MergedR
