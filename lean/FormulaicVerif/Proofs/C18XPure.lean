import FormulaicVerif.Proofs.C18X
/-! Helper lemmas for C18 about the extended value semantics (`Spec/PurityX.lean`): an operation that
raises leaves every value as it was; operations other than the caller's own edits only append; the
outcome of an operation is a function of the values it names. -/
namespace FormulaicVerif.Proofs.C18X
open FormulaicVerif.Model.Heap FormulaicVerif.Model.HeapX FormulaicVerif.Spec.Purity
open FormulaicVerif.Spec.PurityX FormulaicVerif.Proofs.C18

variable {F E : Type} (P : Params F E)

/-! ### an operation that raises changes nothing -/

theorem pstep_error_env (env : List (PSpec F E)) (op : Op) (e : Err)
    (h : (pstep P env op).2 = .error e) : (pstep P env op).1 = env := by
  cases op with
  | newSpec f cfg => simp [pstep] at h
  | update i u =>
    simp only [pstep] at h ⊢
    generalize env[i]? = o at h ⊢
    cases o with
    | none => rfl
    | some s => simp at h
  | subset i terms =>
    simp only [pstep] at h ⊢
    generalize env[i]? = o at h ⊢
    cases o with
    | none => rfl
    | some s =>
      simp only at h ⊢
      generalize pSubset s terms = o at h ⊢
      cases o with
      | error x => rfl
      | ok s' => simp at h
  | build fs cfg d =>
    simp only [pstep] at h ⊢
    cases hr : pureCall P (fs.map fun f => (⟨f, cfg, none, Dict.empty, Dict.empty⟩ : PSpec F E)) d
        (pFactorsOf (fs.map fun f => (⟨f, cfg, none, Dict.empty, Dict.empty⟩ : PSpec F E))) with
    | error x => simp [pPublish]
    | ok l => rw [hr] at h; simp [pPublish] at h
  | call hs u d =>
    simp only [pstep] at h ⊢
    generalize lookupAll env hs = o at h ⊢
    cases o with
    | none => rfl
    | some ss =>
      simp only at h ⊢
      generalize pureCall P _ d _ = r at h ⊢
      cases r with
      | error x => simp [pPublish]
      | ok l => simp [pPublish] at h

theorem liftOut_error {o : Outcome F E} {x : XErr} (h : liftOut o = .error x) : ∃ e, o = .error e := by
  cases o with
  | error e => exact ⟨e, rfl⟩
  | ok ps => simp [liftOut] at h

theorem pgrow_error (env : XEnv F E) (op : Op) (refs : List Nat) (x : XErr)
    (h : (pgrow env (pstep P env.specs op) refs env.forms).2 = .error x) :
    (pgrow env (pstep P env.specs op) refs env.forms).1 = env := by
  obtain ⟨e, he⟩ := liftOut_error h
  have := pstep_error_env P env.specs op e he
  simp [pgrow, this]

/-- an operation that raises leaves every formula object, every spec value and every reference as it was -/
theorem xpstep_error_env (env : XEnv F E) (op : XOp) (x : XErr)
    (h : (xpstep P env op).2 = .error x) : (xpstep P env op).1 = env := by
  cases op with
  | formula f => simp [xpstep] at h
  | newSpec fid cfg =>
    simp only [xpstep] at h ⊢
    generalize env.forms[fid]? = o at h ⊢
    cases o with
    | none => rfl
    | some f => exact pgrow_error P env _ _ x h
  | update i u =>
    simp only [xpstep] at h ⊢
    generalize derefAll env.forms u.formula.toList = o at h ⊢
    cases o with
    | none => rfl
    | some fs =>
      generalize env.fref[i]? = o at h ⊢
      cases o with
      | none => rfl
      | some r =>
        simp only at h ⊢
        by_cases hr : u.resetState = true
        · simp only [hr, if_true] at h ⊢
          generalize env.specs[i]? = o at h ⊢
          cases o with
          | none => rfl
          | some s => simp at h
        · have hr' : u.resetState = false := by simpa using hr
          simp only [hr'] at h ⊢
          exact pgrow_error P env _ _ x h
  | subset i picks =>
    simp only [xpstep] at h ⊢
    obtain ⟨e, he⟩ := liftOut_error h
    have := pstep_error_env P env.specs (.subset i (reorder picks)) e he
    simp [pgrow, this]
  | build fids cfg d =>
    simp only [xpstep] at h ⊢
    generalize derefAll env.forms fids = o at h ⊢
    cases o with
    | none => rfl
    | some fs => exact pgrow_error P env _ _ x h
  | call hs u d =>
    simp only [xpstep] at h ⊢
    generalize derefAll env.forms (updForms u) = o at h ⊢
    cases o with
    | none => rfl
    | some fs =>
      generalize lookupAll env.fref hs = o at h ⊢
      cases o with
      | none => rfl
      | some rs => exact pgrow_error P env _ _ x h
  | edit fid e =>
    simp only [xpstep, peditForm] at h ⊢
    generalize env.forms[fid]? = o at h ⊢
    cases o with
    | none => rfl
    | some f =>
      simp only at h ⊢
      generalize applyEdit f e = o at h ⊢
      cases o with
      | error y => rfl
      | ok f' => simp at h
  | editOf i e =>
    simp only [xpstep] at h ⊢
    generalize env.fref[i]? = o at h ⊢
    cases o with
    | none => rfl
    | some fid =>
      simp only [peditForm] at h ⊢
      generalize env.forms[fid]? = o at h ⊢
      cases o with
      | none => rfl
      | some f =>
        simp only at h ⊢
        generalize applyEdit f e = o at h ⊢
        cases o with
        | error y => rfl
        | ok f' => simp at h

/-! ### operations other than edits only append -/

theorem pgrow_append (env : XEnv F E) (op : Op) (refs : List Nat) (forms : List Formula)
    (hf : ∃ nf, forms = env.forms ++ nf) :
    (∃ nf, (pgrow env (pstep P env.specs op) refs forms).1.forms = env.forms ++ nf)
    ∧ (∃ ns, (pgrow env (pstep P env.specs op) refs forms).1.specs = env.specs ++ ns)
    ∧ (∃ nr, (pgrow env (pstep P env.specs op) refs forms).1.fref = env.fref ++ nr) :=
  ⟨hf, pstep_grow P env.specs op, ⟨_, rfl⟩⟩

/-- building, reusing, deriving and creating formulas never change what exists: the formula objects,
the spec values and the references after the operation extend those before it -/
theorem xpstep_append (env : XEnv F E) (op : XOp) (hne : op.isEdit = false) :
    (∃ nf, (xpstep P env op).1.forms = env.forms ++ nf)
    ∧ (∃ ns, (xpstep P env op).1.specs = env.specs ++ ns)
    ∧ (∃ nr, (xpstep P env op).1.fref = env.fref ++ nr) := by
  have triv : (∃ nf, env.forms = env.forms ++ nf) ∧ (∃ ns, env.specs = env.specs ++ ns)
      ∧ (∃ nr, env.fref = env.fref ++ nr) := ⟨⟨[], by simp⟩, ⟨[], by simp⟩, ⟨[], by simp⟩⟩
  cases op with
  | formula f => exact ⟨⟨[f], rfl⟩, ⟨[], by simp [xpstep]⟩, ⟨[], by simp [xpstep]⟩⟩
  | newSpec fid cfg =>
    simp only [xpstep]
    cases env.forms[fid]? with
    | none => exact triv
    | some f => exact pgrow_append P env _ _ _ ⟨[], by simp⟩
  | update i u =>
    simp only [xpstep]
    cases derefAll env.forms u.formula.toList with
    | none => exact triv
    | some fs =>
      cases env.fref[i]? with
      | none => exact triv
      | some r =>
        simp only
        by_cases hr : u.resetState = true
        · simp only [hr, if_true]
          cases env.specs[i]? with
          | none => exact triv
          | some s => exact ⟨⟨[], by simp⟩, ⟨[_], rfl⟩, ⟨[_], rfl⟩⟩
        · have hr' : u.resetState = false := by simpa using hr
          simp only [hr']
          exact pgrow_append P env _ _ _ ⟨[], by simp⟩
  | subset i picks =>
    simp only [xpstep]
    refine pgrow_append P env _ _ _ ?_
    split
    · exact ⟨[_], rfl⟩
    · exact ⟨[], by simp⟩
  | build fids cfg d =>
    simp only [xpstep]
    cases derefAll env.forms fids with
    | none => exact triv
    | some fs => exact pgrow_append P env _ _ _ ⟨[], by simp⟩
  | call hs u d =>
    simp only [xpstep]
    cases derefAll env.forms (updForms u) with
    | none => exact triv
    | some fs =>
      cases lookupAll env.fref hs with
      | none => exact triv
      | some rs => exact pgrow_append P env _ _ _ ⟨[], by simp⟩
  | edit fid e => simp [XOp.isEdit] at hne
  | editOf i e => simp [XOp.isEdit] at hne

/-! ### the outcome of an operation is a function of the values it names -/

theorem pgrow_snd (env : XEnv F E) (r : List (PSpec F E) × Outcome F E) (refs : List Nat) (forms : List Formula) :
    (pgrow env r refs forms).2 = liftOut r.2 := rfl

theorem derefAll_congr {forms forms'  : List Formula} : ∀ (is : List Nat),
    (∀ i ∈ is, forms[i]? = forms'[i]?) → derefAll forms is = derefAll forms' is := by
  intro is
  induction is with
  | nil => intro _; rfl
  | cons i is ih =>
    intro h
    simp only [derefAll]
    rw [h i (by simp), ih (fun j hj => h j (by simp [hj]))]

theorem peditForm_snd_congr (env env' : XEnv F E) (fid : Nat) (e : Edit)
    (h : env.forms[fid]? = env'.forms[fid]?) : (peditForm env fid e).2 = (peditForm env' fid e).2 := by
  unfold peditForm
  rw [h]
  cases env'.forms[fid]? with
  | none => rfl
  | some f => simp only; cases applyEdit f e <;> rfl

/-- the outcome of an operation depends on the environment only through the formula objects it reads
and the values (and formula references) of the specs it names -/
theorem xpstep_out_congr (env env' : XEnv F E) (op : XOp)
    (hs : ∀ i ∈ xhandlesOf op, env.specs[i]? = env'.specs[i]? ∧ env.fref[i]? = env'.fref[i]?)
    (hf : ∀ i ∈ xformsOf env.fref op, env.forms[i]? = env'.forms[i]?) :
    (xpstep P env op).2 = (xpstep P env' op).2 := by
  cases op with
  | formula f => rfl
  | newSpec fid cfg =>
    simp only [xpstep]
    rw [← hf fid (by simp [xformsOf])]
    cases env.forms[fid]? with
    | none => rfl
    | some f => rfl
  | update i u =>
    have h1 := hs i (by simp [xhandlesOf])
    simp only [xpstep]
    rw [← derefAll_congr u.formula.toList hf, ← h1.2]
    cases derefAll env.forms u.formula.toList with
    | none => rfl
    | some fs =>
      cases env.fref[i]? with
      | none => rfl
      | some r =>
        simp only
        by_cases hr : u.resetState = true
        · simp only [hr, if_true]
          rw [← h1.1]
          cases env.specs[i]? <;> rfl
        · have hr' : u.resetState = false := by simpa using hr
          simp only [hr', Bool.false_eq_true, if_false]
          rw [pgrow_snd, pgrow_snd]
          congr 1
          exact pstep_out_congr P env.specs env'.specs (.update i (baseUpd u fs.head?)) (fun j hj => by
            simp only [handlesOf, List.mem_singleton] at hj; subst hj; exact h1.1)
  | subset i picks =>
    have h1 := hs i (by simp [xhandlesOf])
    simp only [xpstep]
    rw [pgrow_snd, pgrow_snd]
    congr 1
    exact pstep_out_congr P env.specs env'.specs (.subset i (reorder picks)) (fun j hj => by
      simp only [handlesOf, List.mem_singleton] at hj; subst hj; exact h1.1)
  | build fids cfg d =>
    simp only [xpstep]
    rw [← derefAll_congr fids hf]
    cases derefAll env.forms fids with
    | none => rfl
    | some fs =>
      simp only
      rw [pgrow_snd, pgrow_snd]
      congr 1
      exact pstep_out_congr P env.specs env'.specs (.build fs cfg d) (fun j hj => by simp [handlesOf] at hj)
  | call is u d =>
    simp only [xpstep]
    rw [← derefAll_congr (updForms u) hf,
      ← lookupAll_congr (l := env.fref) (l' := env'.fref) is (fun j hj => (hs j hj).2)]
    cases derefAll env.forms (updForms u) with
    | none => rfl
    | some fs =>
      cases lookupAll env.fref is with
      | none => rfl
      | some rs =>
        simp only
        rw [pgrow_snd, pgrow_snd]
        congr 1
        exact pstep_out_congr P env.specs env'.specs (.call is (u.map fun u => baseUpd u fs.head?) d)
          (fun j hj => (hs j hj).1)
  | edit fid e =>
    exact peditForm_snd_congr env env' fid e (hf fid (by simp [xformsOf]))
  | editOf i e =>
    have h1 := hs i (by simp [xhandlesOf])
    simp only [xpstep]
    rw [← h1.2]
    cases hr : env.fref[i]? with
    | none => rfl
    | some fid => exact peditForm_snd_congr env env' fid e (hf fid (by simp [xformsOf, hr]))

/-! ### what an edit changes -/

theorem prewriteAll_getElem (specs : List (PSpec F E)) (fref : List Nat) (fid : Nat) (f : Formula) (i : Nat) :
    (prewriteAll specs fref fid f)[i]? =
      match specs[i]?, fref[i]? with
      | some s, some r => some (if r = fid then { s with formula := f } else s)
      | some s, none => some s
      | none, _ => none := by
  unfold prewriteAll prewrite
  induction specs generalizing fref i with
  | nil => simp
  | cons s ss ih =>
    cases fref with
    | nil => simp; cases (s :: ss)[i]? <;> rfl
    | cons r rs =>
      cases i with
      | zero => simp
      | succ i =>
        have := ih rs i
        simp only [List.zip_cons_cons, List.map_cons, List.length_cons, List.drop_succ_cons,
          List.cons_append, List.getElem?_cons_succ]
        exact this

/-! ### an edit of a formula object does not interfere with operations that do not touch it -/

theorem peditForm_other (env : XEnv F E) (fid : Nat) (e : Edit) :
    (∀ i : Nat, i ≠ fid → (peditForm env fid e).1.forms[i]? = env.forms[i]?)
    ∧ (peditForm env fid e).1.fref = env.fref
    ∧ (∀ h : Nat, env.fref[h]? ≠ some fid → (peditForm env fid e).1.specs[h]? = env.specs[h]?) := by
  unfold peditForm
  cases env.forms[fid]? with
  | none => exact ⟨fun _ _ => rfl, rfl, fun _ _ => rfl⟩
  | some f =>
    simp only
    cases applyEdit f e with
    | error x => exact ⟨fun _ _ => rfl, rfl, fun _ _ => rfl⟩
    | ok f' =>
      refine ⟨fun i hi => ?_, rfl, fun h hh => ?_⟩
      · exact List.getElem?_set_ne (Ne.symm hi)
      · simp only
        rw [prewriteAll_getElem]
        cases hs : env.specs[h]? with
        | none => rfl
        | some s =>
          cases hr : env.fref[h]? with
          | none => rfl
          | some r =>
            have : r ≠ fid := fun hc => hh (by rw [hr, hc])
            simp [this]

/-- the outcome of `c` is the same before and after an edit of formula object `fid`, when `c` neither
reads that object nor names a spec that holds it -/
theorem edit_noninterference (env : XEnv F E) (fid : Nat) (e : Edit) (c : XOp)
    (h1 : ∀ i ∈ xformsOf env.fref c, i ≠ fid)
    (h2 : ∀ h ∈ xhandlesOf c, env.fref[h]? ≠ some fid) :
    (xpstep P (peditForm env fid e).1 c).2 = (xpstep P env c).2 := by
  obtain ⟨a, b, d⟩ := peditForm_other env fid e
  symm
  apply xpstep_out_congr
  · intro i hi
    exact ⟨(d i (h2 i hi)).symm, by rw [b]⟩
  · intro i hi
    exact (a i (h1 i hi)).symm

end FormulaicVerif.Proofs.C18X
