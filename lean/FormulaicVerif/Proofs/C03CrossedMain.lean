import FormulaicVerif.Proofs.C03Crossed
import FormulaicVerif.Proofs.C03Axes
import FormulaicVerif.Proofs.C03Cover
import FormulaicVerif.Spec.CrossedCheck
import Mathlib.Data.List.Forall2
/-! C03: the factor cache that `Model.Crossed` computes from a well-formed design description is a fully crossed
design (`CrossedDesign`) whose codings satisfy `Hyp` — for every design, every built-in contrast. -/
namespace FormulaicVerif.Proofs.C03CrossedMain
open FormulaicVerif.Model FormulaicVerif.Spec FormulaicVerif.Model.Crossed
open FormulaicVerif.Model.Contrasts (Label Contrast)
open FormulaicVerif.Proofs.C03Model FormulaicVerif.Proofs.C03Encode FormulaicVerif.Proofs.C03Flatten
  FormulaicVerif.Proofs.C03Crossed FormulaicVerif.Proofs.C03Axes FormulaicVerif.Proofs.C03Matrix
  FormulaicVerif.Proofs.TensorRank FormulaicVerif.Spec.C03Check

/-! ### bookkeeping -/

theorem evalFactors_zip (d : Design) (fs : List FactorSpec) (evs : List Evaled) (h : evalFactors d fs = .ok evs) :
    evs.length = fs.length ∧ ∀ p ∈ fs.zip evs, evalFactor d p.1 = .ok p.2 := by
  induction fs generalizing evs with
  | nil => simp [evalFactors] at h; subst h; simp
  | cons f r ih =>
    simp only [evalFactors] at h
    cases hf : evalFactor d f with
    | error x => simp [hf] at h
    | ok ev =>
      simp only [hf] at h
      cases hr : evalFactors d r with
      | error x => simp [hr] at h
      | ok rest =>
        simp only [hr, Except.ok.injEq] at h
        subst h
        obtain ⟨h1, h2⟩ := ih rest hr
        refine ⟨by simp [h1], ?_⟩
        intro p hp
        simp only [List.zip_cons_cons, List.mem_cons] at hp
        rcases hp with rfl | hp
        · exact hf
        · exact h2 p hp

theorem evalFactor_expr (d : Design) (spec : FactorSpec) (ev : Evaled) (h : evalFactor d spec = .ok ev) :
    ev.ef.expr = spec.expr := by
  cases spec with
  | literal e v => simp [evalFactor] at h; subst h; rfl
  | null e => simp [evalFactor] at h; subst h; rfl
  | column e col =>
    simp only [evalFactor] at h
    cases hc : d.columns[col]? with
    | none => simp [hc] at h
    | some cc =>
      cases cc with
      | num vs =>
        simp only [hc] at h
        cases hn : numColumn vs col (rows d) with
        | error x => simp [hn] at h
        | ok c => simp [hn] at h; subst h; rfl
      | cat ls decl => simp [hc] at h; subst h; rfl
  | wrapped e col c =>
    simp only [evalFactor] at h
    cases hc : d.columns[col]? with
    | none => simp [hc] at h
    | some cc =>
      cases cc with
      | num vs => simp [hc] at h
      | cat ls decl => simp [hc] at h; subst h; rfl

theorem cache_get_of_mem {c : Cache} (hnd : (c.map (·.expr)).Nodup) {f : EvaledFactor} (hf : f ∈ c) :
    c.get f.expr = .ok f := by
  induction c with
  | nil => simp at hf
  | cons g r ih =>
    simp only [List.map_cons, List.nodup_cons] at hnd
    simp only [List.mem_cons] at hf
    rcases hf with rfl | hf
    · simp [Cache.get]
    · have hne : g.expr ≠ f.expr := fun e => hnd.1 (e ▸ List.mem_map_of_mem hf)
      have := ih hnd.2 hf
      simp only [Cache.get, List.find?_cons] at this ⊢
      have hb : (g.expr == f.expr) = false := by simpa using hne
      rw [hb]
      exact this

/-- the index of the axis that lives in data column `c` -/
def axisAt {n : ℕ} (C : Fin n → ℕ) (c : ℕ) : Option (Fin n) := (List.finRange n).find? (fun i => C i == c)

theorem axisAt_some {n : ℕ} {C : Fin n → ℕ} {c : ℕ} {i : Fin n} (h : axisAt C c = some i) : C i = c := by
  have := List.find?_some h
  simpa using this

theorem axisAt_self {n : ℕ} {C : Fin n → ℕ} (hinj : Function.Injective C) (i : Fin n) : axisAt C (C i) = some i := by
  cases h : axisAt C (C i) with
  | none =>
    have := List.find?_eq_none.mp h i (List.mem_finRange i)
    simp at this
  | some i' => rw [hinj (axisAt_some h)]


/-! ### every combination of the levels of the axes occurs in some row -/

/-- number of levels of data column `c` (0 if there is no such column) -/
def sizeAt (d : Design) (c : ℕ) : ℕ := ((d.columns[c]?).map Column.size).getD 0

theorem sizeAt_eq (d : Design) (c : ℕ) (hc : c < d.columns.length) : sizeAt d c = (d.columns[c]'hc).size := by
  simp [sizeAt, hc]

theorem frame_surj (d : Design) (hne : ∀ col ∈ d.columns, 0 < col.size) {n : ℕ} (C : Fin n → ℕ)
    (hinj : Function.Injective C) (τ : (i : Fin n) → Fin (sizeAt d (C i))) :
    ∃ r, r < (rows d).length ∧ ∀ i, (levelsAlong d (C i))[r]? = some (τ i).val := by
  let p : List ℕ := (List.range d.columns.length).map
    (fun c => match axisAt C c with | some i => (τ i).val | none => 0)
  have hp : p ∈ rows d := by
    rw [rows_complete, List.forall₂_iff_get]
    refine ⟨by simp [p], ?_⟩
    intro c h1 h2
    simp only [p, List.get_eq_getElem, List.getElem_map, List.getElem_range]
    cases ha : axisAt C c with
    | none => exact hne _ (List.getElem_mem _)
    | some i =>
      have hci := axisAt_some ha
      have hlt : (τ i).val < sizeAt d (C i) := (τ i).isLt
      have hs : sizeAt d (C i) = (d.columns[c]'h2).size := by rw [hci]; exact sizeAt_eq d c h2
      exact Nat.lt_of_lt_of_eq hlt hs
  obtain ⟨r, hr, hrp⟩ := List.getElem_of_mem hp
  refine ⟨r, hr, ?_⟩
  intro i
  have hlen : r < (levelsAlong d (C i)).length := by simpa [levelsAlong] using hr
  rw [List.getElem?_eq_getElem hlen]
  simp only [levelsAlong, List.getElem_map, hrp, Option.some.injEq]
  by_cases hc : C i < d.columns.length
  · have : p[C i]? = some (τ i).val := by
      simp only [p, List.getElem?_map, List.getElem?_range hc, Option.map_some, axisAt_self hinj i]
    rw [this]; rfl
  · -- no such column: the axis has no levels at all
    have := (τ i).isLt
    simp [sizeAt, List.getElem?_eq_none (Nat.le_of_not_lt hc)] at this


/-! ### one axis -/

/-- nothing is lost when the two encodings are flattened: no two level labels print alike -/
def NoLoss (ev : Evaled) (n : ℕ) : Prop :=
  (∀ tab, encodeEvaledFactor ev.ef false = .ok tab → tab.length = n) ∧
  (∀ tab, encodeEvaledFactor ev.ef true = .ok tab → tab.length = n - 1)

/-- what the theorems ask of one axis (all of it decidable on a concrete design): a numeric column takes two
different values; a categorical column has pairwise different level labels which pandas would infer in the given
order unless they are declared, its encodings can be built (the contrast's options fit the levels; polynomial scores
pairwise different) and are flattened without loss -/
def AxisOK (d : Design) (spec : FactorSpec) (ev : Evaled) : Prop :=
  match d.columns[specColB spec]?, spec with
  | some (.num vs), .column _ _ => ∃ a b, a < vs.length ∧ b < vs.length ∧ vs[a]?.getD 0 ≠ vs[b]?.getD 0
  | some (.cat levels decl), .column _ c =>
    levels ≠ [] ∧ levels.Nodup ∧ (decl = true ∨ Contrasts.inferLevels (labelColumn levels c (rows d)) = levels) ∧
      ev.errFull = none ∧ NoLoss ev levels.length
  | some (.cat levels decl), .wrapped _ c ct =>
    levels ≠ [] ∧ levels.Nodup ∧ (decl = true ∨ Contrasts.inferLevels (labelColumn levels c (rows d)) = levels) ∧
      ev.errFull = none ∧ ev.errReduced = none ∧ FormulaicVerif.Proofs.C11.ScoresDistinct ct ∧
      (∃ k mF mT, ct.kind levels = .ok k ∧ Contrasts.getCodingMatrix ct levels false d.sparse = .ok mF ∧
        Contrasts.getCodingMatrix ct levels true d.sparse = .ok mT) ∧ NoLoss ev levels.length
  | _, _ => False

theorem catH_of_facts {f : EvaledFactor} {lv : List ℕ} {n : ℕ} {R : Contrasts.Arr} (cache : Cache) (expr : String)
    (hget : cache.get expr = .ok f) (hn : 0 < n) (hfacts : CatFacts f lv n R)
    (hF : ∀ tab, encodeEvaledFactor f false = .ok tab → tab.length = n)
    (hT : ∀ tab, encodeEvaledFactor f true = .ok tab → tab.length = n - 1)
    (kind : Contrasts.Kind) (hR : R = Model.Contrasts.coding kind n) (hv : FormulaicVerif.Props.C11.Valid kind n) :
    ∃ tabF tabT GF GT, AxisFacts cache lv expr tabF tabT GF GT ∧ CatH f.spansIntercept n tabF tabT GF GT := by
  obtain ⟨tabF, tabT, h1, h2, _, _, h5, h6⟩ := hfacts.enc
  have hlF := hF tabF h1
  have hlT := hT tabT h2
  refine ⟨tabF, tabT, fun j l => Contrasts.eye l j, fun j l => R l j, ⟨⟨f, hget, h1, h2⟩, h5 hlF, h6 hlT⟩, hfacts.spans,
    kind, n - 1, by omega, hlT, hlF, ?_, fun _ _ => rfl, ?_⟩
  · intro j l
    have : n - 1 + 1 = n := by omega
    rw [this, hR]
  · have : n - 1 + 1 = n := by omega
    rw [this]; exact hv

theorem axis_summary (d : Design) (cache : Cache) (spec : FactorSpec) (ev : Evaled) (hev : evalFactor d spec = .ok ev)
    (hget : cache.get spec.expr = .ok ev.ef) (hok : AxisOK d spec ev) :
    ∃ tabF tabT GF GT, AxisFacts cache (levelsAlong d (specColB spec)) spec.expr tabF tabT GF GT ∧
      (CatH ev.ef.spansIntercept (sizeAt d (specColB spec)) tabF tabT GF GT ∨
        NumH ev.ef.spansIntercept (sizeAt d (specColB spec)) tabF tabT GF GT) := by
  unfold AxisOK at hok
  cases hcol : d.columns[specColB spec]? with
  | none => simp [hcol] at hok
  | some cc =>
    have hc : specColB spec < d.columns.length := by
      by_contra hn
      rw [List.getElem?_eq_none (Nat.le_of_not_lt hn)] at hcol
      cases hcol
    have hcol' : d.columns[specColB spec]'hc = cc := by
      rw [List.getElem?_eq_getElem hc] at hcol
      exact Option.some.inj hcol
    cases cc with
    | num vs =>
      cases spec with
      | column e c =>
        simp only [hcol] at hok
        obtain ⟨a, b, ha, hb, hab⟩ := hok
        have hc2 : c < d.columns.length := hc
        have hcol2 : d.columns[c]'hc2 = .num vs := hcol'
        obtain ⟨hsp, hfacts⟩ := numeric_axis d cache e c hc2 vs hcol2 ev hev hget
        have hsz : sizeAt d c = vs.length := by
          rw [sizeAt_eq d c hc2, hcol2]; rfl
        exact ⟨_, _, _, _, hfacts, .inr ⟨hsp, rfl, rfl, fun l => vs[l]?.getD 0, fun _ _ => rfl, fun _ _ => rfl,
          a, b, by rw [specColB, hsz]; exact ha, by rw [specColB, hsz]; exact hb, hab⟩⟩
      | wrapped e c ct => simp [hcol] at hok
      | literal e v => simp [hcol] at hok
      | null e => simp [hcol] at hok
    | cat levels decl =>
      cases spec with
      | column e c =>
        simp only [hcol] at hok
        obtain ⟨hne, hnd, hinf, herr, hlF, hlT⟩ := hok
        have hc2 : c < d.columns.length := hc
        have hcol2 : d.columns[c]'hc2 = .cat levels decl := hcol'
        obtain ⟨hexpr, hfacts⟩ := bare_axis d e c hc2 levels decl hcol2 hnd hne hinf ev hev herr
        have hsz : sizeAt d c = levels.length := by
          rw [sizeAt_eq d c hc2, hcol2]; rfl
        have hpos : 0 < levels.length := List.length_pos_of_ne_nil hne
        obtain ⟨tabF, tabT, GF, GT, h1, h2⟩ := catH_of_facts cache e hget hpos hfacts hlF hlT (.treatment 0) rfl
          (by show 0 < levels.length; exact hpos)
        refine ⟨tabF, tabT, GF, GT, h1, .inl ?_⟩
        rw [specColB, hsz]; exact h2
      | wrapped e c ct =>
        simp only [hcol] at hok
        obtain ⟨hne, hnd, hinf, herrF, herrT, hsd, ⟨k, mF, mT, hk, hmF, hmT⟩, hlF, hlT⟩ := hok
        have hc2 : c < d.columns.length := hc
        have hcol2 : d.columns[c]'hc2 = .cat levels decl := hcol'
        obtain ⟨hexpr, hfacts⟩ := wrapped_axis d e c hc2 levels decl hcol2 hnd hne hinf ct k hk mF mT hmF hmT ev hev
          herrF herrT
        have hsz : sizeAt d c = levels.length := by
          rw [sizeAt_eq d c hc2, hcol2]; rfl
        have hpos : 0 < levels.length := List.length_pos_of_ne_nil hne
        have hv := FormulaicVerif.Props.C11.kind_valid ct levels k hne hsd hk
        obtain ⟨tabF, tabT, GF, GT, h1, h2⟩ := catH_of_facts cache e hget hpos hfacts hlF hlT k rfl hv
        refine ⟨tabF, tabT, GF, GT, h1, .inl ?_⟩
        rw [specColB, hsz]; exact h2
      | literal e v => simp [hcol] at hok
      | null e => simp [hcol] at hok


/-! ### the whole design -/

/-- what the theorems ask of a design description (all of it decidable on a concrete design): every factor
expression evaluates; no two factors share an expression; every axis reads its own data column (each data variable is
encoded by a single factor expression); no data column is empty; every axis is `AxisOK` -/
structure DesignOK (d : Design) (evs : List Evaled) : Prop where
  evals : evalFactors d d.factors = .ok evs
  exprs : ((evs.map (·.ef)).map (·.expr)).Nodup
  cols : ((axesOfB d evs).map (fun p => specColB p.1)).Nodup
  nonempty : ∀ col ∈ d.columns, 0 < col.size
  axes : ∀ p ∈ axesOfB d evs, AxisOK d p.1 p.2

theorem axisOK_col {d : Design} {spec : FactorSpec} {ev : Evaled} (h : AxisOK d spec ev) :
    specColB spec < d.columns.length := by
  unfold AxisOK at h
  by_contra hn
  rw [List.getElem?_eq_none (Nat.le_of_not_lt hn)] at h
  exact h

theorem spansOf_get {c : Cache} {e : String} {f : EvaledFactor} (h : c.get e = .ok f) : spansOf c e = f.spansIntercept := by
  simp [spansOf, h]

/-- **The cache the crossed-design model computes is a fully crossed design whose codings satisfy `Hyp`.** -/
theorem model_cache_is_crossed (d : Design) (evs : List Evaled) (hok : DesignOK d evs) :
    ∃ (n : ℕ) (k : Fin n → ℕ) (expr : Fin n → String) (tabl : Fin n → Bool → List Item)
      (B : (i : Fin n) → (b : Bool) → Fin (tabl i b).length → (Fin (k i) → ℚ))
      (row : Fin (rows d).length → (i : Fin n) → Fin (k i)),
      CrossedDesign (evs.map (·.ef)) (rows d).length k expr tabl B row ∧
      Hyp (Rd k tabl B) (Fd k tabl B) (fun i => spansOf (evs.map (·.ef)) (expr i)) ∧
      (∀ p ∈ axesOfB d evs, ∃ i, expr i = p.1.expr) := by
  obtain ⟨hlen, hzip⟩ := evalFactors_zip d d.factors evs hok.evals
  let ax := axesOfB d evs
  let cache : Cache := evs.map (·.ef)
  have hmemzip : ∀ p ∈ ax, p ∈ d.factors.zip evs := fun p hp => (List.mem_filter.mp hp).1
  have hget : ∀ p ∈ ax, Cache.get cache p.1.expr = .ok p.2.ef := by
    intro p hp
    have hev := hzip p (hmemzip p hp)
    rw [← evalFactor_expr d p.1 p.2 hev]
    apply cache_get_of_mem hok.exprs
    exact List.mem_map_of_mem (List.of_mem_zip (hmemzip p hp)).2
  have hsum : ∀ i : Fin ax.length, ∃ tabF tabT GF GT,
      AxisFacts cache (levelsAlong d (specColB ax[i].1)) ax[i].1.expr tabF tabT GF GT ∧
      (CatH (spansOf cache ax[i].1.expr) (sizeAt d (specColB ax[i].1)) tabF tabT GF GT ∨
        NumH (spansOf cache ax[i].1.expr) (sizeAt d (specColB ax[i].1)) tabF tabT GF GT) := by
    intro i
    have hp : ax[i] ∈ ax := List.getElem_mem _
    have := axis_summary d cache ax[i].1 ax[i].2 (hzip _ (hmemzip _ hp)) (hget _ hp) (hok.axes _ hp)
    rw [spansOf_get (hget _ hp)]
    exact this
  choose tabF tabT GF GT hfacts using hsum
  let C : Fin ax.length → ℕ := fun i => specColB ax[i].1
  have hCinj : Function.Injective C := by
    intro i j hij
    have := (List.Nodup.getElem_inj_iff hok.cols (i := i.val) (j := j.val) (hi := by simp [ax]) (hj := by simp [ax])).mp
      (by simpa [C, ax] using hij)
    exact Fin.ext this
  have hC : ∀ i, C i < d.columns.length := fun i => axisOK_col (hok.axes _ (List.getElem_mem _))
  have hexprinj : Function.Injective (fun i : Fin ax.length => ax[i].1.expr) := by
    intro i j hij
    -- the expressions of the axes are the expressions of their evaluated factors, a sublist of the cache's
    have hsub : (ax.map (fun p => p.2.ef.expr)).Sublist ((evs.map (·.ef)).map (·.expr)) := by
      have h1 : (ax.map (·.2)).Sublist ((d.factors.zip evs).map (·.2)) := (List.filter_sublist).map _
      have h2 : (d.factors.zip evs).map (·.2) = evs := by
        rw [← List.unzip_snd, List.unzip_zip (by omega)]
      rw [h2] at h1
      have := h1.map (fun ev : Evaled => ev.ef.expr)
      simpa [List.map_map, Function.comp_def] using this
    have hnd := hsub.nodup hok.exprs
    have hi := evalFactor_expr d _ _ (hzip _ (hmemzip _ (List.getElem_mem (h := i.isLt))))
    have hj := evalFactor_expr d _ _ (hzip _ (hmemzip _ (List.getElem_mem (h := j.isLt))))
    have hij' : ax[i.val].2.ef.expr = ax[j.val].2.ef.expr := by rw [hi, hj]; exact hij
    have := (List.Nodup.getElem_inj_iff hnd (i := i.val) (j := j.val) (hi := by simp) (hj := by simp)).mp
      (by simpa using hij')
    exact Fin.ext this
  have hlv : ∀ i : Fin ax.length, (levelsAlong d (C i)).length = (rows d).length := fun i => by simp [levelsAlong]
  have hlt : ∀ i : Fin ax.length, ∀ l ∈ levelsAlong d (C i), l < sizeAt d (C i) := by
    intro i l hl
    rw [sizeAt_eq d (C i) (hC i)]
    exact levelsAlong_lt d (C i) (hC i) l hl
  have hcd := crossedDesign_of_axes cache (rows d).length (fun i => sizeAt d (C i)) (fun i => ax[i].1.expr)
    (fun i => levelsAlong d (C i)) (tablOf tabF tabT) (gOf GF GT) hexprinj hlv hlt
    (fun τ => frame_surj d hok.nonempty C hCinj τ)
    (by
      intro i b
      obtain ⟨f, h1, h2, h3⟩ := (hfacts i).1.get
      cases b with
      | true => exact ⟨f, h1, h3⟩
      | false => exact ⟨f, h1, h2⟩)
    (by
      intro i b j hj
      cases b with
      | true => exact (hfacts i).1.colT j hj
      | false => exact (hfacts i).1.colF j hj)
  refine ⟨ax.length, _, _, _, _, _, hcd, ?_, ?_⟩
  · exact hyp_of_facts (fun i => sizeAt d (C i)) _ tabF tabT GF GT (fun i => (hfacts i).2)
  · intro p hp
    obtain ⟨t, ht, rfl⟩ := List.getElem_of_mem hp
    exact ⟨⟨t, ht⟩, rfl⟩


/-! ### the scoped terms only mention axes -/

open FormulaicVerif.Proofs.C03Cover FormulaicVerif.Proofs.C02 in
/-- a cached factor of the model that has values and is not a constant is an axis -/
theorem data_factor_is_axis (d : Design) (evs : List Evaled) (hok : DesignOK d evs) (e : String) (f : EvaledFactor)
    (hf : Cache.get (evs.map (·.ef)) e = .ok f) (hp : f.present = true) (hd : isData f) :
    ∃ p ∈ axesOfB d evs, p.1.expr = e := by
  obtain ⟨hlen, hzip⟩ := evalFactors_zip d d.factors evs hok.evals
  obtain ⟨hfe, hmem⟩ := Cache.get_ok hf
  obtain ⟨ev, hev, rfl⟩ := List.mem_map.mp hmem
  obtain ⟨t, ht, rfl⟩ := List.getElem_of_mem hev
  have ht' : t < d.factors.length := by omega
  have hpz : (d.factors[t], evs[t]) ∈ d.factors.zip evs := by
    rw [List.mem_iff_getElem]
    exact ⟨t, by simp [ht, ht'], by simp⟩
  have hevl := hzip _ hpz
  have hexpr := evalFactor_expr d _ _ hevl
  refine ⟨(d.factors[t], evs[t]), List.mem_filter.mpr ⟨hpz, ?_⟩, by rw [← hexpr]; exact hfe⟩
  -- literals are constants, `None`-valued names have no values
  simp only at hevl
  cases hs : d.factors[t] with
  | column e' c => rfl
  | wrapped e' c ct => rfl
  | literal e' v =>
    rw [hs] at hevl
    simp only [evalFactor, Except.ok.injEq] at hevl
    rw [← hevl] at hd
    exact absurd rfl (hd v)
  | null e' =>
    rw [hs] at hevl
    simp only [evalFactor, Except.ok.injEq] at hevl
    rw [← hevl] at hp
    cases hp

/-- when the model returns a matrix, it is `buildMatrix` on the configuration the model computed -/
theorem matrix_ok (d : Design) (evs : List Evaled) (hev : evalFactors d d.factors = .ok evs) (terms : List MTerm)
    (efr cluster asDict : Bool) (out : List Entry) (h : Crossed.matrix d terms efr cluster asDict = .ok out) :
    buildMatrix (configOf d evs terms efr cluster) asDict = .ok out := by
  unfold Crossed.matrix designStructure at h
  simp only [hev] at h
  unfold buildMatrix
  cases hb : buildStructure (configOf d evs terms efr cluster) with
  | error e => simp [hb] at h
  | ok rs =>
    simp only [hb] at h
    cases he : encodingError evs (rs.flatMap fun r => r.sts.flatMap (·.factors)) with
    | some x => simp [he] at h
    | none =>
      simp only [he, Except.ok.injEq] at h
      simp only [h]


/-! ### the executable checks imply the hypotheses -/

theorem noLoss_of_check {ev : Evaled} {n : ℕ} (h : noLossB ev n = true) : NoLoss ev n := by
  simp only [noLossB, Bool.and_eq_true] at h
  constructor
  · intro tab ht
    have := h.1
    simpa [ht] using this
  · intro tab ht
    have := h.2
    simpa [ht] using this

theorem twoValues_of_check {vs : List ℚ} (h : twoValuesB vs = true) :
    ∃ a b, a < vs.length ∧ b < vs.length ∧ vs[a]?.getD 0 ≠ vs[b]?.getD 0 := by
  simp only [twoValuesB, List.any_eq_true, List.mem_range, bne_iff_ne, ne_eq] at h
  obtain ⟨a, ha, b, hb, hab⟩ := h
  exact ⟨a, b, ha, hb, hab⟩

theorem scoresDistinct_of_check {ct : Contrast} (h : scoresDistinctB ct = true) :
    FormulaicVerif.Proofs.C11.ScoresDistinct ct := by
  cases ct with
  | poly sc =>
    cases sc with
    | none => trivial
    | some s => simpa [scoresDistinctB, FormulaicVerif.Proofs.C11.ScoresDistinct] using h
  | _ => trivial

theorem isOk_of_check {ε α} {r : Except ε α} (h : isOkB r = true) : ∃ a, r = .ok a := by
  cases r with
  | ok a => exact ⟨a, rfl⟩
  | error e => simp [isOkB] at h

theorem inferOK_of_check {d : Design} {levels : List Label} {decl : Bool} {c : ℕ} (h : inferOKB d levels decl c = true) :
    decl = true ∨ Contrasts.inferLevels (labelColumn levels c (rows d)) = levels := by
  simpa [inferOKB] using h

theorem axisOK_of_check {d : Design} {spec : FactorSpec} {ev : Evaled} (h : axisOKB d spec ev = true) :
    AxisOK d spec ev := by
  unfold axisOKB at h
  unfold AxisOK
  cases hcol : d.columns[specColB spec]? with
  | none => simp [hcol] at h
  | some cc =>
    cases cc with
    | num vs =>
      cases spec with
      | column e c => simp only [hcol] at h ⊢; exact twoValues_of_check h
      | wrapped e c ct => simp [hcol] at h
      | literal e v => simp [hcol] at h
      | null e => simp [hcol] at h
    | cat levels decl =>
      cases spec with
      | column e c =>
        simp only [hcol, Bool.and_eq_true, Bool.not_eq_true', decide_eq_true_eq, Option.isNone_iff_eq_none] at h ⊢
        obtain ⟨⟨⟨⟨h1, h2⟩, h3⟩, h4⟩, h5⟩ := h
        exact ⟨by intro e0; simp [e0] at h1, h2, inferOK_of_check h3, h4, noLoss_of_check h5⟩
      | wrapped e c ct =>
        simp only [hcol, Bool.and_eq_true, Bool.not_eq_true', decide_eq_true_eq, Option.isNone_iff_eq_none] at h ⊢
        obtain ⟨⟨⟨⟨⟨⟨⟨⟨⟨h1, h2⟩, h3⟩, h4⟩, h5⟩, h6⟩, h7⟩, h8⟩, h9⟩, h10⟩ := h
        obtain ⟨k, hk⟩ := isOk_of_check h7
        obtain ⟨mF, hmF⟩ := isOk_of_check h8
        obtain ⟨mT, hmT⟩ := isOk_of_check h9
        exact ⟨by intro e0; simp [e0] at h1, h2, inferOK_of_check h3, h4, h5, scoresDistinct_of_check h6,
          ⟨k, mF, mT, hk, hmF, hmT⟩, noLoss_of_check h10⟩
      | literal e v => simp [hcol] at h
      | null e => simp [hcol] at h

theorem designOK_of_check {d : Design} {evs : List Evaled} (hev : evalFactors d d.factors = .ok evs)
    (h : designOKB d evs = true) : DesignOK d evs := by
  simp only [designOKB, Bool.and_eq_true, decide_eq_true_eq, List.all_eq_true] at h
  obtain ⟨⟨⟨h1, h2⟩, h3⟩, h4⟩ := h
  exact ⟨hev, h1, h2, fun col hc => h3 col hc, fun p hp => axisOK_of_check (h4 p hp)⟩

end FormulaicVerif.Proofs.C03CrossedMain
