import FormulaicVerif.Model.Encode2
/-! Helper lemmas for C08: a call on a new object (empty caches) computes the cache-free reference
`Enc2.buildSpec` when no two terms share a factor. Core Lean only. -/
namespace FormulaicVerif.Proofs.C08Spec
open FormulaicVerif.Model FormulaicVerif.Model.Encode FormulaicVerif.Model.PyLevels FormulaicVerif.Model.Enc2

theorem lookupBy_append_none {κ α : Type} [DecidableEq κ] {k : κ} :
    ∀ {l₁ l₂ : List (κ × α)}, lookupBy k l₁ = none → lookupBy k (l₁ ++ l₂) = lookupBy k l₂
  | [], _, _ => rfl
  | (k', a) :: r, l₂, h => by
    simp only [lookupBy] at h
    by_cases hk : k' = k
    · simp [hk] at h
    · simp only [hk, if_false] at h
      simp only [List.cons_append, lookupBy, hk, if_false]
      exact lookupBy_append_none h

theorem lookupBy_append_some {κ α : Type} [DecidableEq κ] {k : κ} {a : α} :
    ∀ {l₁ l₂ : List (κ × α)}, lookupBy k l₁ = some a → lookupBy k (l₁ ++ l₂) = some a
  | [], _, h => by simp [lookupBy] at h
  | (k', a') :: r, l₂, h => by
    simp only [lookupBy] at h
    by_cases hk : k' = k
    · simp only [hk, if_true] at h
      simp [lookupBy, hk, h]
    · simp only [hk, if_false] at h
      simp only [List.cons_append, lookupBy, hk, if_false]
      exact lookupBy_append_some h

theorem lookupBy_none_of_not_mem {κ α : Type} [DecidableEq κ] {k : κ} :
    ∀ {l : List (κ × α)}, (∀ p ∈ l, p.1 ≠ k) → lookupBy k l = none
  | [], _ => rfl
  | (k', a) :: r, h => by
    have hk : k' ≠ k := h (k', a) List.mem_cons_self
    simp only [lookupBy, hk, if_false]
    exact lookupBy_none_of_not_mem (fun p hp => h p (List.mem_cons_of_mem _ hp))

/-- the evaluated factors of a list of factor ids (all must evaluate) -/
def evalList (tbl : List KindRow) (m : Mat) (frame : List Enc2.In) : List FactorId → Option (List (FactorId × EvalF))
  | [] => some []
  | f :: r =>
    match evalFactor tbl m frame f, evalList tbl m frame r with
    | .ok ef, some l => some ((f, ef) :: l)
    | _, _ => none

/-- step 1 from a cache that knows none of the (pairwise distinct) factors: the spec's null rows, and on
success the cache grows by exactly the evaluated factors, in order -/
theorem evaluateAll_spec (tbl : List KindRow) (m : Mat) (frame : List Enc2.In) (na : NA) :
    ∀ (fs : List FactorId) (fc : List (FactorId × EvalF)) (nulls : List Bool),
      fs.Nodup → (∀ f ∈ fs, ∀ p ∈ fc, p.1 ≠ f) →
      (evaluateAll tbl m frame na fs fc nulls).2 = evalAllSpec tbl m frame na fs nulls ∧
      (∀ nulls', evalAllSpec tbl m frame na fs nulls = .ok nulls' →
        ∃ l, evalList tbl m frame fs = some l ∧ (evaluateAll tbl m frame na fs fc nulls).1 = fc ++ l)
  | [], fc, nulls, _, _ => by
    refine ⟨rfl, ?_⟩
    intro nulls' _
    exact ⟨[], rfl, by simp [evaluateAll]⟩
  | f :: r, fc, nulls, hnd, hfresh => by
    rw [List.nodup_cons] at hnd
    have hnone : lookupBy f fc = none := lookupBy_none_of_not_mem (fun p hp => hfresh f List.mem_cons_self p hp)
    simp only [evaluateAll, evaluateOne, hnone, evalAllSpec]
    cases he : evalFactor tbl m frame f with
    | error e =>
      simp only
      exact ⟨by first | rfl | trivial, fun _ h => by cases h⟩
    | ok ef =>
      simp only
      cases hn : checkNulls na ef.vals nulls with
      | error e =>
        simp only
        exact ⟨by first | rfl | trivial, fun _ h => by cases h⟩
      | ok nulls1 =>
        simp only
        have hfresh' : ∀ g ∈ r, ∀ p ∈ fc ++ [(f, ef)], p.1 ≠ g := by
          intro g hg p hp
          rcases List.mem_append.mp hp with hp | hp
          · exact hfresh g (List.mem_cons_of_mem _ hg) p hp
          · simp only [List.mem_singleton] at hp
            subst hp
            intro e
            have e' : f = g := e
            exact hnd.1 (e' ▸ hg)
        obtain ⟨ih1, ih2⟩ := evaluateAll_spec tbl m frame na r (fc ++ [(f, ef)]) nulls1 hnd.2 hfresh'
        refine ⟨ih1, ?_⟩
        intro nulls' hs
        obtain ⟨l, hl, hfc⟩ := ih2 nulls' hs
        refine ⟨(f, ef) :: l, by simp [evalList, he, hl], ?_⟩
        rw [hfc]; simp

theorem evalList_lookup {tbl : List KindRow} {m : Mat} {frame : List Enc2.In} :
    ∀ {fs : List FactorId} {l : List (FactorId × EvalF)}, evalList tbl m frame fs = some l → fs.Nodup →
      ∀ f ∈ fs, ∃ ef, evalFactor tbl m frame f = .ok ef ∧ lookupBy f l = some ef
  | [], _, _, _, f, hf => by cases hf
  | g :: r, l, h, hnd, f, hf => by
    rw [List.nodup_cons] at hnd
    simp only [evalList] at h
    cases he : evalFactor tbl m frame g with
    | error e => simp [he] at h
    | ok ef =>
      cases hr : evalList tbl m frame r with
      | none => simp [he, hr] at h
      | some l' =>
        simp only [he, hr, Option.some.injEq] at h
        subst h
        rcases List.mem_cons.mp hf with rfl | hf
        · exact ⟨ef, he, by simp [lookupBy]⟩
        · have hne : g ≠ f := fun e => hnd.1 (e ▸ hf)
          obtain ⟨ef', h1, h2⟩ := evalList_lookup hr hnd.2 f hf
          exact ⟨ef', h1, by simp [lookupBy, hne, h2]⟩

/-- step 2 on a cache whose `factor_cache` holds the evaluated factors and whose `encoded_cache`
knows none of the remaining (pairwise distinct) factors: the spec -/
theorem encodeTerms_spec (tbl : List KindRow) (m : Mat) (frame : List Enc2.In) (out : Output) (mask : List Bool)
    (efr : Bool) (fcache : List (FactorId × EvalF))
    (hfc : ∀ f ef, lookupBy f fcache = some ef → evalFactor tbl m frame f = .ok ef) :
    ∀ (terms : List Term) (spanned : Bool) (c : Caches), c.factorCache = fcache →
      (terms.map (·.fid)).Nodup → (∀ t ∈ terms, ∃ ef, lookupBy t.fid fcache = some ef) →
      (∀ t ∈ terms, ∀ p ∈ c.encodedCache, p.1.1 ≠ t.fid) →
      (encodeTerms out mask efr spanned terms c).2 = encodeTermsSpec tbl m frame out mask efr spanned terms
  | [], _, _, _, _, _, _ => rfl
  | t :: rest, spanned, c, hc, hnd, hall, hfresh => by
    simp only [List.map_cons, List.nodup_cons] at hnd
    obtain ⟨ef, hef⟩ := hall t List.mem_cons_self
    have hev := hfc t.fid ef hef
    have hcat : isCategorical c t.fid = ef.categorical := by simp [isCategorical, hc, hef]
    have hmiss : lookupBy (t.fid, ef.categorical && efr && spanned) c.encodedCache = none :=
      lookupBy_none_of_not_mem (fun p hp e => hfresh t List.mem_cons_self p hp (by rw [e]))
    simp only [encodeTerms, encodeTermsSpec, hev, encodeCached, hc, hef, hmiss, hcat]
    cases hx : encodeFactor out t.fid ef mask (ef.categorical && efr && spanned) with
    | error e => rfl
    | ok enc =>
      simp only
      have ih := encodeTerms_spec tbl m frame out mask efr fcache hfc rest (spanned || ef.categorical)
        { c with encodedCache := c.encodedCache ++ [((t.fid, ef.categorical && efr && spanned), enc)] } hc hnd.2
        (fun t' ht' => hall t' (List.mem_cons_of_mem _ ht'))
        (by
          intro t' ht' p hp
          rcases List.mem_append.mp hp with hp | hp
          · exact hfresh t' (List.mem_cons_of_mem _ ht') p hp
          · simp only [List.mem_singleton] at hp
            subst hp
            intro e
            exact hnd.1 (List.mem_map.mpr ⟨t', ht', e.symm⟩))
      cases h2 : encodeTerms out mask efr (spanned || ef.categorical) rest
          { c with encodedCache := c.encodedCache ++ [((t.fid, ef.categorical && efr && spanned), enc)] } with
      | mk c2 r2 =>
        rw [h2] at ih
        simp only at ih
        have h2' := h2
        rw [hc] at h2'
        rw [h2', ← ih]
        cases r2 <;> rfl

/-- a call on a new object computes the cache-free reference -/
theorem freshMatrix_eq_spec (tbl : List KindRow) (m : Mat) (nrows : Nat) (frame : List Enc2.In) (k : Call)
    (hnd : (k.terms.map (·.fid)).Nodup) : freshMatrix tbl m nrows frame k = buildSpec tbl m nrows frame k := by
  unfold freshMatrix getModelMatrixOn buildSpec
  simp only [if_true]
  obtain ⟨h1, h2⟩ := evaluateAll_spec tbl m frame k.na (k.terms.map (·.fid)) Caches.empty.factorCache
    (List.replicate nrows false) hnd (fun f _ p hp => by simp [Caches.empty] at hp)
  cases he : evaluateAll tbl m frame k.na (k.terms.map (·.fid)) Caches.empty.factorCache (List.replicate nrows false) with
  | mk fc r =>
    rw [he] at h1 h2
    simp only at h1 h2
    rw [← h1]
    cases r with
    | error e => rfl
    | ok nulls =>
      simp only
      obtain ⟨l, hl, hfc⟩ := h2 nulls h1.symm
      have hfc' : fc = l := by simpa [Caches.empty] using hfc
      subst hfc'
      have hlook := evalList_lookup hl hnd
      have hspec := encodeTerms_spec tbl m frame k.out (nulls.map (!·)) k.efr fc
        (by
          intro f ef hf
          -- a key of `fc` is one of the factors, and its value is what `evalFactor` returns
          have : ∀ {fs : List FactorId} {l : List (FactorId × EvalF)}, evalList tbl m frame fs = some l →
              ∀ f ef, lookupBy f l = some ef → evalFactor tbl m frame f = .ok ef := by
            intro fs
            induction fs with
            | nil =>
              intro l h f ef hf
              simp only [evalList, Option.some.injEq] at h
              subst h; simp [lookupBy] at hf
            | cons g r ih =>
              intro l h f ef hf
              simp only [evalList] at h
              cases hg : evalFactor tbl m frame g with
              | error e => simp [hg] at h
              | ok eg =>
                cases hr : evalList tbl m frame r with
                | none => simp [hg, hr] at h
                | some l' =>
                  simp only [hg, hr, Option.some.injEq] at h
                  subst h
                  simp only [lookupBy] at hf
                  by_cases hgf : g = f
                  · simp only [hgf, if_true, Option.some.injEq] at hf
                    subst hf; rw [← hgf]; exact hg
                  · simp only [hgf, if_false] at hf
                    exact ih hr f ef hf
          exact this hl f ef hf)
        k.terms k.intercept { Caches.empty with factorCache := fc } rfl hnd
        (fun t ht => by
          obtain ⟨ef, _, h⟩ := hlook t.fid (List.mem_map.mpr ⟨t, ht, rfl⟩)
          exact ⟨ef, h⟩)
        (fun t _ p hp => by simp [Caches.empty] at hp)
      cases h3 : encodeTerms k.out (nulls.map (!·)) k.efr k.intercept k.terms { Caches.empty with factorCache := fc } with
      | mk c3 r3 =>
        rw [h3] at hspec
        simp only at hspec
        rw [← hspec]
        cases r3 <;> rfl

end FormulaicVerif.Proofs.C08Spec
