import FormulaicVerif.Proofs.C03
import FormulaicVerif.Model.Crossed
import FormulaicVerif.Model.ScopedOps
import FormulaicVerif.Gen.ContrastsTable
import Mathlib.Data.List.Forall2
import Mathlib.Data.List.Nodup
/-! C03: facts about the parts of the code that entered the model with the extension — factors without values,
Python-level identity of scoped factors / terms, the frame of the crossed-design model. -/
namespace FormulaicVerif.Proofs.C03Model
open FormulaicVerif.Model FormulaicVerif.Spec FormulaicVerif.Proofs.C03 FormulaicVerif.Proofs.C02
  FormulaicVerif.Proofs.Sort

/-! ### factors without values -/

/-- does the cached factor have values (`values.__wrapped__ is not None`); unknown names count as present (the
lookup raises before the question arises) -/
def hasValues (c : Cache) (e : String) : Bool :=
  match c.get e with
  | .ok f => f.present
  | .error _ => true

theorem evaledFactors_filter (c : Cache) (t : MTerm) (hget : ∀ e ∈ t, ∃ f, c.get e = .ok f) :
    evaledFactors c (t.filter (hasValues c)) = evaledFactors c t := by
  induction t with
  | nil => rfl
  | cons e r ih =>
    obtain ⟨f, hf⟩ := hget e (by simp)
    have ih' := ih (fun x hx => hget x (by simp [hx]))
    by_cases hp : f.present = true
    · have : hasValues c e = true := by simp [hasValues, hf, hp]
      simp only [List.filter_cons, this, if_true, evaledFactors, hf, ih']
    · have hp' : f.present = false := by simpa using hp
      have : hasValues c e = false := by simp [hasValues, hf, hp']
      simp only [List.filter_cons, this, Bool.false_eq_true, if_false, evaledFactors, hf, ih', hp']
      cases evaledFactors c r <;> rfl

theorem scopeTerm_filter (c : Cache) (efr : Bool) (spanned : List ST) (t : MTerm)
    (hget : ∀ e ∈ t, ∃ f, c.get e = .ok f) :
    scopeTerm c efr spanned (t.filter (hasValues c)) = scopeTerm c efr spanned t := by
  unfold scopeTerm
  rw [evaledFactors_filter c t hget]

/-! ### identity of scoped factors and scoped terms -/

open FormulaicVerif.Model.ScopedOps

theorem pyEq_comm (a b : Obj) : pyEq a b = pyEq b a := by
  cases a <;> cases b <;> simp only [pyEq]
  · exact decide_eq_decide.mpr ⟨Eq.symm, Eq.symm⟩
  · exact ST.eq_comm _ _

theorem sort_map_repr {a b : List SF} (h : SF.sort a = SF.sort b) :
    (SF.sort a).map reprSF = (SF.sort b).map reprSF := by rw [h]

theorem pyEq_hash {a b : Obj} (h : pyEq a b = true) : hashKey a = hashKey b ∧ (hashKey a).isSome = true := by
  cases a with
  | sf x =>
    cases b with
    | sf y => simp only [pyEq, decide_eq_true_eq] at h; subst h; exact ⟨rfl, rfl⟩
    | st y => simp [pyEq] at h
    | other => simp [pyEq] at h
  | st x =>
    cases b with
    | sf y => simp [pyEq] at h
    | st y =>
      simp only [pyEq, ST.eq, beq_iff_eq] at h
      exact ⟨by simp only [hashKey, h], rfl⟩
    | other => simp [pyEq] at h
  | other => cases b <;> simp [pyEq] at h

/-! ### the frame of the crossed-design model -/

theorem mem_iproduct {α} {xss : List (List α)} {p : List α} :
    p ∈ iproduct xss ↔ List.Forall₂ (· ∈ ·) p xss := by
  induction xss generalizing p with
  | nil =>
    simp only [iproduct, List.mem_singleton]
    constructor
    · rintro rfl; exact List.Forall₂.nil
    · intro h; cases h; rfl
  | cons xs rest ih =>
    simp only [iproduct, List.mem_flatMap, List.mem_map]
    constructor
    · rintro ⟨x, hx, t, ht, rfl⟩
      exact List.Forall₂.cons hx (ih.mp ht)
    · intro h
      cases h with
      | cons hx ht => exact ⟨_, hx, _, ih.mpr ht, rfl⟩

theorem nodup_iproduct {α} {xss : List (List α)} (h : ∀ xs ∈ xss, xs.Nodup) : (iproduct xss).Nodup := by
  induction xss with
  | nil => simp [iproduct]
  | cons xs rest ih =>
    simp only [iproduct]
    rw [List.nodup_flatMap]
    refine ⟨?_, ?_⟩
    · intro x _
      exact (ih (fun ys hys => h ys (by simp [hys]))).map (fun a b hab => by simpa using hab)
    · have hxs := h xs (by simp)
      refine hxs.imp ?_
      intro a b hab
      simp only [Function.onFun, List.disjoint_left, List.mem_map]
      rintro _ ⟨t, _, rfl⟩ ⟨t', _, he⟩
      exact hab (by simpa using (List.cons.inj he).1.symm)

/-- The frame of `Model.Crossed` is FULLY CROSSED: a tuple of level indices is a row iff it has one entry per column,
each below the number of levels of its column — every combination of levels occurs — -/
theorem rows_complete (d : Crossed.Design) (p : List Nat) :
    p ∈ Crossed.rows d ↔ List.Forall₂ (fun l (col : Crossed.Column) => l < col.size) p d.columns := by
  unfold Crossed.rows
  rw [mem_iproduct]
  generalize d.columns = cols
  induction cols generalizing p with
  | nil =>
    constructor
    · intro h; cases h; exact List.Forall₂.nil
    · intro h; cases h; exact List.Forall₂.nil
  | cons col rest ih =>
    constructor
    · intro h
      cases h with
      | cons hx ht => exact List.Forall₂.cons (by simpa using hx) ((ih _).mp ht)
    · intro h
      cases h with
      | cons hx ht => exact List.Forall₂.cons (by simpa using hx) ((ih _).mpr ht)

/-- — and exactly once. -/
theorem rows_nodup (d : Crossed.Design) : (Crossed.rows d).Nodup := by
  unfold Crossed.rows
  apply nodup_iproduct
  intro xs hxs
  obtain ⟨col, _, rfl⟩ := List.mem_map.mp hxs
  exact List.nodup_range


/-! ### the column-name templates are those of the live package -/

/-- the name under which a built-in contrast is registered in `ContrastsRegistry` -/
def registryName : FormulaicVerif.Model.Contrasts.Contrast → String
  | .treatment _ => "treatment"
  | .sas _ => "SAS"
  | .sum => "sum"
  | .helmert _ _ => "helmert"
  | .diff _ => "diff"
  | .poly _ => "poly"

/-- the templates of every built-in contrast are those recorded from the live package in `Gen/ContrastsTable.lean`
(`registry`: `contr.<name>` ↦ class; `formats`: class ↦ `FACTOR_FORMAT`, `FACTOR_FORMAT_REDUCED`) -/
theorem formats_live (c : FormulaicVerif.Model.Contrasts.Contrast) :
    ∃ cls, (registryName c, cls) ∈ FormulaicVerif.Gen.ContrastsTable.registry ∧
      (cls, FormulaicVerif.Model.Contrasts.factorFormat c false,
        FormulaicVerif.Model.Contrasts.factorFormat c true) ∈ FormulaicVerif.Gen.ContrastsTable.formats := by
  cases c <;>
    simp only [registryName, FormulaicVerif.Model.Contrasts.factorFormat, FormulaicVerif.Model.Contrasts.reducedFormat]
  · exact ⟨"TreatmentContrasts", by decide, by decide⟩
  · exact ⟨"SASContrasts", by decide, by decide⟩
  · exact ⟨"SumContrasts", by decide, by decide⟩
  · exact ⟨"HelmertContrasts", by decide, by decide⟩
  · exact ⟨"DiffContrasts", by decide, by decide⟩
  · exact ⟨"PolyContrasts", by decide, by decide⟩

/-- the model's template parser reads the default template as the translator does (`Gen/FactorMeta.lean`) -/
theorem default_format_parsed :
    FormulaicVerif.Model.Crossed.parseFmt "{name}[{field}]" = FormulaicVerif.Gen.defaultFormat := by decide +kernel

end FormulaicVerif.Proofs.C03Model
