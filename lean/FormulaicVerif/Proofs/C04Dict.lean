import FormulaicVerif.Proofs.C04Poly
import FormulaicVerif.Proofs.C04Cat
/-! Insertion-ordered dictionaries, the call protocol of a lawful transform, the decorator's loop over
dict-valued data (`T.callDict`) and the column-by-column call on a 2-D array (`callCols`). -/
namespace FormulaicVerif.Proofs.C04
open FormulaicVerif.Model FormulaicVerif.Model.Replay FormulaicVerif.Spec.Replay

/-! ## dictionaries -/
section dict
variable {κ σ : Type} [DecidableEq κ]

theorem getKey_setKey_same (m : List (κ × σ)) (k : κ) (s : σ) : getKey (setKey m k s) k = some s := by
  induction m with
  | nil => simp [setKey, getKey]
  | cons a r ih =>
    obtain ⟨k', s'⟩ := a
    simp only [setKey]
    by_cases h : k' = k
    · simp [h, getKey]
    · simp [h, getKey, ih]

theorem getKey_setKey_ne (m : List (κ × σ)) (k k' : κ) (s : σ) (h : k' ≠ k) :
    getKey (setKey m k s) k' = getKey m k' := by
  induction m with
  | nil => simp [setKey, getKey, Ne.symm h]
  | cons a r ih =>
    obtain ⟨k2, s2⟩ := a
    simp only [setKey]
    by_cases h2 : k2 = k
    · subst h2
      simp [getKey, Ne.symm h]
    · simp only [h2, if_false, getKey, ih]

theorem setKey_of_getKey (m : List (κ × σ)) (k : κ) (s : σ) (h : getKey m k = some s) : setKey m k s = m := by
  induction m with
  | nil => simp [getKey] at h
  | cons a r ih =>
    obtain ⟨k', s'⟩ := a
    simp only [getKey] at h
    simp only [setKey]
    by_cases hk : k' = k
    · simp only [hk, if_true, Option.some.injEq] at h
      simp [hk, h]
    · simp only [hk, if_false] at h
      simp [hk, ih h]

theorem extends_refl (m : List (κ × σ)) : Extends m m := fun _ _ h => h

theorem extends_trans {a b c : List (κ × σ)} (h1 : Extends a b) (h2 : Extends b c) : Extends a c :=
  fun k v h => h2 k v (h1 k v h)

theorem extends_setKey (m : List (κ × σ)) (k : κ) (s : σ) (h : getKey m k = none) : Extends m (setKey m k s) := by
  intro k' v hv
  by_cases hk : k' = k
  · subst hk; rw [h] at hv; cases hv
  · rw [getKey_setKey_ne m k k' s hk]; exact hv

end dict

/-! ## one stateful call -/
/-- the call protocol on a recorded complete state, for any lawful transform -/
theorem call_some {α β σ ε : Type} {t : T α β σ ε} {Good : σ → Prop} (L : Lawful t Good) (st : σ)
    (hg : Good st) (xs : List α) (out : List β) (st' : σ) (h : t.call (some st) xs = .ok (out, st')) :
    st' = st ∧ out.length = xs.length ∧ ∀ is, t.call (some st) (select is xs) = .ok (select is out, st) := by
  have h' : t.run st xs = .ok (out, st') := h
  obtain ⟨ho, hs⟩ := L.rowwise st xs out st' hg h'
  exact ⟨hs, by rw [ho]; simp, fun is => run_select L st hg xs out st' h' is⟩

theorem call_none {α β σ ε : Type} {t : T α β σ ε} {Good : σ → Prop} (L : Lawful t Good)
    (xs : List α) (out : List β) (st : σ) (h : t.call none xs = .ok (out, st)) :
    Good st ∧ t.call (some st) xs = .ok (out, st) := by
  simp only [T.call] at h
  cases hf : t.fit xs with
  | error e => simp [hf] at h
  | ok p =>
    obtain ⟨s, o⟩ := p
    simp only [hf, Except.ok.injEq, Prod.mk.injEq] at h
    obtain ⟨rfl, rfl⟩ := h
    exact ⟨L.fit_good xs s o hf, L.after_fit xs s o hf⟩

section
variable {α σ ε κ : Type} [DecidableEq κ]

/-- **Nested state, fit then replay.**  From a dictionary of good per-key states (e.g. the empty
one) the decorator's loop over a dict only adds good states, every visible key ends up recorded,
and running the loop again under any extension of the resulting dictionary gives the same result
and leaves that dictionary unchanged. -/
theorem callDict_stable {t : T α α σ ε} {Good : σ → Prop} (L : Lawful t Good) (hidden : κ → Bool)
    (cs : List (κ × List α)) (m : List (κ × σ)) (hg : ∀ k s, getKey m k = some s → Good s)
    (res : List (κ × List α)) (m1 : List (κ × σ)) (h : t.callDict hidden m cs = .ok (res, m1)) :
    (∀ k s, getKey m1 k = some s → Good s) ∧ Extends m m1 ∧
    (∀ p ∈ cs, hidden p.1 = false → ∃ s, getKey m1 p.1 = some s) ∧
    ∀ mX, Extends m1 mX → t.callDict hidden mX cs = .ok (res, mX) := by
  induction cs generalizing m res m1 with
  | nil =>
    simp only [T.callDict, Except.ok.injEq, Prod.mk.injEq] at h
    obtain ⟨rfl, rfl⟩ := h
    exact ⟨hg, extends_refl _, fun _ hp => (by cases hp), fun _ _ => rfl⟩
  | cons p rest ih =>
    obtain ⟨k, datum⟩ := p
    simp only [T.callDict] at h
    by_cases hh : hidden k = true
    · simp only [hh, if_true] at h
      cases hr : t.callDict hidden m rest with
      | error e => simp [hr] at h
      | ok r =>
        obtain ⟨res', m'⟩ := r
        simp only [hr, Except.ok.injEq, Prod.mk.injEq] at h
        obtain ⟨rfl, rfl⟩ := h
        obtain ⟨i1, i2, i3, i4⟩ := ih m hg res' m' hr
        refine ⟨i1, i2, ?_, fun mX hx => ?_⟩
        · intro q hq hqh
          rcases List.mem_cons.1 hq with rfl | hq
          · simp [hh] at hqh
          · exact i3 q hq hqh
        · simp only [T.callDict, hh, if_true, i4 mX hx]
    · simp only [hh, Bool.false_eq_true, if_false] at h
      cases hc : t.call (getKey m k) datum with
      | error e => simp [hc] at h
      | ok r0 =>
        obtain ⟨out, s⟩ := r0
        simp only [hc] at h
        cases hr : t.callDict hidden (setKey m k s) rest with
        | error e => simp [hr] at h
        | ok r =>
          obtain ⟨res', m'⟩ := r
          simp only [hr, Except.ok.injEq, Prod.mk.injEq] at h
          obtain ⟨rfl, rfl⟩ := h
          -- the state under `k` after this call is good, and replaying it gives `out` again
          have key : Good s ∧ t.call (some s) datum = .ok (out, s) ∧ Extends m (setKey m k s) := by
            cases hget : getKey m k with
            | none =>
              rw [hget] at hc
              obtain ⟨g1, g2⟩ := call_none L datum out s hc
              exact ⟨g1, g2, extends_setKey m k s hget⟩
            | some s0 =>
              rw [hget] at hc
              obtain ⟨g1, _, _⟩ := call_some L s0 (hg k s0 hget) datum out s hc
              subst g1
              rw [setKey_of_getKey m k s hget]
              exact ⟨hg k s hget, hc, extends_refl _⟩
          obtain ⟨kg, kc, ke⟩ := key
          have hg' : ∀ k' s', getKey (setKey m k s) k' = some s' → Good s' := by
            intro k' s' hk'
            by_cases hkk : k' = k
            · subst hkk
              rw [getKey_setKey_same] at hk'
              cases hk'; exact kg
            · rw [getKey_setKey_ne m k k' s hkk] at hk'
              exact hg k' s' hk'
          obtain ⟨i1, i2, i3, i4⟩ := ih (setKey m k s) hg' res' m' hr
          refine ⟨i1, extends_trans ke i2, ?_, fun mX hx => ?_⟩
          · intro q hq hqh
            rcases List.mem_cons.1 hq with rfl | hq
            · exact ⟨s, i2 _ _ (getKey_setKey_same m k s)⟩
            · exact i3 q hq hqh
          · have hgx : getKey mX k = some s := hx _ _ (i2 _ _ (getKey_setKey_same m k s))
            simp only [T.callDict, hh, Bool.false_eq_true, if_false, hgx, kc, setKey_of_getKey mX k s hgx,
              i4 mX hx]

/-- **Nested state, replay.**  When every visible key of the dict has a good recorded state, the
loop leaves the state dictionary unchanged and commutes with row selection (applied to every
column of the dict). -/
theorem callDict_replay {t : T α α σ ε} {Good : σ → Prop} (L : Lawful t Good) (hidden : κ → Bool)
    (cs : List (κ × List α)) (m : List (κ × σ))
    (hp : ∀ p ∈ cs, hidden p.1 = false → ∃ s, getKey m p.1 = some s ∧ Good s)
    (res : List (κ × List α)) (m1 : List (κ × σ)) (h : t.callDict hidden m cs = .ok (res, m1)) :
    m1 = m ∧ ∀ is, t.callDict hidden m (cs.map (fun p => (p.1, select is p.2)))
      = .ok (res.map (fun p => (p.1, select is p.2)), m) := by
  induction cs generalizing res m1 with
  | nil =>
    simp only [T.callDict, Except.ok.injEq, Prod.mk.injEq] at h
    obtain ⟨rfl, rfl⟩ := h
    exact ⟨rfl, fun _ => rfl⟩
  | cons p rest ih =>
    obtain ⟨k, datum⟩ := p
    simp only [T.callDict] at h
    by_cases hh : hidden k = true
    · simp only [hh, if_true] at h
      cases hr : t.callDict hidden m rest with
      | error e => simp [hr] at h
      | ok r =>
        obtain ⟨res', m'⟩ := r
        simp only [hr, Except.ok.injEq, Prod.mk.injEq] at h
        obtain ⟨rfl, rfl⟩ := h
        obtain ⟨i1, i2⟩ := ih (fun q hq => hp q (by simp [hq])) res' m' hr
        subst i1
        exact ⟨rfl, fun is => by simp only [List.map_cons, T.callDict, hh, if_true, i2 is]⟩
    · simp only [hh, Bool.false_eq_true, if_false] at h
      obtain ⟨s, hget, hgood⟩ := hp (k, datum) (by simp) (by simpa using hh)
      rw [hget] at h
      cases hc : t.call (some s) datum with
      | error e => simp [hc] at h
      | ok r0 =>
        obtain ⟨out, s'⟩ := r0
        obtain ⟨g1, _, g3⟩ := call_some L s hgood datum out s' hc
        subst g1
        simp only [hc, setKey_of_getKey m k s' hget] at h
        cases hr : t.callDict hidden m rest with
        | error e => simp [hr] at h
        | ok r =>
          obtain ⟨res', m'⟩ := r
          simp only [hr, Except.ok.injEq, Prod.mk.injEq] at h
          obtain ⟨rfl, rfl⟩ := h
          obtain ⟨i1, i2⟩ := ih (fun q hq => hp q (by simp [hq])) res' m' hr
          subst i1
          refine ⟨rfl, fun is => ?_⟩
          have hget' : getKey m' k = some s' := hget
          simp only [List.map_cons, T.callDict, hh, Bool.false_eq_true, if_false, hget', g3 is,
            setKey_of_getKey m' k s' hget', i2 is]
end


/-! ## keys and lengths of the decorator's loop -/
section
variable {α σ ε κ : Type} [DecidableEq κ]

/-- the result of the loop has the keys of the data, in the same order -/
theorem callDict_keys {t : T α α σ ε} (hidden : κ → Bool) (cs : List (κ × List α)) (m : List (κ × σ))
    (res : List (κ × List α)) (m1 : List (κ × σ)) (h : t.callDict hidden m cs = .ok (res, m1)) :
    res.map (·.1) = cs.map (·.1) := by
  induction cs generalizing m res m1 with
  | nil =>
    simp only [T.callDict, Except.ok.injEq, Prod.mk.injEq] at h
    obtain ⟨rfl, rfl⟩ := h
    rfl
  | cons p rest ih =>
    obtain ⟨k, datum⟩ := p
    simp only [T.callDict] at h
    by_cases hh : hidden k = true
    · simp only [hh, if_true] at h
      cases hr : t.callDict hidden m rest with
      | error e => simp [hr] at h
      | ok r =>
        obtain ⟨res', m'⟩ := r
        simp only [hr, Except.ok.injEq, Prod.mk.injEq] at h
        obtain ⟨rfl, rfl⟩ := h
        simp only [List.map_cons, ih m res' m' hr]
    · simp only [hh, Bool.false_eq_true, if_false] at h
      cases hc : t.call (getKey m k) datum with
      | error e => simp [hc] at h
      | ok r0 =>
        obtain ⟨out, s⟩ := r0
        simp only [hc] at h
        cases hr : t.callDict hidden (setKey m k s) rest with
        | error e => simp [hr] at h
        | ok r =>
          obtain ⟨res', m'⟩ := r
          simp only [hr, Except.ok.injEq, Prod.mk.injEq] at h
          obtain ⟨rfl, rfl⟩ := h
          simp only [List.map_cons, ih _ res' m' hr]

/-- one call of a lawful transform (fitting or replaying a good state) yields one output per input -/
theorem call_len {β : Type} {t : T α β σ ε} {Good : σ → Prop} (L : Lawful t Good) (o : Option σ)
    (ho : ∀ s0, o = some s0 → Good s0) (xs : List α) (out : List β) (s : σ)
    (h : t.call o xs = .ok (out, s)) : out.length = xs.length ∧ Good s := by
  cases o with
  | none =>
    obtain ⟨g1, g2⟩ := call_none L xs out s h
    obtain ⟨_, g3, _⟩ := call_some L s g1 xs out s g2
    exact ⟨g3, g1⟩
  | some s0 =>
    obtain ⟨g1, g2, _⟩ := call_some L s0 (ho s0 rfl) xs out s h
    subst g1
    exact ⟨g2, ho _ rfl⟩

/-- every column of the result is as long as the columns of the data (the states found under the
visible keys of the data are good) -/
theorem callDict_len {t : T α α σ ε} {Good : σ → Prop} (L : Lawful t Good) (hidden : κ → Bool)
    (cs : List (κ × List α)) (m : List (κ × σ))
    (hg : ∀ p ∈ cs, hidden p.1 = false → ∀ s, getKey m p.1 = some s → Good s)
    (res : List (κ × List α)) (m1 : List (κ × σ)) (h : t.callDict hidden m cs = .ok (res, m1))
    (n : Nat) (hn : ∀ p ∈ cs, p.2.length = n) : ∀ q ∈ res, q.2.length = n := by
  induction cs generalizing m res m1 with
  | nil =>
    simp only [T.callDict, Except.ok.injEq, Prod.mk.injEq] at h
    obtain ⟨rfl, rfl⟩ := h
    intro q hq; cases hq
  | cons p rest ih =>
    obtain ⟨k, datum⟩ := p
    simp only [T.callDict] at h
    by_cases hh : hidden k = true
    · simp only [hh, if_true] at h
      cases hr : t.callDict hidden m rest with
      | error e => simp [hr] at h
      | ok r =>
        obtain ⟨res', m'⟩ := r
        simp only [hr, Except.ok.injEq, Prod.mk.injEq] at h
        obtain ⟨rfl, rfl⟩ := h
        intro q hq
        rcases List.mem_cons.1 hq with rfl | hq
        · exact hn (k, datum) (by simp)
        · exact ih m (fun p hp => hg p (by simp [hp])) res' m' hr (fun p hp => hn p (by simp [hp])) q hq
    · simp only [hh, Bool.false_eq_true, if_false] at h
      cases hc : t.call (getKey m k) datum with
      | error e => simp [hc] at h
      | ok r0 =>
        obtain ⟨out, s⟩ := r0
        simp only [hc] at h
        obtain ⟨l1, l2⟩ := call_len L (getKey m k)
          (fun s0 h0 => hg (k, datum) (by simp) (by simpa using hh) s0 h0) datum out s hc
        cases hr : t.callDict hidden (setKey m k s) rest with
        | error e => simp [hr] at h
        | ok r =>
          obtain ⟨res', m'⟩ := r
          simp only [hr, Except.ok.injEq, Prod.mk.injEq] at h
          obtain ⟨rfl, rfl⟩ := h
          have hg' : ∀ p ∈ rest, hidden p.1 = false → ∀ s', getKey (setKey m k s) p.1 = some s' → Good s' := by
            intro p hp hph s' hk'
            by_cases hkk : p.1 = k
            · rw [hkk, getKey_setKey_same] at hk'
              cases hk'; exact l2
            · rw [getKey_setKey_ne m k p.1 s hkk] at hk'
              exact hg p (by simp [hp]) hph s' hk'
          intro q hq
          rcases List.mem_cons.1 hq with rfl | hq
          · exact l1.trans (hn (k, datum) (by simp))
          · exact ih _ hg' res' m' hr (fun p hp => hn p (by simp [hp])) q hq
end

/-! ## a `scale`-family call on the columns of a 2-D array -/
section
variable {t : T Rat Rat (Scale.State Rat) TErr} {Good : Scale.State Rat → Prop}

/-- **Per-column state, fit then replay.**  The fitting call records one good state per column, and
replaying exactly those states on the same array gives the same columns and leaves them unchanged. -/
theorem callCols_fit (L : Lawful t Good) (cols outs : List (List Rat)) (ss : List (Scale.State Rat))
    (h : callCols t none cols = .ok (outs, ss)) :
    (∀ s ∈ ss, Good s) ∧ ss.length = cols.length ∧ callCols t (some ss) cols = .ok (outs, ss) := by
  induction cols generalizing outs ss with
  | nil =>
    simp only [callCols, Except.ok.injEq, Prod.mk.injEq] at h
    obtain ⟨rfl, rfl⟩ := h
    exact ⟨fun _ hs => (by cases hs), rfl, rfl⟩
  | cons c cs ih =>
    simp only [callCols] at h
    cases hc : t.call none c with
    | error e => simp [hc] at h
    | ok r0 =>
      obtain ⟨out, s⟩ := r0
      simp only [hc] at h
      cases hr : callCols t none cs with
      | error e => simp [hr] at h
      | ok r =>
        obtain ⟨outs', ss'⟩ := r
        simp only [hr, Except.ok.injEq, Prod.mk.injEq] at h
        obtain ⟨rfl, rfl⟩ := h
        obtain ⟨g1, g2⟩ := call_none L c out s hc
        obtain ⟨i1, i2, i3⟩ := ih outs' ss' hr
        refine ⟨?_, by simp [i2], by simp only [callCols, g2, i3]⟩
        intro s' hs'
        rcases List.mem_cons.1 hs' with rfl | hs'
        · exact g1
        · exact i1 s' hs'

/-- **Per-column state, replay.**  With one good recorded state per column the call leaves the states
unchanged, keeps the number and the length of the columns, and commutes with row selection. -/
theorem callCols_replay (L : Lawful t Good) (cols outs : List (List Rat)) (ss ss' : List (Scale.State Rat))
    (hg : ∀ s ∈ ss, Good s) (h : callCols t (some ss) cols = .ok (outs, ss')) :
    ss' = ss ∧ ss.length = cols.length ∧ outs.length = cols.length ∧
      (∀ n, (∀ c ∈ cols, c.length = n) → ∀ o ∈ outs, o.length = n) ∧
      ∀ is, callCols t (some ss) (cols.map (select is)) = .ok (outs.map (select is), ss) := by
  induction cols generalizing outs ss ss' with
  | nil =>
    cases ss with
    | nil =>
      simp only [callCols, Except.ok.injEq, Prod.mk.injEq] at h
      obtain ⟨rfl, rfl⟩ := h
      exact ⟨rfl, rfl, rfl, fun _ _ o ho => (by cases ho), fun _ => rfl⟩
    | cons s0 ss0 => simp [callCols] at h
  | cons c cs ih =>
    cases ss with
    | nil => simp [callCols] at h
    | cons s0 ss0 =>
      simp only [callCols] at h
      cases hc : t.call (some s0) c with
      | error e => simp [hc] at h
      | ok r0 =>
        obtain ⟨out, s⟩ := r0
        simp only [hc] at h
        cases hr : callCols t (some ss0) cs with
        | error e => simp [hr] at h
        | ok r =>
          obtain ⟨outs', ss1⟩ := r
          simp only [hr, Except.ok.injEq, Prod.mk.injEq] at h
          obtain ⟨rfl, rfl⟩ := h
          obtain ⟨g1, g2, g3⟩ := call_some L s0 (hg s0 (by simp)) c out s hc
          subst g1
          obtain ⟨i1, i2, i3, i4, i5⟩ := ih outs' ss0 ss1 (fun s' hs' => hg s' (by simp [hs'])) hr
          subst i1
          refine ⟨rfl, by simp [i2], by simp [i3], ?_, fun is => ?_⟩
          · intro n hn o ho
            rcases List.mem_cons.1 ho with rfl | ho
            · exact g2.trans (hn c (by simp))
            · exact i4 n (fun c' hc' => hn c' (by simp [hc'])) o ho
          · simp only [List.map_cons, callCols, g3 is, i5 is]

end

/-! ## positional keys -/

theorem positional_keys (cols : List (List Rat)) :
    (positional cols).map (·.1) = (List.range cols.length).map natField := by
  unfold positional
  rw [List.map_fst_zip]
  simp

theorem positional_length (cols : List (List Rat)) : (positional cols).length = cols.length := by
  simp [positional]

theorem positional_snd (cols : List (List Rat)) : (positional cols).map (·.2) = cols := by
  unfold positional
  rw [List.map_snd_zip]
  simp

theorem positional_select (is : List Nat) (cols : List (List Rat)) :
    positional (cols.map (select is)) = selCols is (positional cols) := by
  unfold positional selCols
  simp only [List.length_map, List.zip_map_right]
  rfl

end FormulaicVerif.Proofs.C04
