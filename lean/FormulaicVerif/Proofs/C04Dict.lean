import FormulaicVerif.Proofs.C04Eval
namespace FormulaicVerif.Proofs.C04
open FormulaicVerif.Model FormulaicVerif.Model.Replay FormulaicVerif.Spec.Replay

section
variable {α σ ε κ : Type} [DecidableEq κ]

/-- **Nested state, fit then replay.**  From a dictionary of good per-key states (e.g. the empty
one) the decorator's loop over a dict only adds good states, every visible key ends up recorded,
and running the loop again under any extension of the resulting dictionary gives the same result
and leaves that dictionary unchanged. -/
theorem callDict_stable {t : T α α σ ε} {Good : σ → Prop} (L : Lawful t Good) (hidden : κ → Bool)
    (cs : List (κ × List α)) (m : List (κ × σ)) (hg : ∀ k s, getKey m k = some s → Good s)
    (res : List (κ × List α)) (m1 : List (κ × σ)) (h : t.callDict hidden m cs = .ok (res, m1)) :
    (∀ k s, getKey m1 k = some s → Good s) ∧ Extends m m1 ∧
    (∀ p ∈ cs, hidden p.1 = false → ∃ s, getKey m1 p.1 = some s) ∧
    ∀ mX, Extends m1 mX → t.callDict hidden mX cs = .ok (res, mX) := by
  induction cs generalizing m res m1 with
  | nil =>
    simp only [T.callDict, Except.ok.injEq, Prod.mk.injEq] at h
    obtain ⟨rfl, rfl⟩ := h
    exact ⟨hg, extends_refl _, fun _ hp => (by cases hp), fun _ _ => rfl⟩
  | cons p rest ih =>
    obtain ⟨k, datum⟩ := p
    simp only [T.callDict] at h
    by_cases hh : hidden k = true
    · simp only [hh, if_true] at h
      cases hr : t.callDict hidden m rest with
      | error e => simp [hr] at h
      | ok r =>
        obtain ⟨res', m'⟩ := r
        simp only [hr, Except.ok.injEq, Prod.mk.injEq] at h
        obtain ⟨rfl, rfl⟩ := h
        obtain ⟨i1, i2, i3, i4⟩ := ih m hg res' m' hr
        refine ⟨i1, i2, ?_, fun mX hx => ?_⟩
        · intro q hq hqh
          rcases List.mem_cons.1 hq with rfl | hq
          · simp [hh] at hqh
          · exact i3 q hq hqh
        · simp only [T.callDict, hh, if_true, i4 mX hx]
    · simp only [hh, Bool.false_eq_true, if_false] at h
      cases hc : t.call (getKey m k) datum with
      | error e => simp [hc] at h
      | ok r0 =>
        obtain ⟨out, s⟩ := r0
        simp only [hc] at h
        cases hr : t.callDict hidden (setKey m k s) rest with
        | error e => simp [hr] at h
        | ok r =>
          obtain ⟨res', m'⟩ := r
          simp only [hr, Except.ok.injEq, Prod.mk.injEq] at h
          obtain ⟨rfl, rfl⟩ := h
          -- the state under `k` after this call is good, and replaying it gives `out` again
          have key : Good s ∧ t.call (some s) datum = .ok (out, s) ∧ Extends m (setKey m k s) := by
            cases hget : getKey m k with
            | none =>
              rw [hget] at hc
              obtain ⟨g1, g2⟩ := call_none L datum out s hc
              exact ⟨g1, g2, extends_setKey m k s hget⟩
            | some s0 =>
              rw [hget] at hc
              obtain ⟨g1, _, _⟩ := call_some L s0 (hg k s0 hget) datum out s hc
              subst g1
              rw [setKey_of_getKey m k s hget]
              exact ⟨hg k s hget, hc, extends_refl _⟩
          obtain ⟨kg, kc, ke⟩ := key
          have hg' : ∀ k' s', getKey (setKey m k s) k' = some s' → Good s' := by
            intro k' s' hk'
            by_cases hkk : k' = k
            · subst hkk
              rw [getKey_setKey_same] at hk'
              cases hk'; exact kg
            · rw [getKey_setKey_ne m k k' s hkk] at hk'
              exact hg k' s' hk'
          obtain ⟨i1, i2, i3, i4⟩ := ih (setKey m k s) hg' res' m' hr
          refine ⟨i1, extends_trans ke i2, ?_, fun mX hx => ?_⟩
          · intro q hq hqh
            rcases List.mem_cons.1 hq with rfl | hq
            · exact ⟨s, i2 _ _ (getKey_setKey_same m k s)⟩
            · exact i3 q hq hqh
          · have hgx : getKey mX k = some s := hx _ _ (i2 _ _ (getKey_setKey_same m k s))
            simp only [T.callDict, hh, Bool.false_eq_true, if_false, hgx, kc, setKey_of_getKey mX k s hgx,
              i4 mX hx]

/-- **Nested state, replay.**  When every visible key of the dict has a good recorded state, the
loop leaves the state dictionary unchanged and commutes with row selection (applied to every
column of the dict). -/
theorem callDict_replay {t : T α α σ ε} {Good : σ → Prop} (L : Lawful t Good) (hidden : κ → Bool)
    (cs : List (κ × List α)) (m : List (κ × σ))
    (hp : ∀ p ∈ cs, hidden p.1 = false → ∃ s, getKey m p.1 = some s ∧ Good s)
    (res : List (κ × List α)) (m1 : List (κ × σ)) (h : t.callDict hidden m cs = .ok (res, m1)) :
    m1 = m ∧ ∀ is, t.callDict hidden m (cs.map (fun p => (p.1, select is p.2)))
      = .ok (res.map (fun p => (p.1, select is p.2)), m) := by
  induction cs generalizing res m1 with
  | nil =>
    simp only [T.callDict, Except.ok.injEq, Prod.mk.injEq] at h
    obtain ⟨rfl, rfl⟩ := h
    exact ⟨rfl, fun _ => rfl⟩
  | cons p rest ih =>
    obtain ⟨k, datum⟩ := p
    simp only [T.callDict] at h
    by_cases hh : hidden k = true
    · simp only [hh, if_true] at h
      cases hr : t.callDict hidden m rest with
      | error e => simp [hr] at h
      | ok r =>
        obtain ⟨res', m'⟩ := r
        simp only [hr, Except.ok.injEq, Prod.mk.injEq] at h
        obtain ⟨rfl, rfl⟩ := h
        obtain ⟨i1, i2⟩ := ih (fun q hq => hp q (by simp [hq])) res' m' hr
        subst i1
        exact ⟨rfl, fun is => by simp only [List.map_cons, T.callDict, hh, if_true, i2 is]⟩
    · simp only [hh, Bool.false_eq_true, if_false] at h
      obtain ⟨s, hget, hgood⟩ := hp (k, datum) (by simp) (by simpa using hh)
      rw [hget] at h
      cases hc : t.call (some s) datum with
      | error e => simp [hc] at h
      | ok r0 =>
        obtain ⟨out, s'⟩ := r0
        obtain ⟨g1, _, g3⟩ := call_some L s hgood datum out s' hc
        subst g1
        simp only [hc, setKey_of_getKey m k s' hget] at h
        cases hr : t.callDict hidden m rest with
        | error e => simp [hr] at h
        | ok r =>
          obtain ⟨res', m'⟩ := r
          simp only [hr, Except.ok.injEq, Prod.mk.injEq] at h
          obtain ⟨rfl, rfl⟩ := h
          obtain ⟨i1, i2⟩ := ih (fun q hq => hp q (by simp [hq])) res' m' hr
          subst i1
          refine ⟨rfl, fun is => ?_⟩
          have hget' : getKey m' k = some s' := hget
          simp only [List.map_cons, T.callDict, hh, Bool.false_eq_true, if_false, hget', g3 is,
            setKey_of_getKey m' k s' hget', i2 is]
end

end FormulaicVerif.Proofs.C04
