import FormulaicVerif.Spec.ContrastsCache
import FormulaicVerif.Proofs.C04Cat
import FormulaicVerif.Proofs.C11Ext
/-! # C11 helper lemmas, part 4: the materializer's encoded-factor cache is transparent -/
namespace FormulaicVerif.Proofs.C11
open FormulaicVerif.Model.Contrasts FormulaicVerif.Model.ContrastsExt FormulaicVerif.Model.ContrastsCache FormulaicVerif.Spec.ContrastsCache
open FormulaicVerif.Proofs.C04 (encode_some encode_none)

theorem apply_reduced_spans {c : Contrast} {d : List (List Rat)} {cs : List Label} {s : Bool} {e : Encoded}
    (ha : Model.Contrasts.apply c d cs true s = .ok e) : e.spansIntercept = false := by
  unfold Model.Contrasts.apply at ha
  split at ha
  · simp only [Except.ok.injEq] at ha; subst ha; rfl
  · simp only [bind, Except.bind, pure, Except.pure] at ha
    cases h1 : applyInner c d cs true s with
    | error x => simp [h1] at ha
    | ok v =>
      simp only [h1] at ha
      cases h2 : codingColumnNames c cs true with
      | error x => simp [h2] at ha
      | ok names =>
        simp only [h2] at ha
        cases h3 : dropField c cs true with
        | error x => simp [h3] at ha
        | ok df =>
          simp only [h3, Except.ok.injEq] at ha
          subst ha
          simp [spansIntercept]

theorem encode_some_spec {data : List (Option Label)} {c : Contrast} {ls : List Label} {r : Bool}
    {out : String} {e : Encoded} {cats : List Label}
    (h : encodeContrasts data c (some ls) r out = .ok (e, cats)) :
    cats = ls ∧ (r = true → e.spansIntercept = false) := by
  rw [encode_some] at h
  by_cases hd : hasDup ls = true
  · simp [hd] at h
  · simp only [hd, Bool.false_eq_true, if_false] at h
    by_cases ho : (!(["narwhals", "pandas", "numpy", "sparse"].contains out)) = true
    · simp only [ho, if_true] at h; cases h
    · simp only [ho, Bool.false_eq_true, if_false] at h
      cases ha : Model.Contrasts.apply c (indicator ls data) ls r (out == "sparse") with
      | error x => simp [ha, Except.map] at h
      | ok e' =>
        simp only [ha, Except.map, Except.ok.injEq, Prod.mk.injEq] at h
        obtain ⟨rfl, rfl⟩ := h
        refine ⟨rfl, ?_⟩
        intro hr; subst hr
        exact apply_reduced_spans ha

theorem liftB_ok {α : Type} {x : Except Err α} {a : α} (h : liftB x = .ok a) : x = .ok a := by
  cases x with
  | error e => simp [liftB] at h
  | ok v => simp only [liftB, Except.ok.injEq] at h; rw [h]

theorem xApply_custom_reduced_spans {k : Custom} {d : List (List Rat)} {cs : List Label} {r s : Bool} {e : Encoded}
    (ha : xApply (.custom k) d cs r s = .ok e) : e.spansIntercept = false := by
  unfold xApply at ha
  split_ifs at ha
  · simp only [Except.ok.injEq] at ha; subst ha; rfl
  · simp only [bind, Except.bind] at ha
    cases hv : customApplyInner k d cs s with
    | error x => simp [hv] at ha
    | ok v =>
      simp only [hv] at ha
      cases hn : customColumnNames k with
      | error x => simp [hn] at ha
      | ok names =>
        simp only [hn, pure, Except.pure, Except.ok.injEq] at ha
        subst ha; rfl

theorem xEncodeWith_some_spec {x : XContrast} {data : List (Option Label)} {ls : List Label} {r : Bool}
    {out : String} {e : Encoded} {cats : List Label}
    (h : xEncodeWith x data (some ls) r out = .ok (e, cats)) :
    cats = ls ∧ (r = true → e.spansIntercept = false) := by
  cases x with
  | builtin c => exact encode_some_spec (liftB_ok h)
  | custom k =>
    obtain ⟨ha, h2, _, _⟩ := xEncodeWith_custom h
    exact ⟨(h2 ls rfl).1, fun _ => xApply_custom_reduced_spans ha⟩

theorem xEncodeWith_none (x : XContrast) (data : List (Option Label)) (r : Bool) (out : String) :
    xEncodeWith x data none r out = xEncodeWith x data (some (inferLevels data)) r out := by
  cases x with
  | builtin c => simp only [xEncodeWith]; rw [encode_none]
  | custom k =>
    simp only [xEncodeWith, FormulaicVerif.Proofs.C04.hasDup_inferLevels, Bool.false_eq_true, if_false]

theorem xEncode_none (arg : ContrastArg) (data : List (Option Label)) (r : Bool) (out : String) :
    xEncodeContrasts data arg none r out = xEncodeContrasts data arg (some (inferLevels data)) r out := by
  unfold xEncodeContrasts
  cases resolveArg arg with
  | error e => rfl
  | ok x => exact xEncodeWith_none x data r out

theorem xEncode_some_spec {arg : ContrastArg} {data : List (Option Label)} {ls : List Label} {r : Bool}
    {out : String} {e : Encoded} {cats : List Label}
    (h : xEncodeContrasts data arg (some ls) r out = .ok (e, cats)) :
    cats = ls ∧ (r = true → e.spansIntercept = false) := by
  unfold xEncodeContrasts at h
  cases hx : resolveArg arg with
  | error e => simp [hx] at h
  | ok x => simp only [hx] at h; exact xEncodeWith_some_spec h

/-- what a successful encode returns: the categories are the explicit levels or the inferred ones,
and a reduced-rank encoding never claims to span the intercept -/
theorem encode_spec {f : Factor} {r : Bool} {e : Encoded} {cats : List Label}
    (h : xEncodeContrasts f.data f.contrast f.levels r f.output = .ok (e, cats)) :
    cats = categories f ∧ (r = true → e.spansIntercept = false) := by
  unfold categories
  cases hl : f.levels with
  | some ls => rw [hl] at h; exact xEncode_some_spec h
  | none => rw [hl, xEncode_none] at h; exact xEncode_some_spec h

/-- the recorded state does not change what the encoder does -/
theorem encode_with_state (f : Factor) (spec : Option (List Label)) (hs : ∀ cs, spec = some cs → cs = categories f)
    (r : Bool) :
    xEncodeContrasts f.data f.contrast (levelsOrState f.levels spec) r f.output
      = xEncodeContrasts f.data f.contrast f.levels r f.output := by
  unfold levelsOrState
  cases hl : f.levels with
  | some ls => rfl
  | none =>
    cases spec with
    | none => rfl
    | some cs =>
      have := hs cs rfl
      simp only [categories, hl] at this
      subst this
      simp only []
      rw [← xEncode_none]

theorem finish_noop {f : Factor} {r : Bool} {e : Encoded} {cats : List Label}
    (h : xEncodeContrasts f.data f.contrast f.levels r f.output = .ok (e, cats)) : finish e r = .ok e := by
  unfold finish
  cases r with
  | false => simp
  | true => simp [(encode_spec h).2 rfl]

/-- invariant of the materializer state: nothing is stored under the bare expression, every rank
entry is what a stand-alone encode returns, and the spec's recorded categories are the factor's -/
structure Inv (f : Factor) (s : State) : Prop where
  byExpr : s.cache.byExpr = none
  rank : ∀ r e cats, s.cache.rank r = some (e, cats) →
    xEncodeContrasts f.data f.contrast f.levels r f.output = .ok (e, cats)
  spec : ∀ cs, s.spec = some cs → cs = categories f

theorem inv_init (f : Factor) : Inv f State.init :=
  ⟨rfl, by intro r e cats h; cases r <;> simp [State.init, Cache.empty, Cache.rank] at h,
   by intro cs h; simp [State.init] at h⟩

theorem step_spec (f : Factor) (hd : f.evalDrop = none) (s : State) (hs : Inv f s) (q : Request) :
    (∀ err, direct f q = .error err → step f s q = .error err) ∧
    (∀ out, direct f q = .ok out → ∃ s', step f s q = .ok (out, s') ∧ Inv f s') := by
  have hspec : ∀ cs, (if q.newSpec then none else s.spec) = some cs → cs = categories f := by
    intro cs h
    split at h
    · cases h
    · exact hs.spec cs h
  unfold step direct
  rw [hs.byExpr]
  simp only []
  cases hc : s.cache.rank q.reduced with
  | some entry =>
    obtain ⟨enc, recorded⟩ := entry
    have henc := hs.rank _ _ _ hc
    simp only [henc, finish_noop henc]
    refine ⟨(by intro err h; cases h), ?_⟩
    intro out h
    simp only [Except.ok.injEq] at h
    subst h
    refine ⟨_, rfl, ⟨hs.byExpr, hs.rank, ?_⟩⟩
    intro cs h
    simp only [Option.some.injEq] at h
    subst h
    cases hsp : (if q.newSpec then none else s.spec) with
    | none => simpa using (encode_spec henc).1
    | some c' => simpa using hspec c' hsp
  | none =>
    simp only [encode_with_state f _ hspec]
    cases henc : xEncodeContrasts f.data f.contrast f.levels q.reduced f.output with
    | error x =>
      refine ⟨(by intro err h; simp only [Except.error.injEq] at h; subst h; rfl), (by intro out h; cases h)⟩
    | ok p =>
      obtain ⟨enc, cats⟩ := p
      simp only [finish_noop henc, hd, truthy]
      refine ⟨(by intro err h; cases h), ?_⟩
      intro out h
      simp only [Except.ok.injEq] at h
      subst h
      refine ⟨_, rfl, ⟨?_, ?_, ?_⟩⟩
      · simp only [Bool.false_eq_true, if_false]
        unfold Cache.setRank
        split <;> exact hs.byExpr
      · intro r e cs h
        simp only [Bool.false_eq_true, if_false] at h
        by_cases hr : r = q.reduced
        · subst hr
          have : (s.cache.setRank q.reduced (enc, cats)).rank q.reduced = some (enc, cats) := by
            cases q.reduced <;> simp [Cache.setRank, Cache.rank]
          rw [this] at h
          cases h
          exact henc
        · have : (s.cache.setRank q.reduced (enc, cats)).rank r = s.cache.rank r := by
            cases r <;> cases hq : q.reduced <;> simp_all [Cache.setRank, Cache.rank]
          rw [this] at h
          exact hs.rank r e cs h
      · intro cs h
        simp only [Option.some.injEq] at h
        subst h
        exact (encode_spec henc).1

theorem run_eq_each (f : Factor) (hd : f.evalDrop = none) (qs : List Request) :
    ∀ s, Inv f s → run f s qs = each f qs := by
  induction qs with
  | nil => intro s _; rfl
  | cons q qs ih =>
    intro s hs
    obtain ⟨herr, hok⟩ := step_spec f hd s hs q
    unfold run each
    cases hdq : direct f q with
    | error e => simp only [herr e hdq]
    | ok out =>
      obtain ⟨s', hstep, hinv⟩ := hok out hdq
      simp only [hstep, ih s' hinv]
      cases each f qs <;> rfl

theorem each_ok (f : Factor) : ∀ (qs : List Request) (outs : List Encoded), each f qs = .ok outs →
    outs.length = qs.length ∧
      ∀ k (hk : k < qs.length) (ho : k < outs.length), direct f qs[k] = .ok outs[k] := by
  intro qs
  induction qs with
  | nil =>
    intro outs h
    simp only [each, Except.ok.injEq] at h
    subst h
    exact ⟨rfl, by intro k hk; cases hk⟩
  | cons q qs ih =>
    intro outs h
    unfold each at h
    cases hq : direct f q with
    | error e => simp [hq] at h
    | ok out =>
      simp only [hq] at h
      cases hr : each f qs with
      | error e => simp [hr] at h
      | ok rest =>
        simp only [hr, Except.ok.injEq] at h
        subst h
        obtain ⟨hl, hk⟩ := ih rest hr
        refine ⟨by simp [hl], ?_⟩
        intro k hk1 hk2
        cases k with
        | zero => simpa using hq
        | succ k => simpa using hk k (by simpa using hk1) (by simpa using hk2)

theorem direct_ok {f : Factor} {q : Request} {e : Encoded} (h : direct f q = .ok e) :
    xEncodeContrasts f.data f.contrast f.levels q.reduced f.output = .ok (e, categories f) := by
  unfold direct at h
  cases henc : xEncodeContrasts f.data f.contrast f.levels q.reduced f.output with
  | error x => simp [henc] at h
  | ok p =>
    obtain ⟨e', cats⟩ := p
    simp only [henc, Except.ok.injEq] at h
    subst h
    rw [(encode_spec henc).1]

end FormulaicVerif.Proofs.C11
