import FormulaicVerif.Proofs.C01Algebra
import FormulaicVerif.Proofs.C14
/-! # C14 — the power `S ** n` is the same ORDERED term set for every `n ≥ max |S| 1`

Helper lemmas for `Props/C14.lean` (`power_stable`, `power_capped`); not obligations.

`powTermsRaw arg (k+1)` lists the products `x₀ * x₁ * … * x_k` of all `(k+1)`-tuples over `arg` in
`itertools.product` order (first coordinate slowest). It is re-bracketed as `arg.flatMap (Blk arg k)`
where `Blk arg k p` lists `p * y₁ * … * y_k` (`raw_eq`), so that the block of tuples that start with
`t` splits by the second coordinate: for `arg = pre ++ t :: post`

  `Blk (k+1) t = [second coordinate in pre] ++ Blk k (t * t) ++ [second coordinate in post]`.

With `t * t = t` (terms have distinct factors) the middle part is the block of the `k`-tuples that
start with `t`. When `|arg| ≤ k + 1` the two outer parts contribute nothing to the de-duplicated
list: a product `t * u * …` with `u` in `pre` has the identity of a product `u * t * …` of the EARLIER
block of `u` (already seen), one with `u` in `post` is a member of `Blk (k+1) t`, and both blocks
satisfy `Blk (k+1) p ⊆ Blk k p` (`blk_succ_subset`: by induction on `k`, the measure being the number of
terms of `arg` whose factors are not all in `p` — multiplying by such a term lowers it, multiplying by
any other term returns `p` itself). -/
namespace FormulaicVerif.Proofs.C14Power
open FormulaicVerif FormulaicVerif.Model FormulaicVerif.Proofs.C01Algebra
open FormulaicVerif.Proofs.Sort (sortStrings_eq_iff_perm)

section Generic
variable {α κ : Type} [BEq κ] [LawfulBEq κ]

theorem dedupAux_of_nodup (k : α → κ) : ∀ (xs : List α) (s : List κ),
    (xs.map k).Nodup → (∀ x ∈ xs, k x ∉ s) → dedupAux k s xs = xs
  | [], _, _, _ => rfl
  | x :: xs, s, hn, hs => by
    rw [List.map_cons, List.nodup_cons] at hn
    rw [dedupAux_cons_new k x xs s (hs x (by simp))]
    congr 1
    apply dedupAux_of_nodup k xs _ hn.2
    intro y hy hmem
    rcases List.mem_cons.1 hmem with h | h
    · exact hn.1 (h ▸ List.mem_map_of_mem hy)
    · exact hs y (by simp [hy]) h

/-- a prefix whose keys are all seen contributes nothing -/
theorem dedupAux_skip_left (k : α → κ) (A B : List α) (s : List κ) (h : ∀ x ∈ A, k x ∈ s) :
    dedupAux k s (A ++ B) = dedupAux k s B := by
  rw [dedupAux_append, dedupAux_nil_of_seen k A s h, List.nil_append]
  apply dedupAux_congr
  intro y
  simp only [List.mem_append, List.mem_map]
  constructor
  · rintro (⟨x, hx, rfl⟩ | h')
    · exact h x hx
    · exact h'
  · intro h'; exact Or.inr h'

/-- a suffix whose keys are all seen or keys of the part before it contributes nothing -/
theorem dedupAux_skip_right (k : α → κ) (B C : List α) (s : List κ) (h : ∀ x ∈ C, k x ∈ B.map k ++ s) :
    dedupAux k s (B ++ C) = dedupAux k s B := by
  rw [dedupAux_append, dedupAux_nil_of_seen k C _ h, List.append_nil]

/-- de-duplicating the left part of a concatenation first changes nothing -/
theorem dedup_dedup_append (k : α → κ) (X Y : List α) :
    dedupAux k [] (dedupAux k [] X ++ Y) = dedupAux k [] (X ++ Y) := by
  rw [dedupAux_append, dedupAux_dedupAux, dedupAux_append]
  congr 1
  apply dedupAux_congr
  exact keys_dedupAux k X []

/-- de-duplicating the right part of a concatenation first changes nothing -/
theorem dedup_append_dedup (k : α → κ) (X Y : List α) :
    dedupAux k [] (X ++ dedupAux k [] Y) = dedupAux k [] (X ++ Y) := by
  rw [dedupAux_append, dedupAux_dedupAux, dedupAux_append]
  simp

omit [BEq κ] [LawfulBEq κ] in
theorem countP_lt (P Q : α → Bool) : ∀ (l : List α), (∀ x ∈ l, P x = true → Q x = true) →
    ∀ a ∈ l, P a = false → Q a = true → l.countP P < l.countP Q
  | [], _, a, ha, _, _ => by cases ha
  | x :: xs, hPQ, a, ha, hP, hQ => by
    have mono : xs.countP P ≤ xs.countP Q :=
      List.countP_mono_left (fun y hy => hPQ y (List.mem_cons_of_mem _ hy))
    rw [List.countP_cons, List.countP_cons]
    rcases List.mem_cons.1 ha with rfl | ha'
    · simp only [hP, hQ, if_true, Bool.false_eq_true, if_false]
      omega
    · have ih := countP_lt P Q xs (fun y hy => hPQ y (List.mem_cons_of_mem _ hy)) a ha' hP hQ
      have hx := hPQ x (by simp)
      cases hpx : P x
      · cases hqx : Q x <;> simp <;> omega
      · simp only [hx hpx, if_true]
        omega

end Generic

/-! ### products of terms -/

/-- the factor expressions of a term -/
def ex (t : Term) : List String := t.map (·.expr)

theorem ex_mul (a b : Term) : ex (Term.mul a b) = dedupAux id [] (ex a ++ ex b) := by
  unfold ex Term.mul Term.ofFactors dedupBy
  rw [map_dedupAux, List.map_append]

theorem mem_ex_mul (a b : Term) (e : String) : e ∈ ex (Term.mul a b) ↔ e ∈ ex a ∨ e ∈ ex b := by
  rw [ex_mul, mem_dedupAux_id]
  simp

theorem wf_mul (a b : Term) : Term.WF (Term.mul a b) := by
  have := ex_mul a b
  unfold ex at this
  unfold Term.WF
  rw [this]
  exact nodup_dedupAux_id _ _

theorem wf_ofFactors (a : Term) : Term.WF (Term.ofFactors a) := by
  unfold Term.WF Term.ofFactors dedupBy
  rw [map_dedupAux]
  exact nodup_dedupAux_id _ _

/-- every factor of `a` is a factor of `p`: multiplying `p` by `a` changes nothing -/
def Abs (a p : Term) : Prop := ∀ e ∈ ex a, e ∈ ex p

instance (a p : Term) : Decidable (Abs a p) := by unfold Abs; infer_instance

theorem abs_refl (a : Term) : Abs a a := fun _ h => h

theorem abs_mul_right (p a : Term) : Abs a (Term.mul p a) := fun e h => (mem_ex_mul p a e).2 (Or.inr h)

theorem abs_mul_mono (a p u : Term) (h : Abs a p) : Abs a (Term.mul p u) :=
  fun e he => (mem_ex_mul p u e).2 (Or.inl (h e he))

theorem mul_of_abs (p a : Term) (hp : Term.WF p) (h : Abs a p) : Term.mul p a = p := by
  unfold Term.mul Term.ofFactors dedupBy
  rw [dedupAux_append, dedupAux_of_nodup _ p [] hp (by simp), dedupAux_nil_of_seen, List.append_nil]
  intro x hx
  rw [List.append_nil]
  exact h _ (List.mem_map_of_mem hx)

theorem mul_self (p : Term) (hp : Term.WF p) : Term.mul p p = p := mul_of_abs p p hp (abs_refl p)

theorem key_mul_comm (a b : Term) : Term.key (Term.mul a b) = Term.key (Term.mul b a) := by
  unfold Term.key
  rw [sortStrings_eq_iff_perm]
  have h1 := ex_mul a b
  have h2 := ex_mul b a
  unfold ex at h1 h2
  rw [h1, h2]
  apply dedup_perm_of_sameMem
  intro e
  simp only [List.mem_append]
  exact Or.comm

theorem mul_ofFactors_left (p u : Term) : Term.mul (Term.ofFactors p) u = Term.mul p u := by
  unfold Term.mul Term.ofFactors dedupBy
  exact dedup_dedup_append _ p u

theorem mul_ofFactors_right (p u : Term) : Term.mul p (Term.ofFactors u) = Term.mul p u := by
  unfold Term.mul Term.ofFactors dedupBy
  exact dedup_append_dedup _ p u

/-! ### the enumeration, re-bracketed -/

/-- one more coordinate: `itertools.product(L, arg)` reduced by `*` -/
def ext (arg L : List Term) : List Term := L.flatMap (fun x => arg.map (fun y => Term.mul x y))

/-- the products `p * y₁ * … * y_k` over all `k`-tuples of `arg`, first coordinate slowest -/
def Blk (arg : List Term) : Nat → Term → List Term
  | 0, p => [p]
  | k + 1, p => arg.flatMap (fun u => Blk arg k (Term.mul p u))

theorem raw_succ (arg : List Term) (n : Nat) :
    powTerms.powTermsRaw arg (n + 2) = ext arg (powTerms.powTermsRaw arg (n + 1)) := rfl

theorem ext_blk (arg : List Term) : ∀ (k : Nat) (p : Term), ext arg (Blk arg k p) = Blk arg (k + 1) p
  | 0, p => by
    simp only [ext, Blk, List.flatMap_cons, List.flatMap_nil, List.append_nil]
    induction arg with
    | nil => rfl
    | cons a r ih => simp only [List.map_cons, List.flatMap_cons, List.singleton_append, ih]
  | k + 1, p => by
    have : Blk arg (k + 1) p = arg.flatMap (fun u => Blk arg k (Term.mul p u)) := rfl
    rw [this]
    unfold ext
    rw [List.flatMap_assoc]
    have h2 : Blk arg (k + 2) p = arg.flatMap (fun u => Blk arg (k + 1) (Term.mul p u)) := rfl
    rw [h2]
    congr 1
    funext u
    exact ext_blk arg k (Term.mul p u)

theorem raw_eq (arg : List Term) : ∀ k, powTerms.powTermsRaw arg (k + 1) = arg.flatMap (Blk arg k)
  | 0 => by
    show arg = arg.flatMap (fun p => [p])
    induction arg with
    | nil => rfl
    | cons a r ih => simp
  | k + 1 => by
    rw [raw_succ, raw_eq arg k]
    unfold ext
    rw [List.flatMap_assoc]
    congr 1
    funext u
    exact ext_blk arg k u

theorem mem_blk_succ {arg : List Term} {k : Nat} {p x : Term} :
    x ∈ Blk arg (k + 1) p ↔ ∃ u ∈ arg, x ∈ Blk arg k (Term.mul p u) := by
  show x ∈ arg.flatMap (fun u => Blk arg k (Term.mul p u)) ↔ _
  exact List.mem_flatMap

/-- identities of the block depend on the identity of the prefix only -/
theorem blk_key_congr (arg : List Term) : ∀ (k : Nat) (p q : Term), Term.key p = Term.key q →
    (Blk arg k p).map Term.key = (Blk arg k q).map Term.key
  | 0, p, q, h => by simp [Blk, h]
  | k + 1, p, q, h => by
    show (arg.flatMap (fun u => Blk arg k (Term.mul p u))).map Term.key
      = (arg.flatMap (fun u => Blk arg k (Term.mul q u))).map Term.key
    rw [List.map_flatMap, List.map_flatMap]
    congr 1
    funext u
    exact blk_key_congr arg k _ _ (key_mul_congr p q u h)

/-- how many terms of `arg` still add a factor to `p` -/
def dd (arg : List Term) (p : Term) : Nat := arg.countP (fun a => decide (¬ Abs a p))

theorem dd_lt_length (arg : List Term) (u : Term) (hu : u ∈ arg) : dd arg u < arg.length := by
  have := countP_lt (fun a => decide (¬ Abs a u)) (fun _ => true) arg (fun _ _ _ => rfl) u hu
    (by simp [abs_refl]) rfl
  simpa [dd] using this

theorem dd_mul_lt (arg : List Term) (p u : Term) (hu : u ∈ arg) (h : ¬ Abs u p) :
    dd arg (Term.mul p u) < dd arg p := by
  unfold dd
  apply countP_lt _ _ arg _ u hu
  · simp [abs_mul_right]
  · simp [h]
  · intro a _ ha
    simp only [decide_eq_true_eq] at ha ⊢
    exact fun h' => ha (abs_mul_mono a p u h')

/-- **one more coordinate adds no new product** once the number of coordinates reaches the number of
terms that can still add a factor -/
theorem blk_succ_subset (arg : List Term) : ∀ (k : Nat) (p : Term), Term.WF p → dd arg p ≤ k →
    ∀ x ∈ Blk arg (k + 1) p, x ∈ Blk arg k p
  | 0, p, hp, hd, x, hx => by
    obtain ⟨u, hu, hx⟩ := mem_blk_succ.1 hx
    have h0 : dd arg p = 0 := by omega
    have habs : Abs u p := by
      have := List.countP_eq_zero.1 h0 u hu
      simpa using this
    rw [mul_of_abs p u hp habs] at hx
    exact hx
  | k + 1, p, hp, hd, x, hx => by
    obtain ⟨u, hu, hx⟩ := mem_blk_succ.1 hx
    by_cases habs : Abs u p
    · rw [mul_of_abs p u hp habs] at hx
      exact hx
    · have hlt := dd_mul_lt arg p u hu habs
      have := blk_succ_subset arg k (Term.mul p u) (wf_mul p u) (by omega) x hx
      exact mem_blk_succ.2 ⟨u, hu, this⟩

theorem blk_subset_succ (arg : List Term) (k : Nat) (p a : Term) (hp : Term.WF p) (ha : a ∈ arg) (habs : Abs a p) :
    ∀ x ∈ Blk arg k p, x ∈ Blk arg (k + 1) p := by
  intro x hx
  refine mem_blk_succ.2 ⟨a, ha, ?_⟩
  rw [mul_of_abs p a hp habs]
  exact hx

/-! ### the block of the tuples that start with `t` -/

theorem block_stable (pre post : List Term) (t : Term) (k : Nat)
    (hwf : ∀ u ∈ pre ++ t :: post, Term.WF u) (hk : (pre ++ t :: post).length ≤ k + 1)
    (seen : List (List String))
    (hseen : ∀ u ∈ pre, ∀ x ∈ Blk (pre ++ t :: post) k u, Term.key x ∈ seen) :
    dedupAux Term.key seen (Blk (pre ++ t :: post) (k + 1) t) = dedupAux Term.key seen (Blk (pre ++ t :: post) k t) := by
  generalize harg : pre ++ t :: post = arg at *
  have ht : t ∈ arg := by rw [← harg]; simp
  have hdd : ∀ u ∈ arg, dd arg u ≤ k := fun u hu => by
    have := dd_lt_length arg u hu
    omega
  have hsplit : Blk arg (k + 1) t = pre.flatMap (fun u => Blk arg k (Term.mul t u)) ++
      (Blk arg k t ++ post.flatMap (fun u => Blk arg k (Term.mul t u))) := by
    show arg.flatMap (fun u => Blk arg k (Term.mul t u)) = _
    rw [← harg, List.flatMap_append, List.flatMap_cons, mul_self t (hwf t ht)]
  rw [hsplit, dedupAux_skip_left, dedupAux_skip_right]
  · -- second coordinate after `t`: a member of this block, which has stabilised
    intro x hx
    obtain ⟨u, hu, hx⟩ := List.mem_flatMap.1 hx
    have hua : u ∈ arg := by rw [← harg]; simp [hu]
    have h1 : x ∈ Blk arg (k + 1) t := mem_blk_succ.2 ⟨u, hua, hx⟩
    have h2 := blk_succ_subset arg k t (hwf t ht) (hdd t ht) x h1
    exact List.mem_append_left _ (List.mem_map_of_mem h2)
  · -- second coordinate before `t`: the identity of a member of the earlier block of `u`
    intro x hx
    obtain ⟨u, hu, hx⟩ := List.mem_flatMap.1 hx
    have hua : u ∈ arg := by rw [← harg]; simp [hu]
    have hk1 : Term.key x ∈ (Blk arg k (Term.mul t u)).map Term.key := List.mem_map_of_mem hx
    rw [blk_key_congr arg k _ _ (key_mul_comm t u)] at hk1
    obtain ⟨y, hy, hyx⟩ := List.mem_map.1 hk1
    have h1 : y ∈ Blk arg (k + 1) u := mem_blk_succ.2 ⟨t, ht, hy⟩
    have h2 := blk_succ_subset arg k u (hwf u hua) (hdd u hua) y h1
    rw [← hyx]
    exact hseen u hu y h2

theorem blocks_stable (arg : List Term) (k : Nat) (hwf : ∀ u ∈ arg, Term.WF u) (hk : arg.length ≤ k + 1) :
    ∀ (suf pre : List Term) (seen : List (List String)), arg = pre ++ suf →
      (∀ u ∈ pre, ∀ x ∈ Blk arg k u, Term.key x ∈ seen) →
      dedupAux Term.key seen (suf.flatMap (Blk arg (k + 1))) = dedupAux Term.key seen (suf.flatMap (Blk arg k))
  | [], _, _, _, _ => rfl
  | t :: suf, pre, seen, harg, hseen => by
    have ht : t ∈ arg := by rw [harg]; simp
    have hdd : dd arg t ≤ k := by
      have := dd_lt_length arg t ht
      omega
    rw [List.flatMap_cons, List.flatMap_cons, dedupAux_append, dedupAux_append]
    have hb : dedupAux Term.key seen (Blk arg (k + 1) t) = dedupAux Term.key seen (Blk arg k t) := by
      subst harg
      exact block_stable pre suf t k hwf hk seen hseen
    rw [hb]
    congr 1
    have hsame : SameMem ((Blk arg (k + 1) t).map Term.key ++ seen) ((Blk arg k t).map Term.key ++ seen) := by
      intro y
      simp only [List.mem_append, List.mem_map]
      constructor
      · rintro (⟨x, hx, rfl⟩ | h)
        · exact Or.inl ⟨x, blk_succ_subset arg k t (hwf t ht) hdd x hx, rfl⟩
        · exact Or.inr h
      · rintro (⟨x, hx, rfl⟩ | h)
        · exact Or.inl ⟨x, blk_subset_succ arg k t t (hwf t ht) ht (abs_refl t) x hx, rfl⟩
        · exact Or.inr h
    rw [dedupAux_congr Term.key _ _ _ hsame]
    apply blocks_stable arg k hwf hk suf (pre ++ [t])
    · rw [harg]; simp
    · intro u hu x hx
      rcases List.mem_append.1 hu with hu | hu
      · exact List.mem_append_right _ (hseen u hu x hx)
      · rw [List.mem_singleton.1 hu] at hx
        exact List.mem_append_left _ (List.mem_map_of_mem hx)

/-- **the ordered term set `S ** n` no longer changes once `n ≥ max |S| 1`** (terms with distinct factors) -/
theorem power_stable (arg : List Term) (hwf : ∀ t ∈ arg, Term.WF t) (n : Nat) (h : max arg.length 1 ≤ n) :
    powTerms arg (n + 1) = powTerms arg n := by
  obtain ⟨k, rfl⟩ : ∃ k, n = k + 1 := ⟨n - 1, by omega⟩
  rw [powTerms_eq_raw, powTerms_eq_raw, raw_eq, raw_eq, oset_eq, oset_eq]
  exact blocks_stable arg k hwf (by omega) arg [] [] rfl (fun _ h => by cases h)

/-! ### terms with repeated factors: from the second power on, only the normal forms matter -/

theorem ext_map_ofFactors (arg L : List Term) : ext (arg.map Term.ofFactors) L = ext arg L := by
  unfold ext
  congr 1
  funext x
  rw [List.map_map]
  apply List.map_congr_left
  intro y _
  exact mul_ofFactors_right x y

theorem raw_map_ofFactors (arg : List Term) : ∀ n,
    powTerms.powTermsRaw (arg.map Term.ofFactors) (n + 2) = powTerms.powTermsRaw arg (n + 2)
  | 0 => by
    show ext (arg.map Term.ofFactors) (arg.map Term.ofFactors) = ext arg arg
    rw [ext_map_ofFactors]
    unfold ext
    rw [List.flatMap_map]
    congr 1
    funext x
    apply List.map_congr_left
    intro y _
    exact mul_ofFactors_left x y
  | n + 1 => by
    rw [raw_succ, raw_succ arg, raw_map_ofFactors arg n, ext_map_ofFactors]

theorem pow_map_ofFactors (arg : List Term) (n : Nat) :
    powTerms (arg.map Term.ofFactors) (n + 2) = powTerms arg (n + 2) := by
  rw [powTerms_eq_raw, powTerms_eq_raw, raw_map_ofFactors]

/-- without the assumption on the terms, from the second power on -/
theorem power_stable_any (arg : List Term) (n : Nat) (h : max arg.length 2 ≤ n) :
    powTerms arg (n + 1) = powTerms arg n := by
  obtain ⟨k, rfl⟩ : ∃ k, n = k + 2 := ⟨n - 2, by omega⟩
  rw [← pow_map_ofFactors arg (k + 1), ← pow_map_ofFactors arg k]
  apply power_stable
  · intro t ht
    obtain ⟨u, _, rfl⟩ := List.mem_map.1 ht
    exact wf_ofFactors u
  · rw [List.length_map]; omega

/-- what the code computes: `min n (max |S| 1)` copies give the `n`-th power -/
theorem power_capped (arg : List Term) (hwf : ∀ t ∈ arg, Term.WF t) (n : Nat) :
    powTerms arg n = powTerms arg (min n (max arg.length 1)) := by
  by_cases hn : n ≤ max arg.length 1
  · rw [Nat.min_eq_left hn]
  · rw [Nat.min_eq_right (by omega)]
    obtain ⟨j, rfl⟩ : ∃ j, n = max arg.length 1 + j := ⟨n - max arg.length 1, by omega⟩
    clear hn
    induction j with
    | zero => rfl
    | succ j ih =>
      rw [← Nat.add_assoc, power_stable arg hwf _ (by omega), ih]

/-! ### the assumption "terms have distinct factors" is an invariant of the operators -/

theorem mem_of_mem_dedupAux {α κ : Type} [BEq κ] [LawfulBEq κ] (k : α → κ) :
    ∀ (xs : List α) (s : List κ) (x : α), x ∈ dedupAux k s xs → x ∈ xs
  | [], _, _, h => by cases h
  | y :: ys, s, x, h => by
    by_cases hy : k y ∈ s
    · rw [dedupAux_cons_seen k y ys s hy] at h
      exact List.mem_cons_of_mem _ (mem_of_mem_dedupAux k ys s x h)
    · rw [dedupAux_cons_new k y ys s hy] at h
      rcases List.mem_cons.1 h with rfl | h
      · exact List.mem_cons_self
      · exact List.mem_cons_of_mem _ (mem_of_mem_dedupAux k ys _ x h)

/-- all terms of the set have distinct factors -/
def AllWF (ts : List Term) : Prop := ∀ t ∈ ts, Term.WF t

theorem allWF_oset {ts : List Term} (h : AllWF ts) : AllWF (oset ts) :=
  fun t ht => h t (mem_of_mem_dedupAux Term.key ts [] t ht)

theorem allWF_append {a b : List Term} (ha : AllWF a) (hb : AllWF b) : AllWF (a ++ b) := by
  intro t ht
  rcases List.mem_append.1 ht with h | h
  · exact ha t h
  · exact hb t h

theorem allWF_union {a b : List Term} (ha : AllWF a) (hb : AllWF b) : AllWF (osetUnion a b) :=
  allWF_oset (allWF_append ha hb)

theorem allWF_products (a b : List Term) : AllWF (a.flatMap (fun x => b.map (fun y => Term.mul x y))) := by
  intro t ht
  obtain ⟨x, _, ht⟩ := List.mem_flatMap.1 ht
  obtain ⟨y, _, rfl⟩ := List.mem_map.1 ht
  exact wf_mul x y

theorem allWF_prod (a b : List Term) : AllWF (osetProd a b) := allWF_oset (allWF_products a b)

theorem allWF_pow {arg : List Term} (h : AllWF arg) : ∀ n, AllWF (powTerms arg n)
  | 0 => fun _ ht => by cases ht
  | 1 => allWF_oset h
  | n + 2 => by
    rw [powTerms_eq_raw, raw_succ]
    exact allWF_oset (allWF_products _ _)

theorem allWF_nested {a b r : List Term} (ha : AllWF a) (hr : nestedProduct a b = .ok r) : AllWF r := by
  unfold nestedProduct at hr
  split at hr
  · cases hr
  · split at hr
    · cases hr
    · injection hr with hr
      subst hr
      refine allWF_union ha (allWF_oset ?_)
      intro t ht
      obtain ⟨y, _, rfl⟩ := List.mem_map.1 ht
      exact wf_mul _ y

theorem allWF_power {a b r : List Term} (ha : AllWF a) (hr : power a b = .ok r) : AllWF r := by
  unfold power at hr
  split at hr
  · split at hr
    · split at hr
      · injection hr with hr
        subst hr
        exact allWF_pow ha _
      · cases hr
    · cases hr
  · cases hr

theorem applyPlain_wf (o : OpSpec) (dot : DotCtx) (args : List (List Term)) (r : List Term)
    (h : ∀ a ∈ args, AllWF a) (hr : applyPlain o dot args = .ok r) : AllWF r := by
  unfold applyPlain at hr
  split at hr
  all_goals try (injection hr with hr; subst hr)
  all_goals try simp only [List.mem_cons, List.mem_nil_iff, or_false, forall_eq_or_imp, forall_eq] at h
  · exact allWF_union h.1 h.2
  · exact fun t ht => h.1 t (List.mem_filter.1 ht).1
  · exact h
  · exact fun _ ht => by cases ht
  · exact allWF_union (allWF_oset (allWF_append h.1 h.2)) (allWF_prod _ _)
  · exact allWF_nested h.1 hr
  · exact allWF_nested h.2 hr
  · exact allWF_prod _ _
  · exact allWF_power h.1 hr
  · exact allWF_power h.1 hr
  · split at hr
    · cases hr
    · injection hr with hr
      subst hr
      apply allWF_oset
      intro t ht
      obtain ⟨v, _, rfl⟩ := List.mem_map.1 ht
      simp [Term.WF]
  · cases hr

open FormulaicVerif.Proofs.C14 FormulaicVerif.Proofs.ShuntC in
/-- every term set the arithmetic fragment evaluates to consists of terms with distinct factors -/
theorem eval_plain_wf (dot : DotCtx) (e : E) (h : PlainE e) :
    ∀ ts, evalAst dot (strip e) = .ok (.set ts) → AllWF ts := by
  induction e with
  | atom t =>
    intro ts hts
    simp only [strip, evalAst] at hts
    injection hts with hts
    injection hts with hts
    subst hts
    intro u hu
    rw [List.mem_singleton.1 hu]
    simp [termOfTok, Term.WF]
  | paren e ih => exact ih h
  | bin o sym cs l r ihl ihr =>
    obtain ⟨hk, hl, hr⟩ := h
    intro ts hts
    simp only [strip, evalAst_node, evalArgs_cons] at hts
    rcases eval_plain_good dot l hl with ⟨x, hx⟩ | ⟨w, hw⟩
    · rcases eval_plain_good dot r hr with ⟨y, hy⟩ | ⟨w, hw⟩
      · rw [hx, hy] at hts
        have : evalAst.evalArgs dot [] = .ok [] := by rw [evalAst.evalArgs]
        simp only [this, hk.1, Bool.false_eq_true, if_false, List.isEmpty_cons, List.length_cons,
          List.length_nil] at hts
        rw [merge_sets2] at hts
        cases hap : applyPlain o dot [x, y] with
        | error e => rw [hap] at hts; cases hts
        | ok v =>
          rw [hap] at hts
          have hv : v = ts := by
            injection hts with hts
            injection hts
          subst hv
          refine applyPlain_wf o dot [x, y] v ?_ hap
          intro a ha
          simp only [List.mem_cons, List.mem_nil_iff, or_false] at ha
          rcases ha with rfl | rfl
          · exact ihl hl _ hx
          · exact ihr hr _ hy
      · rw [hx, hw] at hts; cases hts
    · rw [hw] at hts; cases hts
  | pre o sym cs x ihx =>
    obtain ⟨hk, hx⟩ := h
    intro ts hts
    simp only [strip, evalAst_node, evalArgs_cons] at hts
    rcases eval_plain_good dot x hx with ⟨v, hv⟩ | ⟨w, hw⟩
    · rw [hv] at hts
      have : evalAst.evalArgs dot [] = .ok [] := by rw [evalAst.evalArgs]
      simp only [this, hk.1, Bool.false_eq_true, if_false, List.isEmpty_cons, List.length_cons,
        List.length_nil] at hts
      rw [merge_sets1] at hts
      cases hap : applyPlain o dot [v] with
      | error e => rw [hap] at hts; cases hts
      | ok u =>
        rw [hap] at hts
        have hu : u = ts := by
          injection hts with hts
          injection hts
        subst hu
        refine applyPlain_wf o dot [v] u ?_ hap
        intro a ha
        rw [List.mem_singleton.1 ha]
        exact ihx hx _ hv
    · rw [hw] at hts; cases hts

end FormulaicVerif.Proofs.C14Power
