import FormulaicVerif.Model.HeapScope
import FormulaicVerif.Proofs.C03
/-! Helper lemmas for C18: rank reduction with explicit `set` iteration orders (`Model/HeapScope.lean`)
computes, for every admissible order, what the insertion-ordered model of C02/C03
(`Model/Materialize.lean`) computes; hence it is total and independent of the orders. -/
namespace FormulaicVerif.Proofs.C18Scope
open FormulaicVerif.Model FormulaicVerif.Model.HeapScope

theorem osMem_perm {s s' : List ST} (h : s.Perm s') (x : ST) : osMem s x = osMem s' x := by
  unfold osMem
  induction h with
  | nil => rfl
  | cons a _ ih => simp [List.any_cons, ih]
  | swap a b l => simp only [List.any_cons]; cases ST.eq b x <;> cases ST.eq a x <;> simp
  | trans _ _ ih1 ih2 => exact ih1.trans ih2

theorem osDiff_perm_right (a : List ST) {s s' : List ST} (h : s.Perm s') : osDiff a s = osDiff a s' := by
  unfold osDiff
  congr 1
  apply List.filter_congr
  intro x _
  rw [osMem_perm h x]

theorem perm_singleton_length {α : Type} {l l' : List α} (h : l.Perm l') (h1 : l'.length = 1) : l = l' := by
  match l', h1 with
  | [a], _ => exact List.perm_singleton.mp h

/-- the only `set` that is iterated holds exactly one element when it is iterated -/
theorem mergeCandidate_eq (σ : SetOrder) (hσ : σ.Valid) (st e : ST) :
    HeapScope.mergeCandidate σ st e = Model.mergeCandidate st e := by
  unfold HeapScope.mergeCandidate Model.mergeCandidate
  have hp := hσ.sf (dedupSF (st.factors.filter (fun f => !e.factors.contains f)))
  simp only [hp.length_eq]
  by_cases hc : (dedupSF st.factors).length ≠ (dedupSF e.factors).length + 1 ∨
      (dedupSF (st.factors.filter (fun f => !e.factors.contains f))).length ≠ 1
  · rw [if_pos hc, if_pos hc]
  · rw [if_neg hc, if_neg hc]
    have h1 : (dedupSF (st.factors.filter (fun f => !e.factors.contains f))).length = 1 := by
      by_cases h : (dedupSF (st.factors.filter (fun f => !e.factors.contains f))).length = 1
      · exact h
      · exact absurd (Or.inr h) hc
    rw [perm_singleton_length hp h1]
    match hd : dedupSF (st.factors.filter (fun f => !e.factors.contains f)), h1 with
    | [f], _ => rfl

theorem findMerge_eq (σ : SetOrder) (hσ : σ.Valid) (st : ST) (terms : List ST) :
    HeapScope.findMerge σ st terms = Model.findMerge st terms := by
  induction terms with
  | nil => rfl
  | cons e r ih => simp only [HeapScope.findMerge, Model.findMerge, mergeCandidate_eq σ hσ, ih]; rfl

theorem simplifyLoop_eq (σ : SetOrder) (hσ : σ.Valid) (rec rec' : List ST → Option (List ST))
    (hrec : ∀ x, rec x = rec' x) (todo terms : List ST) :
    HeapScope.simplifyLoop σ rec todo terms = Model.simplifyLoop rec' todo terms := by
  induction todo generalizing terms with
  | nil => rfl
  | cons st rest ih =>
    simp only [HeapScope.simplifyLoop, Model.simplifyLoop, findMerge_eq σ hσ]
    cases Model.findMerge st terms with
    | none => exact ih _
    | some ef =>
      obtain ⟨e, f⟩ := ef
      simp only [hrec]
      cases rec' (osUnion (osDiff terms [e]) [mkFull f st]) with
      | none => rfl
      | some t' => exact ih _

theorem simplify_eq (σ : SetOrder) (hσ : σ.Valid) (n : Nat) (sts : List ST) :
    HeapScope.simplify σ n sts = Model.simplify n sts := by
  induction n generalizing sts with
  | zero => rfl
  | succ n ih => exact simplifyLoop_eq σ hσ _ _ ih _ _

/-- results of the generator body for one term are related: same failure, or the same scoped terms and
`spanned` sets holding the same elements -/
def Rel (a b : Except ScopeErr (List ST × List ST)) : Prop :=
  match a, b with
  | .error e, .error e' => e = e'
  | .ok x, .ok y => x.1 = y.1 ∧ x.2.Perm y.2
  | _, _ => False

theorem scopeTerm_rel (σ : SetOrder) (hσ : σ.Valid) (c : Cache) (efr : Bool) {s s' : List ST}
    (h : s.Perm s') (t : MTerm) :
    Rel (HeapScope.scopeTerm σ c efr s t) (Model.scopeTerm c efr s' t) := by
  unfold HeapScope.scopeTerm Model.scopeTerm
  cases evaledFactors c t with
  | error e => exact rfl
  | ok efs =>
    cases efs with
    | nil => exact ⟨rfl, h⟩
    | cons f r =>
      cases efr with
      | false => exact ⟨rfl, h⟩
      | true =>
        simp only [if_true, simplify_eq σ hσ, osDiff_perm_right _ h]
        cases Model.simplify (simplifyFuel (osDiff (spannedBy (f :: r)) s')) (osDiff (spannedBy (f :: r)) s') with
        | none => exact rfl
        | some sts => exact ⟨rfl, (hσ.st _).trans (h.append_right _)⟩

theorem getScopedTerms_eq (σ : SetOrder) (hσ : σ.Valid) (c : Cache) (efr : Bool) (ts : List MTerm) :
    ∀ {s s' : List ST}, s.Perm s' →
      HeapScope.getScopedTerms σ c efr s ts = Model.getScopedTerms c efr s' ts := by
  induction ts with
  | nil => intro _ _ _; rfl
  | cons t ts ih =>
    intro s s' h
    have hr := scopeTerm_rel σ hσ c efr h t
    simp only [HeapScope.getScopedTerms, Model.getScopedTerms]
    generalize HeapScope.scopeTerm σ c efr s t = a at hr
    generalize Model.scopeTerm c efr s' t = b at hr
    match a, b, hr with
    | .error e, .error e', hr => simp only [Rel] at hr; subst hr; rfl
    | .ok (x1, x2), .ok (y1, y2), hr =>
      obtain ⟨h1, h2⟩ := hr
      simp only at h1 h2
      subst h1
      simp only [ih h2]
      rfl

/-! ### totality: on the caches `scopedTerms` builds, nothing fails -/

theorem entryOf_expr (kind : String → FKind) (f : String) : (entryOf kind f).expr = f := by
  unfold entryOf; cases kind f <;> rfl

theorem cacheOf_get (kind : String → FKind) (fs : List String) (e : String) (he : e ∈ fs) (h1 : e ≠ "1") :
    ∃ f, (cacheOf kind fs).get e = .ok f := by
  unfold Cache.get cacheOf
  rw [List.find?_cons_of_neg (by simpa using fun h => h1 h.symm)]
  have hsome : ((fs.map (entryOf kind)).find? (fun f => f.expr == e)).isSome :=
    List.find?_isSome.mpr ⟨entryOf kind e, List.mem_map.mpr ⟨e, he, rfl⟩, by simp [entryOf_expr]⟩
  obtain ⟨f, hf⟩ := Option.isSome_iff_exists.mp hsome
  exact ⟨f, by rw [hf]⟩

theorem cacheOf_get_one (kind : String → FKind) (fs : List String) :
    ∃ f, (cacheOf kind fs).get "1" = .ok f :=
  ⟨⟨"1", true, .constant 1, false, noEnc, noEnc⟩, by simp [Cache.get, cacheOf]⟩

theorem evaledFactors_ok (c : Cache) (t : MTerm) (h : ∀ e ∈ t, ∃ f, c.get e = .ok f) :
    ∃ efs, evaledFactors c t = .ok efs := by
  induction t with
  | nil => exact ⟨[], rfl⟩
  | cons e r ih =>
    obtain ⟨f, hf⟩ := h e (by simp)
    obtain ⟨efs, hr⟩ := ih (fun e' he' => h e' (by simp [he']))
    simp only [evaledFactors, hf, hr]
    exact ⟨_, rfl⟩

theorem scopeTerm_ok (c : Cache) (efr : Bool) (s : List ST) (t : MTerm)
    (h : ∀ e ∈ t, ∃ f, c.get e = .ok f) : ∃ r, Model.scopeTerm c efr s t = .ok r := by
  obtain ⟨efs, he⟩ := evaledFactors_ok c t h
  unfold Model.scopeTerm
  rw [he]
  cases efs with
  | nil => exact ⟨_, rfl⟩
  | cons f r =>
    cases efr with
    | false => exact ⟨_, rfl⟩
    | true =>
      obtain ⟨res, hr, _⟩ := FormulaicVerif.Proofs.C03.simplify_total
        (simplifyFuel (osDiff (spannedBy (f :: r)) s)) (osDiff (spannedBy (f :: r)) s) (Nat.le_refl _)
      simp only [if_true, hr]
      exact ⟨_, rfl⟩

theorem getScopedTerms_ok (c : Cache) (efr : Bool) (ts : List MTerm)
    (h : ∀ t ∈ ts, ∀ e ∈ t, ∃ f, c.get e = .ok f) :
    ∀ s, ∃ r, Model.getScopedTerms c efr s ts = .ok r := by
  induction ts with
  | nil => intro s; exact ⟨[], rfl⟩
  | cons t ts ih =>
    intro s
    obtain ⟨⟨sts, s'⟩, h1⟩ := scopeTerm_ok c efr s t (h t (by simp))
    obtain ⟨r, h2⟩ := ih (fun t' ht' => h t' (by simp [ht'])) s'
    simp only [Model.getScopedTerms, h1, h2]
    exact ⟨_, rfl⟩

end FormulaicVerif.Proofs.C18Scope
