import FormulaicVerif.Proofs.C15Quote
import FormulaicVerif.Proofs.C15Step
import FormulaicVerif.Proofs.C15Ws
/-! Helper lemmas for C15: a call-style Python fragment at top level is ONE python token, verbatim.

`name(body)` / `name[body]`, and chains such as `np.log(x)[0]`: a run of word characters that is not
a number (`NameChar`, `∃ non-numeric`) followed by bracket groups whose bodies leave the quote stack
as they found it (`C15Quote.qRun`). The closing bracket of a call is APPENDED to the pending token,
which stays pending: the token is emitted by the end of the input or by whatever follows (anything
but another `(`/`[`, which continues the token, or a string quote, which is rejected). -/
namespace FormulaicVerif.Proofs.C15Call
open FormulaicVerif FormulaicVerif.Model FormulaicVerif.Proofs.C15 FormulaicVerif.Proofs.C15Quote
  FormulaicVerif.Proofs.C15Step

/-- a character of an unquoted name: a word character (by the data flag `CharInfo.word`, which is the
regex `[\.\_\w]`), not whitespace, and not one of the characters that the loop looks at before it
looks at the character class -/
def NameChar (ci : CharInfo) : Prop :=
  ci.word = true ∧ ci.space = false ∧ ci.c ∉ ['%', '{', '`', '(', '[', ')', ']', '"', '\'']

/-- the kind the word branch of `lexPlain` gives the pending token: digits and dots keep a fresh or
numeric token a `value`; anything else makes it a `name`, and a `name` stays a `name` -/
def wordKind (k : Option TKind) (c : Char) : TKind :=
  if isNumericChar c && (k == none || k == some .value) then .value else .name

/-- the pending token after a run of word characters -/
def wordAll (t : Tok) : List CharInfo → Nat → Tok
  | [], _ => t
  | ci :: cs, i => wordAll (t.update ci.c i (some (wordKind t.kind ci.c))) cs (i + 1)

/-- the kind after a run of word characters -/
def kindAll (k : Option TKind) : List CharInfo → Option TKind
  | [] => k
  | ci :: cs => kindAll (some (wordKind k ci.c)) cs

instance (ci : CharInfo) : Decidable (NameChar ci) := by unfold NameChar; infer_instance

structure NameFacts (ci : CharInfo) : Prop where
  word : ci.word = true
  space : ci.space = false
  f1 : (ci.c == '%') = false
  f2 : (ci.c == '{') = false
  f3 : (ci.c == '`') = false
  f4 : (ci.c == '(') = false
  f5 : (ci.c == '[') = false
  f6 : (ci.c == ')') = false
  f7 : (ci.c == ']') = false
  f8 : (ci.c == '"') = false
  f9 : (ci.c == '\'') = false

theorem NameChar.facts {ci : CharInfo} (h : NameChar ci) : NameFacts ci := by
  obtain ⟨hw, hs, hc⟩ := h
  simp only [List.mem_cons, List.mem_nil_iff, or_false, not_or] at hc
  obtain ⟨c1, c2, c3, c4, c5, c6, c7, c8, c9⟩ := hc
  exact ⟨hw, hs, by simpa using c1, by simpa using c2, by simpa using c3, by simpa using c4,
    by simpa using c5, by simpa using c6, by simpa using c7, by simpa using c8, by simpa using c9⟩

/-- a word character at top level, after nothing / a number / a name: appended -/
theorem lexStep_word (s : LexState) (i : Nat) (ci : CharInfo) (hq : s.qc = []) (ht : s.take = 0)
    (hc : NameChar ci) (hk : s.tok.kind = none ∨ s.tok.kind = some .value ∨ s.tok.kind = some .name) :
    lexStep s i ci = .ok { s with tok := s.tok.update ci.c i (some (wordKind s.tok.kind ci.c)) } := by
  obtain ⟨hw, hs, f1, f2, f3, f4, f5, f6, f7, f8, f9⟩ := hc.facts
  unfold lexStep lexTop lexPlain
  simp only [ht, Nat.lt_irrefl, if_false, hq, f1, f2, f3, f4, f5, f6, f7, f8, f9, Bool.false_eq_true,
    Bool.or_self, hs, hw, if_true]
  rcases hk with hk | hk | hk <;> simp [hk, hq, ht, wordKind]

/-- a word character at top level, after an operator or a Python token: that token is emitted and a
new one begun -/
theorem lexStep_word_flush (s : LexState) (i : Nat) (ci : CharInfo) (hq : s.qc = []) (ht : s.take = 0)
    (hc : NameChar ci) (hn : s.tok.nonempty = true)
    (hk : s.tok.kind = some .operator ∨ s.tok.kind = some .python) :
    lexStep s i ci = .ok { s with out := s.tok :: s.out,
                                  tok := Tok.fresh.update ci.c i (some (wordKind none ci.c)) } := by
  obtain ⟨hw, hs, f1, f2, f3, f4, f5, f6, f7, f8, f9⟩ := hc.facts
  unfold lexStep lexTop lexPlain
  simp only [ht, Nat.lt_irrefl, if_false, hq, f1, f2, f3, f4, f5, f6, f7, f8, f9, Bool.false_eq_true,
    Bool.or_self, hs, hw, if_true]
  rcases hk with hk | hk <;> simp [hk, hn, hq, ht, wordKind, LexState.flush, Tok.fresh]

theorem wordKind_cases (k : Option TKind) (c : Char) : wordKind k c = .value ∨ wordKind k c = .name := by
  unfold wordKind; split <;> simp

theorem lexLoop_name (name : List CharInfo) : ∀ (tail : List CharInfo) (i : Nat) (s : LexState),
    s.qc = [] → s.take = 0 →
    (s.tok.kind = none ∨ s.tok.kind = some .value ∨ s.tok.kind = some .name) →
    (∀ ci ∈ name, NameChar ci) →
    lexLoop (name ++ tail) i s = lexLoop tail (i + name.length) { s with tok := wordAll s.tok name i } := by
  induction name with
  | nil => intro tail i s _ _ _ _; simp [wordAll]
  | cons ci name ih =>
    intro tail i s hq ht hk hn
    simp only [List.cons_append, lexLoop]
    rw [lexStep_word s i ci hq ht (hn ci (by simp)) hk]
    simp only
    rw [ih tail (i + 1) ⟨s.qc, s.take, s.tok.update ci.c i (some (wordKind s.tok.kind ci.c)), s.out⟩ hq ht ?_
      (fun c hc => hn c (by simp [hc]))]
    · simp only [wordAll, List.length_cons]
      congr 1
      omega
    · simp only [Tok.update]
      rcases wordKind_cases s.tok.kind ci.c with h | h <;> simp [h]

theorem wordAll_text (name : List CharInfo) : ∀ (t : Tok) (i : Nat),
    (wordAll t name i).text = t.text ++ name.map (·.c) ∧ (wordAll t name i).kind = kindAll t.kind name := by
  induction name with
  | nil => intro t i; simp [wordAll, kindAll]
  | cons ci name ih =>
    intro t i
    obtain ⟨h1, h2⟩ := ih (t.update ci.c i (some (wordKind t.kind ci.c))) (i + 1)
    refine ⟨?_, ?_⟩
    · simp only [wordAll, h1]; simp [Tok.update]
    · simp only [wordAll, h2, kindAll]; simp [Tok.update]

theorem wordAll_start (name : List CharInfo) : ∀ (t : Tok) (i : Nat) (a : Nat), t.start = some a →
    (wordAll t name i).start = some a := by
  induction name with
  | nil => intro t i a h; exact h
  | cons ci name ih =>
    intro t i a ha
    exact ih _ (i + 1) a (by simp [Tok.update, ha])

theorem wordAll_span (name : List CharInfo) : ∀ (t : Tok) (i : Nat), t.start = none → name ≠ [] →
    (wordAll t name i).start = some i ∧ (wordAll t name i).stop = some (i + name.length - 1) := by
  induction name with
  | nil => intro t i _ h; exact absurd rfl h
  | cons ci name ih =>
    intro t i ha _
    refine ⟨wordAll_start name _ (i + 1) i (by simp [Tok.update, ha]), ?_⟩
    by_cases hb : name = []
    · subst hb; simp [wordAll, Tok.update]
    · -- the stop position does not depend on the start
      have : ∀ (name : List CharInfo) (t : Tok) (j : Nat), name ≠ [] →
          (wordAll t name j).stop = some (j + name.length - 1) := by
        intro name
        induction name with
        | nil => intro t j h; exact absurd rfl h
        | cons c name ih2 =>
          intro t j _
          by_cases hb2 : name = []
          · subst hb2; simp [wordAll, Tok.update]
          · simp only [wordAll, List.length_cons]
            rw [ih2 _ (j + 1) hb2]
            congr 1; omega
      simp only [wordAll, List.length_cons]
      rw [this name _ (i + 1) hb]
      congr 1; omega

theorem kindAll_name (name : List CharInfo) : kindAll (some .name) name = some .name := by
  induction name with
  | nil => rfl
  | cons ci name ih => simpa [kindAll, wordKind] using ih

/-- a run of word characters that begins a token is a `name` as soon as one of them is not a digit or
a dot -/
theorem kindAll_of_nonnumeric (name : List CharInfo) : ∀ (k : Option TKind), (k = none ∨ k = some .value) →
    (∃ ci ∈ name, isNumericChar ci.c = false) → kindAll k name = some .name := by
  induction name with
  | nil => intro k _ h; obtain ⟨ci, hci, _⟩ := h; simp at hci
  | cons ci name ih =>
    intro k hk h
    simp only [kindAll]
    by_cases hnum : isNumericChar ci.c = true
    · have hw : wordKind k ci.c = .value := by
        rcases hk with rfl | rfl <;> simp [wordKind, hnum]
      rw [hw]
      refine ih _ (Or.inr rfl) ?_
      obtain ⟨c, hc, hcn⟩ := h
      rcases List.mem_cons.mp hc with rfl | hc
      · rw [hnum] at hcn; cases hcn
      · exact ⟨c, hc, hcn⟩
    · have hnum' : isNumericChar ci.c = false := by simpa using hnum
      have hw : wordKind k ci.c = .name := by simp [wordKind, hnum']
      rw [hw]; exact kindAll_name name

/-- a run of digits and dots that begins a token is a `value` -/
theorem kindAll_of_numeric (name : List CharInfo) : ∀ (k : Option TKind), (k = none ∨ k = some .value) →
    name ≠ [] → (∀ ci ∈ name, isNumericChar ci.c = true) → kindAll k name = some .value := by
  induction name with
  | nil => intro k _ h; exact absurd rfl h
  | cons ci name ih =>
    intro k hk _ h
    simp only [kindAll]
    have hw : wordKind k ci.c = .value := by
      rcases hk with rfl | rfl <;> simp [wordKind, h ci (by simp)]
    rw [hw]
    by_cases hb : name = []
    · subst hb; rfl
    · exact ih _ (Or.inr rfl) hb (fun c hc => h c (by simp [hc]))


/-! ### one bracket group after a name or Python token -/

/-- the two brackets that continue a name / Python token, with their closers -/
def Bracket (o cl : Char) : Prop := (o = '(' ∧ cl = ')') ∨ (o = '[' ∧ cl = ']')

instance (o cl : Char) : Decidable (Bracket o cl) := by unfold Bracket; infer_instance

theorem updAll_append (u : List CharInfo) : ∀ (v : List CharInfo) (t : Tok) (i : Nat),
    updAll t (u ++ v) i = updAll (updAll t u i) v (i + u.length) := by
  induction u with
  | nil => intro v t i; simp [updAll]
  | cons c u ih =>
    intro v t i
    simp only [List.cons_append, updAll, List.length_cons, ih]
    congr 1; omega

/-- `(` or `[` directly after a pending name / Python token, a body that leaves the quote stack as it
found it, and the matching closer: all of it is appended to the pending token, which becomes (stays)
a Python token and stays pending, at top level again -/
theorem lexLoop_group (body tail : List CharInfo) (op cl : CharInfo) (c : Char) (i : Nat) (s : LexState)
    (hq : s.qc = []) (ht : s.take = 0)
    (hk : s.tok.kind = some .name ∨ s.tok.kind = some .python)
    (hb : Bracket op.c c) (hcl : cl.c = c)
    (hrun : qRun [c] 0 (body.map (·.c)) = some ([c], 0)) :
    lexLoop (op :: body ++ cl :: tail) i s =
      lexLoop tail (i + (body.length + 2))
        { s with tok := updAll (s.tok.update op.c i (some .python)) (body ++ [cl]) (i + 1) } := by
  obtain ⟨qc, take, tok, out⟩ := s
  simp only at hq ht hk
  subst hq ht
  have hopen : lexStep ⟨[], 0, tok, out⟩ i op = .ok ⟨[c], 0, tok.update op.c i (some .python), out⟩ := by
    unfold lexStep lexTop lexPlain
    rcases hb with ⟨h1, rfl⟩ | ⟨h1, rfl⟩ <;> rcases hk with hk | hk <;> simp [h1, hk, closerOf]
  simp only [List.cons_append, lexLoop, hopen]
  rw [lexLoop_in_quote body (cl :: tail) (i + 1) _ [c] 0 (by simp) (Or.inr (by simp)) hrun]
  have hclose : lexStep ⟨[c], 0, updAll (tok.update op.c i (some .python)) body (i + 1), out⟩ (i + 1 + body.length) cl
      = .ok ⟨[], 0, (updAll (tok.update op.c i (some .python)) body (i + 1)).update cl.c (i + 1 + body.length), out⟩ := by
    unfold lexStep lexQuoted
    rcases hb with ⟨_, rfl⟩ | ⟨_, rfl⟩ <;> simp [hcl]
  simp only [lexLoop, hclose, updAll_append, updAll]
  congr 1
  omega

/-- the pending token after a bracket group -/
theorem group_tok (body : List CharInfo) (op cl : CharInfo) (t : Tok) (i a : Nat) (ha : t.start = some a) :
    updAll (t.update op.c i (some .python)) (body ++ [cl]) (i + 1) =
      { text := t.text ++ (op :: body ++ [cl]).map (·.c), kind := some .python, start := some a,
        stop := some (i + (body.length + 1)) } := by
  obtain ⟨h1, h2⟩ := updAll_text (body ++ [cl]) (t.update op.c i (some .python)) (i + 1)
  obtain ⟨h3, h4⟩ := updAll_span (body ++ [cl]) (t.update op.c i (some .python)) (i + 1) a
    (by simp [Tok.update, ha]) (by simp)
  cases hu : updAll (t.update op.c i (some .python)) (body ++ [cl]) (i + 1) with
  | mk text kind start stop =>
    rw [hu] at h1 h2 h3 h4
    simp only [Tok.update] at h1 h2 h3 h4
    simp only [Tok.mk.injEq]
    refine ⟨by simp [h1], h2, h3, ?_⟩
    rw [h4]; simp only [List.length_append, List.length_cons, List.length_nil]; congr 1; omega

/-! ### chains of bracket groups: `f(x)[0](y)` -/

/-- a bracket group: opener, body, closer -/
structure Group where
  op : CharInfo
  body : List CharInfo
  cl : CharInfo

/-- the characters of a group -/
def Group.chars (g : Group) : List CharInfo := g.op :: g.body ++ [g.cl]

/-- the opener is `(` or `[`, the closer matches it, and the body leaves the quote stack as it found it -/
def Group.Balanced (g : Group) : Prop :=
  ∃ c, Bracket g.op.c c ∧ g.cl.c = c ∧ qRun [c] 0 (g.body.map (·.c)) = some ([c], 0)

/-- the characters of a chain of groups -/
def chain (gs : List Group) : List CharInfo := gs.flatMap Group.chars

theorem chars_length (g : Group) : g.chars.length = g.body.length + 2 := by
  simp [Group.chars]

theorem lexLoop_chain (gs : List Group) : ∀ (tail : List CharInfo) (i a : Nat) (s : LexState),
    s.qc = [] → s.take = 0 → (s.tok.kind = some .name ∨ s.tok.kind = some .python) → s.tok.start = some a →
    gs ≠ [] → (∀ g ∈ gs, g.Balanced) →
    lexLoop (chain gs ++ tail) i s =
      lexLoop tail (i + (chain gs).length)
        { s with tok := { text := s.tok.text ++ (chain gs).map (·.c), kind := some .python, start := some a,
                          stop := some (i + (chain gs).length - 1) } } := by
  induction gs with
  | nil => intro _ _ _ _ _ _ _ _ h; exact absurd rfl h
  | cons g gs ih =>
    intro tail i a s hq ht hk ha _ hg
    obtain ⟨c, hb, hcl, hrun⟩ := hg g (by simp)
    have e1 : chain (g :: gs) ++ tail = g.op :: g.body ++ g.cl :: (chain gs ++ tail) := by
      simp [chain, Group.chars]
    rw [e1, lexLoop_group g.body (chain gs ++ tail) g.op g.cl c i s hq ht hk hb hcl hrun,
      group_tok g.body g.op g.cl s.tok i a ha]
    by_cases hgs : gs = []
    · subst hgs
      simp only [chain, List.flatMap_cons, List.flatMap_nil, List.append_nil, List.nil_append, Group.chars,
        List.length_cons, List.length_append, List.length_nil]
      congr 4
    · rw [ih tail (i + (g.body.length + 2)) a
        ⟨s.qc, s.take, Tok.mk (s.tok.text ++ (g.op :: g.body ++ [g.cl]).map (·.c)) (some .python) (some a)
          (some (i + (g.body.length + 1))), s.out⟩
        hq ht (Or.inr rfl) rfl hgs (fun g' h' => hg g' (by simp [h']))]
      have e2 : (chain (g :: gs)).length = g.body.length + 2 + (chain gs).length := by
        simp [chain, Group.chars]; omega
      have e3 : chain (g :: gs) = g.op :: g.body ++ [g.cl] ++ chain gs := by
        simp [chain, Group.chars]
      have hpos : 0 < (chain gs).length := by
        cases gs with
        | nil => exact absurd rfl hgs
        | cons g' gs' => simp [chain, Group.chars]
      rw [e2]
      congr 1
      · omega
      · simp only [e3, List.map_append, List.append_assoc]
        congr 3
        omega

/-! ### name + chain -/

/-- where a call may begin: at top level, with nothing pending, or with a pending operator or Python
token (which the first character of the name ends) -/
def Start (s : LexState) : Prop :=
  s.qc = [] ∧ s.take = 0 ∧
    (s.tok = Tok.fresh ∨ (s.tok.nonempty = true ∧ (s.tok.kind = some .operator ∨ s.tok.kind = some .python)))

/-- a name: word characters only, not all of them digits or dots -/
def IsName (name : List CharInfo) : Prop :=
  (∀ ci ∈ name, NameChar ci) ∧ ∃ ci ∈ name, isNumericChar ci.c = false

instance (name : List CharInfo) : Decidable (IsName name) := by unfold IsName; infer_instance

/-- the one token of a call that begins at position `i` -/
def callTok (frag : List CharInfo) (i : Nat) : Tok :=
  { text := frag.map (·.c), kind := some .python, start := some i, stop := some (i + frag.length - 1) }

theorem flush_of_start {s : LexState} (h : Start s) :
    s.flush.qc = [] ∧ s.flush.take = 0 ∧ s.flush.tok = Tok.fresh := by
  obtain ⟨hq, ht, h⟩ := h
  refine ⟨by rw [flush_qc]; exact hq, by rw [flush_take]; exact ht, ?_⟩
  unfold LexState.flush
  rcases h with h | ⟨hn, _⟩
  · simp [h, Tok.fresh, Tok.nonempty]
  · simp [hn]

/-- the loop over a name, from a `Start` state -/
theorem lexLoop_name_start (name tail : List CharInfo) (i : Nat) (s : LexState) (hs : Start s)
    (hname : IsName name) :
    lexLoop (name ++ tail) i s =
      lexLoop tail (i + name.length)
        { qc := [], take := 0, out := s.flush.out,
          tok := { text := name.map (·.c), kind := some .name, start := some i,
                   stop := some (i + name.length - 1) } } := by
  obtain ⟨hchars, hnn⟩ := hname
  obtain ⟨fq, ft, ftok⟩ := flush_of_start hs
  have hne : name ≠ [] := by
    obtain ⟨ci, hci, _⟩ := hnn
    intro h; rw [h] at hci; simp at hci
  -- the first character ends whatever was pending
  have hfirst : ∀ (c0 : CharInfo), NameChar c0 →
      lexStep s i c0 = .ok { s.flush with tok := s.flush.tok.update c0.c i (some (wordKind s.flush.tok.kind c0.c)) } := by
    intro c0 hc0
    have hw := lexStep_word s.flush i c0 fq ft hc0 (Or.inl (by rw [ftok]; rfl))
    obtain ⟨hq, ht, h⟩ := hs
    rcases h with h | ⟨hn, hk⟩
    · have : s.flush = s := by unfold LexState.flush; simp [h, Tok.fresh, Tok.nonempty]
      rw [this] at hw ⊢; exact hw
    · rw [lexStep_word_flush s i c0 hq ht hc0 hn hk]
      unfold LexState.flush
      simp [hn, Tok.fresh]
  have hloop : lexLoop (name ++ tail) i s = lexLoop (name ++ tail) i s.flush := by
    cases name with
    | nil => exact absurd rfl hne
    | cons c0 name =>
      simp only [List.cons_append, lexLoop, hfirst c0 (hchars c0 (by simp)),
        lexStep_word s.flush i c0 fq ft (hchars c0 (by simp)) (Or.inl (by rw [ftok]; rfl))]
  rw [hloop, lexLoop_name name tail i s.flush fq ft (Or.inl (by rw [ftok]; rfl)) hchars]
  congr 1
  obtain ⟨h1, h2⟩ := wordAll_text name s.flush.tok i
  obtain ⟨h3, h4⟩ := wordAll_span name s.flush.tok i (by rw [ftok]; rfl) hne
  cases hu : wordAll s.flush.tok name i with
  | mk text kind start stop =>
    rw [hu] at h1 h2 h3 h4
    simp only at h1 h2 h3 h4
    rw [ftok] at h1 h2
    simp only [Tok.fresh, List.nil_append] at h1 h2
    rw [h1, h2, h3, h4, kindAll_of_nonnumeric name none (Or.inl rfl) hnn, fq, ft]

/-- **The loop over a call.** From a `Start` state, a name followed by one or more balanced bracket
groups is consumed into ONE pending Python token whose text is all of it, verbatim, with the span
from the first character of the name to the last closing bracket; the lexer is at top level again,
and what was pending before has been emitted. -/
theorem lexLoop_call (name : List CharInfo) (gs : List Group) (tail : List CharInfo) (i : Nat) (s : LexState)
    (hs : Start s) (hname : IsName name) (hgs : gs ≠ []) (hbal : ∀ g ∈ gs, g.Balanced) :
    lexLoop (name ++ chain gs ++ tail) i s =
      lexLoop tail (i + (name ++ chain gs).length)
        { qc := [], take := 0, tok := callTok (name ++ chain gs) i, out := s.flush.out } := by
  have hne : name ≠ [] := by
    obtain ⟨_, ci, hci, _⟩ := hname
    intro h; rw [h] at hci; simp at hci
  have hpos : 0 < name.length := List.length_pos_iff.mpr hne
  rw [List.append_assoc, lexLoop_name_start name (chain gs ++ tail) i s hs hname,
    lexLoop_chain gs tail (i + name.length) i _ rfl rfl (Or.inl rfl) rfl hgs hbal]
  simp only [callTok, List.length_append, List.map_append]
  congr 1
  · omega
  · congr 3
    omega

/-! ### what ends the pending call token -/

/-- the emitted tokens only grow (at the front: most recent first) -/
theorem out_closed (out0 : List Tok) : Closed (fun _ _ => True) (fun _ s => ∃ l, s.out = l ++ out0) where
  upd := fun _ _ _ _ h _ _ => h
  flush := by
    intro i s h _ _
    unfold LexState.flush
    split
    · obtain ⟨l, hl⟩ := h; exact ⟨s.tok :: l, by simp [hl]⟩
    · exact h
  mono := fun h => h
  emit := by
    intro i s h _ _
    obtain ⟨l, hl⟩ := h; exact ⟨s.tok :: l, by simp [hl]⟩
  reset := fun h _ _ => h
  requote := fun _ h _ _ => h
  opened := by
    intro i s c k q h _ _ _
    split
    · obtain ⟨l, hl⟩ := h; exact ⟨s.tok :: l, by simp [hl]⟩
    · exact h
  ctx := by
    intro i s c h _
    obtain ⟨l, hl⟩ := h; exact ⟨(Tok.fresh.update c i (some .context)) :: l, by simp [hl]⟩

theorem lexLoop_out (cs : List CharInfo) : ∀ (i : Nat) (s : LexState), ∃ l, (lexLoop cs i s).1.out = l ++ s.out := by
  induction cs with
  | nil => intro i s; exact ⟨[], rfl⟩
  | cons ci cs ih =>
    intro i s
    unfold lexLoop
    cases hst : lexStep s i ci with
    | error e => exact ⟨[], rfl⟩
    | ok s1 =>
      obtain ⟨l1, h1⟩ := lexStep_closed (out_closed s.out) s s1 i ci ⟨[], rfl⟩ trivial hst
      obtain ⟨l2, h2⟩ := ih (i + 1) s1
      exact ⟨l2 ++ l1, by simp only [h2, h1, List.append_assoc]⟩

/-- a character that ends a pending Python token: anything but `(`/`[` (which continue it) and a string
quote (which is rejected: "Unexpected character … following token") -/
def Ender (ci : CharInfo) : Prop := ci.c ≠ '(' ∧ ci.c ≠ '[' ∧ ci.c ≠ '"' ∧ ci.c ≠ '\''

/-- any `Ender` after a pending Python token emits that token -/
theorem lexStep_ender (s : LexState) (i : Nat) (ci : CharInfo) (hq : s.qc = []) (ht : s.take = 0)
    (hn : s.tok.nonempty = true) (hk : s.tok.kind = some .python) (he : Ender ci) :
    ∃ s', lexStep s i ci = .ok s' ∧ ∃ l, s'.out = l ++ s.tok :: s.out := by
  obtain ⟨e1, e2, e3, e4⟩ := he
  have g1 : (ci.c == '(') = false := by simpa using e1
  have g2 : (ci.c == '[') = false := by simpa using e2
  have g3 : (ci.c == '"') = false := by simpa using e3
  have g4 : (ci.c == '\'') = false := by simpa using e4
  have hfl : s.flush = { s with out := s.tok :: s.out, tok := Tok.fresh } := by
    unfold LexState.flush; simp [hn]
  unfold lexStep lexTop lexPlain
  simp only [ht, Nat.lt_irrefl, if_false, hq, g1, g2, g3, g4, Bool.or_self, Bool.false_eq_true]
  by_cases h1 : (ci.c == '%') = true
  · simp only [h1, if_true, hn]; exact ⟨_, rfl, [], rfl⟩
  · simp only [h1, Bool.false_eq_true, if_false]
    by_cases h2 : (ci.c == '{') = true
    · simp only [h2, if_true, hn]; exact ⟨_, rfl, [], rfl⟩
    · simp only [h2, Bool.false_eq_true, if_false]
      by_cases h3 : (ci.c == '`') = true
      · simp only [h3, if_true, hn]; exact ⟨_, rfl, [], rfl⟩
      · simp only [h3, Bool.false_eq_true, if_false]
        by_cases h4 : (ci.c == ')' || ci.c == ']') = true
        · simp only [h4, if_true, hfl]; exact ⟨_, rfl, [_], rfl⟩
        · simp only [h4, Bool.false_eq_true, if_false]
          by_cases h5 : ci.space = true
          · simp only [h5, if_true, hn, hk, hfl]; exact ⟨_, rfl, [], rfl⟩
          · simp only [h5, Bool.false_eq_true, if_false]
            by_cases h6 : ci.word = true
            · simp only [h6, if_true, hn, hk, hfl]; exact ⟨_, rfl, [], rfl⟩
            · simp only [h6, Bool.false_eq_true, if_false, hn, hk, hfl]; exact ⟨_, rfl, [], rfl⟩


/-! ### the theorems -/

theorem callTok_nonempty (name : List CharInfo) (gs : List Group) (i : Nat) (hgs : gs ≠ []) :
    (callTok (name ++ chain gs) i).nonempty = true := by
  cases gs with
  | nil => exact absurd rfl hgs
  | cons g gs => simp [callTok, Tok.nonempty, chain, Group.chars]

/-- **A call in context, at the end of the input.** After any prefix `u` that leaves the lexer at top
level with nothing pending or with a pending operator / Python token, a name followed by balanced
bracket groups is the LAST token: one Python token, the fragment verbatim, spanning exactly the
fragment. -/
theorem call_at_end (u name : List CharInfo) (gs : List Group) (s : LexState)
    (hu : lexLoop u 0 {} = (s, none)) (hs : Start s)
    (hname : IsName name) (hgs : gs ≠ []) (hbal : ∀ g ∈ gs, g.Balanced) :
    tokenize (u ++ (name ++ chain gs)) = .ok (s.flush.out.reverse ++ [callTok (name ++ chain gs) u.length]) := by
  unfold tokenize tokenizeStream
  rw [C15Ws.lexLoop_append u _ 0 {} s hu]
  have := lexLoop_call name gs [] (0 + u.length) s hs hname hgs hbal
  rw [List.append_nil] at this
  rw [this]
  simp only [lexLoop, List.isEmpty_nil, Bool.not_true, Bool.false_eq_true, if_false,
    callTok_nonempty name gs _ hgs, if_true, List.reverse_cons, Nat.zero_add]

/-- **A call in context, followed by more input.** Same prefix condition; the fragment is followed by
any character other than `(`/`[`/a string quote (an operator, a space, a closing bracket, a `{`…) and
anything at all after that. Whatever happens later — even a lexing error — the call token has been
yielded, directly after the tokens of the prefix. -/
theorem call_then (u name : List CharInfo) (gs : List Group) (nx : CharInfo) (rest : List CharInfo) (s : LexState)
    (hu : lexLoop u 0 {} = (s, none)) (hs : Start s)
    (hname : IsName name) (hgs : gs ≠ []) (hbal : ∀ g ∈ gs, g.Balanced) (hnx : Ender nx) :
    ∃ ts', (tokenizeStream (u ++ (name ++ chain gs) ++ nx :: rest)).1 =
      s.flush.out.reverse ++ callTok (name ++ chain gs) u.length :: ts' := by
  unfold tokenizeStream
  rw [List.append_assoc, C15Ws.lexLoop_append u _ 0 {} s hu,
    lexLoop_call name gs (nx :: rest) (0 + u.length) s hs hname hgs hbal]
  obtain ⟨s1, h1, l1, hl1⟩ := lexStep_ender
    { qc := [], take := 0, tok := callTok (name ++ chain gs) (0 + u.length), out := s.flush.out }
    (0 + u.length + (name ++ chain gs).length) nx rfl rfl (callTok_nonempty name gs _ hgs) rfl hnx
  simp only [lexLoop, h1]
  obtain ⟨l2, hl2⟩ := lexLoop_out rest (0 + u.length + (name ++ chain gs).length + 1) s1
  rw [hl1] at hl2
  simp only [Nat.zero_add] at hl2 ⊢
  cases hr : lexLoop rest (u.length + (name ++ chain gs).length + 1) s1 with
  | mk sf e =>
    rw [hr] at hl2
    simp only at hl2
    cases e with
    | some e => exact ⟨(l2 ++ l1).reverse, by simp [hl2]⟩
    | none =>
      simp only
      split
      · exact ⟨(l2 ++ l1).reverse, by simp [hl2]⟩
      · split
        · exact ⟨(sf.tok :: (l2 ++ l1)).reverse, by simp [hl2]⟩
        · exact ⟨(l2 ++ l1).reverse, by simp [hl2]⟩

theorem start_init : Start {} := ⟨rfl, rfl, Or.inl rfl⟩

/-- **Call chains are verbatim.** `name(…)[…](…)…` alone is ONE Python token with the text verbatim. -/
theorem call_chain_verbatim (name : List CharInfo) (gs : List Group)
    (hname : IsName name) (hgs : gs ≠ []) (hbal : ∀ g ∈ gs, g.Balanced) :
    tokenize (name ++ chain gs) =
      .ok [{ text := (name ++ chain gs).map (·.c), kind := some .python, start := some 0,
             stop := some ((name ++ chain gs).length - 1) }] := by
  have := call_at_end [] name gs {} rfl start_init hname hgs hbal
  simpa [LexState.flush, Tok.nonempty, callTok] using this

/-- **Calls are verbatim.** `name(body)` / `name[body]` alone is ONE Python token with the text verbatim. -/
theorem call_verbatim (name body : List CharInfo) (op cl : CharInfo) (c : Char)
    (hname : IsName name) (hb : Bracket op.c c) (hcl : cl.c = c)
    (hrun : qRun [c] 0 (body.map (·.c)) = some ([c], 0)) :
    tokenize (name ++ op :: body ++ [cl]) =
      .ok [{ text := (name ++ op :: body ++ [cl]).map (·.c), kind := some .python, start := some 0,
             stop := some (name.length + body.length + 1) }] := by
  have := call_chain_verbatim name [⟨op, body, cl⟩] hname (by simp) (by
    intro g hg
    rw [List.mem_singleton] at hg
    subst hg
    exact ⟨c, hb, hcl, hrun⟩)
  simp only [chain, List.flatMap_cons, List.flatMap_nil, List.append_nil, Group.chars] at this
  rw [show name ++ op :: body ++ [cl] = name ++ (op :: body ++ [cl]) by simp, this]
  simp only [List.length_append, List.length_cons, List.length_nil, Nat.zero_add]
  congr 4

/-- the same, followed by more input: the call is the first token of the stream -/
theorem call_verbatim_then (name body : List CharInfo) (op cl nx : CharInfo) (rest : List CharInfo) (c : Char)
    (hname : IsName name) (hb : Bracket op.c c) (hcl : cl.c = c)
    (hrun : qRun [c] 0 (body.map (·.c)) = some ([c], 0)) (hnx : Ender nx) :
    ∃ ts', (tokenizeStream (name ++ op :: body ++ [cl] ++ nx :: rest)).1 =
      { text := (name ++ op :: body ++ [cl]).map (·.c), kind := some .python, start := some 0,
        stop := some (name.length + body.length + 1) } :: ts' := by
  obtain ⟨ts', h⟩ := call_then [] name [⟨op, body, cl⟩] nx rest {} rfl start_init hname (by simp) (by
    intro g hg
    rw [List.mem_singleton] at hg
    subst hg
    exact ⟨c, hb, hcl, hrun⟩) hnx
  refine ⟨ts', ?_⟩
  simp only [chain, List.flatMap_cons, List.flatMap_nil, List.append_nil, Group.chars, callTok,
    List.nil_append] at h
  rw [show name ++ op :: body ++ [cl] = name ++ (op :: body ++ [cl]) by simp, h]
  simp only [LexState.flush, Tok.nonempty, List.length_append, List.length_cons, List.length_nil, Nat.zero_add]
  simp
  omega

/-- a dot is an ordinary name character wherever the character-class data say it is a word character:
`np.log` is a name -/
theorem isName_dotted (a b : List CharInfo) (dot : CharInfo) (ha : ∀ ci ∈ a, NameChar ci) (hb : ∀ ci ∈ b, NameChar ci)
    (hd : dot.c = '.') (hw : dot.word = true) (hsp : dot.space = false)
    (hnn : ∃ ci ∈ a ++ b, isNumericChar ci.c = false) : IsName (a ++ dot :: b) := by
  refine ⟨?_, ?_⟩
  · intro ci hci
    rcases List.mem_append.mp hci with h | h
    · exact ha ci h
    · rcases List.mem_cons.mp h with rfl | h
      · exact ⟨hw, hsp, by rw [hd]; decide⟩
      · exact hb ci h
  · obtain ⟨ci, hci, hn⟩ := hnn
    refine ⟨ci, ?_, hn⟩
    rcases List.mem_append.mp hci with h | h
    · exact List.mem_append.mpr (Or.inl h)
    · exact List.mem_append.mpr (Or.inr (List.mem_cons_of_mem _ h))

/-- **Dotted calls are verbatim**: `np.log(body)` is ONE Python token -/
theorem dotted_call_verbatim (a b body : List CharInfo) (dot op cl : CharInfo) (c : Char)
    (ha : ∀ ci ∈ a, NameChar ci) (hb : ∀ ci ∈ b, NameChar ci)
    (hd : dot.c = '.') (hw : dot.word = true) (hsp : dot.space = false)
    (hnn : ∃ ci ∈ a ++ b, isNumericChar ci.c = false)
    (hbr : Bracket op.c c) (hcl : cl.c = c) (hrun : qRun [c] 0 (body.map (·.c)) = some ([c], 0)) :
    tokenize ((a ++ dot :: b) ++ op :: body ++ [cl]) =
      .ok [{ text := ((a ++ dot :: b) ++ op :: body ++ [cl]).map (·.c), kind := some .python, start := some 0,
             stop := some ((a ++ dot :: b).length + body.length + 1) }] :=
  call_verbatim (a ++ dot :: b) body op cl c (isName_dotted a b dot ha hb hd hw hsp hnn) hbr hcl hrun

/-- the corner: a "name" made of digits and dots only is a `value`, and the bracket after it is a
context token of its own, not part of a call -/
theorem numeric_not_call (op : CharInfo) (i : Nat) (s : LexState)
    (hq : s.qc = []) (ht : s.take = 0) (hk : s.tok.kind = some .value) (hn : s.tok.nonempty = true)
    (hop : op.c = '(' ∨ op.c = '[') :
    lexStep s i op = .ok { s with tok := Tok.fresh,
                                  out := Tok.fresh.update op.c i (some .context) :: s.tok :: s.out } := by
  unfold lexStep lexTop
  rcases hop with h | h <;> simp [h, hq, ht, hk, hn, LexState.flush]

end FormulaicVerif.Proofs.C15Call
