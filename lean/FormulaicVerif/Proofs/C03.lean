import FormulaicVerif.Spec.Components
import FormulaicVerif.Proofs.ListSort
import FormulaicVerif.Proofs.Scoped
import FormulaicVerif.Proofs.C02Pipeline
/-! Helper lemmas for C03: structural components, their invariance under the greedy recombination
of `_simplify_scoped_terms`, termination of that recursion, and the `spanned` bookkeeping of
`_get_scoped_terms`. Core Lean only. -/
namespace FormulaicVerif.Proofs.C03
open FormulaicVerif.Model FormulaicVerif.Spec FormulaicVerif.Proofs.Sort FormulaicVerif.Proofs.Scoped
/-- canonical components of a factor list -/
def C (spans : String → Bool) (l : List SF) : List (List String) := (rawComps spans l).map sortStrings

theorem comps_eq_C (spans : String → Bool) (st : ST) : comps spans st = C spans st.factors := rfl

theorem C_cons (spans : String → Bool) (f : SF) (r : List SF) :
    C spans (f :: r) =
      if optionalSF spans f then (C spans r).map (insertSorted f.expr) ++ C spans r
      else (C spans r).map (insertSorted f.expr) := by
  unfold C
  simp only [rawComps]
  split <;> simp [List.map_append, List.map_map, Function.comp_def, sortStrings]

theorem C_ne_nil (spans : String → Bool) (l : List SF) : C spans l ≠ [] := by
  induction l with
  | nil => simp [C, rawComps]
  | cons f r ih =>
    rw [C_cons]
    split
    · intro h; exact ih (List.append_eq_nil_iff.mp h).2
    · intro h; exact ih (List.map_eq_nil_iff.mp h)

theorem sort_swap (a b : String) (c : List String) : sortStrings (a :: b :: c) = sortStrings (b :: a :: c) :=
  sortStrings_eq_iff_perm.mpr (List.Perm.swap b a c)

theorem ins_ins_comm (a b : String) (K : List (List String)) (hK : ∀ k ∈ K, ∃ c, k = sortStrings c) :
    (K.map (insertSorted a)).map (insertSorted b) = (K.map (insertSorted b)).map (insertSorted a) := by
  simp only [List.map_map]
  apply List.map_congr_left
  intro k hk
  obtain ⟨c, rfl⟩ := hK k hk
  exact sort_swap b a c

theorem C_sorted (spans : String → Bool) (l : List SF) : ∀ k ∈ C spans l, ∃ c, k = sortStrings c := by
  intro k hk
  obtain ⟨c, _, rfl⟩ := List.mem_map.mp hk
  exact ⟨c, rfl⟩

/-- the components do not depend on the order of the factors -/
theorem C_perm (spans : String → Bool) {l₁ l₂ : List SF} (p : l₁.Perm l₂) : (C spans l₁).Perm (C spans l₂) := by
  induction p with
  | nil => exact List.Perm.refl _
  | cons f _ ih =>
    rw [C_cons, C_cons]
    split
    · exact (ih.map _).append ih
    · exact ih.map _
  | swap a b l =>
    have hK := C_sorted spans l
    have hc := ins_ins_comm a.expr b.expr (C spans l) hK
    rw [C_cons, C_cons spans a (b :: l), C_cons, C_cons]
    by_cases ha : optionalSF spans a = true <;> by_cases hb : optionalSF spans b = true <;>
      simp only [ha, hb, if_true, if_false, List.map_append, Bool.false_eq_true]
    · rw [hc]
      simp only [List.append_assoc]
      apply List.Perm.append_left
      rw [← List.append_assoc, ← List.append_assoc]
      apply List.Perm.append_right
      exact List.perm_append_comm
    · rw [hc]
    · rw [hc]
    · rw [hc]
  | trans _ _ ih1 ih2 => exact ih1.trans ih2

theorem comps_perm (spans : String → Bool) {a b : ST} (p : a.factors.Perm b.factors) :
    (comps spans a).Perm (comps spans b) := C_perm spans p

/-- a term all of whose factors are mandatory has exactly one component -/
theorem C_mandatory (spans : String → Bool) (l : List SF) (h : ∀ f ∈ l, optionalSF spans f = false) :
    C spans l = [sortStrings (l.map (·.expr))] := by
  induction l with
  | nil => rfl
  | cons f r ih =>
    rw [C_cons, h f (by simp), ih (fun g hg => h g (by simp [hg]))]
    simp [sortStrings]

theorem perm_dup {α} (A B : List α) (c : α → α) :
    ((A ++ B).map c ++ (A ++ B)).Perm ((A.map c ++ A) ++ (B.map c ++ B)) := by
  simp only [List.map_append, List.append_assoc]
  apply List.Perm.append_left
  rw [← List.append_assoc, ← List.append_assoc]
  apply List.Perm.append_right
  exact List.perm_append_comm

/-- the list with the reduced factor `f` made full -/
def flip (f : SF) (l : List SF) : List SF := l.map (fun g => if g = f then ⟨f.expr, false⟩ else g)

theorem flip_not_mem (f : SF) (l : List SF) (h : f ∉ l) : flip f l = l := by
  induction l with
  | nil => rfl
  | cons g r ih =>
    simp only [List.mem_cons, not_or] at h
    have : ¬ g = f := fun e => h.1 e.symm
    simp only [flip, List.map_cons, this, if_false]
    exact congrArg _ (ih h.2)

/-- A.1 of the design: making the reduced factor `f` of a term full adds exactly the components of
the term without `f` -/
theorem C_flip (spans : String → Bool) (f : SF) (hr : f.reduced = true) (hs : spans f.expr = true)
    (l : List SF) (hmem : f ∈ l) (hnd : l.Nodup) :
    (C spans (flip f l)).Perm (C spans l ++ C spans (l.erase f)) := by
  induction l with
  | nil => simp at hmem
  | cons g r ih =>
    rw [List.nodup_cons] at hnd
    by_cases hg : g = f
    · subst hg
      have e1 : flip g (g :: r) = ⟨g.expr, false⟩ :: r := by
        have := flip_not_mem g r hnd.1
        simp only [flip, List.map_cons, if_true] at this ⊢
        rw [this]
      have o1 : optionalSF spans ⟨g.expr, false⟩ = true := by simp [optionalSF, hs]
      have o2 : optionalSF spans g = false := by simp [optionalSF, hr]
      rw [e1, C_cons, C_cons spans g r, o1, o2]
      simp
    · have hmem' : f ∈ r := by
        simp only [List.mem_cons] at hmem
        rcases hmem with h | h
        · exact absurd h.symm hg
        · exact h
      have ih' := ih hmem' hnd.2
      have e1 : flip f (g :: r) = g :: flip f r := by simp [flip, hg]
      have e2 : (g :: r).erase f = g :: r.erase f := by
        rw [List.erase_cons_tail]; simpa using hg
      rw [e1, e2, C_cons, C_cons spans g r, C_cons spans g (r.erase f)]
      by_cases hgo : optionalSF spans g = true
      · simp only [hgo, if_true]
        refine List.Perm.trans ?_ (perm_dup _ _ _)
        exact List.Perm.append (ih'.map _) ih'
      · simp only [hgo, Bool.false_eq_true, if_false]
        rw [← List.map_append]
        exact ih'.map _

open FormulaicVerif.Proofs.C02 in
theorem dedupSF_id {l : List SF} (h : l.Nodup) : dedupSF l = l := dedupSF_of_nodup h

theorem nodup_of_map_nodup {α β} (g : α → β) {l : List α} (h : (l.map g).Nodup) : l.Nodup := by
  induction l with
  | nil => simp
  | cons x r ih =>
    simp only [List.map_cons, List.nodup_cons] at h ⊢
    exact ⟨fun hx => h.1 (List.mem_map_of_mem hx), ih h.2⟩

/-- two duplicate-free lists, one contained in the other and not shorter, are permutations -/
theorem perm_of_subset_of_length {α} [DecidableEq α] {l₁ l₂ : List α} (h₁ : l₁.Nodup) (h₂ : l₂.Nodup)
    (hsub : l₁ ⊆ l₂) (hlen : l₂.length ≤ l₁.length) : l₁.Perm l₂ := by
  rw [List.perm_ext_iff_of_nodup h₁ h₂]
  intro a
  refine ⟨fun h => hsub h, fun h => ?_⟩
  apply Classical.byContradiction
  intro hna
  have hsub' : l₁ ⊆ l₂.erase a := by
    intro x hx
    have : x ≠ a := fun e => hna (e ▸ hx)
    exact (List.mem_erase_of_ne this).mpr (hsub hx)
  have := h₁.length_le_of_subset hsub'
  rw [List.length_erase_of_mem h] at this
  have : 0 < l₂.length := List.length_pos_of_mem h
  omega

theorem mergeCandidate_spec {st e : ST} {f : SF} (hst : st.factors.Nodup) (he : e.factors.Nodup)
    (h : mergeCandidate st e = some f) :
    f ∈ st.factors ∧ f.reduced = true ∧ f ∉ e.factors ∧ e.factors.Perm (st.factors.erase f) := by
  unfold mergeCandidate at h
  have hdn : (st.factors.filter (fun g => !e.factors.contains g)).Nodup := hst.sublist List.filter_sublist
  simp only [dedupSF_id hst, dedupSF_id he, dedupSF_id hdn] at h
  split at h
  · exact absurd h (by simp)
  · rename_i hcond
    simp only [not_or, Decidable.not_not] at hcond
    obtain ⟨hlen, _⟩ := hcond
    split at h
    · rename_i g hdiff
      split at h
      · rename_i hred
        simp only [Option.some.injEq] at h
        subst h
        have hg : g ∈ st.factors.filter (fun g => !e.factors.contains g) := by rw [hdiff]; simp
        obtain ⟨hg1, hg2⟩ := List.mem_filter.mp hg
        have hg2' : g ∉ e.factors := by simpa using hg2
        refine ⟨hg1, hred, hg2', ?_⟩
        apply List.Perm.symm
        apply perm_of_subset_of_length (hst.erase g) he
        · intro x hx
          obtain ⟨hne, hxm⟩ := (hst.mem_erase_iff).mp hx
          apply Classical.byContradiction
          intro hxe
          have : x ∈ st.factors.filter (fun g => !e.factors.contains g) :=
            List.mem_filter.mpr ⟨hxm, by simpa using hxe⟩
          rw [hdiff] at this
          simp only [List.mem_singleton] at this
          exact hne this
        · rw [List.length_erase_of_mem hg1]; omega
      · exact absurd h (by simp)
    · exact absurd h (by simp)

theorem flip_exprs (f : SF) (l : List SF) : (flip f l).map (·.expr) = l.map (·.expr) := by
  induction l with
  | nil => rfl
  | cons g r ih =>
    simp only [flip, List.map_cons] at ih ⊢
    rw [ih]
    congr 1
    split
    · rename_i h; rw [h]
    · rfl

theorem mkFull_factors {f : SF} {st : ST} (h : (st.factors.map (·.expr)).Nodup) :
    (mkFull f st).factors = flip f st.factors := by
  unfold mkFull ST.new
  simp only
  apply dedupSF_id
  apply nodup_of_map_nodup SF.expr
  have := flip_exprs f st.factors
  unfold flip at this
  rw [this]; exact h

theorem STWF_mkFull {spans : String → Bool} {f : SF} {st : ST} (h : STWF spans st) : STWF spans (mkFull f st) := by
  obtain ⟨h1, h2⟩ := h
  rw [STWF, mkFull_factors h1, flip_exprs]
  refine ⟨h1, ?_⟩
  intro g hg hr
  simp only [flip, List.mem_map] at hg
  obtain ⟨g0, hg0, rfl⟩ := hg
  by_cases hgf : g0 = f
  · simp [hgf] at hr
  · simp only [hgf, if_false] at hr ⊢
    exact h2 g0 hg0 hr

/-- C03.1  one greedy recombination preserves the multiset of structural components -/
theorem merge_comps {spans : String → Bool} {st e : ST} {f : SF} (hst : STWF spans st) (he : STWF spans e)
    (h : mergeCandidate st e = some f) :
    (comps spans (mkFull f st)).Perm (comps spans st ++ comps spans e) := by
  have n1 := nodup_of_map_nodup SF.expr hst.1
  have n2 := nodup_of_map_nodup SF.expr he.1
  obtain ⟨hm, hr, _, hp⟩ := mergeCandidate_spec n1 n2 h
  rw [comps_eq_C, comps_eq_C, comps_eq_C, mkFull_factors hst.1]
  exact (C_flip spans f hr (hst.2 f hm hr) st.factors hm n1).trans
    (List.Perm.append_left _ (C_perm spans hp.symm))

/-! ### ordered sets of pairwise different scoped terms -/

def Distinct (l : List ST) : Prop := l.Pairwise (fun a b => ST.eq a b = false)

theorem ST.eq_comm (a b : ST) : ST.eq a b = ST.eq b a := by
  simp only [ST.eq]
  exact Bool.beq_comm

theorem ST.eq_refl (a : ST) : ST.eq a a = true := by simp [ST.eq]

theorem osOfList_aux_of_distinct (l acc : List ST) (h : Distinct (acc ++ l)) :
    l.foldl (fun acc x => if osMem acc x then acc else acc ++ [x]) acc = acc ++ l := by
  induction l generalizing acc with
  | nil => simp
  | cons x r ih =>
    have hx : osMem acc x = false := by
      simp only [osMem, List.any_eq_false]
      intro y hy
      have := List.pairwise_append.mp h
      simpa using this.2.2 y hy x (by simp)
    simp only [List.foldl_cons, hx, Bool.false_eq_true, if_false]
    rw [ih (acc ++ [x]) (by simpa using h)]
    simp

theorem osOfList_of_distinct {l : List ST} (h : Distinct l) : osOfList l = l := by
  have := osOfList_aux_of_distinct l [] (by simpa using h)
  simpa [osOfList] using this

theorem Distinct.sublist {l₁ l₂ : List ST} (h : l₁.Sublist l₂) (hd : Distinct l₂) : Distinct l₁ :=
  List.Pairwise.sublist h hd

/-! ### components of lists of scoped terms -/

theorem compsAll_cons (spans : String → Bool) (a : ST) (r : List ST) :
    compsAll spans (a :: r) = comps spans a ++ compsAll spans r := by simp [compsAll]

theorem compsAll_append (spans : String → Bool) (a b : List ST) :
    compsAll spans (a ++ b) = compsAll spans a ++ compsAll spans b := by simp [compsAll]

theorem compsAll_perm (spans : String → Bool) {a b : List ST} (p : a.Perm b) :
    (compsAll spans a).Perm (compsAll spans b) := p.flatMap_right _

theorem mem_compsAll {spans : String → Bool} {l : List ST} {k : List String} :
    k ∈ compsAll spans l ↔ ∃ st ∈ l, k ∈ comps spans st := by simp [compsAll]

theorem comps_ne_nil (spans : String → Bool) (st : ST) : comps spans st ≠ [] := C_ne_nil spans st.factors

/-- scoped terms that Python's `==` identifies have the same components -/
theorem comps_perm_of_eq {spans : String → Bool} {a b : ST} (h : ST.eq a b = true) :
    (comps spans a).Perm (comps spans b) := comps_perm spans ((ST.eq_iff_perm a b).mp h)

theorem eq_false_of_disjoint {spans : String → Bool} {a b : ST}
    (h : ∀ k ∈ comps spans a, k ∉ comps spans b) : ST.eq a b = false := by
  cases he : ST.eq a b with
  | false => rfl
  | true =>
    exfalso
    have p := comps_perm_of_eq (spans := spans) he
    cases hc : comps spans a with
    | nil => exact comps_ne_nil spans a hc
    | cons k t =>
      have hk : k ∈ comps spans a := by rw [hc]; simp
      exact h k hk (p.mem_iff.mp hk)

def Good (spans : String → Bool) (l : List ST) : Prop :=
  (∀ st ∈ l, STWF spans st) ∧ (compsAll spans l).Nodup

theorem Good.distinct {spans : String → Bool} {l : List ST} (h : Good spans l) : Distinct l := by
  have hn := h.2
  clear h
  induction l with
  | nil => exact List.Pairwise.nil
  | cons a r ih =>
    rw [compsAll_cons, List.nodup_append] at hn
    refine List.Pairwise.cons ?_ (ih hn.2.1)
    intro b hb
    apply eq_false_of_disjoint (spans := spans)
    intro k hk hkb
    exact hn.2.2 k hk k (mem_compsAll.mpr ⟨b, hb, hkb⟩) rfl

theorem Good.of_perm {spans : String → Bool} {l₁ l₂ : List ST} (p : l₁.Perm l₂) (h : Good spans l₁) : Good spans l₂ :=
  ⟨fun st hst => h.1 st (p.mem_iff.mpr hst), (compsAll_perm spans p).nodup_iff.mp h.2⟩

/-- removing `e` from an ordered set of pairwise different terms -/
theorem compsAll_remove {spans : String → Bool} {terms : List ST} (hd : Distinct terms) {e : ST} (he : e ∈ terms) :
    (compsAll spans terms).Perm (comps spans e ++ compsAll spans (terms.filter (fun x => !osMem [e] x))) := by
  induction terms with
  | nil => simp at he
  | cons x r ih =>
    have hd' := List.pairwise_cons.mp hd
    have hmem1 : ∀ y, osMem [e] y = ST.eq e y := by intro y; simp [osMem]
    by_cases hxe : x = e
    · subst hxe
      have hkeep : r.filter (fun y => !osMem [x] y) = r := by
        rw [List.filter_eq_self]
        intro y hy
        simp [hmem1, hd'.1 y hy]
      simp only [List.filter_cons, hmem1, ST.eq_refl, Bool.not_true, Bool.false_eq_true, if_false]
      simp only [hmem1] at hkeep
      rw [hkeep, compsAll_cons]
    · have her : e ∈ r := by
        simp only [List.mem_cons] at he
        rcases he with h | h
        · exact absurd h.symm hxe
        · exact h
      have hxne : ST.eq e x = false := by rw [ST.eq_comm]; exact hd'.1 e her
      simp only [List.filter_cons, hmem1, hxne, Bool.not_false, if_true, compsAll_cons]
      have := ih hd'.2 her
      simp only [hmem1] at this
      refine (List.Perm.append_left _ this).trans ?_
      rw [← List.append_assoc, ← List.append_assoc]
      exact List.Perm.append_right _ List.perm_append_comm

/-! ### `_simplify_scoped_terms` preserves the components -/

theorem perm4 {α} [DecidableEq α] (E D S R : List α) :
    (((D ++ (S ++ E)) ++ R)).Perm ((E ++ D) ++ (S ++ R)) := by
  rw [List.perm_iff_count]; intro a; simp only [List.count_append]; omega

theorem simplifyLoop_comps (spans : String → Bool) (rec : List ST → Option (List ST))
    (hrec : ∀ arg r, rec arg = some r → Good spans arg →
      (compsAll spans r).Perm (compsAll spans arg) ∧ ∀ st ∈ r, STWF spans st)
    (todo terms out : List ST) (h : simplifyLoop rec todo terms = some out)
    (hg : Good spans (terms ++ todo)) :
    (compsAll spans out).Perm (compsAll spans (terms ++ todo)) ∧ ∀ st ∈ out, STWF spans st := by
  induction todo generalizing terms with
  | nil =>
    simp only [simplifyLoop, Option.some.injEq] at h
    subst h
    exact ⟨by rw [List.append_nil], fun st hst => hg.1 st (by simpa using hst)⟩
  | cons st rest ih =>
    simp only [simplifyLoop] at h
    have hdist := hg.distinct
    cases hf : findMerge st terms with
    | none =>
      simp only [hf] at h
      have hd1 : Distinct (terms ++ [st]) := by
        apply Distinct.sublist _ hdist
        exact List.Sublist.append_left (by simp) terms
      have e1 : osUnion terms [st] = terms ++ [st] := osOfList_of_distinct hd1
      rw [e1] at h
      have e2 : (terms ++ [st]) ++ rest = terms ++ st :: rest := by simp
      have := ih (terms ++ [st]) h (by rw [e2]; exact hg)
      rw [e2] at this
      exact this
    | some ef =>
      obtain ⟨e, f⟩ := ef
      simp only [hf] at h
      obtain ⟨hemem, hcand⟩ := findMerge_mem hf
      cases hr : rec (osUnion (osDiff terms [e]) [mkFull f st]) with
      | none => simp [hr] at h
      | some terms' =>
        simp only [hr] at h
        have hwf_st : STWF spans st := hg.1 st (by simp)
        have hwf_e : STWF spans e := hg.1 e (by simp [hemem])
        have hdt : Distinct terms := Distinct.sublist (List.sublist_append_left terms _) hdist
        -- the ordered set without `e`
        have hDsub : (terms.filter (fun x => !osMem [e] x)).Sublist terms := List.filter_sublist
        have hD : osDiff terms [e] = terms.filter (fun x => !osMem [e] x) :=
          osOfList_of_distinct (Distinct.sublist hDsub hdt)
        generalize hDdef : terms.filter (fun x => !osMem [e] x) = D at hD hDsub
        have hrem : (compsAll spans terms).Perm (comps spans e ++ compsAll spans D) := by
          rw [← hDdef]; exact compsAll_remove hdt hemem
        have hmerge := merge_comps hwf_st hwf_e hcand
        -- the total multiset of components
        have htot : (compsAll spans (terms ++ st :: rest)).Perm
            ((comps spans e ++ compsAll spans D) ++ (comps spans st ++ compsAll spans rest)) := by
          rw [compsAll_append, compsAll_cons]
          exact List.Perm.append_right _ hrem
        have hnd : ((comps spans e ++ compsAll spans D) ++ (comps spans st ++ compsAll spans rest)).Nodup :=
          htot.nodup_iff.mp hg.2
        -- the new term is different from everything that stays
        have hcompsm : (compsAll spans (D ++ [mkFull f st])).Perm
            (compsAll spans D ++ (comps spans st ++ comps spans e)) := by
          rw [compsAll_append]
          apply List.Perm.append_left
          simpa [compsAll] using hmerge
        have hargperm : (compsAll spans (D ++ [mkFull f st]) ++ compsAll spans rest).Perm
            ((comps spans e ++ compsAll spans D) ++ (comps spans st ++ compsAll spans rest)) :=
          (List.Perm.append_right _ hcompsm).trans (perm4 _ _ _ _)
        have hargnd : (compsAll spans (D ++ [mkFull f st])).Nodup :=
          (List.nodup_append.mp (hargperm.nodup_iff.mpr hnd)).1
        have hwfD : ∀ x ∈ D, STWF spans x := fun x hx => hg.1 x (by simp [hDsub.subset hx])
        have hgood_arg : Good spans (D ++ [mkFull f st]) := by
          refine ⟨?_, hargnd⟩
          intro x hx
          simp only [List.mem_append, List.mem_singleton] at hx
          rcases hx with hx | rfl
          · exact hwfD x hx
          · exact STWF_mkFull hwf_st
        have harg : osUnion (osDiff terms [e]) [mkFull f st] = D ++ [mkFull f st] := by
          rw [hD]; exact osOfList_of_distinct hgood_arg.distinct
        rw [harg] at hr
        obtain ⟨hp', hwf'⟩ := hrec _ _ hr hgood_arg
        have hgood' : Good spans (terms' ++ rest) := by
          refine ⟨?_, ?_⟩
          · intro x hx
            simp only [List.mem_append] at hx
            rcases hx with hx | hx
            · exact hwf' x hx
            · exact hg.1 x (by simp [hx])
          · rw [compsAll_append]
            exact ((List.Perm.append_right _ hp').trans hargperm).nodup_iff.mpr hnd
        obtain ⟨hpo, hwfo⟩ := ih terms' h hgood'
        refine ⟨?_, hwfo⟩
        refine hpo.trans ?_
        rw [compsAll_append]
        exact ((List.Perm.append_right _ hp').trans hargperm).trans htot.symm

theorem simplify_comps (spans : String → Bool) :
    ∀ (n : Nat) (sts r : List ST), simplify n sts = some r → Good spans sts →
      (compsAll spans r).Perm (compsAll spans sts) ∧ ∀ st ∈ r, STWF spans st := by
  intro n
  induction n with
  | zero => intro sts r h; simp [simplify] at h
  | succ n ih =>
    intro sts r h hg
    simp only [simplify] at h
    have hp := sortByLen_perm sts
    have := simplifyLoop_comps spans (simplify n) ih (sortByLen sts) [] r h
      (by simpa using Good.of_perm hp.symm hg)
    simp only [List.nil_append] at this
    exact ⟨this.1.trans (compsAll_perm spans hp), this.2⟩
/-! ### termination of the recursion of `_simplify_scoped_terms` -/

theorem length_osOfList_aux (l acc : List ST) :
    (l.foldl (fun acc x => if osMem acc x then acc else acc ++ [x]) acc).length ≤ acc.length + l.length := by
  induction l generalizing acc with
  | nil => simp
  | cons x r ih =>
    simp only [List.foldl_cons, List.length_cons]
    split
    · have := ih acc; omega
    · have := ih (acc ++ [x]); simp only [List.length_append, List.length_singleton] at this; omega

theorem length_osOfList (l : List ST) : (osOfList l).length ≤ l.length := by
  have := length_osOfList_aux l []
  simpa [osOfList] using this

theorem length_osDiff_mem {terms : List ST} {e : ST} (he : e ∈ terms) : (osDiff terms [e]).length + 1 ≤ terms.length := by
  unfold osDiff
  have h1 := length_osOfList (terms.filter (fun x => !osMem [e] x))
  have h2 : (terms.filter (fun x => !osMem [e] x)).length < terms.length := by
    apply List.length_filter_lt_length_iff_exists.mpr
    exact ⟨e, he, by simp [osMem, ST.eq]⟩
  omega

theorem length_osUnion_singleton (a : List ST) (x : ST) : (osUnion a [x]).length ≤ a.length + 1 := by
  have := length_osOfList (a ++ [x])
  simpa [osUnion] using this

theorem length_sortByLen (l : List ST) : (sortByLen l).length = l.length := (sortByLen_perm l).length_eq

theorem simplifyLoop_total (n : Nat) (rec : List ST → Option (List ST))
    (hrec : ∀ arg, arg.length + 1 ≤ n → ∃ r, rec arg = some r ∧ r.length ≤ arg.length)
    (todo terms : List ST) (hlen : terms.length + todo.length ≤ n) :
    ∃ out, simplifyLoop rec todo terms = some out ∧ out.length ≤ terms.length + todo.length := by
  induction todo generalizing terms with
  | nil => exact ⟨terms, rfl, by simp⟩
  | cons st rest ih =>
    simp only [simplifyLoop, List.length_cons] at hlen ⊢
    cases hf : findMerge st terms with
    | none =>
      have hu := length_osUnion_singleton terms st
      obtain ⟨out, h1, h2⟩ := ih (osUnion terms [st]) (by omega)
      exact ⟨out, h1, by omega⟩
    | some ef =>
      obtain ⟨e, f⟩ := ef
      obtain ⟨hemem, _⟩ := findMerge_mem hf
      have h1 := length_osDiff_mem hemem
      have h2 := length_osUnion_singleton (osDiff terms [e]) (mkFull f st)
      obtain ⟨terms', hr, hl⟩ := hrec (osUnion (osDiff terms [e]) [mkFull f st]) (by omega)
      simp only [hr]
      obtain ⟨out, h3, h4⟩ := ih terms' (by omega)
      exact ⟨out, h3, by omega⟩

theorem simplify_total : ∀ (n : Nat) (sts : List ST), sts.length + 1 ≤ n →
    ∃ r, simplify n sts = some r ∧ r.length ≤ sts.length := by
  intro n
  induction n with
  | zero => intro sts h; omega
  | succ n ih =>
    intro sts h
    simp only [simplify]
    have := simplifyLoop_total n (simplify n) ih (sortByLen sts) [] (by simp [length_sortByLen]; omega)
    simpa [length_sortByLen] using this

/-! ### the span of one term -/

open FormulaicVerif.Proofs.C02 in
theorem evaled_spec {c : Cache} {t : MTerm} {efs : List EvaledFactor} (h : evaledFactors c t = .ok efs) :
    (∀ f ∈ efs, c.get f.expr = .ok f) ∧ (efs.map (·.expr)).Sublist t := evaledFactors_spec h

/-- the factor expressions of each product of `_get_scoped_terms_spanned_by_evaled_factors` -/
def choiceExprs (efs : List EvaledFactor) : List (List String) :=
  (spannedChoices efs).map (fun ch => ch.map (·.expr))

/-- the downward closure of a term: the canonical components its factors span -/
def closure (efs : List EvaledFactor) : List (List String) := (choiceExprs efs).map sortStrings

def mkSF (c : Cache) (e : String) : SF := ⟨e, spansOf c e⟩

theorem spansOf_of_get {c : Cache} {f : EvaledFactor} (h : c.get f.expr = .ok f) : spansOf c f.expr = f.spansIntercept := by
  simp [spansOf, h]

theorem choice_spec {c : Cache} {efs : List EvaledFactor} (hget : ∀ f ∈ efs, c.get f.expr = .ok f)
    {ch : List SF} (hch : ch ∈ spannedChoices efs) :
    ch = (ch.map (·.expr)).map (mkSF c) ∧ (ch.map (·.expr)).Sublist (efs.map (·.expr)) := by
  induction efs generalizing ch with
  | nil => simp [spannedChoices] at hch; subst hch; simp
  | cons f r ih =>
    have ihr := fun {ch} (h : ch ∈ spannedChoices r) => ih (fun g hg => hget g (by simp [hg])) h
    have hsp := spansOf_of_get (hget f (by simp))
    simp only [spannedChoices] at hch
    have hcons : ∀ (b : Bool), f.spansIntercept = b → ∀ ch' ∈ spannedChoices r,
        (⟨f.expr, b⟩ :: ch' : List SF) = ((⟨f.expr, b⟩ :: ch' : List SF).map (·.expr)).map (mkSF c) ∧
        ((⟨f.expr, b⟩ :: ch' : List SF).map (·.expr)).Sublist ((f :: r).map (·.expr)) := by
      intro b hb ch' hch'
      obtain ⟨h1, h2⟩ := ihr hch'
      refine ⟨?_, ?_⟩
      · simp only [List.map_cons, mkSF, hsp, hb]
        exact congrArg _ h1
      · simp only [List.map_cons]; exact h2.cons_cons _
    have hskip : ∀ ch' ∈ spannedChoices r,
        ch' = (ch'.map (·.expr)).map (mkSF c) ∧ (ch'.map (·.expr)).Sublist ((f :: r).map (·.expr)) := by
      intro ch' hch'
      obtain ⟨h1, h2⟩ := ihr hch'
      exact ⟨h1, by simp only [List.map_cons]; exact h2.cons _⟩
    cases hk : f.kind with
    | constant v => simp only [hk] at hch; exact hskip ch hch
    | numerical =>
      simp only [hk] at hch
      split at hch
      · rename_i hs
        simp only [List.mem_append, List.mem_map] at hch
        rcases hch with ⟨ch', hch', rfl⟩ | hch
        · exact hcons true hs ch' hch'
        · exact hskip ch hch
      · rename_i hs
        simp only [List.mem_map] at hch
        obtain ⟨ch', hch', rfl⟩ := hch
        exact hcons false (by simpa using hs) ch' hch'
    | categorical =>
      simp only [hk] at hch
      split at hch
      · rename_i hs
        simp only [List.mem_append, List.mem_map] at hch
        rcases hch with ⟨ch', hch', rfl⟩ | hch
        · exact hcons true hs ch' hch'
        · exact hskip ch hch
      · rename_i hs
        simp only [List.mem_map] at hch
        obtain ⟨ch', hch', rfl⟩ := hch
        exact hcons false (by simpa using hs) ch' hch'

def isConst (f : EvaledFactor) : Bool := match f.kind with | .constant _ => true | _ => false

theorem choiceExprs_cons (f : EvaledFactor) (r : List EvaledFactor) :
    choiceExprs (f :: r) =
      if isConst f then choiceExprs r
      else if f.spansIntercept then (choiceExprs r).map (f.expr :: ·) ++ choiceExprs r
      else (choiceExprs r).map (f.expr :: ·) := by
  unfold choiceExprs isConst
  simp only [spannedChoices]
  cases hk : f.kind <;> simp only [Bool.false_eq_true, if_false, if_true] <;>
    (split <;> simp [List.map_append, List.map_map, Function.comp_def])

theorem choiceExprs_sublist {efs : List EvaledFactor} {k : List String} (hk : k ∈ choiceExprs efs) :
    k.Sublist (efs.map (·.expr)) := by
  induction efs generalizing k with
  | nil => simp [choiceExprs, spannedChoices] at hk; subst hk; simp
  | cons f r ih =>
    rw [choiceExprs_cons] at hk
    simp only [List.map_cons]
    split at hk
    · exact (ih hk).cons _
    · split at hk
      · simp only [List.mem_append, List.mem_map] at hk
        rcases hk with ⟨k', hk', rfl⟩ | hk
        · exact (ih hk').cons_cons _
        · exact (ih hk).cons _
      · simp only [List.mem_map] at hk
        obtain ⟨k', hk', rfl⟩ := hk
        exact (ih hk').cons_cons _

theorem closure_cons (f : EvaledFactor) (r : List EvaledFactor) :
    closure (f :: r) =
      if isConst f then closure r
      else if f.spansIntercept then (closure r).map (insertSorted f.expr) ++ closure r
      else (closure r).map (insertSorted f.expr) := by
  unfold closure
  rw [choiceExprs_cons]
  split
  · rfl
  · split <;> simp [List.map_append, List.map_map, Function.comp_def, sortStrings]

theorem mem_sortStrings {x : String} {l : List String} : x ∈ sortStrings l ↔ x ∈ l :=
  (sortStrings_perm l).mem_iff

theorem map_ins_nodup (x : String) (K : List (List String)) (hK : (K.map sortStrings).Nodup) :
    ((K.map sortStrings).map (insertSorted x)).Nodup := by
  induction K with
  | nil => simp
  | cons k r ih =>
    simp only [List.map_cons, List.nodup_cons] at hK ⊢
    refine ⟨?_, ih hK.2⟩
    intro hmem
    obtain ⟨k', hk', heq⟩ := List.mem_map.mp hmem
    obtain ⟨k0, hk0, rfl⟩ := List.mem_map.mp hk'
    have h1 : sortStrings (x :: k0) = sortStrings (x :: k) := heq
    have : (x :: k0).Perm (x :: k) := sortStrings_eq_iff_perm.mp h1
    apply hK.1
    rw [← sortStrings_eq_iff_perm.mpr this.cons_inv]
    exact List.mem_map_of_mem hk0

/-- the canonical components spanned by one term are pairwise different -/
theorem closure_nodup {efs : List EvaledFactor} (h : (efs.map (·.expr)).Nodup) : (closure efs).Nodup := by
  induction efs with
  | nil => simp [closure, choiceExprs, spannedChoices]
  | cons f r ih =>
    simp only [List.map_cons, List.nodup_cons] at h
    have ihr := ih h.2
    rw [closure_cons]
    split
    · exact ihr
    · have hmap : ((closure r).map (insertSorted f.expr)).Nodup := map_ins_nodup f.expr (choiceExprs r) ihr
      split
      · rw [List.nodup_append]
        refine ⟨hmap, ihr, ?_⟩
        intro a ha b hb hab
        subst hab
        simp only [closure, List.mem_map] at ha hb
        obtain ⟨_, ⟨k1, hk1, rfl⟩, hk1'⟩ := ha
        obtain ⟨k2, hk2, hk2'⟩ := hb
        have hin : f.expr ∈ sortStrings k2 := by
          rw [hk2', ← hk1']
          have : insertSorted f.expr (sortStrings k1) = sortStrings (f.expr :: k1) := rfl
          rw [this, mem_sortStrings]; simp
        rw [mem_sortStrings] at hin
        exact h.1 ((choiceExprs_sublist hk2).subset hin)
      · exact hmap

theorem nonConstant_cons (f : EvaledFactor) (r : List EvaledFactor) :
    nonConstant (f :: r) = if isConst f then nonConstant r else f :: nonConstant r := by
  unfold nonConstant isConst
  cases hk : f.kind <;> simp [hk]

/-- with rank reduction off, the single scoped term of `t` has exactly the components of `t`'s closure -/
theorem comps_fullScoped {c : Cache} {efs : List EvaledFactor} (hget : ∀ f ∈ efs, c.get f.expr = .ok f)
    (hnd : (efs.map (·.expr)).Nodup) : comps (spansOf c) (fullScoped efs) = closure efs := by
  rw [comps_eq_C, FormulaicVerif.Proofs.C02.fullScoped_factors hnd]
  clear hnd
  induction efs with
  | nil => rfl
  | cons f r ih =>
    have ihr := ih (fun g hg => hget g (by simp [hg]))
    have hsp := spansOf_of_get (hget f (by simp))
    rw [closure_cons, nonConstant_cons]
    by_cases hc : isConst f = true
    · simp only [hc, if_true]
      exact ihr
    · have hc' : isConst f = false := by simpa using hc
      simp only [hc', Bool.false_eq_true, if_false, List.map_cons]
      rw [C_cons, ihr]
      simp only [optionalSF, hsp, Bool.not_false, Bool.true_and]

/-! ### scoped terms in canonical form (every flag determined by the factor) -/

def key (st : ST) : List String := sortStrings (st.factors.map (·.expr))

def CanonST (c : Cache) (st : ST) : Prop :=
  st.factors = (st.factors.map (·.expr)).map (mkSF c) ∧ (st.factors.map (·.expr)).Nodup

theorem CanonST.mandatory {c : Cache} {st : ST} (h : CanonST c st) :
    ∀ f ∈ st.factors, optionalSF (spansOf c) f = false := by
  intro f hf
  rw [h.1] at hf
  simp only [List.mem_map] at hf
  obtain ⟨e, ⟨g, _, rfl⟩, rfl⟩ := hf
  simp [optionalSF, mkSF]

theorem CanonST.comps {c : Cache} {st : ST} (h : CanonST c st) : comps (spansOf c) st = [key st] := by
  rw [comps_eq_C, C_mandatory _ _ h.mandatory]; rfl

theorem CanonST.wf {c : Cache} {st : ST} (h : CanonST c st) : STWF (spansOf c) st := by
  refine ⟨h.2, ?_⟩
  intro f hf hr
  have := h.mandatory f hf
  simp only [optionalSF, hr, Bool.not_true, Bool.false_and] at this
  rw [h.1] at hf
  simp only [List.mem_map] at hf
  obtain ⟨e, ⟨g, _, rfl⟩, rfl⟩ := hf
  simpa [mkSF] using hr

theorem CanonST.eq_iff {c : Cache} {x y : ST} (hx : CanonST c x) (hy : CanonST c y) :
    ST.eq y x = true ↔ key y = key x := by
  rw [ST.eq_iff_perm]
  unfold key
  rw [sortStrings_eq_iff_perm]
  constructor
  · intro p; exact p.map _
  · intro p; rw [hx.1, hy.1]; exact p.map _

theorem osMem_iff {c : Cache} {spanned : List ST} (hs : ∀ y ∈ spanned, CanonST c y) {x : ST} (hx : CanonST c x) :
    osMem spanned x = true ↔ key x ∈ spanned.map key := by
  simp only [osMem, List.any_eq_true, List.mem_map]
  constructor
  · rintro ⟨y, hy, he⟩; exact ⟨y, hy, (CanonST.eq_iff hx (hs y hy)).mp he⟩
  · rintro ⟨y, hy, he⟩; exact ⟨y, hy, (CanonST.eq_iff hx (hs y hy)).mpr he⟩

theorem distinct_of_keys {c : Cache} {L : List ST} (hc : ∀ x ∈ L, CanonST c x) (hn : (L.map key).Nodup) : Distinct L := by
  induction L with
  | nil => exact List.Pairwise.nil
  | cons a r ih =>
    simp only [List.map_cons, List.nodup_cons] at hn
    refine List.Pairwise.cons ?_ (ih (fun x hx => hc x (by simp [hx])) hn.2)
    intro b hb
    cases he : ST.eq a b with
    | false => rfl
    | true =>
      exfalso
      have := (CanonST.eq_iff (hc b (by simp [hb])) (hc a (by simp))).mp he
      exact hn.1 (this ▸ List.mem_map_of_mem hb)

theorem compsAll_canon {c : Cache} {L : List ST} (hc : ∀ x ∈ L, CanonST c x) :
    compsAll (spansOf c) L = L.map key := by
  induction L with
  | nil => rfl
  | cons a r ih =>
    rw [compsAll_cons, (hc a (by simp)).comps, ih (fun x hx => hc x (by simp [hx]))]
    rfl

/-- `_get_scoped_terms_spanned_by_evaled_factors`: one canonical scoped term per component of the closure -/
theorem spannedBy_spec {c : Cache} {efs : List EvaledFactor} (hget : ∀ f ∈ efs, c.get f.expr = .ok f)
    (hnd : (efs.map (·.expr)).Nodup) :
    (∀ x ∈ spannedBy efs, CanonST c x) ∧ (spannedBy efs).map key = closure efs ∧ Distinct (spannedBy efs) := by
  have hnew : ∀ ch ∈ spannedChoices efs, ST.new ch (scaleOf efs) = ⟨ch, scaleOf efs⟩ ∧
      CanonST c ⟨ch, scaleOf efs⟩ := by
    intro ch hch
    obtain ⟨h1, h2⟩ := choice_spec hget hch
    have hn : (ch.map (·.expr)).Nodup := h2.nodup hnd
    refine ⟨?_, h1, hn⟩
    unfold ST.new
    rw [dedupSF_id (nodup_of_map_nodup SF.expr hn)]
  have hL : (spannedChoices efs).map (fun fs => ST.new fs (scaleOf efs)) =
      (spannedChoices efs).map (fun fs => (⟨fs, scaleOf efs⟩ : ST)) :=
    List.map_congr_left (fun ch hch => (hnew ch hch).1)
  have hcan : ∀ x ∈ (spannedChoices efs).map (fun fs => (⟨fs, scaleOf efs⟩ : ST)), CanonST c x := by
    intro x hx
    obtain ⟨ch, hch, rfl⟩ := List.mem_map.mp hx
    exact (hnew ch hch).2
  have hkeys : ((spannedChoices efs).map (fun fs => (⟨fs, scaleOf efs⟩ : ST))).map key = closure efs := by
    simp only [List.map_map, closure, choiceExprs]
    rfl
  have hd : Distinct ((spannedChoices efs).map (fun fs => (⟨fs, scaleOf efs⟩ : ST))) :=
    distinct_of_keys hcan (by rw [hkeys]; exact closure_nodup hnd)
  have hsp : spannedBy efs = (spannedChoices efs).map (fun fs => (⟨fs, scaleOf efs⟩ : ST)) := by
    unfold spannedBy
    rw [hL]
    exact osOfList_of_distinct hd
  rw [hsp]
  exact ⟨hcan, hkeys, hd⟩

/-! ### one term of `_get_scoped_terms` with rank reduction -/

def termClosure (c : Cache) (t : MTerm) : List (List String) :=
  match evaledFactors c t with
  | .ok [] => []
  | .ok efs => closure efs
  | .error _ => []

theorem filter_map_key (L : List ST) (p : ST → Bool) (q : List String → Bool) (h : ∀ x ∈ L, p x = q (key x)) :
    (L.filter p).map key = (L.map key).filter q := by
  induction L with
  | nil => rfl
  | cons a r ih =>
    simp only [List.filter_cons, List.map_cons, h a (by simp)]
    have := ih (fun x hx => h x (by simp [hx]))
    split <;> simp [this]

theorem scopeTerm_true {c : Cache} {spanned : List ST} {t : MTerm} {sts spanned' : List ST}
    (h : scopeTerm c true spanned t = .ok (sts, spanned'))
    (hs : ∀ y ∈ spanned, CanonST c y) (ht : t.Nodup)
    (hsc : ∀ efs, evaledFactors c t = .ok efs → scaleOf efs ≠ 0) :
    (∀ y ∈ spanned', CanonST c y) ∧
    spanned'.map key = spanned.map key ++ (termClosure c t).filter (fun k => !(spanned.map key).contains k) ∧
    (compsAll (spansOf c) sts).Perm ((termClosure c t).filter (fun k => !(spanned.map key).contains k)) := by
  unfold scopeTerm at h
  cases he : evaledFactors c t with
  | error x => simp [he] at h
  | ok efs =>
    cases efs with
    | nil =>
      simp only [he, Except.ok.injEq, Prod.mk.injEq] at h
      obtain ⟨rfl, rfl⟩ := h
      refine ⟨hs, ?_, ?_⟩ <;> simp [termClosure, he, compsAll]
    | cons f r =>
      simp only [he, if_true] at h
      obtain ⟨hget, hsub⟩ := evaled_spec he
      have hnd : ((f :: r).map (·.expr)).Nodup := hsub.nodup ht
      obtain ⟨hcan, hkeys, hdist⟩ := spannedBy_spec hget hnd
      have htc : termClosure c t = closure (f :: r) := by simp [termClosure, he]
      -- the part of the span that is new
      have hfsub : ((spannedBy (f :: r)).filter (fun x => !osMem spanned x)).Sublist (spannedBy (f :: r)) :=
        List.filter_sublist
      have hdiff : osDiff (spannedBy (f :: r)) spanned = (spannedBy (f :: r)).filter (fun x => !osMem spanned x) :=
        osOfList_of_distinct (Distinct.sublist hfsub hdist)
      generalize hTS : (spannedBy (f :: r)).filter (fun x => !osMem spanned x) = TS at hdiff hfsub
      have hTScan : ∀ x ∈ TS, CanonST c x := fun x hx => hcan x (hfsub.subset hx)
      have hTSkeys : TS.map key = (closure (f :: r)).filter (fun k => !(spanned.map key).contains k) := by
        rw [← hTS, ← hkeys]
        apply filter_map_key
        intro x hx
        congr 1
        have := osMem_iff hs (hcan x hx)
        cases hm : osMem spanned x
        · have : ¬ key x ∈ spanned.map key := fun hk => by simpa [hm] using this.mpr hk
          simpa using this
        · have : key x ∈ spanned.map key := this.mp hm
          simpa using this
      have hTSnd : (TS.map key).Nodup := by
        rw [hTSkeys]; exact (closure_nodup hnd).sublist List.filter_sublist
      have hgood : Good (spansOf c) TS := ⟨fun x hx => (hTScan x hx).wf, by rw [compsAll_canon hTScan]; exact hTSnd⟩
      rw [hdiff] at h
      cases hsim : simplify (simplifyFuel TS) TS with
      | none => simp [hsim] at h
      | some out =>
        simp only [hsim, Except.ok.injEq, Prod.mk.injEq] at h
        obtain ⟨rfl, rfl⟩ := h
        have hscale : ∀ x ∈ TS, x.scale ≠ 0 := by
          intro x hx
          rw [spannedBy_scale (hfsub.subset hx)]
          exact hsc _ he
        have hfil : TS.filter (fun st => st.scale ≠ 0) = TS := by
          rw [List.filter_eq_self]
          intro x hx
          simpa using hscale x hx
        refine ⟨?_, ?_, ?_⟩
        · intro y hy
          rw [hfil] at hy
          simp only [List.mem_append] at hy
          rcases hy with hy | hy
          · exact hs y hy
          · exact hTScan y hy
        · rw [hfil, List.map_append, hTSkeys, htc]
        · have := (simplify_comps (spansOf c) _ _ _ hsim hgood).1
          rw [compsAll_canon hTScan, hTSkeys] at this
          rw [htc]; exact this

/-! ### the whole term list -/

def newKeys (c : Cache) : List (List String) → List MTerm → List (List String)
  | _, [] => []
  | keys, t :: ts =>
    (termClosure c t).filter (fun k => !keys.contains k) ++
      newKeys c (keys ++ (termClosure c t).filter (fun k => !keys.contains k)) ts

theorem getScopedTerms_true {c : Cache} {ts : List MTerm} {spanned : List ST} {res : List (MTerm × List ST)}
    (h : getScopedTerms c true spanned ts = .ok res)
    (hs : ∀ y ∈ spanned, CanonST c y) (hwf : ∀ t ∈ ts, t.Nodup)
    (hsc : ∀ t ∈ ts, ∀ efs, evaledFactors c t = .ok efs → scaleOf efs ≠ 0) :
    (compsAll (spansOf c) (res.flatMap (·.2))).Perm (newKeys c (spanned.map key) ts) := by
  induction ts generalizing spanned res with
  | nil => simp [getScopedTerms] at h; subst h; simp [newKeys, compsAll]
  | cons t r ih =>
    simp only [getScopedTerms] at h
    cases hst : scopeTerm c true spanned t with
    | error e => simp [hst] at h
    | ok p =>
      obtain ⟨sts, sp'⟩ := p
      simp only [hst] at h
      cases hr : getScopedTerms c true sp' r with
      | error e => simp [hr] at h
      | ok rest =>
        simp only [hr, Except.ok.injEq] at h
        subst h
        obtain ⟨h1, h2, h3⟩ := scopeTerm_true hst hs (hwf t (by simp)) (hsc t (by simp))
        have := ih hr h1 (fun t' ht' => hwf t' (by simp [ht'])) (fun t' ht' => hsc t' (by simp [ht']))
        rw [h2] at this
        simp only [List.flatMap_cons, newKeys]
        have e : compsAll (spansOf c) (sts ++ rest.flatMap (·.2)) =
            compsAll (spansOf c) sts ++ compsAll (spansOf c) (rest.flatMap (·.2)) := compsAll_append _ _ _
        rw [e]
        exact h3.append this

theorem termClosure_nodup {c : Cache} {t : MTerm} (ht : t.Nodup) : (termClosure c t).Nodup := by
  unfold termClosure
  cases he : evaledFactors c t with
  | error x => simp
  | ok efs =>
    cases efs with
    | nil => simp
    | cons f r => exact closure_nodup ((evaled_spec he).2.nodup ht)

theorem newKeys_spec (c : Cache) (ts : List MTerm) (keys : List (List String)) (hwf : ∀ t ∈ ts, t.Nodup) :
    (newKeys c keys ts).Nodup ∧
    ∀ k, k ∈ newKeys c keys ts ↔ (k ∈ ts.flatMap (termClosure c) ∧ k ∉ keys) := by
  induction ts generalizing keys with
  | nil => simp [newKeys]
  | cons t r ih =>
    obtain ⟨ih1, ih2⟩ := ih (keys ++ (termClosure c t).filter (fun k => !keys.contains k))
      (fun t' ht' => hwf t' (by simp [ht']))
    have hK : ((termClosure c t).filter (fun k => !keys.contains k)).Nodup :=
      (termClosure_nodup (hwf t (by simp))).sublist List.filter_sublist
    simp only [newKeys]
    refine ⟨?_, ?_⟩
    · rw [List.nodup_append]
      refine ⟨hK, ih1, ?_⟩
      intro a ha b hb hab
      subst hab
      have := ((ih2 a).mp hb).2
      exact this (List.mem_append_right _ ha)
    · intro k
      simp only [List.mem_append, ih2, List.mem_filter, List.flatMap_cons, not_or]
      constructor
      · rintro (⟨h1, h2⟩ | ⟨h1, h2, _⟩)
        · exact ⟨.inl h1, by simpa using h2⟩
        · exact ⟨.inr h1, h2⟩
      · rintro ⟨h1 | h1, h2⟩
        · exact .inl ⟨h1, by simpa using h2⟩
        · by_cases hk : k ∈ termClosure c t
          · exact .inl ⟨hk, by simpa using h2⟩
          · exact .inr ⟨h1, h2, fun h => hk h.1⟩

theorem getScopedTerms_false {c : Cache} {ts : List MTerm} {spanned : List ST} {res : List (MTerm × List ST)}
    (h : getScopedTerms c false spanned ts = .ok res) (hwf : ∀ t ∈ ts, t.Nodup) :
    compsAll (spansOf c) (res.flatMap (·.2)) = ts.flatMap (termClosure c) := by
  induction ts generalizing spanned res with
  | nil => simp [getScopedTerms] at h; subst h; simp [compsAll]
  | cons t r ih =>
    simp only [getScopedTerms] at h
    cases hst : scopeTerm c false spanned t with
    | error e => simp [hst] at h
    | ok p =>
      obtain ⟨sts, sp'⟩ := p
      simp only [hst] at h
      cases hr : getScopedTerms c false sp' r with
      | error e => simp [hr] at h
      | ok rest =>
        simp only [hr, Except.ok.injEq] at h
        subst h
        have ihr := ih hr (fun t' ht' => hwf t' (by simp [ht']))
        simp only [List.flatMap_cons]
        have e : compsAll (spansOf c) (sts ++ rest.flatMap (·.2)) =
            compsAll (spansOf c) sts ++ compsAll (spansOf c) (rest.flatMap (·.2)) := compsAll_append _ _ _
        rw [e, ihr]
        congr 1
        obtain ⟨efs, hefs, h0, h1, _⟩ := FormulaicVerif.Proofs.C02.scopeTerm_spec hst
        cases efs with
        | nil => rw [h0 rfl]; simp [termClosure, hefs, compsAll]
        | cons f r' =>
          rw [h1 (by simp) rfl]
          obtain ⟨hget, hsub⟩ := evaled_spec hefs
          have := comps_fullScoped hget (hsub.nodup (hwf t (by simp)))
          simp [compsAll, this, termClosure, hefs]

theorem nodup_eraseDups {α} [BEq α] [LawfulBEq α] : ∀ (n : Nat) (l : List α), l.length ≤ n → l.eraseDups.Nodup := by
  intro n
  induction n with
  | zero =>
    intro l hl
    have : l = [] := List.length_eq_zero_iff.mp (by omega)
    subst this; simp
  | succ n ih =>
    intro l hl
    cases l with
    | nil => simp
    | cons a r =>
      rw [List.eraseDups_cons, List.nodup_cons]
      refine ⟨?_, ih _ ?_⟩
      · rw [List.mem_eraseDups]
        simp
      · have := List.length_filter_le (fun b => !b == a) r
        simp only [List.length_cons] at hl
        omega

/-! ### every emitted scoped term lists each factor once -/

def ExprNodup (st : ST) : Prop := (st.factors.map (·.expr)).Nodup

theorem ExprNodup.mkFull {f : SF} {st : ST} (h : ExprNodup st) : ExprNodup (mkFull f st) := by
  unfold ExprNodup at h ⊢
  rw [mkFull_factors h, flip_exprs]; exact h

theorem scopeTerm_exprNodup {c : Cache} {efr : Bool} {spanned : List ST} {t : MTerm} {sts spanned' : List ST}
    (h : scopeTerm c efr spanned t = .ok (sts, spanned')) (ht : t.Nodup) : ∀ st ∈ sts, ExprNodup st := by
  unfold scopeTerm at h
  cases he : evaledFactors c t with
  | error x => simp [he] at h
  | ok efs =>
    cases efs with
    | nil =>
      simp only [he, Except.ok.injEq, Prod.mk.injEq] at h
      rw [← h.1]; simp
    | cons f r =>
      simp only [he] at h
      obtain ⟨hget, hsub⟩ := evaled_spec he
      have hnd : ((f :: r).map (·.expr)).Nodup := hsub.nodup ht
      cases efr with
      | false =>
        simp only [Bool.false_eq_true, if_false, Except.ok.injEq, Prod.mk.injEq] at h
        rw [← h.1]
        intro st hst
        simp only [List.mem_singleton] at hst
        subst hst
        unfold ExprNodup
        rw [FormulaicVerif.Proofs.C02.fullScoped_factors hnd, List.map_map]
        have hsub2 : ((nonConstant (f :: r)).map (·.expr)).Sublist ((f :: r).map (·.expr)) := by
          unfold nonConstant; exact (List.filter_sublist).map _
        exact hsub2.nodup hnd
      | true =>
        simp only [if_true] at h
        cases hs : simplify (simplifyFuel (osDiff (spannedBy (f :: r)) spanned)) (osDiff (spannedBy (f :: r)) spanned) with
        | none => simp [hs] at h
        | some out =>
          simp only [hs, Except.ok.injEq, Prod.mk.injEq] at h
          rw [← h.1]
          apply simplify_all ExprNodup (fun _ _ hst => hst.mkFull) _ _ _ hs
          intro st hst
          exact ((spannedBy_spec hget hnd).1 st (mem_osDiff hst)).2

theorem getScopedTerms_exprNodup {c : Cache} {efr : Bool} {ts : List MTerm} {spanned : List ST}
    {res : List (MTerm × List ST)} (h : getScopedTerms c efr spanned ts = .ok res) (hwf : ∀ t ∈ ts, t.Nodup) :
    ∀ st ∈ res.flatMap (·.2), ExprNodup st := by
  intro st hst
  obtain ⟨x, hx, hstx⟩ := List.mem_flatMap.mp hst
  obtain ⟨h1, h2⟩ := FormulaicVerif.Proofs.C02.getScopedTerms_spec h
  obtain ⟨sp, sp', hsc⟩ := h2 x hx
  have hxt : x.1 ∈ ts := by rw [← h1]; exact List.mem_map_of_mem hx
  exact scopeTerm_exprNodup hsc (hwf _ hxt) st hstx

/-! ### characterisation of the raw components -/

theorem filter_mem_rawComps (spans : String → Bool) (l : List SF) (p : SF → Bool)
    (hp : ∀ f ∈ l, optionalSF spans f = false → p f = true) :
    (l.filter p).map (·.expr) ∈ rawComps spans l := by
  induction l with
  | nil => simp [rawComps]
  | cons f r ih =>
    have ihr := ih (fun g hg => hp g (by simp [hg]))
    simp only [rawComps]
    by_cases ho : optionalSF spans f = true
    · simp only [ho, if_true, List.mem_append, List.mem_map, List.filter_cons]
      by_cases hpf : p f = true
      · left; exact ⟨_, ihr, by simp [hpf]⟩
      · right; simpa [hpf] using ihr
    · have ho' : optionalSF spans f = false := by simpa using ho
      have hpf := hp f (by simp) ho'
      simp only [ho', Bool.false_eq_true, if_false, List.mem_map, List.filter_cons, hpf, if_true, List.map_cons]
      exact ⟨_, ihr, rfl⟩

theorem rawComps_spec (spans : String → Bool) (l : List SF) {c : List String} (hc : c ∈ rawComps spans l) :
    c.Sublist (l.map (·.expr)) ∧ ∀ f ∈ l, optionalSF spans f = false → f.expr ∈ c := by
  induction l generalizing c with
  | nil => simp [rawComps] at hc; subst hc; simp
  | cons f r ih =>
    simp only [rawComps] at hc
    by_cases ho : optionalSF spans f = true
    · simp only [ho, if_true, List.mem_append, List.mem_map] at hc
      rcases hc with ⟨c', hc', rfl⟩ | hc
      · obtain ⟨h1, h2⟩ := ih hc'
        refine ⟨by simpa using h1.cons_cons f.expr, ?_⟩
        intro g hg hgo
        simp only [List.mem_cons] at hg ⊢
        rcases hg with rfl | hg
        · exact .inl rfl
        · exact .inr (h2 g hg hgo)
      · obtain ⟨h1, h2⟩ := ih hc
        refine ⟨by simpa using h1.cons f.expr, ?_⟩
        intro g hg hgo
        simp only [List.mem_cons] at hg
        rcases hg with rfl | hg
        · rw [ho] at hgo; exact absurd hgo (by simp)
        · exact h2 g hg hgo
    · have ho' : optionalSF spans f = false := by simpa using ho
      simp only [ho', Bool.false_eq_true, if_false, List.mem_map] at hc
      obtain ⟨c', hc', rfl⟩ := hc
      obtain ⟨h1, h2⟩ := ih hc'
      refine ⟨by simpa using h1.cons_cons f.expr, ?_⟩
      intro g hg hgo
      simp only [List.mem_cons] at hg ⊢
      rcases hg with rfl | hg
      · exact .inl rfl
      · exact .inr (h2 g hg hgo)

/-- two positions of a list whose flat-map has no duplicates carry disjoint images -/
theorem disjoint_of_nodup_flatMap {α β} (f : α → List β) (l : List α) (h : (l.flatMap f).Nodup)
    (a b : Fin l.length) (hab : a ≠ b) : ∀ x ∈ f l[a], x ∉ f l[b] := by
  induction l with
  | nil => exact a.elim0
  | cons y r ih =>
    simp only [List.flatMap_cons, List.nodup_append] at h
    obtain ⟨h1, h2, h3⟩ := h
    intro x hxa hxb
    cases a using Fin.cases with
    | zero =>
      cases b using Fin.cases with
      | zero => exact hab rfl
      | succ b' =>
        simp only [Fin.getElem_fin, Fin.val_zero, List.getElem_cons_zero, Fin.val_succ, List.getElem_cons_succ] at hxa hxb
        exact h3 x hxa x (List.mem_flatMap.mpr ⟨_, List.getElem_mem _, hxb⟩) rfl
    | succ a' =>
      cases b using Fin.cases with
      | zero =>
        simp only [Fin.getElem_fin, Fin.val_zero, List.getElem_cons_zero, Fin.val_succ, List.getElem_cons_succ] at hxa hxb
        exact h3 x hxb x (List.mem_flatMap.mpr ⟨_, List.getElem_mem _, hxa⟩) rfl
      | succ b' =>
        simp only [Fin.getElem_fin, Fin.val_succ, List.getElem_cons_succ] at hxa hxb
        exact ih h2 a' b' (fun e => hab (by rw [e])) x hxa hxb


end FormulaicVerif.Proofs.C03
