import FormulaicVerif.Props.C19
import FormulaicVerif.Spec.Variables
/-! Helper lemmas for C17: the three named layers, the local environment of `stateful_eval`,
and what removing data columns does to lookups. Not obligations. -/
namespace FormulaicVerif.Proofs.C17
open FormulaicVerif.Model.Variables FormulaicVerif.Model.LMap FormulaicVerif.Spec.Variables
open FormulaicVerif.Proofs.C19 (lookup_dictSet)
variable {ν : Type}

/-! ### the layered context -/
theorem lookup_append_none {γ : Type} (a b : List (String × γ)) (k : String) :
    (a ++ b).lookup k = match a.lookup k with | some v => some v | none => b.lookup k := by
  induction a with
  | nil => rfl
  | cons kv r ih =>
    obtain ⟨k0, v0⟩ := kv
    simp only [List.cons_append, List.lookup]
    cases k == k0 <;> simp [ih]

/-- the value found inside the caller's context (derived from C19: `getNamed_fst`, `get_eq_lookup_flat`) -/
theorem context_getNamed_fst (L : Layers ν) (path : List String) (here : Option String) (k : String) :
    (L.context.getNamed path here k).map (·.1) = (contextItems L).lookup k := by
  rw [FormulaicVerif.Proofs.C19.getNamed_fst, FormulaicVerif.Proofs.C19.get_eq_lookup_flat]; rfl

theorem getNamed_top3 (A B C : Layer ν) (k : String) :
    (Layer.lm none [] [A, B, C]).getNamed [] none k =
      match A.getNamed [] none k with
      | some x => some x
      | none => match B.getNamed [] none k with
        | some x => some x
        | none => match C.getNamed [] none k with
          | some x => some x
          | none => none := by
  have hj : joinPath ([] : List String) = none := rfl
  have n0 : named (none : Option String) = none := rfl
  simp only [Layer.getNamed, n0, hj, List.lookup, getNamedL]
  cases A.getNamed [] none k <;> cases B.getNamed [] none k <;> cases C.getNamed [] none k <;> rfl

theorem getNamed_named_single (n : String) (hn : named (some n) = some n) (l : Layer ν)
    (here : Option String) (k : String) :
    (Layer.lm (some n) [] [l]).getNamed [] here k = l.getNamed [n] (joinPath [n]) k := by
  have hl : ([] : List String) ++ [n] = [n] := rfl
  simp only [Layer.getNamed, hn, hl, List.lookup, getNamedL]
  cases l.getNamed [n] (joinPath [n]) k <;> rfl

theorem getNamed_dict (d : List (String × ν)) (path : List String) (here : Option String) (k : String) :
    (Layer.dict d).getNamed path here k = (d.lookup k).map (fun v => (v, here)) := by
  simp only [Layer.getNamed]

theorem getWithLayerName_lm (L : Layers ν) (k : String) :
    L.lm.getWithLayerName k = firstLayer L k := by
  have hd : joinPath ["data"] = some "data" := by decide
  have hc : joinPath ["context"] = some "context" := by decide
  have ht : joinPath ["transforms"] = some "transforms" := by decide
  have h0 : (L.lm.getWithLayerName k) =
      (Layer.lm none [] [.lm (some "data") [] [.dict L.data], .lm (some "context") [] [L.context],
        .lm (some "transforms") [] [.dict L.transforms]]).getNamed [] none k := rfl
  rw [h0, getNamed_top3, getNamed_named_single "data" (by decide), getNamed_named_single "context" (by decide),
    getNamed_named_single "transforms" (by decide), getNamed_dict, getNamed_dict, hd, hc, ht]
  simp only [firstLayer]
  cases h1 : L.data.lookup k <;> cases h2 : L.context.getNamed ["context"] (some "context") k <;>
    cases h3 : L.transforms.lookup k <;> rfl

/-- derived from C19.4a (`lm_lookup_topfirst`) -/
theorem get_lm (L : Layers ν) (k : String) : L.lm.get k = valueOf L k := by
  have := (FormulaicVerif.Props.C19.lm_lookup_topfirst L.lm).1 k
  simpa [Layers.lm, flatL, Layer.flat, valueOf, contextItems, List.append_assoc] using this

theorem valueOf_eq (L : Layers ν) (k : String) :
    valueOf L k = match L.data.lookup k with
      | some v => some v
      | none => match (contextItems L).lookup k with
        | some v => some v
        | none => L.transforms.lookup k := by
  simp only [valueOf, List.append_assoc, lookup_append_none]

theorem firstLayer_fst (L : Layers ν) (k : String) : (firstLayer L k).map (·.1) = valueOf L k := by
  rw [valueOf_eq]; simp only [firstLayer]
  have hc := context_getNamed_fst L ["context"] (some "context") k
  cases L.data.lookup k with
  | some v => rfl
  | none =>
    simp only
    cases hx : L.context.getNamed ["context"] (some "context") k with
    | some x => rw [hx] at hc; simp only [Option.map] at hc; rw [← hc]; rfl
    | none =>
      rw [hx] at hc; simp only [Option.map] at hc; rw [← hc]
      cases L.transforms.lookup k <;> rfl

theorem lookup_isSome_iff_mem {γ : Type} (d : List (String × γ)) (k : String) :
    (∃ v, d.lookup k = some v) ↔ k ∈ d.map (·.1) := by
  induction d with
  | nil => simp
  | cons kv r ih =>
    obtain ⟨k0, v0⟩ := kv
    by_cases h : k = k0
    · subst h; simp [List.lookup]
    · have hb : (k == k0) = false := by simpa using h
      simp [List.lookup, hb, ih, h]

theorem lookup_none_iff_not_mem {γ : Type} (d : List (String × γ)) (k : String) :
    d.lookup k = none ↔ k ∉ d.map (·.1) := by
  rw [← lookup_isSome_iff_mem]
  cases d.lookup k <;> simp

theorem firstLayer_data (L : Layers ν) (k : String) (h : k ∈ dataKeys L) :
    ∃ v, firstLayer L k = some (v, some "data") := by
  obtain ⟨v, hv⟩ := (lookup_isSome_iff_mem L.data k).2 h
  exact ⟨v, by simp [firstLayer, hv]⟩

/-! ### filtering the data -/
theorem lookup_filter_keys {γ : Type} (d : List (String × γ)) (p : String → Bool) (k : String) :
    (d.filter (fun kv => p kv.1)).lookup k = if p k then d.lookup k else none := by
  induction d with
  | nil => simp
  | cons kv r ih =>
    obtain ⟨k0, v0⟩ := kv
    simp only [List.filter_cons]
    by_cases hp : p k0 = true
    · simp only [hp, if_true, List.lookup]
      by_cases h : k = k0
      · subst h; simp [hp]
      · have hb : (k == k0) = false := by simpa using h
        simp only [hb, ih]
    · have hp' : p k0 = false := by simpa using hp
      simp only [hp', Bool.false_eq_true, if_false, List.lookup, ih]
      by_cases h : k = k0
      · subst h; simp [hp']
      · have hb : (k == k0) = false := by simpa using h
        simp only [hb]

theorem restrict_data_lookup (L : Layers ν) (keep : List String) (k : String) :
    (L.restrict keep).data.lookup k = if keep.contains k then L.data.lookup k else none := by
  simpa [Layers.restrict] using lookup_filter_keys L.data (fun x => keep.contains x) k

theorem remove_data_lookup (L : Layers ν) (v k : String) :
    (L.remove v).data.lookup k = if k == v then none else L.data.lookup k := by
  have := lookup_filter_keys L.data (fun x => !(x == v)) k
  simp only [Layers.remove]
  rw [this]
  cases k == v <;> simp

/-- a key that is kept (or is not a data column) is looked up as before -/
theorem valueOf_restrict (L : Layers ν) (keep : List String) (k : String)
    (h : k ∈ dataKeys L → k ∈ keep) : valueOf (L.restrict keep) k = valueOf L k := by
  rw [valueOf_eq, valueOf_eq, restrict_data_lookup]
  have hc : contextItems (L.restrict keep) = contextItems L := rfl
  have ht : (L.restrict keep).transforms = L.transforms := rfl
  rw [hc, ht]
  by_cases hk : keep.contains k = true
  · rw [if_pos hk]
  · rw [if_neg hk]
    have : L.data.lookup k = none := by
      rw [lookup_none_iff_not_mem]
      intro hm; exact hk (by simpa using h hm)
    rw [this]

theorem valueOf_none_restrict (L : Layers ν) (keep : List String) (k : String)
    (h : valueOf L k = none) : valueOf (L.restrict keep) k = none := by
  have hd : L.data.lookup k = none := by
    rw [valueOf_eq] at h
    cases hx : L.data.lookup k with
    | none => rfl
    | some v => rw [hx] at h; cases h
  rw [valueOf_restrict L keep k (fun hm => absurd hm ((lookup_none_iff_not_mem _ _).1 hd))]
  exact h

theorem valueOf_none_remove (L : Layers ν) (v k : String) (h : valueOf L k = none) :
    valueOf (L.remove v) k = none := by
  rw [valueOf_eq] at h ⊢
  rw [remove_data_lookup]
  have hc : contextItems (L.remove v) = contextItems L := rfl
  have ht : (L.remove v).transforms = L.transforms := rfl
  rw [hc, ht]
  cases hx : L.data.lookup k with
  | some x => rw [hx] at h; cases h
  | none =>
    rw [hx] at h
    cases k == v <;> simpa using h

theorem lookupAll_restrict (L : Layers ν) (keep : List String) (k : String)
    (h : k ∈ dataKeys L → k ∈ keep) : lookupAll (L.restrict keep) k = lookupAll L k := by
  simp only [lookupAll, valueOf_restrict L keep k h]; rfl

theorem lookupAll_none_restrict (L : Layers ν) (keep : List String) (k : String)
    (h : lookupAll L k = none) : lookupAll (L.restrict keep) k = none := by
  have hd : L.data.lookup k = none := by
    simp only [lookupAll, valueOf_eq] at h
    cases hx : L.data.lookup k with
    | none => rfl
    | some v => rw [hx] at h; cases h
  rw [lookupAll_restrict L keep k]
  · exact h
  · intro hm; exact absurd hm ((lookup_none_iff_not_mem _ _).1 hd)

theorem lookupAll_remove_ne (L : Layers ν) (v k : String) (h : k ≠ v) :
    lookupAll (L.remove v) k = lookupAll L k := by
  have hb : (k == v) = false := by simpa using h
  simp only [lookupAll, valueOf_eq, remove_data_lookup, hb]
  rfl

theorem lookupAll_none_remove (L : Layers ν) (v k : String) (h : lookupAll L k = none) :
    lookupAll (L.remove v) k = none := by
  by_cases hk : k = v
  · subst hk
    simp only [lookupAll, valueOf_eq, remove_data_lookup, beq_self_eq_true, if_true] at h ⊢
    cases hx : L.data.lookup k with
    | none => rw [hx] at h; exact h
    | some x => rw [hx] at h; cases h
  · rw [lookupAll_remove_ne L v k hk]; exact h

/-- removing a column that no lower layer binds unbinds the name -/
theorem lookupAll_remove_self (L : Layers ν) (v : String) (h : Unshadowed L v) :
    lookupAll (L.remove v) v = none := by
  obtain ⟨h1, h2, h3⟩ := h
  have hc : contextItems (L.remove v) = contextItems L := rfl
  simp only [lookupAll, valueOf_eq, remove_data_lookup, beq_self_eq_true, if_true, hc, h1]
  simp [Layers.remove, h2, h3]

theorem firstLayer_remove_self (L : Layers ν) (v : String) (h : Unshadowed L v) :
    firstLayer (L.remove v) v = none := by
  obtain ⟨h1, h2, _⟩ := h
  have hc := context_getNamed_fst L ["context"] (some "context") v
  rw [h1] at hc
  have hn : L.context.getNamed ["context"] (some "context") v = none := by
    cases hx : L.context.getNamed ["context"] (some "context") v with
    | none => rfl
    | some x => rw [hx] at hc; cases hc
  have hctx : (L.remove v).context = L.context := rfl
  simp only [firstLayer, remove_data_lookup, beq_self_eq_true, if_true, hctx, hn]
  simp [Layers.remove, h2]


/-! ### sources inside a context without named sub-layers -/
mutual
theorem getNamed_unnamed : ∀ (l : Layer ν) (path : List String) (k : String), allUnnamed l = true →
    l.getNamed path (joinPath path) k = (l.flat.lookup k).map (fun v => (v, joinPath path))
  | .dict d, path, k, _ => by simp only [Layer.getNamed, Layer.flat]
  | .lm name muts layers, path, k, h => by
    simp only [allUnnamed, Bool.and_eq_true, Option.isNone_iff_eq_none] at h
    have ih := getNamedL_unnamed layers path k h.2
    simp only [Layer.getNamed, h.1, Layer.flat, lookup_append_none]
    cases muts.lookup k with
    | some v => rfl
    | none => exact ih
theorem getNamedL_unnamed : ∀ (ls : List (Layer ν)) (path : List String) (k : String), allUnnamedL ls = true →
    getNamedL ls path (joinPath path) k = ((flatL ls).lookup k).map (fun v => (v, joinPath path))
  | [], path, k, _ => by simp [getNamedL, flatL]
  | l :: r, path, k, h => by
    simp only [allUnnamedL, Bool.and_eq_true] at h
    have h1 := getNamed_unnamed l path k h.1
    have h2 := getNamedL_unnamed r path k h.2
    simp only [getNamedL, flatL, lookup_append_none, h1]
    cases l.flat.lookup k with
    | some v => rfl
    | none => exact h2
end

/-- a key found in a caller context without named sub-layers is reported with source `context` -/
theorem firstLayer_context (L : Layers ν) (hu : allUnnamed L.context = true) (k : String) (v : ν)
    (hd : L.data.lookup k = none) (hc : (contextItems L).lookup k = some v) :
    firstLayer L k = some (v, some "context") := by
  have hj : joinPath ["context"] = some "context" := by decide
  have := getNamed_unnamed L.context ["context"] k hu
  rw [hj] at this
  simp only [firstLayer, hd, this]
  have hc' : L.context.flat.lookup k = some v := hc
  rw [hc']; rfl

end FormulaicVerif.Proofs.C17
