import FormulaicVerif.Props.C19
import FormulaicVerif.Spec.Variables
/-! Helper lemmas for C17: the three named layers, the local environment of `stateful_eval`,
and what removing data columns does to lookups. Not obligations. -/
namespace FormulaicVerif.Proofs.C17
open FormulaicVerif.Model.Variables FormulaicVerif.Model.LMap FormulaicVerif.Spec.Variables
open FormulaicVerif.Proofs.C19 (lookup_dictSet)
variable {ν : Type}

/-! ### the layered context -/
theorem getWithLayerName_lm (L : Layers ν) (k : String) :
    L.lm.getWithLayerName k = firstLayer L k := by
  have hd : joinPath ([] ++ ["data"]) = some "data" := by decide
  have hc : joinPath ([] ++ ["context"]) = some "context" := by decide
  have ht : joinPath ([] ++ ["transforms"]) = some "transforms" := by decide
  have nd : named (some "data") = some "data" := by decide
  have nc : named (some "context") = some "context" := by decide
  have nt : named (some "transforms") = some "transforms" := by decide
  have n0 : named none = none := rfl
  simp only [Layers.lm, LM.getWithLayerName, LM.toLayer, Layer.getNamed, getNamedL, nd, nc, nt, n0, hd, hc, ht,
    firstLayer, List.lookup]
  cases h1 : L.data.lookup k <;> cases h2 : L.context.lookup k <;> cases h3 : L.transforms.lookup k <;>
    simp

/-- derived from C19.4a (`lm_lookup_topfirst`) -/
theorem get_lm (L : Layers ν) (k : String) : L.lm.get k = valueOf L k := by
  have := (FormulaicVerif.Props.C19.lm_lookup_topfirst L.lm).1 k
  simpa [Layers.lm, flatL, Layer.flat, valueOf, List.append_assoc] using this

theorem lookup_append_none {γ : Type} (a b : List (String × γ)) (k : String) :
    (a ++ b).lookup k = match a.lookup k with | some v => some v | none => b.lookup k := by
  induction a with
  | nil => rfl
  | cons kv r ih =>
    obtain ⟨k0, v0⟩ := kv
    simp only [List.cons_append, List.lookup]
    cases k == k0 <;> simp [ih]

theorem valueOf_eq (L : Layers ν) (k : String) :
    valueOf L k = match L.data.lookup k with
      | some v => some v
      | none => match L.context.lookup k with
        | some v => some v
        | none => L.transforms.lookup k := by
  simp only [valueOf, List.append_assoc, lookup_append_none]

theorem firstLayer_fst (L : Layers ν) (k : String) : (firstLayer L k).map (·.1) = valueOf L k := by
  rw [valueOf_eq]; simp only [firstLayer]
  cases L.data.lookup k <;> cases L.context.lookup k <;> cases L.transforms.lookup k <;> rfl

theorem lookup_isSome_iff_mem {γ : Type} (d : List (String × γ)) (k : String) :
    (∃ v, d.lookup k = some v) ↔ k ∈ d.map (·.1) := by
  induction d with
  | nil => simp
  | cons kv r ih =>
    obtain ⟨k0, v0⟩ := kv
    by_cases h : k = k0
    · subst h; simp [List.lookup]
    · have hb : (k == k0) = false := by simpa using h
      simp [List.lookup, hb, ih, h]

theorem lookup_none_iff_not_mem {γ : Type} (d : List (String × γ)) (k : String) :
    d.lookup k = none ↔ k ∉ d.map (·.1) := by
  rw [← lookup_isSome_iff_mem]
  cases d.lookup k <;> simp

theorem firstLayer_data (L : Layers ν) (k : String) (h : k ∈ dataKeys L) :
    ∃ v, firstLayer L k = some (v, some "data") := by
  obtain ⟨v, hv⟩ := (lookup_isSome_iff_mem L.data k).2 h
  exact ⟨v, by simp [firstLayer, hv]⟩

/-! ### filtering the data -/
theorem lookup_filter_keys {γ : Type} (d : List (String × γ)) (p : String → Bool) (k : String) :
    (d.filter (fun kv => p kv.1)).lookup k = if p k then d.lookup k else none := by
  induction d with
  | nil => simp
  | cons kv r ih =>
    obtain ⟨k0, v0⟩ := kv
    simp only [List.filter_cons]
    by_cases hp : p k0 = true
    · simp only [hp, if_true, List.lookup]
      by_cases h : k = k0
      · subst h; simp [hp]
      · have hb : (k == k0) = false := by simpa using h
        simp only [hb, ih]
    · have hp' : p k0 = false := by simpa using hp
      simp only [hp', Bool.false_eq_true, if_false, List.lookup, ih]
      by_cases h : k = k0
      · subst h; simp [hp']
      · have hb : (k == k0) = false := by simpa using h
        simp only [hb]

theorem restrict_data_lookup (L : Layers ν) (keep : List String) (k : String) :
    (L.restrict keep).data.lookup k = if keep.contains k then L.data.lookup k else none := by
  simpa [Layers.restrict] using lookup_filter_keys L.data (fun x => keep.contains x) k

theorem remove_data_lookup (L : Layers ν) (v k : String) :
    (L.remove v).data.lookup k = if k == v then none else L.data.lookup k := by
  have := lookup_filter_keys L.data (fun x => !(x == v)) k
  simp only [Layers.remove]
  rw [this]
  cases k == v <;> simp

/-- a key that is kept (or is not a data column) is looked up as before -/
theorem valueOf_restrict (L : Layers ν) (keep : List String) (k : String)
    (h : k ∈ dataKeys L → k ∈ keep) : valueOf (L.restrict keep) k = valueOf L k := by
  rw [valueOf_eq, valueOf_eq, restrict_data_lookup]
  have hc : (L.restrict keep).context = L.context := rfl
  have ht : (L.restrict keep).transforms = L.transforms := rfl
  rw [hc, ht]
  by_cases hk : keep.contains k = true
  · rw [if_pos hk]
  · rw [if_neg hk]
    have : L.data.lookup k = none := by
      rw [lookup_none_iff_not_mem]
      intro hm; exact hk (by simpa using h hm)
    rw [this]

theorem lookupAll_restrict (L : Layers ν) (keep : List String) (k : String)
    (h : k ∈ dataKeys L → k ∈ keep) : lookupAll (L.restrict keep) k = lookupAll L k := by
  simp only [lookupAll, valueOf_restrict L keep k h]; rfl

theorem lookupAll_none_restrict (L : Layers ν) (keep : List String) (k : String)
    (h : lookupAll L k = none) : lookupAll (L.restrict keep) k = none := by
  have hd : L.data.lookup k = none := by
    simp only [lookupAll, valueOf_eq] at h
    cases hx : L.data.lookup k with
    | none => rfl
    | some v => rw [hx] at h; cases h
  rw [lookupAll_restrict L keep k]
  · exact h
  · intro hm; exact absurd hm ((lookup_none_iff_not_mem _ _).1 hd)

theorem lookupAll_remove_ne (L : Layers ν) (v k : String) (h : k ≠ v) :
    lookupAll (L.remove v) k = lookupAll L k := by
  have hb : (k == v) = false := by simpa using h
  simp only [lookupAll, valueOf_eq, remove_data_lookup, hb]
  rfl

theorem lookupAll_none_remove (L : Layers ν) (v k : String) (h : lookupAll L k = none) :
    lookupAll (L.remove v) k = none := by
  by_cases hk : k = v
  · subst hk
    simp only [lookupAll, valueOf_eq, remove_data_lookup, beq_self_eq_true, if_true] at h ⊢
    cases hx : L.data.lookup k with
    | none => rw [hx] at h; exact h
    | some x => rw [hx] at h; cases h
  · rw [lookupAll_remove_ne L v k hk]; exact h

/-- removing a column that no lower layer binds unbinds the name -/
theorem lookupAll_remove_self (L : Layers ν) (v : String) (h : Unshadowed L v) :
    lookupAll (L.remove v) v = none := by
  obtain ⟨h1, h2, h3⟩ := h
  simp only [lookupAll, valueOf_eq, remove_data_lookup, beq_self_eq_true, if_true]
  simp [Layers.remove, h1, h2, h3]

theorem firstLayer_remove_self (L : Layers ν) (v : String) (h : Unshadowed L v) :
    firstLayer (L.remove v) v = none := by
  obtain ⟨h1, h2, _⟩ := h
  simp only [firstLayer, remove_data_lookup, beq_self_eq_true, if_true]
  simp [Layers.remove, h1, h2]

end FormulaicVerif.Proofs.C17
