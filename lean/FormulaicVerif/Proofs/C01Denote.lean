import FormulaicVerif.Proofs.C01Tokens
import FormulaicVerif.Proofs.C01Eval
import FormulaicVerif.Proofs.C01Spans
/-! # C01 — parse = denotation, for the documented grammar (token level)

Composition of: the token rewriting of `get_tokens_from_formula` (`Proofs/C01Intercept.lean`), the
shunting-yard on the documented grammar (`Proofs/C01Grammar.lean`, `Proofs/C01TopLevel.lean`),
evaluation = denotation on the arithmetic levels (`Proofs/C01Eval.lean`) and on the top level.

The bridge between the token-level intercept insertion and the denotation "a right-hand part is read
from `{1}`" is `withOne`: the `Sum` whose tokens are `1 +` (or `1` alone in front of a leading sign)
followed by the tokens of the given `Sum`; its plain denotation is the fold from `{1}`. -/
namespace FormulaicVerif.Proofs.C01Denote
open FormulaicVerif FormulaicVerif.Model FormulaicVerif.Proofs.ShuntC FormulaicVerif.Proofs.C01Grammar
open FormulaicVerif.Proofs.C01 (NoSep)
open FormulaicVerif.Proofs.C01Intercept FormulaicVerif.Proofs.C01Tokens FormulaicVerif.Proofs.C01TopLevel
open FormulaicVerif.Spec.Denote

/-! ### `1 +` in front of a `Sum` -/

def oneAtom : Atom := .tok tokOne ⟨by decide, by decide⟩
def oneProd : Prod := .inter (.pow (.atom oneAtom))

/-- the `Sum` `1 + s` (`1 - …`/`1 + …` when `s` starts with a sign: the sign becomes the binary operator) -/
def withOne : Sum → Sum
  | .first none p => .add .plus (.first none oneProd) p
  | .first (some sg) p => .add sg (.first none oneProd) p
  | .add op s p => .add op (withOne s) p

/-- the leading sign of a `Sum` -/
def lead : Sum → Option AddOp
  | .first sg _ => sg
  | .add _ s _ => lead s

theorem opTok_plus : opTok AddOp.plus.sym = tokPlus := rfl

theorem lin_withOne : ∀ s : Sum,
    lin (withOne s).toE = tokOne :: ((match lead s with | none => [tokPlus] | some _ => []) ++ lin s.toE)
  | .first none p => by simp [withOne, lead, Sum.toE, lin, oneProd, oneAtom, Prod.toE, Inter.toE, Pow.toE, Atom.toE, opTok_plus]
  | .first (some sg) p => by simp [withOne, lead, Sum.toE, lin, oneProd, oneAtom, Prod.toE, Inter.toE, Pow.toE, Atom.toE]
  | .add op s p => by
    simp only [withOne, lead, Sum.toE, lin, lin_withOne s]
    simp

/-- a `Sum` without a leading sign starts with a token that is not an operator -/
theorem signFree_of_lead_none : ∀ s : Sum, lead s = none → SignFree s.toE
  | .first none p, _ => (Prod.shape p).2
  | .first (some _) _, h => by simp [lead] at h
  | .add _ s _, h => signFree_of_lead_none s h

theorem head_of_lead_some : ∀ (s : Sum) (sg : AddOp), lead s = some sg → ∃ r, lin s.toE = opTok sg.sym :: r
  | .first none _, _, h => by simp [lead] at h
  | .first (some sg') p, sg, h => by
    simp only [lead, Option.some.injEq] at h
    subst h
    exact ⟨lin p.toE, rfl⟩
  | .add op s p, sg, h => by
    obtain ⟨r, hr⟩ := head_of_lead_some s sg h
    exact ⟨r ++ (opTok op.sym :: lin p.toE), by simp [Sum.toE, lin, hr]⟩

theorem needsJoin_nonop (u : Tok) (hu : ¬ IsOp u) : needsJoin (some u) = true := by
  unfold IsOp at hu
  simp [needsJoin, bne, hu]

theorem needsJoin_sign (sg : AddOp) : needsJoin (some (opTok sg.sym)) = false := by
  cases sg <;> rfl

/-- what `insert_tokens_after` puts behind a separator, followed by the part, is `1 + part` -/
theorem sepIns_lin (s : Sum) (rest : List Tok) :
    sepIns true (lin s.toE ++ rest).head? ++ lin s.toE = lin (withOne s).toE := by
  rw [lin_withOne]
  cases h : lead s with
  | none =>
    obtain ⟨u, r, hl, hu⟩ := head_signFree _ (Sum.shape s) (signFree_of_lead_none s h)
    simp [sepIns, hl, needsJoin_nonop u hu]
  | some sg =>
    obtain ⟨r, hl⟩ := head_of_lead_some s sg h
    simp [sepIns, hl, needsJoin_sign]

/-! ### glue -/

def barTok : Tok := opTok barSym

/-- the `(separator, segment)` list of the parts after the first -/
def glueOf (tail : List Sum) : List (Tok × List Tok) := tail.map (fun q => (barTok, lin q.toE))

theorem partsToks_glue (p : Sum) (tail : List Sum) : partsToks p tail = lin p.toE ++ plainGlue (glueOf tail) := by
  induction tail generalizing p with
  | nil => simp [partsToks, glueOf, plainGlue]
  | cons q qs ih =>
    simp only [partsToks, ih q, glueOf, List.map_cons, plainGlue, barTok]

theorem insGlue_withOne (tail : List Sum) :
    insGlue true (glueOf tail) = plainGlue (glueOf (tail.map withOne)) := by
  induction tail with
  | nil => rfl
  | cons q qs ih =>
    simp only [glueOf, List.map_cons, insGlue, plainGlue] at ih ⊢
    rw [ih, ← List.append_assoc, sepIns_lin]

theorem isSep_bar : IsSep '|' barTok := ⟨rfl, rfl⟩
theorem isSep_tilde : IsSep '~' (opTok tildeSym) := ⟨rfl, rfl⟩

/-! ### tokens that `merge_operator_tokens` pools, and lists it leaves alone -/

/-- the token is NOT pooled by `merge_operator_tokens`: not an operator token starting with a sign -/
def NonPool (t : Tok) : Prop :=
  (t.kind != some .operator || !(match t.text.head? with | some c => isSign c | none => false)) = true

instance (t : Tok) : Decidable (NonPool t) := by unfold NonPool; infer_instance

theorem nonPool_of_nonop (t : Tok) (h : ¬ IsOp t) : NonPool t := by
  unfold IsOp at h
  unfold NonPool
  simp [bne, h]

/-- every pooled token (an operator token starting with a sign) is directly followed by a token that
is not an operator -/
def SignIso : List Tok → Prop
  | [] => True
  | t :: r => (¬ NonPool t → ∃ u r', r = u :: r' ∧ ¬ IsOp u) ∧ SignIso r

theorem signIso_of_opIso : ∀ ts : List Tok, OpIso ts → SignIso ts
  | [], _ => trivial
  | t :: r, h => ⟨fun hp => h.1 (Classical.byContradiction fun hn => hp (nonPool_of_nonop t hn)),
      signIso_of_opIso r h.2⟩

theorem signIso_append : ∀ (a b : List Tok), SignIso a → SignIso b → SignIso (a ++ b)
  | [], _, _, hb => hb
  | t :: r, b, ha, hb => by
    refine ⟨fun ht => ?_, signIso_append r b ha.2 hb⟩
    obtain ⟨u, r', hr, hu⟩ := ha.1 ht
    exact ⟨u, r' ++ b, by rw [hr]; rfl, hu⟩

theorem signIso_cons (t : Tok) (r : List Tok) (ht : NonPool t) (hr : SignIso r) : SignIso (t :: r) :=
  ⟨fun h => absurd ht h, hr⟩

theorem mergeAux_nonpool (t : Tok) (ts : List Tok) (ht : NonPool t) :
    mergeSignsAux (t :: ts) none = t :: mergeSignsAux ts none := by
  unfold NonPool at ht
  simp only [mergeSignsAux]
  exact if_pos ht

theorem mergeSigns_signIso : ∀ ts : List Tok, SignIso ts → mergeSigns ts = ts := by
  intro ts
  unfold mergeSigns
  induction ts with
  | nil => intro _; rfl
  | cons t r ih =>
    intro h
    by_cases ht : NonPool t
    · rw [mergeAux_nonpool t r ht, ih h.2]
    · obtain ⟨u, r', hr, hu⟩ := h.1 ht
      subst hr
      have ihr := ih h.2
      rw [mergeAux_nonop u r' hu none] at ihr
      have hr' : mergeSignsAux r' none = r' := by injection ihr
      have hcu : (u.kind != some .operator) = true := by
        unfold IsOp at hu
        simp [bne, hu]
      simp only [mergeSignsAux, hcu, Bool.true_or, if_true, hr']
      exact ite_self _

theorem nonPool_bar : NonPool barTok := by decide
theorem nonPool_tilde : NonPool (opTok tildeSym) := by decide
theorem nonPool_one : NonPool tokOne := by decide

theorem signIso_lin (s : Sum) : SignIso (lin s.toE) := signIso_of_opIso _ (opIso_lin _ (Sum.shape s))

theorem signIso_glue : ∀ tail : List Sum, SignIso (plainGlue (glueOf tail))
  | [] => trivial
  | q :: qs => by
    simp only [glueOf, List.map_cons, plainGlue]
    exact signIso_cons _ _ nonPool_bar (signIso_append _ _ (signIso_lin q) (signIso_glue qs))

theorem signIso_parts (p : Sum) (tail : List Sum) : SignIso (partsToks p tail) := by
  rw [partsToks_glue]
  exact signIso_append _ _ (signIso_lin p) (signIso_glue tail)

/-! ### the hypotheses of the token-rewriting theorems, for token sequences of the grammar -/

/-- no token is the literal `0` -/
def NoZero (ts : List Tok) : Prop := ∀ t ∈ ts, ¬ IsZero t

instance (ts : List Tok) : Decidable (NoZero ts) := by unfold NoZero; infer_instance

theorem plain_lin (s : Sum) (hz : NoZero (lin s.toE)) : Plain (lin s.toE) := fun t ht =>
  ⟨noSep_lin '~' (Or.inl rfl) _ (Sum.shape s) t ht, noSep_lin '|' (Or.inr rfl) _ (Sum.shape s) t ht, hz t ht⟩

theorem mem_parts {p : Sum} {tail : List Sum} {t : Tok} (h : t ∈ partsToks p tail) :
    t = barTok ∨ ∃ q, (q = p ∨ q ∈ tail) ∧ t ∈ lin q.toE := by
  induction tail generalizing p with
  | nil => exact Or.inr ⟨p, Or.inl rfl, h⟩
  | cons q qs ih =>
    simp only [partsToks, List.mem_append, List.mem_cons] at h
    rcases h with h | rfl | h
    · exact Or.inr ⟨p, Or.inl rfl, h⟩
    · exact Or.inl rfl
    · rcases ih h with h | ⟨q', hq, ht⟩
      · exact Or.inl h
      · refine Or.inr ⟨q', Or.inr ?_, ht⟩
        rcases hq with rfl | hq
        · simp
        · simp [hq]

theorem lin_sub_parts (p : Sum) (tail : List Sum) (q : Sum) (hq : q = p ∨ q ∈ tail) :
    ∀ t ∈ lin q.toE, t ∈ partsToks p tail := by
  induction tail generalizing p with
  | nil =>
    rcases hq with rfl | hq
    · intro t ht; exact ht
    · cases hq
  | cons q' qs ih =>
    intro t ht
    simp only [partsToks, List.mem_append, List.mem_cons]
    rcases hq with rfl | hq
    · exact Or.inl ht
    · refine Or.inr (Or.inr (ih q' ?_ t ht))
      rcases List.mem_cons.mp hq with rfl | hq
      · exact Or.inl rfl
      · exact Or.inr hq

theorem plainTail_glue (p : Sum) (tail : List Sum) (hz : NoZero (partsToks p tail)) :
    PlainTail '|' (glueOf tail) := by
  intro sp hsp
  simp only [glueOf, List.mem_map] at hsp
  obtain ⟨q, hq, rfl⟩ := hsp
  exact ⟨isSep_bar, plain_lin q (fun t ht => hz t (lin_sub_parts p tail q (Or.inr hq) t ht))⟩

theorem lhsOk_parts (l : Sum) (ltail : List Sum) (hz : NoZero (partsToks l ltail)) : LhsOk (partsToks l ltail) := by
  intro t ht
  rcases mem_parts ht with rfl | ⟨q, _, hq⟩
  · exact ⟨sep_noSep (by decide) isSep_bar, sep_not_zero isSep_bar, fun _ _ => rfl⟩
  · refine ⟨noSep_lin '~' (Or.inl rfl) _ (Sum.shape q) t hq, hz t ht, fun hk hc => ?_⟩
    have := noSep_lin '|' (Or.inr rfl) _ (Sum.shape q) t hq hk
    rw [this] at hc
    cases hc

theorem ctxAfter_parts (p : Sum) (tail : List Sum) (ctx : List Char) : ctxAfter (partsToks p tail) ctx = some ctx := by
  induction tail generalizing p with
  | nil => exact ctxAfter_lin _ (Sum.shape p) ctx
  | cons q qs ih =>
    simp only [partsToks]
    rw [ctxAfter_append, ctxAfter_lin _ (Sum.shape p) ctx]
    have : ctxAfter (opTok barSym :: partsToks q qs) ctx = ctxAfter (partsToks q qs) ctx := by
      simp [ctxAfter, opTok]
    simp only [this]
    exact ih q

theorem topLevel_parts (p : Sum) (tail : List Sum) : TopLevel (partsToks p tail) := ctxAfter_parts p tail []

theorem parts_ne_nil (p : Sum) (tail : List Sum) : partsToks p tail ≠ [] := by
  cases tail with
  | nil => exact lin_ne_nil _
  | cons q qs => simp [partsToks, lin_ne_nil]

/-! ### the rewritten token sequence -/

/-- the part as the parser reads it: `1 + part` with the implicit intercept -/
def wo (add : Bool) (s : Sum) : Sum := if add then withOne s else s

theorem wo_false (s : Sum) : wo false s = s := rfl
theorem map_wo_false (tail : List Sum) : tail.map (wo false) = tail := by
  induction tail with
  | nil => rfl
  | cons q qs ih => simp [wo_false, ih]

/-- **two-sided**: nothing happens to the left-hand side, every right-hand part gets `1 +` (`1` alone in
front of a leading sign); the left-hand-side tokens reported are `lhs ~` -/
theorem rewrite_two (add : Bool) (l : Sum) (ltail : List Sum) (p : Sum) (tail : List Sum)
    (hzl : NoZero (partsToks l ltail)) (hzr : NoZero (partsToks p tail)) :
    interceptTokens add (partsToks l ltail ++ opTok tildeSym :: partsToks p tail)
      = (partsToks l ltail ++ opTok tildeSym :: partsToks (wo add p) (tail.map (wo add)),
         partsToks l ltail ++ [opTok tildeSym]) := by
  have hp0 : Plain (lin p.toE) := plain_lin p (fun t ht => hzr t (lin_sub_parts p tail p (Or.inl rfl) t ht))
  have h := intercept_twosided add (partsToks l ltail) (opTok tildeSym) (lin p.toE) (glueOf tail)
    (lhsOk_parts l ltail hzl) (topLevel_parts l ltail) isSep_tilde hp0 (plainTail_glue p tail hzr)
  rw [← partsToks_glue] at h
  rw [h]
  have hlist : sepIns add (partsToks p tail).head? ++ (lin p.toE ++ insGlue add (glueOf tail))
      = partsToks (wo add p) (tail.map (wo add)) := by
    cases add
    · simp only [sepIns, insGlue_false, Bool.false_eq_true, if_false, List.nil_append, map_wo_false, wo_false]
      exact (partsToks_glue p tail).symm
    · rw [partsToks_glue p tail, ← List.append_assoc, sepIns_lin, insGlue_withOne]
      exact (partsToks_glue _ _).symm
  rw [hlist, mergeSigns_signIso]
  exact signIso_append _ _ (signIso_parts l ltail) (signIso_cons _ _ nonPool_tilde (signIso_parts _ _))

/-- **one-sided with a leading `~`** -/
theorem rewrite_tilde (add : Bool) (p : Sum) (tail : List Sum) (hzr : NoZero (partsToks p tail)) :
    interceptTokens add (opTok tildeSym :: partsToks p tail)
      = (opTok tildeSym :: partsToks (wo add p) (tail.map (wo add)), [opTok tildeSym]) := by
  have hp0 : Plain (lin p.toE) := plain_lin p (fun t ht => hzr t (lin_sub_parts p tail p (Or.inl rfl) t ht))
  have h := intercept_twosided add [] (opTok tildeSym) (lin p.toE) (glueOf tail)
    (fun _ h => by cases h) rfl isSep_tilde hp0 (plainTail_glue p tail hzr)
  rw [← partsToks_glue] at h
  simp only [List.nil_append] at h
  rw [h]
  have hlist : sepIns add (partsToks p tail).head? ++ (lin p.toE ++ insGlue add (glueOf tail))
      = partsToks (wo add p) (tail.map (wo add)) := by
    cases add
    · simp only [sepIns, insGlue_false, Bool.false_eq_true, if_false, List.nil_append, map_wo_false, wo_false]
      exact (partsToks_glue p tail).symm
    · rw [partsToks_glue p tail, ← List.append_assoc, sepIns_lin, insGlue_withOne]
      exact (partsToks_glue _ _).symm
  rw [hlist, mergeSigns_signIso]
  exact signIso_cons _ _ nonPool_tilde (signIso_parts _ _)

/-! ### one-sided: the `+` that is put in front merges with a leading sign -/

open FormulaicVerif.Spec.Wilkinson (documentedTable)

/-- the merged operator token `+-` / `++` resolves to what the bare sign resolves to -/
theorem resolve_merged (a b c : Bool) (sg : AddOp) :
    resolveToken (documentedTable a b c) ('+' :: sg.sym) = resolveToken (documentedTable a b c) sg.sym := by
  cases a <;> cases b <;> cases c <;> cases sg <;> rfl

theorem shuntStep_op_congr (tab : OpTable) (s : ShState) (x y : List Char)
    (h : resolveToken tab x = resolveToken tab y) : shuntStep tab s (opTok x) = shuntStep tab s (opTok y) := by
  simp only [shuntStep, opTok, h]

theorem tokensToAst_congr_second (tab : OpTable) (t0 t1 t2 : Tok) (rest : List Tok)
    (h : ∀ s, shuntStep tab s t1 = shuntStep tab s t2) :
    tokensToAst tab (t0 :: t1 :: rest) = tokensToAst tab (t0 :: t2 :: rest) := by
  unfold tokensToAst
  simp only [shuntRun]
  cases shuntStep tab {} t0 with
  | error e => rfl
  | ok s => simp only [h s]

theorem merge_front (sg : AddOp) (u : Tok) (X : List Tok) (hu : ¬ IsOp u) (hX : SignIso (u :: X)) :
    mergeSigns (tokOne :: tokPlus :: opTok sg.sym :: u :: X) = tokOne :: opTok ('+' :: sg.sym) :: u :: X := by
  have h1 := mergeSigns_signIso _ hX
  unfold mergeSigns at h1 ⊢
  rw [mergeAux_nonop u X hu none] at h1
  have hX' : mergeSignsAux X none = X := by injection h1
  have hcu : (u.kind != some .operator) = true := by
    unfold IsOp at hu
    simp [bne, hu]
  cases sg <;>
    simp [mergeSignsAux, hcu, hX', tokOne, tokPlus, Tok.synth, opTok, AddOp.sym, isSign]

/-- **one-sided**: `1 +` in front of every part; in front of the formula the inserted `+` merges
with a leading sign into one operator token, which the shunting-yard reads as that sign -/
theorem rewrite_one (add : Bool) (p : Sum) (tail : List Sum) (hz : NoZero (partsToks p tail)) (a b c : Bool) :
    (interceptTokens add (partsToks p tail)).2 = [] ∧
    tokensToAst (documentedTable a b c) (interceptTokens add (partsToks p tail)).1
      = tokensToAst (documentedTable a b c) (partsToks (wo add p) (tail.map (wo add))) := by
  have hp0 : Plain (lin p.toE) := plain_lin p (fun t ht => hz t (lin_sub_parts p tail p (Or.inl rfl) t ht))
  have h := intercept_onesided add (lin p.toE) (glueOf tail)
    (by rw [← partsToks_glue]; exact parts_ne_nil p tail) hp0 (plainTail_glue p tail hz)
  rw [← partsToks_glue] at h
  rw [h]
  refine ⟨rfl, ?_⟩
  cases add
  · simp only [Bool.false_eq_true, if_false, List.nil_append, insGlue_false, map_wo_false, wo_false]
    rw [← partsToks_glue, mergeSigns_signIso _ (signIso_parts p tail)]
  · simp only [if_true, insGlue_withOne]
    show tokensToAst _ (mergeSigns ([tokOne, tokPlus] ++ (lin p.toE ++ plainGlue (glueOf (tail.map withOne))))) =
      tokensToAst _ (partsToks (withOne p) (tail.map withOne))
    rw [partsToks_glue (withOne p), lin_withOne]
    cases hl : lead p with
    | none =>
      simp only [List.cons_append, List.nil_append]
      rw [mergeSigns_signIso]
      have := signIso_parts (withOne p) (tail.map withOne)
      rw [partsToks_glue, lin_withOne, hl] at this
      simpa using this
    | some sg =>
      obtain ⟨r, hr⟩ := head_of_lead_some p sg hl
      have hiso := opIso_lin _ (Sum.shape p)
      rw [hr] at hiso
      obtain ⟨u, r', hr', hu⟩ := hiso.1 (opTok_isOp _)
      subst hr'
      have hsi : SignIso (u :: (r' ++ plainGlue (glueOf (tail.map withOne)))) :=
        signIso_append (u :: r') _ (signIso_of_opIso _ hiso.2) (signIso_glue _)
      simp only [hr, List.cons_append, List.nil_append]
      rw [merge_front sg u _ hu hsi]
      exact tokensToAst_congr_second _ _ _ _ _
        (fun s => shuntStep_op_congr _ s _ _ (resolve_merged a b c sg))

/-! ### denotations: `1 + s` read from nothing is `s` read from `{1}` -/

theorem denProd_one : denProd oneProd = .ok [intercept] := rfl

theorem denSum_withOne : ∀ s : Sum, denSum (withOne s) = foldSum [intercept] s
  | .first none p => by
    simp only [withOne, denSum, denProd_one, foldSum]
    cases denProd p <;> rfl
  | .first (some sg) p => by
    simp only [withOne, denSum, denProd_one, foldSum]
    cases denProd p <;> rfl
  | .add op s p => by
    simp only [withOne, denSum, foldSum, denSum_withOne s]

theorem denSum_wo (add : Bool) (s : Sum) : denSum (wo add s) = denRhs add s := by
  cases add
  · rfl
  · exact denSum_withOne s

theorem denParts_map (den : Sum → Except ParseErr (List Term)) (f : Sum → Sum) :
    ∀ tail : List Sum, denParts den (tail.map f) = denParts (fun q => den (f q)) tail
  | [] => rfl
  | q :: qs => by simp only [List.map_cons, denParts, denParts_map den f qs]

theorem denSide_map (den : Sum → Except ParseErr (List Term)) (f : Sum → Sum) (p : Sum) (tail : List Sum) :
    denSide den (f p) (tail.map f) = denSide (fun q => den (f q)) p tail := by
  simp only [denSide, denParts_map]

theorem denSide_congr (d1 d2 : Sum → Except ParseErr (List Term)) (h : ∀ q, d1 q = d2 q) (p : Sum) (tail : List Sum) :
    denSide d1 p tail = denSide d2 p tail := by
  have : d1 = d2 := funext h
  rw [this]

/-! ### evaluation of a side -/

open FormulaicVerif.Proofs.C14 (evalAst_node evalArgs_cons)

/-- a chain of parts evaluates to the denotation of the side: the tuple of the parts' term sets (the
set itself for one part); the first rejected part, from the left, rejects the side -/
theorem eval_side (dot : DotCtx) : ∀ (tail : List Sum) (p : Sum),
    evalAst dot (partsTree p tail) = denSide denSum p tail
  | [], p => by
    simp only [partsTree, C01Eval.eval_sum_eq_denote, denSide, denParts]
    cases denSum p <;> rfl
  | q :: qs, p => by
    have ih := eval_side dot qs q
    simp only [partsTree, evalAst_node, evalArgs_cons, C01Eval.eval_sum_eq_denote, ih, denSide, denParts]
    cases denSum p with
    | error e => rfl
    | ok x =>
      simp only [Except.map]
      cases denSum q with
      | error e => rfl
      | ok y =>
        simp only
        cases denParts denSum qs with
        | error e => rfl
        | ok ys =>
          simp only [evalArgs_nil, show bar.structural = true from rfl, if_true]
          show Except.ok (partExpansion (.set x) (partsVal y ys)) = _
          rw [partExpansion_set]

/-- `Structured(value)` unless the value is a `Structured` already -/
def wrapRoot (v : Val) : Val := match v with | .struct _ => v | _ => mkStruct [] (some v)

theorem partsVal_not_struct (x : List Term) (xs : List (List Term)) :
    wrapRoot (partsVal x xs) = .struct [("root", partsVal x xs)] := by
  cases xs <;> rfl

/-! ### the parser after tokenisation -/

/-- the end of `get_terms`: a value that is not a `Structured` is wrapped, then `check_terms` on every part -/
def wrapCheck (r : Except ParseErr Val) : Except ParseErr Val := validate (r.map wrapRoot)

/-- `DefaultFormulaParser.get_terms` from the sanitised token list on: token rewriting, shunting-yard,
evaluation, wrapping in a `Structured`, `check_terms` -/
def parseToks (cfg : ParseCfg) (env : PyEnv) (ts : List Tok) : Except ParseErr Val :=
  match tokensToAst cfg.table (interceptTokens cfg.includeIntercept ts).1 with
  | .error e => .error e
  | .ok none => .ok (mkStruct [] (some (.set [])))
  | .ok (some a) =>
    wrapCheck (evalAst (DotCtx.mk env.available
      (lhsVariables env (interceptTokens cfg.includeIntercept ts).2)) a)

/-- the model of `get_terms` is tokenisation, sanitisation, and then `parseToks` -/
theorem parseTerms_of_tokens (cfg : ParseCfg) (env : PyEnv) (cs : List CharInfo) (ts0 ts : List Tok)
    (h1 : tokenizeStream cs = (ts0, none)) (h2 : sanitizeTokens env.norm ts0 = .ok ts) :
    parseTerms cfg env cs = parseToks cfg env ts := by
  simp only [parseTerms, getTokens, h1, h2, parseToks]
  cases tokensToAst cfg.table (interceptTokens cfg.includeIntercept ts).1 with
  | error e => rfl
  | ok o =>
    cases o with
    | none => rfl
    | some a =>
      simp only [wrapCheck]
      cases evalAst (DotCtx.mk env.available (lhsVariables env (interceptTokens cfg.includeIntercept ts).2)) a with
      | error e => rfl
      | ok v =>
        simp only [Except.map, validate, wrapRoot]
        cases checkVal (match v with | .struct _ => v | _ => mkStruct [] (some v)) <;> rfl

theorem table_doc (cfg : ParseCfg) : cfg.table = documentedTable cfg.twosided cfg.multipart cfg.multistage := by
  obtain ⟨i, a, b, c⟩ := cfg
  cases a <;> cases b <;> cases c <;> rfl

/-- the tail of `parseToks` once the tree and its value are known -/
theorem parseToks_of (cfg : ParseCfg) (env : PyEnv) (ts : List Tok) (a : Ast) (r : Except ParseErr Val)
    (ht : tokensToAst cfg.table (interceptTokens cfg.includeIntercept ts).1 = .ok (some a))
    (he : ∀ dot, evalAst dot a = r) :
    parseToks cfg env ts = wrapCheck r := by
  simp only [parseToks, ht, he]

theorem wrapCheck_root (r : Except ParseErr Val) (h : ∀ v, r = .ok v → ∃ x xs, v = partsVal x xs) :
    wrapCheck r = validate (r.map (fun v => Val.struct [("root", v)])) := by
  cases r with
  | error e => rfl
  | ok v =>
    obtain ⟨x, xs, rfl⟩ := h v rfl
    simp only [wrapCheck, Except.map, partsVal_not_struct]

theorem denSide_shape (den : Sum → Except ParseErr (List Term)) (p : Sum) (tail : List Sum) (v : Val)
    (hd : denSide den p tail = .ok v) : ∃ x xs, v = partsVal x xs := by
  simp only [denSide] at hd
  cases h1 : den p with
  | error e => rw [h1] at hd; cases hd
  | ok x =>
    rw [h1] at hd
    cases h2 : denParts den tail with
    | error e => rw [h2] at hd; cases hd
    | ok xs => rw [h2] at hd; exact ⟨x, xs, by injection hd with hd; exact hd.symm⟩

theorem map_eq_nil_or {α β} (f : α → β) (tail : List α) (b : Bool) (h : tail = [] ∨ b = true) :
    tail.map f = [] ∨ b = true := by
  rcases h with rfl | h
  · exact Or.inl rfl
  · exact Or.inr h

/-- **parse = denotation** (token level): for every formula of the documented grammar that the feature
flags allow and that contains no literal `0`, the parser maps the formula's token sequence to the
documented denotation — the same structure of ordered term sets when the denotation is defined, the
same rejection when it is not -/
theorem parse_eq_denote_tokens (cfg : ParseCfg) (env : PyEnv) (f : Formula) (hen : f.Enabled cfg)
    (hz : NoZero f.toks) : parseToks cfg env f.toks = denoteFormula cfg f := by
  cases f with
  | one p tail =>
    have hr := rewrite_one cfg.includeIntercept p tail hz cfg.twosided cfg.multipart cfg.multistage
    have hparse := multipart_parses_doc cfg.twosided cfg.multipart cfg.multistage
      (wo cfg.includeIntercept p) (tail.map (wo cfg.includeIntercept)) (map_eq_nil_or _ _ _ hen)
    rw [← hr.2, ← table_doc] at hparse
    show parseToks cfg env (partsToks p tail) = _
    rw [parseToks_of cfg env _ _ _ hparse (fun dot => eval_side dot _ _),
      wrapCheck_root _ (fun v hv => denSide_shape _ _ _ v hv)]
    simp only [denoteFormula, denStruct]
    rw [denSide_map, denSide_congr _ _ (denSum_wo cfg.includeIntercept)]
  | tilde p tail =>
    have hz' : NoZero (partsToks p tail) := fun t ht => hz t (by simp [Formula.toks, ht])
    have hr := rewrite_tilde cfg.includeIntercept p tail hz'
    have hparse := onesided_tilde_parses_doc cfg.twosided cfg.multipart cfg.multistage
      (wo cfg.includeIntercept p) (tail.map (wo cfg.includeIntercept)) (map_eq_nil_or _ _ _ hen)
    rw [← table_doc] at hparse
    have hparse' : tokensToAst cfg.table (interceptTokens cfg.includeIntercept (opTok tildeSym :: partsToks p tail)).1
        = .ok (some (.node tildeP [partsTree (wo cfg.includeIntercept p) (tail.map (wo cfg.includeIntercept))])) := by
      rw [hr]; exact hparse
    have heval : ∀ dot, evalAst dot (.node tildeP [partsTree (wo cfg.includeIntercept p) (tail.map (wo cfg.includeIntercept))])
        = denSide denSum (wo cfg.includeIntercept p) (tail.map (wo cfg.includeIntercept)) := by
      intro dot
      rw [evalAst_node, evalArgs_cons, eval_side, evalArgs_nil]
      cases denSide denSum (wo cfg.includeIntercept p) (tail.map (wo cfg.includeIntercept)) <;> rfl
    show parseToks cfg env (opTok tildeSym :: partsToks p tail) = _
    rw [parseToks_of cfg env _ _ _ hparse' heval,
      wrapCheck_root _ (fun v hv => denSide_shape _ _ _ v hv)]
    simp only [denoteFormula, denStruct]
    rw [denSide_map, denSide_congr _ _ (denSum_wo cfg.includeIntercept)]
  | two l ltail p tail =>
    obtain ⟨htwo, hmp⟩ := hen
    have hzl : NoZero (partsToks l ltail) := fun t ht => hz t (by simp [Formula.toks, ht])
    have hzr : NoZero (partsToks p tail) := fun t ht => hz t (by simp [Formula.toks, ht])
    have hr := rewrite_two cfg.includeIntercept l ltail p tail hzl hzr
    have hmp' : (ltail = [] ∧ tail.map (wo cfg.includeIntercept) = []) ∨ cfg.multipart = true := by
      rcases hmp with ⟨h1, h2⟩ | h
      · exact Or.inl ⟨h1, by rw [h2]; rfl⟩
      · exact Or.inr h
    have hparse := twosided_parses_doc cfg.multipart cfg.multistage l ltail
      (wo cfg.includeIntercept p) (tail.map (wo cfg.includeIntercept)) hmp'
    have htab : cfg.table = documentedTable true cfg.multipart cfg.multistage := by rw [table_doc, htwo]
    rw [← htab] at hparse
    have hparse' : tokensToAst cfg.table
          (interceptTokens cfg.includeIntercept (partsToks l ltail ++ opTok tildeSym :: partsToks p tail)).1
        = .ok (some (.node tilde [partsTree l ltail,
            partsTree (wo cfg.includeIntercept p) (tail.map (wo cfg.includeIntercept))])) := by
      rw [hr]; exact hparse
    have heval : ∀ dot, evalAst dot (.node tilde [partsTree l ltail,
          partsTree (wo cfg.includeIntercept p) (tail.map (wo cfg.includeIntercept))])
        = (match denSide denSum l ltail with
           | .error e => .error e
           | .ok vl => match denSide denSum (wo cfg.includeIntercept p) (tail.map (wo cfg.includeIntercept)) with
             | .error e => .error e
             | .ok vr => .ok (.struct [("lhs", vl), ("rhs", vr)])) := by
      intro dot
      rw [evalAst_node, evalArgs_cons, eval_side, evalArgs_cons, eval_side, evalArgs_nil]
      cases denSide denSum l ltail with
      | error e => rfl
      | ok vl =>
        cases denSide denSum (wo cfg.includeIntercept p) (tail.map (wo cfg.includeIntercept)) with
        | error e => rfl
        | ok vr =>
          show Except.ok (mkStruct [("lhs", vl), ("rhs", vr)] none) = _
          rw [mkStruct_lhs_rhs]
    show parseToks cfg env (partsToks l ltail ++ opTok tildeSym :: partsToks p tail) = _
    rw [parseToks_of cfg env _ _ _ hparse' heval]
    simp only [denoteFormula, denStruct]
    rw [denSide_map, denSide_congr _ _ (denSum_wo cfg.includeIntercept)]
    cases denSide denSum l ltail with
    | error e => rfl
    | ok vl =>
      cases denSide (denRhs cfg.includeIntercept) p tail with
      | error e => rfl
      | ok vr => simp only [wrapCheck, Except.map, wrapRoot]

/-! ### from the string -/

open FormulaicVerif.Proofs.C01Spans (erL interceptTokens_erase tokensToAst_erase evalAst_erase lhsVariables_erase)

/-- `parseToks` does not look at source spans -/
theorem parseToks_erase (cfg : ParseCfg) (env : PyEnv) (ts : List Tok) :
    parseToks cfg env (erL ts) = parseToks cfg env ts := by
  unfold parseToks
  rw [interceptTokens_erase]
  simp only
  rw [tokensToAst_erase]
  cases tokensToAst cfg.table (interceptTokens cfg.includeIntercept ts).1 with
  | error e => rfl
  | ok o =>
    cases o with
    | none => rfl
    | some a => simp only [evalAst_erase, lhsVariables_erase]

/-- **parse = denotation from the string**: if the string tokenises, its Python fragments normalise,
and the resulting token sequence is — up to source spans — the token sequence of a formula `f` of the
documented grammar that the feature flags allow and that contains no literal `0`, then
`DefaultFormulaParser(cfg).get_terms(string)` is the documented denotation of `f` -/
theorem parse_eq_denote_string (cfg : ParseCfg) (env : PyEnv) (cs : List CharInfo) (ts0 ts : List Tok)
    (f : Formula) (h1 : tokenizeStream cs = (ts0, none)) (h2 : sanitizeTokens env.norm ts0 = .ok ts)
    (h3 : erL ts = f.toks) (hen : f.Enabled cfg) (hz : NoZero f.toks) :
    parseTerms cfg env cs = denoteFormula cfg f := by
  rw [parseTerms_of_tokens cfg env cs ts0 ts h1 h2, ← parseToks_erase, h3]
  exact parse_eq_denote_tokens cfg env f hen hz

/-! ### from ANY token list that is rewritten to something the shunting-yard reads as the formula -/

/-- the token sequence of the formula as the parser reads it: `1 +` in front of every right-hand part -/
def _root_.FormulaicVerif.Spec.Denote.Formula.rewritten (add : Bool) : Formula → List Tok
  | .one p tail => partsToks (wo add p) (tail.map (wo add))
  | .tilde p tail => opTok tildeSym :: partsToks (wo add p) (tail.map (wo add))
  | .two l ltail p tail => partsToks l ltail ++ opTok tildeSym :: partsToks (wo add p) (tail.map (wo add))

/-- if the rewriting of `ts` gives the shunting-yard the same tree as the rewritten tokens of `f`, then `ts`
parses to the denotation of `f` (whatever `ts` looks like: sign runs, zeros, merged tokens) -/
theorem parseToks_of_rewritten (cfg : ParseCfg) (env : PyEnv) (ts : List Tok) (f : Formula) (hen : f.Enabled cfg)
    (h : tokensToAst cfg.table (interceptTokens cfg.includeIntercept ts).1
      = tokensToAst cfg.table (f.rewritten cfg.includeIntercept)) :
    parseToks cfg env ts = denoteFormula cfg f := by
  cases f with
  | one p tail =>
    have hparse := multipart_parses_doc cfg.twosided cfg.multipart cfg.multistage
      (wo cfg.includeIntercept p) (tail.map (wo cfg.includeIntercept)) (map_eq_nil_or _ _ _ hen)
    rw [← table_doc] at hparse
    have hparse' := h.trans hparse
    rw [parseToks_of cfg env _ _ _ hparse' (fun dot => eval_side dot _ _),
      wrapCheck_root _ (fun v hv => denSide_shape _ _ _ v hv)]
    simp only [denoteFormula, denStruct]
    rw [denSide_map, denSide_congr _ _ (denSum_wo cfg.includeIntercept)]
  | tilde p tail =>
    have hparse := onesided_tilde_parses_doc cfg.twosided cfg.multipart cfg.multistage
      (wo cfg.includeIntercept p) (tail.map (wo cfg.includeIntercept)) (map_eq_nil_or _ _ _ hen)
    rw [← table_doc] at hparse
    have hparse' := h.trans hparse
    have heval : ∀ dot, evalAst dot (.node tildeP [partsTree (wo cfg.includeIntercept p) (tail.map (wo cfg.includeIntercept))])
        = denSide denSum (wo cfg.includeIntercept p) (tail.map (wo cfg.includeIntercept)) := by
      intro dot
      rw [evalAst_node, evalArgs_cons, eval_side, evalArgs_nil]
      cases denSide denSum (wo cfg.includeIntercept p) (tail.map (wo cfg.includeIntercept)) <;> rfl
    rw [parseToks_of cfg env _ _ _ hparse' heval,
      wrapCheck_root _ (fun v hv => denSide_shape _ _ _ v hv)]
    simp only [denoteFormula, denStruct]
    rw [denSide_map, denSide_congr _ _ (denSum_wo cfg.includeIntercept)]
  | two l ltail p tail =>
    obtain ⟨htwo, hmp⟩ := hen
    have hmp' : (ltail = [] ∧ tail.map (wo cfg.includeIntercept) = []) ∨ cfg.multipart = true := by
      rcases hmp with ⟨h1, h2⟩ | h
      · exact Or.inl ⟨h1, by rw [h2]; rfl⟩
      · exact Or.inr h
    have hparse := twosided_parses_doc cfg.multipart cfg.multistage l ltail
      (wo cfg.includeIntercept p) (tail.map (wo cfg.includeIntercept)) hmp'
    have htab : cfg.table = documentedTable true cfg.multipart cfg.multistage := by rw [table_doc, htwo]
    rw [← htab] at hparse
    have hparse' := h.trans hparse
    have heval : ∀ dot, evalAst dot (.node tilde [partsTree l ltail,
          partsTree (wo cfg.includeIntercept p) (tail.map (wo cfg.includeIntercept))])
        = (match denSide denSum l ltail with
           | .error e => .error e
           | .ok vl => match denSide denSum (wo cfg.includeIntercept p) (tail.map (wo cfg.includeIntercept)) with
             | .error e => .error e
             | .ok vr => .ok (.struct [("lhs", vl), ("rhs", vr)])) := by
      intro dot
      rw [evalAst_node, evalArgs_cons, eval_side, evalArgs_cons, eval_side, evalArgs_nil]
      cases denSide denSum l ltail with
      | error e => rfl
      | ok vl =>
        cases denSide denSum (wo cfg.includeIntercept p) (tail.map (wo cfg.includeIntercept)) with
        | error e => rfl
        | ok vr =>
          show Except.ok (mkStruct [("lhs", vl), ("rhs", vr)] none) = _
          rw [mkStruct_lhs_rhs]
    rw [parseToks_of cfg env _ _ _ hparse' heval]
    simp only [denoteFormula, denStruct]
    rw [denSide_map, denSide_congr _ _ (denSum_wo cfg.includeIntercept)]
    cases denSide denSum l ltail with
    | error e => rfl
    | ok vl =>
      cases denSide (denRhs cfg.includeIntercept) p tail with
      | error e => rfl
      | ok vr => simp only [wrapCheck, Except.map, wrapRoot]

end FormulaicVerif.Proofs.C01Denote
