import FormulaicVerif.Proofs.C12Piece
import Mathlib.Analysis.Calculus.Deriv.Basic
import Mathlib.Data.Rat.Cast.CharZero

/-! Helper lemmas for C12 (not obligations): real-analysis reading of "C²".  Two adjacent rational
pieces whose values, `d1` and `d2` agree at the shared knot glue to a function `ℝ → ℝ` that is
twice differentiable EVERYWHERE (Mathlib `HasDerivAt`), with derivative the glued `d1` and second
derivative the glued `d2`. -/

namespace FormulaicVerif.Proofs.C12
open FormulaicVerif.Spec.CubicSpline Set

/-- two functions glued at `k` -/
noncomputable def glue (f g : ℝ → ℝ) (k : ℝ) : ℝ → ℝ := fun x => if x ≤ k then f x else g x

/-- gluing two differentiable functions at a point where values and derivatives agree gives a
function that is differentiable there (the two one-sided derivatives combine) -/
theorem glue_hasDerivAt (f g : ℝ → ℝ) (k d : ℝ) (hf : HasDerivAt f d k) (hg : HasDerivAt g d k)
    (hv : f k = g k) : HasDerivAt (glue f g k) d k := by
  unfold glue
  have hl : HasDerivWithinAt (fun x => if x ≤ k then f x else g x) d (Iic k) k := by
    refine hf.hasDerivWithinAt.congr (fun x hx => by simp [mem_Iic.1 hx]) (by simp)
  have hr : HasDerivWithinAt (fun x => if x ≤ k then f x else g x) d (Ici k) k := by
    refine hg.hasDerivWithinAt.congr (fun x hx => ?_) (by simp [hv])
    rcases eq_or_lt_of_le (mem_Ici.1 hx) with h | h
    · subst h; simp [hv]
    · simp [not_le.2 h]
  have := hl.union hr
  rwa [Iic_union_Ici, hasDerivWithinAt_univ] at this

/-- … and everywhere: the derivative of the glued function is the glued derivative -/
theorem glue_hasDerivAt_all (f g f' g' : ℝ → ℝ) (k : ℝ) (hf : ∀ x, HasDerivAt f (f' x) x)
    (hg : ∀ x, HasDerivAt g (g' x) x) (hv : f k = g k) (hd : f' k = g' k) (x : ℝ) :
    HasDerivAt (glue f g k) (glue f' g' k x) x := by
  rcases lt_trichotomy x k with h | h | h
  · have e : glue f g k =ᶠ[nhds x] f := by
      filter_upwards [Iio_mem_nhds h] with y hy
      simp [glue, le_of_lt (mem_Iio.1 hy)]
    have : glue f' g' k x = f' x := by simp [glue, le_of_lt h]
    rw [this]
    exact (hf x).congr_of_eventuallyEq e
  · subst h
    have : glue f' g' x x = f' x := by simp [glue]
    rw [this]
    exact glue_hasDerivAt f g x (f' x) (hf x) (hd ▸ hg x) hv
  · have e : glue f g k =ᶠ[nhds x] g := by
      filter_upwards [Ioi_mem_nhds h] with y hy
      simp [glue, not_le.2 (mem_Ioi.1 hy)]
    have : glue f' g' k x = g' x := by simp [glue, not_le.2 h]
    rw [this]
    exact (hg x).congr_of_eventuallyEq e

/-- a rational piece read over the reals -/
def _root_.FormulaicVerif.Spec.CubicSpline.Piece.toReal (p : Piece ℚ) : Piece ℝ :=
  { kl := p.kl, kr := p.kr, yl := p.yl, yr := p.yr, ml := p.ml, mr := p.mr }

theorem Piece.toReal_val (p : Piece ℚ) (x : ℚ) : p.toReal.val (x : ℝ) = ((p.val x : ℚ) : ℝ) := by
  simp only [Piece.toReal, Piece.val, Piece.h]; push_cast; ring
theorem Piece.toReal_d1 (p : Piece ℚ) (x : ℚ) : p.toReal.d1 (x : ℝ) = ((p.d1 x : ℚ) : ℝ) := by
  simp only [Piece.toReal, Piece.d1, Piece.h]; push_cast; ring
theorem Piece.toReal_d2 (p : Piece ℚ) (x : ℚ) : p.toReal.d2 (x : ℝ) = ((p.d2 x : ℚ) : ℝ) := by
  simp only [Piece.toReal, Piece.d2, Piece.h]; push_cast; ring
theorem Piece.toReal_h_ne (p : Piece ℚ) (h : p.h ≠ 0) : p.toReal.h ≠ 0 := by
  simp only [Piece.toReal, Piece.h] at h ⊢
  exact_mod_cast h

/-- **two adjacent rational pieces whose values, first and second derivatives agree at the shared
knot glue to a real function that is twice differentiable everywhere**, with first derivative
the glued `d1` and second derivative the glued `d2` -/
theorem pieces_glue_C2 (p q : Piece ℚ) (hp : p.h ≠ 0) (hq : q.h ≠ 0) (hk : p.kr = q.kl)
    (h0 : p.val p.kr = q.val q.kl) (h1 : p.d1 p.kr = q.d1 q.kl) (h2 : p.d2 p.kr = q.d2 q.kl) (x : ℝ) :
    HasDerivAt (glue p.toReal.val q.toReal.val (p.kr : ℝ))
        (glue p.toReal.d1 q.toReal.d1 (p.kr : ℝ) x) x ∧
      HasDerivAt (glue p.toReal.d1 q.toReal.d1 (p.kr : ℝ))
        (glue p.toReal.d2 q.toReal.d2 (p.kr : ℝ) x) x := by
  have c0 : p.toReal.val (p.kr : ℝ) = q.toReal.val (p.kr : ℝ) := by
    rw [Piece.toReal_val, hk, Piece.toReal_val, ← hk, h0, hk]
  have c1 : p.toReal.d1 (p.kr : ℝ) = q.toReal.d1 (p.kr : ℝ) := by
    rw [Piece.toReal_d1, hk, Piece.toReal_d1, ← hk, h1, hk]
  have c2 : p.toReal.d2 (p.kr : ℝ) = q.toReal.d2 (p.kr : ℝ) := by
    rw [Piece.toReal_d2, hk, Piece.toReal_d2, ← hk, h2, hk]
  exact ⟨glue_hasDerivAt_all _ _ _ _ _ (Piece.hasDerivAt_val _) (Piece.hasDerivAt_val _) c0 c1 x,
    glue_hasDerivAt_all _ _ _ _ _ (Piece.hasDerivAt_d1 _ (Piece.toReal_h_ne p hp))
      (Piece.hasDerivAt_d1 _ (Piece.toReal_h_ne q hq)) c1 c2 x⟩

end FormulaicVerif.Proofs.C12
